#!/bin/bash
# confirm_mutant.sh <worktree> <mutant-dir> : independent confirmation of a seeded change:
#  with patch: builds, demo FAILS, `make check` passes (19 PASS);  without patch: demo PASSES.
WT="$1"; M="$2"; LOG="$M/confirm.log"
{
cd "$WT" && git checkout -q -- . && git apply "$M/patch.diff" || { echo "RESULT patch-does-not-apply"; exit 1; }
make -j6 >/dev/null 2>&1 || { echo "RESULT does-not-compile"; git checkout -q -- .; exit 1; }
make -C src/libmps libmpsprivate.la >/dev/null 2>&1
( cd "$M" && MPS_ROOT="$WT" timeout 600 bash ./run_demo.sh "$WT" ) > "$M/demo_with.out" 2>&1; d1=$?
make check -j6 > "$M/check_with.out" 2>&1
npass=$(grep -c "^PASS:" "$M/check_with.out"); nfail=$(grep -c "^FAIL:\|^ERROR:" "$M/check_with.out")
git checkout -q -- . && make -j6 >/dev/null 2>&1 && make -C src/libmps libmpsprivate.la >/dev/null 2>&1
( cd "$M" && MPS_ROOT="$WT" timeout 600 bash ./run_demo.sh "$WT" ) > "$M/demo_without.out" 2>&1; d0=$?
echo "RESULT demo_with_patch_rc=$d1 tests_pass=$npass tests_fail=$nfail demo_without_patch_rc=$d0"
} > "$LOG" 2>&1
tail -1 "$LOG"
