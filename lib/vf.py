"""Shared machinery for the /verif checks (see DESIGN.md section 1.3).

A property check is a module checks/<ID>.py with a function run(ctx) that uses
the helpers below:

    ctx.build_repo(mode)          snapshot /repo's working tree + compile libmps
    ctx.compile_harness(...)      compile + link a C/C++ harness against it
    ctx.prove()                   re-check coq/Props/Properties_<ID>.v with coqc,
                                  collect theorems + Print Assumptions
    ctx.run_model(bin, text)      run an extracted OCaml model driver
    ctx.violation(sig, what, replay_obj, ...)   record a violation (known-findings aware)
    ctx.finish(coverage)          write evidence, print verdict lines, exit code

Nothing here decides a property; it only keeps the contract of MANIFEST.json
(VIOLATION line, KNOWN-FINDING line, evidence file, exit status) in one place.
"""
import atexit, json, os, re, shutil, subprocess, sys, tempfile, time, random, hashlib

VERIF = os.path.dirname(os.path.dirname(os.path.abspath(__file__)))
REPO = os.environ.get("VERIF_REPO", "/repo")
COQDIR = os.path.join(VERIF, "coq")
BINDIR = os.path.join(VERIF, "bin")
LOGICAL = "MPSV"

# Axioms declared by Coq's standard library (or by libraries shipped with it) that
# the development is allowed to depend on; every one is named in DESIGN.md section 5.
ALLOWED_AXIOMS = {
    "ClassicalDedekindReals.sig_forall_dec",
    "ClassicalDedekindReals.sig_not_dec",
    "FunctionalExtensionality.functional_extensionality_dep",
    "Classical_Prop.classic",
    "Eqdep.Eq_rect_eq.eq_rect_eq",
    "JMeq.JMeq_eq",
    "ProofIrrelevance.proof_irrelevance",
    "ClassicalEpsilon.constructive_indefinite_description",
    "Epsilon.epsilon_statement",
    "PropExtensionality.propositional_extensionality",
    "ClassicalUniqueChoice.dependent_unique_choice",
    "ClassicalChoice.choice",
    "RelationalChoice.relational_choice",
    "IndefiniteDescription.constructive_indefinite_description",
    "Description.constructive_definite_description",
}
# Kernel primitives (native integers / floats / arrays) that Print Assumptions lists
# when a library (Flocq, Interval, Bignums) uses them.  They are not axioms of ours.
PRIMITIVE_PREFIXES = ("PrimInt63.", "PrimFloat.", "PrimArray.", "Uint63.", "Sint63.", "FloatOps.",
                      "FloatAxioms.", "Uint63Axioms.", "Int63.", "PArray.", "CarryType.", "PrimString.")

FORBIDDEN_RE = re.compile(
    r"\bAdmitted\b|\badmit\b|^\s*(Local\s+|Global\s+|Polymorphic\s+)?(Axiom|Axioms|Parameter|Parameters|Conjecture|Conjectures)\b"
    r"|Admit\s+Obligations|Unset\s+Guard|bypass_check|type-in-type|impredicative-set"
    r"|Unset\s+Positivity|Unset\s+Universe\s+Checking", re.M)


def sh(cmd, timeout=None, cwd=None, input=None, env=None, check=False):
    """Run a command (list or shell string); return (rc, stdout, stderr)."""
    shell = isinstance(cmd, str)
    try:
        p = subprocess.run(cmd, shell=shell, cwd=cwd, input=input, env=env, timeout=timeout,
                           stdout=subprocess.PIPE, stderr=subprocess.PIPE, text=True, errors="replace")
        rc, out, err = p.returncode, p.stdout, p.stderr
    except subprocess.TimeoutExpired as e:
        def _s(x):
            if x is None: return ""
            return x if isinstance(x, str) else x.decode("utf-8", "replace")
        rc, out, err = 124, _s(e.stdout), _s(e.stderr) + "\n[timeout]"
    if check and rc != 0:
        raise RuntimeError("command failed rc=%d: %s\n%s\n%s" % (rc, cmd, out[-2000:], err[-2000:]))
    return rc, out, err


def strip_coq_comments(text):
    out, depth, i, n = [], 0, 0, len(text)
    while i < n:
        if text.startswith("(*", i):
            depth += 1; i += 2
        elif text.startswith("*)", i) and depth > 0:
            depth -= 1; i += 2
        else:
            if depth == 0: out.append(text[i])
            elif text[i] == "\n": out.append("\n")
            i += 1
    return "".join(out)


class InfraError(Exception):
    pass


class Ctx:
    def __init__(self, pid, tier="quick", seed=None, replay=None):
        self.pid = pid
        self.tier = tier
        self.seed = int(seed if seed is not None else os.environ.get("VERIF_SEED", "1"))
        self.replay = replay
        self.t0 = time.time()
        self.rng = random.Random(self.seed * 1000003 + int(hashlib.sha1(pid.encode()).hexdigest()[:6], 16))
        base = os.environ.get("VERIF_SCRATCH", "/var/tmp")
        os.makedirs(base, exist_ok=True)
        self.scratch = tempfile.mkdtemp(prefix="mpsverif.%s." % pid, dir=base)
        atexit.register(self._cleanup)
        self.violations = []     # unlisted violations -> exit 1
        self.known_hits = []     # listed findings seen
        self.notes = []
        self.proof = None
        self.builds = {}
        self.known = self._load_known()
        os.makedirs(os.path.join(VERIF, "evidence"), exist_ok=True)
        os.makedirs(os.path.join(VERIF, "replays"), exist_ok=True)

    # ------------------------------------------------------------------ plumbing
    def _cleanup(self):
        if os.environ.get("VERIF_KEEP"):
            sys.stderr.write("[keep] %s\n" % self.scratch); return
        shutil.rmtree(self.scratch, ignore_errors=True)

    def log(self, *a):
        sys.stderr.write("[%s %6.1fs] %s\n" % (self.pid, time.time() - self.t0, " ".join(str(x) for x in a)))
        sys.stderr.flush()

    def quick(self):
        return self.tier != "thorough"

    def pick(self, q, t):
        return q if self.quick() else t

    # ------------------------------------------------------------------ repo build
    def build_repo(self, mode="san", lib_cflags="", tag=None):
        """Snapshot + compile /repo's working tree.  Returns the build directory.
        lib_cflags: extra compiler flags for EVERY libmps source of this build (e.g. '-include /verif/harness/cNN_hooks.h
        -DVF_CNN_TRACE=1' for a hooked build; the header is then seen after harness/vf_hooks.h); such a build is cached under `tag`."""
        key = mode if not (lib_cflags or tag) else "%s_%s" % (mode, tag or "x%08x" % (hash(lib_cflags) & 0xffffffff))
        if key in self.builds:
            return self.builds[key]
        d = os.path.join(self.scratch, "build_" + key)
        env = dict(os.environ); env["VF_EXTRA_CFLAGS"] = lib_cflags
        rc, out, err = sh([os.path.join(VERIF, "lib", "build_repo.sh"), d, mode], timeout=900, env=env)
        if rc != 0:
            raise InfraError("building /repo (mode %s) failed:\n%s" % (key, err[-3000:]))
        self.builds[key] = d
        self.log("built /repo snapshot (%s)" % key)
        return d

    def snap(self, mode="san"):
        return os.path.join(self.build_repo(mode), "snap")

    def compile_harness(self, sources, out_name, mode="san", extra_cflags="", extra_ldflags="", cxx=None, lib_cflags="", tag=None):
        """Compile harness source files (paths relative to /verif/harness or absolute) and link with libmps."""
        b = self.build_repo(mode, lib_cflags, tag)
        cflags = open(os.path.join(b, "cflags")).read().strip()
        ldflags = open(os.path.join(b, "ldflags")).read().strip()
        if isinstance(sources, str): sources = [sources]
        srcs = [s if os.path.isabs(s) else os.path.join(VERIF, "harness", s) for s in sources]
        if cxx is None:
            cxx = any(s.endswith((".cpp", ".cc")) for s in srcs)
        out = os.path.join(b, out_name)
        objs = []
        for s in srcs:
            o = os.path.join(b, "h_" + os.path.basename(s) + ".o")
            comp = "g++ -std=gnu++11" if s.endswith((".cpp", ".cc")) else "gcc"
            rc, so, se = sh("%s %s -I%s/harness %s -c %s -o %s" % (comp, cflags, VERIF, extra_cflags, s, o), timeout=600)
            if rc != 0:
                raise InfraError("compiling harness %s failed:\n%s" % (s, se[-3000:]))
            objs.append(o)
        rc, so, se = sh("g++ %s -o %s %s %s" % (" ".join(objs), out, extra_ldflags, ldflags), timeout=600)
        if rc != 0:
            raise InfraError("linking harness %s failed:\n%s" % (out_name, se[-3000:]))
        return out

    def san_env(self, extra=None):
        env = dict(os.environ)
        env["ASAN_OPTIONS"] = "detect_leaks=0:abort_on_error=0:exitcode=97:allocator_may_return_null=1"
        env["UBSAN_OPTIONS"] = "print_stacktrace=1:halt_on_error=1:exitcode=98"
        if extra: env.update(extra)
        return env

    # ------------------------------------------------------------------ proofs
    def forbidden_scan(self):
        bad = []
        for root, _, files in os.walk(COQDIR):
            if os.path.relpath(root, COQDIR).split(os.sep)[0] == "scratch":
                continue   # coq/scratch/ is git-ignored and outside the build (Makefile excludes it): parked work in progress
            for f in files:
                if f.endswith(".v"):
                    p = os.path.join(root, f)
                    txt = strip_coq_comments(open(p, errors="replace").read())
                    for m in FORBIDDEN_RE.finditer(txt):
                        line = txt.count("\n", 0, m.start()) + 1
                        bad.append("%s:%d:%s" % (os.path.relpath(p, VERIF), line, m.group(0).strip()))
        for cfg in ("_CoqProject",):
            p = os.path.join(COQDIR, cfg)
            if os.path.exists(p):
                t = open(p).read()
                if "-type-in-type" in t or "-impredicative-set" in t or "-bypass" in t:
                    bad.append("%s: forbidden flag" % cfg)
        return bad

    def prove(self, props_file=None, deps_targets=None, timeout=1500, extra_files=()):
        """Re-check the property's theorem file with coqc (after make of its dependencies).

        Returns a dict: theorems (names), assumptions {name: [axioms]}, ok (bool), log.
        The Props file contains only `Theorem X : stmt. Proof. exact lemma. Qed.` and
        `Print Assumptions X.` lines; it is recompiled from scratch on every run so
        that its output (the assumption lists) is this run's output.
        """
        pid = self.pid
        props_file = props_file or os.path.join("Props", "Properties_%s.v" % pid)
        res = {"file": props_file, "theorems": [], "assumptions": {}, "ok": False, "log": "", "bad_axioms": [],
               "forbidden": [], "failed_stage": None}
        self.proof = res
        # coq/ is shared by all checks.  Two locks: .prove.lock (short: Makefile/dependency regeneration and the up-to-date
        # test) and .build.lock (long: an actual compilation of dependencies).  A check whose dependency cone is up to date
        # never waits for somebody else's compilation.
        import fcntl
        def locked(name):
            f = open(os.path.join(COQDIR, name), "w"); fcntl.flock(f, fcntl.LOCK_EX); return f
        def unlock(f):
            fcntl.flock(f, fcntl.LOCK_UN); f.close()
        lk = locked(".prove.lock")
        try:
            r = self._prove_locked(res, props_file, deps_targets, timeout, question=True)
        finally:
            unlock(lk)
        if r.get("needs_build"):
            bl = locked(".build.lock")
            try:
                r = self._prove_locked(res, props_file, deps_targets, timeout, question=False)
            finally:
                unlock(bl)
        if r.get("failed_stage") is None and not r.get("ok"):
            # the statement file itself is re-compiled OUTSIDE the locks (it writes nothing that another check reads)
            r = self._prove_statements(res, props_file)
        return r

    def _prove_locked(self, res, props_file, deps_targets, timeout, question=False):
        pid = self.pid
        rc, o, e = sh(["make", "-C", VERIF, "coq/Makefile"], timeout=300)
        if rc != 0:
            res["log"] = o + e; res["failed_stage"] = "coq_makefile"; return res
        vo = props_file[:-2] + ".vo"
        txt = open(os.path.join(COQDIR, props_file)).read()
        code = strip_coq_comments(txt)
        res["theorems"] = re.findall(r"^\s*(?:Theorem|Corollary)\s+([A-Za-z0-9_']+)", code, re.M)
        printed = re.findall(r"^\s*Print\s+Assumptions\s+([A-Za-z0-9_'.]+)\s*\.", code, re.M)
        res["forbidden"] = self.forbidden_scan()
        # 1. dependencies (and regenerated Gen files) through make: full .vo build, never -vos
        # (only the dependencies: the statement file is compiled once, outside the lock, by _prove_statements)
        rc, o, e = sh(["coqdep", "-R", ".", LOGICAL, props_file], cwd=COQDIR, timeout=120)
        deps = []
        for line in o.splitlines():
            if line.startswith(vo) and ":" in line:
                deps = [d for d in line.split(":", 1)[1].split() if d.endswith(".vo")]
        if rc != 0 or not deps:
            deps = [vo]          # fall back to building the statement file through make as well
        targets = deps + list(deps_targets or [])
        res.pop("needs_build", None)
        if question:
            rc, o, e = sh(["make", "-q"] + targets, cwd=COQDIR, timeout=600)
            if rc != 0:
                res["needs_build"] = True
            return res
        rc, o, e = sh(["timeout", str(timeout), "make", "-k", "-j", os.environ.get("VERIF_JOBS", "16")] + targets,
                      cwd=COQDIR, timeout=timeout + 30)
        res["log"] = (o + "\n" + e)[-6000:]
        if rc != 0:
            res["failed_stage"] = "make"
            m = re.search(r'File "([^"]+)", line (\d+)', o + e)
            res["failed_at"] = m.group(0) if m else None
            return res
        return res

    def _prove_statements(self, res, props_file):
        pid = self.pid
        code = strip_coq_comments(open(os.path.join(COQDIR, props_file)).read())
        printed = re.findall(r"^\s*Print\s+Assumptions\s+([A-Za-z0-9_'.]+)\s*\.", code, re.M)
        # 2. the statement file itself, output captured (compiled into the scratch directory: concurrent runs do not collide)
        outvo = os.path.join(self.scratch, os.path.basename(props_file)[:-2] + ".vo")
        rc, o, e = sh(["timeout", "900", "coqc", "-q", "-noglob", "-R", ".", LOGICAL, "-o", outvo, props_file], cwd=COQDIR, timeout=930)
        res["log"] = (o + "\n" + e)[-6000:]
        if rc != 0:
            res["failed_stage"] = "coqc-props"; return res
        # parse Print Assumptions blocks in order
        blocks = re.split(r"^(?=Closed under the global context|Axioms:|Section Variables:)", o, flags=re.M)
        blocks = [b for b in blocks if b.startswith(("Closed under", "Axioms:", "Section Variables:"))]
        if len(blocks) != len(printed):
            res["failed_stage"] = "assumption-parse"
            res["log"] += "\n[expected %d Print Assumptions blocks, got %d]" % (len(printed), len(blocks))
            return res
        for name, b in zip(printed, blocks):
            axs = []
            if b.startswith("Axioms:"):
                for line in b.splitlines()[1:]:
                    m = re.match(r"^([A-Za-z_][A-Za-z0-9_'.]*)\s*(:|$)", line)
                    if m: axs.append(m.group(1))
            if b.startswith("Section Variables:"):
                axs.append("SECTION-VARIABLE")
            res["assumptions"][name] = axs
            for a in axs:
                if a in ALLOWED_AXIOMS or a.startswith(PRIMITIVE_PREFIXES):
                    continue
                res["bad_axioms"].append("%s depends on %s" % (name, a))
        missing = [t for t in res["theorems"] if t not in res["assumptions"]]
        if missing:
            res["failed_stage"] = "missing Print Assumptions for " + ",".join(missing); return res
        if res["bad_axioms"]:
            res["failed_stage"] = "axioms"; return res
        if res["forbidden"]:
            res["failed_stage"] = "forbidden-constructs"; return res
        res["ok"] = True
        self.log("proofs re-checked: %d theorems in %s" % (len(res["theorems"]), props_file))
        return res

    def proof_coverage(self):
        p = self.proof or {}
        n = len(p.get("theorems", []))
        axioms = sorted({a for v in p.get("assumptions", {}).values() for a in v})
        return {
            "obligations": n,
            "discharged": n if p.get("ok") else 0,
            "checker_cmd": "make -C coq %s.vo && coqc -q -R . MPSV %s  (Coq 8.16.1 kernel, full .vo build)" % (
                p.get("file", "?")[:-2], p.get("file", "?")),
            "theorems": p.get("theorems", []),
            "axioms_used": axioms,
        }

    # ------------------------------------------------------------------ extracted models
    def model_bin(self, name):
        p = os.path.join(BINDIR, name)
        if not os.path.exists(p):
            rc, o, e = sh(["make", "-C", VERIF, "ocaml"], timeout=1800)
            if not os.path.exists(p):
                raise InfraError("extracted model %s is not built (run `make -C /verif setup`):\n%s" % (name, e[-2000:]))
        return p

    def run_model(self, name, text, args=(), timeout=1800):
        rc, o, e = sh([self.model_bin(name)] + list(args), input=text, timeout=timeout)
        if rc != 0:
            raise InfraError("model driver %s failed rc=%d: %s" % (name, rc, e[-2000:]))
        return o

    def run_model_lines(self, name, lines, workers=16, timeout=1800):
        """Run a line-in/line-out model driver on many independent lines, split over several processes.
        Returns the list of output lines in input order."""
        import concurrent.futures
        if not lines: return []
        k = max(1, min(workers, len(lines) // 4 or 1))
        chunks = [lines[i::k] for i in range(k)]
        def one(ch):
            return self.run_model(name, "\n".join(ch) + "\n", timeout=timeout).split("\n")[:len(ch)]
        with concurrent.futures.ThreadPoolExecutor(max_workers=k) as ex:
            outs = list(ex.map(one, chunks))
        res = [None] * len(lines)
        for j, o in enumerate(outs):
            if len(o) != len(chunks[j]):
                raise InfraError("model driver %s returned %d lines for %d inputs" % (name, len(o), len(chunks[j])))
            for t, line in enumerate(o): res[j + t * k] = line
        return res

    # ------------------------------------------------------------------ findings / verdict
    def _load_known(self):
        p = os.path.join(VERIF, "known_findings.json")
        if not os.path.exists(p): return []
        try:
            d = json.load(open(p))
        except Exception:
            return []
        return [f for f in d.get("findings", []) if f.get("property") == self.pid and f.get("status", "open") == "open"]

    def write_replay(self, name, obj):
        safe = re.sub(r"[^A-Za-z0-9_.-]", "_", name)[:80]
        p = os.path.join(VERIF, "replays", "%s_%s.json" % (self.pid, safe))
        with open(p, "w") as f:
            json.dump(obj, f, indent=1, default=str)
        return p

    def violation(self, signature, what, replay_obj, no_input=False):
        """Record a violation.  `signature` identifies the failing input / call site exactly;
        it is what known_findings.json entries are matched against (exact string, or the
        entry's `signature_regex`)."""
        for k in self.known:
            if k.get("signature") == signature or (k.get("signature_regex") and re.fullmatch(k["signature_regex"], signature)):
                kid = k.get("signature") or k.get("signature_regex")
                if kid not in [h[2] for h in self.known_hits]:
                    self.known_hits.append((signature, k.get("what", what), kid))
                return False
        if signature in [v[0] for v in self.violations]:
            return True
        if len(self.violations) < 50:
            obj = dict(replay_obj) if isinstance(replay_obj, dict) else {"replay": replay_obj}
            obj.setdefault("property", self.pid)
            obj.setdefault("signature", signature)
            obj.setdefault("what", what)
            path = self.write_replay(signature, obj)
            self.violations.append((signature, what, path, no_input))
        return True

    def proof_violation_if_broken(self, search=None):
        """If the proof stage failed, run the property's failing-input search (callable returning
        True when it reported a concrete violation itself) and otherwise report
        no-failing-input-found, naming the obligation that no longer checks."""
        p = self.proof
        if p is None or p.get("ok"): return
        found = False
        if search is not None:
            try: found = bool(search())
            except InfraError: raise
            except Exception as ex: self.notes.append("search failed: %r" % (ex,))
        if not found:
            self.violation("proof:%s" % (p.get("failed_stage"),),
                           "proof obligations of %s no longer check (%s)" % (p.get("file"), p.get("failed_stage")),
                           {"broken": p.get("file"), "stage": p.get("failed_stage"), "failed_at": p.get("failed_at"),
                            "bad_axioms": p.get("bad_axioms"), "forbidden": p.get("forbidden"), "log": p.get("log", "")[-3000:]},
                           no_input=True)

    def finish(self, level, coverage, assumptions=None):
        cov = dict(coverage)
        if self.proof is not None:
            pc = self.proof_coverage()
            for k, v in pc.items(): cov.setdefault(k, v)
        cov.setdefault("trusted_base", [])
        cov["known_findings_seen"] = [h[2] for h in self.known_hits]
        cov["violations_reported"] = [s for s, _, _, _ in self.violations]
        if self.notes: cov["notes"] = self.notes[:40]
        ev = {"property_id": self.pid, "tier": self.tier, "seed": self.seed, "level": level, "coverage": cov,
              "assumptions": assumptions or [], "wall_s": round(time.time() - self.t0, 2),
              "violations": len(self.violations)}
        # evidence/ describes /repo itself: a run against another tree (VERIF_REPO=<scratch worktree with a seeded change>)
        # must not overwrite it
        evdir = os.environ.get("VERIF_EVIDENCE_DIR") or (os.path.join(VERIF, "evidence") if os.path.realpath(REPO) == "/repo"
                                                         else "/var/tmp/verif_evidence_other_tree")
        os.makedirs(evdir, exist_ok=True)
        with open(os.path.join(evdir, "%s.json" % self.pid), "w") as f:
            json.dump(ev, f, indent=1, default=str)
        for sig, what, kid in self.known_hits:
            print("KNOWN-FINDING: property=%s %s [%s]" % (self.pid, what, kid))
        for sig, what, path, no_input in self.violations:
            sys.stderr.write("violation: %s -- %s\n" % (sig, what))
        # concrete failing inputs first, then broken obligations / correspondences without one
        for sig, what, path, no_input in sorted(self.violations, key=lambda v: v[3])[:10]:
            print("VIOLATION property=%s replay=%s%s" % (self.pid, path, " no-failing-input-found" if no_input else ""))
        sys.stdout.flush()
        return 1 if self.violations else 0


def hexd(x):
    """double -> 16 hex digits of its IEEE bit pattern"""
    import struct
    return "%016x" % struct.unpack("<Q", struct.pack("<d", x))[0]


def dhex(s):
    import struct
    return struct.unpack("<d", struct.pack("<Q", int(s, 16)))[0]


def main(argv):
    import argparse, importlib.util
    ap = argparse.ArgumentParser()
    ap.add_argument("pid")
    ap.add_argument("--tier", default=os.environ.get("VERIF_TIER", "quick"))
    ap.add_argument("--replay", default=None)
    ap.add_argument("--seed", default=None)
    a = ap.parse_args(argv)
    tier = "thorough" if a.tier == "thorough" else "quick"
    modpath = os.path.join(VERIF, "checks", "%s.py" % a.pid)
    if not os.path.exists(modpath):
        sys.stderr.write("no check for %s\n" % a.pid); return 2
    spec = importlib.util.spec_from_file_location("check_" + a.pid, modpath)
    mod = importlib.util.module_from_spec(spec)
    sys.path.insert(0, os.path.join(VERIF, "lib")); sys.path.insert(0, os.path.join(VERIF, "checks"))
    spec.loader.exec_module(mod)
    ctx = Ctx(a.pid, tier, a.seed, a.replay)
    try:
        rc = mod.run(ctx)
    except InfraError as ex:
        sys.stderr.write("INFRASTRUCTURE ERROR (not a verdict): %s\n" % ex)
        return 2
    except Exception:
        # a bug in a check script is not a verdict either (an uncaught Python exception would exit 1)
        import traceback
        traceback.print_exc()
        sys.stderr.write("INTERNAL ERROR in the check script (not a verdict)\n")
        return 2
    return rc if isinstance(rc, int) else 0
