"""Client of the certified root oracle bin/cert ("mpscert").  Pure python, no third-party
modules.  See lib/ORACLE_API.md.

This module only *passes data*: Fractions are written as integer literals, answers are
read back.  All decisions (certificate valid? how many roots in a disc?) are taken by the
extracted, proved-sound Coq code in bin/cert.  The hint generator lib/oracle_hints.py
(python3-vt: mpmath/sympy) is untrusted.

    from oracle import Oracle
    o = Oracle([(-1, 0), (0, 0), (1, 0)])          # x^2 - 1, coefficients low -> high
    if o.certify(target_radius_log2=-200):          # False => undecided, never a violation
        o.count([(Fraction(1), Fraction(0), Fraction(1, 2))])   # -> [(1, 1)]
"""
import json, os, subprocess, sys
from fractions import Fraction

VERIF = os.path.dirname(os.path.dirname(os.path.abspath(__file__)))
CERT_BIN = os.path.join(VERIF, "bin", "cert")
HINTS = os.path.join(VERIF, "lib", "oracle_hints.py")
PY_VT = os.environ.get("VERIF_PY_VT", "python3-vt")


def _frac(x):
    if isinstance(x, Fraction):
        return x
    if isinstance(x, int):
        return Fraction(x)
    if isinstance(x, float):
        return Fraction(x)            # exact value of the double
    if isinstance(x, str):
        return Fraction(x)
    raise TypeError("cannot make an exact rational from %r" % (x,))


def _cfrac(c):
    """coefficient -> (Fraction re, Fraction im)"""
    if isinstance(c, complex):
        return (Fraction(c.real), Fraction(c.imag))
    if isinstance(c, (tuple, list)):
        if len(c) != 2:
            raise TypeError("coefficient must be (re, im)")
        return (_frac(c[0]), _frac(c[1]))
    return (_frac(c), Fraction(0))


def _lit(n):
    """integer literal for the driver (hex is parsed in linear time)"""
    n = int(n)
    if -10 ** 18 < n < 10 ** 18:
        return str(n)
    return hex(n)


class OracleError(Exception):
    pass


class Oracle:
    def __init__(self, coeffs, cert_bin=None):
        self.coeffs = [_cfrac(c) for c in coeffs]
        if not self.coeffs:
            raise ValueError("empty coefficient list")
        self.cert_bin = cert_bin or CERT_BIN
        self.proc = None
        self.certified = False
        self.why = ""              # reason when certify() returned False, route ("simple"/"sqf") otherwise
        self.hints = None
        self._roots = None
        self.ndiscs_sent = 0

    # ---- process plumbing ----
    def _start(self):
        self.close()
        if not os.access(self.cert_bin, os.X_OK):
            raise OracleError("oracle binary %s missing: run `make -C %s ocaml`" % (self.cert_bin, VERIF))
        self.proc = subprocess.Popen([self.cert_bin], stdin=subprocess.PIPE, stdout=subprocess.PIPE,
                                     text=True, bufsize=1)

    def _send(self, text):
        self.proc.stdin.write(text)
        self.proc.stdin.flush()

    def _line(self):
        l = self.proc.stdout.readline()
        if l == "":
            raise OracleError("oracle process died")
        l = l.rstrip("\n")
        if l.startswith("ERR"):
            raise OracleError(l)
        return l

    def close(self):
        if self.proc is not None:
            try:
                self.proc.stdin.close()
                self.proc.wait(timeout=5)
            except Exception:
                self.proc.kill()
            self.proc = None

    def __del__(self):
        try:
            self.close()
        except Exception:
            pass

    # ---- certificate ----
    def _poly_text(self):
        out = ["poly %d" % (len(self.coeffs) - 1)]
        for re, im in self.coeffs:
            out.append("%s %s %s %s" % (_lit(re.numerator), _lit(re.denominator),
                                        _lit(im.numerator), _lit(im.denominator)))
        return "\n".join(out) + "\n"

    def get_hints(self, target_radius_log2=-200, force_sqf=False, timeout=600, exact_only=False):
        req = {"coeffs": [[str(re.numerator), str(re.denominator), str(im.numerator), str(im.denominator)]
                          for re, im in self.coeffs],
               "target_log2": int(target_radius_log2), "force_sqf": bool(force_sqf),
               "exact_only": bool(exact_only)}
        try:
            p = subprocess.run([PY_VT, HINTS], input=json.dumps(req), stdout=subprocess.PIPE,
                               stderr=subprocess.PIPE, text=True, timeout=timeout)
        except subprocess.TimeoutExpired:
            return {"ok": False, "why": "hint generator timeout"}
        if p.returncode != 0:
            return {"ok": False, "why": "hint generator failed: " + p.stderr[-300:]}
        try:
            return json.loads(p.stdout)
        except ValueError:
            return {"ok": False, "why": "hint generator: bad output"}

    def cert_text(self, h):
        out = [self._poly_text()]
        out.append("pint %s %d\n" % (_lit(int(h["scale"])), len(h["pint"]) - 1))
        for a, b in h["pint"]:
            out.append("%s %s\n" % (_lit(int(a)), _lit(int(b))))
        out.append("mult %s %s %s %s\n" % (_lit(int(h["g"][0])), _lit(int(h["g"][1])),
                                           _lit(int(h["a"][0])), _lit(int(h["a"][1]))))
        for k, f in enumerate(h["factors"]):
            out.append("factor %d %d %d\n" % (int(f["m"]), len(f["q"]) - 1, int(f.get("prec", 0))))
            for a, b in f["q"]:
                out.append("%s %s\n" % (_lit(int(a)), _lit(int(b))))
        for k, f in enumerate(h["factors"]):
            for t in f["tiny"]:
                out.append("tiny %d %s %s %s %s\n" % (k, _lit(int(t[0])), _lit(int(t[1])),
                                                      _lit(int(t[2])), _lit(int(t[3]))))
        return "".join(out)

    def check_hints(self, h):
        """feed a (possibly wrong) certificate to bin/cert; True iff it prints CERT OK"""
        self._start()
        self.certified = False
        self._roots = None
        self._send("reset\nhexout\n" + self.cert_text(h) + "check\n")
        ans = self._line()
        if ans == "CERT OK":
            self.certified = True
            return True
        self.why = ans
        return False

    def certify(self, target_radius_log2=-200, timeout=600):
        """True: P is certified (all roots located in tiny discs of radius < 2^target_radius_log2,
        with exact multiplicities).  False: could not certify (undecided; see self.why)."""
        h = self.get_hints(target_radius_log2, timeout=timeout)
        if not h.get("ok") and "timeout" not in h.get("why", ""):
            h2 = self.get_hints(target_radius_log2, force_sqf=True, timeout=timeout)
            if h2.get("ok"):
                h = h2
        self.hints = h
        if not h.get("ok"):
            self.why = "no hints: " + str(h.get("why"))
            self.certified = False
            return False
        ok = self.check_hints(h)
        if ok:
            self.why = h.get("why", "")
        return ok

    def _need(self):
        if not self.certified or self.proc is None:
            raise OracleError("no checked certificate (certify() returned False or was not called)")

    # ---- queries (all answered by the proved-sound extracted code) ----
    @staticmethod
    def _disc_line(d):
        cre, cim, r = _frac(d[0]), _frac(d[1]), _frac(d[2])
        return "disc %s %s %s %s %s %s\n" % (_lit(cre.numerator), _lit(cre.denominator),
                                             _lit(cim.numerator), _lit(cim.denominator),
                                             _lit(r.numerator), _lit(r.denominator))

    def count(self, discs):
        """discs: iterable of (centre_re, centre_im, radius) exact rationals.
        Returns [(lo, hi)]: lo <= #roots of P in the CLOSED disc (with multiplicity) <= hi."""
        self._need()
        res = []
        for d in discs:
            self._send(self._disc_line(d))
            lo, hi = self._line().split()
            res.append((int(lo), int(hi)))
        return res

    def cover(self, discs):
        """For each certified root (tiny disc, in .roots order) the list of indices of `discs`
        that certainly contain it (tiny disc inside the closed query disc).  Also sets
        self.all_covered (every root certainly covered) and self.uncovered (per root: True = its tiny
        disc is disjoint from every query disc, i.e. the root is certainly covered by none: a certified
        violation).  Empty list and uncovered False = a tiny disc straddles a boundary: undecided."""
        self._need()
        self._send("cleardiscs\n")
        self.count(discs)
        self._send("cover\n")
        l = self._line()
        assert l.startswith("COVER")
        u = self._line()
        assert u.startswith("UNCOVERED")
        self.uncovered = [x == "1" for x in u.split()[1:]]     # per root: certainly in NO query disc
        self.all_covered = (self._line() == "ALLCOVERED yes")
        self._send("cleardiscs\n")
        res = []
        for tok in l.split()[1:]:
            res.append([] if tok == "-" else [int(x) for x in tok.split(",")])
        return res

    def sides(self, kind):
        """kind in 're', 'im', 'unit': per root '+', '-' or '0':
        re: '+' Re z > 0, '-' Re z < 0;  im: same for Im z;  unit: '+' |z| > 1, '-' |z| < 1;
        '0' = the tiny disc straddles (undecided at this radius)."""
        self._need()
        self._send("side %s\n" % kind)
        l = self._line()
        assert l.startswith("SIDE")
        return l.split()[1:]

    def real_flags(self):
        """per root: True if certainly real (real polynomial and tiny disc centred on the real axis)"""
        self._need()
        self._send("real\n")
        l = self._line()
        return [x == "1" for x in l.split()[1:]]

    @property
    def roots(self):
        """[{'mult': m, 're': Fraction, 'im': Fraction, 'radius': Fraction}] as held by the checker"""
        self._need()
        if self._roots is None:
            self._send("roots\n")
            n = int(self._line().split()[1])
            rs = []
            for _ in range(n):
                m, a, b, r, s = self._line().split()
                a, b, r, s = int(a, 0), int(b, 0), int(r, 0), int(s, 0)
                rs.append({"mult": int(m), "re": Fraction(a, s), "im": Fraction(b, s), "radius": Fraction(r, s)})
            self._roots = rs
        return self._roots

    @property
    def degree_certified(self):
        return sum(r["mult"] for r in self.roots)


def certify_all(oracles, target_radius_log2=-200, workers=8, timeout=600):
    """certify() several Oracle objects concurrently (the work happens in subprocesses, so threads
    suffice).  target_radius_log2 may be a list (one per oracle).  Returns the list of booleans."""
    from concurrent.futures import ThreadPoolExecutor
    oracles = list(oracles)
    tl = target_radius_log2 if isinstance(target_radius_log2, (list, tuple)) else [target_radius_log2] * len(oracles)
    with ThreadPoolExecutor(max_workers=max(1, workers)) as ex:
        return list(ex.map(lambda ot: ot[0].certify(ot[1], timeout=timeout), zip(oracles, tl)))


# ---------- exact conversions to monomial coefficients.
# secular_to_monomial / chebyshev_to_monomial call the extracted Coq functions of coq/Roots/Transform.v
# (theorems secular_to_monomial_roots, chebyshev_to_monomial_sound); the *_py variants below are a pure
# python re-implementation used as fallback when bin/cert is missing and as a cross-check in the self-test.
def _cadd(x, y): return (x[0] + y[0], x[1] + y[1])
def _csub(x, y): return (x[0] - y[0], x[1] - y[1])
def _cmul(x, y): return (x[0] * y[0] - x[1] * y[1], x[0] * y[1] + x[1] * y[0])


def _pmul_lin(p, b):
    """p(x) * (x - b)"""
    z = (Fraction(0), Fraction(0))
    out = [z] * (len(p) + 1)
    for i, c in enumerate(p):
        out[i + 1] = _cadd(out[i + 1], c)
        out[i] = _csub(out[i], _cmul(c, b))
    return out


def secular_to_monomial_py(a, b):
    """Secular equation sum_i a_i/(x - b_i) - 1 = 0  ->  coefficients (low->high) of
    prod_j (x - b_j) - sum_i a_i prod_{j != i} (x - b_j), which has the same roots when the b_i are
    pairwise distinct and every a_i != 0."""
    a = [_cfrac(x) for x in a]; b = [_cfrac(x) for x in b]
    n = len(a)
    one = (Fraction(1), Fraction(0))
    full = [one]
    for bj in b:
        full = _pmul_lin(full, bj)
    res = list(full)
    for i in range(n):
        part = [one]
        for j in range(n):
            if j != i:
                part = _pmul_lin(part, b[j])
        for k, c in enumerate(part):
            res[k] = _csub(res[k], _cmul(a[i], c))
    return res


def chebyshev_to_monomial_py(c):
    """sum_k c_k T_k(x)  ->  monomial coefficients (low->high), T_0 = 1, T_1 = x, T_{k+1} = 2x T_k - T_{k-1}"""
    c = [_cfrac(x) for x in c]
    z = (Fraction(0), Fraction(0)); one = (Fraction(1), Fraction(0)); two = (Fraction(2), Fraction(0))
    n = len(c)
    res = [z] * max(n, 1)
    t_prev, t_cur = [one], [z, one]
    for k in range(n):
        t = t_prev if k == 0 else t_cur
        for i, v in enumerate(t):
            res[i] = _cadd(res[i], _cmul(c[k], v))
        if k >= 1:
            nxt = [z] + [_cmul(two, v) for v in t_cur]
            for i, v in enumerate(t_prev):
                nxt[i] = _csub(nxt[i], v)
            t_prev, t_cur = t_cur, nxt
    return res


def _run_transform(text, cert_bin=None):
    cert_bin = cert_bin or CERT_BIN
    p = subprocess.run([cert_bin], input="hexout\n" + text, stdout=subprocess.PIPE, text=True, timeout=600)
    lines = p.stdout.split("\n")
    if not lines or not lines[0].startswith("POLY"):
        raise OracleError("transform failed: " + (lines[0] if lines else "no output"))
    n = int(lines[0].split()[1])
    res = []
    for l in lines[1:n + 2]:
        a, b, c, d = [int(x, 0) for x in l.split()]
        res.append((Fraction(a, b), Fraction(c, d)))
    return res


def _q4(x):
    return "%s %s %s %s" % (_lit(x[0].numerator), _lit(x[0].denominator), _lit(x[1].numerator), _lit(x[1].denominator))


def secular_to_monomial(a, b, cert_bin=None):
    """Secular equation sum_i a_i/(x - b_i) - 1 = 0  ->  monomial coefficients (low->high) of
    prod_j (x - b_j) - sum_i a_i prod_{j != i} (x - b_j), computed by the extracted Coq function
    Transform.secular_to_monomial (same roots when the b_i are distinct and the a_i non-zero)."""
    a = [_cfrac(x) for x in a]; b = [_cfrac(x) for x in b]
    if len(a) != len(b):
        raise ValueError("secular: len(a) != len(b)")
    if not os.access(cert_bin or CERT_BIN, os.X_OK):
        return secular_to_monomial_py(a, b)
    text = "secular %d\n" % len(a) + "".join("%s %s\n" % (_q4(x), _q4(y)) for x, y in zip(a, b))
    return _run_transform(text, cert_bin)


def chebyshev_to_monomial(c, cert_bin=None):
    """sum_k c_k T_k(x) -> monomial coefficients (low->high), by the extracted Transform.chebyshev_to_monomial"""
    c = [_cfrac(x) for x in c]
    if not c:
        return [(Fraction(0), Fraction(0))]
    if not os.access(cert_bin or CERT_BIN, os.X_OK):
        return chebyshev_to_monomial_py(c)
    text = "cheb %d\n" % (len(c) - 1) + "".join("%s\n" % _q4(x) for x in c)
    return _run_transform(text, cert_bin)
