#!/bin/bash
# try_store_seed.sh <ID> <tag> <k> <dstk> : run the check against the (already confirmed) seeded change and store it as seeded/<ID>_<dstk>
ID="$1"; TAG="$2"; K="$3"; DK="$4"; M=/tmp/mut_${ID}${TAG}_out/$K
OUT=/var/tmp/runs/mut_${ID}_${DK}.out
bash /verif/lib/try_mutant.sh "$ID" x "$M/patch.diff" "$OUT"
VF_SEED_SRC="$M" VF_SEED_RUN="$OUT" python3 /verif/lib/store_seeded.py "$ID" "$DK"
