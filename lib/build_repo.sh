#!/bin/bash
# Snapshot /repo's *current working tree* into a scratch directory and compile
# libmps out of tree with the verification hook header force-included.
#
#   build_repo.sh <scratch-dir> [san|plain|shim]
#
# Result:  <scratch>/snap        copy of the sources (no build output, no .git)
#          <scratch>/libmps.a    all libmps sources (private methods published)
#          <scratch>/cflags      flags a harness must be compiled with
#          <scratch>/ldflags     flags a harness must be linked with
#
# mode san   : -O1 -g ASan+UBSan, -fno-sanitize-recover; shift-base is not enabled: `x <<= 1` on a
#              negative long (rdpe_sqr_eq) is defined behaviour for gcc (documented), not a defect
# mode plain : -O1 -g, no sanitizers (bit-exact numerics, valgrind-able)
# mode shim  : like plain, pthread_* redirected to the deterministic scheduler
# mode pic   : like plain with -fPIC, also links <scratch>/libmps.so.3 (for the Python binding)
set -euo pipefail
SCR="$1"; MODE="${2:-san}"
REPO="${VERIF_REPO:-/repo}"
VERIF="$(cd "$(dirname "$0")/.." && pwd)"
mkdir -p "$SCR"
SNAP="$SCR/snap"
rm -rf "$SNAP"; mkdir -p "$SNAP"
# sources only: no objects, no libtool output, no docs, no VCS
rsync -a --delete \
  --exclude '.git' --exclude '*.o' --exclude '*.lo' --exclude '*.la' --exclude '*.a' \
  --exclude '*.so*' --exclude '.libs' --exclude '.deps' --exclude 'doc' \
  --exclude 'autom4te.cache' --exclude '_build' --exclude '*.log' --exclude '*.trs' \
  "$REPO/" "$SNAP/"
cd "$SNAP"
if [ ! -f config.h ] || [ ! -f include/mps/mt.h ] || [ ! -f include/mps/version.h ]; then
  # generated headers are missing from the working tree: configure the copy
  (./configure --disable-ui --disable-graphical-debugger --disable-documentation >configure.out 2>&1) || {
    echo "build_repo: configure failed" >&2; tail -20 configure.out >&2; exit 3; }
fi
L=src/libmps
# regenerate the parser pair from the grammar and the lexer (what the build does)
( cd $L/monomial && bison -y -d -o yacc-parser.c yacc-parser.y 2>bison.out && flex -o tokenizer.c tokenizer.l ) || {
  echo "build_repo: bison/flex failed" >&2; cat $L/monomial/bison.out >&2; exit 3; }
# source list = libmps_la_SOURCES of the automake file
SRCS=$(awk '/^libmps_la_SOURCES/{f=1;next} f&&/\$\(NULL\)/{exit} f{gsub(/\\/,"");print $1}' $L/Makefile.am \
        | sed -e 's/yacc-parser\.y/yacc-parser.c/' -e 's/tokenizer\.l/tokenizer.c/')
COMMON="-g -ffp-contract=off -fno-omit-frame-pointer -w -DHAVE_CONFIG_H -D_REENTRANT -DMPS_USE_BUILTIN_COMPLEX -DNICE_DEBUG -D_MPS_PRIVATE -DMPS_PUBLISH_PRIVATE_METHODS=1 -DROBOL_MPSOLVE_VERIF=1 -I$SNAP -I$SNAP/include -I$SNAP/$L -I$SNAP/$L/monomial -include $VERIF/harness/vf_hooks.h"
case "$MODE" in
  san)   OPT="-O1 -fsanitize=address,undefined -fno-sanitize=shift-base -fno-sanitize-recover=all"; LDX="-fsanitize=address,undefined" ;;
  plain) OPT="-O1"; LDX="" ;;
  shim)  OPT="-O1 -DVF_SHIM=1"; LDX="" ;;
  pic)   OPT="-O1 -fPIC"; LDX="" ;;
  shimsan) OPT="-O1 -DVF_SHIM=1 -fsanitize=address,undefined -fno-sanitize=shift-base -fno-sanitize-recover=all"; LDX="-fsanitize=address,undefined" ;;
  *) echo "bad mode $MODE" >&2; exit 2 ;;
esac
# extra flags of a particular check (e.g. -include <its own hook header>, -DVF_C01_TRACE); also recorded in <scratch>/cflags
OPT="$OPT ${VF_EXTRA_CFLAGS:-}"
mkdir -p "$SCR/obj"
compile_one() {
  f="$1"; o="$SCR/obj/$(echo "$f" | tr '/' '_').o"
  case "$f" in
    *.cpp) g++ -std=gnu++11 $OPT $COMMON -c "$L/$f" -o "$o" ;;
    *)     gcc $OPT $COMMON -c "$L/$f" -o "$o" ;;
  esac
}
export -f compile_one; export SCR L OPT COMMON
if ! printf '%s\n' $SRCS | xargs -P "${VERIF_JOBS:-16}" -I{} bash -c 'compile_one {}' 2>"$SCR/compile.err"; then
  echo "build_repo: compilation of /repo's working tree failed" >&2
  head -40 "$SCR/compile.err" >&2
  exit 4
fi
rm -f "$SCR/libmps.a"; ar rcs "$SCR/libmps.a" "$SCR"/obj/*.o
if [ "$MODE" = pic ]; then
  # shared library under the soname the Python binding (examples/python/mpsolve.py) loads
  g++ -shared -Wl,-soname,libmps.so.3 -o "$SCR/libmps.so.3" "$SCR"/obj/*.o -lgmpxx -lgmp -lm -lpthread
fi
echo "$OPT $COMMON" > "$SCR/cflags"
echo "$LDX $SCR/libmps.a -lgmpxx -lgmp -lm -lpthread -lstdc++" > "$SCR/ldflags"
echo "$SNAP"
