#!/bin/bash
# mk_mutant_wt.sh <dir> : scratch git worktree of /repo HEAD with the (untracked) build products copied in,
# so that `make` / `make check` work incrementally there.  Remove with: git -C /repo worktree remove --force <dir>
set -e
D="$1"
git -C /repo worktree add -q "$D" HEAD
rsync -a --ignore-existing --exclude .git /repo/ "$D"/
# libtool wrappers and Makefiles embed /repo paths: point them at the copy
( cd "$D" && git ls-files -o -z | xargs -0 -r grep -Il "/repo" 2>/dev/null | xargs -r sed -i "s|/repo|$D|g" ) || true
echo "$D"
