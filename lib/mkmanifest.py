#!/usr/bin/env python3
"""Assemble /verif/MANIFEST.json from checks/<ID>.meta.json fragments (one per claimed property)
and checks/not_applicable.json.  Keeps the manifest valid at all times: run by `make setup`
and by hand after adding a check."""
import json, os, glob, sys
V = os.path.dirname(os.path.dirname(os.path.abspath(__file__)))
props = [json.loads(l)["id"] for l in open(os.path.join(V, "properties.jsonl")) if l.strip()]
checks, claimed = [], set()
for pid in props:
    mp = os.path.join(V, "checks", pid + ".meta.json")
    if not (os.path.exists(mp) and os.path.exists(os.path.join(V, "checks", pid + ".py"))):
        continue
    m = json.load(open(mp))
    claimed.add(pid)
    checks.append({
        "property_id": pid,
        "quick_cmd": "./check %s --tier quick" % pid,
        "thorough_cmd": "./check %s --tier thorough" % pid,
        "evidence_file": "evidence/%s.json" % pid,
        "replay_cmd_template": "./check %s --replay {path}" % pid,
        "engine": m.get("engine", "coq+correspondence"),
        "level_claimed": {"category": m["category"], "text": m["text"], "design_ref": m.get("design_ref", "DESIGN.md section 3, " + pid)},
        "level_note": m["level_note"],
        "technique": m.get("technique", "machine-checked proof in Coq 8.16 about an executable model, tied to the code by a correspondence check"),
    })
na = []
nap = os.path.join(V, "checks", "not_applicable.json")
given = json.load(open(nap)) if os.path.exists(nap) else {}
for pid in props:
    if pid not in claimed:
        na.append({"property_id": pid, "reason": given.get(pid, "check not built yet in this development (no claim is made); see DESIGN.md section 3 for the intended model and theorems")})
man = {
    "version": 1,
    "setup_cmd": "make -C /verif setup",
    "hooks": {
        "guard": "ROBOL_MPSOLVE_VERIF",
        "enable": "no source edits: every check snapshots /repo's working tree into a scratch directory and compiles libmps there with -DROBOL_MPSOLVE_VERIF=1 -include /verif/harness/vf_hooks.h (lib/build_repo.sh); the header only adds declarations and, for scheduler builds (-DVF_SHIM), redirects pthread_* calls to harness/vf_sched.c. Checks that need more observation add it at build or link time of that scratch copy only: an extra force-included header (harness/c18_hooks.h turns every read of exit_required into a scheduling point), link-time wrappers (-Wl,--wrap=<fn>: Newton entry points for C01, stop tests/modify/improve for C02, cplx_mod/cdpe_mod/mpc_get_cdpe for C04, pool entry points for C06), or a traced copy of one source file (mpc.c/gmptools.c for C13, secular-ga.c for C02). With the guard undefined (the repository's own build) none of this exists",
        "baseline_off_cmd": "cd /repo && make -j8 >/dev/null && make check",
        "source_commits": [],
        "add_only": True,
    },
    "engines": [
        {"name": "coq", "path": "coq/", "serves_properties": sorted(claimed), "kind_free_text": "Coq 8.16.1 development (models, theorems, Props/Properties_<ID>.v statement files re-checked by every run)"},
        {"name": "extracted-models", "path": "ocaml/ + bin/", "serves_properties": sorted(claimed), "kind_free_text": "OCaml programs extracted from the Coq models (ExtrOcamlBasic/ExtrOcamlNativeString only) with line-protocol drivers; run on the same inputs as the implementation"},
        {"name": "harnesses", "path": "harness/", "serves_properties": sorted(claimed), "kind_free_text": "C/C++ harnesses linked against libmps compiled from /repo's current working tree (ASan+UBSan), exact number export"},
        {"name": "driver", "path": "check, lib/vf.py, checks/", "serves_properties": sorted(claimed), "kind_free_text": "per-property check scripts: build, prove, correspond, search, known-findings filter, evidence"},
    ],
    "checks": checks,
    "notes": "One entry point: ./check <ID> --tier quick|thorough [--replay FILE]; honours VERIF_SEED. Known findings: known_findings.json. Design: DESIGN.md.",
    "not_applicable": na,
}
json.dump(man, open(os.path.join(V, "MANIFEST.json"), "w"), indent=1)
# known findings: merge the per-property fragments (known/Cxx.json) and the list of repaired defects
findings = []
for pid in props:
    fp = os.path.join(V, "known", pid + ".json")
    if os.path.exists(fp):
        for f in json.load(open(fp)).get("findings", []):
            f.setdefault("property", pid); f.setdefault("status", "open"); findings.append(f)
fx = os.path.join(V, "known", "fixed.json")
fixed = json.load(open(fx)) if os.path.exists(fx) else []
json.dump({"_comment": "committed list of known findings (genuine defects of robol/MPSolve recorded, not repaired) and of repaired ones; never written at check time. Generated from known/*.json by lib/mkmanifest.py.",
           "findings": findings, "fixed": fixed}, open(os.path.join(V, "known_findings.json"), "w"), indent=1)
print("MANIFEST.json: %d checks, %d not claimed" % (len(checks), len(na)))
