"""Run harness/vf_solve (the real solver built from /repo's working tree) and parse its
lossless export into exact Python numbers (fractions.Fraction).  Shared by the
end-to-end checks (C01 C02 C03 C08 C16 C17 C19 C05)."""
import os, re, struct, subprocess
from fractions import Fraction as Fr

STATUS = ["NEW_CLUSTERED", "CLUSTERED", "ISOLATED", "APPROXIMATED", "APPROXIMATED_IN_CLUSTER", "NOT_FLOAT", "NOT_DPE", "MULTIPLE"]
INCLUSION = ["UNKNOWN", "IN", "OUT"]
ATTRS = ["NONE", "REAL", "NOT_REAL", "IMAG", "NOT_IMAG", "NOT_REAL_AND_IMAG"]
ST_ISOLATED, ST_APPROX, ST_APPROX_CLUSTER = 2, 3, 4


def d_of_hex(h):
    return struct.unpack("<d", struct.pack("<Q", int(h, 16)))[0]


def fr_of_dhex(h):
    """exact value of a double given as 16 hex digits; None for inf/nan"""
    u = int(h, 16)
    s = -1 if u >> 63 else 1
    e = (u >> 52) & 0x7FF
    m = u & ((1 << 52) - 1)
    if e == 0x7FF:
        return None
    if e == 0:
        return s * Fr(m, 1 << 1074)
    v = (m | (1 << 52))
    ex = e - 1075
    return s * (Fr(v * (1 << ex)) if ex >= 0 else Fr(v, 1 << (-ex)))


def pow2(e):
    return Fr(1 << e) if e >= 0 else Fr(1, 1 << (-e))


def fr_of_rdpe(tok):
    """'hexbits:exp' -> Fraction (None when mantissa is inf/nan)"""
    h, e = tok.split(":")
    m = fr_of_dhex(h)
    if m is None: return None
    e = int(e)
    if m == 0: return Fr(0)
    if abs(e) > 10**7:
        # astronomically large/small: keep exact but symbolic-free callers should treat as huge
        return HugeDyadic(m, e)
    return m * pow2(e)


class HugeDyadic:
    """m * 2^e with |e| too large to expand; only sign/size queries make sense."""
    def __init__(self, m, e): self.m, self.e = m, e
    def __repr__(self): return "HugeDyadic(%s*2^%d)" % (self.m, self.e)


def fr_of_mpf(tok):
    """'[-]HEXDIGITS:exp16@prec' -> (Fraction, prec).  value = 0.DIGITS * 16^exp"""
    body, prec = tok.split("@")
    digs, e = body.split(":")
    e = int(e)
    neg = digs.startswith("-")
    if neg: digs = digs[1:]
    if digs == "0" or digs == "":
        return Fr(0), int(prec)
    m = int(digs, 16)
    sh = 4 * (e - len(digs))
    v = Fr(m * (1 << sh)) if sh >= 0 else Fr(m, 1 << (-sh))
    return (-v if neg else v), int(prec)


def fr_of_q(tok):
    return Fr(tok)


class Root:
    pass


class SolveResult:
    def __init__(self):
        self.kind = None        # 'ok' | 'parse-err' | 'solve-err' | 'crash' | 'timeout' | 'sanitizer'
        self.msg = ""
        self.poly = None        # dict(type, degree, structure, density, prec, coeffs / sec / cheb)
        self.meta = {}
        self.roots = []         # raw fields per root
        self.accm, self.accd, self.acca = [], [], []
        self.output = ""
        self.rc = None
        self.stderr = ""
        self.wall = 0.0
        self.order = []             # s->order[]: the order in which mps_output prints the roots
        self.parsed_degree = None   # degree of the equation as written (before zero roots are deflated)


def parse_export(text):
    r = SolveResult()
    lines = text.split("\n")
    i = 0
    poly = None
    while i < len(lines):
        ln = lines[i]; i += 1
        if not ln: continue
        if ln.startswith("PARSE-ERR"):
            r.kind = "parse-err"; r.msg = ln; return r
        if ln.startswith("SOLVE-ERR"):
            r.kind = "solve-err"; r.msg = ln[len("SOLVE-ERR msg="):]; r.poly = poly; return r
        if ln.startswith("PARSED "):
            r.parsed_degree = int(ln.split("=")[1])
        elif ln.startswith("POLY "):
            kv = dict(x.split("=") for x in ln.split()[1:])
            poly = {"type": kv["type"], "degree": int(kv["degree"]), "structure": int(kv["structure"]),
                    "density": int(kv["density"]), "prec": int(kv["prec"]), "coeffs": [], "spar": [], "sec": [], "exact": True}
            r.poly = poly
        elif ln.startswith("COEF "):
            t = ln.split()
            poly["spar"].append(int(t[2].split("=")[1]))
            if t[3] == "Q":
                poly["coeffs"].append((Fr(t[4]), Fr(t[5])))
            else:
                re_, _ = fr_of_mpf(t[4]); im_, _ = fr_of_mpf(t[5])
                poly["coeffs"].append((re_, im_)); poly["exact"] = False
        elif ln.startswith("CHEB "):
            t = ln.split()
            poly["coeffs"].append((Fr(t[3]), Fr(t[4])))
        elif ln.startswith("SEC "):
            t = ln.split()
            if t[2] == "Q":
                poly["sec"].append(((Fr(t[3]), Fr(t[4])), (Fr(t[5]), Fr(t[6]))))
            else:
                a = (fr_of_mpf(t[3])[0], fr_of_mpf(t[4])[0]); b = (fr_of_mpf(t[5])[0], fr_of_mpf(t[6])[0])
                poly["sec"].append((a, b)); poly["exact"] = False
        elif ln.startswith("ORDER"):
            r.order = [int(x) for x in ln.split()[1:]]
        elif ln.startswith("META "):
            r.meta = {k: int(v) for k, v in (x.split("=") for x in ln.split()[1:])}
        elif ln.startswith("ROOT ") or ln.startswith("ACCA "):
            t = ln.split()
            o = Root(); o.i = int(t[1])
            j = 2
            while "=" in t[j]:
                k, v = t[j].split("="); setattr(o, k, int(v)); j += 1
            assert t[j] == "M"
            o.re, o.prec = fr_of_mpf(t[j + 1]); o.im, _ = fr_of_mpf(t[j + 2])
            o.drad_tok = t[j + 4]; o.drad = fr_of_rdpe(t[j + 4])
            o.frad_hex = t[j + 6]; o.frad = fr_of_dhex(t[j + 6])
            o.fre_hex, o.fim_hex = t[j + 8], t[j + 9]
            o.fre, o.fim = fr_of_dhex(t[j + 8]), fr_of_dhex(t[j + 9])
            o.dre_tok, o.dim_tok = t[j + 11], t[j + 12]
            (r.roots if ln.startswith("ROOT ") else r.acca).append(o)
        elif ln.startswith("MVX "):
            # every stored limb of mvalue (the M field of ROOT is rounded to the digits the precision warrants)
            t = ln.split()
            def _x(tok):
                h, e = tok.split(":"); m = int(h, 16); e = int(e)
                return Fr(m * (1 << e)) if e >= 0 else Fr(m, 1 << (-e))
            for o in r.roots:
                if o.i == int(t[1]): o.re_exact, o.im_exact = _x(t[2]), _x(t[3])
        elif ln.startswith("ACCM "):
            t = ln.split(); o = Root(); o.i = int(t[1])
            o.re, o.prec = fr_of_mpf(t[2]); o.im, _ = fr_of_mpf(t[3]); o.rad_tok = t[4]; o.rad = fr_of_rdpe(t[4])
            r.accm.append(o)
        elif ln.startswith("ACCD "):
            t = ln.split(); o = Root(); o.i = int(t[1])
            o.re_hex, o.im_hex, o.rad_hex = t[2], t[3], t[4]
            o.re, o.im, o.rad = fr_of_dhex(t[2]), fr_of_dhex(t[3]), fr_of_dhex(t[4])
            r.accd.append(o)
        elif ln.startswith("OUTPUT-BEGIN"):
            n = int(ln.split()[1])
            rest = "\n".join(lines[i:])
            r.output = rest[:n]
            break
    r.kind = "ok" if r.meta else "incomplete"
    return r


def run_solve(binary, polfile, opts, env=None, timeout=120, inline=False):
    """opts: list of CLI-like args, e.g. ['-a','u','-G','a','-o','30'].  Returns SolveResult."""
    import time
    t0 = time.time()
    opts = list(opts)
    if "-j" not in opts and os.environ.get("VERIF_SOLVE_THREADS", "1") != "default":
        # one worker thread unless the caller asks otherwise: results of the end-to-end checks must be
        # reproducible for a given seed (thread interleavings are C05's business, under the deterministic scheduler)
        opts += ["-j", os.environ.get("VERIF_SOLVE_THREADS", "1")]
    cmd = [binary, polfile] + (["-p"] if inline else []) + opts
    try:
        p = subprocess.run(cmd, stdout=subprocess.PIPE, stderr=subprocess.PIPE, env=env, timeout=timeout)
        out = p.stdout.decode("utf-8", "replace"); err = p.stderr.decode("utf-8", "replace"); rc = p.returncode
    except subprocess.TimeoutExpired as e:
        r = SolveResult(); r.kind = "timeout"; r.wall = time.time() - t0
        r.stderr = (e.stderr or b"").decode("utf-8", "replace")[-2000:]
        return r
    if rc != 0:
        r = SolveResult()
        r.kind = "sanitizer" if rc in (97, 98) or "AddressSanitizer" in err or "runtime error:" in err else "crash"
        r.rc = rc; r.stderr = err[-4000:]; r.wall = time.time() - t0
        try:
            pr = parse_export(out); r.poly = pr.poly
        except Exception:
            pass
        return r
    r = parse_export(out)
    r.rc = rc; r.stderr = err[-2000:]; r.wall = time.time() - t0
    return r


# ----------------------------------------------------------------------------- .pol writers
def pol_monomial(coeffs, kind="Integer", sparse=False, complex_=None, prec=None):
    """coeffs: list low->high of ints / Fractions / (re, im) pairs.  kind: Integer|Rational|FloatingPoint"""
    def is_c(c): return isinstance(c, tuple)
    if complex_ is None:
        complex_ = any(is_c(c) and c[1] != 0 for c in coeffs)
    def fmt(x):
        x = Fr(x)
        if kind == "Integer":
            assert x.denominator == 1; return str(x.numerator)
        if kind == "Rational":
            return "%d/%d" % (x.numerator, x.denominator)
        return x if isinstance(x, str) else repr(float(x))
    def fmtc(c):
        re_, im_ = (c if is_c(c) else (c, 0))
        if kind == "FloatingPoint" and isinstance(re_, str):
            return re_ + ((" " + im_) if complex_ else "")
        return fmt(re_) + ((" " + fmt(im_)) if complex_ else "")
    n = len(coeffs) - 1
    head = ["Monomial;", "Degree=%d;" % n, "%s;" % kind, "Complex;" if complex_ else "Real;"]
    if prec: head.append("Precision=%d;" % prec)
    if sparse:
        head.append("Sparse;")
        body = []
        for i, c in enumerate(coeffs):
            z = (c[0] == 0 and c[1] == 0) if is_c(c) else (c == 0)
            if not z or i == n:
                body.append("%d %s" % (i, fmtc(c)))
        return "\n".join(head) + "\n\n" + "\n".join(body) + "\n"
    head.append("Dense;")
    return "\n".join(head) + "\n\n" + "\n".join(fmtc(c) for c in coeffs) + "\n"


def cmul(a, b): return (a[0] * b[0] - a[1] * b[1], a[0] * b[1] + a[1] * b[0])
def cadd(a, b): return (a[0] + b[0], a[1] + b[1])
def csub(a, b): return (a[0] - b[0], a[1] - b[1])


def poly_mul(p, q):
    r = [(Fr(0), Fr(0))] * (len(p) + len(q) - 1)
    for i, a in enumerate(p):
        for j, b in enumerate(q):
            r[i + j] = cadd(r[i + j], cmul(a, b))
    return r


def poly_from_roots(roots, lead=(Fr(1), Fr(0))):
    """roots: list of (re, im) Fractions; returns monic*lead coefficient list low->high"""
    p = [lead]
    for z in roots:
        p = poly_mul(p, [(-z[0], -z[1]), (Fr(1), Fr(0))])
    return p


def poly_eval(p, z):
    acc = (Fr(0), Fr(0))
    for c in reversed(p):
        acc = cadd(cmul(acc, z), c)
    return acc


def secular_to_monomial(sec):
    """sec: list of ((a_re,a_im),(b_re,b_im)).  Returns coefficients of
       P(x) = prod (x-b_i) - sum_i a_i prod_{j!=i} (x-b_j)   (roots of sum a_i/(x-b_i) = 1)."""
    one = (Fr(1), Fr(0))
    n = len(sec)
    full = [one]
    for _, b in sec:
        full = poly_mul(full, [(-b[0], -b[1]), one])
    res = list(full)
    for i, (a, _) in enumerate(sec):
        part = [one]
        for j, (_, b) in enumerate(sec):
            if j != i:
                part = poly_mul(part, [(-b[0], -b[1]), one])
        for k, c in enumerate(part):
            res[k] = csub(res[k], cmul(a, c))
    return res


def chebyshev_to_monomial(c):
    """c: list of (re,im) coefficients of T_0..T_n.  Returns monomial coefficients."""
    one = (Fr(1), Fr(0)); zero = (Fr(0), Fr(0))
    n = len(c) - 1
    T0 = [one]; T1 = [zero, one]
    acc = [zero] * (n + 1)
    def addto(acc, T, coef):
        for k, t in enumerate(T):
            acc[k] = cadd(acc[k], cmul(coef, t))
    addto(acc, T0, c[0])
    if n >= 1: addto(acc, T1, c[1])
    for k in range(2, n + 1):
        T2 = [zero] + [(2 * t[0], 2 * t[1]) for t in T1]
        for i, t in enumerate(T0):
            T2[i] = csub(T2[i], t)
        addto(acc, T2, c[k])
        T0, T1 = T1, T2
    return acc


def monomial_of_result(res):
    """exact monomial coefficient list (low->high, (re,im) Fractions) of the equation that was solved"""
    p = res.poly
    if p["type"] == "mps_monomial_poly": return list(p["coeffs"])
    if p["type"] == "mps_secular_equation": return secular_to_monomial(p["sec"])
    if p["type"] == "mps_chebyshev_poly": return chebyshev_to_monomial(p["coeffs"])
    return None


# ----------------------------------------------------------------------------- exact polynomial helpers over Q[i]
def cinv(a):
    d = a[0] * a[0] + a[1] * a[1]
    return (a[0] / d, -a[1] / d)


def cdiv(a, b): return cmul(a, cinv(b))
def cis0(a): return a[0] == 0 and a[1] == 0
def cabs2(a): return a[0] * a[0] + a[1] * a[1]


def poly_trim(p):
    p = list(p)
    while p and cis0(p[-1]): p.pop()
    return p


def poly_deriv(p):
    return [(c[0] * k, c[1] * k) for k, c in enumerate(p)][1:]


def poly_mod(a, b):
    a = poly_trim(a); b = poly_trim(b)
    while len(a) >= len(b) and a:
        q = cdiv(a[-1], b[-1]); sh = len(a) - len(b)
        for i, c in enumerate(b):
            a[sh + i] = csub(a[sh + i], cmul(q, c))
        a = poly_trim(a[:-1] if a and not cis0(a[-1]) else a)
    return a


def poly_gcd(a, b):
    a = poly_trim(a); b = poly_trim(b)
    while b:
        a, b = b, poly_mod(a, b)
    return a


def is_squarefree(p):
    p = poly_trim(p)
    if len(p) <= 2: return True
    return len(poly_gcd(p, poly_deriv(p))) == 1


def monomial_to_chebyshev(p):
    """exact change of basis; inverse of chebyshev_to_monomial"""
    n = len(p) - 1
    one = (Fr(1), Fr(0)); zero = (Fr(0), Fr(0))
    T = [[one], [zero, one]]
    for k in range(2, n + 1):
        t = [zero] + [(2 * x[0], 2 * x[1]) for x in T[k - 1]]
        for i, x in enumerate(T[k - 2]): t[i] = csub(t[i], x)
        T.append(t)
    rem = list(p); c = [zero] * (n + 1)
    for k in range(n, -1, -1):
        lead = T[k][k] if k < len(T) else one
        c[k] = cdiv(rem[k], lead)
        for i, x in enumerate(T[k]): rem[i] = csub(rem[i], cmul(c[k], x))
    assert all(cis0(x) for x in rem)
    return c


def monomial_to_secular(p, nodes):
    """monic p of degree n and n distinct nodes b_i -> [(a_i, b_i)] with
       prod(x-b_i) - sum a_i prod_{j!=i}(x-b_j) == p.  Verified by the caller through secular_to_monomial."""
    out = []
    for i, b in enumerate(nodes):
        den = (Fr(1), Fr(0))
        for j, bj in enumerate(nodes):
            if j != i: den = cmul(den, csub(b, bj))
        v = poly_eval(p, b)
        a = cdiv((-v[0], -v[1]), den)
        out.append((a, b))
    return out


# ----------------------------------------------------------------------------- batch execution
def run_many(binary, jobs, workdir, env=None, workers=16, timeout=120):
    """jobs: list of dicts with 'text' (.pol contents) or 'inline' (expression) and 'opts'.
    Returns the list of SolveResult in the same order.  Each job gets its own file."""
    import concurrent.futures, os
    os.makedirs(workdir, exist_ok=True)
    def one(ij):
        i, j = ij
        if "inline" in j:
            return run_solve(binary, j["inline"], j["opts"], env=env, timeout=j.get("timeout", timeout), inline=True)
        path = os.path.join(workdir, "job%d.pol" % i)
        with open(path, "w") as f: f.write(j["text"])
        r = run_solve(binary, path, j["opts"], env=env, timeout=j.get("timeout", timeout))
        try: os.remove(path)
        except OSError: pass
        return r
    with concurrent.futures.ThreadPoolExecutor(max_workers=workers) as ex:
        return list(ex.map(one, list(enumerate(jobs))))


def discs_of(res, which="accm"):
    """list of (re, im, rad) exact Fractions of the returned discs; rad None when not finite / not representable"""
    out = []
    for o in getattr(res, which):
        rad = o.rad if which != "roots" else o.drad
        if isinstance(rad, HugeDyadic): rad = None
        out.append((o.re, o.im, rad))
    return out
