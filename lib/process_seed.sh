#!/bin/bash
# process_seed.sh <ID> <tag> <k> <dstk> : confirm the seeded change /tmp/mut_<ID><tag>_out/<k> in its worktree /tmp/mutwt_<ID><tag>,
# run the check against it, store it as /verif/seeded/<ID>_<dstk>.
ID="$1"; TAG="$2"; K="$3"; DK="$4"
WT=/tmp/mutwt_${ID}${TAG}; M=/tmp/mut_${ID}${TAG}_out/$K
[ -f "$M/patch.diff" ] || { echo "$ID $K: no patch"; exit 1; }
bash /verif/lib/confirm_mutant.sh "$WT" "$M"
OUT=/var/tmp/runs/mut_${ID}_${DK}.out
bash /verif/lib/try_mutant.sh "$ID" x "$M/patch.diff" "$OUT"
VF_SEED_SRC="$M" VF_SEED_RUN="$OUT" python3 /verif/lib/store_seeded.py "$ID" "$DK"
