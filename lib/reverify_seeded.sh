#!/bin/bash
# reverify_seeded.sh <P> <ids...>: re-run every stored seeded change of the given properties against the current checks and /repo HEAD;
# writes the verdict into seeded/<ID>_<k>/meta.json (fields reverified, detected, check_result)
P="$1"; shift
one() { d="$1"; id=${d%%_*}; out=/var/tmp/runs/rev_$d.out
  r=$(bash /verif/lib/try_mutant.sh $id x /verif/seeded/$d/patch.diff $out 2>&1 | tail -1)
  python3 - "$d" "$out" "$r" <<'PY'
import json,sys,os,time
d,out,r=sys.argv[1:4]; p='/verif/seeded/%s/meta.json'%d; m=json.load(open(p))
head=os.popen('git -C /repo rev-parse --short=8 HEAD').read().strip()
if 'does not apply' in r:
    m['reverified']={'repo_head':head,'result':'patch no longer applies to HEAD (the file was changed by later fix: commits); verdict below is the one obtained at the HEAD it was written for'}
else:
    viol=[l for l in open(out).read().split('\n') if l.startswith('VIOLATION')] if os.path.exists(out) else []
    m['reverified']={'repo_head':head,'result':r}
    m['detected']=bool(viol); m['check_result']={'exit':1 if viol else 0,'violation_lines':viol[:3]}
json.dump(m,open(p,'w'),indent=1); print(d, r[:160])
PY
}
export -f one
for id in "$@"; do ls /verif/seeded | grep "^${id}_"; done | xargs -P "$P" -I{} bash -c 'one {}'
