#!/bin/bash
# mk_seeder.sh <ID> <N> [tag]: scratch worktree /tmp/mutwt_<ID><tag> + prompt /tmp/mut_<ID><tag>_prompt.txt, output dir /tmp/mut_<ID><tag>_out
ID="$1"; N="${2:-3}"; TAG="$3"
WT=/tmp/mutwt_${ID}${TAG}; OUT=/tmp/mut_${ID}${TAG}_out
bash /verif/lib/mk_mutant_wt.sh $WT >/dev/null 2>&1
mkdir -p $OUT
python3 - "$ID" "$N" "$WT" "$OUT" <<'PY'
import json,sys
i,n,wt,out=sys.argv[1:]
t=open('/verif/lib/mutant_prompt_template.txt').read()
d={json.loads(l)['id']:json.loads(l) for l in open('/verif/properties.jsonl')}
x=d[i]; prop=x['title']+"\n"+x['statement']
open(out.replace('_out','_prompt.txt'),'w').write(t.replace('__WT__',wt).replace('__PROP__',prop).replace('__N__',n).replace('__OUT__',out).replace('__ID__',i))
PY
( cd $WT && timeout 900 make -j4 >/dev/null 2>&1 ); echo "$WT ready; prompt ${OUT/_out/_prompt.txt}"
