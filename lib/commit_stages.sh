#!/bin/bash
# Integrator: commit the stages that builders have published in /verif/.stage/<ID>.txt
# (first line: STAGE <n> <time> <description>; then one path per line, `D <path>` for deletions).
# MANIFEST.json / known_findings.json are regenerated from the INDEX (committed + staged files only), so that
# half-written fragments of builders that have not published are never committed.
cd /verif || exit 1
mkdir -p .stage
msg=""
for f in .stage/C*.txt; do
  [ -f "$f" ] || continue
  id=$(basename "$f" .txt)
  if [ -f ".stage/$id.committed" ] && cmp -s "$f" ".stage/$id.committed"; then continue; fi
  head=$(head -1 "$f")
  n=0
  while IFS= read -r line; do
    [ -z "$line" ] && continue
    case "$line" in
      STAGE*|NEEDS-SHARED-CHANGE*) continue ;;
      "D "*) git rm -q --cached --ignore-unmatch -- "${line#D }" && n=$((n+1)) ;;
      *) if [ -e "$line" ]; then git add -- "$line" 2>/dev/null && n=$((n+1)) || echo "  [$id] cannot add $line"; else echo "  [$id] missing $line"; fi ;;
    esac
  done < "$f"
  cp "$f" ".stage/$id.committed"
  msg="$msg$id: ${head#STAGE } ($n paths)"$'\n'
done
[ -z "$msg" ] && { echo "nothing published"; exit 0; }
X=/var/tmp/vf_idx.$$; rm -rf $X; mkdir -p $X
git checkout-index -a --prefix=$X/ && python3 $X/lib/mkmanifest.py >/dev/null && cp $X/MANIFEST.json $X/known_findings.json . && git add MANIFEST.json known_findings.json
rm -rf $X
python3-vt -c "import json,jsonschema; jsonschema.validate(json.load(open('MANIFEST.json')), json.load(open('/root/.vp/MANIFEST.schema.json')))" || { echo "MANIFEST INVALID"; }
git commit -q -m "builder stages:"$'\n'"$msg" && git log --oneline | head -1
# working-tree copies: back to 'all fragments' so that running builders see their own unpublished known entries
python3 lib/mkmanifest.py >/dev/null
echo "$msg"
