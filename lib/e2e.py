"""Shared plumbing of the end-to-end checks (C01 C02 C08 C16 C17): run real solves, certify the
exact input polynomial with the proved-sound oracle (lib/oracle.py -> bin/cert), hand back records.

A record: dict(case=<polygen case>, opts=[...], res=<solve.SolveResult>, poly=<exact monomial coefficients
of the FULL equation (zero roots included) as parsed by the solver>, oracle=<certified Oracle or None>, why=<str>)
"""
import math, os, collections
from fractions import Fraction as Fr
import solve as S
from oracle import Oracle, OracleError, certify_all, secular_to_monomial, chebyshev_to_monomial


def full_poly_of_result(res):
    """Exact monomial coefficients (low->high) of the equation the solver holds, with the deflated zero roots
    put back (x^zero_roots factor).  Uses the extracted Coq conversions for secular / Chebyshev inputs.
    None when the input is not exact (floating-point structure)."""
    p = res.poly
    if p is None or not p.get("exact", False):
        return None
    if p["type"] == "mps_monomial_poly":
        c = list(p["coeffs"])
    elif p["type"] == "mps_secular_equation":
        a = [x[0] for x in p["sec"]]; b = [x[1] for x in p["sec"]]
        if len(set(b)) != len(b) or any(x == (0, 0) for x in a):
            return None
        c = secular_to_monomial(a, b)
    elif p["type"] == "mps_chebyshev_poly":
        c = chebyshev_to_monomial(list(p["coeffs"]))
    else:
        return None
    c = [(Fr(x[0]), Fr(x[1])) for x in c]
    zr = res.meta.get("zero_roots", 0) if res.meta else 0
    return [(Fr(0), Fr(0))] * zr + c


def min_radius_log2(discs, floor=-1200):
    m = None
    for d in discs:
        r = d[2]
        if r is None or r <= 0: continue
        l = math.floor(math.log2(r.numerator) - math.log2(r.denominator)) if r.numerator < (1 << 1000) else \
            (r.numerator.bit_length() - r.denominator.bit_length())
        m = l if m is None else min(m, l)
    if m is None: m = -60
    return max(floor, m)


def run_records(ctx, binary, cases_opts, env, timeout=120, workers=16):
    jobs = [{"text": c["text"], "opts": o} for c, o in cases_opts]
    results = S.run_many(binary, jobs, os.path.join(ctx.scratch, "jobs"), env=env, workers=workers, timeout=timeout)
    recs = []
    for (c, o), r in zip(cases_opts, results):
        recs.append({"case": c, "opts": o, "res": r, "poly": None, "oracle": None, "why": ""})
    return recs


def certify_records(ctx, recs, extra_discs=None, max_bits=400, max_degree=24, workers=16, slack=16):
    """Attach a certified oracle to every record whose solve succeeded and whose input is exact.
    The target resolution is taken from the smallest radius among the discs the caller will ask about
    (by default the discs of the multiprecision accessor)."""
    todo = []
    for i, rec in enumerate(recs):
        r = rec["res"]
        if r.kind != "ok":
            rec["why"] = "solve:" + r.kind; continue
        try:
            poly = full_poly_of_result(r)
        except OracleError as e:
            rec["why"] = "transform:%s" % e; continue
        if poly is None:
            rec["why"] = "inexact-input"; continue
        rec["poly"] = poly
        if len(poly) - 1 > max_degree:
            rec["why"] = "degree-cap"; continue
        discs = S.discs_of(r)
        if extra_discs: discs = discs + extra_discs(rec)
        tgt = min_radius_log2(discs) - slack
        if rec.get("target_override") is not None:
            tgt = rec["target_override"]
        mb = rec.get("max_bits", max_bits)
        if tgt < -mb:
            rec["why"] = "precision-cap"; tgt = -mb
        rec["target"] = tgt
        todo.append(i)
    # group by target so certify_all can be called with one resolution per group
    groups = collections.defaultdict(list)
    for i in todo:
        groups[recs[i]["target"] // 32 * 32].append(i)
    for tgt, idxs in sorted(groups.items()):
        oracles = [Oracle(recs[i]["poly"]) for i in idxs]
        try:
            oks = certify_all(oracles, target_radius_log2=tgt, workers=workers, timeout=300)
        except Exception as e:
            oks = [False] * len(oracles); ctx.notes.append("certify_all failed: %r" % (e,))
        for i, o, ok in zip(idxs, oracles, oks):
            if ok:
                recs[i]["oracle"] = o
            else:
                recs[i]["why"] = (recs[i]["why"] + " " if recs[i]["why"] else "") + "uncertified:%s" % (getattr(o, "why", ""),)
                try: o.close()
                except Exception: pass
    return recs


def close_records(recs):
    for r in recs:
        if r.get("oracle") is not None:
            try: r["oracle"].close()
            except Exception: pass


def fdisc(d):
    return [("%.17g" % float(x)) if x is not None else "inf" for x in d]


CONFIGS_QUICK = [
    ["-a", "u", "-G", "i"], ["-a", "s", "-G", "i"],
    ["-a", "u", "-G", "a", "-o", "30"], ["-a", "s", "-G", "a", "-o", "30"],
    ["-a", "u", "-G", "a", "-o", "100"], ["-a", "s", "-G", "a", "-o", "60"],
    ["-a", "u", "-G", "i", "-t", "d"], ["-a", "s", "-G", "i", "-t", "d"],
    ["-a", "s", "-G", "i", "-b"], ["-a", "u", "-G", "i", "-r"],
    ["-a", "u", "-G", "a", "-c"], ["-a", "s", "-G", "a", "-o", "15", "-j", "4"],
]


def pick_configs(rng, k):
    return [rng.choice(CONFIGS_QUICK) for _ in range(k)]


# ----------------------------------------------------------------------------- fast, still exact, disc queries
def _ilog2_floor(r):
    """floor(log2 r) for a positive Fraction"""
    e = r.numerator.bit_length() - r.denominator.bit_length()
    # 2^e <= r < 2^(e+1) up to one: adjust
    if (Fr(2) ** e if e >= 0 else Fr(1, 1 << -e)) > r: e -= 1
    return e


def inner_disc(d, extra_bits=12):
    """A disc with short dyadic centre/radius contained in the closed disc d (so: a root in it is a root in d)."""
    z0, z1, r = d
    if r is None or r <= 0: return None
    k = -_ilog2_floor(r) + extra_bits
    sc = Fr(2) ** k if k >= 0 else Fr(1, 1 << -k)
    a = Fr(round(z0 * sc)) / sc; b = Fr(round(z1 * sc)) / sc
    # |z - z'| <= 2^-k ; inner radius = floor((r - 2^-k) * 2^k) / 2^k
    rr = Fr(math.floor((r - 1 / sc) * sc)) / sc
    if rr <= 0: return None
    return (a, b, rr)


def count_discs(orc, discs):
    """[(lo, hi)] like Oracle.count, but asks first about a short inner disc: a positive answer there
    (lo >= 1) is a positive answer for the full disc (hi is then reported as None = not computed).
    Only the others are asked with their full-length numbers."""
    inner = [inner_disc(d) for d in discs]
    idx = [i for i, x in enumerate(inner) if x is not None]
    res = [None] * len(discs)
    if idx:
        ans = orc.count([inner[i] for i in idx])
        for i, (lo, hi) in zip(idx, ans):
            if lo >= 1: res[i] = (lo, None)
    rest = [i for i in range(len(discs)) if res[i] is None]
    if rest:
        ans = orc.count([discs[i] for i in rest])
        for i, v in zip(rest, ans): res[i] = v
    return res


def par_map(fn, items, workers=16):
    import concurrent.futures
    with concurrent.futures.ThreadPoolExecutor(max_workers=workers) as ex:
        return list(ex.map(fn, items))


# ----------------------------------------------------------------------------- additions for C01
def outer_disc(d, extra_bits=12):
    """A disc with short dyadic centre/radius that CONTAINS the closed disc d (so: no root in it => no root in d;
    at most m roots in it => at most m roots in d)."""
    z0, z1, r = d
    if r is None or r < 0: return None
    if r == 0:
        k = 64
    else:
        k = -_ilog2_floor(r) + extra_bits
    sc = Fr(2) ** k if k >= 0 else Fr(1, 1 << -k)
    a = Fr(round(z0 * sc)) / sc; b = Fr(round(z1 * sc)) / sc
    rr = Fr(math.ceil((r + 1 / sc) * sc)) / sc          # |z - z'| <= 2^-k (sup-norm 2^-(k+1) per coordinate)
    return (a, b, rr)


def count_discs_bounds(orc, discs):
    """[(lo, hi)] with BOTH bounds valid for the closed disc (lo <= #roots in d <= hi), using short inner/outer
    discs first (lo from an inner disc, hi from an outer disc are valid bounds for d itself) and the full-length
    numbers only where the short answers do not already decide 'exactly lo == hi' or 'hi == 0'."""
    n = len(discs)
    inner = [inner_disc(d) for d in discs]; outer = [outer_disc(d) for d in discs]
    lo = [0] * n; hi = [None] * n
    ii = [i for i in range(n) if inner[i] is not None]
    if ii:
        for i, (l, h) in zip(ii, orc.count([inner[i] for i in ii])): lo[i] = l
    oi = [i for i in range(n) if outer[i] is not None]
    if oi:
        for i, (l, h) in zip(oi, orc.count([outer[i] for i in oi])): hi[i] = h
    rest = [i for i in range(n) if discs[i][2] is not None and (hi[i] is None or (lo[i] != hi[i] and hi[i] != 0))]
    if rest:
        for i, (l, h) in zip(rest, orc.count([discs[i] for i in rest])):
            lo[i] = max(lo[i], l); hi[i] = h if hi[i] is None else min(hi[i], h)
    return [(lo[i], hi[i]) for i in range(n)]


def certify_records_grouped(ctx, recs, max_bits=400, max_degree=24, workers=16, slack=16, timeout=300):
    """Like certify_records, but (1) records with the same exact equation share ONE certified oracle (certified at
    the finest resolution any of them needs, capped at max_bits), (2) all certificates are checked in one pool,
    each at its own resolution (max_bits may be a function of the degree).  rec["group"] is the group key; records of a group must be queried sequentially
    (the oracle is one subprocess).  Returns the list of groups (lists of records) that got an oracle."""
    groups = collections.OrderedDict()
    for rec in recs:
        r = rec["res"]
        if r.kind != "ok":
            rec["why"] = "solve:" + r.kind; continue
        try:
            poly = full_poly_of_result(r)
        except OracleError as e:
            rec["why"] = "transform:%s" % e; continue
        if poly is None:
            rec["why"] = "inexact-input"; continue
        rec["poly"] = poly
        if len(poly) - 1 > max_degree:
            rec["why"] = "degree-cap"; continue
        tgt = min_radius_log2(S.discs_of(r), floor=-10 ** 9) - slack
        mb = max_bits(len(poly) - 1) if callable(max_bits) else max_bits
        mb = max(mb, rec["case"].get("max_bits", 0) or 0, rec.get("max_bits", 0) or 0)      # a case may ask for more
        if rec.get("target_override") is not None: tgt = rec["target_override"]
        if tgt < -mb:
            rec["why"] = "precision-cap"; tgt = -mb
        rec["target"] = tgt
        key = tuple(poly)
        rec["group"] = key
        groups.setdefault(key, []).append(rec)
    keys = list(groups)
    oracles = [Oracle(list(k)) for k in keys]
    targets = [min(r["target"] for r in groups[k]) for k in keys]
    import time
    def cert1(ot):
        t0 = time.time()
        try: ok = ot[0].certify(ot[1], timeout=timeout)
        except Exception as e:
            ok = False; ot[0].why = "exception %r" % (e,)
        return ok, time.time() - t0
    # longest first, so that the pool does not end on a straggler
    order = sorted(range(len(keys)), key=lambda i: -(len(keys[i]) ** 2) * (targets[i] ** 2))
    res = par_map(cert1, [(oracles[i], targets[i]) for i in order], workers=workers)
    oks = [False] * len(keys); secs = [0.0] * len(keys)
    for i, (ok, dt) in zip(order, res): oks[i] = ok; secs[i] = dt
    out = []
    for k, o, ok, t, dt in zip(keys, oracles, oks, targets, secs):
        for rec in groups[k]: rec["cert_s"] = round(dt, 1)
        if ok:
            for rec in groups[k]: rec["oracle"] = o; rec["target_used"] = t
            out.append(groups[k])
        else:
            for rec in groups[k]:
                rec["why"] = (rec["why"] + " " if rec["why"] else "") + "uncertified:%s" % (getattr(o, "why", ""),)
            try: o.close()
            except Exception: pass
    return out


def count_and_cover(orc, discs):
    """One pass over `discs` (exact (re, im, r) triples): returns (counts, cover, uncovered) where counts[i] = (lo, hi)
    for disc i, cover[j] = indices of the discs that certainly contain certified root j, uncovered[j] = root j is
    certainly in none of the discs.  Same answers as Oracle.count + Oracle.cover, with each disc sent once."""
    orc._need()
    orc._send("cleardiscs\n")
    counts = orc.count(discs)
    orc._send("cover\n")
    l = orc._line(); assert l.startswith("COVER")
    u = orc._line(); assert u.startswith("UNCOVERED")
    orc._line()
    orc._send("cleardiscs\n")
    cover = [[] if tok == "-" else [int(x) for x in tok.split(",")] for tok in l.split()[1:]]
    return counts, cover, [x == "1" for x in u.split()[1:]]


def judge_discs(orc, discs, max_full_bits=40000):
    """Bounds and coverage for returned discs, cheap first: a short INNER disc (contained in the returned disc)
    gives valid lower bounds / 'covered', a short OUTER disc (containing it) gives valid upper bounds /
    'certainly uncovered'; only what stays open is asked again with the full-length numbers.
    discs: (re, im, r) with r finite.  Returns (bounds [(lo, hi)], covered [bool per certified root],
    uncovered [bool per certified root: certainly in no disc])."""
    n = len(discs)
    inner = [inner_disc(d) or (d[0], d[1], Fr(0)) for d in discs]
    outer = [outer_disc(d) for d in discs]
    ci, cov_i, _ = count_and_cover(orc, inner)
    co, _, unc_o = count_and_cover(orc, outer)
    lo = [c[0] for c in ci]; hi = [c[1] for c in co]
    covered = [bool(l) for l in cov_i]; uncovered = list(unc_o)
    open_d = [i for i in range(n) if lo[i] != hi[i] and hi[i] != 0]
    open_r = [j for j in range(len(covered)) if not covered[j] and not uncovered[j]]
    # the extracted checker works on binary positives: numbers of hundreds of thousands of bits (a solver that ran
    # its precision up to 10^5..10^6 bits) would take hours; such discs stay undecided beyond the short answers
    def _bits(d): return max(x.numerator.bit_length() + x.denominator.bit_length() for x in d)
    if any(_bits(d) > max_full_bits for d in discs):
        return [(lo[i], hi[i]) for i in range(n)], covered, uncovered
    if open_r:
        cf, cov_f, unc_f = count_and_cover(orc, discs)
        for i in range(n): lo[i] = max(lo[i], cf[i][0]); hi[i] = min(hi[i], cf[i][1])
        for j in open_r: covered[j] = bool(cov_f[j]); uncovered[j] = unc_f[j]
    elif open_d:
        for i, (l, h) in zip(open_d, orc.count([discs[i] for i in open_d])):
            lo[i] = max(lo[i], l); hi[i] = min(hi[i], h)
    return [(lo[i], hi[i]) for i in range(n)], covered, uncovered


def run_records_safe(ctx, binary, cases_opts, env, timeout=120, workers=16):
    """run_records, but a solve whose export cannot be turned into exact numbers (MemoryError / OverflowError on an
    astronomically large exponent) becomes a record of kind 'unparsed' instead of aborting the whole check."""
    import concurrent.futures
    wd = os.path.join(ctx.scratch, "jobs"); os.makedirs(wd, exist_ok=True)
    def one(ij):
        i, (c, o) = ij
        path = os.path.join(wd, "job%d.pol" % i)
        with open(path, "w") as f: f.write(c["text"])
        try:
            r = S.run_solve(binary, path, o, env=env, timeout=timeout)
        except (MemoryError, OverflowError, ValueError) as e:
            r = S.SolveResult(); r.kind = "unparsed"; r.msg = repr(e)[:200]
        try: os.remove(path)
        except OSError: pass
        return r
    with concurrent.futures.ThreadPoolExecutor(max_workers=workers) as ex:
        results = list(ex.map(one, list(enumerate(cases_opts))))
    return [{"case": c, "opts": o, "res": r, "poly": None, "oracle": None, "why": ""} for (c, o), r in zip(cases_opts, results)]
