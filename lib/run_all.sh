#!/bin/bash
# run_all.sh [P] [ids...] : run the quick tier of the given checks (default: all 20), P at a time; logs in /var/tmp/runs/all_<ID>.{out,err}
P="${1:-4}"; shift
IDS="${@:-C01 C02 C03 C04 C05 C06 C07 C08 C09 C10 C11 C12 C13 C14 C15 C16 C17 C18 C19 C20}"
mkdir -p /var/tmp/runs; cd /verif
run1() { id=$1; s=$(date +%s); ./check $id --tier quick > /var/tmp/runs/all_$id.out 2> /var/tmp/runs/all_$id.err; rc=$?; e=$(date +%s);
  echo "$id rc=$rc wall=$((e-s))s violations=$(grep -c '^VIOLATION' /var/tmp/runs/all_$id.out) known=$(grep -c '^KNOWN-FINDING' /var/tmp/runs/all_$id.out)"; }
export -f run1
printf '%s\n' $IDS | xargs -P "$P" -I{} bash -c 'run1 {}'
