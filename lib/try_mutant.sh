#!/bin/bash
# try_mutant.sh <ID> <worktree> <patch.diff> [outfile] : apply the patch in the scratch worktree, run the check
# against it (VERIF_REPO), undo the patch.  Prints "rc=<n> violations=<k>".
ID="$1"; WT="$2"; P="$3"; OUT="${4:-/var/tmp/runs/mut_${ID}_$(basename $(dirname $P)).out}"
mkdir -p "$(dirname "$OUT")"
cd "$WT" && git checkout -q -- . && git apply "$P" || { echo "patch does not apply"; exit 9; }
cd /verif && VERIF_REPO="$WT" ./check "$ID" > "$OUT" 2> "$OUT.err"; rc=$?
cd "$WT" && git checkout -q -- .
echo "$ID $(basename $(dirname $P)) rc=$rc violations=$(grep -c '^VIOLATION' "$OUT") known=$(grep -c '^KNOWN-FINDING' "$OUT") :: $(grep '^VIOLATION' "$OUT" | head -2 | tr '\n' ' ')"
