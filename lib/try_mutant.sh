#!/bin/bash
# try_mutant.sh <ID> <ignored> <patch.diff> [outfile] : make a fresh scratch worktree of /repo's CURRENT HEAD, apply the
# patch, run the check against it (VERIF_REPO), remove the worktree.  Prints "rc=<n> violations=<k>".
ID="$1"; P="$3"; OUT="${4:-/var/tmp/runs/mut_${ID}_$(basename $(dirname $P)).out}"
WT="/tmp/tm_${ID}_$$"
mkdir -p "$(dirname "$OUT")"
git -C /repo worktree add -q "$WT" HEAD || exit 9
cp /repo/config.h "$WT"/; cp /repo/include/mps/mt.h /repo/include/mps/version.h "$WT"/include/mps/
( cd "$WT" && git apply "$P" ) || { echo "$ID $(basename $(dirname $P)) patch does not apply to current HEAD"; git -C /repo worktree remove --force "$WT"; exit 9; }
cd /verif && VERIF_REPO="$WT" ./check "$ID" > "$OUT" 2> "$OUT.err"; rc=$?
git -C /repo worktree remove --force "$WT"
echo "$ID $(basename $(dirname $P)) rc=$rc violations=$(grep -c '^VIOLATION' "$OUT") known=$(grep -c '^KNOWN-FINDING' "$OUT") :: $(grep '^VIOLATION' "$OUT" | head -2 | sed 's|.*replays/||' | tr '\n' ' ')"
