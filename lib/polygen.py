"""Seeded generators of input equations for the end-to-end checks (C01 family).

Each case is a dict:
  name, cls (input class), text (.pol file contents), coeffs (exact monomial coefficients low->high as
  (Fraction re, Fraction im) of the equation whose roots are sought — for secular / Chebyshev inputs the
  exactly converted monomial form), simple (True/False/None: roots known simple by construction?),
  roots (list of exact (re, im) roots when the input was built from rational roots, else None)
All randomness comes from the random.Random instance passed in.
"""
from fractions import Fraction as Fr
import solve as S


def _case(name, cls, text, coeffs, simple=None, roots=None, note=None):
    return {"name": name, "cls": cls, "text": text, "coeffs": coeffs, "simple": simple, "roots": roots, "note": note,
            "degree": len(coeffs) - 1}


def _c(x):
    return x if isinstance(x, tuple) else (Fr(x), Fr(0))


def _denclear(coeffs):
    from math import lcm
    d = 1
    for re_, im_ in coeffs:
        d = lcm(d, re_.denominator, im_.denominator)
    return [(re_ * d, im_ * d) for re_, im_ in coeffs]


def mono_case(name, cls, coeffs, rng, simple=None, roots=None, kind=None, sparse=None):
    coeffs = [_c(c) for c in coeffs]
    allint = all(c[0].denominator == 1 and c[1].denominator == 1 for c in coeffs)
    if kind is None:
        kind = "Integer" if allint else "Rational"
    if kind == "Integer" and not allint:
        coeffs = _denclear(coeffs)
    if sparse is None:
        sparse = sum(1 for c in coeffs if c == (0, 0)) > len(coeffs) // 2
    text = S.pol_monomial(coeffs, kind=kind, sparse=sparse)
    return _case(name, cls, text, coeffs, simple, roots)


def rand_int_poly(rng, deg, bits=10, complex_=False):
    def r(): return Fr(rng.randint(-(1 << bits), 1 << bits))
    c = [(r(), r() if complex_ else Fr(0)) for _ in range(deg + 1)]
    if c[-1] == (0, 0): c[-1] = (Fr(1), Fr(0))
    if c[0] == (0, 0): c[0] = (Fr(1), Fr(0))
    return c


def rand_rat_poly(rng, deg, complex_=False):
    def r(): return Fr(rng.randint(-50, 50), rng.randint(1, 30))
    c = [(r(), r() if complex_ else Fr(0)) for _ in range(deg + 1)]
    if c[-1] == (0, 0): c[-1] = (Fr(1), Fr(0))
    if c[0] == (0, 0): c[0] = (Fr(1), Fr(3))[:1] + (Fr(0),)
    return c


def rand_dyadic_root(rng, scale=4, bits=6, complex_=True):
    d = 1 << bits
    re_ = Fr(rng.randint(-scale * d, scale * d), d)
    im_ = Fr(rng.randint(-scale * d, scale * d), d) if complex_ else Fr(0)
    return (re_, im_)


def from_roots_case(name, cls, roots, rng, lead=1, kind=None, simple=None):
    coeffs = S.poly_from_roots(roots, (Fr(lead), Fr(0)))
    if simple is None:
        simple = len(set(roots)) == len(roots)
    return mono_case(name, cls, coeffs, rng, simple=simple, roots=list(roots), kind=kind)


def secular_case(name, rng, n, complex_=False):
    used = set(); sec = []
    for _ in range(n):
        while True:
            b = (Fr(rng.randint(-40, 40), rng.randint(1, 6)), Fr(rng.randint(-40, 40), rng.randint(1, 6)) if complex_ else Fr(0))
            if b not in used: used.add(b); break
        a = (Fr(rng.randint(1, 30) * rng.choice([-1, 1]), rng.randint(1, 9)), Fr(rng.randint(-30, 30), rng.randint(1, 9)) if complex_ else Fr(0))
        sec.append((a, b))
    def q(x): return "%d/%d" % (x.numerator, x.denominator)
    lines = ["Secular;", "Degree=%d;" % n, "Rational;", "Complex;" if complex_ else "Real;", ""]
    for a, b in sec:
        if complex_:
            lines.append("%s %s %s %s" % (q(a[0]), q(a[1]), q(b[0]), q(b[1])))
        else:
            lines.append("%s %s" % (q(a[0]), q(b[0])))
    coeffs = S.secular_to_monomial(sec)
    c = _case(name, "secular", "\n".join(lines) + "\n", coeffs, None, None)
    c["sec"] = sec
    return c


def chebyshev_case(name, rng, n):
    cs = [(Fr(rng.randint(-20, 20), rng.randint(1, 7)), Fr(0)) for _ in range(n + 1)]
    if cs[-1][0] == 0: cs[-1] = (Fr(1), Fr(0))
    lines = ["Chebyshev;", "Degree=%d;" % n, "Rational;", "Real;", ""]
    for c in cs:
        lines.append("%d/%d" % (c[0].numerator, c[0].denominator))
    coeffs = S.chebyshev_to_monomial(cs)
    c = _case(name, "chebyshev", "\n".join(lines) + "\n", coeffs, None, None)
    c["cheb"] = cs
    return c


def standard_cases(rng, count, maxdeg=20, classes=None):
    """A mixed stream of `count` cases over the input classes of C01."""
    out = []
    gens = []
    def add(fn): gens.append(fn)
    add(lambda i: mono_case("randint%d" % i, "random-integer", rand_int_poly(rng, rng.randint(1, maxdeg), rng.choice([3, 10, 30])), rng))
    add(lambda i: mono_case("randintc%d" % i, "random-integer-complex", rand_int_poly(rng, rng.randint(1, maxdeg), 8, True), rng))
    add(lambda i: mono_case("randrat%d" % i, "random-rational", rand_rat_poly(rng, rng.randint(1, maxdeg)), rng, kind="Rational"))
    add(lambda i: from_roots_case("roots%d" % i, "from-dyadic-roots",
                                  list({rand_dyadic_root(rng, 4, rng.choice([2, 5])) for _ in range(rng.randint(1, min(maxdeg, 12)))}), rng))
    def clustered(i):
        k = rng.choice([8, 16, 24, 30])
        base = rand_dyadic_root(rng, 2, 2, False)
        rs = [base, (base[0] + Fr(1, 1 << k), base[1]), (base[0], base[1] + Fr(1, 1 << k))]
        rs += list({rand_dyadic_root(rng, 3, 3) for _ in range(rng.randint(0, 4))} - set(rs))
        return from_roots_case("cluster%d" % i, "clustered-2^-%d" % k, rs, rng)
    add(clustered)
    def multiple(i):
        rs = []
        for _ in range(rng.randint(1, 3)):
            z = rand_dyadic_root(rng, 3, 2, rng.random() < 0.5)
            rs += [z] * rng.randint(1, 4)
        return from_roots_case("mult%d" % i, "multiple-roots", rs, rng)
    add(multiple)
    def zeroroots(i):
        # real and (every other time) genuinely complex coefficients: deflation must shift both parts
        c = rand_int_poly(rng, rng.randint(1, 8), 6, complex_=(rng.random() < 0.5))
        k = rng.randint(1, 4)
        return mono_case("zero%d" % i, "zero-roots", [(Fr(0), Fr(0))] * k + c, rng, sparse=rng.random() < 0.5)
    add(zeroroots)
    def scaled(i):
        e = rng.choice([-200, -60, 60, 200])
        rs = list({rand_dyadic_root(rng, 4, 3) for _ in range(rng.randint(2, 6))})
        sc = Fr(2) ** e
        rs = [(z[0] * sc, z[1] * sc) for z in rs]
        return from_roots_case("scaled%d" % i, "scaled-2^%d" % e, rs, rng, kind="Rational")
    add(scaled)
    def sparse(i):
        n = rng.randint(5, max(6, maxdeg * 2))
        c = [(Fr(0), Fr(0))] * (n + 1)
        for j in rng.sample(range(1, n), min(3, n - 1)):
            c[j] = (Fr(rng.randint(-9, 9)), Fr(0))
        c[0] = (Fr(rng.choice([-3, -1, 1, 2])), Fr(0)); c[n] = (Fr(rng.choice([-2, 1, 3])), Fr(0))
        return mono_case("sparse%d" % i, "sparse", c, rng, sparse=True)
    add(sparse)
    add(lambda i: secular_case("sec%d" % i, rng, rng.randint(2, min(maxdeg, 10)), rng.random() < 0.3))
    add(lambda i: chebyshev_case("cheb%d" % i, rng, rng.randint(2, min(maxdeg, 10))))
    def special(i):
        which = rng.choice(["unity", "wilk", "mignotte", "kac", "deg1"])
        if which == "unity":
            n = rng.randint(2, maxdeg)
            return mono_case("unity%d" % n, "x^n-1", [(-1, 0)] + [(0, 0)] * (n - 1) + [(1, 0)], rng, simple=True)
        if which == "wilk":
            n = rng.randint(3, min(maxdeg, 14))
            return from_roots_case("wilk%d" % n, "wilkinson", [(Fr(k), Fr(0)) for k in range(1, n + 1)], rng)
        if which == "mignotte":
            n = rng.randint(4, maxdeg); a = rng.randint(3, 40)
            c = [(Fr(0), Fr(0))] * (n + 1); c[n] = (Fr(1), Fr(0)); c[2] = (Fr(-2 * a * a), Fr(0)); c[1] = (Fr(4 * a), Fr(0)); c[0] = (Fr(-2), Fr(0))
            return mono_case("mignotte%d_%d" % (n, a), "mignotte", c, rng)
        if which == "kac":
            n = rng.randint(2, maxdeg)
            return mono_case("kac%d_%d" % (n, i), "kac", [(Fr(rng.choice([-1, 1])), Fr(0)) for _ in range(n + 1)], rng)
        return mono_case("deg1_%d" % i, "degree-1", [(Fr(rng.randint(-9, 9) or 1), Fr(0)), (Fr(rng.randint(1, 9)), Fr(0))], rng)
    add(special)
    i = 0
    while len(out) < count:
        g = gens[i % len(gens)]
        c = g(i)
        if classes is None or c["cls"].split("-")[0] in classes or c["cls"] in classes:
            out.append(c)
        i += 1
        if i > count * 50: break
    return out


# ----------------------------------------------------------------------------- C01: tight / boundary families
def c01_targeted_cases(rng, count=None, maxdeg=12, big=False):
    """Families aimed at the case splits of the inclusion-radius code (DESIGN C01 'Search'):
    (x-a)^n and (x-a)^n - eps (Newton factor n is sharp), roots at 1 +- 2^-k, coincident starting
    approximations, degree 1, leading/trailing zero coefficients, huge coefficient ratios (float/DPE
    switch), dyadic floating-point coefficients, secular equations with close nodes / tiny weights.
    Deterministic for a given rng.  `count`: keep only that many (random subset, order kept)."""
    out = []
    Z = (Fr(0), Fr(0)); ONE = (Fr(1), Fr(0))
    def powlin(a, n):                      # (x - a)^n
        return S.poly_from_roots([a] * n)
    # (x-a)^n : one root of multiplicity n
    for n in ([2, 3, 5] + ([8, 12] if big else [])):
        a = rand_dyadic_root(rng, 3, rng.choice([0, 2]), rng.random() < 0.4)
        if a == (0, 0): a = (Fr(1), Fr(0))
        out.append(mono_case("powlin%d" % n, "(x-a)^n", powlin(a, n), rng, simple=False, roots=[a] * n, kind="Rational"))
    # (x-a)^n - eps : n simple roots on a circle of radius eps^(1/n)
    for n in ([2, 3, 4, 6] + ([10, 16] if big else [])):
        k = rng.choice([10, 20, 40, 80] + ([200] if big else []))
        a = (Fr(rng.randint(-3, 3) or 1, rng.choice([1, 2, 4])), Fr(0))
        c = powlin(a, n); c[0] = (c[0][0] - Fr(1, 1 << k), c[0][1])
        out.append(mono_case("powlin%d_eps%d" % (n, k), "(x-a)^n-2^-k", c, rng, simple=True, kind="Rational"))
    # roots at 1 +- 2^-k (and a few others)
    for k in ([4, 12, 26, 40] + ([52, 60, 100] if big else [])):
        e = Fr(1, 1 << k)
        rs = [(1 + e, Fr(0)), (1 - e, Fr(0))] + [rand_dyadic_root(rng, 3, 2) for _ in range(rng.randint(0, 3))]
        rs = list(dict.fromkeys(rs))
        out.append(from_roots_case("near1_%d" % k, "roots-1+-2^-k", rs, rng, kind="Rational"))
    # polynomials whose default starting approximations coincide with / are symmetric around the roots
    out.append(mono_case("sym_x4_2x2_1", "coincident", [1, 0, 2, 0, 1], rng, simple=False))             # (x^2+1)^2
    out.append(mono_case("sym_x6_m1sq", "coincident", S.poly_mul([_c(-1), Z, Z, ONE], [_c(-1), Z, Z, ONE]), rng, simple=False))
    n = rng.randint(3, maxdeg)
    out.append(mono_case("binom%d" % n, "coincident", [(-(1 << n), 0)] + [(0, 0)] * (n - 1) + [(1, 0)], rng, simple=True))
    out.append(mono_case("allones%d" % n, "coincident", [(1, 0)] * (n + 1), rng, simple=True))
    # degree 1 (integer, rational, complex, huge, tiny)
    out.append(mono_case("deg1_a", "degree-1", [(Fr(-7), Fr(0)), (Fr(3), Fr(0))], rng))
    out.append(mono_case("deg1_c", "degree-1", [(Fr(2), Fr(-5)), (Fr(1), Fr(1))], rng))
    out.append(mono_case("deg1_huge", "degree-1", [(Fr(1 << 900), Fr(0)), (Fr(3), Fr(0))], rng))
    out.append(mono_case("deg1_tiny", "degree-1", [(Fr(1, 1 << 900), Fr(0)), (Fr(3), Fr(0))], rng, kind="Rational"))
    # trailing zero coefficients (zero roots), dense and sparse; leading zero coefficient
    for k in (1, 3):
        c = rand_int_poly(rng, rng.randint(1, 6), 5)
        out.append(mono_case("trail0_%d" % k, "zero-roots", [Z] * k + c, rng, sparse=(k == 3)))
    out.append(mono_case("only_zero_roots", "zero-roots", [Z, Z, Z, ONE], rng))
    c = rand_int_poly(rng, rng.randint(2, 6), 5)
    lz = mono_case("lead0", "leading-zero", c + [Z], rng, sparse=False)
    out.append(lz)
    # float/DPE switch: huge coefficient ratios
    for (nm, c) in [("ratio_a", [(-Fr(1, 1 << 1100), 0), (1, 0), (0, 0), (Fr(1 << 1100), 0)]),
                    ("ratio_b", [(Fr(1 << 1030), 0), (Fr(-3), 0), (Fr(1, 1 << 1030), 0)]),
                    ("ratio_c", [(-(1 << 2000), 0)] + [(0, 0)] * 3 + [(1, 0)]),
                    ("ratio_d", [(Fr(1), 0), (Fr(1 << 600), 0), (Fr(5), 0), (Fr(1, 1 << 600), 0), (Fr(-2), 0)]),
                    ("ratio_e", [(Fr(3, 1 << 1070), 0), (Fr(-1, 1 << 500), 0), (Fr(7), 0)])]:
        out.append(mono_case(nm, "huge-ratio", [_c(x) if not isinstance(x, tuple) else (Fr(x[0]), Fr(x[1])) for x in c], rng, kind="Rational"))
    # dyadic floating-point coefficients (exactly representable: the equation solved is the one written)
    for j in range(3 if not big else 8):
        d = rng.randint(2, maxdeg)
        c = [(Fr(rng.randint(-4096, 4096), 1 << rng.randint(0, 10)) * Fr(2) ** rng.choice([0, 0, 3, -7]), Fr(0)) for _ in range(d + 1)]
        if c[-1][0] == 0: c[-1] = ONE
        if c[0][0] == 0: c[0] = ONE
        out.append(mono_case("dyfloat%d" % j, "dyadic-float", c, rng, kind="FloatingPoint"))
    # secular equations: close nodes, tiny / large weights
    def sec_case(name, sec):
        def q(x): return "%d/%d" % (x.numerator, x.denominator)
        cplx = any(a[1] != 0 or b[1] != 0 for a, b in sec)
        lines = ["Secular;", "Degree=%d;" % len(sec), "Rational;", "Complex;" if cplx else "Real;", ""]
        for a, b in sec:
            lines.append(("%s %s %s %s" % (q(a[0]), q(a[1]), q(b[0]), q(b[1]))) if cplx else ("%s %s" % (q(a[0]), q(b[0]))))
        cc = _case(name, "secular", "\n".join(lines) + "\n", S.secular_to_monomial(sec), None, None)
        cc["sec"] = sec
        return cc
    k = rng.choice([10, 20, 30])
    out.append(sec_case("sec_close_nodes", [((Fr(1), Fr(0)), (Fr(1), Fr(0))), ((Fr(-2), Fr(0)), (1 + Fr(1, 1 << k), Fr(0))), ((Fr(3), Fr(0)), (Fr(-2), Fr(0)))]))
    out.append(sec_case("sec_tiny_weights", [((Fr(1, 1 << 40), Fr(0)), (Fr(j), Fr(0))) for j in range(1, 5)]))
    out.append(sec_case("sec_big_weights", [((Fr((-1) ** j * (1 << 30)), Fr(0)), (Fr(j, 3), Fr(0))) for j in range(1, 6)]))
    out.append(sec_case("sec_cplx", [((Fr(rng.randint(1, 9)), Fr(rng.randint(-9, 9))), (Fr(rng.randint(-9, 9)), Fr(j))) for j in range(4)]))
    # two secular equations on which the classic algorithm (DPE phase) returned a radius smaller than the error
    out.append(sec_case("sec_regress_a", [((Fr(-2), Fr(0)), (Fr(5, 3), Fr(0))), ((Fr(-12, 7), Fr(0)), (Fr(-39, 4), Fr(0)))]))
    out.append(sec_case("sec_regress_b", [((Fr(21629414, 182406595), Fr(-321243099, 364813190)), (Fr(0), Fr(-11, 2))),
                                          ((Fr(921166927, 61917835), Fr(447349, 8845405)), (Fr(-14), Fr(10))),
                                          ((Fr(109233881, 19338235), Fr(14931473, 19338235)), (Fr(-5), Fr(-7)))]))
    # secular form of a random complex integer polynomial (the family on which C19 met radii that are too small)
    for j in range(2 if not big else 6):
        d = rng.randint(2, min(maxdeg, 6))
        p = rand_int_poly(rng, d, 8, True)
        monic = [S.cdiv(a, p[-1]) for a in p]
        nodes = []
        while len(nodes) < d:
            b = (Fr(rng.randint(-30, 30), rng.randint(1, 4)), Fr(rng.randint(-30, 30), rng.randint(1, 4)))
            if b not in nodes and not S.cis0(S.poly_eval(monic, b)): nodes.append(b)
        out.append(sec_case("secform%d" % j, S.monomial_to_secular(monic, nodes)))
    if count is not None and count < len(out):
        keep = sorted(rng.sample(range(len(out)), count))
        out = [out[i] for i in keep]
    return out


def c01_tiny_root_cases(rng, count=2):
    """One root far below the double range (10^-E, E in 310..400), the others O(1); overall scaling 10^0 / 10^+-160.
    (The float phase marks the tiny root 'not representable as floating point' and hands it to the DPE phase.)
    Each case carries max_bits: the resolution the oracle may need for a disc around 10^-E."""
    out = []
    for j in range(count):
        E = rng.randint(310, 400)
        tiny = (Fr(1, 10 ** E) * rng.choice([1, -1, 3]), Fr(0))
        others = list(dict.fromkeys([(Fr(rng.randint(-4, 4) or 1), Fr(rng.randint(-2, 2))) for _ in range(rng.randint(2, 4))]))
        sc = Fr(10) ** rng.choice([160, -160, 0, 160])
        c = from_roots_case("tinyroot%d_E%d" % (j, E), "root-below-double-range", [tiny] + others, rng, kind="Rational")
        coeffs = [(a * sc, b * sc) for a, b in c["coeffs"]]
        c = mono_case(c["name"], c["cls"], coeffs, rng, simple=True, roots=c["roots"], kind="Rational")
        c["max_bits"] = 2400
        out.append(c)
    # the input on which three of four discs collapsed onto the tiny root (classic algorithm, goal approximate)
    rs = [(Fr(1, 10 ** 329), Fr(0)), (Fr(1), Fr(0)), (Fr(2), Fr(0)), (Fr(-3), Fr(1))]
    c = mono_case("tinyroot_regress", "root-below-double-range", S.poly_from_roots(rs, (Fr(10 ** 160), Fr(0))), rng, simple=True, roots=rs, kind="Rational")
    c["max_bits"] = 2400
    out.append(c)
    return out


def c01_dpe_multiple_cases(rng):
    """C01 family 'multiple roots solved in the DPE phase at low output precision'.
    Exact rational polynomials with a double AND a triple root (small rationals) whose coefficient range
    (n+1)*max|a_i| / min(|a_0|,|a_n|) is beyond the double range, so that the classic algorithm skips / leaves its
    float phase and settles the clusters in the DPE phase (mps_dsolve / mps_dmodify) when only a few digits are asked:
      big      two more roots of modulus ~1e400
      small    one more root of modulus ~1e-400 and a simple root of moderate size
      coef+/-  moderate roots only, every coefficient multiplied by 10^+-400 (no coefficient is a double)
      rootscale every root multiplied by 10^-120 (the multiple roots themselves are far from 1)
    Each case carries max_bits (resolution the oracle may need) like c01_tiny_root_cases.  Deterministic for a given rng."""
    out = []
    def two_multiple():
        # a double root d and a triple root t, well apart (at least 1/2), both of modulus in [1, 6]
        while True:
            d = Fr(rng.choice([-1, 1]) * rng.randint(2, 12), rng.choice([1, 2, 3]))
            t = Fr(rng.choice([-1, 1]) * rng.randint(2, 12), rng.choice([1, 2, 3]))
            if abs(d) >= 1 and abs(t) >= 1 and abs(d) <= 6 and abs(t) <= 6 and abs(abs(d) - abs(t)) >= Fr(1, 2): return d, t
    def simple_far(d, t):
        while True:
            s = Fr(rng.choice([-1, 1]) * rng.randint(7, 11))
            if abs(s - d) >= 1 and abs(s - t) >= 1: return s
    def build(name, rs, scale=Fr(1), max_bits=2400):
        coeffs = S.poly_from_roots(rs, (Fr(scale), Fr(0)))
        c = mono_case(name, "multiple-roots-dpe-phase", coeffs, rng, simple=False, roots=list(rs), kind="Rational")
        c["max_bits"] = max_bits
        return c
    R = lambda x: (Fr(x), Fr(0))
    # big: two roots near 1e400
    d, t = two_multiple()
    a, b = rng.sample([1, 2, 3, 5, 7], 2)
    out.append(build("dpemult_big", [R(a * Fr(10) ** 400), R(-b * Fr(10) ** 400 if rng.random() < 0.5 else b * Fr(10) ** 400)] + [R(d)] * 2 + [R(t)] * 3))
    # small: one root near 1e-400 and a simple root of moderate size (two roots near 1e-400 in one square-free factor
    # defeat the untrusted hint generator of the root oracle, mpmath.polyroots: such an input would never be judged).
    # Fixed numbers: the secular algorithm returns the point disc {0} for the tiny root of this input (listed in
    # known/C01.json under the name of the case), so the case must be the same equation for every seed.
    out.append(build("dpemult_small", [R(-2 * Fr(1, 10 ** 400)), R(-9)] + [R(Fr(8, 3))] * 2 + [R(Fr(-9, 2))] * 3))
    out[-1]["oracle_target_log2"] = -1400          # resolution that tells the root ~2^-1330 from 0, whatever radii come back
    # moderate roots, all coefficients scaled by 10^+-400
    for nm, sc in (("dpemult_coef_up", Fr(10) ** 400), ("dpemult_coef_down", Fr(1, 10 ** 400))):
        d, t = two_multiple()
        out.append(build(nm, [R(d)] * 2 + [R(t)] * 3 + [R(simple_far(d, t))], scale=sc))
    # every root scaled by 10^-120 (degree 6: a_0/a_n ~ 1e-720)
    d, t = two_multiple()
    sc = Fr(1, 10 ** 120)
    out.append(build("dpemult_rootscale", [R(d * sc)] * 2 + [R(t * sc)] * 3 + [R(simple_far(d, t) * sc)]))
    return out
