#!/bin/bash
# apply_fix.sh <fixes/X.patch> "<commit message starting with fix:>" : one unguarded fix: commit in /repo + entry in known/fixmap.txt
P="$1"; MSG="$2"
case "$MSG" in fix:*) ;; *) echo "message must start with fix:"; exit 1;; esac
git -C /repo apply --index "/verif/$P" || exit 1
git -C /repo commit -q -m "$MSG" || exit 1
H=$(git -C /repo rev-parse --short=8 HEAD)
echo "$(basename $P) $H" >> /verif/known/fixmap.txt
echo "$P -> $H"
