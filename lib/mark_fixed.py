#!/usr/bin/env python3
"""Move known findings whose fix_patch has been committed in /repo (known/fixmap.txt: patch -> commit)
from known/Cxx.json to known/fixed.json.  Run by the integrator after applying fix: commits."""
import json, glob, os
V = os.path.dirname(os.path.dirname(os.path.abspath(__file__)))
m = {}
for l in open(os.path.join(V, "known", "fixmap.txt")):
    if l.strip():
        a, b = l.split(); m["fixes/" + a] = b
fixed = json.load(open(os.path.join(V, "known", "fixed.json")))
for fp in sorted(glob.glob(os.path.join(V, "known", "C*.json"))):
    d = json.load(open(fp)); keep = []
    for f in d.get("findings", []):
        pt = f.get("fix_patch")
        if pt and not pt.startswith("fixes/"): pt = "fixes/" + os.path.basename(pt)
        if pt in m:
            fixed.append("fixed: property=%s %s %s [%s]" % (f.get("property", os.path.basename(fp)[:3]), m[pt], f["what"], f.get("signature") or f.get("signature_regex")))
        else:
            keep.append(f)
    if len(keep) != len(d.get("findings", [])):
        print(os.path.basename(fp), "moved", len(d.get("findings", [])) - len(keep), "kept", len(keep))
    d["findings"] = keep; json.dump(d, open(fp, "w"), indent=1)
json.dump(fixed, open(os.path.join(V, "known", "fixed.json"), "w"), indent=1)
