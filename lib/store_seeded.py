#!/usr/bin/env python3
"""store_seeded.py <ID> <k> [note]: copy an independently seeded change (from /tmp/mut_<ID>_out/<k>) into
/verif/seeded/<ID>_<k>/ with meta.json recording the integrator's confirmation and the check's verdict."""
import json, sys, os, shutil, glob
i, k = sys.argv[1], sys.argv[2]; note = sys.argv[3] if len(sys.argv) > 3 else ""
# optional: VF_SEED_SRC=<dir holding patch.diff etc.>, VF_SEED_RUN=<check output file> (defaults: first-round locations)
src = os.environ.get("VF_SEED_SRC") or "/tmp/mut_%s_out/%s" % (i, k); dst = "/verif/seeded/%s_%s" % (i, k)
os.makedirs(dst, exist_ok=True)
for f in glob.glob(src + "/*"):
    b = os.path.basename(f)
    if os.path.isfile(f) and os.path.getsize(f) < 400000 and not b.endswith((".o", ".out")) and b not in ("demo", "a.out"):
        shutil.copy(f, dst)
    if b in ("demo_with.out", "demo_without.out"):
        open(os.path.join(dst, b), "w").write(open(f, errors="replace").read()[-3000:])
m = json.load(open(src + "/meta.json"))
conf = open(src + "/confirm.log").read().strip().split("\n")[-1] if os.path.exists(src + "/confirm.log") else "not confirmed"
res = open(os.environ.get("VF_SEED_RUN") or "/var/tmp/runs/mut_%s_%s.out" % (i, k)).read()
viol = [l for l in res.split("\n") if l.startswith("VIOLATION")]
m.update({"breaks_property": i, "origin": "independent sub-agent given only the property text and a scratch worktree",
          "confirmed_by_integrator": conf + "  (lib/confirm_mutant.sh: with the patch the demo fails and `make check` gives 19 PASS; without it the demo passes)",
          "check_run": "lib/try_mutant.sh %s <scratch worktree> patch.diff  == VERIF_REPO=<worktree with patch> ./check %s --tier quick" % (i, i),
          "check_result": {"exit": 1 if viol else 0, "violation_lines": viol[:3]}, "detected": bool(viol)})
if note: m["integrator_note"] = note
json.dump(m, open(dst + "/meta.json", "w"), indent=1)
print(dst, "detected" if viol else "MISSED")
