#!/usr/bin/env python3
"""seeded_table.py: rewrite DESIGN.md section 8.5 (between the SEEDED-TABLE markers) from seeded/*/meta.json."""
import json, glob, re
rows = []
nd = 0
for d in sorted(glob.glob('/verif/seeded/*/')):
    m = json.load(open(d + 'meta.json')); name = d.rstrip('/').split('/')[-1]
    v = m.get('check_result', {}).get('violation_lines', [])
    sig = v[0].split('replay=')[-1].split('/')[-1][:80] if v else ''
    clean = lambda s, n: (s.split('. ')[0])[:n].replace('|', '/').replace('\n', ' ')
    det = bool(m.get('detected')); nd += det
    by = m.get('detected_by') or ('./check %s' % m.get('breaks_property', name[:3]))
    rows.append('| %s | %s | %s | %s | %s |' % (name, clean(m.get('summary', ''), 220), clean(m.get('needs_to_manifest', ''), 160),
                by if det else '**missed**', (sig + ' ' + clean(m.get('integrator_note', ''), 200) + (' [' + clean(m.get('reverified', {}).get('note', ''), 260) + ']' if m.get('reverified', {}).get('note') else '')).strip()))
hdr = ("### 8.5 Which checks catch which seeded changes\n\n"
       "Each change below was written by a sub-agent that saw only the property text and a scratch worktree, and was kept only after\n"
       "`lib/confirm_mutant.sh` confirmed it (compiles, the 19 tests pass, its demonstration fails with and passes without the change).\n"
       "The verdict column is the result of `VERIF_REPO=<worktree with the change> ./check <ID> --tier quick` (`lib/try_mutant.sh`); the last\n"
       "column names the replay file of the first VIOLATION line.  %d changes, %d detected.  Full records: `seeded/<ID>_<k>/meta.json`.\n"
       "After the round-6 fix: commits every stored change was run again against the current checks and /repo HEAD (`lib/reverify_seeded.sh`; field\n"
       "`reverified` of each meta.json): a change whose own demonstration now PASSES with the patch applied (the fixes made the code robust against it) is\n"
       "marked so and keeps the verdict obtained at the HEAD it was written for.  Candidates that did not survive confirmation were dropped: a reordered unlock\n"
       "in `mps_thread_mainloop` (C05; `check_secsolve` failed with it under load) and a second C01 candidate identical to seeded/C16_1.\n\n"
       "| change | what was changed | what it needs to manifest | caught by | first violation / note |\n|---|---|---|---|---|\n" % (len(rows), nd))
body = "<!-- SEEDED-TABLE-BEGIN -->\n" + hdr + "\n".join(rows) + "\n<!-- SEEDED-TABLE-END -->\n"
s = open('/verif/DESIGN.md').read()
if 'SEEDED-TABLE-BEGIN' in s:
    s = re.sub(r'<!-- SEEDED-TABLE-BEGIN -->.*<!-- SEEDED-TABLE-END -->\n', lambda _: body, s, flags=re.S)
else:
    s = s.rstrip('\n') + '\n\n' + body
open('/verif/DESIGN.md', 'w').write(s)
print(len(rows), 'changes,', nd, 'detected')
