#!/usr/bin/env python3-vt
"""UNTRUSTED hint generator for the certified root oracle (run with python3-vt:
needs mpmath, and sympy for multiple roots).

stdin : JSON {"coeffs": [[re_num, re_den, im_num, im_den], ...] (ints as decimal strings, low->high),
              "target_log2": -200, "force_sqf": false, "exact_only": false}
stdout: JSON {"ok": bool, "why": str, "scale": c, "pint": [[re, im], ...], "g": [re, im], "a": [re, im],
              "factors": [{"m": m, "prec": K, "q": [[re, im], ...], "tiny": [[a, b, r, e], ...]}, ...]}
        (prec K > 0: Newton test in truncated arithmetic with scale 2^K; 0: exact arithmetic)
        (all integers as strings; tiny disc = centre (a + i b) 2^e, radius r 2^e)

Nothing produced here is believed: bin/cert re-checks every claim with exact integer arithmetic.
"""
import json, sys, math
from fractions import Fraction
from math import gcd, isqrt

import mpmath
from mpmath import mp, mpc, mpf


# ---------- exact Gaussian-integer polynomial helpers (python ints) ----------
def gmul(x, y):
    return (x[0] * y[0] - x[1] * y[1], x[0] * y[1] + x[1] * y[0])


def pmul(p, q):
    r = [(0, 0)] * (len(p) + len(q) - 1)
    for i, a in enumerate(p):
        if a == (0, 0):
            continue
        for j, b in enumerate(q):
            c = gmul(a, b)
            r[i + j] = (r[i + j][0] + c[0], r[i + j][1] + c[1])
    return r


def ppow(p, m):
    r = [(1, 0)]
    for _ in range(m):
        r = pmul(r, p)
    return r


def content(p):
    g = 0
    for a, b in p:
        g = gcd(g, gcd(a, b))
    return g


def eval2_scaled(q, w, k):
    """(s^len q(w/s), s^len q'(w/s)) with s = 2^k, as Gaussian integers (exactly what Coq's peval2 does)."""
    v = (0, 0); d = (0, 0); sp = 1
    for c in reversed(q):
        sp2 = sp << k
        nv = gmul(v, w); nv = (nv[0] + sp2 * c[0], nv[1] + sp2 * c[1])
        nd = gmul(d, w); nd = (nd[0] + (v[0] << k), nd[1] + (v[1] << k))
        v, d, sp = nv, nd, sp2
    return v, d


def n2(x):
    return x[0] * x[0] + x[1] * x[1]


def eval2_trunc(q, w, k, K):
    """mirror of Coq's peval2_trunc with s = 2^k, M = 2^K: ((v, e), (d, ed))"""
    W = isqrt(n2(w)) + 1
    v = (0, 0); e = 0; d = (0, 0); ed = 0
    for c in reversed(q):
        t = gmul(v, w)
        nv = ((t[0] >> k) + (c[0] << K), (t[1] >> k) + (c[1] << K))
        ne = ((e * W) >> k) + 3
        t = gmul(d, w)
        nd = ((t[0] >> k) + v[0], (t[1] >> k) + v[1])
        ned = ((ed * W) >> k) + 3 + e
        v, e, d, ed = nv, ne, nd, ned
    return v, e, d, ed


def radius_exact(q, a, b, k):
    n = len(q) - 1
    v, d = eval2_scaled(q, (a, b), k)
    nd = n2(d)
    if nd == 0:
        return None
    num = (n << k) ** 2 * n2(v)
    return isqrt(-(-num // nd)) + 1


def radius_trunc(q, a, b, k, K):
    n = len(q) - 1
    v, e, d, ed = eval2_trunc(q, (a, b), k, K)
    nv = isqrt(n2(v)) + 1 + e
    nd = isqrt(n2(d)) - ed
    if nd <= 0:
        return None
    return -(-((n << k) * nv) // nd)


# ---------- numeric root finding (mpmath), all untrusted ----------
def to_mpc(c):
    return mpc(mpf(c[0]), mpf(c[1]))


def approx_roots(q, prec0, tries=6):
    """roots of the Gaussian-integer polynomial q (low->high) to roughly prec0/2 bits"""
    n = len(q) - 1
    if n == 0:
        return []
    if n == 1:
        mp.prec = prec0
        return [-to_mpc(q[0]) / to_mpc(q[1])]
    prec = prec0
    last = None
    for _ in range(tries):
        mp.prec = prec
        cs = [to_mpc(c) for c in reversed(q)]
        try:
            roots, err = mpmath.polyroots(cs, maxsteps=60 + 8 * n, extraprec=prec, error=True)
            if err < mpf(2) ** (-prec // 3):
                return list(roots)
            last = "error estimate too large"
        except mpmath.libmp.libhyper.NoConvergence as e:      # pragma: no cover
            last = str(e)
        except Exception as e:                                 # noqa
            last = str(e)
        prec *= 2
    raise RuntimeError("polyroots failed: %s" % last)


def polish(q, x, prec_from, prec_to):
    p = prec_from
    n = len(q) - 1
    while True:
        p = min(2 * p, prec_to)
        mp.prec = p + 30
        cs = [to_mpc(c) for c in reversed(q)]
        for _ in range(2 if p < prec_to else 3):
            v = mpmath.polyval(cs, x)
            dcs = [cs[i] * (n - i) for i in range(n)]
            d = mpmath.polyval(dcs, x)
            if d == 0:
                break
            x = x - v / d
        if p >= prec_to:
            return x


def tiny_for_factor(q, target_log2, guard, tries=6, exact_only=False):
    """(list of (a, b, r, e), K) for the square-free Gaussian-integer polynomial q, or raises;
    K > 0: the radii were computed for the truncated test with scale 2^K, K = 0: exact test"""
    n = len(q) - 1
    if n == 0:
        return [], 0
    prec0 = max(160, 6 * n + 64) + guard
    rts = approx_roots(q, prec0, tries)
    # separation of the approximations decides how small the discs must be
    mp.prec = prec0
    sep = None
    for i in range(len(rts)):
        for j in range(i + 1, len(rts)):
            dd = abs(rts[i] - rts[j])
            if sep is None or dd < sep:
                sep = dd
    tl = target_log2
    if sep is not None:
        if sep == 0:
            raise RuntimeError("coincident approximations")
        tl = min(tl, int(mpmath.floor(mpmath.log(sep, 2))) - 8)
    e = tl - 8 - max(1, n).bit_length()          # grid 2^e
    k = -e
    if k <= 0:
        k = 1; e = -1
    prec_to = k + 40 + guard
    cents = []
    for x in rts:
        x = polish(q, x, prec0 // 2, prec_to)
        mp.prec = prec_to + 30
        cents.append((int(mpmath.nint(mpmath.ldexp(x.real, k))), int(mpmath.nint(mpmath.ldexp(x.imag, k)))))
    rmax = 1 << (7 + max(1, n).bit_length())      # radius r 2^e stays below 2^target
    if n >= 3 and not exact_only:
        K = k + 64
        for _ in range(6):
            rs = [radius_trunc(q, a, b, k, K) for a, b in cents]
            if all(r is not None and r < rmax for r in rs):
                return [(a, b, r, e) for (a, b), r in zip(cents, rs)], K
            K += 64 + k // 4
    rs = [radius_exact(q, a, b, k) for a, b in cents]
    if any(r is None for r in rs):
        raise RuntimeError("derivative vanishes at centre")
    return [(a, b, r, e) for (a, b), r in zip(cents, rs)], 0


def discs_disjoint(ts):
    # all on possibly different grids: bring to common exponent
    if not ts:
        return True
    emin = min(t[3] for t in ts)
    norm = [(t[0] << (t[3] - emin), t[1] << (t[3] - emin), t[2] << (t[3] - emin)) for t in ts]
    for i in range(len(norm)):
        for j in range(i + 1, len(norm)):
            dx = norm[i][0] - norm[j][0]; dy = norm[i][1] - norm[j][1]
            rr = norm[i][2] + norm[j][2]
            if dx * dx + dy * dy <= rr * rr:
                return False
    return True


def sqf_factors(pint):
    """square-free decomposition over Q(i) with sympy: list of (m, q) with q Gaussian-integer primitive"""
    import sympy
    from sympy import Poly, Symbol, I, QQ
    x = Symbol("x")
    real = all(c[1] == 0 for c in pint)
    if real:
        P = Poly([c[0] for c in reversed(pint)], x, domain="QQ")
    else:
        P = Poly([sympy.Integer(c[0]) + I * sympy.Integer(c[1]) for c in reversed(pint)], x, domain="QQ_I")
    _, fl = P.sqf_list()
    res = []
    for f, m in fl:
        cs = f.all_coeffs()
        fr = []
        for c in cs:
            c = sympy.nsimplify(c) if not real else c
            re, im = sympy.re(c), sympy.im(c)
            fr.append((Fraction(int(sympy.numer(re)), int(sympy.denom(re))),
                       Fraction(int(sympy.numer(im)), int(sympy.denom(im)))))
        L = 1
        for a, b in fr:
            L = L * a.denominator // gcd(L, a.denominator)
            L = L * b.denominator // gcd(L, b.denominator)
        q = [(int(a * L), int(b * L)) for a, b in reversed(fr)]
        g = content(q)
        if g > 1:
            q = [(a // g, b // g) for a, b in q]
        if len(q) > 1:
            res.append((int(m), q))
    return res


def main():
    req = json.load(sys.stdin)
    coeffs = [(Fraction(int(c[0]), int(c[1])), Fraction(int(c[2]), int(c[3]))) for c in req["coeffs"]]
    target = int(req.get("target_log2", -200))
    force_sqf = bool(req.get("force_sqf", False))
    exact_only = bool(req.get("exact_only", False))
    while coeffs and coeffs[-1] == (0, 0):
        coeffs.pop()
    if len(coeffs) == 0:
        print(json.dumps({"ok": False, "why": "zero polynomial"})); return
    L = 1
    for a, b in coeffs:
        L = L * a.denominator // gcd(L, a.denominator)
        L = L * b.denominator // gcd(L, b.denominator)
    pint = [(int(a * L), int(b * L)) for a, b in coeffs]
    # the driver wants pint with the same length as the input list: pad with the dropped zeros
    npad = len(req["coeffs"]) - len(pint)
    out = {"ok": False, "why": "", "scale": str(L), "pint": [[str(a), str(b)] for a, b in pint] + [["0", "0"]] * npad}

    why = ""
    for attempt in range(2):
        use_sqf = force_sqf or attempt == 1
        try:
            if use_sqf:
                facs = sqf_factors(pint)
            else:
                g0 = content(pint)
                facs = [(1, [(a // g0, b // g0) for a, b in pint])] if len(pint) > 1 else []
            prod = [(1, 0)]
            for m, q in facs:
                prod = pmul(prod, ppow(q, m))
            if len(prod) != len(pint):
                raise RuntimeError("degree mismatch in decomposition")
            g, a = prod[-1], pint[-1]
            # g * pint = a * prod must hold; checked again by the oracle
            for i in range(len(pint)):
                if gmul(g, pint[i]) != gmul(a, prod[i]):
                    raise RuntimeError("decomposition does not multiply back")
            guard = 0
            done = False
            for _ in range(4):
                try:
                    res = [tiny_for_factor(q, target, guard, 6 if use_sqf else 1, exact_only) for m, q in facs]
                    tinys = [r[0] for r in res]; precs = [r[1] for r in res]
                    allt = [t for ts in tinys for t in ts]
                    if discs_disjoint(allt):
                        done = True
                        break
                    why = "tiny discs overlap"
                    if not use_sqf:
                        break            # probably multiple roots: go to the square-free route
                except RuntimeError as ex:
                    why = str(ex)
                    if not use_sqf:
                        break
                guard = 256 if guard == 0 else guard * 2
            if done:
                out.update({"ok": True, "why": "sqf" if use_sqf else "simple",
                            "g": [str(g[0]), str(g[1])], "a": [str(a[0]), str(a[1])],
                            "factors": [{"m": m, "prec": K, "q": [[str(c[0]), str(c[1])] for c in q],
                                         "tiny": [[str(v) for v in t] for t in ts]}
                                        for (m, q), ts, K in zip(facs, tinys, precs)]})
                break
        except Exception as ex:      # noqa
            why = "%s: %s" % (type(ex).__name__, ex)
        if force_sqf:
            break
    if not out["ok"]:
        out["why"] = why
    json.dump(out, sys.stdout)


if __name__ == "__main__":
    main()
