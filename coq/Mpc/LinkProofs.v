(* C13: proofs about the statement-level model of link.c / gmptools.c conversions (Mpc/LinkModel.v).
   Everything is over Z: no axioms. *)
Require Import ZArith List Bool Lia ZifyBool.
Require Import MPSV.Mpc.LinkModel.
Import ListNotations.
Open Scope Z_scope.

(* ---------------------------------------------------------------- powers of two, bit length *)
Lemma pow2_pos k : 0 <= k -> 0 < 2 ^ k.
Proof. intro H. apply Z.pow_pos_nonneg; lia. Qed.

Lemma pow2_add a b : 0 <= a -> 0 <= b -> 2 ^ (a + b) = 2 ^ a * 2 ^ b.
Proof. intros. apply Z.pow_add_r; assumption. Qed.

Lemma pow2_le a b : 0 <= a <= b -> 2 ^ a <= 2 ^ b.
Proof. intro H. apply Z.pow_le_mono_r; lia. Qed.

Lemma pow2_lt a b : 0 <= a < b -> 2 ^ a < 2 ^ b.
Proof. intro H. apply Z.pow_lt_mono_r; lia. Qed.

Lemma bitlen_spec m : 0 < m -> 0 < bitlen m /\ 2 ^ (bitlen m - 1) <= m < 2 ^ bitlen m.
Proof.
  intro H. unfold bitlen. pose proof (Z.log2_spec m H) as [A B]. pose proof (Z.log2_nonneg m).
  replace (Z.log2 m + 1 - 1) with (Z.log2 m) by lia. replace (Z.log2 m + 1) with (Z.succ (Z.log2 m)) by lia. lia.
Qed.

Lemma bitlen_unique m b : 0 < b -> 2 ^ (b - 1) <= m < 2 ^ b -> bitlen m = b.
Proof.
  intros Hb H. unfold bitlen. assert (Z.log2 m = b - 1); [|lia].
  apply Z.log2_unique; [lia|]. replace (Z.succ (b - 1)) with b by lia. exact H.
Qed.

Lemma bitlen_shift m t : 0 < m -> 0 <= t -> bitlen (m * 2 ^ t) = bitlen m + t.
Proof. intros Hm Ht. unfold bitlen. rewrite Z.log2_mul_pow2 by lia. lia. Qed.

(* ---------------------------------------------------------------- norm53 *)
Lemma norm53_spec m : 0 < m ->
  let '(q, k) := norm53 m in
  k = bitlen m - 53 /\ 2 ^ 52 <= q < 2 ^ 53 /\
  (0 <= k -> q = m / 2 ^ k /\ q * 2 ^ k <= m < (q + 1) * 2 ^ k) /\
  (k < 0 -> q = m * 2 ^ (- k)).
Proof.
  intro Hm. unfold norm53. destruct (bitlen_spec m Hm) as [Hb [L1 L2]].
  set (b := bitlen m) in *. destruct (0 <=? b - 53) eqn:E.
  - apply Z.leb_le in E. set (k := b - 53) in *.
    assert (P : 0 < 2 ^ k) by (apply pow2_pos; lia).
    assert (E1 : 2 ^ (b - 1) = 2 ^ 52 * 2 ^ k) by (rewrite <- pow2_add by lia; f_equal; lia).
    assert (E2 : 2 ^ b = 2 ^ 53 * 2 ^ k) by (rewrite <- pow2_add by lia; f_equal; lia).
    pose proof (Z.mul_div_le m (2 ^ k) P) as D1. pose proof (Z.mul_succ_div_gt m (2 ^ k) P) as D2.
    split; [reflexivity|]. split.
    + split; [apply Z.div_le_lower_bound; lia | apply Z.div_lt_upper_bound; lia].
    + split; [intros _; split; [reflexivity | lia] | lia].
  - apply Z.leb_gt in E. set (k := b - 53) in *.
    assert (P : 0 < 2 ^ (- k)) by (apply pow2_pos; lia).
    assert (E1 : 2 ^ (b - 1) * 2 ^ (- k) = 2 ^ 52) by (rewrite <- pow2_add by lia; f_equal; lia).
    assert (E2 : 2 ^ b * 2 ^ (- k) = 2 ^ 53) by (rewrite <- pow2_add by lia; f_equal; lia).
    split; [reflexivity|]. split; [nia|]. split; [lia | intros _; reflexivity].
Qed.

Lemma norm53_shift q t : 2 ^ 52 <= q < 2 ^ 53 -> 0 <= t -> norm53 (q * 2 ^ t) = (q, t).
Proof.
  intros Hq Ht. unfold norm53.
  assert (Q0 : 0 < q) by (assert (0 < 2 ^ 52) by (apply pow2_pos; lia); lia).
  rewrite (bitlen_shift q t Q0 Ht), (bitlen_unique q 53) by (simpl; lia).
  replace (53 + t - 53) with t by lia. apply Z.leb_le in Ht. rewrite Ht. apply Z.leb_le in Ht.
  rewrite Z.div_mul by (assert (0 < 2 ^ t) by (apply pow2_pos; lia); lia). reflexivity.
Qed.

(* ---------------------------------------------------------------- well-formedness, unpacked *)
Lemma wf_unpack f : wf_mpf f = true ->
  2 <= m_prec f < 2 ^ 31 /\ m_n f <= m_prec f + 1 /\
  (m_size f = 0 -> m_d f = 0) /\
  (m_size f <> 0 -> 1 <= m_n f /\ 2 ^ (64 * (m_n f - 1)) <= m_d f < 2 ^ (64 * m_n f)).
Proof.
  unfold wf_mpf, m_n. intro H.
  apply andb_prop in H. destruct H as [H H4]. apply andb_prop in H. destruct H as [H H3].
  apply andb_prop in H. destruct H as [H1 H2].
  destruct (m_size f =? 0) eqn:E.
  - apply Z.eqb_eq in E. repeat split; try lia.
  - apply Z.eqb_neq in E. apply andb_prop in H4. destruct H4 as [H4 H5]. repeat split; try lia.
Qed.

Lemma wf_bitlen f : wf_mpf f = true -> m_size f <> 0 ->
  0 < m_d f /\ 64 * (m_n f - 1) < bitlen (m_d f) <= 64 * m_n f.
Proof.
  intros W N. destruct (wf_unpack f W) as [_ [_ [_ H]]]. destruct (H N) as [Hn [L U]].
  assert (P : 0 < 2 ^ (64 * (m_n f - 1))) by (apply pow2_pos; lia).
  assert (D : 0 < m_d f) by lia. split; [exact D|].
  destruct (bitlen_spec _ D) as [Hb [B1 B2]]. split.
  - destruct (Z_lt_le_dec (64 * (m_n f - 1)) (bitlen (m_d f))) as [C|C]; [exact C|exfalso].
    assert (2 ^ bitlen (m_d f) <= 2 ^ (64 * (m_n f - 1))) by (apply pow2_le; lia). lia.
  - destruct (Z_le_gt_dec (bitlen (m_d f)) (64 * m_n f)) as [C|C]; [exact C|exfalso].
    assert (2 ^ (64 * m_n f) <= 2 ^ (bitlen (m_d f) - 1)) by (apply pow2_le; lia). lia.
Qed.

Lemma in_long_true z : LMIN <= z <= LMAX -> in_long z = true.
Proof. unfold in_long. lia. Qed.

Lemma LMIN_val : LMIN = -9223372036854775808. Proof. reflexivity. Qed.
Lemma LMAX_val : LMAX = 9223372036854775807. Proof. reflexivity. Qed.
Lemma p57_val : 2 ^ 57 = 144115188075855872. Proof. reflexivity. Qed.
Lemma p31_val : 2 ^ 31 = 2147483648. Proof. reflexivity. Qed.

(* ---------------------------------------------------------------- mpf -> double with the exponent zeroed *)
Definition top53 (f : mpf) : Z := fst (norm53 (m_d f)).
(* binary exponent of the most significant bit relative to the limb array: in (-64, 0] *)
Definition top_shift (f : mpf) : Z := bitlen (m_d f) - 64 * m_n f.

Lemma top53_bounds f : wf_mpf f = true -> m_size f <> 0 -> 2 ^ 52 <= top53 f < 2 ^ 53.
Proof.
  intros W N. destruct (wf_bitlen f W N) as [D _]. unfold top53.
  pose proof (norm53_spec (m_d f) D) as S. destruct (norm53 (m_d f)) as [q k]. simpl. tauto.
Qed.

Lemma top_shift_bounds f : wf_mpf f = true -> m_size f <> 0 -> -64 < top_shift f <= 0.
Proof. intros W N. destruct (wf_bitlen f W N) as [_ B]. unfold top_shift. lia. Qed.

Lemma get_d_exp0 f : wf_mpf f = true -> m_size f <> 0 ->
  mpf_get_d (set_exp f 0) = Ok (DFin (m_neg f) (top53 f) (top_shift f - 53)).
Proof.
  intros W N. destruct (wf_unpack f W) as [Hp [Hn _]]. destruct (wf_bitlen f W N) as [D B].
  pose proof (Z.abs_nonneg (m_size f)) as An. fold (m_n f) in An.
  unfold mpf_get_d, top53, top_shift.
  replace (m_size (set_exp f 0)) with (m_size f) by reflexivity.
  replace (m_exp (set_exp f 0)) with 0 by reflexivity.
  replace (m_n (set_exp f 0)) with (m_n f) by reflexivity.
  replace (m_neg (set_exp f 0)) with (m_neg f) by reflexivity.
  replace (m_d (set_exp f 0)) with (m_d f) by reflexivity.
  replace (m_size f =? 0) with false by (symmetry; apply Z.eqb_neq; exact N).
  rewrite p31_val in Hp.
  rewrite in_long_true by (rewrite LMIN_val, LMAX_val; lia).
  unfold mpn_get_d. pose proof (norm53_spec (m_d f) D) as S.
  destruct (norm53 (m_d f)) as [q k]. destruct S as [Ek [Hq _]]. cbn [fst].
  replace (1024 <=? (0 - m_n f) * 64 + k + 52) with false by (symmetry; apply Z.leb_gt; lia).
  replace (-1022 <=? (0 - m_n f) * 64 + k + 52) with true by (symmetry; apply Z.leb_le; lia).
  f_equal. f_equal. lia.
Qed.

Lemma frexp_norm s q e : 2 ^ 52 <= q < 2 ^ 53 -> frexp (DFin s q e) = (DFin s q (-53), e + 53).
Proof.
  intro Hq. unfold frexp. rewrite (bitlen_unique q 53) by (simpl; lia).
  replace (53 - 53) with 0 by lia. rewrite Z.pow_0_r, Z.mul_1_r. reflexivity.
Qed.

Lemma set_esp_plain s q e a b :
  LMIN <= a + b <= LMAX -> rdpe_set_esp (DFin s q e) a b false = (DFin s q e, a + b).
Proof.
  intro H. unfold rdpe_set_esp.
  replace ((0 <? b) && (LMAX - b <? a)) with false by lia.
  replace ((b <? 0) && (a <? LMIN - b)) with false by lia.
  reflexivity.
Qed.

Lemma set_exp_restore f : set_exp (set_exp f 0) (m_exp f) = f.
Proof. destruct f; reflexivity. Qed.

(* ---------------------------------------------------------------- mpf_get_rdpe, closed form *)
Definition exp_ok (f : mpf) : Prop := - 2 ^ 57 < m_exp f < 2 ^ 57.

Theorem get_rdpe_closed f : wf_mpf f = true -> m_size f <> 0 -> exp_ok f ->
  mpf_get_rdpe f = Ok ((DFin (m_neg f) (top53 f) (-53), 64 * m_exp f + top_shift f), f, [0; m_exp f]).
Proof.
  intros W N X. unfold exp_ok in X. rewrite p57_val in X.
  pose proof (top53_bounds f W N) as Hq. pose proof (top_shift_bounds f W N) as Ht.
  unfold mpf_get_rdpe. rewrite (get_d_exp0 f W N).
  unfold lmul. rewrite in_long_true by (rewrite LMIN_val, LMAX_val; lia).
  unfold rdpe_set_2dl. rewrite (frexp_norm _ _ _ Hq).
  rewrite set_esp_plain by (rewrite LMIN_val, LMAX_val; lia).
  rewrite set_exp_restore. f_equal. f_equal. f_equal. f_equal. lia.
Qed.

Theorem get_rdpe_zero f : wf_mpf f = true -> m_size f = 0 -> exp_ok f ->
  mpf_get_rdpe f = Ok ((DZero, 0), f, [0; m_exp f]).
Proof.
  intros W N X. unfold exp_ok in X. rewrite p57_val in X.
  unfold mpf_get_rdpe, mpf_get_d. replace (m_size (set_exp f 0)) with (m_size f) by reflexivity.
  rewrite N. cbn [Z.eqb]. unfold lmul. rewrite in_long_true by (rewrite LMIN_val, LMAX_val; lia).
  rewrite set_exp_restore. reflexivity.
Qed.

(* mpf_get_2dl / mpf_size_2, closed form *)
Theorem get_2dl_closed f : wf_mpf f = true -> m_size f <> 0 -> exp_ok f ->
  mpf_get_2dl f = Ok (DFin (m_neg f) (top53 f) (-53), 64 * m_exp f + top_shift f, f, [0; m_exp f]).
Proof.
  intros W N X. unfold exp_ok in X. rewrite p57_val in X.
  pose proof (top53_bounds f W N) as Hq. pose proof (top_shift_bounds f W N) as Ht.
  unfold mpf_get_2dl. rewrite (get_d_exp0 f W N). rewrite (frexp_norm _ _ _ Hq).
  unfold lmul. rewrite in_long_true by (rewrite LMIN_val, LMAX_val; lia).
  unfold ladd. rewrite in_long_true by (rewrite LMIN_val, LMAX_val; lia).
  rewrite set_exp_restore. f_equal. f_equal. f_equal. f_equal. lia.
Qed.

Theorem get_2dl_zero f : wf_mpf f = true -> m_size f = 0 -> exp_ok f ->
  mpf_get_2dl f = Ok (DZero, 64 * m_exp f, f, [0; m_exp f]).
Proof.
  intros W N X. unfold exp_ok in X. rewrite p57_val in X.
  unfold mpf_get_2dl, mpf_get_d. replace (m_size (set_exp f 0)) with (m_size f) by reflexivity.
  rewrite N. cbn [Z.eqb frexp]. unfold lmul. rewrite in_long_true by (rewrite LMIN_val, LMAX_val; lia).
  unfold ladd. rewrite in_long_true by (rewrite LMIN_val, LMAX_val; lia).
  rewrite set_exp_restore. f_equal. f_equal. f_equal. f_equal. lia.
Qed.

(* ---------------------------------------------------------------- mpf_get_rdpe is the 53-bit truncation
   value of f:        sign * D * 2^(64 * (exp - n))         (D = m_d f, n = m_n f)
   value of the rdpe: sign * q * 2^(Esp - 53)               (mantissa q / 2^53 in [1/2, 1))
   k = (Esp - 53) - 64 * (exp - n) is the number of low bits of D that were dropped (k >= 0) or the left shift (k < 0) *)
Theorem get_rdpe_trunc f : wf_mpf f = true -> m_size f <> 0 -> exp_ok f ->
  exists q Esp,
    mpf_get_rdpe f = Ok ((DFin (m_neg f) q (-53), Esp), f, [0; m_exp f]) /\
    2 ^ 52 <= q < 2 ^ 53 /\ LMIN < Esp < LMAX /\
    let k := (Esp - 53) - 64 * (m_exp f - m_n f) in
    (0 <= k -> q * 2 ^ k <= m_d f /\ 2 ^ 52 * (m_d f - q * 2 ^ k) <= m_d f) /\
    (k < 0 -> q = m_d f * 2 ^ (- k)).
Proof.
  intros W N X. exists (top53 f), (64 * m_exp f + top_shift f).
  split; [apply get_rdpe_closed; assumption|].
  pose proof (top53_bounds f W N) as Hq. pose proof (top_shift_bounds f W N) as Ht.
  split; [exact Hq|]. unfold exp_ok in X. rewrite p57_val in X.
  split; [rewrite LMIN_val, LMAX_val; lia|].
  destruct (wf_bitlen f W N) as [D _]. pose proof (norm53_spec (m_d f) D) as S.
  unfold top53 in *. destruct (norm53 (m_d f)) as [q k0]. cbn [fst] in *.
  destruct S as [Ek [_ [S1 S2]]].
  assert (K : 64 * m_exp f + top_shift f - 53 - 64 * (m_exp f - m_n f) = k0) by (unfold top_shift; lia).
  cbv zeta. rewrite K. split.
  - intro H0. destruct (S1 H0) as [_ [A B]]. split; [exact A|].
    assert (P : 0 < 2 ^ k0) by (apply pow2_pos; lia). nia.
  - exact S2.
Qed.

(* ---------------------------------------------------------------- the rewrite through mpf_get_d_2exp is equivalent *)
Lemma get_d_2exp_closed f : wf_mpf f = true -> m_size f <> 0 -> exp_ok f ->
  mpf_get_d_2exp f = Ok (DFin (m_neg f) (top53 f) (-53), 64 * m_exp f + top_shift f).
Proof.
  intros W N X. unfold exp_ok in X. rewrite p57_val in X.
  destruct (wf_unpack f W) as [Hp [Hn _]]. destruct (wf_bitlen f W N) as [D B].
  pose proof (top_shift_bounds f W N) as Ht. unfold top_shift in Ht.
  unfold mpf_get_d_2exp, top53, top_shift.
  replace (m_size f =? 0) with false by (symmetry; apply Z.eqb_neq; exact N).
  rewrite in_long_true by (rewrite LMIN_val, LMAX_val; lia).
  rewrite in_long_true by (rewrite LMIN_val, LMAX_val; lia).
  cbn [andb]. unfold mpn_get_d. pose proof (norm53_spec (m_d f) D) as S.
  destruct (norm53 (m_d f)) as [q k]. destruct S as [Ek [Hq _]]. cbn [fst].
  replace (1024 <=? - (m_n f * 64 - (64 * m_n f - bitlen (m_d f))) + k + 52) with false by (symmetry; apply Z.leb_gt; lia).
  replace (-1022 <=? - (m_n f * 64 - (64 * m_n f - bitlen (m_d f))) + k + 52) with true by (symmetry; apply Z.leb_le; lia).
  f_equal. f_equal; [f_equal|]; lia.
Qed.

Theorem get_rdpe_fixed_equiv f : wf_mpf f = true -> exp_ok f ->
  exists r, mpf_get_rdpe_fixed f = Ok r /\ mpf_get_rdpe f = Ok (r, f, [0; m_exp f]).
Proof.
  intros W X. destruct (Z.eq_dec (m_size f) 0) as [N|N].
  - exists (DZero, 0). split; [|apply get_rdpe_zero; assumption].
    unfold mpf_get_rdpe_fixed, mpf_get_d_2exp. rewrite N. reflexivity.
  - exists (DFin (m_neg f) (top53 f) (-53), 64 * m_exp f + top_shift f).
    split; [|apply get_rdpe_closed; assumption].
    unfold mpf_get_rdpe_fixed. rewrite (get_d_2exp_closed f W N X).
    pose proof (top53_bounds f W N) as Hq. pose proof (top_shift_bounds f W N) as Ht.
    unfold exp_ok in X. rewrite p57_val in X.
    unfold rdpe_set_2dl. rewrite (frexp_norm _ _ _ Hq).
    replace (-53 + 53) with 0 by lia.
    rewrite set_esp_plain by (rewrite LMIN_val, LMAX_val; lia). f_equal. f_equal. lia.
Qed.

Theorem get_2dl_fixed_equiv f : wf_mpf f = true -> m_size f <> 0 -> exp_ok f ->
  exists d l, mpf_get_2dl_fixed f = Ok (d, l) /\ mpf_get_2dl f = Ok (d, l, f, [0; m_exp f]).
Proof.
  intros W N X. exists (DFin (m_neg f) (top53 f) (-53)), (64 * m_exp f + top_shift f).
  split; [apply get_d_2exp_closed | apply get_2dl_closed]; assumption.
Qed.

(* ---------------------------------------------------------------- double -> mpf *)
Lemma wf_intro prec size ex D :
  2 <= prec < 2 ^ 31 -> Z.abs size <= prec + 1 -> size <> 0 ->
  2 ^ (64 * (Z.abs size - 1)) <= D < 2 ^ (64 * Z.abs size) ->
  wf_mpf (mkmpf prec size ex D) = true.
Proof.
  intros Hp Hn Hs Hd. unfold wf_mpf, m_n. cbn [m_prec m_size m_exp m_d].
  replace (size =? 0) with false by (symmetry; apply Z.eqb_neq; exact Hs).
  rewrite p31_val in *. lia.
Qed.

Lemma abs_signed s n : 0 <= n -> Z.abs (signed s n) = n.
Proof. intro H. unfold signed. destruct s; lia. Qed.

Lemma neg_signed s n : 0 < n -> (signed s n <? 0) = s.
Proof. intro H. unfold signed. destruct s; lia. Qed.

(* m * 2^e (0 < m < 2^53) as two limbs *)
Lemma extract_double_spec m e : 0 < m < 2 ^ 53 ->
  let '(D, ex) := extract_double m e in
  2 ^ 64 <= D < 2 ^ 128 /\ exists t, 0 <= t /\ D = m * 2 ^ t /\ 64 * (ex - 2) = e - t.
Proof.
  intros [M0 M1]. unfold extract_double.
  destruct (bitlen_spec m M0) as [Hb [B1 B2]]. set (l := bitlen m) in *.
  assert (Hl : l <= 53).
  { destruct (Z_le_gt_dec l 53) as [C|C]; [exact C|exfalso].
    assert (2 ^ 53 <= 2 ^ (l - 1)) by (apply pow2_le; lia). lia. }
  set (E := e + l). pose proof (Z.mod_pos_bound (E - 1) 64 ltac:(lia)) as MB.
  pose proof (Z.div_mod (E - 1) 64 ltac:(lia)) as DM.
  set (r := (E - 1) mod 64) in *. set (qq := (E - 1) / 64) in *.
  assert (P1 : 2 ^ (l - 1) * 2 ^ (64 - l) = 2 ^ 63) by (rewrite <- pow2_add by lia; f_equal; lia).
  assert (P2 : 2 ^ l * 2 ^ (64 - l) = 2 ^ 64) by (rewrite <- pow2_add by lia; f_equal; lia).
  assert (P3 : 0 < 2 ^ (64 - l)) by (apply pow2_pos; lia).
  assert (P4 : 2 ^ 1 <= 2 ^ (r + 1) <= 2 ^ 64) by (split; apply pow2_le; lia).
  assert (P5 : 2 ^ 63 * 2 ^ 1 = 2 ^ 64) by reflexivity.
  assert (P6 : 2 ^ 64 * 2 ^ 64 = 2 ^ 128) by reflexivity.
  split.
  - set (A := 2 ^ (64 - l)) in *. set (B := 2 ^ (r + 1)) in *.
    assert (X1 : 2 ^ 63 <= m * A) by (rewrite <- P1; apply Z.mul_le_mono_nonneg_r; lia).
    assert (X2 : m * A < 2 ^ 64) by (rewrite <- P2; apply Z.mul_lt_mono_pos_r; lia).
    set (X := m * A) in *. clearbody X A. clear P1 P2 P3 B1 B2 DM.
    split.
    + rewrite <- P5. apply Z.mul_le_mono_nonneg; lia.
    + rewrite <- P6. apply Z.le_lt_trans with (X * 2 ^ 64);
        [apply Z.mul_le_mono_nonneg_l; lia | apply Z.mul_lt_mono_pos_r; lia].
  - exists (64 - l + (r + 1)). split; [lia|]. split.
    + rewrite (pow2_add (64 - l) (r + 1)) by lia. rewrite Z.mul_assoc. reflexivity.
    + unfold E in *. lia.
Qed.

(* mpf_mul_2exp / mpf_div_2exp in place, no limb dropped (|size| <= prec) *)
Lemma shift_limbs_wf prec s n ex D t :
  2 <= prec < 2 ^ 31 -> 1 <= n <= prec -> 0 <= t < 64 ->
  2 ^ (64 * (n - 1)) <= D < 2 ^ (64 * n) ->
  let full := D * 2 ^ t in
  let adj := if 2 ^ (64 * n) <=? full then 1 else 0 in
  wf_mpf (mkmpf prec (signed s (n + adj)) ex full) = true.
Proof.
  intros Hp Hn Ht Hd full adj.
  assert (Pt : 1 <= 2 ^ t < 2 ^ 64) by (split; [assert (0 < 2 ^ t) by (apply pow2_pos; lia); lia | apply pow2_lt; lia]).
  assert (E64 : 2 ^ (64 * (n + 1)) = 2 ^ (64 * n) * 2 ^ 64) by (rewrite <- pow2_add by lia; f_equal; lia).
  assert (P0 : 0 < 2 ^ (64 * (n - 1))) by (apply pow2_pos; lia).
  apply wf_intro; try exact Hp.
  - rewrite abs_signed by (unfold adj; destruct (2 ^ (64 * n) <=? full); lia).
    unfold adj; destruct (2 ^ (64 * n) <=? full); lia.
  - unfold signed, adj. destruct s; destruct (2 ^ (64 * n) <=? full); lia.
  - rewrite abs_signed by (unfold adj; destruct (2 ^ (64 * n) <=? full); lia).
    unfold adj. destruct (2 ^ (64 * n) <=? full) eqn:C.
    + apply Z.leb_le in C. replace (n + 1 - 1) with n by lia. split; [exact C|].
      rewrite E64. unfold full. set (A := 2 ^ (64 * n)) in *. set (B := 2 ^ t) in *. nia.
    + apply Z.leb_gt in C. replace (n + 0) with n by lia. split; [|exact C].
      unfold full. set (B := 2 ^ t) in *. nia.
Qed.

Lemma div_by_one D n : D / 2 ^ (64 * (n - n)) = D.
Proof. replace (n - n) with 0 by lia. simpl. apply Z.div_1_r. Qed.

Lemma mk_facts p s n ex D : 0 < n ->
  m_n (mkmpf p (signed s n) ex D) = n /\ m_neg (mkmpf p (signed s n) ex D) = s /\
  m_size (mkmpf p (signed s n) ex D) <> 0.
Proof.
  intro H. unfold m_n, m_neg. cbn [m_size]. rewrite abs_signed by lia. rewrite neg_signed by lia.
  split; [reflexivity|]. split; [reflexivity|]. unfold signed. destruct s; lia.
Qed.

Lemma mul_2exp_eq f k : m_size f <> 0 -> m_n f <= m_prec f ->
  mpf_mul_2exp f k =
  if k mod 64 =? 0 then mkmpf (m_prec f) (signed (m_neg f) (m_n f)) (m_exp f + k / 64) (m_d f)
  else let full := m_d f * 2 ^ (k mod 64) in
       let adj := if 2 ^ (64 * m_n f) <=? full then 1 else 0 in
       mkmpf (m_prec f) (signed (m_neg f) (m_n f + adj)) (m_exp f + k / 64 + adj) full.
Proof.
  intros N Hn. unfold mpf_mul_2exp. replace (m_size f =? 0) with false by (symmetry; apply Z.eqb_neq; exact N).
  destruct (k mod 64 =? 0); cbv zeta; rewrite (Z.min_l (m_n f)) by lia; rewrite div_by_one; reflexivity.
Qed.

Lemma div_2exp_eq f k : m_size f <> 0 -> m_n f <= m_prec f ->
  mpf_div_2exp f k =
  if k mod 64 =? 0 then mkmpf (m_prec f) (signed (m_neg f) (m_n f)) (m_exp f - k / 64) (m_d f)
  else let full := m_d f * 2 ^ (64 - k mod 64) in
       let adj := if 2 ^ (64 * m_n f) <=? full then 1 else 0 in
       mkmpf (m_prec f) (signed (m_neg f) (m_n f + adj)) (m_exp f - k / 64 - 1 + adj) full.
Proof.
  intros N Hn. unfold mpf_div_2exp. replace (m_size f =? 0) with false by (symmetry; apply Z.eqb_neq; exact N).
  destruct (k mod 64 =? 0); cbv zeta; rewrite (Z.min_l (m_n f)) by lia; rewrite div_by_one; reflexivity.
Qed.

(* what both shifts establish: same sign and precision, limbs multiplied by 2^t, exponent adjusted *)
Definition shifted (f f' : mpf) (delta : Z) : Prop :=
  wf_mpf f' = true /\ m_size f' <> 0 /\ m_neg f' = m_neg f /\ m_prec f' = m_prec f /\
  exists t, 0 <= t < 64 /\ m_d f' = m_d f * 2 ^ t /\
            64 * (m_exp f' - m_n f') = 64 * (m_exp f - m_n f) + delta - t.

Lemma shifted_plain f ex delta : wf_mpf f = true -> m_size f <> 0 ->
  64 * (ex - m_exp f) = delta ->
  shifted f (mkmpf (m_prec f) (signed (m_neg f) (m_n f)) ex (m_d f)) delta.
Proof.
  intros W N He. destruct (wf_unpack f W) as [Hp [Hn [_ H]]]. destruct (H N) as [N1 Hd]. clear H.
  destruct (mk_facts (m_prec f) (m_neg f) (m_n f) ex (m_d f) ltac:(lia)) as (F1 & F2 & F3).
  unfold shifted. rewrite F1, F2. cbn [m_prec m_exp m_d].
  split; [apply wf_intro; rewrite ?abs_signed by lia; try lia; unfold signed; destruct (m_neg f); lia|].
  split; [exact F3|]. split; [reflexivity|]. split; [reflexivity|].
  exists 0. rewrite Z.pow_0_r, Z.mul_1_r. split; [lia|]. split; [reflexivity|]. lia.
Qed.

Lemma shifted_limbs f ex0 t delta : wf_mpf f = true -> m_size f <> 0 -> m_n f <= m_prec f -> 0 <= t < 64 ->
  64 * (ex0 - m_exp f) = delta - t ->
  let full := m_d f * 2 ^ t in
  let adj := if 2 ^ (64 * m_n f) <=? full then 1 else 0 in
  shifted f (mkmpf (m_prec f) (signed (m_neg f) (m_n f + adj)) (ex0 + adj) full) delta.
Proof.
  intros W N Hn Ht He full adj. destruct (wf_unpack f W) as [Hp [_ [_ H]]]. destruct (H N) as [N1 Hd]. clear H.
  assert (A : adj = 0 \/ adj = 1) by (unfold adj; destruct (2 ^ (64 * m_n f) <=? full); lia).
  destruct (mk_facts (m_prec f) (m_neg f) (m_n f + adj) (ex0 + adj) full ltac:(lia)) as (F1 & F2 & F3).
  unfold shifted. rewrite F1, F2. cbn [m_prec m_exp m_d].
  split; [apply (shift_limbs_wf (m_prec f) (m_neg f) (m_n f) _ (m_d f) t); lia|].
  split; [exact F3|]. split; [reflexivity|]. split; [reflexivity|].
  exists t. split; [lia|]. split; [reflexivity|]. lia.
Qed.

Lemma mul_2exp_spec f k : wf_mpf f = true -> m_size f <> 0 -> m_n f <= m_prec f -> 0 <= k ->
  shifted f (mpf_mul_2exp f k) k.
Proof.
  intros W N Hn Hk.
  pose proof (Z.mod_pos_bound k 64 ltac:(lia)) as MB. pose proof (Z.div_mod k 64 ltac:(lia)) as DM.
  rewrite (mul_2exp_eq f k N Hn). destruct (k mod 64 =? 0) eqn:E.
  - apply Z.eqb_eq in E. apply shifted_plain; [exact W | exact N | lia].
  - apply Z.eqb_neq in E. apply (shifted_limbs f (m_exp f + k / 64) (k mod 64) k); try assumption; lia.
Qed.

Lemma div_2exp_spec f k : wf_mpf f = true -> m_size f <> 0 -> m_n f <= m_prec f -> 0 <= k ->
  shifted f (mpf_div_2exp f k) (- k).
Proof.
  intros W N Hn Hk.
  pose proof (Z.mod_pos_bound k 64 ltac:(lia)) as MB. pose proof (Z.div_mod k 64 ltac:(lia)) as DM.
  rewrite (div_2exp_eq f k N Hn). destruct (k mod 64 =? 0) eqn:E.
  - apply Z.eqb_eq in E. apply shifted_plain; [exact W | exact N | lia].
  - apply Z.eqb_neq in E.
    apply (shifted_limbs f (m_exp f - k / 64 - 1) (64 - k mod 64) (- k)); try assumption; lia.
Qed.

(* ---------------------------------------------------------------- mpf_set_rdpe / mpf_set_2dl are exact
   value of the result: sign * D' * 2^(64 * (exp' - n')) = sign * m * 2^t * 2^(e + l - t) = sign * m * 2^(e + l) *)
Definition set_exact (f' : mpf) (prec : Z) (s : bool) (m e l : Z) : Prop :=
  wf_mpf f' = true /\ m_size f' <> 0 /\ m_neg f' = s /\ m_prec f' = prec /\
  exists t, 0 <= t /\ m_d f' = m * 2 ^ t /\ 64 * (m_exp f' - m_n f') = e + l - t.

Lemma set_d_spec prec s m e : 2 <= prec < 2 ^ 31 -> 0 < m < 2 ^ 53 ->
  exists f1, mpf_set_d prec (DFin s m e) = Ok f1 /\ m_n f1 <= m_prec f1 /\ set_exact f1 prec s m e 0.
Proof.
  intros Hp Hm. unfold mpf_set_d. pose proof (extract_double_spec m e Hm) as S.
  destruct (extract_double m e) as [D ex]. destruct S as [HD [t [Ht [ED EX]]]].
  change (if s then -2 else 2) with (signed s 2).
  destruct (mk_facts prec s 2 ex D ltac:(lia)) as (F1 & F2 & F3).
  exists (mkmpf prec (signed s 2) ex D). split; [reflexivity|].
  rewrite F1. cbn [m_prec]. split; [lia|]. unfold set_exact. rewrite F1, F2. cbn [m_prec m_exp m_d].
  split.
  - apply wf_intro; rewrite ?abs_signed by lia; try lia. unfold signed; destruct s; lia.
  - split; [exact F3|]. split; [reflexivity|]. split; [reflexivity|].
    exists t. split; [exact Ht|]. split; [exact ED|]. lia.
Qed.

Lemma set_exact_shift f1 f' prec s m e delta :
  set_exact f1 prec s m e 0 -> shifted f1 f' delta -> set_exact f' prec s m e delta.
Proof.
  intros (W1 & N1 & S1 & P1 & t1 & Ht1 & D1 & X1) (W & N & S & P & t & Ht & D & X).
  unfold set_exact. split; [exact W|]. split; [exact N|]. split; [congruence|]. split; [congruence|].
  exists (t1 + t). split; [lia|]. split.
  - rewrite D, D1. rewrite pow2_add by lia. rewrite Z.mul_assoc. reflexivity.
  - lia.
Qed.

Theorem set_2dl_exact prec s m e l : 2 <= prec < 2 ^ 31 -> 0 < m < 2 ^ 53 -> LMIN < l <= LMAX ->
  exists f', mpf_set_2dl prec (DFin s m e) l = Ok f' /\ set_exact f' prec s m e l.
Proof.
  intros Hp Hm Hl. rewrite LMIN_val, LMAX_val in Hl.
  destruct (set_d_spec prec s m e Hp Hm) as (f1 & E1 & Hn & SE).
  pose proof SE as (W1 & N1 & _).
  unfold mpf_set_2dl. rewrite E1. destruct (0 <=? l) eqn:C.
  - apply Z.leb_le in C. eexists. split; [reflexivity|].
    apply (set_exact_shift f1 _ prec s m e l SE). apply mul_2exp_spec; assumption.
  - apply Z.leb_gt in C. unfold lneg. rewrite in_long_true by (rewrite LMIN_val, LMAX_val; lia).
    eexists. split; [reflexivity|].
    apply (set_exact_shift f1 _ prec s m e l SE).
    replace l with (- - l) at 2 by lia. apply div_2exp_spec; try assumption; lia.
Qed.

Theorem set_2dl_zero prec l : LMIN < l <= LMAX -> mpf_set_2dl prec DZero l = Ok (mkmpf prec 0 0 0).
Proof.
  intro Hl. rewrite LMIN_val, LMAX_val in Hl. unfold mpf_set_2dl, mpf_set_d. destruct (0 <=? l) eqn:C.
  - reflexivity.
  - apply Z.leb_gt in C. unfold lneg. rewrite in_long_true by (rewrite LMIN_val, LMAX_val; lia). reflexivity.
Qed.

(* the unsigned negation of the fix patches *)
Lemma umag_long l : LMIN <= l < 0 -> (- (l mod 2 ^ 64)) mod 2 ^ 64 = - l.
Proof.
  rewrite LMIN_val. intro H.
  assert (E : 2 ^ 64 = 18446744073709551616) by reflexivity. rewrite E.
  assert (E1 : l mod 18446744073709551616 = l + 18446744073709551616).
  { symmetry. apply (Z.mod_unique_pos l 18446744073709551616 (-1) (l + 18446744073709551616)); lia. }
  rewrite E1. symmetry.
  apply (Z.mod_unique_pos (- (l + 18446744073709551616)) 18446744073709551616 (-1) (- l)); lia.
Qed.

Theorem set_2dl_fixed_exact prec s m e l : 2 <= prec < 2 ^ 31 -> 0 < m < 2 ^ 53 -> LMIN <= l <= LMAX ->
  exists f', mpf_set_2dl_fixed prec (DFin s m e) l = Ok f' /\ set_exact f' prec s m e l.
Proof.
  intros Hp Hm Hl.
  destruct (set_d_spec prec s m e Hp Hm) as (f1 & E1 & Hn & SE).
  pose proof SE as (W1 & N1 & _).
  unfold mpf_set_2dl_fixed. rewrite E1. destruct (0 <=? l) eqn:C.
  - apply Z.leb_le in C. eexists. split; [reflexivity|].
    apply (set_exact_shift f1 _ prec s m e l SE). apply mul_2exp_spec; assumption.
  - apply Z.leb_gt in C. rewrite umag_long by lia.
    eexists. split; [reflexivity|].
    apply (set_exact_shift f1 _ prec s m e l SE).
    replace l with (- - l) at 2 by lia. apply div_2exp_spec; try assumption; lia.
Qed.

Theorem set_2dl_fixed_agrees prec d l : LMIN < l <= LMAX ->
  mpf_set_2dl_fixed prec d l = mpf_set_2dl prec d l.
Proof.
  intro Hl. unfold mpf_set_2dl_fixed, mpf_set_2dl. destruct (mpf_set_d prec d); [|reflexivity].
  destruct (0 <=? l) eqn:C; [reflexivity|]. apply Z.leb_gt in C.
  rewrite umag_long by lia. rewrite LMIN_val, LMAX_val in Hl.
  unfold lneg. rewrite in_long_true by (rewrite LMIN_val, LMAX_val; lia). reflexivity.
Qed.

(* ---------------------------------------------------------------- double -> DPE -> mpf -> DPE is the identity *)
Lemma canon_unpack s m e : canon_dbl (DFin s m e) = true -> 0 < m < 2 ^ 53 /\ -1074 <= e <= 971.
Proof. unfold canon_dbl. intro H. assert (2 ^ 52 < 2 ^ 53) by (apply pow2_lt; lia). lia. Qed.

Lemma rdpe_set_d_fin s m e : canon_dbl (DFin s m e) = true ->
  exists q, 2 ^ 52 <= q < 2 ^ 53 /\ -1074 < e + bitlen m <= 1024 /\
            rdpe_set_d (DFin s m e) = (DFin s q (-53), e + bitlen m).
Proof.
  intro C. destruct (canon_unpack s m e C) as [[M0 M1] He].
  destruct (bitlen_spec m M0) as [Hb [B1 B2]]. set (l := bitlen m) in *.
  assert (Hl : l <= 53).
  { destruct (Z_le_gt_dec l 53) as [K|K]; [exact K|exfalso].
    assert (2 ^ 53 <= 2 ^ (l - 1)) by (apply pow2_le; lia). lia. }
  assert (P1 : 2 ^ (l - 1) * 2 ^ (53 - l) = 2 ^ 52) by (rewrite <- pow2_add by lia; f_equal; lia).
  assert (P2 : 2 ^ l * 2 ^ (53 - l) = 2 ^ 53) by (rewrite <- pow2_add by lia; f_equal; lia).
  assert (P3 : 0 < 2 ^ (53 - l)) by (apply pow2_pos; lia).
  exists (m * 2 ^ (53 - l)). split.
  - split; [rewrite <- P1; apply Z.mul_le_mono_nonneg_r; lia | rewrite <- P2; apply Z.mul_lt_mono_pos_r; lia].
  - split; [lia|]. unfold rdpe_set_d, rdpe_set_2dl, frexp. fold l.
    rewrite set_esp_plain by (rewrite LMIN_val, LMAX_val; lia). reflexivity.
Qed.

Theorem roundtrip prec s m e : 2 <= prec < 2 ^ 31 -> canon_dbl (DFin s m e) = true ->
  exists f', mpf_set_rdpe prec (rdpe_set_d (DFin s m e)) = Ok f' /\ wf_mpf f' = true /\
             mpf_get_rdpe f' = Ok (rdpe_set_d (DFin s m e), f', [0; m_exp f']).
Proof.
  intros Hp C. destruct (rdpe_set_d_fin s m e C) as (q & Hq & Hi & ER). rewrite ER.
  set (i := e + bitlen m) in *.
  assert (Q0 : 0 < q < 2 ^ 53) by (assert (0 < 2 ^ 52) by (apply pow2_pos; lia); lia).
  destruct (set_2dl_exact prec s q (-53) i Hp Q0 ltac:(rewrite LMIN_val, LMAX_val; lia))
    as (f' & ES & W & N & S & P & t & Ht & ED & EX).
  exists f'. split; [exact ES|]. split; [exact W|].
  destruct (wf_unpack f' W) as [_ [Hn [_ H]]]. destruct (H N) as [N1 Hd]. clear H.
  (* t is bounded by the size of the limb array *)
  assert (Tb : 52 + t < 64 * m_n f').
  { destruct (Z_lt_le_dec (52 + t) (64 * m_n f')) as [K|K]; [exact K|exfalso].
    assert (2 ^ (64 * m_n f') <= 2 ^ (52 + t)) by (apply pow2_le; lia).
    assert (2 ^ (52 + t) = 2 ^ 52 * 2 ^ t) by (apply pow2_add; lia).
    assert (0 < 2 ^ t) by (apply pow2_pos; lia). nia. }
  rewrite p31_val in Hp. rewrite P in Hn.
  assert (X : exp_ok f') by (unfold exp_ok; rewrite p57_val; lia).
  rewrite (get_rdpe_closed f' W N X). unfold top53, top_shift. rewrite ED.
  rewrite (norm53_shift q t Hq Ht). cbn [fst].
  rewrite (bitlen_shift q t ltac:(lia) Ht), (bitlen_unique q 53) by (simpl; lia).
  rewrite S. f_equal. f_equal. f_equal. f_equal. lia.
Qed.

(* ---------------------------------------------------------------- the source operand: restored, but written *)
Theorem get_rdpe_source f : wf_mpf f = true -> exp_ok f ->
  exists r, mpf_get_rdpe f = Ok (r, f, [0; m_exp f]).
Proof.
  intros W X. destruct (Z.eq_dec (m_size f) 0) as [N|N].
  - eexists. apply get_rdpe_zero; assumption.
  - eexists. apply get_rdpe_closed; assumption.
Qed.

Theorem get_2dl_source f : wf_mpf f = true -> exp_ok f ->
  exists d l, mpf_get_2dl f = Ok (d, l, f, [0; m_exp f]).
Proof.
  intros W X. destruct (Z.eq_dec (m_size f) 0) as [N|N].
  - eexists. eexists. apply get_2dl_zero; assumption.
  - eexists. eexists. apply get_2dl_closed; assumption.
Qed.

(* ---------------------------------------------------------------- witnesses of the undefined behaviours *)
(* 2^63 * 2^(64 * (2^57 - 1)) = 2^(2^63 - 1): one limb, _mp_exp = 2^57 *)
Definition f_exp_2p57 : mpf := mkmpf 2 1 (2 ^ 57) (2 ^ 63).
(* the library constant RDPE_MIN = { 0.5, LONG_MIN } *)
Definition RDPE_MIN_model : rdpe := (DFin false (2 ^ 52) (-53), LMIN).
(* 3 * 2^64 stored with _mp_exp = 2: an ordinary value whose exponent field is transiently zeroed *)
Definition f_three : mpf := mkmpf 2 1 2 3.

Lemma f_exp_2p57_facts :
  wf_mpf f_exp_2p57 = true /\ mpf_get_rdpe f_exp_2p57 = UB UbMul /\ mpf_get_2dl f_exp_2p57 = UB UbMul /\
  mpf_size_2 f_exp_2p57 = UB UbMul /\ mpf_get_rdpe_fixed f_exp_2p57 = UB UbGmp.
Proof. repeat split; vm_compute; reflexivity. Qed.

Lemma rdpe_min_facts :
  canon_dbl (fst RDPE_MIN_model) = true /\ in_long (snd RDPE_MIN_model) = true /\
  mpf_set_rdpe 2 RDPE_MIN_model = UB UbNeg /\ mpf_set_2dl 2 (DFin false (2 ^ 52) (-53)) LMIN = UB UbNeg.
Proof. repeat split; vm_compute; reflexivity. Qed.

Lemma f_three_facts :
  wf_mpf f_three = true /\
  mpf_get_rdpe f_three = Ok ((DFin false (3 * 2 ^ 51) (-53), 66), f_three, [0; 2]) /\
  mpf_get_2dl f_three = Ok (DFin false (3 * 2 ^ 51) (-53), 66, f_three, [0; 2]).
Proof. repeat split; vm_compute; reflexivity. Qed.

Theorem get_2dl_is_get_rdpe f : wf_mpf f = true -> m_size f <> 0 -> exp_ok f ->
  exists d l, mpf_get_2dl f = Ok (d, l, f, [0; m_exp f]) /\ mpf_get_rdpe f = Ok ((d, l), f, [0; m_exp f])
              /\ mpf_size_2 f = Ok l.
Proof.
  intros W N X. exists (DFin (m_neg f) (top53 f) (-53)), (64 * m_exp f + top_shift f).
  pose proof (get_2dl_closed f W N X) as E.
  split; [exact E|]. split; [apply get_rdpe_closed; assumption|].
  unfold mpf_size_2. rewrite E. reflexivity.
Qed.

(* ---------------------------------------------------------------- mpf_get_d on its whole range
   x = D * 2^ex0 with ex0 = 64 * (exp - n); top = bitlen D + ex0, i.e. 2^(top-1) <= x < 2^top *)
Definition get_d_spec (D ex0 : Z) (neg : bool) (d : dbl) : Prop :=
  let top := bitlen D + ex0 in
  if 1025 <=? top then d = DInf neg                                   (* x >= 2^1024: infinity *)
  else if -1021 <=? top then                                           (* normal range: the top 53 bits *)
    exists q k, d = DFin neg q (ex0 + k) /\ 2 ^ 52 <= q < 2 ^ 53 /\ -1074 <= ex0 + k <= 971 /\
      (0 <= k -> q * 2 ^ k <= D /\ 2 ^ 52 * (D - q * 2 ^ k) <= D) /\ (k < 0 -> q = D * 2 ^ (- k))
  else if top <=? -1074 then d = DZero                                 (* x < 2^-1074 *)
  else                                                                 (* subnormal range: multiples of 2^-1074, truncated *)
    exists m, d = DFin neg m (-1074) /\ 0 < m < 2 ^ 52 /\
      let sh := -1074 - ex0 in
      (0 <= sh -> m * 2 ^ sh <= D < (m + 1) * 2 ^ sh) /\ (sh < 0 -> m = D * 2 ^ (- sh)).

Lemma mpn_get_d_spec D ex0 neg : 0 < D -> get_d_spec D ex0 neg (mpn_get_d D neg ex0).
Proof.
  intro HD. unfold get_d_spec, mpn_get_d. pose proof (norm53_spec D HD) as S.
  destruct (norm53 D) as [q k]. destruct S as [Ek [Hq [S1 S2]]].
  set (b := bitlen D) in *. cbv zeta.
  replace (1024 <=? ex0 + k + 52) with (1025 <=? b + ex0) by lia.
  destruct (1025 <=? b + ex0) eqn:C1; [reflexivity|].
  replace (-1022 <=? ex0 + k + 52) with (-1021 <=? b + ex0) by lia.
  destruct (-1021 <=? b + ex0) eqn:C2.
  - exists q, k. split; [reflexivity|]. split; [exact Hq|]. split; [lia|]. split.
    + intro H0. destruct (S1 H0) as [_ [A B]]. split; [exact A|].
      assert (P : 0 < 2 ^ k) by (apply pow2_pos; lia). nia.
    + exact S2.
  - replace (ex0 + k + 52 <=? -1075) with (b + ex0 <=? -1074) by lia.
    destruct (b + ex0 <=? -1074) eqn:C3; [reflexivity|].
    apply Z.leb_gt in C1, C2, C3.
    set (r := -1022 - (ex0 + k + 52)). assert (Hr : 1 <= r <= 52) by (unfold r; lia).
    assert (Pr : 0 < 2 ^ r) by (apply pow2_pos; lia).
    exists (q / 2 ^ r). split; [reflexivity|].
    assert (E52 : 2 ^ 52 = 2 ^ (52 - r) * 2 ^ r) by (rewrite <- pow2_add by lia; f_equal; lia).
    assert (E53 : 2 ^ 53 = 2 ^ (53 - r) * 2 ^ r) by (rewrite <- pow2_add by lia; f_equal; lia).
    assert (L1 : 2 ^ (52 - r) <= q / 2 ^ r) by (apply Z.div_le_lower_bound; lia).
    assert (L2 : q / 2 ^ r < 2 ^ (53 - r)) by (apply Z.div_lt_upper_bound; lia).
    assert (L3 : 0 < 2 ^ (52 - r)) by (apply pow2_pos; lia).
    assert (L4 : 2 ^ (53 - r) <= 2 ^ 52) by (apply pow2_le; lia).
    split; [lia|].
    assert (SH : -1074 - ex0 = k + r) by (unfold r; lia). rewrite SH.
    destruct (Z_lt_le_dec k 0) as [K|K].
    + (* q = D * 2^(-k) *)
      rewrite (S2 K). destruct (Z_lt_le_dec (k + r) 0) as [T|T].
      * split; [lia|]. intros _.
        replace (- k) with (- (k + r) + r) by lia. rewrite pow2_add by lia.
        rewrite Z.mul_assoc. apply Z.div_mul. lia.
      * split; [|lia]. intros _.
        assert (Er : 2 ^ r = 2 ^ (- k) * 2 ^ (k + r)) by (rewrite <- pow2_add by lia; f_equal; lia).
        assert (Pk : 0 < 2 ^ (- k)) by (apply pow2_pos; lia).
        assert (Pkr : 0 < 2 ^ (k + r)) by (apply pow2_pos; lia).
        rewrite Er. rewrite (Z.mul_comm D). rewrite Z.div_mul_cancel_l by lia.
        pose proof (Z.mul_div_le D (2 ^ (k + r)) Pkr). pose proof (Z.mul_succ_div_gt D (2 ^ (k + r)) Pkr). lia.
    + destruct (S1 K) as [Eq _]. rewrite Eq. split; [|lia]. intros _.
      assert (Pk : 0 < 2 ^ k) by (apply pow2_pos; lia).
      rewrite Z.div_div by lia. rewrite <- pow2_add by lia.
      assert (Pkr : 0 < 2 ^ (k + r)) by (apply pow2_pos; lia).
      pose proof (Z.mul_div_le D (2 ^ (k + r)) Pkr). pose proof (Z.mul_succ_div_gt D (2 ^ (k + r)) Pkr). lia.
Qed.

Theorem get_d_whole_range f : wf_mpf f = true -> m_size f <> 0 ->
  in_long ((m_exp f - m_n f) * 64) = true ->
  exists d, mpf_get_d f = Ok d /\ get_d_spec (m_d f) ((m_exp f - m_n f) * 64) (m_neg f) d /\ canon_dbl d = true.
Proof.
  intros W N L. destruct (wf_bitlen f W N) as [D _].
  unfold mpf_get_d. replace (m_size f =? 0) with false by (symmetry; apply Z.eqb_neq; exact N). rewrite L.
  eexists. split; [reflexivity|]. split; [apply mpn_get_d_spec; exact D|].
  pose proof (mpn_get_d_spec (m_d f) ((m_exp f - m_n f) * 64) (m_neg f) D) as S.
  unfold get_d_spec in S. cbv zeta in S.
  destruct (1025 <=? _) in S; [rewrite S; reflexivity|].
  destruct (-1021 <=? _) in S.
  - destruct S as (q & k & E & Hq & He & _). rewrite E. unfold canon_dbl. lia.
  - destruct (_ <=? -1074) in S; [rewrite S; reflexivity|].
    destruct S as (m & E & Hm & _). rewrite E. unfold canon_dbl. lia.
Qed.

Theorem get_d_zero f : m_size f = 0 -> mpf_get_d f = Ok DZero.
Proof. intro N. unfold mpf_get_d. rewrite N. reflexivity. Qed.

(* ---------------------------------------------------------------- the complex layer is the real one, component by component *)
Theorem get_cdpe_components c : wf_mpf (fst c) = true -> wf_mpf (snd c) = true -> exp_ok (fst c) -> exp_ok (snd c) ->
  exists r1 r2,
    mpc_get_cdpe c = Ok ((r1, r2), c, [0; m_exp (fst c); 0; m_exp (snd c)]) /\
    mpf_get_rdpe (fst c) = Ok (r1, fst c, [0; m_exp (fst c)]) /\
    mpf_get_rdpe (snd c) = Ok (r2, snd c, [0; m_exp (snd c)]).
Proof.
  intros W1 W2 X1 X2. destruct (get_rdpe_source _ W1 X1) as [r1 E1]. destruct (get_rdpe_source _ W2 X2) as [r2 E2].
  exists r1, r2. split; [|split; assumption]. unfold mpc_get_cdpe. rewrite E1, E2. destruct c; reflexivity.
Qed.

Theorem set_cdpe_exact prec s1 m1 e1 l1 s2 m2 e2 l2 :
  2 <= prec < 2 ^ 31 -> 0 < m1 < 2 ^ 53 -> LMIN < l1 <= LMAX -> 0 < m2 < 2 ^ 53 -> LMIN < l2 <= LMAX ->
  exists f1 f2, mpc_set_cdpe prec ((DFin s1 m1 e1, l1), (DFin s2 m2 e2, l2)) = Ok (f1, f2) /\
    set_exact f1 prec s1 m1 e1 l1 /\ set_exact f2 prec s2 m2 e2 l2.
Proof.
  intros Hp M1 L1 M2 L2.
  destruct (set_2dl_exact prec s1 m1 e1 l1 Hp M1 L1) as (f1 & E1 & S1).
  destruct (set_2dl_exact prec s2 m2 e2 l2 Hp M2 L2) as (f2 & E2 & S2).
  exists f1, f2. split; [|split; assumption]. unfold mpc_set_cdpe, mpf_set_rdpe. cbn [fst snd]. rewrite E1, E2. reflexivity.
Qed.

Theorem get_cplx_components c :
  wf_mpf (fst c) = true -> wf_mpf (snd c) = true -> m_size (fst c) <> 0 -> m_size (snd c) <> 0 ->
  in_long ((m_exp (fst c) - m_n (fst c)) * 64) = true -> in_long ((m_exp (snd c) - m_n (snd c)) * 64) = true ->
  exists d1 d2, mpc_get_cplx c = Ok (d1, d2) /\ mpf_get_d (fst c) = Ok d1 /\ mpf_get_d (snd c) = Ok d2 /\
    get_d_spec (m_d (fst c)) ((m_exp (fst c) - m_n (fst c)) * 64) (m_neg (fst c)) d1 /\
    get_d_spec (m_d (snd c)) ((m_exp (snd c) - m_n (snd c)) * 64) (m_neg (snd c)) d2.
Proof.
  intros W1 W2 N1 N2 L1 L2.
  destruct (get_d_whole_range _ W1 N1 L1) as (d1 & E1 & S1 & _). destruct (get_d_whole_range _ W2 N2 L2) as (d2 & E2 & S2 & _).
  exists d1, d2. unfold mpc_get_cplx. rewrite E1, E2.
  split; [reflexivity|]. split; [reflexivity|]. split; [reflexivity|]. split; assumption.
Qed.

(* mpc_set_cplx / mpf_set_d: exact for every finite double *)
Theorem set_cplx_exact prec s1 m1 e1 s2 m2 e2 : 2 <= prec < 2 ^ 31 -> 0 < m1 < 2 ^ 53 -> 0 < m2 < 2 ^ 53 ->
  exists f1 f2, mpc_set_cplx prec (DFin s1 m1 e1, DFin s2 m2 e2) = Ok (f1, f2) /\
    set_exact f1 prec s1 m1 e1 0 /\ set_exact f2 prec s2 m2 e2 0.
Proof.
  intros Hp M1 M2.
  destruct (set_d_spec prec s1 m1 e1 Hp M1) as (f1 & E1 & _ & S1). destruct (set_d_spec prec s2 m2 e2 Hp M2) as (f2 & E2 & _ & S2).
  exists f1, f2. unfold mpc_set_cplx. cbn [fst snd]. rewrite E1, E2. split; [reflexivity|]. split; assumption.
Qed.
