(* C13: the error theorems instantiated on the programs traced from mpc.c (Gen/MpcGen.v),
   in the rounded semantics [run rnd] for an arbitrary rounding satisfying the standard
   model; plus the hand-written 4-multiplication product, the thread-local cache policy
   and the conversion model of link.c. *)
Require Import Reals List ZArith Lra Lia Bool.
Require Import MPSV.Mpc.MpfSem MPSV.Mpc.MpcErr MPSV.Mpc.MpcPow MPSV.Mpc.MpfSi MPSV.Mpc.Gen.MpcGen.
Import ListNotations.
Open Scope R_scope.

(* error of a complex-valued program in modulus (squared), relative to the exact result *)
Definition cplx_err_ok (K : R) (p : prog) (sp : spec) : Prop :=
  forall rnd u, std_model rnd u -> forall s, pre sp s ->
    match outs sp with
    | [(dr, er); (di, ei)] =>
        let s' := run rnd p s in
        (s' dr - er s) * (s' dr - er s) + (s' di - ei s) * (s' di - ei s)
          <= (K * u) * (K * u) * (er s * er s + ei s * ei s)
    | _ => False
    end.

Ltac err_intro :=
  let rnd := fresh "rnd" in let u := fresh "u" in let H := fresh "Hstd" in
  let s := fresh "s" in let Hp := fresh "Hpre" in
  intros rnd u H s Hp; mpf_cbv.

(* one rounding per component *)
Ltac comp1_tac :=
  err_intro;
  match goal with H : std_model ?rnd ?u |- _ =>
    eapply Rle_trans; [ apply (comp1_err rnd u H) | right; ring ] end.

Ltac mul_tac :=
  err_intro;
  match goal with H : std_model ?rnd ?u |- _ =>
    eapply Rle_trans;
    [ first [ apply (mul3_err rnd u H) | apply (mul4_err rnd u H) ]
    | first [ right; ring
            | apply Rmult_le_compat; try lra; nra ] ] end.

Ltac sqr_tac :=
  err_intro;
  match goal with H : std_model ?rnd ?u |- _ =>
    eapply Rle_trans; [ apply (sqr_err rnd u H) | right; ring ] end.

Ltac all_entries tac := repeat (apply Forall_cons; [ tac | ]); apply Forall_nil.

Definition entries_comp1 : list (prog * spec) :=
  [ (prog_mpc_set_p0, spec_mpc_set_p0); (prog_mpc_set_p1, spec_mpc_set_p1);
    (prog_mpc_neg_p0, spec_mpc_neg_p0); (prog_mpc_neg_p1, spec_mpc_neg_p1);
    (prog_mpc_add_p0, spec_mpc_add_p0); (prog_mpc_add_p1, spec_mpc_add_p1); (prog_mpc_add_p2, spec_mpc_add_p2);
    (prog_mpc_add_p3, spec_mpc_add_p3); (prog_mpc_add_p4, spec_mpc_add_p4);
    (prog_mpc_sub_p0, spec_mpc_sub_p0); (prog_mpc_sub_p1, spec_mpc_sub_p1); (prog_mpc_sub_p2, spec_mpc_sub_p2);
    (prog_mpc_sub_p3, spec_mpc_sub_p3); (prog_mpc_sub_p4, spec_mpc_sub_p4);
    (prog_mpc_add_ui_p0, spec_mpc_add_ui_p0); (prog_mpc_add_ui_p1, spec_mpc_add_ui_p1);
    (prog_mpc_sub_ui_p0, spec_mpc_sub_ui_p0); (prog_mpc_sub_ui_p1, spec_mpc_sub_ui_p1);
    (prog_mpc_ui_sub_p0, spec_mpc_ui_sub_p0); (prog_mpc_ui_sub_p1, spec_mpc_ui_sub_p1);
    (prog_mpc_mul_f_p0, spec_mpc_mul_f_p0); (prog_mpc_mul_f_p1, spec_mpc_mul_f_p1);
    (prog_mpc_div_f_p0, spec_mpc_div_f_p0); (prog_mpc_div_f_p1, spec_mpc_div_f_p1);
    (prog_mpc_mul_ui_p0, spec_mpc_mul_ui_p0); (prog_mpc_mul_ui_p1, spec_mpc_mul_ui_p1);
    (prog_mpc_div_ui_p0, spec_mpc_div_ui_p0); (prog_mpc_div_ui_p1, spec_mpc_div_ui_p1);
    (prog_mpc_mul_2exp_p0, spec_mpc_mul_2exp_p0); (prog_mpc_mul_2exp_p1, spec_mpc_mul_2exp_p1);
    (prog_mpc_div_2exp_p0, spec_mpc_div_2exp_p0); (prog_mpc_div_2exp_p1, spec_mpc_div_2exp_p1);
    (prog_mpc_add_f_p0, spec_mpc_add_f_p0); (prog_mpc_add_f_p1, spec_mpc_add_f_p1);
    (prog_mpc_sub_f_p0, spec_mpc_sub_f_p0); (prog_mpc_sub_f_p1, spec_mpc_sub_f_p1);
    (prog_mpc_f_sub_p0, spec_mpc_f_sub_p0); (prog_mpc_f_sub_p1, spec_mpc_f_sub_p1);
    (prog_mpc_set_ui_p0, spec_mpc_set_ui_p0) ].

Lemma comp1_all : Forall (fun e => cplx_err_ok 1 (fst e) (snd e)) entries_comp1.
Proof. unfold entries_comp1. all_entries ltac:(simpl fst; simpl snd; comp1_tac). Qed.

Definition entries_mul : list (prog * spec) :=
  [ (prog_mpc_mul_p0, spec_mpc_mul_p0); (prog_mpc_mul_p1, spec_mpc_mul_p1); (prog_mpc_mul_p2, spec_mpc_mul_p2);
    (prog_mpc_mul_p3, spec_mpc_mul_p3); (prog_mpc_mul_p4, spec_mpc_mul_p4) ].

Lemma mul_all : Forall (fun e => cplx_err_ok 17 (fst e) (snd e)) entries_mul.
Proof. unfold entries_mul. all_entries ltac:(simpl fst; simpl snd; mul_tac). Qed.

(* the schoolbook product with 4 multiplications, written the way mpc_mul would have to be
   written to stay correct under aliasing (products into temporaries first) *)
Definition prog_mul4 : prog :=
  [ Imul (T 0) C1Re C2Re; Imul (T 1) C1Im C2Im; Imul (T 2) C1Re C2Im; Imul (T 3) C1Im C2Re;
    Isub RcRe (T 0) (T 1); Iadd RcIm (T 2) (T 3) ].

Lemma mul4_exact : exact_ok prog_mul4 spec_mpc_mul_p0.
Proof. exact_tac. Qed.

Lemma mul4_prog_err : cplx_err_ok 17 prog_mul4 spec_mpc_mul_p0.
Proof. mul_tac. Qed.

Definition entries_sqr : list (prog * spec) :=
  [ (prog_mpc_sqr_p0, spec_mpc_sqr_p0); (prog_mpc_sqr_p1, spec_mpc_sqr_p1) ].

Lemma sqr_all : Forall (fun e => cplx_err_ok 3 (fst e) (snd e)) entries_sqr.
Proof. unfold entries_sqr. all_entries ltac:(simpl fst; simpl snd; sqr_tac). Qed.

Lemma mul_all_aliased_exact :
  forall s, let s' := run exact prog_mpc_mul_p4 s in
    s' RcRe = s RcRe * s RcRe - s RcIm * s RcIm /\ s' RcIm = s RcRe * s RcIm + s RcIm * s RcRe
    /\ forall r, is_temp r = false -> r <> RcRe -> r <> RcIm -> s' r = s r.
Proof.
  intros s s'. destruct (exact_mpc_mul_p4 s I) as [H F].
  apply Forall_cons_iff in H. destruct H as [H1 H']. apply Forall_cons_iff in H'. destruct H' as [H2 _].
  split; [exact H1 | split; [exact H2 |]].
  intros r Ht N1 N2. apply F; [exact Ht|]. intros [E|[E|[]]]; [apply N1 | apply N2]; symmetry; exact E.
Qed.

Lemma div_rc_is_c1_exact :
  forall s, s C2Re * s C2Re + s C2Im * s C2Im <> 0 ->
    let s' := run exact prog_mpc_div_p1 s in
    s' RcRe = (s RcRe * s C2Re + s RcIm * s C2Im) / (s C2Re * s C2Re + s C2Im * s C2Im)
    /\ s' RcIm = (s RcIm * s C2Re - s RcRe * s C2Im) / (s C2Re * s C2Re + s C2Im * s C2Im).
Proof.
  intros s Hnz s'. destruct (exact_mpc_div_p1 s Hnz) as [H _].
  apply Forall_cons_iff in H. destruct H as [H1 H']. apply Forall_cons_iff in H'. destruct H' as [H2 _].
  split; [exact H1 | exact H2].
Qed.


(* ---------------------------------------------------------------- con, inv, div, smod, mod *)
(* as cplx_err_ok, for unit roundoffs u <= umax (any precision >= 8 bits has u = 2^(1-prec) <= 1/128) *)
Definition cplx_err_ok_u (umax K : R) (p : prog) (sp : spec) : Prop :=
  forall rnd u, std_model rnd u -> u <= umax -> forall s, pre sp s ->
    match outs sp with
    | [(dr, er); (di, ei)] =>
        let s' := run rnd p s in
        (s' dr - er s) * (s' dr - er s) + (s' di - ei s) * (s' di - ei s)
          <= (K * u) * (K * u) * (er s * er s + ei s * ei s)
    | _ => False
    end.

(* real-valued destination (mpc_smod, mpc_mod): |res - exact| <= K u |exact| *)
Definition real_err_ok_u (umax K : R) (p : prog) (sp : spec) : Prop :=
  forall rnd u, std_model rnd u -> u <= umax -> forall s, pre sp s ->
    match outs sp with
    | [(dr, er)] => Rabs (run rnd p s dr - er s) <= K * u * Rabs (er s)
    | _ => False
    end.

Lemma sumsq_pos x y : x * x + y * y <> 0 -> 0 < x * x + y * y.
Proof. intro H. pose proof (sq_nonneg x). pose proof (sq_nonneg y). lra. Qed.

Ltac err_intro_u :=
  let rnd := fresh "rnd" in let u := fresh "u" in let H := fresh "Hstd" in let Hu := fresh "Hu" in
  let s := fresh "s" in let Hp := fresh "Hpre" in
  intros rnd u H Hu s Hp; mpf_cbv; mpf_cbv_in Hp.

Ltac con_tac :=
  err_intro_u;
  match goal with H : std_model ?rnd ?u |- _ =>
    eapply Rle_trans; [ apply (con_err rnd u H) | right; ring ] end.

Ltac inv_tac :=
  err_intro_u;
  match goal with H : std_model ?rnd ?u, Hp : _ <> 0 |- _ =>
    eapply Rle_trans; [ apply (inv_err rnd u H); [ apply sumsq_pos; exact Hp | lra ] | right; ring ] end.

Ltac div_tac :=
  err_intro_u;
  match goal with H : std_model ?rnd ?u, Hp : _ <> 0 |- _ =>
    eapply Rle_trans; [ apply (div_err rnd u H); [ apply sumsq_pos; exact Hp | lra ] | right; ring ] end.

Definition entries_con : list (prog * spec) :=
  [ (prog_mpc_con_p0, spec_mpc_con_p0); (prog_mpc_con_p1, spec_mpc_con_p1) ].
Lemma con_all : Forall (fun e => cplx_err_ok_u 1 2 (fst e) (snd e)) entries_con.
Proof. unfold entries_con. all_entries ltac:(simpl fst; simpl snd; con_tac). Qed.

Definition entries_inv : list (prog * spec) :=
  [ (prog_mpc_inv_p0, spec_mpc_inv_p0); (prog_mpc_inv_p1, spec_mpc_inv_p1) ].
Lemma inv_all : Forall (fun e => cplx_err_ok_u (/ 16) 6 (fst e) (snd e)) entries_inv.
Proof. unfold entries_inv. all_entries ltac:(simpl fst; simpl snd; inv_tac). Qed.

Definition entries_div : list (prog * spec) :=
  [ (prog_mpc_div_p0, spec_mpc_div_p0); (prog_mpc_div_p1, spec_mpc_div_p1); (prog_mpc_div_p2, spec_mpc_div_p2);
    (prog_mpc_div_p3, spec_mpc_div_p3); (prog_mpc_div_p4, spec_mpc_div_p4) ].
Lemma div_all : Forall (fun e => cplx_err_ok_u (/ 128) 24 (fst e) (snd e)) entries_div.
Proof. unfold entries_div. all_entries ltac:(simpl fst; simpl snd; div_tac). Qed.

Lemma sumsq_abs x y : Rabs (x * x + y * y) = x * x + y * y.
Proof. apply Rabs_right. pose proof (sq_nonneg x). pose proof (sq_nonneg y). lra. Qed.

Lemma smod_prog_err : real_err_ok_u 1 2 prog_mpc_smod_p0 spec_mpc_smod_p0.
Proof.
  err_intro_u. rewrite sumsq_abs.
  match goal with H : std_model ?rnd ?u |- _ => apply (smod_err rnd u H); lra end.
Qed.

Lemma mod_prog_err : real_err_ok_u 1 2 prog_mpc_mod_p0 spec_mpc_mod_p0.
Proof.
  err_intro_u. rewrite (Rabs_right (sqrt _)) by (apply Rle_ge; apply sqrt_pos).
  match goal with H : std_model ?rnd ?u |- _ => apply (mod_err rnd u H); lra end.
Qed.


(* ---------------------------------------------------------------- remaining helpers *)
Lemma smod_err_abs rnd u (H : std_model rnd u) (q1 q2 q3 : reg) a b : u <= 1 ->
  Rabs (rnd q3 (rnd q1 (a * a) + rnd q2 (b * b)) - (a * a + b * b)) <= 2 * u * Rabs (a * a + b * b).
Proof. intro Hu. rewrite sumsq_abs. apply (smod_err rnd u H); exact Hu. Qed.
Lemma mod_err_abs rnd u (H : std_model rnd u) (q1 q2 q3 q4 : reg) a b : u <= 1 ->
  Rabs (rnd q4 (sqrt (rnd q3 (rnd q1 (a * a) + rnd q2 (b * b)))) - sqrt (a * a + b * b)) <= 2 * u * Rabs (sqrt (a * a + b * b)).
Proof. intro Hu. rewrite (Rabs_right (sqrt _)) by (apply Rle_ge; apply sqrt_pos). apply (mod_err rnd u H); exact Hu. Qed.

(* at most two roundings per component: rot, flip, and the op= forms rot_eq, flip_eq, smod_eq, mod_eq *)
Ltac comp2_side rnd u H :=
  first [ apply (set2_err rnd u H) | apply (negset_err rnd u H) | apply (one_w rnd u H) | apply (exact_w rnd u H)
        | (apply (smod_err_abs rnd u H); lra) | (apply (mod_err_abs rnd u H); lra) ].

Ltac comp2_tac :=
  err_intro_u;
  match goal with H : std_model ?rnd ?u |- _ =>
    pose proof (proj1 H);
    eapply Rle_trans;
    [ apply (cmod_from_components (2 * u)); [ lra | comp2_side rnd u H | comp2_side rnd u H ]
    | right; ring ] end.

Definition entries_comp2 : list (prog * spec) :=
  [ (prog_mpc_rot_p0, spec_mpc_rot_p0); (prog_mpc_rot_p1, spec_mpc_rot_p1);
    (prog_mpc_flip_p0, spec_mpc_flip_p0); (prog_mpc_flip_p1, spec_mpc_flip_p1);
    (prog_mpc_rot_eq_p0, spec_mpc_rot_eq_p0); (prog_mpc_flip_eq_p0, spec_mpc_flip_eq_p0);
    (prog_mpc_smod_eq_p0, spec_mpc_smod_eq_p0); (prog_mpc_mod_eq_p0, spec_mpc_mod_eq_p0) ].
Lemma comp2_all : Forall (fun e => cplx_err_ok_u 1 2 (fst e) (snd e)) entries_comp2.
Proof. unfold entries_comp2. all_entries ltac:(simpl fst; simpl snd; comp2_tac). Qed.

Lemma inv_scale_err' rnd u (H : std_model rnd u) (q1 q2 q3 q4 q5 q6 q7 q8 r1 r2 : reg) a b m :
  0 < a * a + b * b -> u <= / 16 ->
  let n := a * a + b * b in
  let nh := rnd q3 (rnd q1 (a * a) + rnd q2 (b * b)) in
  let tr := rnd q7 (rnd q4 a / nh) in let ti := rnd q8 (rnd q6 (- rnd q5 b) / nh) in
  let re := rnd r1 (tr * m) in let im := rnd r2 (ti * m) in
  (re - m * a / n) * (re - m * a / n) + (im - - (m * b) / n) * (im - - (m * b) / n)
    <= (8 * u) * (8 * u) * (m * a / n * (m * a / n) + - (m * b) / n * (- (m * b) / n)).
Proof.
  intros Hn Hu n nh tr ti re im.
  pose proof (inv_scale_err rnd u H q1 q2 q3 q4 q5 q6 q7 q8 r1 r2 a b m Hn Hu) as G. cbv zeta in G.
  fold n nh tr ti re im in G.
  replace (m * a / n) with (a / n * m) by (unfold n; field; lra).
  replace (- (m * b) / n) with (- b / n * m) by (unfold n; field; lra). exact G.
Qed.

Ltac inv2_tac :=
  err_intro_u;
  match goal with H : std_model ?rnd ?u, Hp : _ <> 0 |- _ =>
    eapply Rle_trans; [ apply (inv2_err rnd u H); [ apply sumsq_pos; exact Hp | lra ] | right; ring ] end.
Ltac invscale_tac :=
  err_intro_u;
  match goal with H : std_model ?rnd ?u, Hp : _ <> 0 |- _ =>
    eapply Rle_trans; [ apply (inv_scale_err' rnd u H); [ apply sumsq_pos; exact Hp | lra ] | right; ring ] end.

Definition entries_inv2 : list (prog * spec) :=
  [ (prog_mpc_inv2_p0, spec_mpc_inv2_p0); (prog_mpc_inv2_p1, spec_mpc_inv2_p1) ].
Lemma inv2_all : Forall (fun e => cplx_err_ok_u (/ 16) 7 (fst e) (snd e)) entries_inv2.
Proof. unfold entries_inv2. all_entries ltac:(simpl fst; simpl snd; inv2_tac). Qed.

Definition entries_invscale : list (prog * spec) :=
  [ (prog_mpc_f_div_p0, spec_mpc_f_div_p0); (prog_mpc_f_div_p1, spec_mpc_f_div_p1);
    (prog_mpc_ui_div_p0, spec_mpc_ui_div_p0); (prog_mpc_ui_div_p1, spec_mpc_ui_div_p1) ].
Lemma invscale_all : Forall (fun e => cplx_err_ok_u (/ 16) 8 (fst e) (snd e)) entries_invscale.
Proof. unfold entries_invscale. all_entries ltac:(simpl fst; simpl snd; invscale_tac). Qed.

(* ---------------------------------------------------------------- mpc_pow_si: the traced unrollings are instances of the model *)
Lemma pow_si_instances :
  pow_si_model (csrc false) (-3) = prog_mpc_pow_si_m3_p0 /\ pow_si_model (csrc true) (-3) = prog_mpc_pow_si_m3_p1 /\
  pow_si_model (csrc false) (-1) = prog_mpc_pow_si_m1_p0 /\ pow_si_model (csrc true) (-1) = prog_mpc_pow_si_m1_p1 /\
  pow_si_model (csrc false) 0 = prog_mpc_pow_si_0_p0 /\ pow_si_model (csrc true) 0 = prog_mpc_pow_si_0_p1 /\
  pow_si_model (csrc false) 1 = prog_mpc_pow_si_1_p0 /\ pow_si_model (csrc true) 1 = prog_mpc_pow_si_1_p1 /\
  pow_si_model (csrc false) 2 = prog_mpc_pow_si_2_p0 /\ pow_si_model (csrc true) 2 = prog_mpc_pow_si_2_p1 /\
  pow_si_model (csrc false) 3 = prog_mpc_pow_si_3_p0 /\ pow_si_model (csrc true) 3 = prog_mpc_pow_si_3_p1 /\
  pow_si_model (csrc false) 5 = prog_mpc_pow_si_5_p0 /\ pow_si_model (csrc true) 5 = prog_mpc_pow_si_5_p1 /\
  pow_si_model (csrc false) 6 = prog_mpc_pow_si_6_p0 /\ pow_si_model (csrc true) 6 = prog_mpc_pow_si_6_p1.
Proof. repeat split; vm_compute; reflexivity. Qed.

Lemma pow_si_example : pow_si_val (2, 0) 5 = (32, 0).
Proof.
  rewrite pow_si_val_pow. change (Z.abs_nat 5) with 5%nat. change ((5 <? 0)%Z) with false.
  unfold cpown, cmul, cone; simpl. apply injective_projections; simpl; ring.
Qed.

(* ---------------------------------------------------------------- gmptools.c mpf_*_si helpers: the traced programs
   (destination != source: F2, F1; destination = source: F1, F1; a positive, zero, a negative argument and LONG_MIN)
   are instances of the Coq function si_model of Mpc/MpfSi.v *)
Lemma si_instances :
  si_model AddSi F2 F1 (7) = prog_mpf_add_si_7_p0 /\ si_model AddSi F1 F1 (7) = prog_mpf_add_si_7_p1 /\
  si_model AddSi F2 F1 (0) = prog_mpf_add_si_0_p0 /\ si_model AddSi F1 F1 (0) = prog_mpf_add_si_0_p1 /\
  si_model AddSi F2 F1 (-7) = prog_mpf_add_si_m7_p0 /\ si_model AddSi F1 F1 (-7) = prog_mpf_add_si_m7_p1 /\
  si_model AddSi F2 F1 (-9223372036854775808) = prog_mpf_add_si_m9223372036854775808_p0 /\ si_model AddSi F1 F1 (-9223372036854775808) = prog_mpf_add_si_m9223372036854775808_p1 /\
  si_model SubSi F2 F1 (7) = prog_mpf_sub_si_7_p0 /\ si_model SubSi F1 F1 (7) = prog_mpf_sub_si_7_p1 /\
  si_model SubSi F2 F1 (0) = prog_mpf_sub_si_0_p0 /\ si_model SubSi F1 F1 (0) = prog_mpf_sub_si_0_p1 /\
  si_model SubSi F2 F1 (-7) = prog_mpf_sub_si_m7_p0 /\ si_model SubSi F1 F1 (-7) = prog_mpf_sub_si_m7_p1 /\
  si_model SubSi F2 F1 (-9223372036854775808) = prog_mpf_sub_si_m9223372036854775808_p0 /\ si_model SubSi F1 F1 (-9223372036854775808) = prog_mpf_sub_si_m9223372036854775808_p1 /\
  si_model SiSub F2 F1 (7) = prog_mpf_si_sub_7_p0 /\ si_model SiSub F1 F1 (7) = prog_mpf_si_sub_7_p1 /\
  si_model SiSub F2 F1 (0) = prog_mpf_si_sub_0_p0 /\ si_model SiSub F1 F1 (0) = prog_mpf_si_sub_0_p1 /\
  si_model SiSub F2 F1 (-7) = prog_mpf_si_sub_m7_p0 /\ si_model SiSub F1 F1 (-7) = prog_mpf_si_sub_m7_p1 /\
  si_model SiSub F2 F1 (-9223372036854775808) = prog_mpf_si_sub_m9223372036854775808_p0 /\ si_model SiSub F1 F1 (-9223372036854775808) = prog_mpf_si_sub_m9223372036854775808_p1 /\
  si_model MulSi F2 F1 (7) = prog_mpf_mul_si_7_p0 /\ si_model MulSi F1 F1 (7) = prog_mpf_mul_si_7_p1 /\
  si_model MulSi F2 F1 (0) = prog_mpf_mul_si_0_p0 /\ si_model MulSi F1 F1 (0) = prog_mpf_mul_si_0_p1 /\
  si_model MulSi F2 F1 (-7) = prog_mpf_mul_si_m7_p0 /\ si_model MulSi F1 F1 (-7) = prog_mpf_mul_si_m7_p1 /\
  si_model MulSi F2 F1 (-9223372036854775808) = prog_mpf_mul_si_m9223372036854775808_p0 /\ si_model MulSi F1 F1 (-9223372036854775808) = prog_mpf_mul_si_m9223372036854775808_p1 /\
  si_model DivSi F2 F1 (7) = prog_mpf_div_si_7_p0 /\ si_model DivSi F1 F1 (7) = prog_mpf_div_si_7_p1 /\
  si_model DivSi F2 F1 (-7) = prog_mpf_div_si_m7_p0 /\ si_model DivSi F1 F1 (-7) = prog_mpf_div_si_m7_p1 /\
  si_model DivSi F2 F1 (-9223372036854775808) = prog_mpf_div_si_m9223372036854775808_p0 /\ si_model DivSi F1 F1 (-9223372036854775808) = prog_mpf_div_si_m9223372036854775808_p1 /\
  si_model SiDiv F2 F1 (7) = prog_mpf_si_div_7_p0 /\ si_model SiDiv F1 F1 (7) = prog_mpf_si_div_7_p1 /\
  si_model SiDiv F2 F1 (0) = prog_mpf_si_div_0_p0 /\ si_model SiDiv F1 F1 (0) = prog_mpf_si_div_0_p1 /\
  si_model SiDiv F2 F1 (-7) = prog_mpf_si_div_m7_p0 /\ si_model SiDiv F1 F1 (-7) = prog_mpf_si_div_m7_p1 /\
  si_model SiDiv F2 F1 (-9223372036854775808) = prog_mpf_si_div_m9223372036854775808_p0 /\ si_model SiDiv F1 F1 (-9223372036854775808) = prog_mpf_si_div_m9223372036854775808_p1.
Proof. repeat split; vm_compute; reflexivity. Qed.

(* non-vacuity: the exact arithmetic is a standard model with u = 0, and a concrete store *)
Definition store0 : store := fun r =>
  match r with C1Re => 3 | C1Im => 2 | C2Re => 5 | C2Im => -7 | F1 => 11 | _ => 1 end.

Example mul_example : run exact prog_mpc_mul_p0 store0 RcRe = 29 /\ run exact prog_mpc_mul_p0 store0 RcIm = -11.
Proof. split; mpf_cbv; ring. Qed.

(* ---------------------------------------------------------------- thread-local cache policy
   mpc.c `init (precision_needed)`: the cached temporaries are re-allocated at the needed
   precision iff the cached precision is smaller, or more than 4 times larger. *)
Definition tls_adjust (cur need : Z) : Z :=
  if orb (cur <? need)%Z (4 * need <? cur)%Z then need else cur.

Lemma tls_precision_ok cur need : (need <= tls_adjust cur need)%Z.
Proof. unfold tls_adjust. destruct (cur <? need)%Z eqn:E1; destruct (4 * need <? cur)%Z eqn:E2; simpl; lia. Qed.

(* ---------------------------------------------------------------- link.c conversions
   An mpf value is mant * 2^e2 (mant : Z).  mpf_get_rdpe zeroes the limb exponent (so the
   value lies in [2^-64, 1), no overflow/underflow in mpf_get_d), truncates to a double and
   re-attaches the exponent: as a map on values it is truncation of the mantissa to 53 bits.
   Stated over Z, exactly:  2^52 * |m - q*2^s| <= |m|  is  |trunc x - x| <= 2^-52 |x|. *)
Definition trunc53 (m : Z) : Z * Z :=       (* (q, s): value q * 2^s *)
  if (Z.abs m <? 2 ^ 53)%Z then (m, 0%Z)
  else let s := (Z.log2 (Z.abs m) - 52)%Z in (Z.quot m (2 ^ s), s).

Lemma trunc53_spec m :
  let '(q, s) := trunc53 m in
  (0 <= s /\ 2 ^ 52 * Z.abs (m - q * 2 ^ s) <= Z.abs m /\ Z.abs (q * 2 ^ s) <= Z.abs m
   /\ Z.sgn q = Z.sgn m /\ Z.abs q < 2 ^ 53 /\ (m = 0 <-> q = 0))%Z.
Proof.
  unfold trunc53. destruct (Z.abs m <? 2 ^ 53)%Z eqn:E.
  - apply Z.ltb_lt in E. rewrite Z.pow_0_r, Z.mul_1_r, Z.sub_diag. simpl Z.abs at 1. lia.
  - apply Z.ltb_ge in E.
    assert (Hm : (0 < Z.abs m)%Z) by (assert (0 < 2 ^ 53)%Z by (apply Z.pow_pos_nonneg; lia); lia).
    pose proof (Z.log2_spec _ Hm) as [L1 L2].
    set (l := Z.log2 (Z.abs m)) in *.
    assert (Hl : (53 <= l)%Z).
    { destruct (Z_lt_le_dec l 53) as [C|C]; [|exact C]. exfalso.
      assert (2 ^ (Z.succ l) <= 2 ^ 53)%Z by (apply Z.pow_le_mono_r; lia). lia. }
    set (s := (l - 52)%Z). assert (Hs : (0 < s)%Z) by (unfold s; lia).
    assert (P : (0 < 2 ^ s)%Z) by (apply Z.pow_pos_nonneg; lia).
    pose proof (Z.quot_rem' m (2 ^ s)) as QR.
    pose proof (Z.rem_bound_abs m (2 ^ s) ltac:(lia)) as RB. rewrite (Z.abs_eq (2 ^ s)) in RB by lia.
    pose proof (Z.rem_sign_nz m (2 ^ s)) as RS.
    set (q := Z.quot m (2 ^ s)) in *. set (r := Z.rem m (2 ^ s)) in *.
    assert (E52 : (2 ^ l = 2 ^ 52 * 2 ^ s)%Z) by (unfold s; rewrite <- Z.pow_add_r by lia; f_equal; lia).
    assert (E53 : (2 ^ Z.succ l = 2 ^ 53 * 2 ^ s)%Z) by (unfold s; rewrite <- Z.pow_add_r by lia; f_equal; lia).
    assert (Hr : (m - q * 2 ^ s = r)%Z) by lia.
    assert (Sr : (r = 0 \/ Z.sgn r = Z.sgn m)%Z).
    { destruct (Z.eq_dec r 0) as [C|C]; [left; exact C | right; apply RS; [lia | exact C]]. }
    assert (P52 : (0 < 2 ^ 52)%Z) by (apply Z.pow_pos_nonneg; lia).
    assert (P53 : (0 < 2 ^ 53)%Z) by (apply Z.pow_pos_nonneg; lia).
    rewrite Hr.
    assert (Aq : (Z.abs m = Z.abs q * 2 ^ s + Z.abs r)%Z) by nia.
    repeat split; try nia.
Qed.


(* ---------------------------------------------------------------- conversions, general precision
   truncation of an integer mantissa to p bits (GMP mpf assignment into a p-bit destination, mpf_get_d
   for p = 53): value q * 2^s *)
Definition truncp (p m : Z) : Z * Z :=
  if (Z.abs m <? 2 ^ p)%Z then (m, 0%Z)
  else let s := (Z.log2 (Z.abs m) - (p - 1))%Z in (Z.quot m (2 ^ s), s).

Lemma truncp_spec p m : (1 <= p)%Z ->
  let '(q, s) := truncp p m in
  (0 <= s /\ 2 ^ (p - 1) * Z.abs (m - q * 2 ^ s) <= Z.abs m /\ Z.abs (q * 2 ^ s) <= Z.abs m
   /\ Z.sgn q = Z.sgn m /\ Z.abs q < 2 ^ p /\ (m = 0 <-> q = 0))%Z.
Proof.
  intro Hp. unfold truncp. destruct (Z.abs m <? 2 ^ p)%Z eqn:E.
  - apply Z.ltb_lt in E. rewrite Z.pow_0_r, Z.mul_1_r, Z.sub_diag. simpl Z.abs at 1. lia.
  - apply Z.ltb_ge in E.
    assert (Pp : (0 < 2 ^ p)%Z) by (apply Z.pow_pos_nonneg; lia).
    assert (Hm : (0 < Z.abs m)%Z) by lia.
    pose proof (Z.log2_spec _ Hm) as [L1 L2].
    set (l := Z.log2 (Z.abs m)) in *.
    assert (Hl : (p <= l)%Z).
    { destruct (Z_lt_le_dec l p) as [C|C]; [|exact C]. exfalso.
      assert (2 ^ (Z.succ l) <= 2 ^ p)%Z by (apply Z.pow_le_mono_r; lia). lia. }
    set (s := (l - (p - 1))%Z). assert (Hs : (0 < s)%Z) by (unfold s; lia).
    assert (P : (0 < 2 ^ s)%Z) by (apply Z.pow_pos_nonneg; lia).
    pose proof (Z.quot_rem' m (2 ^ s)) as QR.
    pose proof (Z.rem_bound_abs m (2 ^ s) ltac:(lia)) as RB. rewrite (Z.abs_eq (2 ^ s)) in RB by lia.
    pose proof (Z.rem_sign_nz m (2 ^ s)) as RS.
    set (q := Z.quot m (2 ^ s)) in *. set (r := Z.rem m (2 ^ s)) in *.
    assert (E52 : (2 ^ l = 2 ^ (p - 1) * 2 ^ s)%Z) by (unfold s; rewrite <- Z.pow_add_r by lia; f_equal; lia).
    assert (E53 : (2 ^ Z.succ l = 2 ^ p * 2 ^ s)%Z) by (unfold s; rewrite <- Z.pow_add_r by lia; f_equal; lia).
    assert (Hr : (m - q * 2 ^ s = r)%Z) by lia.
    assert (Sr : (r = 0 \/ Z.sgn r = Z.sgn m)%Z).
    { destruct (Z.eq_dec r 0) as [C|C]; [left; exact C | right; apply RS; [lia | exact C]]. }
    assert (P52 : (0 < 2 ^ (p - 1))%Z) by (apply Z.pow_pos_nonneg; lia).
    rewrite Hr.
    assert (Aq : (Z.abs m = Z.abs q * 2 ^ s + Z.abs r)%Z) by nia.
    set (A := (2 ^ (p - 1))%Z) in *. set (B := (2 ^ p)%Z) in *. set (S := (2 ^ s)%Z) in *.
    repeat split; try nia.
Qed.

(* mpf_set_d / mpc_set_cplx / mpc_set_d into a destination of p >= 53 bits: a double's 53-bit mantissa is kept
   exactly (GMP never allocates fewer than 2 limbs, so p >= 53 always holds); into fewer bits: relative
   error <= 2^(1-p) by truncp_spec.  mpc_get_cplx / mpc_get_cdpe / mpf_get_rdpe are truncp 53 per component
   (for values in the double range; outside it mpf_get_d's result is unspecified by GMP and the check only
   requires that the sign is not flipped). *)
Lemma set_d_exact p q : (53 <= p)%Z -> (Z.abs q < 2 ^ 53)%Z -> truncp p q = (q, 0%Z).
Proof.
  intros Hp Hq. unfold truncp.
  assert (2 ^ 53 <= 2 ^ p)%Z by (apply Z.pow_le_mono_r; lia).
  destruct (Z.abs q <? 2 ^ p)%Z eqn:E; [reflexivity|]. apply Z.ltb_ge in E. lia.
Qed.

Lemma trunc53_is_truncp m : trunc53 m = truncp 53 m.
Proof. reflexivity. Qed.

(* round trip double -> mpf -> double is the identity on the mantissa *)
Lemma get_set_roundtrip p q : (53 <= p)%Z -> (Z.abs q < 2 ^ 53)%Z ->
  let '(q1, s1) := truncp p q in truncp 53 q1 = (q, 0%Z) /\ s1 = 0%Z.
Proof.
  intros Hp Hq. rewrite (set_d_exact p q Hp Hq). split; [|reflexivity].
  apply set_d_exact; [lia | exact Hq].
Qed.

(* mpf_set_rdpe: mpf_set_d is exact when the destination has at least 53 bits (GMP's minimum
   precision is 53 bits), and mpf_mul_2exp / mpf_div_2exp are exact: the conversion is the identity
   on values; in the instruction model it is [Imul2]/[Idiv2] applied to an exactly representable value. *)
Lemma set_rdpe_exact (mant : R) (k : Z) (s : store) :
  run exact [Imul2 F1 F1 k] (upd s F1 mant) F1 = mant * two_pow k.
Proof. mpf_cbv. reflexivity. Qed.
