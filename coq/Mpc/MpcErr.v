(* C13: rounding-error bounds for the mpc formulas under the standard model of
   truncating arithmetic (MpfSem.std_model).  Generic lemmas about formula shapes; they
   are instantiated on the programs traced from mpc.c in MpcProps.v. *)
Require Import Reals List ZArith Lra Lia Psatz.
Require Import MPSV.Mpc.MpfSem.
Open Scope R_scope.

Lemma Rabs_triang3 a b c : Rabs (a - c) <= Rabs (a - b) + Rabs (b - c).
Proof. replace (a - c) with ((a - b) + (b - c)) by ring. apply Rabs_triang. Qed.

Lemma sq_nonneg x : 0 <= x * x.
Proof. nra. Qed.

Lemma Rabs_mult_self x : Rabs x * Rabs x = x * x.
Proof. rewrite <- Rabs_mult. apply Rabs_right. nra. Qed.

Lemma sq_abs_le x y : Rabs x <= y -> x * x <= y * y.
Proof.
  intro H. assert (0 <= Rabs x) by apply Rabs_pos.
  rewrite <- (Rabs_mult_self x). nra.
Qed.

(* componentwise bounds give the bound in modulus (squared) *)
Lemma cmod_from_components k dr di X Y :
  0 <= k -> Rabs dr <= k * Rabs X -> Rabs di <= k * Rabs Y ->
  dr * dr + di * di <= (k * k) * (X * X + Y * Y).
Proof.
  intros Hk H1 H2.
  assert (A := sq_abs_le _ _ H1). assert (B := sq_abs_le _ _ H2).
  pose proof (Rabs_mult_self X). pose proof (Rabs_mult_self Y).
  nra.
Qed.

Section Std.
  Variable rnd : reg -> R -> R.
  Variable u : R.
  Hypothesis Hstd : std_model rnd u.

  Lemma u_nonneg : 0 <= u. Proof. exact (proj1 Hstd). Qed.
  Lemma rnd_err r x : Rabs (rnd r x - x) <= u * Rabs x. Proof. exact (proj1 (proj2 Hstd r x)). Qed.
  Lemma rnd_le r x : Rabs (rnd r x) <= Rabs x. Proof. exact (proj2 (proj2 Hstd r x)). Qed.

  (* one rounded operation applied to an approximation xh of x *)
  Lemma rnd_step r xh x e : Rabs (xh - x) <= e -> Rabs (rnd r xh - x) <= e + u * Rabs xh.
  Proof.
    intro H. pose proof (Rabs_triang3 (rnd r xh) xh x). pose proof (rnd_err r xh). lra.
  Qed.

  Lemma abs_le_of_err xh x e : Rabs (xh - x) <= e -> Rabs xh <= Rabs x + e.
  Proof.
    intro H. replace xh with ((xh - x) + x) at 1 by ring.
    pose proof (Rabs_triang (xh - x) x). lra.
  Qed.

  (* product of two truncated values *)
  Lemma prod_err r1 r2 x y :
    Rabs (rnd r1 x * rnd r2 y - x * y) <= 2 * u * (Rabs x * Rabs y).
  Proof.
    replace (rnd r1 x * rnd r2 y - x * y) with ((rnd r1 x - x) * rnd r2 y + x * (rnd r2 y - y)) by ring.
    eapply Rle_trans; [apply Rabs_triang|]. rewrite !Rabs_mult.
    pose proof (rnd_err r1 x). pose proof (rnd_err r2 y). pose proof (rnd_le r2 y).
    pose proof (Rabs_pos x). pose proof (Rabs_pos y). pose proof (Rabs_pos (rnd r2 y)).
    pose proof (Rabs_pos (rnd r1 x - x)). pose proof (Rabs_pos (rnd r2 y - y)). pose proof u_nonneg.
    nra.
  Qed.

  (* ---- componentwise operations: one rounding of an exact function of the sources *)
  Lemma comp1_err rr ri X Y :
    let dr := rnd rr X - X in let di := rnd ri Y - Y in
    dr * dr + di * di <= (u * u) * (X * X + Y * Y).
  Proof.
    intros dr di. subst dr di. apply cmod_from_components.
    - apply u_nonneg.
    - apply rnd_err.
    - apply rnd_err.
  Qed.

  (* ---- schoolbook product, 4 multiplications *)
  Section Mul.
    Variables a b c d : R.
    Let P := (Rabs a + Rabs b) * (Rabs c + Rabs d).
    Let W := u * P.

    Lemma P_nonneg : 0 <= P.
    Proof. unfold P. pose proof (Rabs_pos a). pose proof (Rabs_pos b). pose proof (Rabs_pos c). pose proof (Rabs_pos d). nra. Qed.

    Lemma P_sq : P * P <= 4 * ((a * a + b * b) * (c * c + d * d)).
    Proof.
      unfold P.
      assert (H1 : (Rabs a + Rabs b) * (Rabs a + Rabs b) <= 2 * (a * a + b * b)).
      { pose proof (Rabs_mult_self a). pose proof (Rabs_mult_self b).
        pose proof (sq_nonneg (Rabs a - Rabs b)). nra. }
      assert (H2 : (Rabs c + Rabs d) * (Rabs c + Rabs d) <= 2 * (c * c + d * d)).
      { pose proof (Rabs_mult_self c). pose proof (Rabs_mult_self d).
        pose proof (sq_nonneg (Rabs c - Rabs d)). nra. }
      pose proof (sq_nonneg (Rabs a + Rabs b)). pose proof (sq_nonneg (Rabs c + Rabs d)).
      pose proof (sq_nonneg a). pose proof (sq_nonneg b). pose proof (sq_nonneg c). pose proof (sq_nonneg d).
      replace ((Rabs a + Rabs b) * (Rabs c + Rabs d) * ((Rabs a + Rabs b) * (Rabs c + Rabs d)))
        with (((Rabs a + Rabs b) * (Rabs a + Rabs b)) * ((Rabs c + Rabs d) * (Rabs c + Rabs d))) by ring.
      nra.
    Qed.

    Lemma prods_le_P :
      Rabs (a * c) + Rabs (a * d) + Rabs (b * c) + Rabs (b * d) = P.
    Proof. unfold P. rewrite !Rabs_mult. ring. Qed.

    (* error of the sum/difference of two rounded products, rounded again *)
    Lemma two_prod_err (r1 r2 r3 : reg) x y (sg : R) :
      (sg = 1 \/ sg = -1) ->
      Rabs (rnd r3 (rnd r1 x + sg * rnd r2 y) - (x + sg * y)) <= 2 * u * (Rabs x + Rabs y).
    Proof.
      intros Hsg.
      assert (Hs : Rabs sg = 1) by (destruct Hsg; subst; unfold Rabs; [destruct (Rcase_abs 1) | destruct (Rcase_abs (-1))]; lra).
      set (xh := rnd r1 x + sg * rnd r2 y).
      assert (E : Rabs (xh - (x + sg * y)) <= u * (Rabs x + Rabs y)).
      { unfold xh. replace (rnd r1 x + sg * rnd r2 y - (x + sg * y)) with ((rnd r1 x - x) + sg * (rnd r2 y - y)) by ring.
        eapply Rle_trans; [apply Rabs_triang|]. rewrite Rabs_mult, Hs.
        pose proof (rnd_err r1 x). pose proof (rnd_err r2 y). lra. }
      assert (B : Rabs xh <= Rabs x + Rabs y).
      { unfold xh. eapply Rle_trans; [apply Rabs_triang|]. rewrite Rabs_mult, Hs.
        pose proof (rnd_le r1 x). pose proof (rnd_le r2 y). lra. }
      pose proof (rnd_step r3 xh _ _ E). pose proof u_nonneg. nra.
    Qed.

    Theorem mul4_err (r1 r2 r3 r4 r5 r6 : reg) :
      let re := rnd r5 (rnd r1 (a * c) - rnd r2 (b * d)) in
      let im := rnd r6 (rnd r3 (a * d) + rnd r4 (b * c)) in
      (re - (a * c - b * d)) * (re - (a * c - b * d)) + (im - (a * d + b * c)) * (im - (a * d + b * c))
        <= (6 * u) * (6 * u) * ((a * a + b * b) * (c * c + d * d)).
    Proof.
      intros re im.
      assert (Hre : Rabs (re - (a * c - b * d)) <= 2 * u * (Rabs (a * c) + Rabs (b * d))).
      { unfold re. pose proof (two_prod_err r1 r2 r5 (a * c) (b * d) (-1) (or_intror eq_refl)) as H.
        replace (rnd r1 (a * c) + -1 * rnd r2 (b * d)) with (rnd r1 (a * c) - rnd r2 (b * d)) in H by ring.
        replace (a * c + -1 * (b * d)) with (a * c - b * d) in H by ring. exact H. }
      assert (Him : Rabs (im - (a * d + b * c)) <= 2 * u * (Rabs (a * d) + Rabs (b * c))).
      { unfold im. pose proof (two_prod_err r3 r4 r6 (a * d) (b * c) 1 (or_introl eq_refl)) as H.
        replace (rnd r3 (a * d) + 1 * rnd r4 (b * c)) with (rnd r3 (a * d) + rnd r4 (b * c)) in H by ring.
        replace (a * d + 1 * (b * c)) with (a * d + b * c) in H by ring. exact H. }
      pose proof prods_le_P as HP. pose proof P_nonneg. pose proof P_sq. pose proof u_nonneg.
      pose proof (Rabs_pos (a * c)). pose proof (Rabs_pos (a * d)). pose proof (Rabs_pos (b * c)). pose proof (Rabs_pos (b * d)).
      assert (G1 : Rabs (re - (a * c - b * d)) <= 2 * u * P) by nra.
      assert (G2 : Rabs (im - (a * d + b * c)) <= 2 * u * P) by nra.
      pose proof (sq_abs_le _ _ G1). pose proof (sq_abs_le _ _ G2).
      assert (0 <= u * u) by nra. nra.
    Qed.

    (* the 3-multiplication form used by mpc_mul:
       s1 = a-b; s2 = c+d; s1 = s1*s2; s2 = a*d; s3 = b*c; re = (s1 - s2) + s3; im = s2 + s3 *)
    Theorem mul3_err (r1 r2 r3 r4 r5 r6 r7 r8 : reg) :
      let s1 := rnd r1 (a - b) in let s2 := rnd r2 (c + d) in
      let p1 := rnd r3 (s1 * s2) in let p2 := rnd r4 (a * d) in let p3 := rnd r5 (b * c) in
      let re := rnd r7 (rnd r6 (p1 - p2) + p3) in
      let im := rnd r8 (p2 + p3) in
      (re - (a * c - b * d)) * (re - (a * c - b * d)) + (im - (a * d + b * c)) * (im - (a * d + b * c))
        <= (17 * u) * (17 * u) * ((a * a + b * b) * (c * c + d * d)).
    Proof.
      intros s1 s2 p1 p2 p3 re im.
      pose proof u_nonneg as Hu. pose proof P_nonneg as HP0. pose proof prods_le_P as HP.
      pose proof (Rabs_pos (a * c)). pose proof (Rabs_pos (a * d)). pose proof (Rabs_pos (b * c)). pose proof (Rabs_pos (b * d)).
      set (X1 := a - b) in *. set (X2 := c + d) in *.
      assert (HX : Rabs X1 * Rabs X2 <= P).
      { unfold X1, X2, P. pose proof (Rabs_triang a (- b)) as T1. rewrite Rabs_Ropp in T1.
        pose proof (Rabs_triang c d) as T2. replace (a - b) with (a + - b) by ring.
        pose proof (Rabs_pos (a + - b)). pose proof (Rabs_pos (c + d)).
        pose proof (Rabs_pos a). pose proof (Rabs_pos b). pose proof (Rabs_pos c). pose proof (Rabs_pos d). nra. }
      (* q = s1*s2 *)
      assert (Hq : Rabs (s1 * s2 - X1 * X2) <= 2 * u * P).
      { pose proof (prod_err r1 r2 X1 X2). fold s1 s2 in H3. nra. }
      assert (Bq : Rabs (s1 * s2) <= P).
      { rewrite Rabs_mult. pose proof (rnd_le r1 X1). pose proof (rnd_le r2 X2). fold s1 in H3. fold s2 in H4.
        pose proof (Rabs_pos s1). pose proof (Rabs_pos s2). pose proof (Rabs_pos X1). pose proof (Rabs_pos X2). nra. }
      assert (Hp1 : Rabs (p1 - X1 * X2) <= 3 * u * P).
      { pose proof (rnd_step r3 _ _ _ Hq). fold p1 in H3. nra. }
      assert (Bp1 : Rabs p1 <= P) by (pose proof (rnd_le r3 (s1 * s2)); fold p1 in H3; lra).
      assert (Hp2 : Rabs (p2 - a * d) <= u * Rabs (a * d)) by apply rnd_err.
      assert (Bp2 : Rabs p2 <= Rabs (a * d)) by apply rnd_le.
      assert (Hp3 : Rabs (p3 - b * c) <= u * Rabs (b * c)) by apply rnd_err.
      assert (Bp3 : Rabs p3 <= Rabs (b * c)) by apply rnd_le.
      (* t = p1 - p2 *)
      assert (Ht : Rabs ((p1 - p2) - (X1 * X2 - a * d)) <= 3 * u * P + u * Rabs (a * d)).
      { replace ((p1 - p2) - (X1 * X2 - a * d)) with ((p1 - X1 * X2) + - (p2 - a * d)) by ring.
        eapply Rle_trans; [apply Rabs_triang|]. rewrite Rabs_Ropp. lra. }
      assert (Bt : Rabs (p1 - p2) <= P + Rabs (a * d)).
      { replace (p1 - p2) with (p1 + - p2) by ring. eapply Rle_trans; [apply Rabs_triang|]. rewrite Rabs_Ropp. lra. }
      set (r6v := rnd r6 (p1 - p2)) in *.
      assert (Hr : Rabs (r6v - (X1 * X2 - a * d)) <= 4 * u * P + 2 * u * Rabs (a * d)).
      { pose proof (rnd_step r6 _ _ _ Ht). fold r6v in H3. nra. }
      assert (Br : Rabs r6v <= P + Rabs (a * d)) by (pose proof (rnd_le r6 (p1 - p2)); fold r6v in H3; lra).
      assert (ET : X1 * X2 - a * d + b * c = a * c - b * d) by (unfold X1, X2; ring).
      assert (Hw : Rabs ((r6v + p3) - (a * c - b * d)) <= 4 * u * P + 2 * u * Rabs (a * d) + u * Rabs (b * c)).
      { rewrite <- ET. replace ((r6v + p3) - (X1 * X2 - a * d + b * c)) with ((r6v - (X1 * X2 - a * d)) + (p3 - b * c)) by ring.
        eapply Rle_trans; [apply Rabs_triang|]. lra. }
      assert (Bw : Rabs (r6v + p3) <= P + Rabs (a * d) + Rabs (b * c)).
      { eapply Rle_trans; [apply Rabs_triang|]. lra. }
      assert (Hre : Rabs (re - (a * c - b * d)) <= 8 * u * P).
      { pose proof (rnd_step r7 _ _ _ Hw). fold re in H3. nra. }
      assert (Him : Rabs (im - (a * d + b * c)) <= 2 * u * P).
      { pose proof (two_prod_err r4 r5 r8 (a * d) (b * c) 1 (or_introl eq_refl)) as G.
        replace (rnd r4 (a * d) + 1 * rnd r5 (b * c)) with (p2 + p3) in G by (unfold p2, p3; ring).
        replace (a * d + 1 * (b * c)) with (a * d + b * c) in G by ring. fold im in G. nra. }
      pose proof (sq_abs_le _ _ Hre). pose proof (sq_abs_le _ _ Him). pose proof P_sq.
      pose proof (sq_nonneg u). pose proof (sq_nonneg P).
      assert (E1 : 8 * u * P * (8 * u * P) + 2 * u * P * (2 * u * P) = 68 * ((u * u) * (P * P))) by ring.
      assert (E2 : (u * u) * (P * P) <= (u * u) * (4 * ((a * a + b * b) * (c * c + d * d)))) by (apply Rmult_le_compat_l; lra).
      nra.
    Qed.
  End Mul.

  (* ---- squaring as in mpc_sqr: f = a*b; re = a*a - b*b (each product rounded); im = 2*f *)
  Theorem sqr_err (r1 r2 r3 r4 r5 : reg) a b :
    let re := rnd r4 (rnd r2 (a * a) - rnd r3 (b * b)) in
    let im := rnd r5 (rnd r1 (a * b) * 2) in
    (re - (a * a - b * b)) * (re - (a * a - b * b)) + (im - 2 * (a * b)) * (im - 2 * (a * b))
      <= (3 * u) * (3 * u) * ((a * a + b * b) * (a * a + b * b)).
  Proof.
    intros re im. pose proof u_nonneg as Hu.
    pose proof (sq_nonneg a). pose proof (sq_nonneg b).
    assert (Hre : Rabs (re - (a * a - b * b)) <= 2 * u * (a * a + b * b)).
    { pose proof (two_prod_err r2 r3 r4 (a * a) (b * b) (-1) (or_intror eq_refl)) as G.
      replace (rnd r2 (a * a) + -1 * rnd r3 (b * b)) with (rnd r2 (a * a) - rnd r3 (b * b)) in G by ring.
      replace (a * a + -1 * (b * b)) with (a * a - b * b) in G by ring. fold re in G.
      rewrite (Rabs_right (a * a)) in G by lra. rewrite (Rabs_right (b * b)) in G by lra. exact G. }
    assert (Hab : 2 * Rabs (a * b) <= a * a + b * b).
    { rewrite Rabs_mult. pose proof (sq_nonneg (Rabs a - Rabs b)).
      pose proof (Rabs_mult_self a). pose proof (Rabs_mult_self b). nra. }
    assert (Him : Rabs (im - 2 * (a * b)) <= 2 * u * (a * a + b * b)).
    { set (f := rnd r1 (a * b)) in *.
      assert (E : Rabs (f * 2 - 2 * (a * b)) <= 2 * (u * Rabs (a * b))).
      { replace (f * 2 - 2 * (a * b)) with (2 * (f - a * b)) by ring. rewrite Rabs_mult.
        rewrite (Rabs_right 2) by lra. pose proof (rnd_err r1 (a * b)). fold f in H1. lra. }
      pose proof (rnd_step r5 _ _ _ E) as G. fold im in G.
      assert (Rabs (f * 2) <= 2 * Rabs (a * b)).
      { rewrite Rabs_mult. rewrite (Rabs_right 2) by lra. pose proof (rnd_le r1 (a * b)). fold f in H1. lra. }
      pose proof (Rabs_pos (a * b)). nra. }
    pose proof (sq_abs_le _ _ Hre). pose proof (sq_abs_le _ _ Him).
    pose proof (sq_nonneg u). pose proof (sq_nonneg (a * a + b * b)). nra.
  Qed.
End Std.
