(* C13: rounding-error bounds for the mpc formulas under the standard model of
   truncating arithmetic (MpfSem.std_model).  Generic lemmas about formula shapes; they
   are instantiated on the programs traced from mpc.c in MpcProps.v. *)
Require Import Reals List ZArith Lra Lia Psatz.
Require Import MPSV.Mpc.MpfSem.
Open Scope R_scope.

Lemma Rabs_triang3 a b c : Rabs (a - c) <= Rabs (a - b) + Rabs (b - c).
Proof. replace (a - c) with ((a - b) + (b - c)) by ring. apply Rabs_triang. Qed.

Lemma sq_nonneg x : 0 <= x * x.
Proof. nra. Qed.

Lemma Rabs_mult_self x : Rabs x * Rabs x = x * x.
Proof. rewrite <- Rabs_mult. apply Rabs_right. nra. Qed.

Lemma sq_abs_le x y : Rabs x <= y -> x * x <= y * y.
Proof.
  intro H. assert (0 <= Rabs x) by apply Rabs_pos.
  rewrite <- (Rabs_mult_self x). nra.
Qed.

(* componentwise bounds give the bound in modulus (squared) *)
Lemma cmod_from_components k dr di X Y :
  0 <= k -> Rabs dr <= k * Rabs X -> Rabs di <= k * Rabs Y ->
  dr * dr + di * di <= (k * k) * (X * X + Y * Y).
Proof.
  intros Hk H1 H2.
  assert (A := sq_abs_le _ _ H1). assert (B := sq_abs_le _ _ H2).
  pose proof (Rabs_mult_self X). pose proof (Rabs_mult_self Y).
  nra.
Qed.


(* ---------------------------------------------------------------- composition of errors in modulus,
   squared forms only (no square roots): vectors are pairs of reals *)
Lemma sq_le_le x y : 0 <= y -> x * x <= y * y -> x <= y.
Proof.
  intros Hy H. destruct (Rle_lt_dec x y) as [L|L]; [exact L|]. exfalso.
  assert (y * y < x * x) by (apply Rmult_le_0_lt_compat; lra). lra.
Qed.

Lemma vec_tri z1 z2 y1 y2 x1 x2 al be M :
  0 <= al -> 0 <= be -> 0 <= M ->
  (z1 - y1) * (z1 - y1) + (z2 - y2) * (z2 - y2) <= (al * al) * M ->
  (y1 - x1) * (y1 - x1) + (y2 - x2) * (y2 - x2) <= (be * be) * M ->
  (z1 - x1) * (z1 - x1) + (z2 - x2) * (z2 - x2) <= ((al + be) * (al + be)) * M.
Proof.
  intros Ha Hb HM H1 H2.
  set (p1 := z1 - y1) in *. set (p2 := z2 - y2) in *. set (q1 := y1 - x1) in *. set (q2 := y2 - x2) in *.
  replace (z1 - x1) with (p1 + q1) by (unfold p1, q1; ring).
  replace (z2 - x2) with (p2 + q2) by (unfold p2, q2; ring).
  set (P := p1 * p1 + p2 * p2) in *. set (Q := q1 * q1 + q2 * q2) in *.
  assert (HP : 0 <= P) by (unfold P; pose proof (sq_nonneg p1); pose proof (sq_nonneg p2); lra).
  assert (HQ : 0 <= Q) by (unfold Q; pose proof (sq_nonneg q1); pose proof (sq_nonneg q2); lra).
  set (dt := p1 * q1 + p2 * q2).
  assert (CS : dt * dt <= P * Q).
  { pose proof (sq_nonneg (p1 * q2 - p2 * q1)). unfold dt, P, Q. nra. }
  assert (B : P * Q <= (al * al * M) * (be * be * M)) by (apply Rmult_le_compat; assumption).
  assert (D : dt <= al * be * M).
  { apply sq_le_le.
    - apply Rmult_le_pos; [apply Rmult_le_pos|]; assumption.
    - replace (al * be * M * (al * be * M)) with ((al * al * M) * (be * be * M)) by ring. lra. }
  replace ((p1 + q1) * (p1 + q1) + (p2 + q2) * (p2 + q2)) with (P + Q + 2 * dt) by (unfold P, Q, dt; ring).
  replace ((al + be) * (al + be) * M) with (al * al * M + be * be * M + 2 * (al * be * M)) by ring.
  lra.
Qed.

(* size of an approximation *)
Lemma vec_norm_close x1 x2 a1 a2 k :
  0 <= k ->
  (x1 - a1) * (x1 - a1) + (x2 - a2) * (x2 - a2) <= (k * k) * (a1 * a1 + a2 * a2) ->
  x1 * x1 + x2 * x2 <= ((k + 1) * (k + 1)) * (a1 * a1 + a2 * a2).
Proof.
  intros Hk H.
  pose proof (vec_tri x1 x2 a1 a2 0 0 k 1 (a1 * a1 + a2 * a2) Hk ltac:(lra)
                ltac:(pose proof (sq_nonneg a1); pose proof (sq_nonneg a2); lra) H) as T.
  replace (x1 - 0) with x1 in T by ring. replace (x2 - 0) with x2 in T by ring.
  apply T. replace (a1 - 0) with a1 by ring. replace (a2 - 0) with a2 by ring. lra.
Qed.

(* exact complex product of two approximations: (x1,x2) ~ (a1,a2) within k1, (y1,y2) ~ (b1,b2) within k2
   (relative, in modulus) => product within k1*(1+k2) + k2 *)
Lemma vec_mul_close x1 x2 a1 a2 y1 y2 b1 b2 k1 k2 :
  0 <= k1 -> 0 <= k2 ->
  (x1 - a1) * (x1 - a1) + (x2 - a2) * (x2 - a2) <= (k1 * k1) * (a1 * a1 + a2 * a2) ->
  (y1 - b1) * (y1 - b1) + (y2 - b2) * (y2 - b2) <= (k2 * k2) * (b1 * b1 + b2 * b2) ->
  let pr := x1 * y1 - x2 * y2 in let pi := x1 * y2 + x2 * y1 in
  let er := a1 * b1 - a2 * b2 in let ei := a1 * b2 + a2 * b1 in
  (pr - er) * (pr - er) + (pi - ei) * (pi - ei)
    <= ((k1 * (k2 + 1) + k2) * (k1 * (k2 + 1) + k2)) * (er * er + ei * ei).
Proof.
  intros H1 H2 Hx Hy pr pi er ei.
  set (A := a1 * a1 + a2 * a2) in *. set (B := b1 * b1 + b2 * b2) in *.
  assert (HA : 0 <= A) by (unfold A; pose proof (sq_nonneg a1); pose proof (sq_nonneg a2); lra).
  assert (HB : 0 <= B) by (unfold B; pose proof (sq_nonneg b1); pose proof (sq_nonneg b2); lra).
  assert (EM : er * er + ei * ei = A * B) by (unfold er, ei, A, B; ring).
  rewrite EM.
  pose proof (vec_norm_close y1 y2 b1 b2 k2 H2 Hy) as Ny. fold B in Ny.
  (* middle point: a * y *)
  set (mr := a1 * y1 - a2 * y2). set (mi := a1 * y2 + a2 * y1).
  apply (vec_tri pr pi mr mi er ei (k1 * (k2 + 1)) k2 (A * B)).
  - apply Rmult_le_pos; lra.
  - exact H2.
  - apply Rmult_le_pos; assumption.
  - replace ((pr - mr) * (pr - mr) + (pi - mi) * (pi - mi))
      with (((x1 - a1) * (x1 - a1) + (x2 - a2) * (x2 - a2)) * (y1 * y1 + y2 * y2)) by (unfold pr, pi, mr, mi; ring).
    replace (k1 * (k2 + 1) * (k1 * (k2 + 1)) * (A * B)) with ((k1 * k1 * A) * ((k2 + 1) * (k2 + 1) * B)) by ring.
    apply Rmult_le_compat; try assumption.
    + pose proof (sq_nonneg (x1 - a1)); pose proof (sq_nonneg (x2 - a2)); lra.
    + pose proof (sq_nonneg y1); pose proof (sq_nonneg y2); lra.
  - replace ((mr - er) * (mr - er) + (mi - ei) * (mi - ei))
      with (A * ((y1 - b1) * (y1 - b1) + (y2 - b2) * (y2 - b2))) by (unfold mr, mi, er, ei, A; ring).
    replace (k2 * k2 * (A * B)) with (A * (k2 * k2 * B)) by ring.
    apply Rmult_le_compat_l; assumption.
Qed.

(* a rounded operation with relative error d (in modulus) applied to an approximation within k *)
Lemma vec_round_close r1 r2 p1 p2 e1 e2 d k :
  0 <= d -> 0 <= k ->
  (r1 - p1) * (r1 - p1) + (r2 - p2) * (r2 - p2) <= (d * d) * (p1 * p1 + p2 * p2) ->
  (p1 - e1) * (p1 - e1) + (p2 - e2) * (p2 - e2) <= (k * k) * (e1 * e1 + e2 * e2) ->
  (r1 - e1) * (r1 - e1) + (r2 - e2) * (r2 - e2) <= ((d * (k + 1) + k) * (d * (k + 1) + k)) * (e1 * e1 + e2 * e2).
Proof.
  intros Hd Hk H1 H2.
  pose proof (vec_norm_close p1 p2 e1 e2 k Hk H2) as N.
  set (E := e1 * e1 + e2 * e2) in *.
  assert (HE : 0 <= E) by (unfold E; pose proof (sq_nonneg e1); pose proof (sq_nonneg e2); lra).
  apply (vec_tri r1 r2 p1 p2 e1 e2 (d * (k + 1)) k E); try assumption.
  - apply Rmult_le_pos; lra.
  - eapply Rle_trans; [exact H1|].
    replace (d * (k + 1) * (d * (k + 1)) * E) with ((d * d) * ((k + 1) * (k + 1) * E)) by ring.
    apply Rmult_le_compat_l; [pose proof (sq_nonneg d); lra | exact N].
Qed.

Section Std.
  Variable rnd : reg -> R -> R.
  Variable u : R.
  Hypothesis Hstd : std_model rnd u.

  Lemma u_nonneg : 0 <= u. Proof. exact (proj1 Hstd). Qed.
  Lemma rnd_err r x : Rabs (rnd r x - x) <= u * Rabs x. Proof. exact (proj1 (proj2 Hstd r x)). Qed.
  Lemma rnd_le r x : Rabs (rnd r x) <= Rabs x. Proof. exact (proj2 (proj2 Hstd r x)). Qed.

  (* one rounded operation applied to an approximation xh of x *)
  Lemma rnd_step r xh x e : Rabs (xh - x) <= e -> Rabs (rnd r xh - x) <= e + u * Rabs xh.
  Proof.
    intro H. pose proof (Rabs_triang3 (rnd r xh) xh x). pose proof (rnd_err r xh). lra.
  Qed.

  Lemma abs_le_of_err xh x e : Rabs (xh - x) <= e -> Rabs xh <= Rabs x + e.
  Proof.
    intro H. replace xh with ((xh - x) + x) at 1 by ring.
    pose proof (Rabs_triang (xh - x) x). lra.
  Qed.

  (* product of two truncated values *)
  Lemma prod_err r1 r2 x y :
    Rabs (rnd r1 x * rnd r2 y - x * y) <= 2 * u * (Rabs x * Rabs y).
  Proof.
    replace (rnd r1 x * rnd r2 y - x * y) with ((rnd r1 x - x) * rnd r2 y + x * (rnd r2 y - y)) by ring.
    eapply Rle_trans; [apply Rabs_triang|]. rewrite !Rabs_mult.
    pose proof (rnd_err r1 x). pose proof (rnd_err r2 y). pose proof (rnd_le r2 y).
    pose proof (Rabs_pos x). pose proof (Rabs_pos y). pose proof (Rabs_pos (rnd r2 y)).
    pose proof (Rabs_pos (rnd r1 x - x)). pose proof (Rabs_pos (rnd r2 y - y)). pose proof u_nonneg.
    nra.
  Qed.

  (* ---- componentwise operations: one rounding of an exact function of the sources *)
  Lemma comp1_err rr ri X Y :
    let dr := rnd rr X - X in let di := rnd ri Y - Y in
    dr * dr + di * di <= (u * u) * (X * X + Y * Y).
  Proof.
    intros dr di. subst dr di. apply cmod_from_components.
    - apply u_nonneg.
    - apply rnd_err.
    - apply rnd_err.
  Qed.

  (* ---- schoolbook product, 4 multiplications *)
  Section Mul.
    Variables a b c d : R.
    Let P := (Rabs a + Rabs b) * (Rabs c + Rabs d).
    Let W := u * P.

    Lemma P_nonneg : 0 <= P.
    Proof. unfold P. pose proof (Rabs_pos a). pose proof (Rabs_pos b). pose proof (Rabs_pos c). pose proof (Rabs_pos d). nra. Qed.

    Lemma P_sq : P * P <= 4 * ((a * a + b * b) * (c * c + d * d)).
    Proof.
      unfold P.
      assert (H1 : (Rabs a + Rabs b) * (Rabs a + Rabs b) <= 2 * (a * a + b * b)).
      { pose proof (Rabs_mult_self a). pose proof (Rabs_mult_self b).
        pose proof (sq_nonneg (Rabs a - Rabs b)). nra. }
      assert (H2 : (Rabs c + Rabs d) * (Rabs c + Rabs d) <= 2 * (c * c + d * d)).
      { pose proof (Rabs_mult_self c). pose proof (Rabs_mult_self d).
        pose proof (sq_nonneg (Rabs c - Rabs d)). nra. }
      pose proof (sq_nonneg (Rabs a + Rabs b)). pose proof (sq_nonneg (Rabs c + Rabs d)).
      pose proof (sq_nonneg a). pose proof (sq_nonneg b). pose proof (sq_nonneg c). pose proof (sq_nonneg d).
      replace ((Rabs a + Rabs b) * (Rabs c + Rabs d) * ((Rabs a + Rabs b) * (Rabs c + Rabs d)))
        with (((Rabs a + Rabs b) * (Rabs a + Rabs b)) * ((Rabs c + Rabs d) * (Rabs c + Rabs d))) by ring.
      nra.
    Qed.

    Lemma prods_le_P :
      Rabs (a * c) + Rabs (a * d) + Rabs (b * c) + Rabs (b * d) = P.
    Proof. unfold P. rewrite !Rabs_mult. ring. Qed.

    (* error of the sum/difference of two rounded products, rounded again *)
    Lemma two_prod_err (r1 r2 r3 : reg) x y (sg : R) :
      (sg = 1 \/ sg = -1) ->
      Rabs (rnd r3 (rnd r1 x + sg * rnd r2 y) - (x + sg * y)) <= 2 * u * (Rabs x + Rabs y).
    Proof.
      intros Hsg.
      assert (Hs : Rabs sg = 1) by (destruct Hsg; subst; unfold Rabs; [destruct (Rcase_abs 1) | destruct (Rcase_abs (-1))]; lra).
      set (xh := rnd r1 x + sg * rnd r2 y).
      assert (E : Rabs (xh - (x + sg * y)) <= u * (Rabs x + Rabs y)).
      { unfold xh. replace (rnd r1 x + sg * rnd r2 y - (x + sg * y)) with ((rnd r1 x - x) + sg * (rnd r2 y - y)) by ring.
        eapply Rle_trans; [apply Rabs_triang|]. rewrite Rabs_mult, Hs.
        pose proof (rnd_err r1 x). pose proof (rnd_err r2 y). lra. }
      assert (B : Rabs xh <= Rabs x + Rabs y).
      { unfold xh. eapply Rle_trans; [apply Rabs_triang|]. rewrite Rabs_mult, Hs.
        pose proof (rnd_le r1 x). pose proof (rnd_le r2 y). lra. }
      pose proof (rnd_step r3 xh _ _ E). pose proof u_nonneg. nra.
    Qed.

    Theorem mul4_err (r1 r2 r3 r4 r5 r6 : reg) :
      let re := rnd r5 (rnd r1 (a * c) - rnd r2 (b * d)) in
      let im := rnd r6 (rnd r3 (a * d) + rnd r4 (b * c)) in
      (re - (a * c - b * d)) * (re - (a * c - b * d)) + (im - (a * d + b * c)) * (im - (a * d + b * c))
        <= (6 * u) * (6 * u) * ((a * a + b * b) * (c * c + d * d)).
    Proof.
      intros re im.
      assert (Hre : Rabs (re - (a * c - b * d)) <= 2 * u * (Rabs (a * c) + Rabs (b * d))).
      { unfold re. pose proof (two_prod_err r1 r2 r5 (a * c) (b * d) (-1) (or_intror eq_refl)) as H.
        replace (rnd r1 (a * c) + -1 * rnd r2 (b * d)) with (rnd r1 (a * c) - rnd r2 (b * d)) in H by ring.
        replace (a * c + -1 * (b * d)) with (a * c - b * d) in H by ring. exact H. }
      assert (Him : Rabs (im - (a * d + b * c)) <= 2 * u * (Rabs (a * d) + Rabs (b * c))).
      { unfold im. pose proof (two_prod_err r3 r4 r6 (a * d) (b * c) 1 (or_introl eq_refl)) as H.
        replace (rnd r3 (a * d) + 1 * rnd r4 (b * c)) with (rnd r3 (a * d) + rnd r4 (b * c)) in H by ring.
        replace (a * d + 1 * (b * c)) with (a * d + b * c) in H by ring. exact H. }
      pose proof prods_le_P as HP. pose proof P_nonneg. pose proof P_sq. pose proof u_nonneg.
      pose proof (Rabs_pos (a * c)). pose proof (Rabs_pos (a * d)). pose proof (Rabs_pos (b * c)). pose proof (Rabs_pos (b * d)).
      assert (G1 : Rabs (re - (a * c - b * d)) <= 2 * u * P) by nra.
      assert (G2 : Rabs (im - (a * d + b * c)) <= 2 * u * P) by nra.
      pose proof (sq_abs_le _ _ G1). pose proof (sq_abs_le _ _ G2).
      assert (0 <= u * u) by nra. nra.
    Qed.

    (* the 3-multiplication form used by mpc_mul:
       s1 = a-b; s2 = c+d; s1 = s1*s2; s2 = a*d; s3 = b*c; re = (s1 - s2) + s3; im = s2 + s3 *)
    Theorem mul3_err (r1 r2 r3 r4 r5 r6 r7 r8 : reg) :
      let s1 := rnd r1 (a - b) in let s2 := rnd r2 (c + d) in
      let p1 := rnd r3 (s1 * s2) in let p2 := rnd r4 (a * d) in let p3 := rnd r5 (b * c) in
      let re := rnd r7 (rnd r6 (p1 - p2) + p3) in
      let im := rnd r8 (p2 + p3) in
      (re - (a * c - b * d)) * (re - (a * c - b * d)) + (im - (a * d + b * c)) * (im - (a * d + b * c))
        <= (17 * u) * (17 * u) * ((a * a + b * b) * (c * c + d * d)).
    Proof.
      intros s1 s2 p1 p2 p3 re im.
      pose proof u_nonneg as Hu. pose proof P_nonneg as HP0. pose proof prods_le_P as HP.
      pose proof (Rabs_pos (a * c)). pose proof (Rabs_pos (a * d)). pose proof (Rabs_pos (b * c)). pose proof (Rabs_pos (b * d)).
      set (X1 := a - b) in *. set (X2 := c + d) in *.
      assert (HX : Rabs X1 * Rabs X2 <= P).
      { unfold X1, X2, P. pose proof (Rabs_triang a (- b)) as T1. rewrite Rabs_Ropp in T1.
        pose proof (Rabs_triang c d) as T2. replace (a - b) with (a + - b) by ring.
        pose proof (Rabs_pos (a + - b)). pose proof (Rabs_pos (c + d)).
        pose proof (Rabs_pos a). pose proof (Rabs_pos b). pose proof (Rabs_pos c). pose proof (Rabs_pos d). nra. }
      (* q = s1*s2 *)
      assert (Hq : Rabs (s1 * s2 - X1 * X2) <= 2 * u * P).
      { pose proof (prod_err r1 r2 X1 X2). fold s1 s2 in H3. nra. }
      assert (Bq : Rabs (s1 * s2) <= P).
      { rewrite Rabs_mult. pose proof (rnd_le r1 X1). pose proof (rnd_le r2 X2). fold s1 in H3. fold s2 in H4.
        pose proof (Rabs_pos s1). pose proof (Rabs_pos s2). pose proof (Rabs_pos X1). pose proof (Rabs_pos X2). nra. }
      assert (Hp1 : Rabs (p1 - X1 * X2) <= 3 * u * P).
      { pose proof (rnd_step r3 _ _ _ Hq). fold p1 in H3. nra. }
      assert (Bp1 : Rabs p1 <= P) by (pose proof (rnd_le r3 (s1 * s2)); fold p1 in H3; lra).
      assert (Hp2 : Rabs (p2 - a * d) <= u * Rabs (a * d)) by apply rnd_err.
      assert (Bp2 : Rabs p2 <= Rabs (a * d)) by apply rnd_le.
      assert (Hp3 : Rabs (p3 - b * c) <= u * Rabs (b * c)) by apply rnd_err.
      assert (Bp3 : Rabs p3 <= Rabs (b * c)) by apply rnd_le.
      (* t = p1 - p2 *)
      assert (Ht : Rabs ((p1 - p2) - (X1 * X2 - a * d)) <= 3 * u * P + u * Rabs (a * d)).
      { replace ((p1 - p2) - (X1 * X2 - a * d)) with ((p1 - X1 * X2) + - (p2 - a * d)) by ring.
        eapply Rle_trans; [apply Rabs_triang|]. rewrite Rabs_Ropp. lra. }
      assert (Bt : Rabs (p1 - p2) <= P + Rabs (a * d)).
      { replace (p1 - p2) with (p1 + - p2) by ring. eapply Rle_trans; [apply Rabs_triang|]. rewrite Rabs_Ropp. lra. }
      set (r6v := rnd r6 (p1 - p2)) in *.
      assert (Hr : Rabs (r6v - (X1 * X2 - a * d)) <= 4 * u * P + 2 * u * Rabs (a * d)).
      { pose proof (rnd_step r6 _ _ _ Ht). fold r6v in H3. nra. }
      assert (Br : Rabs r6v <= P + Rabs (a * d)) by (pose proof (rnd_le r6 (p1 - p2)); fold r6v in H3; lra).
      assert (ET : X1 * X2 - a * d + b * c = a * c - b * d) by (unfold X1, X2; ring).
      assert (Hw : Rabs ((r6v + p3) - (a * c - b * d)) <= 4 * u * P + 2 * u * Rabs (a * d) + u * Rabs (b * c)).
      { rewrite <- ET. replace ((r6v + p3) - (X1 * X2 - a * d + b * c)) with ((r6v - (X1 * X2 - a * d)) + (p3 - b * c)) by ring.
        eapply Rle_trans; [apply Rabs_triang|]. lra. }
      assert (Bw : Rabs (r6v + p3) <= P + Rabs (a * d) + Rabs (b * c)).
      { eapply Rle_trans; [apply Rabs_triang|]. lra. }
      assert (Hre : Rabs (re - (a * c - b * d)) <= 8 * u * P).
      { pose proof (rnd_step r7 _ _ _ Hw). fold re in H3. nra. }
      assert (Him : Rabs (im - (a * d + b * c)) <= 2 * u * P).
      { pose proof (two_prod_err r4 r5 r8 (a * d) (b * c) 1 (or_introl eq_refl)) as G.
        replace (rnd r4 (a * d) + 1 * rnd r5 (b * c)) with (p2 + p3) in G by (unfold p2, p3; ring).
        replace (a * d + 1 * (b * c)) with (a * d + b * c) in G by ring. fold im in G. nra. }
      pose proof (sq_abs_le _ _ Hre). pose proof (sq_abs_le _ _ Him). pose proof P_sq.
      pose proof (sq_nonneg u). pose proof (sq_nonneg P).
      assert (E1 : 8 * u * P * (8 * u * P) + 2 * u * P * (2 * u * P) = 68 * ((u * u) * (P * P))) by ring.
      assert (E2 : (u * u) * (P * P) <= (u * u) * (4 * ((a * a + b * b) * (c * c + d * d)))) by (apply Rmult_le_compat_l; lra).
      nra.
    Qed.
  End Mul.

  (* ---- squaring as in mpc_sqr: f = a*b; re = a*a - b*b (each product rounded); im = 2*f *)
  Theorem sqr_err (r1 r2 r3 r4 r5 : reg) a b :
    let re := rnd r4 (rnd r2 (a * a) - rnd r3 (b * b)) in
    let im := rnd r5 (rnd r1 (a * b) * 2) in
    (re - (a * a - b * b)) * (re - (a * a - b * b)) + (im - 2 * (a * b)) * (im - 2 * (a * b))
      <= (3 * u) * (3 * u) * ((a * a + b * b) * (a * a + b * b)).
  Proof.
    intros re im. pose proof u_nonneg as Hu.
    pose proof (sq_nonneg a). pose proof (sq_nonneg b).
    assert (Hre : Rabs (re - (a * a - b * b)) <= 2 * u * (a * a + b * b)).
    { pose proof (two_prod_err r2 r3 r4 (a * a) (b * b) (-1) (or_intror eq_refl)) as G.
      replace (rnd r2 (a * a) + -1 * rnd r3 (b * b)) with (rnd r2 (a * a) - rnd r3 (b * b)) in G by ring.
      replace (a * a + -1 * (b * b)) with (a * a - b * b) in G by ring. fold re in G.
      rewrite (Rabs_right (a * a)) in G by lra. rewrite (Rabs_right (b * b)) in G by lra. exact G. }
    assert (Hab : 2 * Rabs (a * b) <= a * a + b * b).
    { rewrite Rabs_mult. pose proof (sq_nonneg (Rabs a - Rabs b)).
      pose proof (Rabs_mult_self a). pose proof (Rabs_mult_self b). nra. }
    assert (Him : Rabs (im - 2 * (a * b)) <= 2 * u * (a * a + b * b)).
    { set (f := rnd r1 (a * b)) in *.
      assert (E : Rabs (f * 2 - 2 * (a * b)) <= 2 * (u * Rabs (a * b))).
      { replace (f * 2 - 2 * (a * b)) with (2 * (f - a * b)) by ring. rewrite Rabs_mult.
        rewrite (Rabs_right 2) by lra. pose proof (rnd_err r1 (a * b)). fold f in H1. lra. }
      pose proof (rnd_step r5 _ _ _ E) as G. fold im in G.
      assert (Rabs (f * 2) <= 2 * Rabs (a * b)).
      { rewrite Rabs_mult. rewrite (Rabs_right 2) by lra. pose proof (rnd_le r1 (a * b)). fold f in H1. lra. }
      pose proof (Rabs_pos (a * b)). nra. }
    pose proof (sq_abs_le _ _ Hre). pose proof (sq_abs_le _ _ Him).
    pose proof (sq_nonneg u). pose proof (sq_nonneg (a * a + b * b)). nra.
  Qed.

  (* ---- conjugate / negation after a copy: two roundings on the imaginary part *)
  Lemma neg_rnd_err r2 r3 b :
    Rabs (rnd r3 (- rnd r2 b) - (- b)) <= 2 * u * Rabs (- b) /\ Rabs (rnd r3 (- rnd r2 b)) <= Rabs (- b).
  Proof.
    pose proof u_nonneg as Hu. rewrite (Rabs_Ropp b).
    assert (E : Rabs (- rnd r2 b - (- b)) <= u * Rabs b).
    { replace (- rnd r2 b - - b) with (- (rnd r2 b - b)) by ring. rewrite Rabs_Ropp. apply rnd_err. }
    assert (B : Rabs (- rnd r2 b) <= Rabs b) by (rewrite Rabs_Ropp; apply rnd_le).
    split.
    - pose proof (rnd_step r3 _ _ _ E). pose proof (Rabs_pos b). nra.
    - pose proof (rnd_le r3 (- rnd r2 b)). lra.
  Qed.

  Theorem con_err (r1 r2 r3 : reg) a b :
    let re := rnd r1 a in let im := rnd r3 (- rnd r2 b) in
    (re - a) * (re - a) + (im - - b) * (im - - b) <= (2 * u) * (2 * u) * (a * a + - b * - b).
  Proof.
    intros re im. pose proof u_nonneg as Hu.
    apply cmod_from_components; [lra | | apply neg_rnd_err].
    pose proof (rnd_err r1 a). fold re in H. pose proof (Rabs_pos a). nra.
  Qed.

  (* ---- squared modulus as in mpc_smod: nh = rnd (rnd (a*a) + rnd (b*b)) *)
  Lemma smod_bounds (q1 q2 q3 : reg) a b :
    u <= 1 ->
    let n := a * a + b * b in
    let nh := rnd q3 (rnd q1 (a * a) + rnd q2 (b * b)) in
    nh <= n /\ n * ((1 - u) * (1 - u)) <= nh.
  Proof.
    intros Hu1 n nh. pose proof u_nonneg as Hu.
    pose proof (sq_nonneg a) as Ha. pose proof (sq_nonneg b) as Hb.
    assert (T : forall r x, 0 <= x -> x * (1 - u) <= rnd r x <= x).
    { intros r x Hx. pose proof (rnd_err r x) as E. pose proof (rnd_le r x) as L.
      rewrite (Rabs_right x) in E, L by lra.
      split.
      - pose proof (Rle_abs (- (rnd r x - x))). rewrite Rabs_Ropp in H. lra.
      - pose proof (Rle_abs (rnd r x)). lra. }
    destruct (T q1 (a * a) Ha) as [P1 P2]. destruct (T q2 (b * b) Hb) as [Q1 Q2].
    set (p := rnd q1 (a * a)) in *. set (q := rnd q2 (b * b)) in *.
    assert (Hs : 0 <= p + q) by nra.
    destruct (T q3 (p + q) Hs) as [S1 S2]. fold nh in S1, S2.
    split; [unfold n; lra|].
    assert (n * (1 - u) <= p + q) by (unfold n; lra).
    assert (n * (1 - u) * (1 - u) <= (p + q) * (1 - u)) by (apply Rmult_le_compat_r; lra).
    lra.
  Qed.

  Theorem smod_err (q1 q2 q3 : reg) a b :
    u <= 1 ->
    let n := a * a + b * b in
    Rabs (rnd q3 (rnd q1 (a * a) + rnd q2 (b * b)) - n) <= 2 * u * n.
  Proof.
    intros Hu1 n. destruct (smod_bounds q1 q2 q3 a b Hu1) as [B1 B2]. fold n in B1, B2.
    pose proof u_nonneg as Hu. pose proof (sq_nonneg u).
    assert (0 <= n) by (unfold n; pose proof (sq_nonneg a); pose proof (sq_nonneg b); lra).
    assert (0 <= u * n) by (apply Rmult_le_pos; lra).
    assert (0 <= n * (u * u)) by (apply Rmult_le_pos; lra).
    assert (n * ((1 - u) * (1 - u)) = n - 2 * (u * n) + n * (u * u)) by ring.
    apply Rabs_le. split; lra.
  Qed.

  (* modulus as in mpc_mod; the standard model is assumed for mpf_sqrt as for the other primitives *)
  Theorem mod_err (q1 q2 q3 q4 : reg) a b :
    u <= 1 ->
    let n := a * a + b * b in
    Rabs (rnd q4 (sqrt (rnd q3 (rnd q1 (a * a) + rnd q2 (b * b)))) - sqrt n) <= 2 * u * sqrt n.
  Proof.
    intros Hu1 n. destruct (smod_bounds q1 q2 q3 a b Hu1) as [B1 B2]. fold n in B1, B2.
    set (nh := rnd q3 (rnd q1 (a * a) + rnd q2 (b * b))) in *.
    pose proof u_nonneg as Hu.
    assert (Hn : 0 <= n) by (unfold n; pose proof (sq_nonneg a); pose proof (sq_nonneg b); lra).
    assert (U : sqrt nh <= sqrt n) by (apply sqrt_le_1_alt; exact B1).
    assert (L : sqrt n * (1 - u) <= sqrt nh).
    { rewrite <- (sqrt_square (1 - u)) at 1 by lra. rewrite <- sqrt_mult_alt by exact Hn.
      apply sqrt_le_1_alt. exact B2. }
    pose proof (sqrt_pos n). pose proof (sqrt_pos nh).
    assert (E : Rabs (sqrt nh - sqrt n) <= u * sqrt n) by (apply Rabs_le; split; nra).
    pose proof (rnd_step q4 _ _ _ E) as G. rewrite (Rabs_right (sqrt nh)) in G by lra. nra.
  Qed.

  (* ---- one rounded quotient by the rounded squared modulus *)
  Lemma quot_err r x a nh n k :
    0 < n -> 0 < nh -> nh <= n -> n * ((1 - u) * (1 - u)) <= nh -> u <= / 16 -> 0 <= k <= 2 ->
    Rabs (x - a) <= k * u * Rabs a -> Rabs x <= Rabs a ->
    Rabs (rnd r (x / nh) - a / n) <= (k + 4) * u * Rabs (a / n).
  Proof.
    intros Hn Hnh B1 B2 Hu16 Hk Hx Bx. pose proof u_nonneg as Hu.
    set (w := / nh). set (v := / n). set (d := (1 - u) * (1 - u)) in *.
    assert (Hw : 0 < w) by (apply Rinv_0_lt_compat; exact Hnh).
    assert (Hv : 0 < v) by (apply Rinv_0_lt_compat; exact Hn).
    assert (Ew : nh * w = 1) by (unfold w; field; lra).
    assert (Ev : n * v = 1) by (unfold v; field; lra).
    assert (Vw : v <= w) by (apply Rinv_le_contravar; assumption).
    assert (Dw : d * w <= v).
    { assert (G : n * d * (w * v) <= nh * (w * v)) by (apply Rmult_le_compat_r; [apply Rmult_le_pos; lra | exact B2]).
      replace (n * d * (w * v)) with (d * w * (n * v)) in G by ring.
      replace (nh * (w * v)) with (v * (nh * w)) in G by ring. rewrite Ev, Ew in G. lra. }
    assert (Hd : 225 / 256 <= d).
    { unfold d. assert (15 / 16 <= 1 - u) by lra.
      replace (225 / 256) with ((15 / 16) * (15 / 16)) by field. apply Rmult_le_compat; lra. }
    assert (Wv : w - v <= 2 * u * w).
    { assert (w - v <= w - d * w) by lra. assert (w - d * w = (2 * u - u * u) * w) by (unfold d; ring).
      pose proof (sq_nonneg u). assert (0 <= u * u * w) by (apply Rmult_le_pos; lra). lra. }
    unfold Rdiv. fold w v. pose proof (Rabs_pos a) as Pa.
    assert (E : Rabs (x * w - a * v) <= (k + 2) * u * (Rabs a * w)).
    { replace (x * w - a * v) with ((x - a) * w + a * (w - v)) by ring.
      eapply Rle_trans; [apply Rabs_triang|]. rewrite !Rabs_mult.
      rewrite (Rabs_right w) by lra. rewrite (Rabs_right (w - v)) by lra.
      assert (Rabs (x - a) * w <= k * u * Rabs a * w) by (apply Rmult_le_compat_r; lra).
      assert (Rabs a * (w - v) <= Rabs a * (2 * u * w)) by (apply Rmult_le_compat_l; lra).
      lra. }
    pose proof (rnd_step r _ _ _ E) as G.
    assert (Bxw : Rabs (x * w) <= Rabs a * w).
    { rewrite Rabs_mult, (Rabs_right w) by lra. apply Rmult_le_compat_r; lra. }
    rewrite Rabs_mult, (Rabs_right v) by lra.
    assert (Paw : 0 <= Rabs a * w) by (apply Rmult_le_pos; lra).
    assert (S1 : Rabs (rnd r (x * w) - a * v) <= (k + 3) * u * (Rabs a * w)).
    { assert (u * Rabs (x * w) <= u * (Rabs a * w)) by (apply Rmult_le_compat_l; lra). lra. }
    assert (S2 : (k + 3) * w <= (k + 4) * v).
    { assert ((k + 4) * (d * w) <= (k + 4) * v) by (apply Rmult_le_compat_l; lra).
      assert (0 <= ((k + 4) * d - (k + 3)) * w).
      { apply Rmult_le_pos; [|lra]. assert ((k + 4) * (225 / 256) <= (k + 4) * d) by (apply Rmult_le_compat_l; lra). lra. }
      lra. }
    assert (S3 : u * Rabs a * ((k + 3) * w) <= u * Rabs a * ((k + 4) * v)).
    { apply Rmult_le_compat_l; [apply Rmult_le_pos; lra | exact S2]. }
    lra.
  Qed.

  (* ---- reciprocal as in mpc_inv: smod, copy (rounded), negate, two divisions *)
  Theorem inv_err (q1 q2 q3 q4 q5 q6 q7 q8 : reg) a b :
    0 < a * a + b * b -> u <= / 16 ->
    let n := a * a + b * b in
    let nh := rnd q3 (rnd q1 (a * a) + rnd q2 (b * b)) in
    let re := rnd q7 (rnd q4 a / nh) in let im := rnd q8 (rnd q6 (- rnd q5 b) / nh) in
    (re - a / n) * (re - a / n) + (im - - b / n) * (im - - b / n)
      <= (6 * u) * (6 * u) * (a / n * (a / n) + - b / n * (- b / n)).
  Proof.
    intros Hn Hu16 n nh re im. pose proof u_nonneg as Hu.
    destruct (smod_bounds q1 q2 q3 a b ltac:(lra)) as [B1 B2]. fold n nh in B1, B2.
    assert (Hd : 0 < (1 - u) * (1 - u)) by (apply Rmult_lt_0_compat; lra).
    assert (Hnh : 0 < nh).
    { assert (0 < n * ((1 - u) * (1 - u))) by (apply Rmult_lt_0_compat; assumption). lra. }
    apply cmod_from_components; [lra | |].
    - assert (X : Rabs (rnd q4 a - a) <= 1 * u * Rabs a) by (pose proof (rnd_err q4 a); lra).
      pose proof (quot_err q7 (rnd q4 a) a nh n 1 Hn Hnh B1 B2 Hu16 ltac:(lra) X (rnd_le q4 a)) as G.
      fold re in G. pose proof (Rabs_pos (a / n)). nra.
    - destruct (neg_rnd_err q5 q6 b) as [Y1 Y2].
      pose proof (quot_err q8 (rnd q6 (- rnd q5 b)) (- b) nh n 2 Hn Hnh B1 B2 Hu16 ltac:(lra) Y1 Y2) as G.
      fold im in G. lra.
  Qed.

  (* ---- helpers with at most two roundings per component *)
  Lemma one_w r x : Rabs (rnd r x - x) <= 2 * u * Rabs x.
  Proof. pose proof (rnd_err r x). pose proof (Rabs_pos x). pose proof u_nonneg. nra. Qed.
  Lemma exact_w x : Rabs (x - x) <= 2 * u * Rabs x.
  Proof. replace (x - x) with 0 by ring. rewrite Rabs_R0. pose proof (Rabs_pos x). pose proof u_nonneg. nra. Qed.
  Lemma set2_err r1 r2 x : Rabs (rnd r2 (rnd r1 x) - x) <= 2 * u * Rabs x.
  Proof.
    pose proof (rnd_step r2 _ _ _ (rnd_err r1 x)). pose proof (rnd_le r1 x). pose proof u_nonneg.
    pose proof (Rabs_pos x). nra.
  Qed.
  Lemma negset_err r1 r2 x : Rabs (rnd r2 (- rnd r1 x) - - x) <= 2 * u * Rabs (- x).
  Proof. apply neg_rnd_err. Qed.

  (* ---- scaling an approximation by an exact factor m and rounding (mpc_mul_f / mpc_mul_ui after mpc_inv) *)
  Lemma scale_err r xh e m k :
    0 <= k -> k * u <= 1 -> Rabs (xh - e) <= k * u * Rabs e ->
    Rabs (rnd r (xh * m) - e * m) <= (k + 2) * u * Rabs (e * m).
  Proof.
    intros Hk Hku H. pose proof u_nonneg as Hu. pose proof (Rabs_pos e) as Pe. pose proof (Rabs_pos m) as Pm.
    assert (E : Rabs (xh * m - e * m) <= k * u * Rabs e * Rabs m).
    { replace (xh * m - e * m) with ((xh - e) * m) by ring. rewrite Rabs_mult. apply Rmult_le_compat_r; lra. }
    pose proof (rnd_step r _ _ _ E) as G.
    pose proof (abs_le_of_err _ _ _ H) as B.
    assert (B2 : Rabs xh <= 2 * Rabs e).
    { assert (k * u * Rabs e <= 1 * Rabs e) by (apply Rmult_le_compat_r; lra). lra. }
    assert (B3 : Rabs (xh * m) <= 2 * Rabs e * Rabs m) by (rewrite Rabs_mult; apply Rmult_le_compat_r; lra).
    rewrite (Rabs_mult e m).
    assert (u * Rabs (xh * m) <= u * (2 * Rabs e * Rabs m)) by (apply Rmult_le_compat_l; lra).
    lra.
  Qed.

  (* componentwise form of inv_err *)
  Lemma inv_comp (q1 q2 q3 q4 q5 q6 q7 q8 : reg) a b :
    0 < a * a + b * b -> u <= / 16 ->
    let n := a * a + b * b in
    let nh := rnd q3 (rnd q1 (a * a) + rnd q2 (b * b)) in
    let re := rnd q7 (rnd q4 a / nh) in let im := rnd q8 (rnd q6 (- rnd q5 b) / nh) in
    Rabs (re - a / n) <= 6 * u * Rabs (a / n) /\ Rabs (im - - b / n) <= 6 * u * Rabs (- b / n).
  Proof.
    intros Hn Hu16 n nh re im. pose proof u_nonneg as Hu.
    destruct (smod_bounds q1 q2 q3 a b ltac:(lra)) as [B1 B2]. fold n nh in B1, B2.
    assert (Hd : 0 < (1 - u) * (1 - u)) by (apply Rmult_lt_0_compat; lra).
    assert (Hnh : 0 < nh).
    { assert (0 < n * ((1 - u) * (1 - u))) by (apply Rmult_lt_0_compat; assumption). lra. }
    split.
    - assert (X : Rabs (rnd q4 a - a) <= 1 * u * Rabs a) by (pose proof (rnd_err q4 a); lra).
      pose proof (quot_err q7 (rnd q4 a) a nh n 1 Hn Hnh B1 B2 Hu16 ltac:(lra) X (rnd_le q4 a)) as G.
      fold re in G. pose proof (Rabs_pos (a / n)). nra.
    - destruct (neg_rnd_err q5 q6 b) as [Y1 Y2].
      pose proof (quot_err q8 (rnd q6 (- rnd q5 b)) (- b) nh n 2 Hn Hnh B1 B2 Hu16 ltac:(lra) Y1 Y2) as G.
      fold im in G. lra.
  Qed.

  (* mpc_f_div / mpc_ui_div (after the fix): inv, then both components scaled by m *)
  Theorem inv_scale_err (q1 q2 q3 q4 q5 q6 q7 q8 r1 r2 : reg) a b m :
    0 < a * a + b * b -> u <= / 16 ->
    let n := a * a + b * b in
    let nh := rnd q3 (rnd q1 (a * a) + rnd q2 (b * b)) in
    let tr := rnd q7 (rnd q4 a / nh) in let ti := rnd q8 (rnd q6 (- rnd q5 b) / nh) in
    let re := rnd r1 (tr * m) in let im := rnd r2 (ti * m) in
    (re - a / n * m) * (re - a / n * m) + (im - - b / n * m) * (im - - b / n * m)
      <= (8 * u) * (8 * u) * (a / n * m * (a / n * m) + - b / n * m * (- b / n * m)).
  Proof.
    intros Hn Hu16 n nh tr ti re im. pose proof u_nonneg as Hu.
    destruct (inv_comp q1 q2 q3 q4 q5 q6 q7 q8 a b Hn Hu16) as [C1 C2]. fold n nh tr ti in C1, C2.
    apply cmod_from_components; [lra | |].
    - pose proof (scale_err r1 tr (a / n) m 6 ltac:(lra) ltac:(lra) C1). fold re in H. lra.
    - pose proof (scale_err r2 ti (- b / n) m 6 ltac:(lra) ltac:(lra) C2). fold im in H. lra.
  Qed.

  (* ---- mpc_inv2: f = rnd (1 / nh); components multiplied by f *)
  Lemma quot2_err r rf x a nh n k :
    0 < n -> 0 < nh -> nh <= n -> n * ((1 - u) * (1 - u)) <= nh -> u <= / 16 -> 0 <= k <= 2 ->
    Rabs (x - a) <= k * u * Rabs a -> Rabs x <= Rabs a ->
    Rabs (rnd r (x * rnd rf (1 / nh)) - a / n) <= (k + 5) * u * Rabs (a / n).
  Proof.
    intros Hn Hnh B1 B2 Hu16 Hk Hx Bx. pose proof u_nonneg as Hu.
    set (w := / nh). set (v := / n). set (d := (1 - u) * (1 - u)) in *.
    assert (Hw : 0 < w) by (apply Rinv_0_lt_compat; exact Hnh).
    assert (Hv : 0 < v) by (apply Rinv_0_lt_compat; exact Hn).
    assert (Ew : nh * w = 1) by (unfold w; field; lra).
    assert (Ev : n * v = 1) by (unfold v; field; lra).
    assert (Vw : v <= w) by (apply Rinv_le_contravar; assumption).
    assert (Dw : d * w <= v).
    { assert (G : n * d * (w * v) <= nh * (w * v)) by (apply Rmult_le_compat_r; [apply Rmult_le_pos; lra | exact B2]).
      replace (n * d * (w * v)) with (d * w * (n * v)) in G by ring.
      replace (nh * (w * v)) with (v * (nh * w)) in G by ring. rewrite Ev, Ew in G. lra. }
    assert (Hd : 225 / 256 <= d).
    { unfold d. assert (15 / 16 <= 1 - u) by lra.
      replace (225 / 256) with ((15 / 16) * (15 / 16)) by field. apply Rmult_le_compat; lra. }
    assert (Wv : w - v <= 2 * u * w).
    { assert (w - v <= w - d * w) by lra. assert (w - d * w = (2 * u - u * u) * w) by (unfold d; ring).
      pose proof (sq_nonneg u). assert (0 <= u * u * w) by (apply Rmult_le_pos; lra). lra. }
    replace (1 / nh) with w by (unfold w, Rdiv; ring). unfold Rdiv. fold v.
    set (f := rnd rf w).
    assert (F1 : Rabs (f - w) <= u * w) by (pose proof (rnd_err rf w) as G; rewrite (Rabs_right w) in G by lra; exact G).
    assert (F2 : Rabs f <= w) by (pose proof (rnd_le rf w) as G; rewrite (Rabs_right w) in G by lra; exact G).
    assert (F3 : Rabs (f - v) <= 3 * u * w).
    { pose proof (Rabs_triang3 f w v). rewrite (Rabs_right (w - v)) in H by lra. lra. }
    pose proof (Rabs_pos a) as Pa. pose proof (Rabs_pos f) as Pf.
    assert (E : Rabs (x * f - a * v) <= (k + 3) * u * (Rabs a * w)).
    { replace (x * f - a * v) with ((x - a) * f + a * (f - v)) by ring.
      eapply Rle_trans; [apply Rabs_triang|]. rewrite !Rabs_mult.
      assert (Rabs (x - a) * Rabs f <= k * u * Rabs a * w).
      { apply Rmult_le_compat; try lra. apply Rabs_pos. }
      assert (Rabs a * Rabs (f - v) <= Rabs a * (3 * u * w)) by (apply Rmult_le_compat_l; lra).
      lra. }
    pose proof (rnd_step r _ _ _ E) as G.
    assert (Bxf : Rabs (x * f) <= Rabs a * w).
    { rewrite Rabs_mult. apply Rmult_le_compat; try lra. apply Rabs_pos. }
    rewrite Rabs_mult, (Rabs_right v) by lra.
    assert (Paw : 0 <= Rabs a * w) by (apply Rmult_le_pos; lra).
    assert (S1 : Rabs (rnd r (x * f) - a * v) <= (k + 4) * u * (Rabs a * w)).
    { assert (u * Rabs (x * f) <= u * (Rabs a * w)) by (apply Rmult_le_compat_l; lra). lra. }
    assert (S2 : (k + 4) * w <= (k + 5) * v).
    { assert ((k + 5) * (d * w) <= (k + 5) * v) by (apply Rmult_le_compat_l; lra).
      assert (0 <= ((k + 5) * d - (k + 4)) * w).
      { apply Rmult_le_pos; [|lra]. assert ((k + 5) * (225 / 256) <= (k + 5) * d) by (apply Rmult_le_compat_l; lra). lra. }
      lra. }
    assert (S3 : u * Rabs a * ((k + 4) * w) <= u * Rabs a * ((k + 5) * v)).
    { apply Rmult_le_compat_l; [apply Rmult_le_pos; lra | exact S2]. }
    lra.
  Qed.

  Theorem inv2_err (q1 q2 q3 q4 q5 q6 q7 q8 qf : reg) a b :
    0 < a * a + b * b -> u <= / 16 ->
    let n := a * a + b * b in
    let nh := rnd q3 (rnd q1 (a * a) + rnd q2 (b * b)) in
    let f := rnd qf (1 / nh) in
    let re := rnd q7 (rnd q4 a * f) in let im := rnd q8 (rnd q6 (- rnd q5 b) * f) in
    (re - a / n) * (re - a / n) + (im - - b / n) * (im - - b / n)
      <= (7 * u) * (7 * u) * (a / n * (a / n) + - b / n * (- b / n)).
  Proof.
    intros Hn Hu16 n nh f re im. pose proof u_nonneg as Hu.
    destruct (smod_bounds q1 q2 q3 a b ltac:(lra)) as [B1 B2]. fold n nh in B1, B2.
    assert (Hd : 0 < (1 - u) * (1 - u)) by (apply Rmult_lt_0_compat; lra).
    assert (Hnh : 0 < nh).
    { assert (0 < n * ((1 - u) * (1 - u))) by (apply Rmult_lt_0_compat; assumption). lra. }
    apply cmod_from_components; [lra | |].
    - assert (X : Rabs (rnd q4 a - a) <= 1 * u * Rabs a) by (pose proof (rnd_err q4 a); lra).
      pose proof (quot2_err q7 qf (rnd q4 a) a nh n 1 Hn Hnh B1 B2 Hu16 ltac:(lra) X (rnd_le q4 a)) as G.
      fold f re in G. pose proof (Rabs_pos (a / n)). nra.
    - destruct (neg_rnd_err q5 q6 b) as [Y1 Y2].
      pose proof (quot2_err q8 qf (rnd q6 (- rnd q5 b)) (- b) nh n 2 Hn Hnh B1 B2 Hu16 ltac:(lra) Y1 Y2) as G.
      fold f im in G. lra.
  Qed.

  (* ---- quotient as in mpc_div: t = inv (c2); rc = mul (c1, t) (3-multiplication product) *)
  Theorem div_err (q1 q2 q3 q4 q5 q6 q7 q8 r1 r2 r3 r4 r5 r6 r7 r8 : reg) a b c d :
    0 < c * c + d * d -> u <= / 128 ->
    let n := c * c + d * d in
    let nh := rnd q3 (rnd q1 (c * c) + rnd q2 (d * d)) in
    let tr := rnd q7 (rnd q4 c / nh) in let ti := rnd q8 (rnd q6 (- rnd q5 d) / nh) in
    let s1 := rnd r1 (a - b) in let s2 := rnd r2 (tr + ti) in
    let p1 := rnd r3 (s1 * s2) in let p2 := rnd r4 (a * ti) in let p3 := rnd r5 (b * tr) in
    let re := rnd r7 (rnd r6 (p1 - p2) + p3) in
    let im := rnd r8 (p2 + p3) in
    let er := (a * c + b * d) / n in let ei := (b * c - a * d) / n in
    (re - er) * (re - er) + (im - ei) * (im - ei) <= (24 * u) * (24 * u) * (er * er + ei * ei).
  Proof.
    intros Hn Hu n nh tr ti s1 s2 p1 p2 p3 re im er ei. pose proof u_nonneg as Hu0.
    pose proof (inv_err q1 q2 q3 q4 q5 q6 q7 q8 c d Hn ltac:(lra)) as HI. cbv zeta in HI. fold n nh tr ti in HI.
    pose proof (mul3_err a b tr ti r1 r2 r3 r4 r5 r6 r7 r8) as HM. cbv zeta in HM.
    fold s1 s2 p1 p2 p3 re im in HM.
    (* exact product of (a,b) with the computed reciprocal is within 6u of the quotient *)
    assert (HA : (a - a) * (a - a) + (b - b) * (b - b) <= 0 * 0 * (a * a + b * b)) by (right; ring).
    pose proof (vec_mul_close a b a b tr ti (c / n) (- d / n) 0 (6 * u) ltac:(lra) ltac:(lra) HA HI) as HP.
    cbv zeta in HP.
    assert (Er : a * (c / n) - b * (- d / n) = er) by (unfold er, n; field; lra).
    assert (Ei : a * (- d / n) + b * (c / n) = ei) by (unfold ei, n; field; lra).
    rewrite Er, Ei in HP.
    replace (0 * (6 * u + 1) + 6 * u) with (6 * u) in HP by ring.
    assert (HM' : (re - (a * tr - b * ti)) * (re - (a * tr - b * ti)) + (im - (a * ti + b * tr)) * (im - (a * ti + b * tr))
                  <= (17 * u) * (17 * u) * ((a * tr - b * ti) * (a * tr - b * ti) + (a * ti + b * tr) * (a * ti + b * tr))).
    { eapply Rle_trans; [exact HM|]. right. ring. }
    pose proof (vec_round_close re im _ _ er ei (17 * u) (6 * u) ltac:(lra) ltac:(lra) HM' HP) as HR.
    eapply Rle_trans; [exact HR|].
    assert (HE : 0 <= er * er + ei * ei) by (pose proof (sq_nonneg er); pose proof (sq_nonneg ei); lra).
    apply Rmult_le_compat_r; [exact HE|].
    assert (K : 17 * u * (6 * u + 1) + 6 * u <= 24 * u).
    { assert (u * u <= u * / 128) by (apply Rmult_le_compat_l; lra). lra. }
    assert (0 <= 17 * u * (6 * u + 1) + 6 * u) by (pose proof (sq_nonneg u); lra).
    apply Rmult_le_compat; lra.
  Qed.

  (* ---- steps of mpc_pow_si on approximate operands (relative errors k, k1, k2 in modulus, not in units of u) *)
  Theorem pow_sqr_step (r1 r2 r3 r4 r5 : reg) x1 x2 a1 a2 k :
    0 <= k ->
    (x1 - a1) * (x1 - a1) + (x2 - a2) * (x2 - a2) <= (k * k) * (a1 * a1 + a2 * a2) ->
    let re := rnd r4 (rnd r2 (x1 * x1) - rnd r3 (x2 * x2)) in
    let im := rnd r5 (rnd r1 (x1 * x2) * 2) in
    let er := a1 * a1 - a2 * a2 in let ei := a1 * a2 + a2 * a1 in
    let k' := 3 * u * (k * (k + 1) + k + 1) + (k * (k + 1) + k) in
    (re - er) * (re - er) + (im - ei) * (im - ei) <= (k' * k') * (er * er + ei * ei).
  Proof.
    intros Hk Hx re im er ei k'. pose proof u_nonneg as Hu.
    pose proof (vec_mul_close x1 x2 a1 a2 x1 x2 a1 a2 k k Hk Hk Hx Hx) as HP. cbv zeta in HP. fold er ei in HP.
    pose proof (sqr_err r1 r2 r3 r4 r5 x1 x2) as HS. cbv zeta in HS. fold re im in HS.
    assert (HS' : (re - (x1 * x1 - x2 * x2)) * (re - (x1 * x1 - x2 * x2)) + (im - (x1 * x2 + x2 * x1)) * (im - (x1 * x2 + x2 * x1))
                  <= (3 * u) * (3 * u) * ((x1 * x1 - x2 * x2) * (x1 * x1 - x2 * x2) + (x1 * x2 + x2 * x1) * (x1 * x2 + x2 * x1))).
    { eapply Rle_trans; [|eapply Rle_trans; [exact HS|]]; right; ring. }
    assert (0 <= k * (k + 1) + k) by (pose proof (sq_nonneg k); nra).
    exact (vec_round_close re im _ _ er ei (3 * u) (k * (k + 1) + k) ltac:(lra) H HS' HP).
  Qed.

  Theorem pow_mul_step (r1 r2 r3 r4 r5 r6 r7 r8 : reg) x1 x2 a1 a2 y1 y2 b1 b2 k1 k2 :
    0 <= k1 -> 0 <= k2 ->
    (x1 - a1) * (x1 - a1) + (x2 - a2) * (x2 - a2) <= (k1 * k1) * (a1 * a1 + a2 * a2) ->
    (y1 - b1) * (y1 - b1) + (y2 - b2) * (y2 - b2) <= (k2 * k2) * (b1 * b1 + b2 * b2) ->
    let s1 := rnd r1 (x1 - x2) in let s2 := rnd r2 (y1 + y2) in
    let p1 := rnd r3 (s1 * s2) in let p2 := rnd r4 (x1 * y2) in let p3 := rnd r5 (x2 * y1) in
    let re := rnd r7 (rnd r6 (p1 - p2) + p3) in
    let im := rnd r8 (p2 + p3) in
    let er := a1 * b1 - a2 * b2 in let ei := a1 * b2 + a2 * b1 in
    let k' := 17 * u * (k1 * (k2 + 1) + k2 + 1) + (k1 * (k2 + 1) + k2) in
    (re - er) * (re - er) + (im - ei) * (im - ei) <= (k' * k') * (er * er + ei * ei).
  Proof.
    intros H1 H2 Hx Hy s1 s2 p1 p2 p3 re im er ei k'. pose proof u_nonneg as Hu.
    pose proof (vec_mul_close x1 x2 a1 a2 y1 y2 b1 b2 k1 k2 H1 H2 Hx Hy) as HP. cbv zeta in HP. fold er ei in HP.
    pose proof (mul3_err x1 x2 y1 y2 r1 r2 r3 r4 r5 r6 r7 r8) as HM. cbv zeta in HM. fold s1 s2 p1 p2 p3 re im in HM.
    assert (HM' : (re - (x1 * y1 - x2 * y2)) * (re - (x1 * y1 - x2 * y2)) + (im - (x1 * y2 + x2 * y1)) * (im - (x1 * y2 + x2 * y1))
                  <= (17 * u) * (17 * u) * ((x1 * y1 - x2 * y2) * (x1 * y1 - x2 * y2) + (x1 * y2 + x2 * y1) * (x1 * y2 + x2 * y1))).
    { eapply Rle_trans; [exact HM|]. right. ring. }
    assert (0 <= k1 * (k2 + 1) + k2) by (assert (0 <= k1 * (k2 + 1)) by (apply Rmult_le_pos; lra); lra).
    exact (vec_round_close re im _ _ er ei (17 * u) (k1 * (k2 + 1) + k2) ltac:(lra) H HM' HP).
  Qed.
End Std.
