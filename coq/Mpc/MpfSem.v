(* C13 model: GMP mpf registers, straight-line programs of mpf primitives as
   traced from mpc.c, exact and rounded semantics over R.

   What is assumed about GMP (trusted, validated by harness/c13_mpc.c on raw mpf
   calls): every mpf primitive computes the exact real result of its *source
   values as read before the destination is written* and then rounds it into the
   destination by a function [rnd dst] about which the theorems only use the
   "standard model" [std_model] below (relative error <= u, truncation never
   increases the modulus).  With [rnd := fun _ x => x] the same interpreter is the
   exact semantics.  *)
Require Import Reals List ZArith Bool Lra.
Import ListNotations.
Open Scope R_scope.

Inductive reg :=
| RcRe | RcIm            (* destination complex *)
| C1Re | C1Im            (* first complex source *)
| C2Re | C2Im            (* second complex source *)
| F1                     (* mpf argument (source for *_f, destination for smod/mod) *)
| F2                     (* second mpf argument (destination r of the gmptools.c helpers mpf_*_si when r != f) *)
| T (n : nat).           (* temporaries: thread-local cache slots and locals, by address *)

Definition reg_eqb (a b : reg) : bool :=
  match a, b with
  | RcRe, RcRe | RcIm, RcIm | C1Re, C1Re | C1Im, C1Im | C2Re, C2Re | C2Im, C2Im | F1, F1 | F2, F2 => true
  | T n, T m => Nat.eqb n m
  | _, _ => false
  end.

Lemma reg_eqb_spec a b : reflect (a = b) (reg_eqb a b).
Proof.
  destruct a, b; simpl; try (constructor; congruence).
  destruct (Nat.eqb_spec n n0); constructor; congruence.
Qed.

Definition is_temp (r : reg) : bool := match r with T _ => true | _ => false end.

Inductive instr :=
| Iset (d a : reg)              (* mpf_set *)
| Imove (d a : reg)             (* mpf_Move: struct copy, no rounding *)
| Ineg (d a : reg)
| Iabs (d a : reg)
| Isqrt (d a : reg)
| Iadd (d a b : reg)
| Isub (d a b : reg)
| Imul (d a b : reg)
| Idiv (d a b : reg)
| Imul2 (d a : reg) (k : Z)     (* mpf_mul_2exp *)
| Idiv2 (d a : reg) (k : Z)     (* mpf_div_2exp *)
| Iaddui (d a : reg) (n : Z)
| Isubui (d a : reg) (n : Z)
| Iuisub (d : reg) (n : Z) (a : reg)
| Imului (d a : reg) (n : Z)
| Idivui (d a : reg) (n : Z)
| Iuidiv (d : reg) (n : Z) (a : reg)
| Isetui (d : reg) (n : Z)
| Iinit (d : reg)               (* mpf_init2: value 0 *)
| Isetprec (d : reg)            (* mpf_set_prec: value re-rounded *)
| Iclear (d : reg).             (* mpf_clear: register dead; no effect on other registers *)

Definition prog := list instr.
Definition store := reg -> R.

Definition upd (s : store) (d : reg) (v : R) : store :=
  fun r => if reg_eqb r d then v else s r.

Definition two_pow (k : Z) : R := IZR (Z.pow 2 k).

(* destination and exact value (sources read from [s], i.e. before the write) *)
Definition dst_val (s : store) (i : instr) : reg * R * bool (* rounded? *) :=
  match i with
  | Iset d a => (d, s a, true)
  | Imove d a => (d, s a, false)
  | Ineg d a => (d, - s a, true)
  | Iabs d a => (d, Rabs (s a), true)
  | Isqrt d a => (d, sqrt (s a), true)
  | Iadd d a b => (d, s a + s b, true)
  | Isub d a b => (d, s a - s b, true)
  | Imul d a b => (d, s a * s b, true)
  | Idiv d a b => (d, s a / s b, true)
  | Imul2 d a k => (d, s a * two_pow k, true)
  | Idiv2 d a k => (d, s a / two_pow k, true)
  | Iaddui d a n => (d, s a + IZR n, true)
  | Isubui d a n => (d, s a - IZR n, true)
  | Iuisub d n a => (d, IZR n - s a, true)
  | Imului d a n => (d, s a * IZR n, true)
  | Idivui d a n => (d, s a / IZR n, true)
  | Iuidiv d n a => (d, IZR n / s a, true)
  | Isetui d n => (d, IZR n, true)
  | Iinit d => (d, 0, false)
  | Isetprec d => (d, s d, true)
  | Iclear d => (d, s d, false)
  end.

Definition step (rnd : reg -> R -> R) (s : store) (i : instr) : store :=
  match dst_val s i with
  | (d, v, true) => upd s d (rnd d v)
  | (d, v, false) => upd s d v
  end.

Definition run (rnd : reg -> R -> R) (p : prog) (s : store) : store :=
  fold_left (step rnd) p s.

Definition exact : reg -> R -> R := fun _ x => x.

(* the standard model of truncating arithmetic with unit roundoff u
   (GMP mpf with p requested bits: u = 2^(1-p); in fact GMP keeps >= p+64 bits) *)
Definition std_model (rnd : reg -> R -> R) (u : R) : Prop :=
  0 <= u /\ forall r x, Rabs (rnd r x - x) <= u * Rabs x /\ Rabs (rnd r x) <= Rabs x.

Lemma exact_std_model : std_model exact 0.
Proof.
  split; [lra|]. intros r x. unfold exact.
  replace (x - x) with 0 by ring. rewrite Rabs_R0. lra.
Qed.

(* ---------------------------------------------------------------- frame *)
Definition dst_of (i : instr) : reg :=
  match i with
  | Iset d _ | Imove d _ | Ineg d _ | Iabs d _ | Isqrt d _ | Iadd d _ _ | Isub d _ _ | Imul d _ _ | Idiv d _ _
  | Imul2 d _ _ | Idiv2 d _ _ | Iaddui d _ _ | Isubui d _ _ | Iuisub d _ _ | Imului d _ _
  | Idivui d _ _ | Iuidiv d _ _ | Isetui d _ | Iinit d | Isetprec d | Iclear d => d
  end.

Definition written (p : prog) : list reg := map dst_of p.

Lemma dst_val_dst s i : fst (fst (dst_val s i)) = dst_of i.
Proof. destruct i; reflexivity. Qed.

Lemma step_frame rnd s i r : r <> dst_of i -> step rnd s i r = s r.
Proof.
  intro H. unfold step. pose proof (dst_val_dst s i) as E.
  destruct (dst_val s i) as [[d v] b]; simpl in E; subst d.
  destruct b; unfold upd; destruct (reg_eqb_spec r (dst_of i)); congruence.
Qed.

Lemma run_frame rnd p : forall s r, ~ In r (written p) -> run rnd p s r = s r.
Proof.
  induction p as [|i p IH]; intros s r H; simpl; [reflexivity|].
  unfold run in *. simpl. rewrite IH.
  - apply step_frame. intro E. apply H. left. symmetry. exact E.
  - intro E. apply H. right. exact E.
Qed.

Definition mem_reg (r : reg) (l : list reg) : bool := existsb (reg_eqb r) l.

Lemma mem_reg_In r l : mem_reg r l = true -> In r l.
Proof.
  unfold mem_reg. rewrite existsb_exists. intros [x [Hx E]].
  destruct (reg_eqb_spec r x); [subst; auto | discriminate].
Qed.

Definition frame_check (p : prog) (outs : list reg) : bool :=
  forallb (fun w => is_temp w || mem_reg w outs) (written p).

Lemma frame_check_sound rnd p outs :
  frame_check p outs = true ->
  forall s r, is_temp r = false -> ~ In r outs -> run rnd p s r = s r.
Proof.
  intros H s r Ht Ho. apply run_frame. intro Hin.
  unfold frame_check in H. rewrite forallb_forall in H. specialize (H r Hin).
  apply orb_true_iff in H. destruct H as [H|H]; [congruence|].
  apply Ho. apply mem_reg_In. exact H.
Qed.

(* ---------------------------------------------------------------- specifications *)
(* where the C arguments live (aliased arguments share registers) *)
Record args := mkargs { a_rc : reg * reg; a_c1 : reg * reg; a_c2 : reg * reg; a_f : reg; a_h : reg }.

Record spec := mkspec { pre : store -> Prop; outs : list (reg * (store -> R)) }.

Definition exact_ok (p : prog) (sp : spec) : Prop :=
  forall s, pre sp s ->
    Forall (fun de => run exact p s (fst de) = snd de s) (outs sp)
    /\ forall r, is_temp r = false -> ~ In r (map fst (outs sp)) -> run exact p s r = s r.

Definition tt_pre : store -> Prop := fun _ => True.

Section Specs.
  Variable a : args.
  Let rr := fst (a_rc a). Let ri := snd (a_rc a).
  Let xr := fst (a_c1 a). Let xi := snd (a_c1 a).
  Let yr := fst (a_c2 a). Let yi := snd (a_c2 a).
  Let f := a_f a. Let h := a_h a.
  Definition cplx_spec (p : store -> Prop) (re im : store -> R) : spec :=
    mkspec p [(rr, re); (ri, im)].
  Definition nz1 : store -> Prop := fun s => s xr * s xr + s xi * s xi <> 0.
  Definition nz2 : store -> Prop := fun s => s yr * s yr + s yi * s yi <> 0.

  Definition spec_mpc_set := cplx_spec tt_pre (fun s => s xr) (fun s => s xi).
  Definition spec_mpc_set_ui (r i : Z) := cplx_spec tt_pre (fun _ => IZR r) (fun _ => IZR i).
  Definition spec_mpc_neg := cplx_spec tt_pre (fun s => - s xr) (fun s => - s xi).
  Definition spec_mpc_con := cplx_spec tt_pre (fun s => s xr) (fun s => - s xi).
  Definition spec_mpc_rot := cplx_spec tt_pre (fun s => - s xi) (fun s => s xr).
  Definition spec_mpc_flip := cplx_spec tt_pre (fun s => s xi) (fun s => s xr).
  Definition spec_mpc_sqr := cplx_spec tt_pre (fun s => s xr * s xr - s xi * s xi) (fun s => 2 * (s xr * s xi)).
  Definition spec_mpc_inv := cplx_spec nz1
     (fun s => s xr / (s xr * s xr + s xi * s xi)) (fun s => - s xi / (s xr * s xr + s xi * s xi)).
  Definition spec_mpc_inv2 := spec_mpc_inv.
  Definition spec_mpc_smod := mkspec tt_pre [(f, fun s => s xr * s xr + s xi * s xi)].
  Definition spec_mpc_mod := mkspec tt_pre [(f, fun s => sqrt (s xr * s xr + s xi * s xi))].
  Definition spec_mpc_add := cplx_spec tt_pre (fun s => s xr + s yr) (fun s => s xi + s yi).
  Definition spec_mpc_sub := cplx_spec tt_pre (fun s => s xr - s yr) (fun s => s xi - s yi).
  Definition spec_mpc_add_f := cplx_spec tt_pre (fun s => s xr + s f) (fun s => s xi).
  Definition spec_mpc_sub_f := cplx_spec tt_pre (fun s => s xr - s f) (fun s => s xi).
  Definition spec_mpc_f_sub := cplx_spec tt_pre (fun s => s f - s xr) (fun s => - s xi).
  Definition spec_mpc_add_ui (r i : Z) := cplx_spec tt_pre (fun s => s xr + IZR r) (fun s => s xi + IZR i).
  Definition spec_mpc_sub_ui (r i : Z) := cplx_spec tt_pre (fun s => s xr - IZR r) (fun s => s xi - IZR i).
  Definition spec_mpc_ui_sub (r i : Z) := cplx_spec tt_pre (fun s => IZR r - s xr) (fun s => IZR i - s xi).
  Definition spec_mpc_mul := cplx_spec tt_pre
     (fun s => s xr * s yr - s xi * s yi) (fun s => s xr * s yi + s xi * s yr).
  Definition spec_mpc_mul_f := cplx_spec tt_pre (fun s => s xr * s f) (fun s => s xi * s f).
  Definition spec_mpc_mul_ui (n : Z) := cplx_spec tt_pre (fun s => s xr * IZR n) (fun s => s xi * IZR n).
  Definition spec_mpc_mul_2exp (k : Z) := cplx_spec tt_pre (fun s => s xr * two_pow k) (fun s => s xi * two_pow k).
  Definition spec_mpc_div_2exp (k : Z) := cplx_spec tt_pre (fun s => s xr / two_pow k) (fun s => s xi / two_pow k).
  Definition spec_mpc_div := cplx_spec nz2
     (fun s => (s xr * s yr + s xi * s yi) / (s yr * s yr + s yi * s yi))
     (fun s => (s xi * s yr - s xr * s yi) / (s yr * s yr + s yi * s yi)).
  Definition spec_mpc_div_f := cplx_spec (fun s => s f <> 0) (fun s => s xr / s f) (fun s => s xi / s f).
  Definition spec_mpc_f_div := cplx_spec nz1
     (fun s => s f * s xr / (s xr * s xr + s xi * s xi)) (fun s => - (s f * s xi) / (s xr * s xr + s xi * s xi)).
  Definition spec_mpc_div_ui (n : Z) := cplx_spec (fun _ => IZR n <> 0) (fun s => s xr / IZR n) (fun s => s xi / IZR n).
  Definition spec_mpc_ui_div (n : Z) := cplx_spec nz1
     (fun s => IZR n * s xr / (s xr * s xr + s xi * s xi)) (fun s => - (IZR n * s xi) / (s xr * s xr + s xi * s xi)).
  (* c^k as a pair, k >= 0, by repeated complex multiplication *)
  Fixpoint cpow (x y : R) (k : nat) : R * R :=
    match k with O => (1, 0) | S k' => let '(p, q) := cpow x y k' in (p * x - q * y, p * y + q * x) end.
  Definition spec_mpc_pow_si (k : Z) :=
    if (k <? 0)%Z then
      cplx_spec nz1
        (fun s => let d := s xr * s xr + s xi * s xi in fst (cpow (s xr / d) (- s xi / d) (Z.to_nat (- k))))
        (fun s => let d := s xr * s xr + s xi * s xi in snd (cpow (s xr / d) (- s xi / d) (Z.to_nat (- k))))
    else
      cplx_spec tt_pre (fun s => fst (cpow (s xr) (s xi) (Z.to_nat k))) (fun s => snd (cpow (s xr) (s xi) (Z.to_nat k))).
  (* op= forms on c (registers of rc) *)
  Definition spec_mpc_smod_eq := cplx_spec tt_pre (fun s => s xr * s xr + s xi * s xi) (fun _ => 0).
  Definition spec_mpc_mod_eq := cplx_spec tt_pre (fun s => sqrt (s xr * s xr + s xi * s xi)) (fun _ => 0).
  Definition spec_mpc_rot_eq := spec_mpc_rot.
  Definition spec_mpc_flip_eq := spec_mpc_flip.
  (* gmptools.c helpers: destination h (= f when aliased), source f, long argument i *)
  Definition spec_mpf_add_si (i : Z) := mkspec tt_pre [(h, fun s => s f + IZR i)].
  Definition spec_mpf_sub_si (i : Z) := mkspec tt_pre [(h, fun s => s f - IZR i)].
  Definition spec_mpf_si_sub (i : Z) := mkspec tt_pre [(h, fun s => IZR i - s f)].
  Definition spec_mpf_mul_si (i : Z) := mkspec tt_pre [(h, fun s => s f * IZR i)].
  Definition spec_mpf_div_si (i : Z) := mkspec (fun _ => IZR i <> 0) [(h, fun s => s f / IZR i)].
  Definition spec_mpf_si_div (i : Z) := mkspec (fun s => s f <> 0) [(h, fun s => IZR i / s f)].
End Specs.

(* ---------------------------------------------------------------- the fixed tactic *)
Lemma exact_ok_intro p sp :
  frame_check p (map fst (outs sp)) = true ->
  (forall s, pre sp s -> Forall (fun de => run exact p s (fst de) = snd de s) (outs sp)) ->
  exact_ok p sp.
Proof.
  intros Hf Hv s Hp. split; [apply Hv; exact Hp|].
  intros r Ht Ho. apply (frame_check_sound exact p _ Hf s r Ht Ho).
Qed.

Ltac mpf_cbv :=
  cbv -[Rplus Rminus Rmult Rdiv Ropp Rinv sqrt IZR Rabs Rle Rlt Rge Rgt not R1 R0].

Ltac mpf_cbv_in H :=
  cbv -[Rplus Rminus Rmult Rdiv Ropp Rinv sqrt IZR Rabs Rle Rlt Rge Rgt not R1 R0] in H.

Ltac exact_val :=
  first [ reflexivity | ring | (field; auto; fail) | (f_equal; ring)
        | (field; repeat split; auto; try lra; fail) ].

Ltac exact_tac :=
  apply exact_ok_intro;
  [ vm_compute; reflexivity
  | let s := fresh "s" in let H := fresh "Hpre" in
    intros s H; mpf_cbv; mpf_cbv_in H;
    repeat (apply Forall_cons; [ exact_val | ]); apply Forall_nil ].
