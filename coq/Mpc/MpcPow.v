(* C13: mpc_pow_si as a Coq function producing the instruction sequence of the C loop
   (square-and-multiply over the binary expansion of |i|, negative exponents through mpc_inv),
   its traced unrollings as instances, and the rounding-error theorem for every exponent. *)
Require Import Reals List ZArith Lra Lia Bool.
Require Import MPSV.Mpc.MpfSem MPSV.Mpc.MpcErr.
Import ListNotations.
Open Scope R_scope.

(* ---------------------------------------------------------------- complex numbers as pairs *)
Definition C2 := (R * R)%type.
Definition cmul (p q : C2) : C2 := (fst p * fst q - snd p * snd q, fst p * snd q + snd p * fst q).
Definition cn2 (p : C2) : R := fst p * fst p + snd p * snd p.
Definition cinv (a : C2) : C2 := (fst a / cn2 a, - snd a / cn2 a).
Definition cone : C2 := (1, 0).
(* x is within relative error k of a, in modulus (squared form) *)
Definition close (k : R) (x a : C2) : Prop :=
  (fst x - fst a) * (fst x - fst a) + (snd x - snd a) * (snd x - snd a) <= (k * k) * cn2 a.

Lemma cn2_nonneg a : 0 <= cn2 a.
Proof. unfold cn2. pose proof (sq_nonneg (fst a)). pose proof (sq_nonneg (snd a)). lra. Qed.

Lemma close_mono k k' x a : 0 <= k -> k <= k' -> close k x a -> close k' x a.
Proof.
  unfold close. intros H0 H1 H. eapply Rle_trans; [exact H|].
  apply Rmult_le_compat_r; [apply cn2_nonneg|]. apply Rmult_le_compat; lra.
Qed.

(* lower bound on the size of an approximation (reverse triangle inequality) *)
Lemma close_lower k x a : 0 <= k -> k < 1 -> close k x a -> (1 - k) * (1 - k) * cn2 a <= cn2 x.
Proof.
  intros H0 H1 H. pose proof (cn2_nonneg a) as Ha. pose proof (cn2_nonneg x) as Hx.
  destruct (Req_dec (cn2 a) 0) as [Z|NZ]; [rewrite Z; lra|].
  assert (Pa : 0 < cn2 a) by lra.
  set (be := sqrt (cn2 x / cn2 a)).
  assert (Hq : 0 <= cn2 x / cn2 a) by (apply Rmult_le_pos; [lra | left; apply Rinv_0_lt_compat; lra]).
  assert (Hbe : be * be = cn2 x / cn2 a) by (apply sqrt_sqrt; exact Hq).
  assert (Pbe : 0 <= be) by apply sqrt_pos.
  pose proof (vec_tri (fst a) (snd a) (fst x) (snd x) 0 0 k be (cn2 a) H0 Pbe Ha) as T.
  assert (T1 : (fst a - fst x) * (fst a - fst x) + (snd a - snd x) * (snd a - snd x) <= k * k * cn2 a).
  { unfold close in H. eapply Rle_trans; [|exact H]. right. ring. }
  assert (T2 : (fst x - 0) * (fst x - 0) + (snd x - 0) * (snd x - 0) <= be * be * cn2 a).
  { rewrite Hbe. unfold cn2 at 1. right. field. lra. }
  specialize (T T1 T2).
  replace ((fst a - 0) * (fst a - 0) + (snd a - 0) * (snd a - 0)) with (cn2 a) in T by (unfold cn2; ring).
  assert (G : 1 * 1 <= (k + be) * (k + be)).
  { destruct (Rle_lt_dec (1 * 1) ((k + be) * (k + be))) as [L|L]; [exact L|]. exfalso.
    assert ((k + be) * (k + be) * cn2 a < 1 * 1 * cn2 a) by (apply Rmult_lt_compat_r; lra). lra. }
  assert (G1 : 1 <= k + be) by (apply sq_le_le; lra).
  assert (G2 : (1 - k) * (1 - k) <= be * be) by (apply Rmult_le_compat; lra).
  rewrite Hbe in G2.
  assert ((1 - k) * (1 - k) * cn2 a <= cn2 x / cn2 a * cn2 a) by (apply Rmult_le_compat_r; lra).
  replace (cn2 x / cn2 a * cn2 a) with (cn2 x) in H2 by (field; lra). exact H2.
Qed.

(* exact reciprocal of an approximation *)
Lemma cinv_close k x a : 0 <= k -> k < 1 -> 0 < cn2 a -> close k x a -> close (k / (1 - k)) (cinv x) (cinv a).
Proof.
  intros H0 H1 Pa H. pose proof (close_lower k x a H0 H1 H) as L.
  assert (P1k : 0 < (1 - k) * (1 - k)) by (apply Rmult_lt_0_compat; lra).
  assert (Px : 0 < cn2 x).
  { assert (0 < (1 - k) * (1 - k) * cn2 a) by (apply Rmult_lt_0_compat; lra). lra. }
  unfold close in *. set (dl := (fst x - fst a) * (fst x - fst a) + (snd x - snd a) * (snd x - snd a)) in *.
  (* |1/x - 1/a|^2 = |x - a|^2 / (|x|^2 |a|^2) *)
  assert (E : (fst (cinv x) - fst (cinv a)) * (fst (cinv x) - fst (cinv a))
              + (snd (cinv x) - snd (cinv a)) * (snd (cinv x) - snd (cinv a)) = dl / (cn2 x * cn2 a)).
  { unfold cinv, dl; simpl. unfold cn2 in *. field. split; lra. }
  rewrite E.
  assert (Ea : cn2 (cinv a) = / cn2 a).
  { unfold cinv, cn2; simpl. unfold cn2 in Pa. field. lra. }
  rewrite Ea.
  assert (dl / (cn2 x * cn2 a) <= (k * k * cn2 a) / (cn2 x * cn2 a)).
  { apply Rmult_le_compat_r; [left; apply Rinv_0_lt_compat; apply Rmult_lt_0_compat; lra | exact H]. }
  eapply Rle_trans; [exact H2|].
  replace (k * k * cn2 a / (cn2 x * cn2 a)) with (k * k * / cn2 x) by (field; split; lra).
  replace (k / (1 - k) * (k / (1 - k)) * / cn2 a) with (k * k * (/ ((1 - k) * (1 - k) * cn2 a))) by (field; split; lra).
  apply Rmult_le_compat_l; [pose proof (sq_nonneg k); lra|].
  apply Rinv_le_contravar; [apply Rmult_lt_0_compat; lra | exact L].
Qed.

(* ---------------------------------------------------------------- the program of mpc_pow_si *)
(* names of the thread-local slots as the tracer numbers them (order of first use): after an
   mpc_inv (negative exponent) slot 0 is T 3, otherwise T 2 *)
Definition sl (neg : bool) (k : nat) : reg := T ((if neg then 3 else 2) + k).

Definition init_blk (c : reg * reg) : prog := [Iinit (T 0); Iinit (T 1); Iset (T 0) (fst c); Iset (T 1) (snd c)].
Definition inv_blk : prog :=
  [Imul (T 2) (T 0) (T 0); Imul (T 3) (T 1) (T 1); Iadd (T 2) (T 2) (T 3); Iset (T 0) (T 0); Iset (T 1) (T 1);
   Ineg (T 1) (T 1); Idiv (T 0) (T 0) (T 2); Idiv (T 1) (T 1) (T 2)].
Definition copy_blk : prog := [Iset RcRe (T 0); Iset RcIm (T 1)].
Definition one_blk : prog := [Isetui RcRe 1; Isetui RcIm 0].
Definition sqr_blk (neg : bool) : prog :=
  [Imul (sl neg 0) (T 0) (T 1); Imul (T 0) (T 0) (T 0); Imul (T 1) (T 1) (T 1); Isub (T 0) (T 0) (T 1);
   Imul2 (T 1) (sl neg 0) 1].
Definition mul_blk (neg : bool) : prog :=
  [Isub (sl neg 0) RcRe RcIm; Iadd (sl neg 1) (T 0) (T 1); Imul (sl neg 0) (sl neg 0) (sl neg 1);
   Imul (sl neg 1) RcRe (T 1); Imul (sl neg 2) RcIm (T 0); Isub RcRe (sl neg 0) (sl neg 1);
   Iadd RcRe RcRe (sl neg 2); Iadd RcIm (sl neg 1) (sl neg 2)].
Definition clear_blk : prog := [Iclear (T 0); Iclear (T 1)].
Arguments sqr_blk : simpl never.
Arguments mul_blk : simpl never.

(* while (i) { sqr_eq (t); if (i & 1) mul_eq (rc, t); i >>= 1; }   for i = m > 0 *)
Fixpoint loop_prog (neg : bool) (m : positive) : prog :=
  match m with
  | xH => sqr_blk neg ++ mul_blk neg
  | xO m' => sqr_blk neg ++ loop_prog neg m'
  | xI m' => sqr_blk neg ++ mul_blk neg ++ loop_prog neg m'
  end.

Definition body_prog (neg : bool) (n : Z) : prog :=
  match n with
  | Zpos p =>
      match p with
      | xH => copy_blk
      | xO q => one_blk ++ loop_prog neg q
      | xI q => copy_blk ++ loop_prog neg q
      end
  | _ => one_blk
  end.

Definition pow_si_model (c : reg * reg) (i : Z) : prog :=
  init_blk c ++ (if (i <? 0)%Z then inv_blk else []) ++ body_prog (i <? 0)%Z (Z.abs i) ++ clear_blk.

(* exact value computed by the same recursion *)
Fixpoint loop_val (A B : C2) (m : positive) : C2 :=
  match m with
  | xH => cmul A (cmul B B)
  | xO m' => loop_val A (cmul B B) m'
  | xI m' => loop_val (cmul A (cmul B B)) (cmul B B) m'
  end.

Definition body_val (b : C2) (n : Z) : C2 :=
  match n with
  | Zpos p => match p with xH => b | xO q => loop_val cone b q | xI q => loop_val b b q end
  | _ => cone
  end.

Definition pow_si_val (a : C2) (i : Z) : C2 := body_val (if (i <? 0)%Z then cinv a else a) (Z.abs i).

(* ... which is the i-th power: repeated multiplication *)
Fixpoint cpown (b : C2) (k : nat) : C2 := match k with O => cone | S k' => cmul (cpown b k') b end.

Lemma cmul_assoc a b c : cmul (cmul a b) c = cmul a (cmul b c).
Proof. unfold cmul; simpl. f_equal; ring. Qed.
Lemma cmul_comm a b : cmul a b = cmul b a.
Proof. unfold cmul; simpl. f_equal; ring. Qed.
Lemma cmul_one_l a : cmul cone a = a.
Proof. destruct a. unfold cmul, cone; simpl. f_equal; ring. Qed.
Lemma cmul_one_r a : cmul a cone = a.
Proof. rewrite cmul_comm. apply cmul_one_l. Qed.

Lemma cpown_add b n m : cpown b (n + m) = cmul (cpown b n) (cpown b m).
Proof.
  induction m as [|m IH].
  - rewrite Nat.add_0_r. simpl. symmetry. apply cmul_one_r.
  - rewrite Nat.add_succ_r. simpl. rewrite IH. apply cmul_assoc.
Qed.

Lemma cpown_2 b : cpown b 2 = cmul b b.
Proof. change (cpown b 2) with (cmul (cmul cone b) b). rewrite cmul_one_l. reflexivity. Qed.
Lemma cpown_1 b : cpown b 1 = b.
Proof. change (cpown b 1) with (cmul cone b). apply cmul_one_l. Qed.

Lemma cpown_sq b n : cpown (cmul b b) n = cpown b (2 * n).
Proof.
  induction n as [|n IH]; [reflexivity|].
  simpl cpown at 1. rewrite IH. replace (2 * S n)%nat with (2 * n + 2)%nat by lia.
  rewrite cpown_add. f_equal. symmetry. apply cpown_2.
Qed.

Lemma loop_val_pow m : forall A B, loop_val A B m = cmul A (cpown B (2 * Pos.to_nat m)).
Proof.
  induction m as [m IH|m IH|]; intros A B; simpl loop_val.
  - rewrite IH, cpown_sq, cmul_assoc. f_equal.
    rewrite Pos2Nat.inj_xI. replace (2 * S (2 * Pos.to_nat m))%nat with (2 + 2 * (2 * Pos.to_nat m))%nat by lia.
    rewrite cpown_add, cpown_2. reflexivity.
  - rewrite IH, cpown_sq. rewrite Pos2Nat.inj_xO. reflexivity.
  - f_equal. symmetry. apply cpown_2.
Qed.

Theorem pow_si_val_pow a i :
  pow_si_val a i = cpown (if (i <? 0)%Z then cinv a else a) (Z.abs_nat i).
Proof.
  unfold pow_si_val. set (b := if (i <? 0)%Z then cinv a else a).
  rewrite Zabs2Nat.abs_nat_spec.
  destruct (Z.abs i) as [|p|p] eqn:E; try reflexivity.
  - unfold body_val. change (Z.to_nat (Z.pos p)) with (Pos.to_nat p).
    destruct p as [q|q|]; rewrite ?loop_val_pow.
    + rewrite Pos2Nat.inj_xI. replace (S (2 * Pos.to_nat q)) with (1 + 2 * Pos.to_nat q)%nat by lia.
      rewrite cpown_add, cpown_1. reflexivity.
    + rewrite Pos2Nat.inj_xO, cmul_one_l. reflexivity.
    + symmetry. apply cpown_1.
Qed.

(* ---------------------------------------------------------------- rounded semantics of the blocks *)
Lemma run_app rnd p q s : run rnd (p ++ q) s = run rnd q (run rnd p s).
Proof. unfold run. apply fold_left_app. Qed.

Lemma pow_sq x n : (x * x) ^ n = x ^ (2 * n).
Proof.
  induction n as [|n IH]; [reflexivity|].
  replace (2 * S n)%nat with (S (S (2 * n))) by lia. simpl pow at 1. rewrite IH. simpl. ring.
Qed.

Lemma pow_ge_1 x n : 1 <= x -> 1 <= x ^ n.
Proof. intro H. induction n as [|n IH]; simpl; [lra|]. replace 1 with (1 * 1) by ring. apply Rmult_le_compat; lra. Qed.

Definition rcv (s : store) : C2 := (s RcRe, s RcIm).
Definition tv (s : store) : C2 := (s (T 0), s (T 1)).

Section PowStd.
  Variable rnd : reg -> R -> R.
  Variable u : R.
  Hypothesis Hstd : std_model rnd u.
  Let w := 1 + 17 * u.

  Definition sqr_val (neg : bool) (x : C2) : C2 :=
    (rnd (T 0) (rnd (T 0) (fst x * fst x) - rnd (T 1) (snd x * snd x)),
     rnd (T 1) (rnd (sl neg 0) (fst x * snd x) * 2)).

  Definition mul_val (neg : bool) (x y : C2) : C2 :=
    let s1 := rnd (sl neg 0) (fst x - snd x) in let s2 := rnd (sl neg 1) (fst y + snd y) in
    let p1 := rnd (sl neg 0) (s1 * s2) in let p2 := rnd (sl neg 1) (fst x * snd y) in
    let p3 := rnd (sl neg 2) (snd x * fst y) in
    (rnd RcRe (rnd RcRe (p1 - p2) + p3), rnd RcIm (p2 + p3)).

  Lemma run_sqr_blk neg s :
    rcv (run rnd (sqr_blk neg) s) = rcv s /\ tv (run rnd (sqr_blk neg) s) = sqr_val neg (tv s).
  Proof. destruct neg; split; mpf_cbv; reflexivity. Qed.

  Lemma run_mul_blk neg s :
    rcv (run rnd (mul_blk neg) s) = mul_val neg (rcv s) (tv s) /\ tv (run rnd (mul_blk neg) s) = tv s.
  Proof. destruct neg; split; mpf_cbv; reflexivity. Qed.

  Lemma u0 : 0 <= u. Proof. exact (proj1 Hstd). Qed.

  Lemma sqr_g neg x a g :
    1 <= g -> close (g - 1) x a -> close ((1 + 3 * u) * (g * g) - 1) (sqr_val neg x) (cmul a a).
  Proof.
    intros Hg H. unfold close in *.
    pose proof (pow_sqr_step rnd u Hstd (sl neg 0) (T 0) (T 1) (T 0) (T 1) (fst x) (snd x) (fst a) (snd a) (g - 1)
                  ltac:(lra) H) as G. cbv zeta in G.
    replace (3 * u * ((g - 1) * (g - 1 + 1) + (g - 1) + 1) + ((g - 1) * (g - 1 + 1) + (g - 1)))
      with ((1 + 3 * u) * (g * g) - 1) in G by ring.
    exact G.
  Qed.

  Lemma mul_g neg x a y b g1 g2 :
    1 <= g1 -> 1 <= g2 -> close (g1 - 1) x a -> close (g2 - 1) y b ->
    close ((1 + 17 * u) * (g1 * g2) - 1) (mul_val neg x y) (cmul a b).
  Proof.
    intros H1 H2 Hx Hy. unfold close in *.
    pose proof (pow_mul_step rnd u Hstd (sl neg 0) (sl neg 1) (sl neg 0) (sl neg 1) (sl neg 2) RcRe RcRe RcIm
                  (fst x) (snd x) (fst a) (snd a) (fst y) (snd y) (fst b) (snd b) (g1 - 1) (g2 - 1)
                  ltac:(lra) ltac:(lra) Hx Hy) as G. cbv zeta in G.
    replace (17 * u * ((g1 - 1) * (g2 - 1 + 1) + (g2 - 1) + 1) + ((g1 - 1) * (g2 - 1 + 1) + (g2 - 1)))
      with ((1 + 17 * u) * (g1 * g2) - 1) in G by ring.
    exact G.
  Qed.

  Lemma prod_ge_1 x y : 1 <= x -> 1 <= y -> 1 <= x * y.
  Proof. intros. replace 1 with (1 * 1) by ring. apply Rmult_le_compat; lra. Qed.

  (* the loop: rc within gr-1 of A, t within gt-1 of B  ==>  rc within gr*((w gt)^2)^m - 1 of loop_val A B m *)
  Lemma loop_err neg m : forall s A B gr gt,
    1 <= gr -> 1 <= gt -> close (gr - 1) (rcv s) A -> close (gt - 1) (tv s) B ->
    close (gr * ((w * gt) * (w * gt)) ^ (Pos.to_nat m) - 1) (rcv (run rnd (loop_prog neg m) s)) (loop_val A B m).
  Proof.
    pose proof u0 as Hu. assert (Hw : 1 <= w) by (unfold w; lra).
    induction m as [m IH|m IH|]; intros s A B gr gt Hgr Hgt Hr Ht; cbn [loop_prog loop_val].
    - (* bit 1: square, multiply, continue *)
      rewrite !run_app.
      destruct (run_sqr_blk neg s) as [R1 T1]. set (s1 := run rnd (sqr_blk neg) s) in *.
      destruct (run_mul_blk neg s1) as [R2 T2]. set (s2 := run rnd (mul_blk neg) s1) in *.
      set (gtb := w * (gt * gt)).
      assert (Hgtb : 1 <= gtb) by (unfold gtb; apply prod_ge_1; [exact Hw | apply prod_ge_1; lra]).
      assert (Ct : close (gtb - 1) (tv s1) (cmul B B)).
      { rewrite T1. eapply close_mono; [| |apply sqr_g; [exact Hgt | exact Ht]].
        - assert (1 <= (1 + 3 * u) * (gt * gt)) by (apply prod_ge_1; [lra | apply prod_ge_1; lra]). lra.
        - unfold gtb, w. assert (1 <= gt * gt) by (apply prod_ge_1; lra).
          assert ((1 + 3 * u) * (gt * gt) <= (1 + 17 * u) * (gt * gt)) by (apply Rmult_le_compat_r; lra). lra. }
      assert (Cr : close (gr * ((w * gt) * (w * gt)) - 1) (rcv s2) (cmul A (cmul B B))).
      { rewrite R2, R1. replace (gr * (w * gt * (w * gt))) with ((1 + 17 * u) * (gr * gtb)) by (unfold gtb, w; ring).
        apply mul_g; assumption. }
      assert (Hq : 1 <= (w * gt) * (w * gt)) by (apply prod_ge_1; apply prod_ge_1; lra).
      pose proof (IH s2 (cmul A (cmul B B)) (cmul B B) (gr * ((w * gt) * (w * gt))) gtb
                    ltac:(apply prod_ge_1; lra) Hgtb Cr) as G.
      assert (Ct2 : close (gtb - 1) (tv s2) (cmul B B)) by (rewrite T2; exact Ct).
      specialize (G Ct2).
      replace (gr * (w * gt * (w * gt)) ^ Pos.to_nat m~1)
        with (gr * (w * gt * (w * gt)) * (w * gtb * (w * gtb)) ^ Pos.to_nat m); [exact G|].
      rewrite Pos2Nat.inj_xI. replace (w * gtb * (w * gtb)) with ((w * gt * (w * gt)) * (w * gt * (w * gt))) by (unfold gtb; ring).
      rewrite pow_sq. simpl pow. ring.
    - (* bit 0: square, continue *)
      rewrite run_app.
      destruct (run_sqr_blk neg s) as [R1 T1]. set (s1 := run rnd (sqr_blk neg) s) in *.
      set (gtb := w * (gt * gt)).
      assert (Hgtb : 1 <= gtb) by (unfold gtb; apply prod_ge_1; [exact Hw | apply prod_ge_1; lra]).
      assert (Ct : close (gtb - 1) (tv s1) (cmul B B)).
      { rewrite T1. eapply close_mono; [| |apply sqr_g; [exact Hgt | exact Ht]].
        - assert (1 <= (1 + 3 * u) * (gt * gt)) by (apply prod_ge_1; [lra | apply prod_ge_1; lra]). lra.
        - unfold gtb, w. assert (1 <= gt * gt) by (apply prod_ge_1; lra).
          assert ((1 + 3 * u) * (gt * gt) <= (1 + 17 * u) * (gt * gt)) by (apply Rmult_le_compat_r; lra). lra. }
      assert (Cr : close (gr - 1) (rcv s1) A) by (rewrite R1; exact Hr).
      pose proof (IH s1 A (cmul B B) gr gtb Hgr Hgtb Cr Ct) as G.
      replace (gr * (w * gt * (w * gt)) ^ Pos.to_nat m~0) with (gr * (w * gtb * (w * gtb)) ^ Pos.to_nat m); [exact G|].
      rewrite Pos2Nat.inj_xO. replace (w * gtb * (w * gtb)) with ((w * gt * (w * gt)) * (w * gt * (w * gt))) by (unfold gtb; ring).
      rewrite pow_sq. reflexivity.
    - (* last bit *)
      rewrite run_app.
      destruct (run_sqr_blk neg s) as [R1 T1]. set (s1 := run rnd (sqr_blk neg) s) in *.
      destruct (run_mul_blk neg s1) as [R2 T2].
      set (gtb := w * (gt * gt)).
      assert (Hgtb : 1 <= gtb) by (unfold gtb; apply prod_ge_1; [exact Hw | apply prod_ge_1; lra]).
      assert (Ct : close (gtb - 1) (tv s1) (cmul B B)).
      { rewrite T1. eapply close_mono; [| |apply sqr_g; [exact Hgt | exact Ht]].
        - assert (1 <= (1 + 3 * u) * (gt * gt)) by (apply prod_ge_1; [lra | apply prod_ge_1; lra]). lra.
        - unfold gtb, w. assert (1 <= gt * gt) by (apply prod_ge_1; lra).
          assert ((1 + 3 * u) * (gt * gt) <= (1 + 17 * u) * (gt * gt)) by (apply Rmult_le_compat_r; lra). lra. }
      rewrite R2, R1. change (Pos.to_nat 1) with 1%nat.
      replace (gr * (w * gt * (w * gt)) ^ 1) with ((1 + 17 * u) * (gr * gtb)) by (unfold gtb, w; simpl; ring).
      apply mul_g; assumption.
  Qed.
End PowStd.

(* (1+x)^N - 1 <= 2 N x  while  N x <= 1/2 *)
Lemma pow_bound x N : 0 <= x -> INR N * x <= / 2 -> (1 + x) ^ N - 1 <= 2 * INR N * x.
Proof.
  intros Hx Ht.
  assert (P : forall n, (1 + x) ^ n * (1 - INR n * x) <= 1).
  { induction n as [|n IH]; [simpl; lra|].
    rewrite S_INR. simpl pow.
    assert (Hp : 0 <= (1 + x) ^ n) by (apply pow_le; lra).
    assert (H1 : (1 + x) * (1 - (INR n + 1) * x) <= 1 - INR n * x).
    { pose proof (pos_INR n). assert (0 <= (INR n + 1) * (x * x)) by (apply Rmult_le_pos; [lra | apply sq_nonneg]). nra. }
    replace ((1 + x) * (1 + x) ^ n * (1 - (INR n + 1) * x)) with ((1 + x) ^ n * ((1 + x) * (1 - (INR n + 1) * x))) by ring.
    eapply Rle_trans; [apply Rmult_le_compat_l; [exact Hp | exact H1] | exact IH]. }
  specialize (P N). set (t := INR N * x) in *. set (y := (1 + x) ^ N) in *.
  assert (0 <= t) by (apply Rmult_le_pos; [apply pos_INR | exact Hx]).
  assert (H1 : 1 <= (1 + 2 * t) * (1 - t)) by (pose proof (sq_nonneg t); nra).
  assert (H2 : y * (1 - t) <= (1 + 2 * t) * (1 - t)) by lra.
  apply Rmult_le_reg_r in H2; [|lra]. replace (2 * INR N * x) with (2 * t) by (unfold t; ring). lra.
Qed.

Definition csrc (alias : bool) : reg * reg := if alias then (RcRe, RcIm) else (C1Re, C1Im).
Definition cval (alias : bool) (s : store) : C2 := (s (fst (csrc alias)), s (snd (csrc alias))).

Section PowTop.
  Variable rnd : reg -> R -> R.
  Variable u : R.
  Hypothesis Hstd : std_model rnd u.
  Hypothesis Hu16 : u <= / 16.
  Let w := 1 + 17 * u.

  Lemma close_round d k r p e : 0 <= d -> 0 <= k -> close d r p -> close k p e -> close (d * (k + 1) + k) r e.
  Proof. intros Hd Hk H1 H2. unfold close in *. apply (vec_round_close _ _ (fst p) (snd p)); assumption. Qed.

  Lemma close_rnd2 r1 r2 x : close u (rnd r1 (fst x), rnd r2 (snd x)) x.
  Proof. unfold close, cn2; simpl. apply (comp1_err rnd u Hstd). Qed.

  Definition inv_val (x : C2) : C2 :=
    let nh := rnd (T 2) (rnd (T 2) (fst x * fst x) + rnd (T 3) (snd x * snd x)) in
    (rnd (T 0) (rnd (T 0) (fst x) / nh), rnd (T 1) (rnd (T 1) (- rnd (T 1) (snd x)) / nh)).

  Lemma run_init alias s : tv (run rnd (init_blk (csrc alias)) s) = (rnd (T 0) (fst (cval alias s)), rnd (T 1) (snd (cval alias s))).
  Proof. destruct alias; mpf_cbv; reflexivity. Qed.
  Lemma run_inv s : tv (run rnd inv_blk s) = inv_val (tv s).
  Proof. mpf_cbv; reflexivity. Qed.
  Lemma run_one s : rcv (run rnd one_blk s) = (rnd RcRe 1, rnd RcIm 0) /\ tv (run rnd one_blk s) = tv s.
  Proof. split; mpf_cbv; reflexivity. Qed.
  Lemma run_copy s : rcv (run rnd copy_blk s) = (rnd RcRe (fst (tv s)), rnd RcIm (snd (tv s))) /\ tv (run rnd copy_blk s) = tv s.
  Proof. split; mpf_cbv; reflexivity. Qed.
  Lemma run_clear s : rcv (run rnd clear_blk s) = rcv s.
  Proof. mpf_cbv; reflexivity. Qed.

  Lemma Hu0 : 0 <= u. Proof. exact (proj1 Hstd). Qed.
  Lemma Hw1 : 1 <= w. Proof. pose proof Hu0. unfold w. lra. Qed.

  (* the rounded reciprocal of an approximation within u of a: within 17u of 1/a *)
  Lemma inv_stage x a : 0 < cn2 a -> close u x a -> close (w - 1) (inv_val x) (cinv a).
  Proof.
    intros Pa H. pose proof Hu0 as Hu.
    pose proof (close_lower u x a Hu ltac:(lra) H) as L.
    assert (Px : 0 < cn2 x).
    { assert (0 < (1 - u) * (1 - u)) by (apply Rmult_lt_0_compat; lra).
      assert (0 < (1 - u) * (1 - u) * cn2 a) by (apply Rmult_lt_0_compat; lra). lra. }
    assert (I1 : close (6 * u) (inv_val x) (cinv x)).
    { unfold close, cinv, cn2, inv_val; simpl. unfold cn2 in Px.
      apply (inv_err rnd u Hstd (T 2) (T 3) (T 2) (T 0) (T 1) (T 1) (T 0) (T 1) (fst x) (snd x) Px Hu16). }
    pose proof (cinv_close u x a Hu ltac:(lra) Pa H) as I2.
    assert (K2 : u / (1 - u) <= 2 * u).
    { unfold Rdiv. assert (/ (1 - u) <= / (/ 2)) by (apply Rinv_le_contravar; lra).
      rewrite Rinv_inv in H0. assert (u * / (1 - u) <= u * 2) by (apply Rmult_le_compat_l; lra). lra. }
    assert (K0 : 0 <= u / (1 - u)) by (apply Rmult_le_pos; [lra | left; apply Rinv_0_lt_compat; lra]).
    eapply close_mono; [| | apply (close_round (6 * u) (u / (1 - u)) _ _ _ ltac:(lra) K0 I1 I2)].
    - assert (0 <= 6 * u * (u / (1 - u) + 1)) by (apply Rmult_le_pos; lra). lra.
    - unfold w. assert (6 * u * (u / (1 - u) + 1) <= 6 * u * (2 * u + 1)) by (apply Rmult_le_compat_l; lra).
      assert (u * u <= u * / 16) by (apply Rmult_le_compat_l; lra). lra.
  Qed.

  Lemma grow gr q n : 1 <= gr -> gr <= w * w -> (4 * q <= 2 * n)%nat ->
    0 <= gr * ((w * w) * (w * w)) ^ q - 1 /\ gr * ((w * w) * (w * w)) ^ q - 1 <= w ^ (2 * n + 2) - 1.
  Proof.
    intros H1 H2 Hq. pose proof Hw1 as Hw.
    rewrite pow_sq, pow_sq.
    assert (P1 : 1 <= w ^ (2 * (2 * q))) by (apply pow_ge_1; exact Hw).
    split.
    - assert (1 * 1 <= gr * w ^ (2 * (2 * q))) by (apply Rmult_le_compat; lra). lra.
    - assert (gr * w ^ (2 * (2 * q)) <= (w * w) * w ^ (2 * (2 * q))) by (apply Rmult_le_compat_r; lra).
      assert ((w * w) * w ^ (2 * (2 * q)) = w ^ (2 * (2 * q) + 2)) by (rewrite pow_add; simpl; ring).
      assert (w ^ (2 * (2 * q) + 2) <= w ^ (2 * n + 2)) by (apply Rle_pow; [exact Hw | lia]).
      lra.
  Qed.

  Lemma body_err neg n s b :
    close (w - 1) (tv s) b ->
    close (w ^ (2 * Z.to_nat n + 2) - 1) (rcv (run rnd (body_prog neg n) s)) (body_val b n).
  Proof.
    intros Ht. pose proof Hu0 as Hu. pose proof Hw1 as Hw.
    assert (One : forall s0, close (w - 1) (rcv (run rnd one_blk s0)) cone).
    { intros s0. destruct (run_one s0) as [R _]. rewrite R.
      eapply close_mono; [exact Hu | unfold w; lra | apply (close_rnd2 RcRe RcIm cone)]. }
    assert (Copy : forall s0, close (w - 1) (tv s0) b -> close (w * w - 1) (rcv (run rnd copy_blk s0)) b).
    { intros s0 H0. destruct (run_copy s0) as [R _]. rewrite R.
      pose proof (close_round u (w - 1) _ _ _ Hu ltac:(lra) (close_rnd2 RcRe RcIm (tv s0)) H0) as G.
      eapply close_mono; [| | exact G].
      - assert (0 <= u * (w - 1 + 1)) by (apply Rmult_le_pos; lra). lra.
      - unfold w. assert (0 <= u * u) by apply sq_nonneg. nra. }
    assert (W2 : w <= w * w) by nra.
    destruct n as [|p|p]; cbn [body_prog body_val].
    - destruct (grow w 0 0 Hw W2 ltac:(lia)) as [G0 G1]. simpl pow in G0, G1 at 1.
      eapply close_mono; [| | apply One]; [lra|]. simpl Z.to_nat. lra.
    - change (Z.to_nat (Z.pos p)) with (Pos.to_nat p).
      destruct p as [q|q|]; cbn [body_prog body_val].
      + rewrite run_app. destruct (run_copy s) as [_ Tc].
        pose proof (loop_err rnd u Hstd neg q (run rnd copy_blk s) b b (w * w) w ltac:(lra) Hw
                      ltac:(replace (w * w - 1) with (w * w - 1) by ring; apply Copy; exact Ht)
                      ltac:(rewrite Tc; exact Ht)) as G.
        destruct (grow (w * w) (Pos.to_nat q) (Pos.to_nat q~1) ltac:(nra) ltac:(lra) ltac:(rewrite Pos2Nat.inj_xI; lia)) as [G0 G1].
        eapply close_mono; [exact G0 | exact G1 | exact G].
      + rewrite run_app. destruct (run_one s) as [_ Tc].
        pose proof (loop_err rnd u Hstd neg q (run rnd one_blk s) cone b w w Hw Hw (One s)
                      ltac:(rewrite Tc; exact Ht)) as G.
        destruct (grow w (Pos.to_nat q) (Pos.to_nat q~0) Hw W2 ltac:(rewrite Pos2Nat.inj_xO; lia)) as [G0 G1].
        eapply close_mono; [exact G0 | exact G1 | exact G].
      + destruct (grow (w * w) 0 1 ltac:(nra) ltac:(lra) ltac:(lia)) as [G0 G1]. simpl pow in G0, G1 at 1.
        eapply close_mono; [| | apply Copy; exact Ht]; [lra|]. change (Pos.to_nat 1) with 1%nat. lra.
    - destruct (grow w 0 0 Hw W2 ltac:(lia)) as [G0 G1]. simpl pow in G0, G1 at 1.
      eapply close_mono; [| | apply One]; [lra|]. simpl Z.to_nat. lra.
  Qed.

  (* mpc_pow_si, every exponent: |res - c^i| <= 68 (|i|+1) u |c^i|  while  34 (|i|+1) u <= 1/2 *)
  Theorem pow_si_model_err alias i s :
    ((i < 0)%Z -> 0 < cn2 (cval alias s)) ->
    17 * INR (2 * Z.abs_nat i + 2) * u <= / 2 ->
    close (34 * INR (2 * Z.abs_nat i + 2) * u)
          (rcv (run rnd (pow_si_model (csrc alias) i) s)) (pow_si_val (cval alias s) i).
  Proof.
    intros Hnz Hsmall. pose proof Hu0 as Hu. pose proof Hw1 as Hw.
    unfold pow_si_model, pow_si_val. rewrite !run_app, run_clear.
    set (s0 := run rnd (init_blk (csrc alias)) s).
    assert (T0c : close u (tv s0) (cval alias s)).
    { unfold s0. rewrite run_init. apply close_rnd2. }
    set (neg := (i <? 0)%Z) in *.
    set (s1 := run rnd (if neg then inv_blk else []) s0).
    assert (T1c : close (w - 1) (tv s1) (if neg then cinv (cval alias s) else cval alias s)).
    { unfold s1. destruct neg eqn:E.
      - rewrite run_inv. apply inv_stage; [apply Hnz; apply Z.ltb_lt; exact E | exact T0c].
      - simpl. eapply close_mono; [exact Hu | unfold w; lra | exact T0c]. }
    pose proof (body_err neg (Z.abs i) s1 _ T1c) as G.
    replace (Z.to_nat (Z.abs i)) with (Z.abs_nat i) in G by (first [apply Zabs2Nat.abs_nat_spec | symmetry; apply Zabs2Nat.abs_nat_spec]).
    eapply close_mono; [| | exact G].
    - assert (1 <= w ^ (2 * Z.abs_nat i + 2)) by (apply pow_ge_1; exact Hw). lra.
    - pose proof (pow_bound (17 * u) (2 * Z.abs_nat i + 2) ltac:(lra)) as B. fold w in B.
      replace (INR (2 * Z.abs_nat i + 2) * (17 * u)) with (17 * INR (2 * Z.abs_nat i + 2) * u) in B by ring.
      specialize (B Hsmall). lra.
  Qed.
End PowTop.
