(* C13: the gmptools.c helpers mpf_add_si, mpf_sub_si, mpf_si_sub, mpf_mul_si, mpf_div_si, mpf_si_div
   as Coq functions of the long argument, following the C text branch by branch:

     if (i >= 0) mpf_OP_ui (r, f, i);                       (long -> unsigned long conversion: i mod 2^64)
     else { mpf_OP_ui (r, f, -(unsigned long) i); [mpf_neg (r, r);] }    (negation modulo 2^64)

   Each function returns the instruction sequence of Mpc/MpfSem.v that the call executes; destination r
   and source f are arbitrary registers (r = f is the aliased call).  Proved for EVERY long i, LONG_MIN
   included (where -(unsigned long) i = 2^63 = |i| although -i would overflow): exact value from the initial
   source, frame, and the 1u / 2u error bounds under the standard model.  The programs traced from the
   current gmptools.c (Gen/MpcGen.v) are instances (Mpc/MpcProps.v: si_instances). *)
Require Import Reals List ZArith Lra Lia Bool.
Require Import MPSV.Mpc.MpfSem MPSV.Mpc.MpcErr.
Import ListNotations.
Open Scope R_scope.

Definition LONG_MIN : Z := (- 2 ^ 63)%Z.
Definition LONG_MAX : Z := (2 ^ 63 - 1)%Z.
Definition is_long (i : Z) : Prop := (LONG_MIN <= i <= LONG_MAX)%Z.

(* C semantics of the two integer operations the helpers use *)
Definition to_ulong (i : Z) : Z := (i mod 2 ^ 64)%Z.            (* (unsigned long) i, also the implicit conversion of the argument *)
Definition uneg (n : Z) : Z := ((- n) mod 2 ^ 64)%Z.            (* unary minus on an unsigned long *)
Definition umag (i : Z) : Z := uneg (to_ulong i).               (* -(unsigned long) i *)

Inductive si_op := AddSi | SubSi | SiSub | MulSi | DivSi | SiDiv.

(* the instruction sequence executed by mpf_<op> (r, f, i) *)
Definition si_model (op : si_op) (r f : reg) (i : Z) : prog :=
  if (0 <=? i)%Z then
    match op with
    | AddSi => [Iaddui r f (to_ulong i)]
    | SubSi => [Isubui r f (to_ulong i)]
    | SiSub => [Iuisub r (to_ulong i) f]
    | MulSi => [Imului r f (to_ulong i)]
    | DivSi => [Idivui r f (to_ulong i)]
    | SiDiv => [Iuidiv r (to_ulong i) f]
    end
  else
    match op with
    | AddSi => [Isubui r f (umag i)]
    | SubSi => [Iaddui r f (umag i)]
    | SiSub => [Iaddui r f (umag i); Ineg r r]
    | MulSi => [Imului r f (umag i); Ineg r r]
    | DivSi => [Idivui r f (umag i); Ineg r r]
    | SiDiv => [Iuidiv r (umag i) f; Ineg r r]
    end.

(* the mathematical result, as a function of the source VALUE and the long *)
Definition si_val (op : si_op) (x : R) (i : Z) : R :=
  match op with
  | AddSi => x + IZR i | SubSi => x - IZR i | SiSub => IZR i - x
  | MulSi => x * IZR i | DivSi => x / IZR i | SiDiv => IZR i / x
  end.

(* what the C caller must guarantee (GMP raises SIGFPE otherwise) *)
Definition si_pre (op : si_op) (x : R) (i : Z) : Prop :=
  match op with DivSi => i <> 0%Z | SiDiv => x <> 0 | _ => True end.

(* number of modelled roundings on the path *)
Definition si_k (op : si_op) : R := match op with AddSi | SubSi => 1 | _ => 2 end.

Lemma to_ulong_nonneg i : is_long i -> (0 <= i)%Z -> to_ulong i = i.
Proof.
  unfold is_long, LONG_MIN, LONG_MAX, to_ulong. intros H H0.
  apply Z.mod_small. assert (2 ^ 63 < 2 ^ 64)%Z by (apply Z.pow_lt_mono_r; lia). lia.
Qed.

(* the point of the unsigned negation: correct magnitude for every negative long, LONG_MIN included *)
Lemma umag_neg i : is_long i -> (i < 0)%Z -> umag i = (- i)%Z.
Proof.
  unfold is_long, LONG_MIN, LONG_MAX, umag, uneg, to_ulong. intros H H0.
  assert (E : (2 ^ 64 = 2 * 2 ^ 63)%Z) by (change 64%Z with (Z.succ 63); rewrite Z.pow_succ_r by lia; reflexivity).
  assert (P : (0 < 2 ^ 63)%Z) by (apply Z.pow_pos_nonneg; lia).
  assert (E1 : (i mod 2 ^ 64 = i + 2 ^ 64)%Z).
  { symmetry. apply (Z.mod_unique_pos i (2 ^ 64) (-1) (i + 2 ^ 64)); lia. }
  rewrite E1. symmetry. apply (Z.mod_unique_pos (- (i + 2 ^ 64)) (2 ^ 64) (-1) (- i)); lia.
Qed.

Lemma umag_long_min : umag LONG_MIN = (2 ^ 63)%Z.
Proof. vm_compute. reflexivity. Qed.

Lemma reg_eqb_refl r : reg_eqb r r = true.
Proof. destruct (reg_eqb_spec r r); congruence. Qed.

Lemma upd_same s r v : upd s r v r = v.
Proof. unfold upd. rewrite reg_eqb_refl. reflexivity. Qed.

Lemma upd_other s r v x : x <> r -> upd s r v x = s x.
Proof. unfold upd. intro H. destruct (reg_eqb_spec x r); congruence. Qed.

(* ---------------------------------------------------------------- frame: nothing but r is written *)
Lemma si_written op r f i : forall w, In w (written (si_model op r f i)) -> w = r.
Proof.
  intros w. unfold si_model. destruct (0 <=? i)%Z; destruct op; simpl; intuition congruence.
Qed.

Theorem si_frame rnd op r f i s x : x <> r -> run rnd (si_model op r f i) s x = s x.
Proof.
  intro H. apply run_frame. intro Hin. apply H. exact (si_written op r f i x Hin).
Qed.

(* ---------------------------------------------------------------- value of the destination, any rounding *)
(* one-instruction paths: rnd r (exact value);  two-instruction paths: rnd r (- rnd r (value of the unsigned op)) *)
Lemma si_run_nonneg rnd op r f i s : is_long i -> (0 <= i)%Z ->
  run rnd (si_model op r f i) s r = rnd r (si_val op (s f) i).
Proof.
  intros Hl H0. unfold si_model. apply Z.leb_le in H0. rewrite H0. apply Z.leb_le in H0.
  rewrite (to_ulong_nonneg i Hl H0).
  destruct op; unfold run, step; simpl; rewrite upd_same; reflexivity.
Qed.

Lemma si_run_neg rnd op r f i s : is_long i -> (i < 0)%Z ->
  run rnd (si_model op r f i) s r =
  match op with
  | AddSi => rnd r (s f - IZR (- i))
  | SubSi => rnd r (s f + IZR (- i))
  | SiSub => rnd r (- rnd r (s f + IZR (- i)))
  | MulSi => rnd r (- rnd r (s f * IZR (- i)))
  | DivSi => rnd r (- rnd r (s f / IZR (- i)))
  | SiDiv => rnd r (- rnd r (IZR (- i) / s f))
  end.
Proof.
  intros Hl H0. unfold si_model.
  assert (E : (0 <=? i)%Z = false) by (apply Z.leb_gt; exact H0). rewrite E.
  rewrite (umag_neg i Hl H0).
  destruct op; unfold run, step; simpl; rewrite ?upd_same; reflexivity.
Qed.

Lemma IZR_neg_nz i : (i < 0)%Z -> IZR i <> 0.
Proof. intro H. apply not_0_IZR. lia. Qed.

(* the exact value on the negative path, in terms of i *)
Lemma si_neg_val op x i : (i < 0)%Z -> si_pre op x i ->
  si_val op x i =
  match op with
  | AddSi => x - IZR (- i) | SubSi => x + IZR (- i)
  | SiSub => - (x + IZR (- i)) | MulSi => - (x * IZR (- i))
  | DivSi => - (x / IZR (- i)) | SiDiv => - (IZR (- i) / x)
  end.
Proof.
  intros H0 Hp. pose proof (IZR_neg_nz i H0) as Hn. rewrite opp_IZR.
  destruct op; simpl in *; try ring; field; auto.
Qed.

(* ---------------------------------------------------------------- exactness (roundings off) *)
Theorem si_exact op r f i s : is_long i -> si_pre op (s f) i ->
  run exact (si_model op r f i) s r = si_val op (s f) i.
Proof.
  intros Hl Hp. destruct (Z_lt_le_dec i 0) as [H0|H0].
  - rewrite (si_run_neg exact op r f i s Hl H0), (si_neg_val op (s f) i H0 Hp).
    destruct op; unfold exact; reflexivity.
  - rewrite (si_run_nonneg exact op r f i s Hl H0). reflexivity.
Qed.

(* ---------------------------------------------------------------- error bounds *)
Theorem si_err rnd u (H : std_model rnd u) op r f i s : is_long i -> si_pre op (s f) i ->
  Rabs (run rnd (si_model op r f i) s r - si_val op (s f) i) <= si_k op * u * Rabs (si_val op (s f) i).
Proof.
  intros Hl Hp. pose proof (u_nonneg rnd u H) as Hu.
  assert (W : forall x, Rabs (rnd r x - x) <= 1 * u * Rabs x) by (intro x; rewrite Rmult_1_l; apply (rnd_err rnd u H)).
  assert (W2 : forall x, Rabs (rnd r x - x) <= 2 * u * Rabs x) by (intro x; apply (one_w rnd u H)).
  destruct (Z_lt_le_dec i 0) as [H0|H0].
  - rewrite (si_run_neg rnd op r f i s Hl H0), (si_neg_val op (s f) i H0 Hp).
    destruct op; unfold si_k; try apply W; apply (negset_err rnd u H).
  - rewrite (si_run_nonneg rnd op r f i s Hl H0).
    destruct op; unfold si_k; first [ apply W | apply W2 ].
Qed.

(* on the non-negative path, and for add/sub on both, a single rounding *)
Theorem si_err_one rnd u (H : std_model rnd u) op r f i s : is_long i -> (0 <= i)%Z ->
  Rabs (run rnd (si_model op r f i) s r - si_val op (s f) i) <= u * Rabs (si_val op (s f) i).
Proof.
  intros Hl H0. rewrite (si_run_nonneg rnd op r f i s Hl H0). apply (rnd_err rnd u H).
Qed.

(* what the pre-9a47815e text `-i` (negation in long) would give: no value at LONG_MIN (signed overflow);
   the model of that text as a partial function, and the witness *)
Definition long_neg (i : Z) : option Z := if (i =? LONG_MIN)%Z then None else Some (- i)%Z.

Lemma long_neg_long_min_undefined : long_neg LONG_MIN = None.
Proof. reflexivity. Qed.

Lemma long_neg_defined i : is_long i -> i <> LONG_MIN -> exists j, long_neg i = Some j /\ is_long j.
Proof.
  unfold is_long, long_neg, LONG_MIN, LONG_MAX. intros H N.
  destruct (Z.eqb_spec i (- 2 ^ 63)) as [E|E]; [contradiction|].
  exists (- i)%Z. split; [reflexivity|lia].
Qed.

(* non-vacuity *)
Example si_model_long_min : si_model MulSi F1 F1 LONG_MIN = [Imului F1 F1 9223372036854775808; Ineg F1 F1].
Proof. vm_compute. reflexivity. Qed.
