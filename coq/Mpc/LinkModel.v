(* C13: link.c (mpf_get_rdpe, mpf_set_rdpe, and through them mpc_get_cdpe / mpc_set_cdpe) and the
   gmptools.c pair mpf_get_2dl / mpf_set_2dl (mpf_size_2), modelled statement by statement over Z on
   GMP's limb layout.  Definitions only; the proofs are in Mpc/LinkProofs.v.

   An mpf_t is the struct {_mp_prec, _mp_size, _mp_exp, _mp_d}: |_mp_size| limbs of 64 bits, least
   significant first, top limb non-zero, value  sign(_mp_size) * D * 2^(64 * (_mp_exp - |_mp_size|))
   where D is the integer written by the limbs.  A double is a sign, a 53-bit integer mantissa and a
   binary exponent in IEEE-canonical form (or zero / infinity).  long arithmetic that leaves
   [-2^63, 2^63) is undefined behaviour ([UB]), as in C.

   What is hand-transcribed from GMP 6 (and tied bit for bit to the installed library by the check, not
   proved): mpf_get_d / mpn_get_d (truncation, infinity on overflow, denormals, +0 on underflow),
   mpf_set_d / __gmp_extract_double (always two limbs), mpf_mul_2exp, mpf_div_2exp (limb shifts, at most
   prec+1 limbs kept), mpf_get_d_2exp; and glibc's frexp. *)
Require Import ZArith List Bool.
Import ListNotations.
Open Scope Z_scope.

Definition LMIN : Z := - 2 ^ 63.
Definition LMAX : Z := 2 ^ 63 - 1.
Definition in_long (z : Z) : bool := (LMIN <=? z) && (z <=? LMAX).

Inductive ub :=
| UbMul      (* signed overflow in `e * mp_bits_per_limb` (link.c / gmptools.c) *)
| UbAdd      (* signed overflow in `e * mp_bits_per_limb + i` (gmptools.c mpf_get_2dl) *)
| UbNeg      (* signed overflow in `-rdpe_Esp (e)` / `-l` *)
| UbGmp      (* signed overflow inside GMP (mpf_get_d: (EXP - size) * 64; mpf_get_d_2exp: EXP * 64 - cnt) *)
| UbNanInf.  (* mpf_set_d of an infinity: GMP raises an invalid-operation exception *)

Inductive res (A : Type) := Ok (a : A) | UB (u : ub).
Arguments Ok {A} a. Arguments UB {A} u.

Definition lmul (a b : Z) : res Z := if in_long (a * b) then Ok (a * b) else UB UbMul.
Definition ladd (a b : Z) : res Z := if in_long (a + b) then Ok (a + b) else UB UbAdd.
Definition lneg (a : Z) : res Z := if in_long (- a) then Ok (- a) else UB UbNeg.

(* ---------------------------------------------------------------- data *)
Record mpf := mkmpf { m_prec : Z; m_size : Z; m_exp : Z; m_d : Z }.
Definition m_n (f : mpf) : Z := Z.abs (m_size f).
Definition m_neg (f : mpf) : bool := m_size f <? 0.
Definition set_exp (f : mpf) (e : Z) : mpf := mkmpf (m_prec f) (m_size f) e (m_d f).

(* invariant of GMP's mpf layout (mpf_init2 gives _mp_prec >= 2 limbs, an int, and allocates _mp_prec + 1) *)
Definition wf_mpf (f : mpf) : bool :=
  (2 <=? m_prec f) && (m_prec f <? 2 ^ 31) && (m_n f <=? m_prec f + 1) &&
  (if m_size f =? 0 then m_d f =? 0
   else (2 ^ (64 * (m_n f - 1)) <=? m_d f) && (m_d f <? 2 ^ (64 * m_n f))).

Inductive dbl := DZero | DFin (neg : bool) (m e : Z) | DInf (neg : bool).
(* IEEE-canonical finite non-zero double: m * 2^e with 2^52 <= m < 2^53, -1074 <= e <= 971, or a subnormal *)
Definition canon_dbl (d : dbl) : bool :=
  match d with
  | DFin _ m e => ((2 ^ 52 <=? m) && (m <? 2 ^ 53) && (-1074 <=? e) && (e <=? 971))
                  || ((0 <? m) && (m <? 2 ^ 52) && (e =? -1074))
  | _ => true
  end.
Definition dbl_neg (d : dbl) : bool := match d with DFin s _ _ | DInf s => s | DZero => false end.

Definition bitlen (m : Z) : Z := Z.log2 m + 1.

(* the top 53 bits of m > 0: (q, k) with 2^52 <= q < 2^53 and q * 2^k <= m < (q + 1) * 2^k  (k < 0: exact) *)
Definition norm53 (m : Z) : Z * Z :=
  let k := bitlen m - 53 in
  if 0 <=? k then (m / 2 ^ k, k) else (m * 2 ^ (- k), k).

(* ---------------------------------------------------------------- GMP: mpf -> double *)
(* mpn_get_d (ptr, size, sign, ex0): D * 2^ex0 truncated towards zero to a double *)
Definition mpn_get_d (D : Z) (neg : bool) (ex0 : Z) : dbl :=
  let '(q, k) := norm53 D in
  let p := ex0 + k + 52 in                 (* D * 2^ex0 in [2^p, 2^(p+1)) *)
  if 1024 <=? p then DInf neg
  else if -1022 <=? p then DFin neg q (ex0 + k)
  else if p <=? -1075 then DZero
  else DFin neg (q / 2 ^ (-1022 - p)) (-1074).

Definition mpf_get_d (f : mpf) : res dbl :=
  if m_size f =? 0 then Ok DZero
  else let ex0 := (m_exp f - m_n f) * 64 in
       if in_long ex0 then Ok (mpn_get_d (m_d f) (m_neg f) ex0) else UB UbGmp.

(* mpf_get_d_2exp (&l, f): mantissa in [1/2, 1) and exponent *)
Definition mpf_get_d_2exp (f : mpf) : res (dbl * Z) :=
  if m_size f =? 0 then Ok (DZero, 0)
  else let cnt := 64 * m_n f - bitlen (m_d f) in
       let l := m_exp f * 64 - cnt in
       if in_long (m_exp f * 64) && in_long l
       then Ok (mpn_get_d (m_d f) (m_neg f) (- (m_n f * 64 - cnt)), l) else UB UbGmp.

(* ---------------------------------------------------------------- libm / mt.c *)
(* frexp: mantissa in [1/2, 1) (canonical 53-bit form) and the int exponent; frexp (inf) keeps inf (exponent unspecified: 0) *)
Definition frexp (d : dbl) : dbl * Z :=
  match d with
  | DZero => (DZero, 0)
  | DInf s => (DInf s, 0)
  | DFin s m e => let l := bitlen m in (DFin s (m * 2 ^ (53 - l)) (-53), e + l)
  end.

Definition rdpe := (dbl * Z)%type.        (* rdpe_Mnt, rdpe_Esp *)

(* mt.c rdpe_set_esp (e, a, b, sub) on an rdpe whose mantissa is already set *)
Definition rdpe_set_esp (mnt : dbl) (a b : Z) (sub : bool) : rdpe :=
  match mnt with
  | DZero => (DZero, 0)
  | _ =>
    let over := if sub then (b <? 0) && (LMAX + b <? a) else (0 <? b) && (LMAX - b <? a) in
    let under := if sub then (0 <? b) && (a <? LMIN + b) else (b <? 0) && (a <? LMIN - b) in
    if over || under then (DFin (dbl_neg mnt) (2 ^ 52) (-53), if over then LMAX else LMIN)
    else (mnt, if sub then a - b else a + b)
  end.

(* rdpe_set_2dl (e, d, l): Mnt = d; Esp = l; rdpe_Norm: Mnt = frexp (Mnt, &i); rdpe_set_esp (e, Esp, i, 0) *)
Definition rdpe_set_2dl (d : dbl) (l : Z) : rdpe :=
  let '(m, i) := frexp d in rdpe_set_esp m l i false.
Definition rdpe_set_d (d : dbl) : rdpe := rdpe_set_2dl d 0.

(* ---------------------------------------------------------------- link.c: mpf_get_rdpe
     esp = f->_mp_exp;  f->_mp_exp = 0;  rdpe_set_2dl (e, mpf_get_d (f), esp * mp_bits_per_limb);  f->_mp_exp = esp;
   result: the rdpe, the source struct after the call, the values stored into f->_mp_exp (writes to the SOURCE) *)
Definition mpf_get_rdpe (f : mpf) : res (rdpe * mpf * list Z) :=
  let esp := m_exp f in
  let f0 := set_exp f 0 in
  match mpf_get_d f0 with
  | UB u => UB u
  | Ok d =>
    match lmul esp 64 with
    | UB u => UB u
    | Ok l => Ok (rdpe_set_2dl d l, set_exp f0 esp, [0; esp])
    end
  end.

(* gmptools.c: mpf_get_2dl (&d, &l, f)
     e = f->_mp_exp; f->_mp_exp = 0; t = mpf_get_d (f); f->_mp_exp = e; *d = frexp (t, &i); *l = e * mp_bits_per_limb + i; *)
Definition mpf_get_2dl (f : mpf) : res (dbl * Z * mpf * list Z) :=
  let e := m_exp f in
  let f0 := set_exp f 0 in
  match mpf_get_d f0 with
  | UB u => UB u
  | Ok t =>
    let f1 := set_exp f0 e in
    let '(d, i) := frexp t in
    match lmul e 64 with
    | UB u => UB u
    | Ok a => match ladd a i with UB u => UB u | Ok l => Ok (d, l, f1, [0; e]) end
    end
  end.

Definition mpf_size_2 (f : mpf) : res Z :=
  match mpf_get_2dl f with UB u => UB u | Ok (_, l, _, _) => Ok l end.

(* the proposed rewrite (fixes/C13_mpf_get_rdpe_no_source_write.patch, C13_mpf_get_2dl_no_source_write.patch):
     d = mpf_get_d_2exp (&l, f); rdpe_set_2dl (e, d, l);          no store into *f *)
Definition mpf_get_rdpe_fixed (f : mpf) : res rdpe :=
  match mpf_get_d_2exp f with UB u => UB u | Ok (d, l) => Ok (rdpe_set_2dl d l) end.
Definition mpf_get_2dl_fixed (f : mpf) : res (dbl * Z) := mpf_get_d_2exp f.

(* ---------------------------------------------------------------- GMP: double -> mpf, shifts *)
(* __gmp_extract_double: the two limbs (as one integer) and the limb exponent of m * 2^e *)
Definition extract_double (m e : Z) : Z * Z :=
  let l := bitlen m in
  let manl := m * 2 ^ (64 - l) in          (* mantissa aligned to the top of a limb *)
  let E := e + l in                        (* m * 2^e = 0.1xxx * 2^E *)
  let sc := (E - 1) mod 64 + 1 in          (* 1..64 *)
  (manl * 2 ^ sc, (E - 1) / 64 + 1).

Definition mpf_set_d (prec : Z) (d : dbl) : res mpf :=
  match d with
  | DZero => Ok (mkmpf prec 0 0 0)
  | DInf _ => UB UbNanInf
  | DFin s m e => let '(D, ex) := extract_double m e in Ok (mkmpf prec (if s then -2 else 2) ex D)
  end.

Definition signed (neg : bool) (n : Z) : Z := if neg then - n else n.

(* mpf_mul_2exp (f, f, k), k : mp_bitcnt_t *)
Definition mpf_mul_2exp (f : mpf) (k : Z) : mpf :=
  if m_size f =? 0 then mkmpf (m_prec f) 0 0 0
  else
    let n := m_n f in let prec := m_prec f in
    if k mod 64 =? 0 then
      let n' := Z.min n (prec + 1) in
      mkmpf prec (signed (m_neg f) n') (m_exp f + k / 64) (m_d f / 2 ^ (64 * (n - n')))
    else
      let n' := Z.min n prec in
      let full := (m_d f / 2 ^ (64 * (n - n'))) * 2 ^ (k mod 64) in
      let adj := if 2 ^ (64 * n') <=? full then 1 else 0 in
      mkmpf prec (signed (m_neg f) (n' + adj)) (m_exp f + k / 64 + adj) full.

Definition mpf_div_2exp (f : mpf) (k : Z) : mpf :=
  if m_size f =? 0 then mkmpf (m_prec f) 0 0 0
  else
    let n := m_n f in let prec := m_prec f in
    if k mod 64 =? 0 then
      let n' := Z.min n (prec + 1) in
      mkmpf prec (signed (m_neg f) n') (m_exp f - k / 64) (m_d f / 2 ^ (64 * (n - n')))
    else
      let n' := Z.min n prec in
      let full := (m_d f / 2 ^ (64 * (n - n'))) * 2 ^ (64 - k mod 64) in
      let adj := if 2 ^ (64 * n') <=? full then 1 else 0 in
      mkmpf prec (signed (m_neg f) (n' + adj)) (m_exp f - k / 64 - 1 + adj) full.

(* ---------------------------------------------------------------- link.c: mpf_set_rdpe / gmptools.c: mpf_set_2dl
     mpf_set_d (f, rdpe_Mnt (e));
     if (rdpe_Esp (e) >= 0) mpf_mul_2exp (f, f, rdpe_Esp (e)); else mpf_div_2exp (f, f, -rdpe_Esp (e));
   prec: _mp_prec of the destination (its previous value is not read) *)
Definition mpf_set_2dl (prec : Z) (d : dbl) (l : Z) : res mpf :=
  match mpf_set_d prec d with
  | UB u => UB u
  | Ok f =>
    if 0 <=? l then Ok (mpf_mul_2exp f l)
    else match lneg l with UB u => UB u | Ok k => Ok (mpf_div_2exp f k) end
  end.
Definition mpf_set_rdpe (prec : Z) (e : rdpe) : res mpf := mpf_set_2dl prec (fst e) (snd e).

(* with the negation done in unsigned long (fixes/C13_set_rdpe_long_min.patch, C13_gmptools_long_min_negations.patch) *)
Definition mpf_set_2dl_fixed (prec : Z) (d : dbl) (l : Z) : res mpf :=
  match mpf_set_d prec d with
  | UB u => UB u
  | Ok f => if 0 <=? l then Ok (mpf_mul_2exp f l) else Ok (mpf_div_2exp f ((- (l mod 2 ^ 64)) mod 2 ^ 64))
  end.

(* ---------------------------------------------------------------- link.c: the complex layer (component by component, real part first)
     mpc_get_cdpe: mpf_get_rdpe (Re); mpf_get_rdpe (Im);     mpc_set_cdpe: mpf_set_rdpe (Re); mpf_set_rdpe (Im);
     mpc_get_cplx: mpf_get_d (Re), mpf_get_d (Im);           mpc_set_cplx: mpf_set_d (Re); mpf_set_d (Im) *)
Definition mpc := (mpf * mpf)%type.

Definition mpc_get_cdpe (c : mpc) : res ((rdpe * rdpe) * mpc * list Z) :=
  match mpf_get_rdpe (fst c) with
  | UB u => UB u
  | Ok (r1, f1, w1) =>
    match mpf_get_rdpe (snd c) with
    | UB u => UB u
    | Ok (r2, f2, w2) => Ok ((r1, r2), (f1, f2), w1 ++ w2)
    end
  end.

Definition mpc_set_cdpe (prec : Z) (c : rdpe * rdpe) : res mpc :=
  match mpf_set_rdpe prec (fst c) with
  | UB u => UB u
  | Ok f1 => match mpf_set_rdpe prec (snd c) with UB u => UB u | Ok f2 => Ok (f1, f2) end
  end.

Definition mpc_get_cplx (c : mpc) : res (dbl * dbl) :=
  match mpf_get_d (fst c) with
  | UB u => UB u
  | Ok d1 => match mpf_get_d (snd c) with UB u => UB u | Ok d2 => Ok (d1, d2) end
  end.

Definition mpc_set_cplx (prec : Z) (d : dbl * dbl) : res mpc :=
  match mpf_set_d prec (fst d) with
  | UB u => UB u
  | Ok f1 => match mpf_set_d prec (snd d) with UB u => UB u | Ok f2 => Ok (f1, f2) end
  end.

(* ---------------------------------------------------------------- IEEE-754 binary64 encodings (for the differential driver) *)
Definition dbl_of_bits (b : Z) : dbl :=
  let s := 2 ^ 63 <=? b in
  let ex := (b / 2 ^ 52) mod 2 ^ 11 in
  let fr := b mod 2 ^ 52 in
  if ex =? 2047 then DInf s                      (* NaNs are not generated *)
  else if ex =? 0 then (if fr =? 0 then DZero else DFin s fr (-1074))
  else DFin s (fr + 2 ^ 52) (ex - 1075).

Definition bits_of_dbl (d : dbl) : Z :=
  match d with
  | DZero => 0
  | DInf s => (if s then 2 ^ 63 else 0) + 2047 * 2 ^ 52
  | DFin s m e =>
    (if s then 2 ^ 63 else 0) +
    (if m <? 2 ^ 52 then m else (e + 1075) * 2 ^ 52 + (m - 2 ^ 52))
  end.
