(* Soundness of the queries answered on a checked certificate
   (count_bounds, cover, all_covered, sides, real_roots of Cert.v). *)
From Coq Require Import ZArith List.
From mathcomp Require Import all_ssreflect all_algebra.
From mathcomp Require Import polyorder ssrZ zify ring.
From MPSV Require Import Roots.GaussZ Roots.PolyZ Roots.Cert.
From MPSV Require Import Roots.NewtonDisc Roots.Isolate Roots.Bridge Roots.CertSound.
Set Implicit Arguments. Unset Strict Implicit. Unset Printing Implicit Defensive.
Import Order.TTheory GRing.Theory Num.Theory.
Local Open Scope ring_scope.

Arguments zsq : simpl never.
Arguments gnorm2 : simpl never.

Section QuerySound.
Variable C : numClosedFieldType.
Notation Z2C := (@Z2C C).
Notation G2C := (@G2C C).
Notation R2C := (@R2C C).
Notation disc2C := (@disc2C C).
Notation rdisc2C := (@rdisc2C C).
Notation tiny2C := (@tiny2C C).
Notation Z2C_gt0 := (@Z2C_gt0 C).
Notation Z2C_ge0 := (@Z2C_ge0 C).
Notation Z2C_le := (@Z2C_le C).
Notation Z2C_lt := (@Z2C_lt C).
Notation disc_wfP := (@disc_wfP C).

(* ---------- geometry of the two tests ---------- *)
Lemma inside_in t q z : disc_wf t -> disc_wf q -> disc_inside t q ->
  in_disc (disc2C t) z -> in_disc (disc2C q) z.
Proof.
move=> wt wq /(@disc_insideP C _ _ wt wq) H; rewrite /in_disc => Hz.
apply: le_trans H; rewrite distrC.
by apply: le_trans (ler_dist_add (disc2C t).1 _ _) _; rewrite addrC ler_add // distrC.
Qed.

Lemma disjoint_out t q z : disc_wf t -> disc_wf q -> disc_disjoint t q ->
  in_disc (disc2C t) z -> in_disc (disc2C q) z -> False.
Proof.
move=> wt wq /(@disc_disjointP C _ _ wt wq) H tz qz.
by move: (@disjoint_neq C _ _ _ _ H tz qz); rewrite eqxx.
Qed.

(* ---------- counting ---------- *)
Definition tl2C (tl : list (nat * disc)) : seq (nat * (C * C)) :=
  [seq (mt.1, disc2C mt.2) | mt <- tl].

Lemma sum_mult_lo (test : disc -> bool) (D : pred C) (tl : list (nat * disc)) zs :
  all (disc_wf \o snd) tl -> all2 (@in_tdisc C) (tl2C tl) zs ->
  (forall t z, disc_wf t -> test t -> in_disc (disc2C t) z -> D z) ->
  (sum_mult test tl <= \sum_(mz <- zip (tl2C tl) zs | D mz.2) mz.1.1)%N.
Proof.
move=> wf dzs H; elim: tl zs wf dzs => [|[m t] tl IH] [|z zs] //= /andP [wt wf] /andP [tz dzs].
rewrite big_cons /=; case E: (test t).
  by rewrite (H t z wt E tz) leq_add2l IH.
by case: (D z); rewrite ?(leq_trans (IH _ wf dzs)) ?leq_addl // IH.
Qed.

Lemma sum_mult_hi (test : disc -> bool) (D : pred C) (tl : list (nat * disc)) zs :
  all (disc_wf \o snd) tl -> all2 (@in_tdisc C) (tl2C tl) zs ->
  (forall t z, disc_wf t -> D z -> in_disc (disc2C t) z -> test t) ->
  (\sum_(mz <- zip (tl2C tl) zs | D mz.2) mz.1.1 <= sum_mult test tl)%N.
Proof.
move=> wf dzs H; elim: tl zs wf dzs => [|[m t] tl IH] [|z zs] //=; rewrite ?big_nil //.
move=> /andP [wt wf] /andP [tz dzs]; rewrite big_cons /=.
case E: (D z); first by rewrite (H t z wt E tz) leq_add2l IH.
by case: (test t); rewrite ?(leq_trans (IH _ wf dzs)) ?leq_addl // IH.
Qed.

(* Any complete factorisation  P = a * prod_(z <- rs) (X - z)  lists the roots of P
   with multiplicity; count (in_disc D) rs is the number of roots in the closed disc D. *)
Theorem count_bounds_sound (P : list rcoef) (ct : cert) (q : rdisc) lo hi (a : C) rs :
  cert_check P ct = true -> count_bounds ct q = (lo, hi) ->
  R2C P = a *: \prod_(z <- rs) ('X - z%:P) ->
  (lo <= count (in_disc (rdisc2C q)) rs <= hi)%N.
Proof.
move=> /(@cert_sound C) [zs [Pn0 dzs _ _ wf _ HP]] Hq Hrs.
rewrite (count_located _ Pn0 HP Hrs).
move: Hq; rewrite /count_bounds; case Eq: (mkdisc q) => [d|] [<- <-]; last first.
  by rewrite leq0n /=; apply: sum_mult_hi.
have [wd Ed] := @mkdiscP C _ _ Eq.
rewrite -Ed /count_bounds_disc; apply/andP; split.
  by apply: sum_mult_lo => // t z wt; apply: inside_in.
apply: sum_mult_hi => // t z wt dz tz; apply/negP => dj.
exact: (disjoint_out wt wd dj tz dz).
Qed.

Corollary contains_at_least_sound P ct q lo hi m (a : C) rs :
  cert_check P ct = true -> count_bounds ct q = (lo, hi) -> (m <= lo)%N ->
  R2C P = a *: \prod_(z <- rs) ('X - z%:P) ->
  (m <= count (in_disc (rdisc2C q)) rs)%N.
Proof.
move=> Hc Hq mlo Hrs; have /andP [H _] := count_bounds_sound Hc Hq Hrs.
exact: leq_trans mlo H.
Qed.

Corollary contains_exactly_sound P ct q m (a : C) rs :
  cert_check P ct = true -> count_bounds ct q = (m, m) ->
  R2C P = a *: \prod_(z <- rs) ('X - z%:P) ->
  count (in_disc (rdisc2C q)) rs = m.
Proof.
by move=> Hc Hq Hrs; apply/eqP; rewrite eqn_leq andbC; apply: count_bounds_sound Hc Hq Hrs.
Qed.

(* roots of P as points *)
Lemma root_zs P ct zs w : cert_located P ct zs -> root (R2C P) w = (w \in zs).
Proof.
case=> Pn0 dzs _ _ _ mpos HP.
apply: (root_located w _ _ Pn0 HP); first exact: all2_size dzs.
by move=> md mdin; move/allP: mpos; apply.
Qed.

Corollary no_root_sound P ct q lo w :
  cert_check P ct = true -> count_bounds ct q = (lo, 0%N) ->
  root (R2C P) w -> ~~ in_disc (rdisc2C q) w.
Proof.
move=> Hc Hq rw.
have [zs Hz] := cert_sound C Hc.
have [Pn0 _ _ _ _ _ HP] := Hz.
have := count_bounds_sound (a := lead_coef (R2C P)) (rs := mroots (tiny2C ct) zs) Hc Hq.
rewrite -mprod_mroots => /(_ HP); rewrite leqn0 andbC /= => /andP [/eqP H0 _].
apply/negP => dw; move: rw; rewrite {1}HP rootZ ?lead_coef_eq0 // mprod_mroots root_prod_XsubC.
move=> win; have : has (in_disc (rdisc2C q)) (mroots (tiny2C ct) zs) by apply/hasP; exists w.
by rewrite has_count H0.
Qed.

(* ---------- every tiny disc holds exactly one root, of the announced multiplicity ---------- *)
Theorem tiny_exact P ct m t :
  cert_check P ct = true -> List.In (m, t) (tiny_list ct) ->
  exists z, [/\ root (R2C P) z, in_disc (disc2C t) z, \mu_z (R2C P) = m
     & forall w, root (R2C P) w -> in_disc (disc2C t) w -> w = z].
Proof.
move=> /(@cert_sound C) [zs Hz] Hin.
have [Pn0 dzs uzs pw _ _ HP] := Hz.
have lcn0 : lead_coef (R2C P) != 0 by rewrite lead_coef_eq0.
(* find the position of (m, t) *)
have [z zin tz] : exists2 z, ((m, disc2C t), z) \in zip (tiny2C ct) zs & in_disc (disc2C t) z.
  move: dzs Hin {Hz uzs pw HP}; rewrite /tiny2C.
  elim: (tiny_list ct) zs => [|mt tl IH] [|y zs] //=.
  move=> /andP [ty dzs] [E|Hin].
    by move: ty; rewrite E /= => ty; exists y => //; exact: mem_head.
  by have [z zin tz] := IH _ dzs Hin; exists z => //; rewrite inE zin orbT.
have din : disc2C t \in map snd (tiny2C ct).
  have -> : map snd (tiny2C ct) = unzip2 (unzip1 (zip (tiny2C ct) zs)).
    by rewrite unzip1_zip // (all2_size dzs).
  by apply/mapP; exists (m, disc2C t) => //; apply/mapP; exists ((m, disc2C t), z).
have dzs' : all2 (@in_disc C) (map snd (tiny2C ct)) zs by rewrite -all2_in_tdisc.
have [z' [z'in tz' uz']] := unique_located dzs' pw din.
have zzs : z \in zs by apply: (mem_zip2 zin).
have Ez : z = z' by apply: uz'.
exists z; split=> //.
- by rewrite (root_zs _ Hz).
- by rewrite HP mu_mulC // (mu_mprod uzs zin).
by move=> w; rewrite (root_zs _ Hz) Ez => win tw; apply: uz'.
Qed.

(* ---------- covering ---------- *)
Lemma rinsideP t q z : disc_wf t -> rinside t q -> in_disc (disc2C t) z ->
  in_disc (rdisc2C q) z.
Proof.
rewrite /rinside => wt; case Eq: (mkdisc q) => [d|] // H tz.
have [wd <-] := @mkdiscP C _ _ Eq; exact: inside_in tz.
Qed.

Lemma indices_fromP (A : Type) (p : A -> bool) i0 (l : list A) j :
  List.In j (indices_from p i0 l) ->
  exists x, [/\ (i0 <= j)%N, nth_error l (j - i0) = Some x & p x].
Proof.
elim: l i0 => [|x l IH] i0 //=.
have step : List.In j (indices_from p i0.+1 l) ->
    exists x0, [/\ (i0 <= j)%N, nth_error (x :: l) (j - i0) = Some x0 & p x0].
  move=> /IH [y [lej Hn py]]; exists y; split=> //; first exact: ltnW.
  by rewrite -(subnSK lej).
case E: (p x) => /=; last exact: step.
case=> [<-|]; last exact: step.
by exists x; rewrite leqnn subnn.
Qed.

(* index j is listed for tiny disc i only if that tiny disc (hence its root) lies in
   query disc j *)
Theorem cover_sound P ct qs i j m t :
  cert_check P ct = true ->
  nth_error (tiny_list ct) i = Some (m, t) ->
  List.In j (List.nth i (cover ct qs) nil) ->
  exists q, nth_error qs j = Some q /\
    forall w, in_disc (disc2C t) w -> in_disc (rdisc2C q) w.
Proof.
move=> /(@cert_sound C) [zs [_ _ _ _ wf _ _]]; rewrite /cover.
elim: (tiny_list ct) i wf => [|mt tl IH] [|i] //= /andP [wt wf].
  case=> E; move: wt; rewrite E /= => wt /indices_fromP [q [_]]; rewrite subn0 => Hq Hin.
  by exists q; split=> // w; apply: rinsideP.
exact: IH.
Qed.

Theorem all_roots_covered_sound P ct qs w :
  cert_check P ct = true -> all_covered ct qs = true ->
  root (R2C P) w -> exists2 q, List.In q qs & in_disc (rdisc2C q) w.
Proof.
move=> /(@cert_sound C) [zs Hz]; rewrite (root_zs _ Hz).
have [_ dzs _ _ wf _ _] := Hz.
move: dzs wf {Hz}; rewrite /all_covered /cover forallb_all List_map_map all_map /tiny2C.
elim: (tiny_list ct) zs => [|mt tl IH] [|z zs] //= /andP [tz dzs] /andP [wt wf].
move=> /andP [Hc Hcs]; rewrite inE => /orP [/eqP ->|]; last exact: IH.
case E: (indices_from _ _ _) Hc => [|j js] // _.
have /indices_fromP [q [_ Hq Hin]] : List.In j (indices_from (rinside mt.2) 0 qs).
  by rewrite E; left.
exists q; first exact: (nth_error_In _ _ Hq).
exact: rinsideP tz.
Qed.

(* a tiny disc flagged by `uncovered` is disjoint from every query disc *)
Theorem uncovered_sound P ct qs i m t q w :
  cert_check P ct = true ->
  nth_error (tiny_list ct) i = Some (m, t) ->
  List.nth i (uncovered ct qs) false = true -> List.In q qs ->
  in_disc (disc2C t) w -> ~~ in_disc (rdisc2C q) w.
Proof.
move=> /(@cert_sound C) [zs [_ _ _ _ wf _ _]]; rewrite /uncovered.
elim: (tiny_list ct) i wf => [|mt tl IH] [|i] //= /andP [wt wf]; last exact: IH.
case=> E; move: wt; rewrite E /= => wt Hall Hin tw.
have : rdisjoint t q.
  elim: qs Hall Hin {IH} => [|q' qs IHq] //= /andP [Hq Hqs] [<- //|]; exact: IHq.
rewrite /rdisjoint; case Eq: (mkdisc q) => [d|] // dj.
have [wd <-] := @mkdiscP C _ _ Eq.
by apply/negP => dw; exact: (disjoint_out wt wd dj tw dw).
Qed.

(* ---------- sides ---------- *)
Lemma disc_centre t : Z2C (ds t) != 0 ->
  (disc2C t).1 = Z2C (dc t).1 / Z2C (ds t) + 'i * (Z2C (dc t).2 / Z2C (ds t)).
Proof. by move=> s0; rewrite /disc2C /Bridge.G2C /=; field. Qed.

Lemma Re_centre t : Z2C (ds t) != 0 -> 'Re (disc2C t).1 = Z2C (dc t).1 / Z2C (ds t).
Proof. by move=> s0; rewrite disc_centre // Re_rect // rpred_div ?Z2C_real. Qed.
Lemma Im_centre t : Z2C (ds t) != 0 -> 'Im (disc2C t).1 = Z2C (dc t).2 / Z2C (ds t).
Proof. by move=> s0; rewrite disc_centre // Im_rect // rpred_div ?Z2C_real. Qed.

Lemma Re_le_norm (z : C) : `|'Re z| <= `|z|.
Proof. by have [] := leif_normC_Re_Creal z. Qed.
Lemma Im_le_norm (z : C) : `|'Im z| <= `|z|.
Proof.
have -> : 'Im z = - 'Re ('i * z) by rewrite ReMil opprK.
by rewrite normrN (le_trans (Re_le_norm _)) // normrM normCi mul1r.
Qed.

Lemma part_bounds (f : C -> C) t w (k : Z) :
  (forall z, `|f z| <= `|z|) -> (forall z, f z \is Num.real) -> {morph f : x y / x - y} ->
  disc_wf t -> in_disc (disc2C t) w -> f (disc2C t).1 = Z2C k / Z2C (ds t) ->
  Z2C (k - dr t) / Z2C (ds t) <= f w <= Z2C (k + dr t) / Z2C (ds t).
Proof.
move=> fle freal fB /disc_wfP [s0 r0] tw fc.
have H : `|f (disc2C t).1 - f w| <= Z2C (dr t) / Z2C (ds t).
  by rewrite -fB (le_trans (fle _)).
move: H; rewrite real_ler_distl ?rpredB ?freal // fc.
rewrite Z2C_sub Z2C_add !mulrBl !mulrDl => /andP [H1 H2].
by rewrite ler_subl_addr H2 -ler_subl_addr H1.
Qed.

Theorem side_re_sound t w : disc_wf t -> in_disc (disc2C t) w ->
  (side_re t = Gt -> 0 < 'Re w) /\ (side_re t = Lt -> 'Re w < 0).
Proof.
move=> wt tw; have [s0 r0] := disc_wfP wt.
have /andP [lo hi] := part_bounds (@Re_le_norm) (@Creal_Re _) (raddfB _) wt tw
   (Re_centre (lt0r_neq0 s0)).
rewrite /side_re; case: ifP => [|_]; [|case: ifP => //].
  rewrite -Z2C_gt0 => H; split=> // _; apply: lt_le_trans lo.
  by rewrite divr_gt0.
rewrite -Z2C_lt => H; split=> // _; apply: le_lt_trans hi _.
by rewrite pmulr_llt0 ?invr_gt0.
Qed.

Theorem side_im_sound t w : disc_wf t -> in_disc (disc2C t) w ->
  (side_im t = Gt -> 0 < 'Im w) /\ (side_im t = Lt -> 'Im w < 0).
Proof.
move=> wt tw; have [s0 r0] := disc_wfP wt.
have /andP [lo hi] := part_bounds (@Im_le_norm) (@Creal_Im _) (raddfB _) wt tw
   (Im_centre (lt0r_neq0 s0)).
rewrite /side_im; case: ifP => [|_]; [|case: ifP => //].
  rewrite -Z2C_gt0 => H; split=> // _; apply: lt_le_trans lo.
  by rewrite divr_gt0.
rewrite -Z2C_lt => H; split=> // _; apply: le_lt_trans hi _.
by rewrite pmulr_llt0 ?invr_gt0.
Qed.

Theorem side_unit_sound t w : disc_wf t -> in_disc (disc2C t) w ->
  (side_unit t = Gt -> 1 < `|w|) /\ (side_unit t = Lt -> `|w| < 1).
Proof.
move=> wt tw; have [s0 r0] := disc_wfP wt.
have sn0 := lt0r_neq0 s0.
have cE : `|(disc2C t).1| = `|G2C (dc t)| / Z2C (ds t).
  by rewrite /disc2C /= normf_div (gtr0_norm s0).
rewrite /side_unit; case: ifP => [/andP []|_]; [|case: ifP => //].
  rewrite -Z2C_gt0 -Z2C_lt Z2C_sq G2C_norm2 => e0 H; split=> // _.
  have {H} H := lt_of_sqr (normr_ge0 _) (ltW e0) H.
  have : `|w| <= `|(disc2C t).1| + Z2C (dr t) / Z2C (ds t).
    rewrite -[w](subKr (disc2C t).1) (le_trans (ler_norm_sub _ _)) // ler_add //.
  move=> /le_lt_trans; apply; rewrite cE -mulrDl ltr_pdivr_mulr // mul1r.
  by move: H; rewrite Z2C_sub ltr_subr_addr.
rewrite -Z2C_lt Z2C_sq G2C_norm2 => H; split=> // _.
have F0 : 0 <= Z2C (ds t + dr t) by rewrite Z2C_add addr_ge0 // ltW.
have {H} H := lt_of_sqr F0 (normr_ge0 _) H.
have : `|(disc2C t).1| - Z2C (dr t) / Z2C (ds t) <= `|w|.
  rewrite ler_subl_addr -[X in `|X| <= _](subrK w) (le_trans (ler_norm_add _ _)) //.
  by rewrite addrC ler_add.
apply: lt_le_trans; rewrite cE -mulrBl ltr_pdivl_mulr // mul1r.
by move: H; rewrite Z2C_add ltr_subr_addr.
Qed.

(* ---------- real roots (conjugate symmetry) ---------- *)
Lemma R2C_real (P : list rcoef) : forallb rcoef_real P ->
  map_poly conjC (R2C P) = R2C P.
Proof.
rewrite /Bridge.R2C map_Poly => H; congr Poly.
elim: P H => [|x P IH] //= /andP [/Z.eqb_eq xr /IH ->]; congr (_ :: _).
rewrite /rc2C xr Z2C_0 mul0r mulr0 addr0; apply: conj_Creal.
by rewrite rpred_div ?Z2C_real.
Qed.

Theorem real_root_sound P ct m t w :
  cert_check P ct = true -> List.In (m, t) (tiny_list ct) ->
  forallb rcoef_real P = true -> centre_real t = true ->
  root (R2C P) w -> in_disc (disc2C t) w -> w \is Num.real.
Proof.
move=> Hc Hin Preal /Z.eqb_eq treal rw tw.
have [z [_ _ _ uz]] := tiny_exact Hc Hin.
apply/CrealP; rewrite [RHS](uz w rw tw); apply: uz.
  by rewrite -(R2C_real Preal); apply: rmorph_root.
have creal : (disc2C t).1 \is Num.real.
  rewrite /disc2C /Bridge.G2C /= treal Z2C_0 mulr0 addr0.
  by rewrite rpred_div ?Z2C_real.
by move: tw; rewrite /in_disc -norm_conjC rmorphB (conj_Creal creal).
Qed.

End QuerySound.
