(* A disc of radius n |p(x)/p'(x)| around x contains a root of p (n = deg p).
   MathComp style; any numClosedFieldType. *)
From mathcomp Require Import all_ssreflect all_algebra.
From mathcomp Require Import ring.
Set Implicit Arguments. Unset Strict Implicit. Unset Printing Implicit Defensive.
Import Order.TTheory GRing.Theory Num.Theory.
Local Open Scope ring_scope.
Section NewtonBound.
Variable C : numClosedFieldType.
Lemma logderiv_prod (rs : seq C) (x : C) :
  (\prod_(z <- rs) ('X - z%:P)).[x] != 0 ->
  (\prod_(z <- rs) ('X - z%:P))^`().[x] / (\prod_(z <- rs) ('X - z%:P)).[x]
  = \sum_(z <- rs) (x - z)^-1.
Proof.
elim: rs => [|r rs IH]; first by rewrite !big_nil derivC horner0 mul0r.
rewrite !big_cons derivM derivXsubC mul1r !hornerE /= => nz.
have nzr : x - r != 0 by apply: contraNneq nz => ->; rewrite mul0r.
have nzq : (\prod_(j <- rs) ('X - j%:P)).[x] != 0
  by apply: contraNneq nz => ->; rewrite mulr0.
rewrite -IH //.
set q := (\prod_(j <- rs) ('X - j%:P)).[x] in nzq *.
set q' := (\prod_(j <- rs) ('X - j%:P))^`().[x].
by field; rewrite nzr nzq.
Qed.
Lemma sum_inv_far (rs : seq C) (x : C) (d : C) :
  0 < d -> all (fun z => d < `|x - z|) rs -> (0 < size rs)%N ->
  `|\sum_(z <- rs) (x - z)^-1| < (size rs)%:R / d.
Proof.
move=> d0; elim: rs => [//|r rs IH] /= /andP [Hr Hall] _.
rewrite big_cons -addn1 natrD mulrDl mul1r.
have Hr' : `|(x - r)^-1| < d^-1.
  by rewrite normfV ltf_pinv ?posrE // (lt_trans d0).
case: rs IH Hall => [|r' rs] IH Hall.
  by rewrite big_nil addr0 /= mul0r add0r.
apply: le_lt_trans (ler_norm_add _ _) _.
by rewrite addrC ltr_add // IH.
Qed.
Theorem newton_disc (p : {poly C}) (x : C) :
  p != 0 -> p^`().[x] != 0 ->
  exists2 z, root p z & `|x - z| <= (size p).-1%:R * `|p.[x] / p^`().[x]|.
Proof.
move=> pn0 dn0.
have [rs Hp] := closed_field_poly_normal p.
have an0 : lead_coef p != 0 by rewrite lead_coef_eq0.
have szp : (size p).-1 = size rs.
  by rewrite Hp size_scale // size_prod_XsubC.
case px0: (p.[x] == 0).
  exists x; first by rewrite /root px0.
  by rewrite subrr normr0 mulr_ge0 // ler0n.
have qx0 : (\prod_(z <- rs) ('X - z%:P)).[x] != 0.
  move: px0; rewrite {1}Hp hornerZ mulf_eq0 (negbTE an0) /=.
  by move=> ->.
have ld : p^`().[x] / p.[x] = \sum_(z <- rs) (x - z)^-1.
  rewrite -logderiv_prod //.
  move: an0 qx0 Hp; set a := lead_coef p; set q := \prod_(z <- rs) _.
  move=> an0 qx0 ->; rewrite derivZ !hornerZ.
  by field; rewrite an0 qx0.
have rsn0 : (0 < size rs)%N.
  case: (rs) ld => [|//]; rewrite big_nil => /eqP.
  by rewrite mulf_eq0 (negbTE dn0) invr_eq0 px0.
set rho := `|p.[x] / p^`().[x]|.
have rho_gt0 : 0 < rho by rewrite normr_gt0 mulf_neq0 ?px0 // invr_eq0.
rewrite szp.
case: (boolP (has (fun z => `|x - z| <= (size rs)%:R * rho) rs)) => [/hasP [z zin Hz]|].
  by exists z => //; rewrite Hp rootZ // root_prod_XsubC.
rewrite -all_predC => Hall.
have nrho : 0 < (size rs)%:R * rho by rewrite mulr_gt0 // ltr0n.
have /(sum_inv_far nrho) : all (fun z => (size rs)%:R * rho < `|x - z|) rs.
  apply: sub_all Hall => z /=; rewrite -real_ltNge ?normr_real //.
  by rewrite rpredM ?realn ?normr_real.
move=> /(_ rsn0); rewrite -ld.
have -> : `|p^`().[x] / p.[x]| = rho^-1.
  by rewrite /rho -normfV invf_div.
rewrite invfM mulrA mulfV ?mul1r ?ltxx //.
by rewrite pnatr_eq0 -lt0n.
Qed.
End NewtonBound.
