(* Theorems about Transform.v: the secular numerator polynomial has exactly the roots
   of the secular equation; the Chebyshev accumulation computes sum c_k T_k. *)
From Coq Require Import ZArith List.
From mathcomp Require Import all_ssreflect all_algebra.
From mathcomp Require Import ssrZ zify ring.
From MPSV Require Import Roots.GaussZ Roots.PolyZ Roots.Cert Roots.Transform Roots.Bridge.
Set Implicit Arguments. Unset Strict Implicit. Unset Printing Implicit Defensive.
Import Order.TTheory GRing.Theory Num.Theory.
Local Open Scope ring_scope.

(* ================= mathematical layer (any field) ================= *)
Section SecularMath.
Variable F : fieldType.
Implicit Types (ab : seq (F * F)) (x : F).

Fixpoint secD ab : {poly F} :=
  if ab is p :: r then secD r * ('X - p.2%:P) else 1.
Fixpoint secN ab : {poly F} :=
  if ab is p :: r then secN r * ('X - p.2%:P) + p.1 *: secD r else 0.

Lemma secD_root ab x : root (secD ab) x = (x \in map snd ab).
Proof.
elim: ab => [|p r IH] /=; first by rewrite in_nil (negbTE (root1 _)).
by rewrite rootM IH root_XsubC inE orbC.
Qed.

(* away from the poles, N/D is the sum of the partial fractions *)
Lemma sec_eval ab x : x \notin map snd ab ->
  (secN ab).[x] / (secD ab).[x] = \sum_(p <- ab) p.1 / (x - p.2).
Proof.
elim: ab => [|p r IH] /=; first by rewrite big_nil horner0 mul0r.
rewrite inE negb_or => /andP [xp xr].
have Dn0 : (secD r).[x] != 0 by move: xr; rewrite -secD_root.
have xpn0 : x - p.2 != 0 by rewrite subr_eq0.
rewrite big_cons -IH // hornerD !hornerM hornerZ hornerXsubC.
move: ((secN r).[x]) ((secD r).[x]) (x - p.2) (p.1) Dn0 xpn0 => n d y a d0 y0.
by field; rewrite d0 y0.
Qed.

Theorem secular_root_equiv ab x : x \notin map snd ab ->
  root (secD ab - secN ab) x <-> \sum_(p <- ab) p.1 / (x - p.2) = 1.
Proof.
move=> xnot; have Dn0 : (secD ab).[x] != 0 by move: xnot; rewrite -secD_root.
rewrite -sec_eval // /root hornerD hornerN subr_eq0; split.
  by move/eqP <-; rewrite divff.
by move/(canRL (divfK Dn0)); rewrite mul1r => ->.
Qed.

(* the poles are not roots when the b_i are distinct and the a_i non-zero *)
Theorem secular_pole_not_root ab x : uniq (map snd ab) -> all (fun p => p.1 != 0) ab ->
  x \in map snd ab -> ~~ root (secD ab - secN ab) x.
Proof.
elim: ab => [|p r IH] //= /andP [pnot ur] /andP [a0 ar].
rewrite inE /root hornerD hornerN hornerD !hornerM hornerZ hornerXsubC => /orP [/eqP ->|xin].
  rewrite subrr !mulr0 sub0r add0r oppr_eq0 mulf_neq0 //.
  by move: pnot; rewrite -secD_root.
have D0 : (secD r).[x] = 0 by apply/eqP; move: xin; rewrite -secD_root.
rewrite D0 mul0r mulr0 addr0 sub0r -mulNr mulf_neq0 //.
  by move: (IH ur ar xin); rewrite /root hornerD hornerN D0 sub0r.
by rewrite subr_eq0; apply: contraNneq pnot => <-.
Qed.

Corollary secular_roots ab x : uniq (map snd ab) -> all (fun p => p.1 != 0) ab ->
  root (secD ab - secN ab) x <->
  (x \notin map snd ab /\ \sum_(p <- ab) p.1 / (x - p.2) = 1).
Proof.
move=> ub a0; split.
  move=> rx; have xnot : x \notin map snd ab.
    by apply/negP => xin; move: (secular_pole_not_root ub a0 xin); rewrite rx.
  by split=> //; apply/secular_root_equiv.
by case=> xnot /secular_root_equiv; apply.
Qed.

(* Chebyshev polynomials of the first kind by their three-term recurrence *)
Fixpoint chebTT (n : nat) : {poly F} * {poly F} :=
  if n is m.+1 then let: (a, b) := chebTT m in (b, 2%:R *: ('X * b) - a) else (1, 'X).
Definition chebT n := (chebTT n).1.

Lemma chebT0 : chebT 0 = 1. Proof. by []. Qed.
Lemma chebT1 : chebT 1 = 'X. Proof. by []. Qed.
Lemma chebTSS n : chebT n.+2 = 2%:R *: ('X * chebT n.+1) - chebT n.
Proof. by rewrite /chebT /=; case: (chebTT n). Qed.

End SecularMath.

(* ================= bridge for the extracted conversions ================= *)
Section TransformBridge.
Variable C : numClosedFieldType.
Notation Z2C := (@Z2C C).
Notation G2C := (@G2C C).
Notation rc2C := (@rc2C C).
Notation R2C := (@R2C C).

Definition Q2C (x : gq) : C := G2C x.1 / Z2C x.2.
Definition gq_wf (x : gq) : bool := ~~ (x.2 =? 0)%Z.
Definition QP2C (p : qpoly) : {poly C} := Poly (map Q2C p).

Lemma gq_wfP x : gq_wf x -> Z2C x.2 != 0.
Proof. by rewrite /gq_wf Z2C_eq0. Qed.

Lemma G2C_opp g : G2C (gopp g) = - G2C g.
Proof. by rewrite /Bridge.G2C /= !Z2C_opp; ring. Qed.

Lemma Q2C_add x y : gq_wf x -> gq_wf y -> Q2C (gq_add x y) = Q2C x + Q2C y.
Proof.
move=> /gq_wfP x0 /gq_wfP y0; rewrite /Q2C /gq_add /= G2C_add !G2C_scale Z2C_mul.
by field; rewrite x0 y0.
Qed.
Lemma Q2C_mul x y : gq_wf x -> gq_wf y -> Q2C (gq_mul x y) = Q2C x * Q2C y.
Proof.
move=> /gq_wfP x0 /gq_wfP y0; rewrite /Q2C /gq_mul /= G2C_mul Z2C_mul.
by field; rewrite x0 y0.
Qed.
Lemma Q2C_opp x : Q2C (gq_opp x) = - Q2C x.
Proof. by rewrite /Q2C /gq_opp /= G2C_opp mulNr. Qed.
Lemma Q2C_zero : Q2C gq_zero = 0.
Proof. by rewrite /Q2C /= G2C_0 mul0r. Qed.
Lemma Q2C_one : Q2C gq_one = 1.
Proof. by rewrite /Q2C /= G2C_1 Z2C_1 divr1. Qed.
Lemma Q2C_two : Q2C gq_two = 2%:R.
Proof.
rewrite /Q2C /Bridge.G2C /= Z2C_1 divr1 Z2C_0 mulr0 addr0.
by rewrite -[Z.pos 2]/(Z.of_nat 2) Z2C_nat.
Qed.

Lemma wf_add x y : gq_wf x -> gq_wf y -> gq_wf (gq_add x y).
Proof. by rewrite /gq_wf /gq_add /= => *; lia. Qed.
Lemma wf_mul x y : gq_wf x -> gq_wf y -> gq_wf (gq_mul x y).
Proof. by rewrite /gq_wf /gq_mul /= => *; lia. Qed.
Lemma wf_opp x : gq_wf x -> gq_wf (gq_opp x).
Proof. by []. Qed.

Lemma QP2C_cons a p : QP2C (a :: p) = QP2C p * 'X + (Q2C a)%:P.
Proof. by rewrite /QP2C /= cons_poly_def. Qed.

Lemma qpaddP p q : all gq_wf p -> all gq_wf q ->
  all gq_wf (qpadd p q) /\ QP2C (qpadd p q) = QP2C p + QP2C q.
Proof.
elim: p q => [|a p IH] [|b q] //=; rewrite /QP2C /= ?add0r ?addr0 //.
move=> /andP [wa wp] /andP [wb wq]; have [-> E] := IH q wp wq.
rewrite wf_add //; split=> //.
by rewrite -!/(QP2C _) !cons_poly_def E Q2C_add // polyCD; ring.
Qed.

Lemma qpscaleP c p : gq_wf c -> all gq_wf p ->
  all gq_wf (qpscale c p) /\ QP2C (qpscale c p) = Q2C c *: QP2C p.
Proof.
move=> wc; elim: p => [|a p IH] /=; first by rewrite /QP2C /= scaler0.
move=> /andP [wa wp]; have [-> E] := IH wp; rewrite wf_mul //; split=> //.
rewrite !QP2C_cons -/(qpscale c p) E Q2C_mul //.
by rewrite scalerDr -scalerAl polyCM mul_polyC.
Qed.

Lemma qpsubP p q : all gq_wf p -> all gq_wf q ->
  all gq_wf (qpsub p q) /\ QP2C (qpsub p q) = QP2C p - QP2C q.
Proof.
move=> wp wq; rewrite /qpsub.
have [w1 E1] := @qpscaleP (gq_opp gq_one) q isT wq.
have [w2 E2] := qpaddP wp w1; split=> //.
by rewrite E2 E1 Q2C_opp Q2C_one scaleN1r.
Qed.

Lemma qp_mul_linP p b : all gq_wf p -> gq_wf b ->
  all gq_wf (qp_mul_lin p b) /\ QP2C (qp_mul_lin p b) = QP2C p * ('X - (Q2C b)%:P).
Proof.
move=> wp wb; rewrite /qp_mul_lin.
have [w1 E1] := qpscaleP (wf_opp wb) wp.
have w0 : all gq_wf (gq_zero :: p) by [].
have [w2 E2] := qpaddP w0 w1; split=> //.
rewrite E2 E1 QP2C_cons Q2C_zero Q2C_opp addr0 mulrBr scaleNr -mul_polyC.
by rewrite [_%:P * _]mulrC.
Qed.

Definition ab2C (ab : list (gq * gq)) : seq (C * C) :=
  [seq (Q2C x.1, Q2C x.2) | x <- ab].

Lemma secular_ndP ab : all (fun x => gq_wf x.1 && gq_wf x.2) ab ->
  [/\ all gq_wf (secular_nd ab).1, all gq_wf (secular_nd ab).2,
      QP2C (secular_nd ab).1 = secN (ab2C ab) & QP2C (secular_nd ab).2 = secD (ab2C ab)].
Proof.
elim: ab => [|[a b] r IH] /=.
  by split=> //; rewrite /QP2C /= ?cons_poly_def ?mul0r ?add0r Q2C_one.
move=> /andP [/andP [wa wb] /IH]; case: (secular_nd r) => [N D] /= [wN wD EN ED].
have [w1 E1] := qp_mul_linP wN wb; have [w2 E2] := qpscaleP wa wD.
have [w3 E3] := qpaddP w1 w2; have [w4 E4] := qp_mul_linP wD wb.
by split=> //; rewrite ?E3 ?E1 ?E2 ?E4 ?EN ?ED.
Qed.

Lemma secular_polyP ab : all (fun x => gq_wf x.1 && gq_wf x.2) ab ->
  QP2C (secular_poly ab) = secD (ab2C ab) - secN (ab2C ab).
Proof.
move=> /secular_ndP; rewrite /secular_poly; case: (secular_nd ab) => [N D] /= [wN wD <- <-].
by have [] := qpsubP wD wN.
Qed.

(* input / output conversions *)
Lemma rcoef_of_gqP x : rc2C (rcoef_of_gq x) = Q2C x.
Proof. by rewrite /Bridge.rc2C /Q2C /Bridge.G2C /= mulrDl mulrA. Qed.

Lemma gq_of_rcoefP x : rcoef_wf x -> gq_wf (gq_of_rcoef x) /\ Q2C (gq_of_rcoef x) = rc2C x.
Proof.
rewrite /rcoef_wf /gq_wf /gq_of_rcoef /= => /andP [rd idn]; split; first by lia.
move: rd idn; rewrite -!(@Z2C_eq0 C) /Q2C /Bridge.rc2C /Bridge.G2C /= !Z2C_mul => rd idn.
by field; rewrite rd idn.
Qed.

Lemma R2C_rcoef_of_gq l : R2C (List.map rcoef_of_gq l) = QP2C l.
Proof.
rewrite /Bridge.R2C /QP2C List_map_map -map_comp; congr Poly.
by apply: eq_map => x /=; rewrite rcoef_of_gqP.
Qed.

(* the extracted secular conversion: its result denotes D - N for the data it was given *)
Definition secular_data (ab : list (rcoef * rcoef)) : seq (C * C) :=
  [seq (rc2C x.1, rc2C x.2) | x <- ab].

Theorem secular_to_monomial_sound (ab : list (rcoef * rcoef)) :
  all (fun x => rcoef_wf x.1 && rcoef_wf x.2) ab ->
  R2C (secular_to_monomial ab) = secD (secular_data ab) - secN (secular_data ab).
Proof.
move=> wf; rewrite /secular_to_monomial R2C_rcoef_of_gq secular_polyP.
  suff -> : ab2C (List.map (fun x => (gq_of_rcoef x.1, gq_of_rcoef x.2)) ab) = secular_data ab by [].
  rewrite /ab2C /secular_data List_map_map -map_comp.
  elim: ab wf => [|x ab IH] //= /andP [/andP [w1 w2] /IH ->].
  by rewrite (gq_of_rcoefP w1).2 (gq_of_rcoefP w2).2.
rewrite List_map_map all_map; elim: ab wf => [|x ab IH] //= /andP [/andP [w1 w2] /IH ->].
by rewrite (gq_of_rcoefP w1).1 (gq_of_rcoefP w2).1.
Qed.

(* with distinct b_i and non-zero a_i the monomial polynomial has exactly the roots of
   the secular equation  sum_i a_i / (x - b_i) = 1 *)
Theorem secular_to_monomial_roots (ab : list (rcoef * rcoef)) (x : C) :
  all (fun x => rcoef_wf x.1 && rcoef_wf x.2) ab ->
  uniq (map snd (secular_data ab)) -> all (fun p => p.1 != 0) (secular_data ab) ->
  root (R2C (secular_to_monomial ab)) x <->
  (x \notin map snd (secular_data ab)
   /\ \sum_(p <- secular_data ab) p.1 / (x - p.2) = 1).
Proof. by move=> wf ub a0; rewrite secular_to_monomial_sound //; apply: secular_roots. Qed.

(* Chebyshev *)
Lemma cheb_accP cs t0 t1 n : all gq_wf cs -> all gq_wf t0 -> all gq_wf t1 ->
  QP2C t0 = chebT C n -> QP2C t1 = chebT C n.+1 ->
  QP2C (cheb_acc cs t0 t1) = \sum_(k < size cs) Q2C (nth gq_zero cs k) *: chebT C (n + k).
Proof.
elim: cs t0 t1 n => [|c r IH] t0 t1 n /=; first by rewrite big_ord0.
move=> /andP [wc wr] w0 w1 E0 E1.
have wX : all gq_wf (gq_zero :: t1) by [].
have [w2 E2] := @qpscaleP gq_two _ isT wX.
have [w3 E3] := qpsubP w2 w0.
have [w4 E4] := qpscaleP wc w0.
have ET : QP2C (qpsub (qpscale gq_two (gq_zero :: t1)) t0) = chebT C n.+2.
  by rewrite E3 E2 QP2C_cons Q2C_zero addr0 Q2C_two E1 E0 chebTSS [_ * 'X]mulrC.
have Er := IH t1 _ n.+1 wr w1 w3 E1 ET.
have [|_ ->] := @qpaddP (qpscale c t0) (cheb_acc r t1 (qpsub (qpscale gq_two (gq_zero :: t1)) t0)) w4.
  elim: (r) (t1) (qpsub _ _) w1 w3 wr {IH Er ET E1 wX w2 E2 E3} => [|c' r' IHr] u0 u1 //= wu0 wu1 /andP [wc' wr'].
  have wX' : all gq_wf (gq_zero :: u1) by [].
  have [w2' _] := @qpscaleP gq_two _ isT wX'.
  have [w3' _] := qpsubP w2' wu0.
  have [w4' _] := qpscaleP wc' wu0.
  by have [-> _] := qpaddP w4' (IHr _ _ wu1 w3' wr').
rewrite E4 Er big_ord_recl /= addn0 E0; congr (_ + _).
by apply: eq_bigr => k _; rewrite addSnnS.
Qed.

Theorem chebyshev_to_monomial_sound (cs : list rcoef) : all rcoef_wf cs ->
  R2C (chebyshev_to_monomial cs)
  = \sum_(k < size cs) rc2C (nth (RCoef 0 1 0 1) cs k) *: chebT C k.
Proof.
move=> wf; rewrite /chebyshev_to_monomial R2C_rcoef_of_gq.
have wcs : all gq_wf (List.map gq_of_rcoef cs).
  by rewrite List_map_map all_map; elim: cs wf => [|x cs IH] //= /andP [w /IH ->]; rewrite (gq_of_rcoefP w).1.
rewrite (@cheb_accP _ _ _ 0 wcs) //.
- rewrite List_map_map size_map; apply: eq_bigr => k _; rewrite add0n; congr (_ *: _).
  elim: cs k wf {wcs} => [|x cs IH] [[|k] lek] //= /andP [w wf].
    by rewrite (gq_of_rcoefP w).2.
  exact: (IH (Ordinal (lek : (k < size cs)%N))).
- by rewrite /QP2C /= !cons_poly_def mul0r add0r Q2C_one.
by rewrite /QP2C /= !cons_poly_def mul0r add0r Q2C_one Q2C_zero addr0 mul1r.
Qed.

End TransformBridge.
