(* Isolation by counting: deg p pairwise disjoint discs, each containing a root of p,
   locate ALL roots of p, one simple root per disc.  With square-free factors and
   multiplicities: a complete factorisation of P with one root per tiny disc.
   Root counting in an arbitrary region from such a factorisation.
   MathComp style; any numClosedFieldType. *)
From mathcomp Require Import all_ssreflect all_algebra.
From mathcomp Require Import polyorder zify.
Set Implicit Arguments. Unset Strict Implicit. Unset Printing Implicit Defensive.
Import Order.TTheory GRing.Theory Num.Theory.
Local Open Scope ring_scope.

Section Isolate.
Variable C : numClosedFieldType.
Implicit Types (p q : {poly C}) (d e : C * C) (z w : C).

(* closed disc d = (centre, radius) *)
Definition in_disc d z := `|d.1 - z| <= d.2.
Definition disjoint d e := d.2 + e.2 < `|d.1 - e.1|.

Lemma disjoint_neq d e z w : disjoint d e -> in_disc d z -> in_disc e w -> z != w.
Proof.
rewrite /disjoint /in_disc => dj dz ew; apply/eqP => zw; subst w.
have H : `|d.1 - e.1| <= d.2 + e.2.
  apply: le_trans (ler_dist_add z _ _) _; apply: ler_add => //.
  by rewrite distrC.
by move: (le_gtF H); rewrite dj.
Qed.

Lemma pick_roots p (ds : seq (C * C)) :
  (forall d, d \in ds -> exists2 z, root p z & in_disc d z) ->
  exists2 zs, all (root p) zs & all2 in_disc ds zs.
Proof.
elim: ds => [|d ds IH] H; first by exists [::].
have [z rz dz] := H d (mem_head _ _).
have [|zs rzs dzs] := IH.
  by move=> e ein; apply: H; rewrite inE ein orbT.
by exists (z :: zs); rewrite /= ?rz ?dz.
Qed.

Lemma disjoint_notin d ds z zs :
  all (disjoint d) ds -> in_disc d z -> all2 in_disc ds zs -> z \notin zs.
Proof.
elim: ds zs => [|e ds IH] [|w zs] //= /andP [de dds] dz /andP [ew dzs].
by rewrite inE negb_or (disjoint_neq de dz ew) /=; apply: IH.
Qed.

Lemma disjoint_uniq ds zs : pairwise disjoint ds -> all2 in_disc ds zs -> uniq zs.
Proof.
elim: ds zs => [|d ds IH] [|z zs] //= /andP [dds pw] /andP [dz dzs].
by rewrite (disjoint_notin dds dz dzs) IH.
Qed.

(* in a located family, each disc contains exactly one of the located points *)
Lemma unique_located ds zs d : all2 in_disc ds zs -> pairwise disjoint ds -> d \in ds ->
  exists z, [/\ z \in zs, in_disc d z & forall w, w \in zs -> in_disc d w -> w = z].
Proof.
elim: ds zs => [|e ds IH] [|z zs] //=.
move=> /andP [ez dzs] /andP [eds pw].
rewrite inE => /orP [/eqP de|din].
  rewrite de; exists z; split; rewrite ?mem_head // => w; rewrite inE => /orP [/eqP //|win] ew.
  by move: (disjoint_notin eds ew dzs); rewrite win.
have [z' [z'in dz' uz']] := IH _ dzs pw din.
exists z'; split; rewrite ?inE ?z'in ?orbT // => w /orP [/eqP -> {w}|win] dw.
  have ded : disjoint e d by move/allP: eds; apply.
  by move: (disjoint_neq ded ez dw); rewrite eqxx.
exact: uz'.
Qed.

Lemma all2_size (T U : Type) (r : T -> U -> bool) s t : all2 r s t -> size s = size t.
Proof. by rewrite all2E => /andP [/eqP]. Qed.

Lemma all2_cat (T U : Type) (r : T -> U -> bool) s1 s2 t1 t2 :
  all2 r s1 t1 -> all2 r s2 t2 -> all2 r (s1 ++ s2) (t1 ++ t2).
Proof.
elim: s1 t1 => [|x s1 IH] [|y t1] //= /andP [-> H1] H2; exact: IH.
Qed.

(* n = deg p pairwise disjoint discs, each containing a root: complete factorisation *)
Theorem isolate_factorization p ds :
  p != 0 -> size ds = (size p).-1 -> pairwise disjoint ds ->
  (forall d, d \in ds -> exists2 z, root p z & in_disc d z) ->
  exists zs, [/\ all2 in_disc ds zs, uniq zs
               & p = lead_coef p *: \prod_(z <- zs) ('X - z%:P)].
Proof.
move=> pn0 szds pw H.
have [zs rzs dzs] := pick_roots H.
have uzs := disjoint_uniq pw dzs.
exists zs; split=> //.
have szs : size zs = size ds by rewrite (all2_size dzs).
have [q Hq] : exists q, p = q * \prod_(z <- zs) ('X - z%:P).
  by apply: uniq_roots_prod_XsubC => //; rewrite uniq_rootsE.
have qn0 : q != 0 by apply: contraNneq pn0 => q0; rewrite Hq q0 mul0r.
have mprod : \prod_(z <- zs) ('X - z%:P) \is monic by rewrite monic_prod_XsubC.
have prodn0 := monic_neq0 mprod.
have sp : (0 < size p)%N by rewrite size_poly_gt0.
have sq : size q = 1%N.
  have := size_mul qn0 prodn0; rewrite -Hq size_prod_XsubC szs szds.
  move: sp; case: (size p) => // n _ /=; rewrite addnS /= -[LHS]add1n.
  by move/addIn.
have /size_poly1P [c cn0 qc] : size q == 1%N by rewrite sq.
rewrite {1}Hq qc mul_polyC; congr (_ *: _).
by rewrite Hq qc mul_polyC lead_coefZ (monicP mprod) mulr1.
Qed.

(* the statement announced in DESIGN.md 2.5 *)
Theorem isolate_by_count p ds :
  p != 0 -> size ds = (size p).-1 -> pairwise disjoint ds ->
  (forall d, d \in ds -> exists2 z, root p z & in_disc d z) ->
  [/\ (* each disc contains exactly one root, and it is simple *)
      forall d, d \in ds -> exists z, [/\ root p z, in_disc d z, \mu_z p = 1%N
          & forall w, root p w -> in_disc d w -> w = z]
    & (* every root lies in one of the discs *)
      forall w, root p w -> exists2 d, d \in ds & in_disc d w].
Proof.
move=> pn0 szds pw H.
have [zs [dzs uzs Hp]] := isolate_factorization pn0 szds pw H.
have lcn0 : lead_coef p != 0 by rewrite lead_coef_eq0.
have rootE w : root p w = (w \in zs).
  by rewrite {1}Hp rootZ // root_prod_XsubC.
have cover w : root p w -> exists2 d, d \in ds & in_disc d w.
  rewrite rootE => win.
  elim: ds zs dzs win {szds pw H uzs Hp rootE} => [|d ds IH] [|z zs] //=.
  move=> /andP [dz dzs]; rewrite inE => /orP [/eqP ->|win].
    by exists d => //; rewrite mem_head.
  by have [e ein ew] := IH _ dzs win; exists e => //; rewrite inE ein orbT.
split=> // d din.
have [z [zin dz uniqz]] := unique_located dzs pw din.
exists z; split; rewrite ?rootE //; last by move=> w; rewrite rootE; apply: uniqz.
(* multiplicity one *)
rewrite Hp mu_mulC //.
have : uniq zs := uzs.
elim: zs zin {dzs uzs Hp rootE uniqz cover} => [|y zs IH] //=.
rewrite inE big_cons => zin /andP [ynotin uzs].
have pn0' : ('X - y%:P) * \prod_(j <- zs) ('X - j%:P) != 0.
  by rewrite mulf_neq0 ?polyXsubC_eq0 // monic_neq0 // monic_prod_XsubC.
rewrite mu_mul //.
case/orP: zin => [/eqP zy|zin].
  rewrite zy mu_XsubC muNroot ?addn0 //.
  by rewrite root_prod_XsubC.
rewrite IH // muNroot ?add0n // root_XsubC.
by apply: contraNneq ynotin => <-.
Qed.

(* ---------- factors with multiplicities ---------- *)

(* a factor: (multiplicity, square-free polynomial, its tiny discs) *)
Definition mfactor := (nat * {poly C} * seq (C * C))%type.

Definition tlist (fs : seq mfactor) : seq (nat * (C * C)) :=
  flatten [seq [seq (f.1.1, d) | d <- f.2] | f <- fs].

Definition mprod (tl : seq (nat * (C * C))) (zs : seq C) : {poly C} :=
  \prod_(mz <- zip tl zs) ('X - mz.2%:P) ^+ mz.1.1.

Definition in_tdisc (md : nat * (C * C)) z := in_disc md.2 z.

Lemma monic_mprod tl zs : mprod tl zs \is monic.
Proof. by apply: monic_prod => i _; rewrite monic_exp // monicXsubC. Qed.

Lemma mprod_cat tl1 tl2 zs1 zs2 : size tl1 = size zs1 ->
  mprod (tl1 ++ tl2) (zs1 ++ zs2) = mprod tl1 zs1 * mprod tl2 zs2.
Proof. by move=> sz; rewrite /mprod zip_cat // big_cat. Qed.

Lemma mprod_const m ds zs : size ds = size zs ->
  mprod [seq (m, d) | d <- ds] zs = (\prod_(z <- zs) ('X - z%:P)) ^+ m.
Proof.
elim: ds zs => [|d ds IH] [|z zs] //=.
  by rewrite /mprod /= !big_nil expr1n.
by case=> sz; rewrite /mprod /= !big_cons exprMn -IH.
Qed.

Definition factor_located (f : mfactor) :=
  [/\ f.1.2 != 0, size f.2 = (size f.1.2).-1, pairwise disjoint f.2
    & forall d, d \in f.2 -> exists2 z, root f.1.2 z & in_disc d z].

Lemma factors_located fs :
  (forall f, f \in fs -> factor_located f) ->
  exists zs c, [/\ c != 0, all2 in_tdisc (tlist fs) zs
      & \prod_(f <- fs) f.1.2 ^+ f.1.1 = c *: mprod (tlist fs) zs].
Proof.
elim: fs => [|f fs IH] H.
  by exists [::], 1; rewrite oner_eq0 /mprod /= !big_nil scale1r.
have [|zs [c [cn0 dzs Hc]]] := IH.
  by move=> g gin; apply: H; rewrite inE gin orbT.
have [qn0 szd pw Hr] := H f (mem_head _ _).
have [ys [dys _ Hq]] := isolate_factorization qn0 szd pw Hr.
exists (ys ++ zs), (lead_coef f.1.2 ^+ f.1.1 * c); split.
- by rewrite mulf_neq0 // expf_neq0 // lead_coef_eq0.
- rewrite /tlist /= -/(tlist fs); apply: all2_cat => //.
  elim: (f.2) ys dys {Hq szd pw Hr} => [|d ds IHd] [|y ys] //= /andP [dy dys].
  by rewrite /in_tdisc /= dy IHd.
rewrite big_cons Hc /tlist /= -/(tlist fs) mprod_cat ?size_map ?(all2_size dys) //.
rewrite mprod_const ?(all2_size dys) // {1}Hq exprZn.
by rewrite -scalerAl -scalerAr scalerA.
Qed.

(* Main mathematical statement behind cert_sound *)
Theorem located_of_factors (P : {poly C}) (g a : C) fs :
  g != 0 -> a != 0 ->
  g *: P = a *: \prod_(f <- fs) f.1.2 ^+ f.1.1 ->
  (forall f, f \in fs -> factor_located f) ->
  exists zs, [/\ P != 0, all2 in_tdisc (tlist fs) zs
      & P = lead_coef P *: mprod (tlist fs) zs].
Proof.
move=> gn0 an0 HP H.
have [zs [c [cn0 dzs Hc]]] := factors_located H.
exists zs.
have PE : P = (g^-1 * a * c) *: mprod (tlist fs) zs.
  rewrite -!scalerA -Hc -HP scalerA mulVf // scale1r //.
have kn0 : g^-1 * a * c != 0 by rewrite !mulf_neq0 // invr_eq0.
have mn0 := monic_neq0 (monic_mprod (tlist fs) zs).
split=> //.
  by rewrite PE scaler_eq0 negb_or kn0.
by rewrite {1}PE; congr (_ *: _); rewrite PE lead_coefZ (monicP (monic_mprod _ _)) mulr1.
Qed.

(* ---------- counting roots from a factorisation ---------- *)

(* the multiset of roots described by (multiplicity, root) pairs *)
Definition mroots (tl : seq (nat * (C * C))) (zs : seq C) : seq C :=
  flatten [seq nseq mz.1.1 mz.2 | mz <- zip tl zs].

Lemma mprod_mroots tl zs : mprod tl zs = \prod_(z <- mroots tl zs) ('X - z%:P).
Proof.
rewrite /mprod /mroots; elim: (zip tl zs) => [|mz l IH] /=; first by rewrite !big_nil.
rewrite big_cons big_cat /= -IH; congr (_ * _).
by elim: (mz.1.1) => [|n IHn] /=; rewrite ?big_nil ?expr0 // big_cons exprS IHn.
Qed.

Lemma mu_prod_XsubC (rs : seq C) x :
  \mu_x (\prod_(z <- rs) ('X - z%:P)) = count_mem x rs.
Proof.
elim: rs => [|y rs IH]; first by rewrite big_nil mu_polyC.
rewrite big_cons /= mu_mul; last first.
  by rewrite mulf_neq0 ?polyXsubC_eq0 // monic_neq0 // monic_prod_XsubC.
rewrite IH; congr (_ + _)%N.
case: eqP => [->|ne]; first by rewrite mu_XsubC.
by rewrite muNroot // root_XsubC; apply/eqP => xy; apply: ne.
Qed.

(* two complete factorisations have the same multiset of roots *)
Lemma roots_perm (a b : C) (rs ss : seq C) : a != 0 -> b != 0 ->
  a *: \prod_(z <- rs) ('X - z%:P) = b *: \prod_(z <- ss) ('X - z%:P) ->
  perm_eq rs ss.
Proof.
move=> an0 bn0 E; apply/allP => x _ /=.
by rewrite -!mu_prod_XsubC -(mu_mulC _ _ an0) E mu_mulC.
Qed.

Lemma count_mroots (D : pred C) tl zs :
  count D (mroots tl zs) = (\sum_(mz <- zip tl zs | D mz.2) mz.1.1)%N.
Proof.
rewrite /mroots; elim: (zip tl zs) => [|mz l IH] /=; first by rewrite big_nil.
by rewrite count_cat count_nseq IH big_cons; case: (D mz.2); rewrite ?mul1n ?mul0n.
Qed.

(* number of roots (with multiplicity, over any complete factorisation rs of P) in D *)
Theorem count_located (D : pred C) (P : {poly C}) tl zs (a : C) (rs : seq C) :
  P != 0 -> P = lead_coef P *: mprod tl zs ->
  P = a *: \prod_(z <- rs) ('X - z%:P) ->
  count D rs = (\sum_(mz <- zip tl zs | D mz.2) mz.1.1)%N.
Proof.
move=> Pn0 HP Hrs.
have an0 : a != 0 by apply: contraNneq Pn0 => a0; rewrite Hrs a0 scale0r.
have lcn0 : lead_coef P != 0 by rewrite lead_coef_eq0.
rewrite -count_mroots; apply/permP/roots_perm; [exact: an0|exact: lcn0|].
by rewrite -Hrs -mprod_mroots -HP.
Qed.

Lemma root_located (P : {poly C}) tl zs w : size tl = size zs ->
  (forall md, md \in tl -> (0 < md.1)%N) ->
  P != 0 -> P = lead_coef P *: mprod tl zs -> root P w = (w \in zs).
Proof.
move=> sz mpos Pn0 HP.
have lcn0 : lead_coef P != 0 by rewrite lead_coef_eq0.
rewrite {1}HP rootZ // /mprod.
elim: tl zs sz mpos {HP} => [|md tl IH] [|z zs] //=.
  by rewrite big_nil in_nil (negbTE (root1 _)).
case=> sz mpos; rewrite big_cons rootM inE IH //; last first.
  by move=> e ein; apply: mpos; rewrite inE ein orbT.
congr (_ || _).
have /prednK <- : (0 < md.1)%N by apply: mpos; rewrite mem_head.
by rewrite root_exp_XsubC.
Qed.

Lemma mem_zip2 (T U : eqType) (s : seq T) (t : seq U) x : x \in zip s t -> x.2 \in t.
Proof.
elim: s t => [|a s IH] [|b t] //=; rewrite !inE => /orP [/eqP ->|/IH ->] /=;
  by rewrite ?eqxx ?orbT.
Qed.

(* the located point of a tiny disc has exactly the announced multiplicity *)
Lemma mu_mprod tl zs md z : uniq zs -> (md, z) \in zip tl zs -> \mu_z (mprod tl zs) = md.1.
Proof.
move=> uzs zin; rewrite mprod_mroots mu_prod_XsubC (count_mroots (pred1 z)).
elim: tl zs uzs zin => [|e tl IH] [|y zs] //= /andP [ynotin uzs].
rewrite inE big_cons => /orP [/eqP [E1 E2]|zin].
  move: ynotin; rewrite -E1 -E2 /= eqxx => znotin.
  rewrite big1_seq ?addn0 // => mz /andP [/eqP E /mem_zip2].
  by rewrite E (negbTE znotin).
have zy : (y == z) = false.
  by apply/eqP => E; move: ynotin; rewrite E (mem_zip2 zin).
by rewrite /= zy IH.
Qed.

End Isolate.
