(* Certified root oracle: the executable certificate checker and the queries
   (definitions only; this file is what gets extracted to ocaml/cert.ml).

   TRUSTED BASE of an answer of bin/cert ("mpscert"):
   - the Coq kernel (coqc 8.16.1) and, for the soundness theorems in
     CertSound.v / QuerySound.v, MathComp 1.15 + mathcomp.zify (ssrZ: the
     Z -> int ring morphism) + algebra-tactics; no axioms are expected in
     `Print Assumptions` (Props/Properties_ORACLE.v prints them: all 17 closed);
   - Coq's extraction to OCaml with ExtrOcamlBasic + ExtrOcamlNativeString only
     (Z, positive, nat stay the extracted inductive types), the OCaml compiler;
   - ocaml/cert_driver.ml: parsing of the line protocol, conversion of decimal /
     hexadecimal integer literals to the extracted Z, printing; it contains no
     arithmetic on the data besides these conversions;
   - lib/oracle.py only passes data (Fractions -> integer literals) and reads the
     answers back; the hint generator lib/oracle_hints.py (mpmath/sympy) is NOT
     trusted: everything it proposes is re-checked by cert_check.

   MEANING (theorem cert_sound in CertSound.v), for every numClosedFieldType C:
   if cert_check P cert = true then P (Gaussian-rational coefficients, low degree
   first) is non-zero as a polynomial over C and there is a list zs of elements of
   C, one per tiny disc of the certificate (in the order of tiny_list cert), with
     - zs_i in the closed tiny disc i (centre (a+ib)/s, radius r/s),
     - P = lead_coef P * prod_i (X - zs_i)^(m_i)   (m_i = multiplicity of the factor
       the disc belongs to), hence the zs_i are all the roots of P,
     - the zs_i are pairwise distinct (the tiny discs are pairwise disjoint), so
       the multiplicity of zs_i in P is exactly m_i.
   Each tiny disc is validated by the Newton test  n |q(x)| <= r |q'(x)|  at its centre x,
   either in exact Gaussian-integer arithmetic (newton_ok) or, when the factor carries a
   precision hint K > 0, in truncated ball arithmetic with scale 2^K (newton_ok_trunc,
   sound for every K: Trunc.v); a bad K can only make the check fail.
   The queries (count_bounds, cover, side_re, side_im, side_unit) are comparisons of integers between
   tiny discs and query discs; QuerySound.v turns them into statements about the
   number of roots of P (counted with multiplicity) in a closed query disc. *)
From Coq Require Import ZArith List Bool.
From MPSV Require Import Roots.GaussZ Roots.PolyZ.
Import ListNotations.
Open Scope Z_scope.

(* ---------- data ---------- *)

(* a Gaussian rational  re_n/re_d + i im_n/im_d *)
Record rcoef := RCoef { re_n : Z; re_d : Z; im_n : Z; im_d : Z }.

(* closed disc with centre (fst dc + i snd dc)/ds and radius dr/ds, ds > 0, dr >= 0 *)
Record disc := Disc { dc : G; dr : Z; ds : Z }.

(* query disc given by rationals: centre q_c, radius q_rn/q_rd *)
Record rdisc := RDisc { q_c : rcoef; q_rn : Z; q_rd : Z }.

(* square-free factor f_q of multiplicity f_m with one tiny disc per root;
   f_prec = K > 0 selects the truncated Newton test with 2^K fixed-point scaling,
   K <= 0 the exact one (both are proved sound; K is an untrusted hint) *)
Record factor := Factor { f_m : nat; f_prec : Z; f_q : poly; f_discs : list disc }.

(* certificate: c_scale * P = c_pint  (coefficientwise, over Q(i)),
                c_g * c_pint = c_a * prod_k (f_q k)^(f_m k)  (over Z[i]) *)
Record cert := Cert { c_scale : Z; c_pint : poly; c_g : G; c_a : G;
                      c_factors : list factor }.

Definition zsq (x : Z) : Z := x * x.

(* ---------- discs ---------- *)

Definition disc_wf (t : disc) : bool := (0 <? ds t) && (0 <=? dr t).

(* centre (a + i b) * 2^e, radius r * 2^e  (used for the dyadic hints) *)
Definition disc_of_dyadic (a b r e : Z) : disc :=
  if e <? 0 then Disc (a, b) r (2 ^ (- e))
  else let k := 2 ^ e in Disc (k * a, k * b) (k * r) 1.

Definition mkdisc (q : rdisc) : option disc :=
  let c := q_c q in
  if (0 <? re_d c) && (0 <? im_d c) && (0 <? q_rd q) && (0 <=? q_rn q) then
    Some (Disc (re_n c * (im_d c * q_rd q), im_n c * (re_d c * q_rd q))
               (q_rn q * (re_d c * im_d c))
               (re_d c * (im_d c * q_rd q)))
  else None.

(* numerator of centre(t) - centre(q) over the common denominator ds t * ds q *)
Definition disc_diff (t q : disc) : G :=
  gsub (gscale (ds q) (dc t)) (gscale (ds t) (dc q)).

(* t is contained in q:  |c_t - c_q| + r_t <= r_q *)
Definition disc_inside (t q : disc) : bool :=
  let e := ds t * dr q - ds q * dr t in
  (0 <=? e) && (gnorm2 (disc_diff t q) <=? zsq e).

(* t and q are disjoint:  |c_t - c_q| > r_t + r_q *)
Definition disc_disjoint (t q : disc) : bool :=
  zsq (ds t * dr q + ds q * dr t) <? gnorm2 (disc_diff t q).

Fixpoint pairwise_disjoint (l : list disc) : bool :=
  match l with
  | [] => true
  | t :: r => forallb (disc_disjoint t) r && pairwise_disjoint r
  end.

(* ---------- certificate checking ---------- *)

(* c * (re_n/re_d + i im_n/im_d) = g, checked by cross-multiplication *)
Definition coef_scaled (c : Z) (x : rcoef) (g : G) : bool :=
  negb (re_d x =? 0) && negb (im_d x =? 0) &&
  (c * re_n x =? fst g * re_d x) && (c * im_n x =? snd g * im_d x).

Fixpoint coefs_scaled (c : Z) (P : list rcoef) (Pi : poly) : bool :=
  match P, Pi with
  | [], [] => true
  | x :: P', g :: Pi' => coef_scaled c x g && coefs_scaled c P' Pi'
  | _, _ => false
  end.

Definition scaling_ok (P : list rcoef) (ct : cert) : bool :=
  negb (c_scale ct =? 0) && coefs_scaled (c_scale ct) P (c_pint ct).

Fixpoint factors_prod (fs : list factor) : poly :=
  match fs with
  | [] => [gone]
  | f :: fs' => pmul (ppow (f_q f) (f_m f)) (factors_prod fs')
  end.

Definition product_ok (ct : cert) : bool :=
  negb (gis0 (c_g ct)) && negb (gis0 (c_a ct)) &&
  peqb (pscale (c_g ct) (c_pint ct)) (pscale (c_a ct) (factors_prod (c_factors ct))).

(* Newton test: q'(x) <> 0 and n |q(x)| <= r |q'(x)| at x = centre of t, where
   n = length q - 1 and r = radius of t *)
Definition newton_ok (q : poly) (t : disc) : bool :=
  let '(v, d, _) := peval2 q (dc t) (ds t) in
  let n := Z.of_nat (pred (length q)) in
  (0 <? gnorm2 d) && (zsq (n * ds t) * gnorm2 v <=? zsq (dr t) * gnorm2 d).

(* ---- the same test with truncated (ball) arithmetic: cost independent of the degree ---- *)

(* floor division by s > 0; a shift when s is a power of two *)
Definition divs (a s : Z) : Z :=
  let k := Z.log2 s in
  if s =? Z.shiftl 1 k then Z.shiftr a k else a / s.
Definition gdivs (x : G) (s : Z) : G := (divs (fst x) s, divs (snd x) s).

(* Ball evaluation at x = w/s with fixed-point scale M:  ((v, e), (d, ed)) with
   |M p(x) - v| <= e  and  |M p'(x) - d| <= ed,  where W >= |w|. *)
Fixpoint peval2_trunc (M : Z) (p : poly) (w : G) (s W : Z) : (G * Z) * (G * Z) :=
  match p with
  | [] => ((gzero, 0), (gzero, 0))
  | c :: q =>
      let '((v, e), (d, ed)) := peval2_trunc M q w s W in
      ((gadd (gdivs (gmul v w) s) (gscale M c), divs (e * W) s + 3),
       (gadd (gdivs (gmul d w) s) v, divs (ed * W) s + 3 + e))
  end.

Definition newton_ok_trunc (K : Z) (q : poly) (t : disc) : bool :=
  let M := 2 ^ K in
  let W := Z.sqrt (gnorm2 (dc t)) + 1 in
  let '((v, e), (d, ed)) := peval2_trunc M q (dc t) (ds t) W in
  let n := Z.of_nat (pred (length q)) in
  let nv := Z.sqrt (gnorm2 v) + 1 + e in      (* >= M |q(x)|  *)
  let nd := Z.sqrt (gnorm2 d) - ed in         (* <= M |q'(x)| *)
  (0 <? nd) && (n * ds t * nv <=? dr t * nd).

Definition newton_test (K : Z) (q : poly) (t : disc) : bool :=
  if 0 <? K then newton_ok_trunc K q t else newton_ok q t.

Definition factor_shape_ok (f : factor) : bool :=
  negb (Nat.eqb (f_m f) 0) && negb (gis0 (plead (f_q f))) &&
  Nat.eqb (length (f_discs f)) (pred (length (f_q f))) &&
  forallb disc_wf (f_discs f).

Definition factor_ok (f : factor) : bool :=
  factor_shape_ok f && forallb (newton_test (f_prec f) (f_q f)) (f_discs f).

Definition all_discs (ct : cert) : list disc := flat_map f_discs (c_factors ct).

Definition cert_check (P : list rcoef) (ct : cert) : bool :=
  scaling_ok P ct && product_ok ct && forallb factor_ok (c_factors ct) &&
  pairwise_disjoint (all_discs ct).

(* ---------- queries on a checked certificate ---------- *)

(* tiny discs with the multiplicity of their root, in certificate order *)
Definition tiny_list (ct : cert) : list (nat * disc) :=
  flat_map (fun f => map (pair (f_m f)) (f_discs f)) (c_factors ct).

Definition sum_mult (p : disc -> bool) (l : list (nat * disc)) : nat :=
  fold_right (fun mt acc => if p (snd mt) then (fst mt + acc)%nat else acc) O l.

(* (lo, hi): lo = multiplicities of the tiny discs contained in q,
             hi = multiplicities of the tiny discs not disjoint from q.
   The number of roots of P in the closed disc q, counted with multiplicity,
   lies in [lo, hi]. *)
Definition count_bounds_disc (ct : cert) (q : disc) : nat * nat :=
  let l := tiny_list ct in
  (sum_mult (fun t => disc_inside t q) l, sum_mult (fun t => negb (disc_disjoint t q)) l).

Definition count_bounds (ct : cert) (q : rdisc) : nat * nat :=
  match mkdisc q with
  | Some d => count_bounds_disc ct d
  | None => (O, sum_mult (fun _ => true) (tiny_list ct))
  end.

Fixpoint indices_from {A : Type} (p : A -> bool) (i : nat) (l : list A) : list nat :=
  match l with
  | [] => []
  | x :: r => if p x then i :: indices_from p (S i) r else indices_from p (S i) r
  end.

Definition rinside (t : disc) (q : rdisc) : bool :=
  match mkdisc q with Some d => disc_inside t d | None => false end.

(* for each tiny disc, the (0-based) indices of the query discs that contain it *)
Definition cover (ct : cert) (qs : list rdisc) : list (list nat) :=
  map (fun mt => indices_from (rinside (snd mt)) O qs) (tiny_list ct).

(* tiny discs that are disjoint from every query disc: their root is certainly uncovered *)
Definition rdisjoint (t : disc) (q : rdisc) : bool :=
  match mkdisc q with Some d => disc_disjoint t d | None => false end.
Definition uncovered (ct : cert) (qs : list rdisc) : list bool :=
  map (fun mt => forallb (rdisjoint (snd mt)) qs) (tiny_list ct).

Definition all_covered (ct : cert) (qs : list rdisc) : bool :=
  forallb (fun l => match l with [] => false | _ => true end) (cover ct qs).

(* strict side of the root of a tiny disc: Gt / Lt = certainly, Eq = straddles *)
(* real part: Gt: Re z > 0, Lt: Re z < 0 *)
Definition side_re (t : disc) : comparison :=
  if 0 <? fst (dc t) - dr t then Gt else if fst (dc t) + dr t <? 0 then Lt else Eq.
(* imaginary part: Gt: Im z > 0, Lt: Im z < 0 *)
Definition side_im (t : disc) : comparison :=
  if 0 <? snd (dc t) - dr t then Gt else if snd (dc t) + dr t <? 0 then Lt else Eq.
(* unit circle: Gt: |z| > 1, Lt: |z| < 1 *)
Definition side_unit (t : disc) : comparison :=
  if (0 <? ds t - dr t) && (gnorm2 (dc t) <? zsq (ds t - dr t)) then Lt
  else if zsq (ds t + dr t) <? gnorm2 (dc t) then Gt else Eq.

Definition sides (kind : nat) (ct : cert) : list comparison :=
  map (fun mt => match kind with
                 | O => side_re (snd mt)
                 | S O => side_im (snd mt)
                 | _ => side_unit (snd mt)
                 end) (tiny_list ct).

(* the tiny disc is symmetric w.r.t. the real axis (centre real): together with a
   real polynomial and disjointness this makes its root real (RealRoots.v) *)
Definition centre_real (t : disc) : bool := snd (dc t) =? 0.
Definition rcoef_real (x : rcoef) : bool := im_n x =? 0.
Definition real_roots (P : list rcoef) (ct : cert) : list bool :=
  map (fun mt => forallb rcoef_real P && centre_real (snd mt)) (tiny_list ct).
