(* Soundness of the truncated (ball-arithmetic) Newton test Cert.newton_ok_trunc.
   Combined-style file (stdlib Z facts about div/sqrt/shift + MathComp). *)
From Coq Require Import ZArith List.
From mathcomp Require Import all_ssreflect all_algebra.
From mathcomp Require Import ssrZ zify ring.
From MPSV Require Import Roots.GaussZ Roots.PolyZ Roots.Cert.
From MPSV Require Import Roots.NewtonDisc Roots.Isolate Roots.Bridge.
Set Implicit Arguments. Unset Strict Implicit. Unset Printing Implicit Defensive.
Import Order.TTheory GRing.Theory Num.Theory.
Local Open Scope ring_scope.

Arguments zsq : simpl never.
Arguments gnorm2 : simpl never.
Arguments divs : simpl never.

(* ---------- integer facts ---------- *)
Lemma divsE a s : Z.lt 0 s -> divs a s = Z.div a s.
Proof.
move=> s0; rewrite /divs; case: Z.eqb_spec => // E.
rewrite Z.shiftr_div_pow2; last exact: Z.log2_nonneg.
by rewrite -Z.shiftl_1_l -E.
Qed.

Lemma divs_spec a s : Z.lt 0 s ->
  exists r, [/\ a = Z.add (Z.mul s (divs a s)) r, Z.leb 0 r & Z.ltb r s].
Proof.
move=> s0; rewrite divsE //; exists (Z.modulo a s).
have := Z.mod_pos_bound a s s0; have := Z.div_mod a s.
by split; lia.
Qed.

Lemma sqrt_spec n : Z.leb 0 n ->
  [/\ Z.leb 0 (Z.sqrt n), Z.leb (zsq (Z.sqrt n)) n & Z.ltb n (zsq (Z.add (Z.sqrt n) 1))].
Proof.
move=> n0; have := Z.sqrt_spec n; have := Z.sqrt_nonneg n; rewrite /zsq /=.
by split; lia.
Qed.

Lemma gnorm2_ge0 g : Z.leb 0 (gnorm2 g).
Proof. by rewrite /gnorm2; nia. Qed.

Section Trunc.
Variable C : numClosedFieldType.
Notation Z2C := (@Z2C C).
Notation G2C := (@G2C C).
Notation P2C := (@P2C C).
Notation disc2C := (@disc2C C).
Notation Z2C_gt0 := (@Z2C_gt0 C).
Notation Z2C_ge0 := (@Z2C_ge0 C).
Notation Z2C_le := (@Z2C_le C).
Notation Z2C_lt := (@Z2C_lt C).

(* fractional part of a/s *)
Lemma divsC a s : Z.lt 0 s ->
  let f := Z2C a / Z2C s - Z2C (divs a s) in [/\ f \is Num.real, 0 <= f & f < 1].
Proof.
move=> s0 /=; have [r [Ea r0 rs]] := divs_spec a s0.
have S0 : 0 < Z2C s by rewrite Z2C_gt0; apply/Z.ltb_lt.
have -> : Z2C a / Z2C s - Z2C (divs a s) = Z2C r / Z2C s.
  by rewrite {1}Ea Z2C_add Z2C_mul; field; rewrite lt0r_neq0.
split.
- by rewrite rpred_div ?Z2C_real.
- by rewrite divr_ge0 ?(ltW S0) // Z2C_ge0.
by rewrite ltr_pdivr_mulr // mul1r Z2C_lt.
Qed.

Lemma gdivsC T s : Z.lt 0 s -> `|G2C T / Z2C s - G2C (gdivs T s)| <= 2%:R.
Proof.
move=> s0; have [r1 p1 l1] := divsC T.1 s0; have [r2 p2 l2] := divsC T.2 s0.
set f1 := _ - _ in r1 p1 l1; set f2 := _ - _ in r2 p2 l2.
have -> : G2C T / Z2C s - G2C (gdivs T s) = f1 + 'i * f2.
  rewrite /Bridge.G2C /gdivs /= /f1 /f2 mulrDl -mulrA; ring.
apply: le_trans (ler_norm_add _ _) _.
rewrite normrM normCi mul1r (ger0_norm p1) (ger0_norm p2).
by rewrite (natrD _ 1 1) ler_add // ltW.
Qed.

Lemma sqrt_up g : `|G2C g| < Z2C (Z.sqrt (gnorm2 g) + 1).
Proof.
have [s0 _ H] := sqrt_spec (gnorm2_ge0 g).
apply: lt_of_sqr; rewrite ?normr_ge0 //.
  by rewrite Z2C_add Z2C_1 addr_ge0 ?ler01 // Z2C_ge0.
by rewrite -G2C_norm2 -Z2C_sq Z2C_lt.
Qed.

Lemma sqrt_lo g : Z2C (Z.sqrt (gnorm2 g)) <= `|G2C g|.
Proof.
have [s0 H _] := sqrt_spec (gnorm2_ge0 g).
apply: le_of_sqr; rewrite ?normr_ge0 ?Z2C_ge0 //.
by rewrite -G2C_norm2 -Z2C_sq Z2C_le.
Qed.

(* |a| <= e, |x| <= W/s  ==>  |a x| <= floor(e W / s) + 1 *)
Lemma ball_mul (a x : C) e W s : Z.lt 0 s -> `|a| <= Z2C e -> `|x| <= Z2C W / Z2C s ->
  `|a * x| <= Z2C (divs (e * W) s) + 1.
Proof.
move=> s0 ae xW; have [_ _ lt1] := divsC (e * W) s0.
have S0 : 0 < Z2C s by rewrite Z2C_gt0; apply/Z.ltb_lt.
rewrite normrM; apply: le_trans (ler_pmul (normr_ge0 _) (normr_ge0 _) ae xW) _.
by rewrite mulrA -Z2C_mul; move: lt1; rewrite ltr_subl_addl addrC => /ltW.
Qed.

Lemma peval2_truncP M p w s W : Z.lt 0 s -> `|G2C w| <= Z2C W ->
  let x := G2C w / Z2C s in
  let r := peval2_trunc M p w s W in
  [/\ 0 <= Z2C r.1.2, 0 <= Z2C r.2.2,
      `|Z2C M * (P2C p).[x] - G2C r.1.1| <= Z2C r.1.2
    & `|Z2C M * (P2C p)^`().[x] - G2C r.2.1| <= Z2C r.2.2].
Proof.
move=> s0 wW x /=.
have S0 : 0 < Z2C s by rewrite Z2C_gt0; apply/Z.ltb_lt.
have xW : `|x| <= Z2C W / Z2C s.
  by rewrite /x normf_div (gtr0_norm S0) ler_pmul2r // invr_gt0.
elim: p => [|c q] /=.
  rewrite P2C_nil deriv0 !horner0 mulr0 G2C_0 subrr normr0; split; rewrite /Bridge.Z2C /=; exact: lexx.
case E: (peval2_trunc M q w s W) => [[v e] [d ed]] /= [e0 ed0 Hv Hd].
have Bv := ball_mul s0 Hv xW; have Bd := ball_mul s0 Hd xW.
have Gv := gdivsC (gmul v w) s0; have Gd := gdivsC (gmul d w) s0.
have three : Z2C (Z.pos 3) = 1 + 2%:R.
  by rewrite -[Z.pos 3]/(Z.of_nat 3) Z2C_nat (natrD _ 1 2).
have e'0 : 0 <= Z2C (Z.add (divs (Z.mul e W) s) (Z.pos 3)).
  rewrite Z2C_add; apply: le_trans (le_trans (normr_ge0 _) Bv) _.
  by rewrite ler_add2l three ler_addl ler0n.
split=> //.
- rewrite !Z2C_add addr_ge0 //; apply: le_trans (le_trans (normr_ge0 _) Bd) _.
  by rewrite ler_add2l three ler_addl ler0n.
- rewrite P2C_cons hornerMXaddC G2C_add G2C_scale Z2C_add three.
  have -> : Z2C M * ((P2C q).[x] * x + G2C c) - (G2C (gdivs (gmul v w) s) + Z2C M * G2C c)
      = (Z2C M * (P2C q).[x] - G2C v) * x + (G2C (gmul v w) / Z2C s - G2C (gdivs (gmul v w) s)).
    by rewrite G2C_mul /x; field; rewrite lt0r_neq0.
  by rewrite [X in _ <= X]addrA; apply: le_trans (ler_norm_add _ _) (ler_add Bv Gv).
rewrite P2C_cons derivMXaddC hornerD hornerM hornerX G2C_add !Z2C_add three.
have -> : Z2C M * ((P2C q).[x] + (P2C q)^`().[x] * x) - (G2C (gdivs (gmul d w) s) + G2C v)
    = (Z2C M * (P2C q)^`().[x] - G2C d) * x
      + (G2C (gmul d w) / Z2C s - G2C (gdivs (gmul d w) s))
      + (Z2C M * (P2C q).[x] - G2C v).
  by rewrite G2C_mul /x; field; rewrite lt0r_neq0.
apply: le_trans (ler_norm_add _ _) (ler_add _ Hv).
by rewrite [X in _ <= X]addrA; apply: le_trans (ler_norm_add _ _) (ler_add Bd Gd).
Qed.

Lemma newton_ok_truncP K q t : Z.lt 0 K -> disc_wf t -> ~~ gis0 (plead q) ->
  newton_ok_trunc K q t -> exists2 z, root (P2C q) z & in_disc (disc2C t) z.
Proof.
move=> K0 wt lq; have [s0 r0] := @disc_wfP C _ wt.
have s0' : Z.lt 0 (ds t) by apply/Z.ltb_lt; rewrite -Z2C_gt0.
have M0 : 0 < Z2C (2 ^ K).
  by rewrite Z2C_gt0; apply/Z.ltb_lt; apply: Z.pow_pos_nonneg => //; lia.
rewrite /newton_ok_trunc.
have [] := @peval2_truncP (2 ^ K) q (dc t) (ds t) _ s0' (ltW (sqrt_up (dc t))).
case E: (peval2_trunc _ _ _ _ _) => [[v e] [d ed]] /= e0 ed0 Hv Hd /andP [].
set x := G2C (dc t) / Z2C (ds t) in Hv Hd *; set p := P2C q in Hv Hd *.
set M := Z2C (2 ^ K) in M0 Hv Hd.
rewrite -Z2C_gt0 -Z2C_le !Z2C_mul Z2C_nat Z2C_sub !Z2C_add Z2C_1 => nd0 H.
(* M |p'(x)| >= nd > 0 *)
have Hd' : Z2C (Z.sqrt (gnorm2 d)) - Z2C ed <= M * `|p^`().[x]|.
  rewrite ler_subl_addr; apply: le_trans (sqrt_lo d) _.
  have -> : M * `|p^`().[x]| = `|M * p^`().[x]| by rewrite normrM (gtr0_norm M0).
  rewrite -{1}[G2C d](subKr (M * p^`().[x])).
  by apply: le_trans (ler_norm_sub _ _) _; rewrite ler_add2l.
have Hv' : M * `|p.[x]| <= Z2C (Z.sqrt (gnorm2 v)) + 1 + Z2C e.
  have -> : M * `|p.[x]| = `|M * p.[x]| by rewrite normrM (gtr0_norm M0).
  rewrite -[M * p.[x]](subrK (G2C v)).
  apply: le_trans (ler_norm_add _ _) _; rewrite addrC ler_add //.
  by have := sqrt_up v; rewrite Z2C_add Z2C_1 => /ltW.
have d'0 : 0 < `|p^`().[x]|.
  by rewrite -(pmulr_rgt0 _ M0); apply: lt_le_trans nd0 Hd'.
have dn0 : p^`().[x] != 0 by rewrite -normr_gt0.
have pn0 : p != 0 by apply: P2C_neq0.
have [z rz Hz] := newton_disc pn0 dn0.
exists z => //; rewrite /in_disc /=; apply: le_trans Hz _.
rewrite (@P2C_size C _ lq) -/x.
rewrite normf_div mulrA ler_pdivl_mulr // mulrAC ler_pdivr_mulr //.
rewrite -(ler_pmul2l M0).
have -> : M * ((length q).-1%:R * `|p.[x]| * Z2C (ds t))
        = (length q).-1%:R * Z2C (ds t) * (M * `|p.[x]|) by ring.
have -> : M * (Z2C (dr t) * `|p^`().[x]|) = Z2C (dr t) * (M * `|p^`().[x]|) by ring.
apply: le_trans (le_trans _ H) _.
  by rewrite ler_wpmul2l // mulr_ge0 ?ler0n // ltW.
by rewrite ler_wpmul2l.
Qed.

End Trunc.
