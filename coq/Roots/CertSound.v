(* Soundness of the extracted certificate checker Cert.cert_check. *)
From Coq Require Import ZArith List.
From mathcomp Require Import all_ssreflect all_algebra.
From mathcomp Require Import ssrZ zify ring.
From MPSV Require Import Roots.GaussZ Roots.PolyZ Roots.Cert.
From MPSV Require Import Roots.NewtonDisc Roots.Isolate Roots.Bridge Roots.Trunc.
Set Implicit Arguments. Unset Strict Implicit. Unset Printing Implicit Defensive.
Import Order.TTheory GRing.Theory Num.Theory.
Local Open Scope ring_scope.

Arguments zsq : simpl never.
Arguments gnorm2 : simpl never.

Section CertSound.
Variable C : numClosedFieldType.
Notation Z2C := (@Z2C C).
Notation G2C := (@G2C C).
Notation P2C := (@P2C C).
Notation R2C := (@R2C C).
Notation disc2C := (@disc2C C).
Notation Z2C_gt0 := (@Z2C_gt0 C).
Notation Z2C_ge0 := (@Z2C_ge0 C).
Notation Z2C_le := (@Z2C_le C).
Notation Z2C_lt := (@Z2C_lt C).
Notation disc_wfP := (@disc_wfP C).
Notation P2C_size := (@P2C_size C).
Notation P2C_neq0 := (@P2C_neq0 C).

(* ---------- the Newton test ---------- *)
Lemma newton_okP q t : disc_wf t -> ~~ gis0 (plead q) -> newton_ok q t ->
  exists2 z, root (P2C q) z & in_disc (disc2C t) z.
Proof.
move=> /disc_wfP [s0 r0] lq.
have sn0 : Z2C (ds t) != 0 by rewrite lt0r_neq0.
rewrite /newton_ok.
have [] := @peval2P C q (dc t) (ds t) sn0.
case E: (peval2 q (dc t) (ds t)) => [[v d] sp] /= _ Hv Hd /andP [].
rewrite -Z2C_gt0 -Z2C_le [Z2C (_ * gnorm2 v)]Z2C_mul [Z2C (_ * gnorm2 d)]Z2C_mul.
rewrite !Z2C_sq !G2C_norm2 Z2C_mul Z2C_nat.
set x := G2C (dc t) / Z2C (ds t) in Hv Hd *.
set p := P2C q in Hv Hd *.
set T := Z2C (ds t) ^+ length q in Hv Hd.
have T0 : 0 < T by rewrite exprn_gt0.
move=> d0 H.
have dn0 : p^`().[x] != 0.
  apply: contraTneq d0 => px0.
  by rewrite Hd px0 mulr0 normr0 expr0n /= ltxx.
have pn0 : p != 0 by apply: P2C_neq0.
have [z rz Hz] := newton_disc pn0 dn0.
exists z => //; rewrite /in_disc /=; apply: le_trans Hz _.
rewrite (P2C_size lq) -/x.
have d'0 : 0 < `|p^`().[x]| by rewrite normr_gt0.
rewrite normf_div mulrA ler_pdivl_mulr // mulrAC ler_pdivr_mulr //.
move: H; rewrite -!exprMn => /le_of_sqr.
rewrite Hv Hd !normrM (gtr0_norm T0) => H.
rewrite -(ler_pmul2l T0).
have -> : T * ((length q).-1%:R * `|p.[x]| * Z2C (ds t))
        = (length q).-1%:R * Z2C (ds t) * (T * `|p.[x]|) by ring.
have -> : T * (Z2C (dr t) * `|p^`().[x]|) = Z2C (dr t) * (T * `|p^`().[x]|) by ring.
apply: H.
  by rewrite !mulr_ge0 ?ler0n ?normr_ge0 ?(ltW s0) ?(ltW T0).
by rewrite !mulr_ge0 ?normr_ge0 ?(ltW T0).
Qed.

Lemma newton_testP K q t : disc_wf t -> ~~ gis0 (plead q) -> newton_test K q t ->
  exists2 z, root (P2C q) z & in_disc (disc2C t) z.
Proof.
move=> wt lq; rewrite /newton_test; case: ifP => [/Z.ltb_lt K0|_].
  exact: newton_ok_truncP.
exact: newton_okP.
Qed.

(* ---------- disjointness ---------- *)
Lemma all_disjointP t (l : list disc) : disc_wf t -> all disc_wf l ->
  forallb (disc_disjoint t) l -> all (@disjoint C (disc2C t)) (map disc2C l).
Proof.
move=> wt; elim: l => [|u l IH] //= /andP [wu wl] /andP [Hu Hl].
by rewrite IH // andbT; apply: disc_disjointP.
Qed.

Lemma pairwise_disjointP (l : list disc) :
  all disc_wf l -> pairwise_disjoint l -> pairwise (@disjoint C) (map disc2C l).
Proof.
elim: l => [|t l IH] //= /andP [wt wl] /andP [Ht Hl].
by rewrite IH // andbT all_disjointP.
Qed.

Lemma pairwise_flatten_mem (T : Type) (r : rel T) (ss : seq (seq T)) :
  pairwise r (flatten ss) -> all (pairwise r) ss.
Proof.
by elim: ss => [|s ss IH] //=; rewrite pairwise_cat => /and3P [_ -> /IH].
Qed.

(* ---------- factors ---------- *)
Definition f2C (f : factor) : mfactor C :=
  (f_m f, P2C (f_q f), map disc2C (f_discs f)).

Definition tiny2C (ct : cert) : seq (nat * (C * C)) :=
  [seq (mt.1, disc2C mt.2) | mt <- tiny_list ct].

Lemma tlist_tiny2C ct : tlist (map f2C (c_factors ct)) = tiny2C ct.
Proof.
rewrite /tiny2C /tiny_list /tlist; elim: (c_factors ct) => [|f fs IH] //=.
rewrite IH map_cat; congr (_ ++ _).
by rewrite List_map_map -!map_comp.
Qed.

Lemma factors_prodP fs :
  P2C (factors_prod fs) = \prod_(f <- map f2C fs) f.1.2 ^+ f.1.1.
Proof.
elim: fs => [|f fs IH] /=; first by rewrite big_nil P2C_one.
by rewrite big_cons P2C_mul P2C_pow IH.
Qed.

Lemma newton_allP K q (l : list disc) : ~~ gis0 (plead q) ->
  all disc_wf l -> all (newton_test K q) l ->
  forall d, d \in map disc2C l -> exists2 z, root (P2C q) z & in_disc d z.
Proof.
move=> lq; elim: l => [|t l IH] //= /andP [wt wl] /andP [nt nl] d.
rewrite inE => /orP [/eqP ->|]; first exact: newton_testP nt.
exact: IH.
Qed.

Lemma factor_okP f : factor_ok f -> pairwise (@disjoint C) (map disc2C (f_discs f)) ->
  factor_located (f2C f).
Proof.
case/andP => /andP [/andP [/andP [m0 lq] /Nat.eqb_spec szd]]; rewrite !forallb_all => wf nt pw.
split=> //=.
- exact: P2C_neq0.
- by rewrite size_map P2C_size.
exact: newton_allP nt.
Qed.

Lemma factors_okP (fs : list factor) : all factor_ok fs ->
  all (pairwise (@disjoint C)) [seq map disc2C (f_discs f) | f <- fs] ->
  forall f, f \in map f2C fs -> factor_located f.
Proof.
elim: fs => [|f fs IH] //= /andP [fo fos] /andP [pw pws] g.
rewrite inE => /orP [/eqP ->|]; first exact: factor_okP.
exact: IH.
Qed.

Lemma factors_mpos (fs : list factor) : all factor_ok fs ->
  all (fun md : nat * (C * C) => 0 < md.1)%N (tlist (map f2C fs)).
Proof.
rewrite /tlist; elim: fs => [|f fs IH] //= /andP [fo fos]; rewrite all_cat IH // andbT.
case/andP: fo => /andP [/andP [/andP [m0 _] _] _] _.
rewrite all_map; apply/allP => d _ /=.
by rewrite lt0n; apply/eqP => E; move: m0; rewrite E.
Qed.

Lemma all_discs_wf ct : all factor_ok (c_factors ct) -> all disc_wf (all_discs ct).
Proof.
rewrite /all_discs; elim: (c_factors ct) => [|f fs IH] //= /andP [fo /IH H].
rewrite all_cat H andbT.
by case/andP: fo => /andP [_]; rewrite forallb_all.
Qed.

Lemma all2_in_tdisc (tl : seq (nat * (C * C))) zs :
  all2 (@in_tdisc C) tl zs = all2 (@in_disc C) (map snd tl) zs.
Proof. by elim: tl zs => [|t tl IH] [|z zs] //=; rewrite IH. Qed.

Lemma map_snd_tiny2C ct : map snd (tiny2C ct) = map disc2C (all_discs ct).
Proof.
rewrite /tiny2C /tiny_list /all_discs; elim: (c_factors ct) => [|f fs IH] //=.
rewrite !map_cat IH; congr (_ ++ _).
by rewrite List_map_map -!map_comp.
Qed.

(* what a checked certificate means *)
Record cert_located (P : list rcoef) (ct : cert) (zs : seq C) : Prop := CertLocated {
  cl_neq0 : R2C P != 0;
  cl_in : all2 (@in_tdisc C) (tiny2C ct) zs;
  cl_uniq : uniq zs;
  cl_disj : pairwise (@disjoint C) (map snd (tiny2C ct));
  cl_wf : all (disc_wf \o snd) (tiny_list ct);
  cl_mpos : all (fun md : nat * (C * C) => 0 < md.1)%N (tiny2C ct);
  cl_fact : R2C P = lead_coef (R2C P) *: mprod (tiny2C ct) zs }.

Theorem cert_sound (P : list rcoef) (ct : cert) :
  cert_check P ct = true -> exists zs, cert_located P ct zs.
Proof.
case/andP => /andP [/andP [/andP [c0 Hsc] /andP [/andP [g0 a0] Hprod]]].
rewrite forallb_all => Hf Hpw.
have wf := all_discs_wf Hf.
have pw := pairwise_disjointP wf Hpw.
have pwf : all (pairwise (@disjoint C)) [seq map disc2C (f_discs f) | f <- c_factors ct].
  apply: pairwise_flatten_mem; move: pw; rewrite /all_discs.
  suff -> : map disc2C (flat_map f_discs (c_factors ct))
          = flatten [seq map disc2C (f_discs f) | f <- c_factors ct] by [].
  by elim: (c_factors ct) => [|f fs IH] //=; rewrite map_cat IH.
have Hloc := factors_okP Hf pwf.
have cn0 : Z2C (c_scale ct) != 0 by rewrite Z2C_eq0.
have gn0 : G2C (c_g ct) != 0 by rewrite G2C_eq0.
have an0 : G2C (c_a ct) != 0 by rewrite G2C_eq0.
have HP : (G2C (c_g ct) * Z2C (c_scale ct)) *: R2C P
        = G2C (c_a ct) *: \prod_(f <- map f2C (c_factors ct)) f.1.2 ^+ f.1.1.
  by rewrite -scalerA (@coefs_scaledP C _ _ _ Hsc) -!P2C_scale (@peqbP C _ _ Hprod) P2C_scale factors_prodP.
have [zs [Pn0 dzs HPz]] := located_of_factors (mulf_neq0 gn0 cn0) an0 HP Hloc.
rewrite tlist_tiny2C in dzs HPz.
have pw' : pairwise (@disjoint C) (map snd (tiny2C ct)) by rewrite map_snd_tiny2C.
exists zs; split=> //.
- by apply: (@disjoint_uniq C (map snd (tiny2C ct))) => //; rewrite -all2_in_tdisc.
- move: wf; rewrite /all_discs /tiny_list.
  elim: (c_factors ct) => [|f fs IH] //=; rewrite !all_cat => /andP [w1 /IH ->].
  by rewrite andbT List_map_map all_map.
by rewrite -tlist_tiny2C factors_mpos.
Qed.

End CertSound.
