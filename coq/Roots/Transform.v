(* Exact conversion of secular equations and Chebyshev-basis polynomials to monomial
   coefficients (Gaussian rationals with a common denominator; no gcd reduction).
   Definitions only (extracted); theorems in TransformSound.v. *)
From Coq Require Import ZArith List Bool.
From MPSV Require Import Roots.GaussZ Roots.PolyZ Roots.Cert.
Import ListNotations.
Open Scope Z_scope.

(* Gaussian rational (numerator, common non-zero denominator) *)
Definition gq := (G * Z)%type.

Definition gq_of_rcoef (x : rcoef) : gq :=
  ((re_n x * im_d x, im_n x * re_d x), re_d x * im_d x).
Definition rcoef_of_gq (x : gq) : rcoef :=
  RCoef (fst (fst x)) (snd x) (snd (fst x)) (snd x).
Definition rcoef_wf (x : rcoef) : bool := negb (re_d x =? 0) && negb (im_d x =? 0).

Definition gq_zero : gq := (gzero, 1).
Definition gq_one : gq := (gone, 1).
Definition gq_two : gq := ((2, 0), 1).
Definition gq_add (x y : gq) : gq :=
  (gadd (gscale (snd y) (fst x)) (gscale (snd x) (fst y)), snd x * snd y).
Definition gq_mul (x y : gq) : gq := (gmul (fst x) (fst y), snd x * snd y).
Definition gq_opp (x : gq) : gq := (gopp (fst x), snd x).

Definition qpoly := list gq.

Fixpoint qpadd (p q : qpoly) : qpoly :=
  match p, q with
  | [], _ => q
  | _, [] => p
  | a :: p', b :: q' => gq_add a b :: qpadd p' q'
  end.
Definition qpscale (c : gq) (p : qpoly) : qpoly := map (gq_mul c) p.
Definition qpsub (p q : qpoly) : qpoly := qpadd p (qpscale (gq_opp gq_one) q).
(* p * (X - b) *)
Definition qp_mul_lin (p : qpoly) (b : gq) : qpoly :=
  qpadd (gq_zero :: p) (qpscale (gq_opp b) p).

(* sum_i a_i / (x - b_i) = N / D with D = prod (X - b_i): returns (N, D) *)
Fixpoint secular_nd (ab : list (gq * gq)) : qpoly * qpoly :=
  match ab with
  | [] => ([], [gq_one])
  | (a, b) :: r =>
      let '(N, D) := secular_nd r in
      (qpadd (qp_mul_lin N b) (qpscale a D), qp_mul_lin D b)
  end.

(* D - N: the roots of  sum_i a_i / (x - b_i) - 1 = 0  (b_i distinct, a_i <> 0) *)
Definition secular_poly (ab : list (gq * gq)) : qpoly :=
  let '(N, D) := secular_nd ab in qpsub D N.

Definition secular_to_monomial (ab : list (rcoef * rcoef)) : list rcoef :=
  map rcoef_of_gq
      (secular_poly (map (fun x => (gq_of_rcoef (fst x), gq_of_rcoef (snd x))) ab)).

(* sum_k c_k T_(n+k) given t0 = T_n, t1 = T_(n+1);  T_(n+2) = 2 X T_(n+1) - T_n *)
Fixpoint cheb_acc (cs : list gq) (t0 t1 : qpoly) : qpoly :=
  match cs with
  | [] => []
  | c :: r => qpadd (qpscale c t0)
                    (cheb_acc r t1 (qpsub (qpscale gq_two (gq_zero :: t1)) t0))
  end.

Definition chebyshev_to_monomial (cs : list rcoef) : list rcoef :=
  map rcoef_of_gq (cheb_acc (map gq_of_rcoef cs) [gq_one] [gq_zero; gq_one]).

Definition all_rcoef_wf (l : list rcoef) : bool := forallb rcoef_wf l.
Definition secular_wf (ab : list (rcoef * rcoef)) : bool :=
  forallb (fun x => rcoef_wf (fst x) && rcoef_wf (snd x)) ab.
