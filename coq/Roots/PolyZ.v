(* Polynomials over the Gaussian integers as coefficient lists, low degree first.
   Definitions only (extracted). *)
From Coq Require Import ZArith List Bool.
From MPSV Require Import Roots.GaussZ.
Import ListNotations.
Open Scope Z_scope.

Definition poly := list G.

Fixpoint padd (p q : poly) : poly :=
  match p, q with
  | [], _ => q
  | _, [] => p
  | a :: p', b :: q' => gadd a b :: padd p' q'
  end.

Definition pscale (c : G) (p : poly) : poly := map (gmul c) p.

Fixpoint pmul (p q : poly) : poly :=
  match p with
  | [] => []
  | a :: p' => padd (pscale a q) (gzero :: pmul p' q)
  end.

Fixpoint ppow (p : poly) (m : nat) : poly :=
  match m with
  | O => [gone]
  | S m' => pmul p (ppow p m')
  end.

Definition pis0 (p : poly) : bool := forallb gis0 p.

(* equality of the denoted polynomials (tolerates trailing zero coefficients) *)
Fixpoint peqb (p q : poly) : bool :=
  match p, q with
  | [], _ => pis0 q
  | _, [] => pis0 p
  | a :: p', b :: q' => geqb a b && peqb p' q'
  end.

(* leading coefficient of the list (not skipping zeros) *)
Definition plead (p : poly) : G := last p gzero.

(* Simultaneous scaled Horner evaluation of p and p' at the point w/s:
   peval2 p w s = (s^(length p) * p(w/s), s^(length p) * p'(w/s), s^(length p)).
   Everything stays in Z[i]. *)
Fixpoint peval2 (p : poly) (w : G) (s : Z) : G * G * Z :=
  match p with
  | [] => (gzero, gzero, 1)
  | c :: q =>
      let '(v, d, sp) := peval2 q w s in
      let sp' := s * sp in
      (gadd (gmul v w) (gscale sp' c), gadd (gmul d w) (gscale s v), sp')
  end.
