(* Bridge between the computational layer (stdlib Z, lists; GaussZ/PolyZ/Cert) and
   the mathematical layer (MathComp polynomials over a numClosedFieldType C):
   the embedding Z -> int -> C commutes with evaluation, derivative, product and
   the integer comparisons used by the checker.  (Combined-style file.) *)
From Coq Require Import ZArith List.
From mathcomp Require Import all_ssreflect all_algebra.
From mathcomp Require Import ssrZ zify ring.
From MPSV Require Import Roots.GaussZ Roots.PolyZ Roots.Cert.
Set Implicit Arguments. Unset Strict Implicit. Unset Printing Implicit Defensive.
Import Order.TTheory GRing.Theory Num.Theory.
Local Open Scope ring_scope.

(* stdlib list functions versus seq functions *)
Lemma List_map_map (A B : Type) (f : A -> B) l : List.map f l = map f l.
Proof. by elim: l => //= x l ->. Qed.
Lemma List_length_size (A : Type) (l : list A) : length l = size l.
Proof. by []. Qed.
Lemma forallb_all (A : Type) (f : A -> bool) l : forallb f l = all f l.
Proof. by elim: l => //= x l ->. Qed.
Lemma flat_map_flatten (A B : Type) (f : A -> list B) l :
  flat_map f l = flatten (map f l).
Proof. by elim: l => //= x l ->. Qed.
Lemma List_last_last (A : Type) (l : list A) d : List.last l d = last d l.
Proof. by elim: l d => //= x [|y l] IH d //; rewrite IH. Qed.

Section Bridge.
Variable C : numClosedFieldType.

(* ---------- integers ---------- *)
Definition Z2C (z : Z) : C := (int_of_Z z)%:~R.

Lemma Z2C_0 : Z2C 0 = 0. Proof. by []. Qed.
Lemma Z2C_1 : Z2C 1 = 1. Proof. by rewrite /Z2C; have -> : int_of_Z 1 = 1 by lia. Qed.
Lemma Z2C_add a b : Z2C (a + b)%Z = Z2C a + Z2C b.
Proof. by rewrite /Z2C -rmorphD /=; congr (_%:~R); lia. Qed.
Lemma Z2C_opp a : Z2C (- a)%Z = - Z2C a.
Proof. by rewrite /Z2C -rmorphN /=; congr (_%:~R); lia. Qed.
Lemma Z2C_sub a b : Z2C (a - b)%Z = Z2C a - Z2C b.
Proof. by rewrite /Z2C -rmorphB /=; congr (_%:~R); lia. Qed.
Lemma Z2C_mul a b : Z2C (a * b)%Z = Z2C a * Z2C b.
Proof. by rewrite /Z2C -rmorphM /=; congr (_%:~R); lia. Qed.
Lemma Z2C_nat n : Z2C (Z.of_nat n) = n%:R.
Proof. by rewrite /Z2C; have -> : int_of_Z (Z.of_nat n) = Posz n by lia. Qed.
Lemma Z2C_real a : Z2C a \is Num.real.
Proof. by rewrite /Z2C realz. Qed.
Lemma Z2C_le a b : (Z2C a <= Z2C b) = (a <=? b)%Z.
Proof. by rewrite /Z2C ler_int; apply/idP/idP; lia. Qed.
Lemma Z2C_lt a b : (Z2C a < Z2C b) = (a <? b)%Z.
Proof. by rewrite /Z2C ltr_int; apply/idP/idP; lia. Qed.
Lemma Z2C_eq0 a : (Z2C a == 0) = (a =? 0)%Z.
Proof. by rewrite /Z2C intr_eq0; apply/idP/idP; lia. Qed.
Lemma Z2C_ge0 a : (0 <= Z2C a) = (0 <=? a)%Z.
Proof. by rewrite -Z2C_le. Qed.
Lemma Z2C_gt0 a : (0 < Z2C a) = (0 <? a)%Z.
Proof. by rewrite -Z2C_lt. Qed.
Lemma Z2C_sq a : Z2C (zsq a) = Z2C a ^+ 2.
Proof. by rewrite /zsq Z2C_mul expr2. Qed.

(* ---------- Gaussian integers ---------- *)
Definition G2C (g : G) : C := Z2C g.1 + 'i * Z2C g.2.

Lemma G2C_0 : G2C gzero = 0.
Proof. by rewrite /G2C /= Z2C_0 mulr0 addr0. Qed.
Lemma G2C_1 : G2C gone = 1.
Proof. by rewrite /G2C /= Z2C_0 Z2C_1 mulr0 addr0. Qed.
Lemma G2C_add x y : G2C (gadd x y) = G2C x + G2C y.
Proof. by rewrite /G2C /= !Z2C_add; ring. Qed.
Lemma G2C_sub x y : G2C (gsub x y) = G2C x - G2C y.
Proof. by rewrite /G2C /= !Z2C_sub; ring. Qed.
Lemma G2C_mul x y : G2C (gmul x y) = G2C x * G2C y.
Proof.
rewrite /G2C /= Z2C_sub Z2C_add !Z2C_mul.
have := sqrCi C; set i := 'i => Hi.
rewrite [RHS]mulrDl !mulrDr mulrACA -expr2 Hi; ring.
Qed.
Lemma G2C_scale k x : G2C (gscale k x) = Z2C k * G2C x.
Proof. by rewrite /G2C /= !Z2C_mul; ring. Qed.
Lemma G2C_norm2 x : Z2C (gnorm2 x) = `|G2C x| ^+ 2.
Proof.
by rewrite /G2C normC2_rect ?Z2C_real // /gnorm2 Z2C_add !Z2C_mul !expr2.
Qed.
Lemma gnorm2_eq0 x : (gnorm2 x =? 0)%Z = gis0 x.
Proof.
case: x => a b; rewrite /gnorm2 /gis0 /geqb /=.
by apply/idP/idP; nia.
Qed.
Lemma G2C_eq0 x : (G2C x == 0) = gis0 x.
Proof. by rewrite -gnorm2_eq0 -Z2C_eq0 G2C_norm2 expf_eq0 /= normr_eq0. Qed.
Lemma geqbP x y : geqb x y -> x = y.
Proof. by case: x y => a b [c d]; rewrite /geqb /= => /andP [] /Z.eqb_eq -> /Z.eqb_eq ->. Qed.

(* ---------- polynomials ---------- *)
Definition P2C (p : PolyZ.poly) : {poly C} := Poly (map G2C p).

Lemma P2C_cons a p : P2C (a :: p) = P2C p * 'X + (G2C a)%:P.
Proof. by rewrite /P2C /= cons_poly_def. Qed.
Lemma P2C_nil : P2C nil = 0. Proof. by []. Qed.

Lemma P2C_add p q : P2C (padd p q) = P2C p + P2C q.
Proof.
elim: p q => [|a p IH] [|b q] /=; rewrite ?P2C_nil ?add0r ?addr0 //.
rewrite !P2C_cons IH G2C_add polyCD; ring.
Qed.
Lemma P2C_scale c p : P2C (pscale c p) = G2C c *: P2C p.
Proof.
elim: p => [|a p IH]; first by rewrite /pscale /= P2C_nil scaler0.
rewrite /pscale /= -/(pscale c p) !P2C_cons IH G2C_mul.
by rewrite scalerDr -scalerAl polyCM mul_polyC.
Qed.
Lemma P2C_mul p q : P2C (pmul p q) = P2C p * P2C q.
Proof.
elim: p => [|a p IH] /=; first by rewrite P2C_nil mul0r.
rewrite P2C_add P2C_scale !P2C_cons IH G2C_0 -mul_polyC; ring.
Qed.
Lemma P2C_one : P2C (gone :: nil) = 1.
Proof. by rewrite P2C_cons P2C_nil mul0r add0r G2C_1. Qed.
Lemma P2C_pow p m : P2C (ppow p m) = P2C p ^+ m.
Proof. by elim: m => [|m IH] /=; rewrite ?P2C_one ?expr0 // P2C_mul IH exprS. Qed.

Lemma pis0P p : pis0 p -> P2C p = 0.
Proof.
elim: p => [|a p IH] //=; rewrite /pis0 /= -/(pis0 p) => /andP [a0 p0].
by rewrite P2C_cons IH // mul0r add0r; move: a0; rewrite -G2C_eq0 => /eqP ->.
Qed.
Lemma peqbP p q : peqb p q -> P2C p = P2C q.
Proof.
elim: p q => [|a p IH] [|b q] //=.
- by move=> H; rewrite (@pis0P (b :: q)).
- by move=> H; rewrite (@pis0P (a :: p)).
by case/andP => /geqbP -> /IH; rewrite !P2C_cons => ->.
Qed.

Lemma P2C_size p : ~~ gis0 (plead p) -> size (P2C p) = length p.
Proof.
rewrite /plead List_last_last -G2C_eq0 => nz.
have H : last 1 (map G2C p) != 0.
  case: p nz => [|a p]; first by rewrite /= G2C_0 eqxx.
  by rewrite /= !last_map.
by rewrite /P2C (PolyK H) size_map.
Qed.
Lemma P2C_neq0 p : ~~ gis0 (plead p) -> P2C p != 0.
Proof.
move=> nz; rewrite -size_poly_gt0 P2C_size //.
by case: p nz => //; rewrite /plead /= /gis0 /geqb /=.
Qed.

(* ---------- simultaneous evaluation of p and p' ---------- *)
Lemma peval2P p w s : Z2C s != 0 ->
  let x := G2C w / Z2C s in
  let sp := Z2C s ^+ length p in
  [/\ Z2C (peval2 p w s).2 = sp,
      G2C (peval2 p w s).1.1 = sp * (P2C p).[x]
    & G2C (peval2 p w s).1.2 = sp * (P2C p)^`().[x]].
Proof.
move=> sn0 x sp; rewrite {}/sp.
elim: p => [|c q [IHs IHv IHd]] /=.
  by rewrite P2C_nil G2C_0 Z2C_1 expr0 deriv0 !horner0 !mulr0.
case E: (peval2 q w s) IHs IHv IHd => [[v d] sp] /= IHs IHv IHd.
rewrite Z2C_mul IHs exprS P2C_cons derivMXaddC hornerMXaddC hornerD hornerM hornerX.
rewrite !G2C_add !G2C_mul !G2C_scale Z2C_mul IHs IHv IHd /x.
set A := (P2C q).[_]; set B := ((P2C q)^`()).[_]; set W := G2C w; set c' := G2C c.
set T := Z2C s ^+ _; move: A B W c' T (Z2C s) sn0 {IHs IHv IHd}.
move=> A B W c' T S Sn0.
by split=> //; field.
Qed.

(* ---------- rational input data ---------- *)
Definition rc2C (x : rcoef) : C :=
  Z2C (re_n x) / Z2C (re_d x) + 'i * (Z2C (im_n x) / Z2C (im_d x)).
Definition R2C (P : list rcoef) : {poly C} := Poly (map rc2C P).
(* (centre, radius) of a disc *)
Definition disc2C (t : disc) : C * C :=
  (G2C (dc t) / Z2C (ds t), Z2C (dr t) / Z2C (ds t)).
Definition rdisc2C (q : rdisc) : C * C :=
  (rc2C (q_c q), Z2C (q_rn q) / Z2C (q_rd q)).

Lemma coef_scaledP c x g : coef_scaled c x g -> Z2C c * rc2C x = G2C g.
Proof.
rewrite /coef_scaled => /andP [/andP [/andP [rd0 id0]]].
move=> /Z.eqb_eq /(congr1 Z2C) Hr /Z.eqb_eq /(congr1 Z2C) Hi.
move: Hr Hi rd0 id0; rewrite !Z2C_mul -!Z2C_eq0 /rc2C /G2C.
move: (Z2C c) (Z2C (re_n x)) (Z2C (re_d x)) (Z2C (im_n x)) (Z2C (im_d x)) (Z2C g.1) (Z2C g.2).
move=> c' rn rd im_ id g1 g2 Hr Hi rd0 id0.
have -> : g1 = c' * rn / rd by rewrite Hr mulfK.
have -> : g2 = c' * im_ / id by rewrite Hi mulfK.
by field; rewrite rd0 id0.
Qed.

Lemma coefs_scaledP c P Pi : coefs_scaled c P Pi -> Z2C c *: R2C P = P2C Pi.
Proof.
elim: P Pi => [|x P IH] [|g Pi] //=; first by rewrite /R2C /P2C /= scaler0.
case/andP => /coef_scaledP Hx /IH; rewrite /R2C /P2C /= !cons_poly_def => <-.
by rewrite scalerDr -scalerAl -Hx polyCM mul_polyC.
Qed.

Lemma disc_wfP t : disc_wf t -> 0 < Z2C (ds t) /\ 0 <= Z2C (dr t).
Proof. by rewrite /disc_wf Z2C_gt0 Z2C_ge0 => /andP []. Qed.

Lemma mkdiscP q d : mkdisc q = Some d -> disc_wf d /\ disc2C d = rdisc2C q.
Proof.
rewrite /mkdisc; case: ifP => // /andP [/andP [/andP [rd0 id0] qd0] rn0] [<-].
split.
  rewrite /disc_wf /=; apply/andP; split; apply/idP; nia.
move: rd0 id0 qd0; rewrite -!Z2C_gt0 => rd0 id0 qd0.
rewrite /disc2C /rdisc2C /rc2C /G2C /= !Z2C_mul.
move: (lt0r_neq0 rd0) (lt0r_neq0 id0) (lt0r_neq0 qd0).
move: (Z2C (re_n _)) (Z2C (re_d _)) (Z2C (im_n _)) (Z2C (im_d _)) (Z2C (q_rn q)) (Z2C (q_rd q)).
move=> rn rd im_ id qn qd rdn0 idn0 qdn0.
by congr (_, _); field; rewrite ?rdn0 ?idn0 ?qdn0.
Qed.

(* squares and norms *)
Lemma le_of_sqr (x y : C) : 0 <= x -> 0 <= y -> x ^+ 2 <= y ^+ 2 -> x <= y.
Proof. by move=> x0 y0; rewrite ler_sqr. Qed.
Lemma lt_of_sqr (x y : C) : 0 <= x -> 0 <= y -> x ^+ 2 < y ^+ 2 -> x < y.
Proof. by move=> x0 y0; rewrite ltr_sqr. Qed.

Lemma disc_diffP t q : Z2C (ds t) != 0 -> Z2C (ds q) != 0 ->
  (disc2C t).1 - (disc2C q).1 = G2C (disc_diff t q) / (Z2C (ds t) * Z2C (ds q)).
Proof.
move=> st0 sq0; rewrite /disc2C /disc_diff /= G2C_sub !G2C_scale.
by field; rewrite st0 sq0.
Qed.

Lemma disc_insideP t q : disc_wf t -> disc_wf q -> disc_inside t q ->
  `|(disc2C t).1 - (disc2C q).1| + (disc2C t).2 <= (disc2C q).2.
Proof.
move=> /disc_wfP [st0 rt0] /disc_wfP [sq0 rq0] /andP [].
rewrite -Z2C_ge0 -Z2C_le Z2C_sq G2C_norm2 => e0 /(le_of_sqr (normr_ge0 _) e0) He.
rewrite -ler_subr_addr disc_diffP ?lt0r_neq0 //.
have S0 : 0 < Z2C (ds t) * Z2C (ds q) by rewrite mulr_gt0.
rewrite normf_div (gtr0_norm S0).
have -> : (disc2C q).2 - (disc2C t).2
        = Z2C (ds t * dr q - ds q * dr t) / (Z2C (ds t) * Z2C (ds q)).
  by rewrite /disc2C /= Z2C_sub !Z2C_mul; field; rewrite !lt0r_neq0.
by rewrite ler_pmul2r // invr_gt0.
Qed.

Lemma disc_disjointP t q : disc_wf t -> disc_wf q -> disc_disjoint t q ->
  (disc2C t).2 + (disc2C q).2 < `|(disc2C t).1 - (disc2C q).1|.
Proof.
move=> /disc_wfP [st0 rt0] /disc_wfP [sq0 rq0].
rewrite /disc_disjoint -Z2C_lt Z2C_sq G2C_norm2 => H.
have F0 : 0 <= Z2C (ds t * dr q + ds q * dr t).
  by rewrite Z2C_add !Z2C_mul addr_ge0 // mulr_ge0 // ltW.
have {H} H := lt_of_sqr F0 (normr_ge0 _) H.
rewrite disc_diffP ?lt0r_neq0 //.
have S0 : 0 < Z2C (ds t) * Z2C (ds q) by rewrite mulr_gt0.
rewrite normf_div (gtr0_norm S0).
have -> : (disc2C t).2 + (disc2C q).2
        = Z2C (ds t * dr q + ds q * dr t) / (Z2C (ds t) * Z2C (ds q)).
  by rewrite /disc2C /= Z2C_add !Z2C_mul; field; rewrite !lt0r_neq0.
by rewrite ltr_pmul2r // invr_gt0.
Qed.

End Bridge.
