(* Gaussian integers as pairs of stdlib Z.  Definitions only (extracted). *)
From Coq Require Import ZArith List Bool.
Open Scope Z_scope.

Definition G := (Z * Z)%type.

Definition gzero : G := (0, 0).
Definition gone : G := (1, 0).
Definition gadd (x y : G) : G := (fst x + fst y, snd x + snd y).
Definition gopp (x : G) : G := (- fst x, - snd x).
Definition gsub (x y : G) : G := (fst x - fst y, snd x - snd y).
Definition gmul (x y : G) : G :=
  (fst x * fst y - snd x * snd y, fst x * snd y + snd x * fst y).
(* integer times Gaussian integer; the integer comes first because the extracted
   Pos.mul recurses on its first argument (cheap when it is a power of two) *)
Definition gscale (k : Z) (x : G) : G := (k * fst x, k * snd x).
(* squared modulus *)
Definition gnorm2 (x : G) : Z := fst x * fst x + snd x * snd x.
Definition geqb (x y : G) : bool := Z.eqb (fst x) (fst y) && Z.eqb (snd x) (snd y).
Definition gis0 (x : G) : bool := geqb x gzero.
