(* C17 - proofs about the DPE printing model (DpeModel.v) over Q / Z: no axioms.
   binary exponent, rounding to binary64, mpf_get_rdpe = normalised truncation, "%.14f" conversion read back. *)
Require Import ZArith QArith Qround Qabs Qpower String Ascii List Bool Lia Lqa ZifyBool.
Require Import MPSV.OutFmt.OutModel MPSV.OutFmt.OutProps MPSV.OutFmt.DpeModel.
Import ListNotations.
Open Scope Q_scope.

(* ------------------------------------------------------------------ powers of two *)
Lemma two_nz : ~ (2 # 1) == 0. Proof. intro H; discriminate H. Qed.
Lemma pow2_pos : forall k, 0 < pow2 k.
Proof. intro k; unfold pow2; apply Qpower_0_lt; reflexivity. Qed.
Lemma pow2_add : forall a b, pow2 (a + b) == pow2 a * pow2 b.
Proof. intros; unfold pow2; apply Qpower_plus, two_nz. Qed.
Lemma pow2_inv : forall k, pow2 k * pow2 (- k) == 1.
Proof. intro k. rewrite <- pow2_add. replace (k + - k)%Z with 0%Z by lia. reflexivity. Qed.
Lemma pow2_mono : forall a b, (a <= b)%Z -> pow2 a <= pow2 b.
Proof. intros; unfold pow2; apply Qpower_le_compat_l; [assumption | discriminate]. Qed.
Lemma pow2_succ : forall k, pow2 (k + 1) == 2 * pow2 k.
Proof. intro k. rewrite pow2_add. change (pow2 1) with (2 # 1). ring. Qed.
Lemma pow2_Z : forall k, (0 <= k)%Z -> pow2 k == inject_Z (2 ^ k).
Proof. intros k Hk. unfold pow2. rewrite Zpower_Qpower by assumption. reflexivity. Qed.

(* ------------------------------------------------------------------ binary exponent *)
Lemma Qabs_make : forall n d, Qabs (n # d) = (Z.abs n # d).
Proof. reflexivity. Qed.

Lemma log2_bracket : forall x : Q, ~ x == 0 ->
  let e := (Z.log2 (Z.abs (Qnum x)) - Z.log2 (Zpos (Qden x)))%Z in
  pow2 (e - 1) <= Qabs x /\ Qabs x < pow2 (e + 1).
Proof.
  intros [n d] Hnz e.
  assert (Hn : (0 < Z.abs n)%Z).
  { destruct (Z.eq_dec n 0) as [-> | Hne]; [exfalso; apply Hnz; reflexivity | lia]. }
  set (a := Z.log2 (Z.abs n)) in *. set (b := Z.log2 (Zpos d)) in *.
  simpl Qnum in *; simpl Qden in *. fold a in e. fold b in e.
  destruct (Z.log2_spec (Z.abs n) Hn) as [Ha1 Ha2]. fold a in Ha1, Ha2.
  destruct (Z.log2_spec (Zpos d) ltac:(lia)) as [Hb1 Hb2]. fold b in Hb1, Hb2.
  assert (Ha0 : (0 <= a)%Z) by apply Z.log2_nonneg.
  assert (Hb0 : (0 <= b)%Z) by apply Z.log2_nonneg.
  rewrite Qabs_make.
  (* |x| * 2^b in terms of integers *)
  assert (HA : pow2 a == inject_Z (2 ^ a)) by (apply pow2_Z; lia).
  assert (HB : pow2 b == inject_Z (2 ^ b)) by (apply pow2_Z; lia).
  assert (HBp : 0 < pow2 b) by apply pow2_pos.
  assert (Hinv : pow2 b * pow2 (- b) == 1) by apply pow2_inv.
  assert (HBn : 0 < pow2 (- b)) by apply pow2_pos.
  assert (He1 : pow2 (e - 1) == pow2 a * pow2 (- b) * (1 # 2)).
  { unfold e. replace (a - b - 1)%Z with (a + (- b + -1))%Z by lia. rewrite !pow2_add.
    change (pow2 (-1)) with (1 # 2). ring. }
  assert (He2 : pow2 (e + 1) == pow2 a * pow2 (- b) * 2).
  { unfold e. replace (a - b + 1)%Z with (a + (- b + 1))%Z by lia. rewrite !pow2_add.
    change (pow2 1) with (2 # 1). ring. }
  (* the fraction, scaled by 2^b *)
  assert (Hx : (Z.abs n # d) * inject_Z (Zpos d) == inject_Z (Z.abs n)).
  { unfold Qeq, Qmult, inject_Z; simpl. lia. }
  assert (Hd1 : inject_Z (2 ^ b) <= inject_Z (Zpos d)) by (rewrite <- Zle_Qle; exact Hb1).
  assert (Hd2 : inject_Z (Zpos d) < 2 * inject_Z (2 ^ b)).
  { change 2 with (inject_Z 2). rewrite <- inject_Z_mult, <- Zlt_Qlt.
    replace (b + 1)%Z with (Z.succ b) in Hb2 by lia. rewrite Z.pow_succ_r in Hb2 by lia. exact Hb2. }
  assert (Hn1 : inject_Z (2 ^ a) <= inject_Z (Z.abs n)) by (rewrite <- Zle_Qle; exact Ha1).
  assert (Hn2 : inject_Z (Z.abs n) < 2 * inject_Z (2 ^ a)).
  { change 2 with (inject_Z 2). rewrite <- inject_Z_mult, <- Zlt_Qlt.
    replace (a + 1)%Z with (Z.succ a) in Ha2 by lia. rewrite Z.pow_succ_r in Ha2 by lia. exact Ha2. }
  rewrite <- HA in Hn1, Hn2. rewrite <- HB in Hd1, Hd2.
  set (X := (Z.abs n # d)) in *. set (Dq := inject_Z (Zpos d)) in *. set (Nq := inject_Z (Z.abs n)) in *.
  set (A := pow2 a) in *. set (B := pow2 b) in *. set (B' := pow2 (- b)) in *.
  assert (HX0 : 0 <= X) by (unfold X, Qle; simpl; lia).
  assert (HAp : 0 < A) by apply pow2_pos.
  rewrite He1, He2.
  clear He1 He2 HA HB Ha1 Ha2 Hb1 Hb2 e.
  assert (HDp : 0 < Dq) by (eapply Qlt_le_trans; [exact HBp | exact Hd1]).
  (* A B' = A / B ; X = Nq / Dq *)
  split.
  - (* A B' /2 <= X : multiply by B Dq > 0 *)
    apply Qnot_lt_le. intro Hc.
    assert (H1 : X * Dq * B < A * B' * (1 # 2) * Dq * B) by nra.
    assert (H2 : A * B' * (1 # 2) * Dq * B == A * (1 # 2) * Dq * (B * B')) by ring.
    rewrite H2, Hinv, Hx in H1. nra.
  - apply Qnot_le_lt. intro Hc.
    assert (H1 : A * B' * 2 * Dq * B <= X * Dq * B) by nra.
    assert (H2 : A * B' * 2 * Dq * B == A * 2 * Dq * (B * B')) by ring.
    rewrite H2, Hinv, Hx in H1. nra.
Qed.

(* frexp's exponent *)
Lemma bexp_spec : forall x : Q, ~ x == 0 -> pow2 (bexp x - 1) <= Qabs x /\ Qabs x < pow2 (bexp x).
Proof.
  intros x Hnz. pose proof (log2_bracket x Hnz) as [H1 H2]. unfold bexp.
  set (e := (Z.log2 (Z.abs (Qnum x)) - Z.log2 (Zpos (Qden x)))%Z) in *.
  destruct (Qle_bool (pow2 e) (Qabs x)) eqn:Ht.
  - apply Qle_bool_iff in Ht. replace (e + 1 - 1)%Z with e by lia. split; assumption.
  - split; [exact H1 |]. apply Qnot_le_lt. intro Hc. apply Qle_bool_iff in Hc. congruence.
Qed.

(* ------------------------------------------------------------------ nearest integer *)
Lemma rne_error : forall q, Qabs (inject_Z (rne q) - q) <= 1 # 2.
Proof.
  intro q. unfold rne.
  pose proof (Qfloor_le q) as H1. pose proof (Qlt_floor q) as H2.
  rewrite inject_Z_plus in H2. change (inject_Z 1) with 1 in H2.
  set (f := Qfloor q) in *.
  apply Qabs_Qle_condition.
  destruct (Qcompare (q - inject_Z f) (1 # 2)) eqn:Hc.
  - apply Qeq_alt in Hc. destruct (Z.even f); [| rewrite inject_Z_plus; change (inject_Z 1) with 1]; split; lra.
  - apply Qlt_alt in Hc. split; lra.
  - apply Qgt_alt in Hc. rewrite inject_Z_plus. change (inject_Z 1) with 1. split; lra.
Qed.

(* ------------------------------------------------------------------ rounding to binary64: relative error 2^-53 *)
Lemma Qeq_bool_false : forall x y, Qeq_bool x y = false -> ~ x == y.
Proof. intros x y H Hc. apply Qeq_bool_iff in Hc. congruence. Qed.

Lemma rn53_error : forall x, Qabs (rn53 x - x) <= pow2 (- 53) * Qabs x.
Proof.
  intro x. unfold rn53. destruct (Qeq_bool x 0) eqn:Hz.
  - apply Qeq_bool_iff in Hz. rewrite Hz. vm_compute. discriminate.
  - apply Qeq_bool_false in Hz. destruct (bexp_spec x Hz) as [Hlo _].
    set (ex := bexp x) in *.
    pose proof (rne_error (x * pow2 (53 - ex))) as Hr.
    set (n := inject_Z (rne (x * pow2 (53 - ex)))) in *.
    assert (Hs : pow2 (53 - ex) * pow2 (ex - 53) == 1).
    { rewrite <- pow2_add. replace (53 - ex + (ex - 53))%Z with 0%Z by lia. reflexivity. }
    assert (Hp : 0 < pow2 (ex - 53)) by apply pow2_pos.
    assert (Heq : n * pow2 (ex - 53) - x == (n - x * pow2 (53 - ex)) * pow2 (ex - 53)).
    { setoid_replace ((n - x * pow2 (53 - ex)) * pow2 (ex - 53))
        with (n * pow2 (ex - 53) - x * (pow2 (53 - ex) * pow2 (ex - 53))) by ring.
      rewrite Hs. ring. }
    rewrite Heq, Qabs_Qmult, (Qabs_pos (pow2 (ex - 53))) by (apply Qlt_le_weak; exact Hp).
    assert (Hhalf : (1 # 2) * pow2 (ex - 53) == pow2 (- 53) * pow2 (ex - 1)).
    { replace (ex - 53)%Z with (- 53 + (ex - 1) + 1)%Z by lia. rewrite pow2_succ, pow2_add. ring. }
    assert (Hp53 : 0 < pow2 (- 53)) by apply pow2_pos.
    apply Qle_trans with ((1 # 2) * pow2 (ex - 53)); [nra |].
    rewrite Hhalf. nra.
Qed.

Lemma rn53_rel : forall x, exists dl, Qabs dl <= pow2 (- 53) /\ rn53 x == x * (1 + dl).
Proof.
  intro x. destruct (Qeq_dec x 0) as [Hz | Hnz].
  - exists 0. split; [vm_compute; discriminate |]. unfold rn53.
    destruct (Qeq_bool x 0) eqn:E; [rewrite Hz; ring | apply Qeq_bool_false in E; contradiction].
  - exists ((rn53 x - x) / x). split.
    + pose proof (rn53_error x) as He.
      assert (Hax : 0 < Qabs x).
      { destruct (Qlt_le_dec 0 (Qabs x)) as [H | H]; [exact H |]. exfalso. apply Hnz.
        pose proof (Qabs_nonneg x). assert (Hq : Qabs x == 0) by lra.
        destruct (Qlt_le_dec x 0) as [Hn | Hp]; [rewrite Qabs_neg in Hq by lra | rewrite Qabs_pos in Hq by lra]; lra. }
      unfold Qdiv. rewrite Qabs_Qmult, Qabs_Qinv.
      apply Qle_shift_div_r; [exact Hax | exact He].
    + field. exact Hnz.
Qed.


(* ------------------------------------------------------------------ modf: the fraction left by truncation *)
Lemma trunc_frac : forall q, Qabs (q - inject_Z (trunc q)) < 1.
Proof.
  intros [n d]. unfold trunc. simpl Qnum; simpl Qden.
  pose proof (Z.quot_rem' n (Zpos d)) as Hqr.
  pose proof (Z.rem_bound_abs n (Zpos d) ltac:(lia)) as Hrb.
  set (qq := Z.quot n (Zpos d)) in *. set (r := Z.rem n (Zpos d)) in *.
  assert (He : (n # d) - inject_Z qq == r # d).
  { unfold Qeq, Qminus, Qplus, Qopp, inject_Z; simpl. nia. }
  rewrite He, Qabs_make. unfold Qlt; simpl. lia.
Qed.

(* "%.14f": the printed number of units of 1e-14 is within half a unit *)
Lemma f14_units_error : forall d, Qabs (inject_Z (f14_units d) - Qabs d * p10 14) <= 1 # 2.
Proof. intro d. unfold f14_units. apply rne_error. Qed.

(* ------------------------------------------------------------------ printf's digits read back *)
Lemma dg_val_of : forall k, (0 <= k <= 9)%Z -> dg_val (dg_of k) = k.
Proof.
  intros k Hk.
  assert (H : (k = 0 \/ k = 1 \/ k = 2 \/ k = 3 \/ k = 4 \/ k = 5 \/ k = 6 \/ k = 7 \/ k = 8 \/ k = 9)%Z) by lia.
  repeat (destruct H as [-> | H]; [reflexivity |]). subst k; reflexivity.
Qed.

Lemma digits_w_length : forall w n, length (digits_w w n) = w.
Proof. induction w as [| w IH]; intro n; simpl; [reflexivity |]. rewrite app_length, IH. simpl. lia. Qed.

Lemma val_from_snoc : forall acc ds d, val_from acc (ds ++ [d]) = (val_from acc ds * 10 + dg_val d)%Z.
Proof. intros. rewrite val_from_app. reflexivity. Qed.

Lemma digits_w_val : forall w n acc, (0 <= n)%Z ->
  val_from acc (digits_w w n) = (acc * 10 ^ Z.of_nat w + n mod 10 ^ Z.of_nat w)%Z.
Proof.
  induction w as [| w IH]; intros n acc Hn.
  - simpl. rewrite Z.mod_1_r. unfold val_from; simpl. lia.
  - simpl digits_w. rewrite val_from_snoc, IH by (apply Z.div_pos; lia).
    rewrite dg_val_of by (pose proof (Z.mod_pos_bound n 10 ltac:(lia)); lia).
    rewrite Nat2Z.inj_succ, Z.pow_succ_r by lia.
    rewrite (Z.rem_mul_r n 10 (10 ^ Z.of_nat w)) by lia. ring.
Qed.

Lemma ndigits_fuel_bound : forall fuel n, (0 <= n < 10 ^ Z.of_nat fuel)%Z -> (n < 10 ^ Z.of_nat (ndigits_fuel fuel n))%Z.
Proof.
  induction fuel as [| f IH]; intros n Hn.
  - simpl in *. lia.
  - simpl ndigits_fuel. destruct (n =? 0)%Z eqn:E.
    + simpl. lia.
    + rewrite Nat2Z.inj_succ, Z.pow_succ_r in * by lia.
      assert (Hq : (0 <= n / 10 < 10 ^ Z.of_nat f)%Z).
      { split; [apply Z.div_pos; lia | apply Z.div_lt_upper_bound; lia]. }
      specialize (IH _ Hq). pose proof (Z.div_mod n 10 ltac:(lia)). pose proof (Z.mod_pos_bound n 10 ltac:(lia)). lia.
Qed.

Lemma ndec_bound : forall n, (0 <= n)%Z -> (n < 10 ^ Z.of_nat (ndec n))%Z.
Proof.
  intros n Hn. unfold ndec. apply ndigits_fuel_bound. split; [exact Hn |].
  destruct (Z.eq_dec n 0) as [-> | Hne]; [simpl; lia |].
  destruct (Z.log2_spec n ltac:(lia)) as [_ H2].
  rewrite Nat2Z.inj_succ, Z2Nat.id by apply Z.log2_nonneg.
  eapply Z.lt_le_trans; [exact H2 |]. replace (Z.log2 n + 1)%Z with (Z.succ (Z.log2 n)) by lia.
  apply Z.pow_le_mono_l. lia.
Qed.

Lemma digits_min_val : forall w n, (0 <= n)%Z -> val_from 0 (digits_min w n) = n.
Proof.
  intros w n Hn. unfold digits_min. rewrite digits_w_val by exact Hn.
  rewrite Z.mod_small; [lia |]. split; [exact Hn |].
  eapply Z.lt_le_trans; [apply ndec_bound; exact Hn |].
  apply Z.pow_le_mono_r; lia.
Qed.

Lemma digits_min_nonempty : forall w n, (0 < w)%nat -> digits_min w n <> [].
Proof.
  intros w n Hw H. apply (f_equal (@length _)) in H. unfold digits_min in H. rewrite digits_w_length in H. simpl in H. lia.
Qed.

Lemma f14_units_nonneg : forall d, (0 <= f14_units d)%Z.
Proof.
  intro d. pose proof (f14_units_error d) as H. apply Qabs_Qle_condition in H. destruct H as [H _].
  pose proof (Qabs_nonneg d). pose proof (p10_pos 14).
  assert (Hq : - (1 # 2) <= inject_Z (f14_units d)) by nra.
  destruct (Z_lt_le_dec (f14_units d) 0) as [Hl | Hg]; [| exact Hg].
  exfalso. assert (Hc : inject_Z (f14_units d) <= inject_Z (-1)) by (rewrite <- Zle_Qle; lia).
  unfold inject_Z in Hc at 2. lra.
Qed.

(* THE TEXT: what rdpe_out_str / rdpe_out_str_u write for (d, l) reads back, by decimal_parse, as exactly out_value d l,
   with 10^(l-14) the unit of its last digit; and out_value is d * 10^l rounded to 14 decimals of the mantissa (half a unit). *)
Lemma out_r_ip : forall c d l, r_ip (out_rendering c d l) = digits_min 1 (f14_units d / 10 ^ 14).
Proof. reflexivity. Qed.
Lemma out_r_frac : forall c d l, frac_digits (out_rendering c d l) = digits_w 14 (f14_units d).
Proof. reflexivity. Qed.
Lemma out_r_exp : forall c d l, r_exp (out_rendering c d l) = Some (c, if (l <? 0)%Z then EMinus else EPlus, digits_min 3 (Z.abs l)).
Proof. reflexivity. Qed.
Lemma out_r_neg : forall c d l, r_neg (out_rendering c d l) = negb (Qle_bool 0 d).
Proof. reflexivity. Qed.

Lemma out_rendering_parse : forall c d l,
  exists p, decimal_parse (render (out_rendering c d l)) = Some p /\
            parsed_value p == out_value d l /\ p_exp p = (l - 14)%Z /\ (14 < p_ndigits p)%nat.
Proof.
  intros c d l.
  assert (Hlen : length (frac_digits (out_rendering c d l)) = 14%nat) by (rewrite out_r_frac; apply digits_w_length).
  assert (Hwf : rendering_wf (out_rendering c d l)).
  { split.
    - intro H. apply (f_equal (@length _)) in H. rewrite app_length, Hlen in H. simpl in H. lia.
    - rewrite out_r_exp. apply digits_min_nonempty. lia. }
  rewrite (decimal_parse_render _ Hwf). eexists; split; [reflexivity |].
  pose proof (f14_units_nonneg d) as HN.
  assert (Hexp : exp_value (out_rendering c d l) = l).
  { unfold exp_value. rewrite out_r_exp. rewrite digits_min_val by lia. destruct (l <? 0)%Z eqn:E; lia. }
  assert (Hval : val_from 0 (r_ip (out_rendering c d l) ++ frac_digits (out_rendering c d l)) = f14_units d).
  { rewrite out_r_ip, out_r_frac. rewrite val_from_app, digits_min_val by (apply Z.div_pos; lia).
    rewrite digits_w_val by exact HN. change (Z.of_nat 14) with 14%Z.
    pose proof (Z.div_mod (f14_units d) (10 ^ 14) ltac:(lia)). lia. }
  cbn [p_mant p_exp p_ndigits]. rewrite Hval, Hexp, Hlen, out_r_neg.
  split; [| split].
  - unfold parsed_value. cbn [p_mant p_exp]. unfold out_value. change (Z.of_nat 14) with 14%Z.
    destruct (Qle_bool 0 d); simpl negb; cbv iota; reflexivity.
  - reflexivity.
  - rewrite out_r_ip. pose proof (digits_min_nonempty 1 (f14_units d / 10 ^ 14) ltac:(lia)) as Hne.
    destruct (digits_min 1 (f14_units d / 10 ^ 14)); [congruence | simpl; lia].
Qed.

Lemma out_value_rounding : forall d l, Qabs (out_value d l - d * p10 l) <= (1 # 2) * p10 (l - 14).
Proof.
  intros d l. unfold out_value. pose proof (f14_units_error d) as He.
  assert (Hp : p10 l == p10 14 * p10 (l - 14)).
  { rewrite <- p10_add. replace (14 + (l - 14))%Z with l by lia. reflexivity. }
  pose proof (p10_pos (l - 14)) as Hpp.
  destruct (Qle_bool 0 d) eqn:Hs.
  - apply Qle_bool_iff in Hs. rewrite (Qabs_pos d Hs) in He.
    set (N := inject_Z (f14_units d)) in *.
    setoid_replace (N * p10 (l - 14) - d * p10 l) with ((N - d * p10 14) * p10 (l - 14)) by (rewrite Hp; ring).
    rewrite Qabs_Qmult, (Qabs_pos (p10 (l - 14))) by lra. nra.
  - assert (Hneg : d <= 0).
    { destruct (Qlt_le_dec d 0) as [Hl | Hg]; [lra |]. apply Qle_bool_iff in Hg. congruence. }
    rewrite (Qabs_neg d Hneg) in He. rewrite inject_Z_opp.
    set (N := inject_Z (f14_units d)) in *.
    setoid_replace (- N * p10 (l - 14) - d * p10 l) with (- ((N - - d * p10 14) * p10 (l - 14))) by (rewrite Hp; ring).
    rewrite Qabs_opp, Qabs_Qmult, (Qabs_pos (p10 (l - 14))) by lra. nra.
Qed.

(* the text itself: a space (or the minus sign) and the rendering *)
Lemma out_text_shape : forall c d l,
  out_text c d l = if Qle_bool 0 d then String " "%char (render (out_rendering c d l)) else render (out_rendering c d l).
Proof. intros. unfold out_text. simpl r_neg. destruct (Qle_bool 0 d); reflexivity. Qed.

(* digits of the gnuplot formats: 15, or 16 when the mantissa rounds up to 10.00000000000000 *)
Lemma f14_digits : forall d, Qabs d <= 10 -> (f14_units d <= 10 ^ 15)%Z.
Proof.
  intros d Hd. pose proof (f14_units_error d) as H. apply Qabs_Qle_condition in H. destruct H as [_ H].
  assert (Hp : p10 14 == inject_Z (10 ^ 14)) by reflexivity.
  assert (Hq : inject_Z (f14_units d) <= inject_Z (10 ^ 15) + (1 # 2)).
  { assert (H15 : inject_Z (10 ^ 15) == 10 * inject_Z (10 ^ 14)) by reflexivity.
    rewrite Hp in H. rewrite H15. pose proof (Qabs_nonneg d).
    assert (0 < inject_Z (10 ^ 14)) by reflexivity. nra. }
  destruct (Z_lt_le_dec (10 ^ 15) (f14_units d)) as [Hl | Hg]; [| exact Hg].
  exfalso. assert (Hc : inject_Z (10 ^ 15 + 1) <= inject_Z (f14_units d)) by (rewrite <- Zle_Qle; lia).
  rewrite inject_Z_plus in Hc. change (inject_Z 1) with 1 in Hc. lra.
Qed.

Lemma ndigits_fuel_le : forall fuel n k, (0 <= n < 10 ^ Z.of_nat k)%Z -> (ndigits_fuel fuel n <= k)%nat.
Proof.
  induction fuel as [| f IH]; intros n k Hn; [simpl; lia |].
  simpl ndigits_fuel. destruct (n =? 0)%Z eqn:E; [lia |].
  destruct k as [| k]; [simpl in Hn; lia |].
  rewrite Nat2Z.inj_succ, Z.pow_succ_r in Hn by lia.
  assert (Hq : (0 <= n / 10 < 10 ^ Z.of_nat k)%Z).
  { split; [apply Z.div_pos; lia | apply Z.div_lt_upper_bound; lia]. }
  specialize (IH _ _ Hq). lia.
Qed.

(* a gnuplot component / a radius shows at most 16 significant digits (15, and 16 for 10.00000000000000) *)
Lemma out_rendering_digits : forall c d l, Qabs d <= 10 ->
  exists p, decimal_parse (render (out_rendering c d l)) = Some p /\ (sig_digits p <= 16)%nat.
Proof.
  intros c d l Hd.
  assert (Hlen : length (frac_digits (out_rendering c d l)) = 14%nat) by (rewrite out_r_frac; apply digits_w_length).
  assert (Hwf : rendering_wf (out_rendering c d l)).
  { split.
    - intro H. apply (f_equal (@length _)) in H. rewrite app_length, Hlen in H. simpl in H. lia.
    - rewrite out_r_exp. apply digits_min_nonempty. lia. }
  rewrite (decimal_parse_render _ Hwf). eexists; split; [reflexivity |].
  pose proof (f14_units_nonneg d) as HN. pose proof (f14_digits d Hd) as H15.
  assert (Hval : val_from 0 (r_ip (out_rendering c d l) ++ frac_digits (out_rendering c d l)) = f14_units d).
  { rewrite out_r_ip, out_r_frac. rewrite val_from_app, digits_min_val by (apply Z.div_pos; lia).
    rewrite digits_w_val by exact HN. change (Z.of_nat 14) with 14%Z.
    pose proof (Z.div_mod (f14_units d) (10 ^ 14) ltac:(lia)). lia. }
  unfold sig_digits. cbn [p_mant p_ndigits]. rewrite Hval.
  apply ndigits_fuel_le. change (Z.of_nat 16) with 16%Z. destruct (r_neg (out_rendering c d l)); lia.
Qed.

(* ------------------------------------------------------------------ mpf_get_rdpe: the 53 leading bits, truncated *)
Lemma trunc_abs : forall q, Z.abs (trunc q) = Qfloor (Qabs q).
Proof.
  intros [n d]. unfold trunc, Qfloor. rewrite Qabs_make. simpl Qnum; simpl Qden.
  rewrite <- (Z.quot_abs n (Zpos d)) by lia. simpl Z.abs at 2.
  apply Z.quot_div_nonneg; lia.
Qed.

Lemma trunc_sign : forall q, (0 <= q -> (0 <= trunc q)%Z) /\ (q <= 0 -> (trunc q <= 0)%Z).
Proof.
  intros [n d]. unfold trunc, Qle; simpl. split; intro H.
  - apply Z.quot_pos; lia.
  - rewrite <- (Z.opp_involutive n), Z.quot_opp_l by lia.
    pose proof (Z.quot_pos (- n) (Zpos d) ltac:(lia) ltac:(lia)). lia.
Qed.

Lemma inject_Z_abs : forall z, Qabs (inject_Z z) == inject_Z (Z.abs z).
Proof. intro z. unfold inject_Z. rewrite Qabs_make. reflexivity. Qed.

Lemma mpf_get_rdpe_spec : forall x, ~ x == 0 ->
  let '(m, e) := mpf_get_rdpe x in
  1 # 2 <= Qabs m /\ Qabs m < 1 /\
  Qabs (m * pow2 e) <= Qabs x /\ Qabs x - Qabs (m * pow2 e) < pow2 (- 52) * Qabs x /\
  (0 <= x -> 0 <= m) /\ (x <= 0 -> m <= 0).
Proof.
  intros x Hnz. unfold mpf_get_rdpe.
  destruct (Qeq_bool x 0) eqn:Hz; [apply Qeq_bool_iff in Hz; contradiction |].
  destruct (bexp_spec x Hnz) as [Hlo Hhi]. set (ex := bexp x) in *.
  set (y := x * pow2 (53 - ex)).
  assert (Hp1 : 0 < pow2 (53 - ex)) by apply pow2_pos.
  assert (Hy : Qabs y == Qabs x * pow2 (53 - ex)).
  { unfold y. rewrite Qabs_Qmult, (Qabs_pos (pow2 (53 - ex))) by lra. reflexivity. }
  assert (H52 : pow2 52 == pow2 (ex - 1) * pow2 (53 - ex)).
  { rewrite <- pow2_add. replace (ex - 1 + (53 - ex))%Z with 52%Z by lia. reflexivity. }
  assert (H53 : pow2 53 == pow2 ex * pow2 (53 - ex)).
  { rewrite <- pow2_add. replace (ex + (53 - ex))%Z with 53%Z by lia. reflexivity. }
  assert (Hy1 : inject_Z (2 ^ 52) <= Qabs y) by (change (inject_Z (2 ^ 52)) with (pow2 52); rewrite Hy, H52; nra).
  assert (Hy2 : Qabs y < inject_Z (2 ^ 53)) by (change (inject_Z (2 ^ 53)) with (pow2 53); rewrite Hy, H53; nra).
  pose proof (trunc_abs y) as Hta.
  pose proof (Qfloor_le (Qabs y)) as Hf1. pose proof (Qlt_floor (Qabs y)) as Hf2.
  assert (Hf3 : (2 ^ 52 <= Qfloor (Qabs y))%Z).
  { rewrite <- (Qfloor_Z (2 ^ 52)). apply Qfloor_resp_le. exact Hy1. }
  rewrite <- Hta in Hf1, Hf2, Hf3. rewrite inject_Z_plus in Hf2. change (inject_Z 1) with 1 in Hf2.
  set (t := trunc y) in *.
  assert (Hat : Qabs (inject_Z t) == inject_Z (Z.abs t)) by apply inject_Z_abs.
  assert (Ht52 : inject_Z (2 ^ 52) <= inject_Z (Z.abs t)) by (rewrite <- Zle_Qle; exact Hf3).
  assert (Hm53 : 0 < pow2 (- 53)) by apply pow2_pos.
  assert (Hc1 : inject_Z (2 ^ 52) * pow2 (- 53) == 1 # 2) by reflexivity.
  assert (Hc2 : inject_Z (2 ^ 53) * pow2 (- 53) == 1) by reflexivity.
  assert (Habs_m : Qabs (inject_Z t * pow2 (- 53)) == inject_Z (Z.abs t) * pow2 (- 53)).
  { rewrite Qabs_Qmult, Hat, (Qabs_pos (pow2 (- 53))) by lra. reflexivity. }
  assert (Hpe : 0 < pow2 ex) by apply pow2_pos.
  assert (Hscale : pow2 (- 53) * pow2 ex * pow2 (53 - ex) == 1).
  { rewrite <- !pow2_add. replace (- 53 + ex + (53 - ex))%Z with 0%Z by lia. reflexivity. }
  assert (Habs_v : Qabs (inject_Z t * pow2 (- 53) * pow2 ex) == inject_Z (Z.abs t) * (pow2 (- 53) * pow2 ex)).
  { rewrite Qabs_Qmult, Habs_m, (Qabs_pos (pow2 ex)) by lra. ring. }
  set (T := inject_Z (Z.abs t)) in *. set (s := pow2 (- 53) * pow2 ex) in *.
  assert (Hs : 0 < s) by (unfold s; nra).
  assert (Hx : Qabs x == Qabs y * s).
  { rewrite Hy. setoid_replace (Qabs x * pow2 (53 - ex) * s) with (Qabs x * (s * pow2 (53 - ex))) by ring.
    rewrite Hscale. ring. }
  assert (Hs52 : s == pow2 (- 52) * pow2 (ex - 1)).
  { unfold s. rewrite <- !pow2_add. replace (- 53 + ex)%Z with (- 52 + (ex - 1))%Z by lia. reflexivity. }
  assert (Hp52 : 0 < pow2 (- 52)) by apply pow2_pos.
  split; [rewrite Habs_m; nra |]. split; [rewrite Habs_m; nra |].
  split; [rewrite Habs_v, Hx; nra |].
  split.
  - rewrite Habs_v. apply Qlt_le_trans with s; [rewrite Hx; nra | rewrite Hs52; nra].
  - destruct (trunc_sign y) as [Hs1 Hs2]. split; intro H0.
    + assert (0 <= y) by (unfold y; nra). specialize (Hs1 H). fold t in Hs1.
      assert (0 <= inject_Z t) by (change 0 with (inject_Z 0); rewrite <- Zle_Qle; exact Hs1). nra.
    + assert (y <= 0) by (unfold y; nra). specialize (Hs2 H). fold t in Hs2.
      assert (inject_Z t <= 0) by (change 0 with (inject_Z 0); rewrite <- Zle_Qle; exact Hs2). nra.
Qed.

(* format full prints every digit the stored precision warrants (mpf_out_str with n_digits = 0): no fixed margin over the
   requested digits bounds it *)
Lemma full_digits_unbounded : forall margin D : Z, exists precf : Z, (D + margin < max_digits Full 0 precf (prec_of_digits D))%Z.
Proof.
  intros margin D. set (k := Z.max 1 (D + margin)).
  exists (64 * k)%Z. change (max_digits Full 0 (64 * k) (prec_of_digits D)) with (gmp_digit_cap (64 * k)). unfold gmp_digit_cap, gmp_prec.
  assert (Hk : (1 <= k)%Z) by (unfold k; lia).
  replace (Z.max 53 (64 * k)) with (64 * k)%Z by lia.
  replace ((64 * k + 127) / 64)%Z with (k + 1)%Z.
  2:{ apply Z.div_unique with 63%Z; lia. }
  replace (64 * (k + 1 - 1))%Z with (64 * k)%Z by lia.
  set (q := LOG10_2 * inject_Z (64 * k)).
  assert (Hq : inject_Z k <= q).
  { unfold q, LOG10_2. rewrite inject_Z_mult. change (inject_Z 64) with 64.
    assert (0 < inject_Z k) by (change 0 with (inject_Z 0); rewrite <- Zlt_Qlt; lia). nra. }
  assert (Hq0 : 0 <= q).
  { eapply Qle_trans; [| exact Hq]. change 0 with (inject_Z 0). rewrite <- Zle_Qle. lia. }
  rewrite (trunc_nonneg_floor q Hq0).
  pose proof (Qfloor_resp_le _ _ Hq) as Hf. rewrite Qfloor_Z in Hf. unfold k in *. lia.
Qed.
