(* C17 - proofs about the output model (OutModel.v).  Stdlib Q / Z only. *)
Require Import ZArith QArith Qround Qabs Qpower String Ascii List Bool Permutation Lia Lqa ZifyBool.
Require Import MPSV.OutFmt.OutModel.
Import ListNotations.
Open Scope Q_scope.

(* ------------------------------------------------------------------ powers of ten *)
Lemma ten_nz : ~ (10 # 1) == 0. Proof. intro H; discriminate H. Qed.

Lemma p10_pos : forall k, 0 < p10 k.
Proof. intro k; unfold p10; apply Qpower_0_lt; reflexivity. Qed.

Lemma p10_add : forall a b, p10 (a + b) == p10 a * p10 b.
Proof. intros; unfold p10; apply Qpower_plus, ten_nz. Qed.

Lemma p10_inv : forall k, p10 k * p10 (- k) == 1.
Proof.
  intro k. rewrite <- p10_add. replace (k + - k)%Z with 0%Z by lia. reflexivity.
Qed.

Lemma p10_mono : forall a b, (a <= b)%Z -> p10 a <= p10 b.
Proof. intros; unfold p10; apply Qpower_le_compat_l; [assumption | discriminate]. Qed.

Lemma p10_0 : p10 0 == 1. Proof. reflexivity. Qed.

(* ------------------------------------------------------------------ rounding to a decimal position *)
Lemma half_floor : forall y : Q,
  - (1 # 2) <= inject_Z (Qfloor (y + (1 # 2))) - y <= 1 # 2.
Proof.
  intro y.
  pose proof (Qfloor_le (y + (1 # 2))) as H1.
  pose proof (Qlt_floor (y + (1 # 2))) as H2.
  rewrite inject_Z_plus in H2. change (inject_Z 1) with 1 in H2.
  split; lra.
Qed.

Lemma round_at_error : forall k x, Qabs (round_at k x - x) <= (1 # 2) * p10 (- k).
Proof.
  intros k x. unfold round_at.
  set (P := p10 k). set (P' := p10 (- k)).
  assert (HP' : 0 < P') by apply p10_pos.
  assert (HPP : P * P' == 1) by apply p10_inv.
  set (y := Qabs x * P).
  pose proof (half_floor y) as [Hlo Hhi].
  set (n := inject_Z (Qfloor (y + (1 # 2)))) in *.
  assert (Hy : Qabs x == y * P').
  { unfold y. rewrite <- Qmult_assoc, HPP. ring. }
  apply Qabs_Qle_condition.
  destruct (Qle_bool 0 x) eqn:Hs.
  - apply Qle_bool_iff in Hs. rewrite (Qabs_pos x Hs) in Hy.
    fold n. rewrite Hy. split; nra.
  - assert (Hneg : x <= 0).
    { destruct (Qlt_le_dec x 0) as [Hl | Hg]; [apply Qlt_le_weak; exact Hl |].
      apply Qle_bool_iff in Hg. congruence. }
    rewrite (Qabs_neg x Hneg) in Hy.
    rewrite inject_Z_opp. fold n.
    assert (Hx : x == - (y * P')) by lra.
    rewrite Hx. split; nra.
Qed.

(* the specification of mpf_out_str's rounding: at most half a unit of the d-th significant digit *)
Lemma round_sig_error : forall d e x, Qabs (round_sig d e x - x) <= (1 # 2) * p10 (e - d).
Proof.
  intros. unfold round_sig. replace (e - d)%Z with (- (d - e))%Z by lia. apply round_at_error.
Qed.

Lemma round_sig_error_unit : forall d e x, Qabs (round_sig d e x - x) <= p10 (e - d).
Proof.
  intros. eapply Qle_trans; [apply round_sig_error |].
  pose proof (p10_pos (e - d)). lra.
Qed.

(* ------------------------------------------------------------------ the checked predicates mean what they say *)
Lemma close_b_spec : forall p x, close_b p x = true <-> Qabs (parsed_value p - x) <= parsed_unit p.
Proof. intros; unfold close_b, Qle_b; apply Qle_bool_iff. Qed.

Lemma radius_ge_b_spec : forall p r slack, radius_ge_b p r slack = true <-> r * (1 - slack) <= parsed_value p.
Proof. intros; unfold radius_ge_b, Qle_b; apply Qle_bool_iff. Qed.

Lemma is_dexp_b_spec : forall e x, is_dexp_b e x = true <-> p10 (e - 1) <= Qabs x /\ Qabs x < p10 e.
Proof.
  intros. unfold is_dexp_b, Qle_b. rewrite andb_true_iff, negb_true_iff, Qle_bool_iff.
  split; intros [H1 H2]; split; try assumption.
  - apply Qnot_le_lt. intro Hc. apply Qle_bool_iff in Hc. congruence.
  - destruct (Qle_bool (p10 e) (Qabs x)) eqn:E; [| reflexivity].
    apply Qle_bool_iff in E. exfalso. apply (Qlt_not_le _ _ H2 E).
Qed.

(* printed = the d-digit rounding of the stored component, written without digits below the rounding
   position  ==>  within one unit of the LAST PRINTED digit (trailing zeros may have been dropped, which
   only makes that unit larger); and within radius + unit of whatever the stored value is within radius of *)
Lemma printed_component_close : forall (p : parsed) (d e : Z) (x : Q),
  parsed_value p == round_sig d e x -> (e - d <= p_exp p)%Z ->
  Qabs (parsed_value p - x) <= parsed_unit p /\
  forall root r, Qabs (x - root) <= r -> Qabs (parsed_value p - root) <= r + parsed_unit p.
Proof.
  intros p d e x Hv Hexp.
  assert (H : Qabs (parsed_value p - x) <= parsed_unit p).
  { rewrite Hv. eapply Qle_trans; [apply round_sig_error_unit |]. unfold parsed_unit. apply p10_mono; assumption. }
  split; [exact H |].
  intros root r Hr.
  setoid_replace (parsed_value p - root) with ((parsed_value p - x) + (x - root)) by ring.
  eapply Qle_trans; [apply Qabs_triangle |]. lra.
Qed.

(* ------------------------------------------------------------------ truncation and the digit-count logic *)
Lemma trunc_nonneg_floor : forall q, 0 <= q -> trunc q = Qfloor q.
Proof.
  intros [n d] H. unfold trunc, Qfloor; simpl.
  apply Z.quot_div_nonneg; [| lia].
  unfold Qle in H; simpl in H. lia.
Qed.

Lemma trunc_le_of_lt : forall q k, 0 <= q -> q < inject_Z (k + 1) -> (trunc q <= k)%Z.
Proof.
  intros q k H0 H. rewrite (trunc_nonneg_floor q H0).
  pose proof (Qfloor_le q) as Hf.
  assert (Hlt : inject_Z (Qfloor q) < inject_Z (k + 1)) by (eapply Qle_lt_trans; eassumption).
  rewrite <- Zlt_Qlt in Hlt. lia.
Qed.

Lemma trunc_le_self : forall q, 0 <= q -> inject_Z (trunc q) <= q.
Proof. intros q H. rewrite (trunc_nonneg_floor q H). apply Qfloor_le. Qed.

Lemma trunc_nonneg : forall q, 0 <= q -> (0 <= trunc q)%Z.
Proof.
  intros q H. rewrite (trunc_nonneg_floor q H).
  replace 0%Z with (Qfloor 0) by reflexivity. apply Qfloor_resp_le; assumption.
Qed.

Lemma printed_digits_bounded : forall lg precf prec_out,
  (printed_digits lg precf prec_out <= out_digit prec_out)%Z /\
  (printed_digits lg precf prec_out <= prec_digits precf)%Z /\
  (printed_digits lg precf prec_out <= digit_count lg)%Z /\
  (printed_digits lg precf prec_out <= gmp_digit_cap prec_out)%Z.
Proof. intros; unfold printed_digits, digits_for; lia. Qed.

(* mpsolve -o D sets output_config->prec = (long)(D * LOG2_10 + 1); then out_digit = D + 10 at most *)
Lemma out_digit_requested : forall D, (0 <= D <= 1000000000)%Z -> (out_digit (prec_of_digits D) <= D + 10)%Z.
Proof.
  intros D [H0 H1]. unfold out_digit, prec_of_digits.
  assert (HD0 : 0 <= inject_Z D) by (change (inject_Z 0 <= inject_Z D); rewrite <- Zle_Qle; exact H0).
  assert (HD1 : inject_Z D <= 1000000000) by (change (inject_Z D <= inject_Z 1000000000); rewrite <- Zle_Qle; exact H1).
  set (a := inject_Z D * LOG2_10 + 1).
  assert (Ha : 0 <= a) by (unfold a, LOG2_10; nra).
  pose proof (trunc_le_self a Ha) as HP.
  pose proof (trunc_nonneg a Ha) as HPn.
  set (P := trunc a) in *.
  assert (HPq : 0 <= inject_Z P) by (change (inject_Z 0 <= inject_Z P); rewrite <- Zle_Qle; exact HPn).
  assert (Hb : 0 <= LOG10_2 * inject_Z P) by (unfold LOG10_2; nra).
  assert (Hlt : LOG10_2 * inject_Z P < inject_Z (D + 1)).
  { rewrite inject_Z_plus. change (inject_Z 1) with 1.
    unfold a, LOG2_10 in HP. unfold LOG10_2. nra. }
  pose proof (trunc_le_of_lt _ D Hb Hlt). lia.
Qed.

(* ------------------------------------------------------------------ reading back what a printer wrote *)
Definition nondigit_head (s : string) : Prop :=
  match s with EmptyString => True | String c _ => digit_of c = None end.

Lemma digit_of_dg : forall d, digit_of (dg_char d) = Some (dg_val d).
Proof. destruct d; reflexivity. Qed.

Lemma take_digits_put : forall ds tail acc cnt, nondigit_head tail ->
  take_digits (put_digits ds tail) acc cnt = (val_from acc ds, (cnt + length ds)%nat, tail).
Proof.
  induction ds as [| d r IH]; intros tail acc cnt Ht.
  - simpl. rewrite Nat.add_0_r. destruct tail as [| c t]; [reflexivity |].
    simpl in Ht. simpl. rewrite Ht. reflexivity.
  - simpl put_digits. simpl take_digits. rewrite digit_of_dg.
    rewrite (IH tail _ _ Ht). unfold val_from. simpl. f_equal. f_equal. lia.
Qed.

Lemma val_from_app : forall a b acc, val_from acc (a ++ b) = val_from (val_from acc a) b.
Proof. intros; unfold val_from; apply fold_left_app. Qed.

Lemma take_sign_digit : forall d s, take_sign (String (dg_char d) s) = (false, String (dg_char d) s).
Proof. destruct d; reflexivity. Qed.

Lemma take_exponent_spec : forall c sg eds, eds <> [] ->
  take_exponent (String (echar_ascii c) (put_esign sg (put_digits eds EmptyString)))
  = Some (match sg with EMinus => - val_from 0 eds | _ => val_from 0 eds end)%Z.
Proof.
  intros c sg eds Hne.
  assert (Hd : take_digits (put_digits eds EmptyString) 0 0 = (val_from 0 eds, length eds, EmptyString)).
  { rewrite take_digits_put by exact I. reflexivity. }
  destruct eds as [| d0 r]; [congruence |].
  assert (Hts : take_sign (put_esign sg (put_digits (d0 :: r) EmptyString))
                = (match sg with EMinus => true | _ => false end, put_digits (d0 :: r) EmptyString)).
  { destruct sg; simpl put_esign; try reflexivity. simpl put_digits. apply take_sign_digit. }
  unfold take_exponent.
  replace ((is_char 101 (echar_ascii c) || is_char 69 (echar_ascii c) || is_char 120 (echar_ascii c))%bool) with true
    by (destruct c; reflexivity).
  rewrite Hts, Hd. simpl length. destruct sg; reflexivity.
Qed.

Lemma nondigit_exp_tail : forall ex : option (echar * esign * list dg),
  nondigit_head (match ex with
                 | None => EmptyString
                 | Some (c, sg, eds) => String (echar_ascii c) (put_esign sg (put_digits eds EmptyString))
                 end).
Proof. intros [[[c sg] eds] |]; [destruct c; reflexivity | exact I]. Qed.

(* decimal_parse inverts render: sign, mantissa integer, power of ten of the last written digit, digit count *)
Lemma decimal_parse_render : forall r, rendering_wf r ->
  decimal_parse (render r) =
  Some {| p_mant := (let m := val_from 0 (r_ip r ++ frac_digits r) in if r_neg r then - m else m)%Z;
          p_exp := (exp_value r - Z.of_nat (length (frac_digits r)))%Z;
          p_ndigits := (length (r_ip r) + length (frac_digits r))%nat;
          p_neg := r_neg r |}.
Proof.
  intros [neg ip fp ex] [Hne Hex]. unfold frac_digits, exp_value in *. simpl in *.
  set (etail := match ex with
                | None => EmptyString
                | Some (c, sg, eds) => String (echar_ascii c) (put_esign sg (put_digits eds EmptyString))
                end).
  assert (Hnd : nondigit_head etail) by apply nondigit_exp_tail.
  assert (Hte : take_exponent etail = Some (match ex with
                  | None => 0 | Some (_, sg, eds) => match sg with EMinus => - val_from 0 eds | _ => val_from 0 eds end end)%Z).
  { unfold etail. destruct ex as [[[c sg] eds] |]; [apply take_exponent_spec; exact Hex | reflexivity]. }
  set (ftail := match fp with None => etail | Some f => String "."%char (put_digits f etail) end).
  assert (Hfd : nondigit_head ftail) by (unfold ftail; destruct fp; [reflexivity | exact Hnd]).
  set (body := put_digits ip ftail).
  (* the sign *)
  assert (Hsign : take_sign (render {| r_neg := neg; r_ip := ip; r_fp := fp; r_exp := ex |}) = (neg, body)).
  { unfold render; simpl. fold etail. fold ftail. fold body. destruct neg; [reflexivity |].
    unfold body. destruct ip as [| d0 rest].
    - simpl. unfold ftail. destruct fp as [f |]; [reflexivity |].
      simpl in Hne. congruence.
    - simpl put_digits. apply take_sign_digit. }
  unfold decimal_parse. rewrite Hsign.
  unfold body. rewrite (take_digits_put ip ftail 0 0 Hfd). simpl Nat.add.
  unfold ftail. destruct fp as [f |].
  - replace (is_char 46 "."%char) with true by reflexivity.
    rewrite (take_digits_put f etail _ 0 Hnd). simpl Nat.add.
    destruct (length ip + length f)%nat eqn:Hlen.
    + exfalso. destruct ip; destruct f; simpl in *; try lia. congruence.
    + rewrite Hte. rewrite val_from_app. reflexivity.
  - rewrite app_nil_r in *. simpl length. rewrite Nat.add_0_r.
    assert (Hm : match etail with
                 | EmptyString => (val_from 0 ip, 0%nat, etail)
                 | String c r0 => if is_char 46 c then let '(m, n, r') := take_digits r0 (val_from 0 ip) 0 in (m, n, r')
                                  else (val_from 0 ip, 0%nat, etail)
                 end = (val_from 0 ip, 0%nat, etail)).
    { unfold etail. destruct ex as [[[c sg] eds] |]; [destruct c; reflexivity | reflexivity]. }
    rewrite Hm. rewrite Nat.add_0_r.
    destruct (length ip) eqn:Hlen.
    + exfalso. destruct ip; simpl in *; [congruence | lia].
    + rewrite Hte. simpl. rewrite Z.sub_0_r. reflexivity.
Qed.

Lemma decimal_value_render : forall r, rendering_wf r -> 
  exists q, decimal_value (render r) = Some q /\ q == rendering_value r.
Proof.
  intros r Hwf. unfold decimal_value. rewrite (decimal_parse_render r Hwf). simpl.
  eexists; split; [reflexivity |]. unfold parsed_value, rendering_value. simpl. reflexivity.
Qed.

(* ------------------------------------------------------------------ which roots get a line *)
Lemma filter_length_perm : forall (A : Type) (f : A -> bool) l l', Permutation l l' ->
  length (filter f l) = length (filter f l').
Proof.
  intros A f l l' H. induction H; simpl.
  - reflexivity.
  - destruct (f x); simpl; congruence.
  - destruct (f x), (f y); reflexivity.
  - congruence.
Qed.

Lemma filter_perm : forall (A : Type) (f : A -> bool) l l', Permutation l l' -> Permutation (filter f l) (filter f l').
Proof.
  intros A f l l' H. induction H; simpl.
  - constructor.
  - destruct (f x); [constructor |]; assumption.
  - destruct (f x), (f y); try apply Permutation_refl. constructor.
  - eapply Permutation_trans; eassumption.
Qed.

Definition shown (incl_of : nat -> incl) (i : nat) : bool := negb (is_out (incl_of i)).

Lemma printed_count : forall zero_roots outside order incl_of n,
  Permutation order (seq 0 n) ->
  let lines := printed_lines zero_roots outside order incl_of in
  length lines = ((if outside then 0 else zero_roots) + length (filter (shown incl_of) (seq 0 n)))%nat /\
  firstn (if outside then 0 else zero_roots) lines = repeat None (if outside then 0 else zero_roots) /\
  Permutation (skipn (if outside then 0 else zero_roots) lines) (map Some (filter (shown incl_of) (seq 0 n))) /\
  (forall i, In (Some i) lines <-> (i < n)%nat /\ incl_of i <> IncOut).
Proof.
  intros z outside order incl_of n Hp lines. unfold lines, printed_lines.
  set (zs := if outside then [] else repeat (@None nat) z).
  set (k := if outside then 0%nat else z).
  assert (Hzs : zs = repeat None k) by (unfold zs, k; destruct outside; reflexivity).
  assert (Hlen : length zs = k) by (rewrite Hzs; apply repeat_length).
  fold (shown incl_of).
  split; [| split; [| split]].
  - rewrite app_length, map_length, Hlen. f_equal. apply filter_length_perm; assumption.
  - rewrite <- Hlen at 1. rewrite firstn_app, Nat.sub_diag, firstn_all. simpl. rewrite app_nil_r. exact Hzs.
  - rewrite <- Hlen. rewrite skipn_app, Nat.sub_diag, skipn_all. simpl.
    apply Permutation_map, filter_perm; assumption.
  - intro i. split.
    + intro Hin. apply in_app_or in Hin. destruct Hin as [Hin | Hin].
      * rewrite Hzs in Hin. apply repeat_spec in Hin. discriminate.
      * apply in_map_iff in Hin. destruct Hin as [j [Hj Hin]]. inversion Hj; subst j.
        apply filter_In in Hin. destruct Hin as [Hin Hs]. split.
        -- apply (Permutation_in _ Hp) in Hin. apply in_seq in Hin. lia.
        -- unfold shown in Hs. intro Hc. rewrite Hc in Hs. discriminate.
    + intros [Hlt Hno]. apply in_or_app. right. apply in_map. apply filter_In. split.
      * apply (Permutation_in _ (Permutation_sym Hp)). apply in_seq. lia.
      * unfold shown. destruct (incl_of i); try reflexivity. congruence.
Qed.

(* goal "count": the three numbers add up to the degree *)
Lemma count_roots_sum : forall zero_roots outside incls,
  let '(a, b, c) := count_roots zero_roots outside incls in (a + b + c = zero_roots + length incls)%nat.
Proof.
  intros z outside incls. unfold count_roots.
  assert (H : (length (filter (fun c => match c with IncIn => true | _ => false end) incls)
               + length (filter is_out incls)
               + length (filter (fun c => match c with IncUnknown => true | _ => false end) incls) = length incls)%nat).
  { induction incls as [| c r IH]; [reflexivity |]. destruct c; simpl; lia. }
  destruct outside; lia.
Qed.

(* ------------------------------------------------------------------ the "0.e<l>" branch *)
(* lg is within 1/den of log10 x, said without logarithms: 10^num <= x^den < 10^(num+1) and num/den <= lg <= (num+1)/den *)
Definition lg_within (x lg : Q) (den : positive) : Prop :=
  exists num : Z, p10 num <= x ^ (Zpos den) /\ x ^ (Zpos den) < p10 (num + 1) /\
                  num # den <= lg /\ lg <= (num + 1) # den.

(* partial: with an exact logarithm (every integer at or above lgabs is an exponent bounding |x|) the
   branch is within one unit when |x| <= 1; what is missing is libm's error and the case |x| > 1, which fails: *)
Lemma zero_branch_close_small : forall (x lgabs : Q),
  lgabs <= 0 -> (forall k : Z, lgabs <= inject_Z k -> Qabs x <= p10 k) ->
  Qabs (0 - x) <= p10 (trunc lgabs).
Proof.
  intros x lgabs Hneg Hlog.
  setoid_replace (0 - x) with (- x) by ring. rewrite Qabs_opp.
  apply Hlog.
  (* for lgabs <= 0 truncation toward zero rounds up *)
  destruct lgabs as [n d]. unfold trunc; simpl.
  assert (Hn : (n <= 0)%Z) by (unfold Qle in Hneg; simpl in Hneg; lia).
  unfold Qle; simpl.
  pose proof (Z.quot_opp_l n (Zpos d) ltac:(lia)) as Hq.
  assert (Hdiv : (Z.quot (- n) (Zpos d) * Zpos d <= - n)%Z).
  { rewrite Z.quot_div_nonneg by lia. rewrite Z.mul_comm. apply Z.mul_div_le. lia. }
  rewrite Hq in Hdiv. lia.
Qed.

(* with the exponent of the proposed fix the branch is within one unit for every x (exact logarithm assumed) *)
Lemma zero_branch_fixed_close : forall (x lgabs : Q),
  (forall k : Z, lgabs <= inject_Z k -> Qabs x <= p10 k) ->
  Qabs (0 - x) <= p10 (zero_exp_fixed lgabs).
Proof.
  intros x lgabs Hlog. unfold zero_exp_fixed.
  destruct (Qle_bool 0 lgabs) eqn:Hs.
  - apply Qle_bool_iff in Hs.
    setoid_replace (0 - x) with (- x) by ring. rewrite Qabs_opp.
    apply Hlog. rewrite (trunc_nonneg_floor lgabs Hs).
    apply Qlt_le_weak, Qlt_floor.
  - apply zero_branch_close_small; [| exact Hlog].
    destruct (Qlt_le_dec lgabs 0) as [Hl | Hg]; [apply Qlt_le_weak; exact Hl |].
    apply Qle_bool_iff in Hg. congruence.
Qed.

Lemma pow_bracket_4 : p10 602 <= (4 # 1) ^ 1000 /\ (4 # 1) ^ 1000 < p10 603.
Proof. unfold p10. split; [apply Qle_bool_iff | apply Qnot_le_lt; intro H; apply Qle_bool_iff in H; revert H]; vm_compute; [reflexivity | discriminate]. Qed.
Lemma pow_bracket_5 : p10 698 <= (5 # 1) ^ 1000 /\ (5 # 1) ^ 1000 < p10 699.
Proof. unfold p10. split; [apply Qle_bool_iff | apply Qnot_le_lt; intro H; apply Qle_bool_iff in H; revert H]; vm_compute; [reflexivity | discriminate]. Qed.

(* refuted for |x| > 1 for the code before /repo commit 0b5aaff1: a stored component 5 with radius 20 (logarithms right to 1/1000) is printed "0.e0",
   and 5 is not within one unit (10^0) of 0 *)
Lemma zero_branch_unit_refuted :
  exists (x rad lg lgabs : Q) (p : parsed),
    lg_within (rad / x) lg 1000 /\ lg_within x lgabs 1000 /\
    outfloat_plan_prefix lg lgabs 64 53 = PZeroExp 0 /\
    decimal_parse "0.e0" = Some p /\ parsed_unit p == p10 0 /\ close_b p x = false.
Proof.
  exists (5 # 1), (20 # 1), (602 # 1000), (699 # 1000).
  exists {| p_mant := 0; p_exp := 0; p_ndigits := 1; p_neg := false |}.
  split; [| split; [| split; [| split; [| split]]]].
  - exists 602%Z. destruct pow_bracket_4 as [H1 H2].
    split; [exact H1 | split; [exact H2 | split; unfold Qle; simpl; lia]].
  - exists 698%Z. destruct pow_bracket_5 as [H1 H2].
    split; [exact H1 | split; [exact H2 | split; unfold Qle; simpl; lia]].
  - vm_compute. reflexivity.
  - vm_compute. reflexivity.
  - reflexivity.
  - vm_compute. reflexivity.
Qed.
