(* C17 - the DPE printing path over the reals: how far the printed 15 digits of rdpe_out_str / rdpe_out_str_u can be from the
   stored DPE, for ANY libm within (ulog absolute on log10 over [1/2, 1), upow relative on pow (10, .) over (-1, 1)).
   The model (DpeModel.v) is over Q; Q2R carries it into R, where log10 and 10^y live. *)
Require Import Reals QArith Qreals Qpower Qabs Qround Lra Lia ZArith RMicromega String.
Require Import Interval.Tactic.
Require Import MPSV.OutFmt.OutModel MPSV.OutFmt.OutProps MPSV.OutFmt.DpeModel MPSV.OutFmt.DpeProps.
Local Open Scope R_scope.

Definition log10R (x : R) : R := ln x / ln 10.
Definition pow10R (y : R) : R := exp (y * ln 10).
Definition u53 : R := / 2 ^ 53.

Lemma Rabs_le_inv : forall a b : R, Rabs a <= b -> - b <= a <= b.
Proof. intros a b H. unfold Rabs in H. destruct (Rcase_abs a); lra. Qed.

Lemma ln10_pos : 0 < ln 10. Proof. interval with (i_prec 60). Qed.
Lemma pow10R_pos : forall y, 0 < pow10R y. Proof. intro; apply exp_pos. Qed.
Lemma pow10R_add : forall a b, pow10R (a + b) = pow10R a * pow10R b.
Proof. intros; unfold pow10R. rewrite Rmult_plus_distr_r. apply exp_plus. Qed.
Lemma pow10R_mono : forall a b, a <= b -> pow10R a <= pow10R b.
Proof.
  intros a b H. unfold pow10R. destruct H as [H | ->]; [left; apply exp_increasing | right; reflexivity].
  apply Rmult_lt_compat_r; [apply ln10_pos | exact H].
Qed.
Lemma pow10R_1 : pow10R 1 = 10.
Proof. unfold pow10R. rewrite Rmult_1_l. apply exp_ln. lra. Qed.
Lemma pow10R_log10R : forall x, 0 < x -> pow10R (log10R x) = x.
Proof.
  intros x Hx. unfold pow10R, log10R. replace (ln x / ln 10 * ln 10) with (ln x).
  - apply exp_ln; exact Hx.
  - field. pose proof ln10_pos; lra.
Qed.

(* powers with integer exponents, as Q and as exp *)
Lemma Q2R_Qpower_exp : forall (b : Q) (k : Z), 0 < Q2R b -> Q2R (b ^ k) = exp (IZR k * ln (Q2R b)).
Proof.
  intros b k Hb. rewrite Q2RpowerRZ.
  - rewrite powerRZ_Rpower by exact Hb. reflexivity.
  - left. intro Hc. apply Qeq_eqR in Hc. rewrite RMicromega.Q2R_0 in Hc. lra.
Qed.

Lemma Q2R_p10 : forall k, Q2R (p10 k) = pow10R (IZR k).
Proof.
  intro k. unfold p10. rewrite Q2R_Qpower_exp.
  - unfold pow10R. replace (Q2R (10 # 1)) with 10 by (unfold Q2R; simpl; lra). reflexivity.
  - unfold Q2R; simpl; lra.
Qed.

Lemma Q2R_pow2 : forall k, Q2R (pow2 k) = pow10R (IZR k * log10R 2).
Proof.
  intro k. unfold pow2. rewrite Q2R_Qpower_exp.
  - unfold pow10R, log10R. replace (Q2R (2 # 1)) with 2 by (unfold Q2R; simpl; lra).
    f_equal. field. pose proof ln10_pos; lra.
  - unfold Q2R; simpl; lra.
Qed.

Lemma Q2R_inject_Z : forall z, Q2R (inject_Z z) = IZR z.
Proof. intro z. unfold Q2R, inject_Z; simpl. field. Qed.

Lemma Qabs_le_R : forall (q b : Q), (Qabs q <= b)%Q -> Rabs (Q2R q) <= Q2R b.
Proof.
  intros q b H. apply Qabs_Qle_condition in H. destruct H as [H1 H2].
  apply Qle_Rle in H1, H2. rewrite Q2R_opp in H1. apply Rabs_le. lra.
Qed.

Lemma Q2R_pow2_m53 : Q2R (pow2 (- 53)) = u53.
Proof. unfold u53, pow2, Q2R. simpl. lra. Qed.

(* rounding to binary64, in R *)
Lemma rn53_R : forall x, exists dl, Rabs dl <= u53 /\ Q2R (rn53 x) = Q2R x * (1 + dl).
Proof.
  intro x. destruct (rn53_rel x) as [dl [H1 H2]]. exists (Q2R dl). split.
  - rewrite <- Q2R_pow2_m53. apply Qabs_le_R; exact H1.
  - apply Qeq_eqR in H2. rewrite H2, Q2R_mult, Q2R_plus. f_equal. f_equal. unfold Q2R; simpl; lra.
Qed.

(* ------------------------------------------------------------------ the error of the computed logarithm t *)
Lemma L_close : Rabs (Q2R LOG10_2 - log10R 2) <= / 2 ^ 55 /\ 0 < Q2R LOG10_2 <= 30103 / 100000.
Proof.
  unfold LOG10_2, log10R, Q2R; simpl. split; [| split]; interval with (i_prec 90).
Qed.

Lemma log10R_half_range : forall x, / 2 <= x < 1 -> - (30103 / 100000) <= log10R x <= 0.
Proof.
  intros x [H1 H2]. unfold log10R. pose proof ln10_pos as H10.
  assert (Hl : ln (/ 2) <= ln x).
  { destruct H1 as [H1 | <-]; [left; apply ln_increasing; lra | right; reflexivity]. }
  assert (Hu : ln x < 0) by (rewrite <- ln_1; apply ln_increasing; lra).
  assert (Hh : - (30103 / 100000) * ln 10 <= ln (/ 2)) by (interval with (i_prec 60)).
  split.
  - apply Rmult_le_reg_r with (ln 10); [exact H10 |]. unfold Rdiv. rewrite Rmult_assoc, Rinv_l by lra. lra.
  - apply Rmult_le_reg_r with (ln 10); [exact H10 |]. unfold Rdiv. rewrite Rmult_assoc, Rinv_l by lra. lra.
Qed.

(* t = ((a + es (1+d0) L (1+d1)) (1+d2): the three roundings of `log10 (m) + esp * LOG10_2` *)
Lemma log_sum_error : forall (lm a L lg2 es ulog d0 d1 d2 : R),
  0 <= ulog -> Rabs (a - lm) <= ulog -> - (30103 / 100000) <= lm <= 0 ->
  Rabs (L - lg2) <= / 2 ^ 55 -> 0 < L <= 30103 / 100000 ->
  Rabs d0 <= u53 -> Rabs d1 <= u53 -> Rabs d2 <= u53 ->
  Rabs ((a + es * (1 + d0) * L * (1 + d1)) * (1 + d2) - (lm + es * lg2))
    <= (1 + u53) * ulog + (Rabs es + 1) * (5 / 4 * u53).
Proof.
  intros lm a L lg2 es ulog d0 d1 d2 Hu Ha Hlm HL HLr H0 H1 H2.
  assert (Hu53 : u53 = / 9007199254740992) by (unfold u53; f_equal; lra).
  assert (Hu53p : 0 < u53) by (rewrite Hu53; lra).
  apply Rabs_le_inv in H0, H1, H2. apply Rabs_le_inv in Ha, HL.
  replace (/ 2 ^ 55) with (u53 / 4) in HL by (rewrite Hu53; lra).
  set (s := d0 + d1 + d0 * d1).
  assert (Hs : Rabs s <= 2 * u53 + u53 * u53).
  { apply Rabs_le. unfold s. split; nra. }
  apply Rabs_le_inv in Hs.
  set (K := L * (1 + s) - lg2).
  assert (HK : Rabs K <= u53 / 4 + 30103 / 100000 * (2 * u53 + u53 * u53)).
  { apply Rabs_le. unfold K. split; nra. }
  assert (Hb : Rabs (L * (1 + s)) <= 3011 / 10000).
  { apply Rabs_le. rewrite Hu53 in *. split; nra. }
  replace ((a + es * (1 + d0) * L * (1 + d1)) * (1 + d2) - (lm + es * lg2))
    with ((a - lm) + es * K + (a + es * (L * (1 + s))) * d2) by (unfold K, s; ring).
  assert (Hes := Rabs_pos es).
  assert (T1 : Rabs (es * K) <= Rabs es * (u53 / 4 + 30103 / 100000 * (2 * u53 + u53 * u53))).
  { rewrite Rabs_mult. apply Rmult_le_compat_l; assumption. }
  assert (T2 : Rabs ((a + es * (L * (1 + s))) * d2) <= (30103 / 100000 + ulog + Rabs es * (3011 / 10000)) * u53).
  { rewrite Rabs_mult. apply Rmult_le_compat; try apply Rabs_pos.
    - eapply Rle_trans; [apply Rabs_triang |]. apply Rplus_le_compat.
      + apply Rabs_le. split; lra.
      + rewrite Rabs_mult. apply Rmult_le_compat_l; assumption.
    - apply Rabs_le; lra. }
  assert (T0 : Rabs (a - lm) <= ulog) by (apply Rabs_le; lra).
  eapply Rle_trans; [apply Rabs_triang |]. eapply Rle_trans; [apply Rplus_le_compat; [apply Rabs_triang | exact T2] |].
  eapply Rle_trans; [apply Rplus_le_compat_r; apply Rplus_le_compat; [exact T0 | exact T1] |].
  rewrite Hu53 in *. nra.
Qed.

(* ------------------------------------------------------------------ the radius clause *)
Section Radius.
Variables (flog10 fpow10 : Q -> Q) (ulog upow : R).
Hypothesis Hulog : 0 <= ulog.
Hypothesis Hupow : 0 <= upow <= / 2.
(* libm: log10 on normalised mantissas within ulog (absolute), pow (10, y) for |y| < 1 within upow (relative) *)
Hypothesis Hlog : forall m : Q, (1 # 2 <= m)%Q -> (m < 1)%Q -> Rabs (Q2R (flog10 m) - log10R (Q2R m)) <= ulog.
Hypothesis Hpow : forall y : Q, (Qabs y < 1)%Q -> Rabs (Q2R (fpow10 y) - pow10R (Q2R y)) <= upow * pow10R (Q2R y).

(* the error of the double-precision logarithm log10 (m) + esp * LOG10_2 as computed *)
Definition Derr (esp : Z) : R := (1 + u53) * ulog + (IZR (Z.abs esp) + 1) * (5 / 4 * u53).

Lemma Derr_nonneg : forall esp, 0 <= Derr esp.
Proof.
  intro esp. unfold Derr. assert (0 < u53) by (unfold u53; apply Rinv_0_lt_compat; lra).
  assert (0 <= IZR (Z.abs esp)) by (apply IZR_le; lia). nra.
Qed.

Lemma dl_pos_spec : forall (m : Q) (esp : Z), (1 # 2 <= m)%Q -> (m < 1)%Q ->
  let '(d, l) := dl_pos flog10 fpow10 m esp in
  exists E dp fr, Rabs E <= Derr esp /\ Rabs dp <= upow /\ Rabs fr < 1 /\
    Q2R d = pow10R fr * (1 + dp) /\
    fr + IZR l = log10R (Q2R m) + IZR esp * log10R 2 + E.
Proof.
  intros m esp Hm1 Hm2. unfold dl_pos.
  destruct (rn53_R (inject_Z esp)) as [d0 [Hd0 E0]].
  destruct (rn53_R (rn53 (inject_Z esp) * LOG10_2)) as [d1 [Hd1 E1]].
  destruct (rn53_R (flog10 m + rn53 (rn53 (inject_Z esp) * LOG10_2))) as [d2 [Hd2 E2]].
  set (t := rn53 (flog10 m + rn53 (rn53 (inject_Z esp) * LOG10_2))) in *.
  set (x := trunc t).
  assert (Ht : Q2R t = (Q2R (flog10 m) + IZR esp * (1 + d0) * Q2R LOG10_2 * (1 + d1)) * (1 + d2)).
  { rewrite E2, Q2R_plus, E1, Q2R_mult, E0, Q2R_inject_Z. ring. }
  assert (Hmr : / 2 <= Q2R m < 1).
  { apply Qle_Rle in Hm1. apply Qlt_Rlt in Hm2. unfold Q2R in Hm1 at 1, Hm2 at 2; simpl in Hm1, Hm2. lra. }
  destruct L_close as [HL1 HL2].
  pose proof (log_sum_error (log10R (Q2R m)) (Q2R (flog10 m)) (Q2R LOG10_2) (log10R 2) (IZR esp) ulog d0 d1 d2
                Hulog (Hlog m Hm1 Hm2) (log10R_half_range _ Hmr) HL1 HL2 Hd0 Hd1 Hd2) as HE.
  rewrite <- Ht in HE. rewrite <- abs_IZR in HE.
  pose proof (trunc_frac t) as Hf. fold x in Hf.
  assert (Hfr : Rabs (Q2R (t - inject_Z x)) < 1).
  { assert (Hq : (Qabs (t - inject_Z x) <= Qabs (t - inject_Z x))%Q) by apply Qle_refl.
    apply Qabs_le_R in Hq. apply Qlt_Rlt in Hf. replace (Q2R 1) with 1 in Hf by (unfold Q2R; simpl; lra). lra. }
  pose proof (Hpow _ Hf) as HP.
  set (fr := Q2R (t - inject_Z x)) in *.
  pose proof (pow10R_pos fr) as HPp.
  exists (Q2R t - (log10R (Q2R m) + IZR esp * log10R 2)), ((Q2R (fpow10 (t - inject_Z x)) - pow10R fr) / pow10R fr), fr.
  split; [exact HE | split; [| split; [exact Hfr | split]]].
  - unfold Rdiv. rewrite Rabs_mult, Rabs_inv. rewrite (Rabs_pos_eq (pow10R fr)) by lra.
    apply Rmult_le_reg_r with (pow10R fr); [exact HPp |]. rewrite Rmult_assoc, Rinv_l by lra. lra.
  - field. lra.
  - unfold fr. rewrite Q2R_minus, Q2R_inject_Z. ring.
Qed.

Lemma pow10R_14 : pow10R 14 = 10 ^ 14.
Proof. change 14 with (IZR 14) at 1. rewrite <- Q2R_p10. unfold p10, Q2R. simpl. lra. Qed.

(* what is printed for (d, l), d > 0: at least (d - 5e-15) 10^l *)
Lemma out_value_lower : forall (d : Q) (l : Z), 0 < Q2R d ->
  (Q2R d - 5 / 10 ^ 15) * pow10R (IZR l) <= Q2R (out_value d l).
Proof.
  intros d l Hd. unfold out_value.
  assert (Hdq : (0 <= d)%Q).
  { apply Rle_Qle. replace (Q2R 0) with 0 by (unfold Q2R; simpl; lra). lra. }
  assert (Hb : Qle_bool 0 d = true) by (apply Qle_bool_iff; exact Hdq).
  rewrite Hb. pose proof (f14_units_error d) as He. rewrite (Qabs_pos d Hdq) in He.
  apply Qabs_le_R in He. apply Rabs_le_inv in He.
  rewrite Q2R_minus, Q2R_mult, Q2R_inject_Z, Q2R_p10 in He.
  replace (Q2R (1 # 2)) with (/ 2) in He by (unfold Q2R; simpl; lra).
  change (IZR 14) with 14 in He. rewrite pow10R_14 in He.
  rewrite Q2R_mult, Q2R_inject_Z, Q2R_p10, minus_IZR.
  unfold Rminus at 2. rewrite pow10R_add.
  assert (Hm14 : pow10R (- 14) = / 10 ^ 14).
  { apply Rmult_eq_reg_l with (pow10R 14); [| pose proof (pow10R_pos 14); lra].
    rewrite <- pow10R_add. replace (14 + - 14) with 0 by lra. rewrite pow10R_14.
    unfold pow10R. rewrite Rmult_0_l, exp_0. field. }
  change (- IZR 14) with (- 14). rewrite Hm14.
  pose proof (pow10R_pos (IZR l)) as Hp.
  set (N := IZR (f14_units d)) in *. set (P := pow10R (IZR l)) in *.
  assert (Hgoal : (Q2R d - 5 / 10 ^ 15) * P = (Q2R d * 10 ^ 14 - / 2) * (P * / 10 ^ 14)) by (field).
  rewrite Hgoal. apply Rmult_le_compat_r; [| lra].
  assert (0 < / 10 ^ 14) by (apply Rinv_0_lt_compat; lra). nra.
Qed.

(* THE RADIUS CLAUSE, for every normalised positive DPE, any exponent: *)
Theorem printed_radius_ge : forall (m : Q) (esp : Z), (1 # 2 <= m)%Q -> (m < 1)%Q ->
  let '(d, l) := get_dl flog10 fpow10 m esp in
  Q2R m * Q2R (pow2 esp) * (1 - ln 10 * Derr esp - upow - 5 / 10 ^ 14) <= Q2R (out_value d l).
Proof.
  intros m esp Hm1 Hm2. unfold get_dl.
  assert (Hmpos : (0 < m)%Q) by (eapply Qlt_le_trans; [| exact Hm1]; reflexivity).
  destruct (Qeq_bool m 0) eqn:Hz.
  { apply Qeq_bool_iff in Hz. rewrite Hz in Hmpos. discriminate Hmpos. }
  assert (Hb : Qle_bool 0 m = true) by (apply Qle_bool_iff, Qlt_le_weak; exact Hmpos).
  rewrite Hb. pose proof (dl_pos_spec m esp Hm1 Hm2) as H.
  destruct (dl_pos flog10 fpow10 m esp) as [d l].
  destruct H as [E [dp [fr [HE [Hdp [Hfr [Hd Hsum]]]]]]].
  assert (Hmr : 0 < Q2R m).
  { apply Qlt_Rlt in Hmpos. replace (Q2R 0) with 0 in Hmpos by (unfold Q2R; simpl; lra). exact Hmpos. }
  apply Rabs_le_inv in Hdp. apply Rabs_le_inv in HE.
  assert (Hfr' : -1 < fr < 1) by (unfold Rabs in Hfr; destruct (Rcase_abs fr); lra).
  pose proof (pow10R_pos fr) as HPf.
  assert (Hdpos : 0 < Q2R d) by (rewrite Hd; nra).
  eapply Rle_trans; [| apply (out_value_lower d l Hdpos)].
  (* stored = 10^T *)
  set (T := log10R (Q2R m) + IZR esp * log10R 2) in *.
  assert (Hst : Q2R m * Q2R (pow2 esp) = pow10R T).
  { unfold T. rewrite pow10R_add, pow10R_log10R by exact Hmr. rewrite Q2R_pow2. reflexivity. }
  rewrite Hst.
  assert (Hl : pow10R (IZR l) = pow10R T * pow10R E * pow10R (- fr)).
  { rewrite <- !pow10R_add. f_equal. lra. }
  rewrite Hl, Hd.
  pose proof (pow10R_pos T) as HT. pose proof (pow10R_pos E) as HEp. pose proof (pow10R_pos (- fr)) as Hnf.
  assert (Hinv : pow10R fr * pow10R (- fr) = 1).
  { rewrite <- pow10R_add. replace (fr + - fr) with 0 by lra. unfold pow10R. rewrite Rmult_0_l. apply exp_0. }
  assert (Hnf10 : pow10R (- fr) <= 10) by (rewrite <- pow10R_1; apply pow10R_mono; lra).
  pose proof (Derr_nonneg esp) as HD. pose proof ln10_pos as H10.
  assert (HE1 : 1 - ln 10 * Derr esp <= pow10R E).
  { eapply Rle_trans; [| apply (pow10R_mono (- Derr esp) E); lra].
    unfold pow10R. pose proof (exp_ineq1_le (- Derr esp * ln 10)). lra. }
  replace ((pow10R fr * (1 + dp) - 5 / 10 ^ 15) * (pow10R T * pow10R E * pow10R (- fr)))
    with (pow10R T * (pow10R E * ((pow10R fr * pow10R (- fr)) * (1 + dp) - 5 / 10 ^ 15 * pow10R (- fr)))) by ring.
  rewrite Hinv.
  apply Rmult_le_compat_l; [lra |].
  set (c := 1 * (1 + dp) - 5 / 10 ^ 15 * pow10R (- fr)).
  assert (Hc : 1 - upow - 5 / 10 ^ 14 <= c) by (unfold c; nra).
  assert (Hc0 : 0 <= 1 - upow - 5 / 10 ^ 14) by lra.
  set (A := ln 10 * Derr esp) in *. assert (HA : 0 <= A) by (unfold A; nra).
  apply Rle_trans with ((1 - A) * (1 - upow - 5 / 10 ^ 14)); [nra |].
  apply Rle_trans with (pow10R E * (1 - upow - 5 / 10 ^ 14)); [nra | nra].
Qed.

(* the "0.e<l>" branch as now coded (rdpe_get_dl of the magnitude, l++ when d >= 1): 10^l' covers the stored magnitude up to
   the error of the computed logarithm and of pow:  m 2^esp <= 10^l' * 10^Derr * (1 + 2 upow) *)
Theorem zero_branch_code_covers : forall (m : Q) (esp : Z), (1 # 2 <= m)%Q -> (m < 1)%Q ->
  let '(d, l) := get_dl flog10 fpow10 m esp in
  let l' := if Qle_bool 1 d then (l + 1)%Z else l in
  Q2R m * Q2R (pow2 esp) <= pow10R (IZR l') * pow10R (Derr esp) * (1 + 2 * upow).
Proof.
  intros m esp Hm1 Hm2. unfold get_dl.
  assert (Hmpos : (0 < m)%Q) by (eapply Qlt_le_trans; [| exact Hm1]; reflexivity).
  destruct (Qeq_bool m 0) eqn:Hz.
  { apply Qeq_bool_iff in Hz. rewrite Hz in Hmpos. discriminate Hmpos. }
  assert (Hb : Qle_bool 0 m = true) by (apply Qle_bool_iff, Qlt_le_weak; exact Hmpos).
  rewrite Hb. pose proof (dl_pos_spec m esp Hm1 Hm2) as H.
  destruct (dl_pos flog10 fpow10 m esp) as [d l].
  destruct H as [E [dp [fr [HE [Hdp [Hfr [Hd Hsum]]]]]]].
  assert (Hmr : 0 < Q2R m).
  { apply Qlt_Rlt in Hmpos. replace (Q2R 0) with 0 in Hmpos by (unfold Q2R; simpl; lra). exact Hmpos. }
  apply Rabs_le_inv in Hdp. apply Rabs_le_inv in HE.
  assert (Hfr' : -1 < fr < 1) by (unfold Rabs in Hfr; destruct (Rcase_abs fr); lra).
  set (T := log10R (Q2R m) + IZR esp * log10R 2) in *.
  assert (Hst : Q2R m * Q2R (pow2 esp) = pow10R T).
  { unfold T. rewrite pow10R_add, pow10R_log10R by exact Hmr. rewrite Q2R_pow2. reflexivity. }
  rewrite Hst.
  assert (HT : pow10R T = pow10R (IZR l) * pow10R fr * pow10R (- E)).
  { rewrite <- !pow10R_add. f_equal. lra. }
  pose proof (pow10R_pos (IZR l)) as Hl. pose proof (pow10R_pos fr) as Hf. pose proof (pow10R_pos (- E)) as HnE.
  pose proof (pow10R_pos (Derr esp)) as HDp.
  assert (HED : pow10R (- E) <= pow10R (Derr esp)) by (apply pow10R_mono; lra).
  destruct (Qle_bool 1 d) eqn:Hd1.
  - rewrite plus_IZR, pow10R_add, pow10R_1, HT.
    assert (Hf10 : pow10R fr <= 10) by (rewrite <- pow10R_1; apply pow10R_mono; lra).
    assert (H1 : pow10R (IZR l) * pow10R fr * pow10R (- E) <= pow10R (IZR l) * 10 * pow10R (Derr esp)).
    { apply Rmult_le_compat; first [nra | apply Rmult_le_compat_l; lra]. }
    eapply Rle_trans; [exact H1 |]. assert (0 < pow10R (IZR l) * 10 * pow10R (Derr esp)) by nra. nra.
  - assert (Hdlt : Q2R d < 1).
    { destruct (Qlt_le_dec d 1) as [Hlt | Hge]; [| apply Qle_bool_iff in Hge; congruence].
      apply Qlt_Rlt in Hlt. replace (Q2R 1) with 1 in Hlt by (unfold Q2R; simpl; lra). exact Hlt. }
    rewrite Hd in Hdlt.
    assert (Hf1 : pow10R fr <= 1 + 2 * upow) by nra.
    rewrite HT.
    assert (H1 : pow10R (IZR l) * pow10R fr * pow10R (- E) <= pow10R (IZR l) * (1 + 2 * upow) * pow10R (Derr esp)).
    { apply Rmult_le_compat; first [nra | apply Rmult_le_compat_l; lra]. }
    eapply Rle_trans; [exact H1 |]. right. ring.
Qed.

End Radius.

(* ------------------------------------------------------------------ the 1e-13 allowance is not met: a witness
   m = 0x1.ddc72d40a34e9p-1, esp = -1003 (a radius of about 1.09e-302).  lgv and pwv are what glibc's log10 and pow return
   at the two points the code evaluates them (both within half an ulp of the true values); the printed radius
   0.10886056081147x-301 is 1.68e-13 (relative) below the stored one.  Replayed on the real code by the check. *)
Definition w1_m : Q := 8405160066430185 # 9007199254740992.
Definition w1_esp : Z := (- 1003)%Z.
Definition w1_lg : Q := - (541220656400965 # 18014398509481984).
Definition w1_pw : Q := 7844230097694403 # 72057594037927936.
Definition w1_t : Q := rn53 (w1_lg + rn53 (rn53 (inject_Z w1_esp) * LOG10_2))%Q.
Definition w1_fr : Q := (w1_t - inject_Z (trunc w1_t))%Q.     (* the fraction modf hands to pow: -0x1.ed1f4d0e5a4p-1 *)

Lemma w1_fr_val : (w1_fr == - (8471776082281 # 8796093022208))%Q.
Proof. vm_compute. reflexivity. Qed.

Theorem printed_radius_1e13_refuted :
  exists (m : Q) (esp : Z) (lgv pwv fr : Q),
    (1 # 2 <= m)%Q /\ (m < 1)%Q /\
    Rabs (Q2R lgv - log10R (Q2R m)) <= / 2 ^ 54 /\
    (Qabs fr < 1)%Q /\ Rabs (Q2R pwv - pow10R (Q2R fr)) <= / 2 ^ 53 * pow10R (Q2R fr) /\
    forall flog10 fpow10 : Q -> Q, flog10 m = lgv -> fpow10 fr = pwv ->
      let '(d, l) := get_dl flog10 fpow10 m esp in
      (out_value d l < m * pow2 esp * (1 - (1 # 10 ^ 13)))%Q.
Proof.
  exists w1_m, w1_esp, w1_lg, w1_pw, w1_fr.
  split; [vm_compute; discriminate |]. split; [vm_compute; reflexivity |].
  split.
  { unfold log10R, w1_lg, w1_m, Q2R; simpl. interval with (i_prec 140). }
  split; [vm_compute; reflexivity |].
  split.
  { rewrite (Qeq_eqR _ _ w1_fr_val). unfold pow10R, w1_pw, Q2R; simpl. interval with (i_prec 140). }
  intros fl fp H1 H2. unfold get_dl.
  assert (Hz : Qeq_bool w1_m 0 = false) by (vm_compute; reflexivity).
  assert (Hp : Qle_bool 0 w1_m = true) by (vm_compute; reflexivity).
  rewrite Hz, Hp. unfold dl_pos. rewrite H1. cbv zeta. fold w1_t. fold w1_fr. rewrite H2.
  vm_compute. reflexivity.
Qed.

(* ------------------------------------------------------------------ with a libm good to one ulp *)
Lemma stored_pos : forall (m : Q) (esp : Z), (1 # 2 <= m)%Q -> 0 < Q2R m * Q2R (pow2 esp).
Proof.
  intros m esp Hm. apply Rmult_lt_0_compat.
  - apply Qle_Rle in Hm. unfold Q2R in Hm at 1; simpl in Hm. lra.
  - rewrite Q2R_pow2. apply pow10R_pos.
Qed.

Lemma Derr_1ulp_bound : forall (esp K : Z) (c : R), (Z.abs esp <= K)%Z ->
  2302586 / 1000000 * ((1 + u53) * u53 + (IZR K + 1) * (5 / 4 * u53)) + / 2 ^ 52 + 5 / 10 ^ 14 <= c ->
  ln 10 * Derr (/ 2 ^ 53) esp + / 2 ^ 52 + 5 / 10 ^ 14 <= c.
Proof.
  intros esp K c HK Hc. unfold Derr. fold u53.
  assert (Hl : ln 10 <= 2302586 / 1000000) by (interval with (i_prec 60)).
  assert (Hu : 0 < u53) by (unfold u53; apply Rinv_0_lt_compat; lra).
  assert (Hk : IZR (Z.abs esp) <= IZR K) by (apply IZR_le; exact HK).
  assert (H0 : 0 <= IZR (Z.abs esp)) by (apply IZR_le; lia).
  pose proof ln10_pos.
  assert (Hmono : (1 + u53) * u53 + (IZR (Z.abs esp) + 1) * (5 / 4 * u53) <= (1 + u53) * u53 + (IZR K + 1) * (5 / 4 * u53)) by nra.
  assert (Hpos : 0 <= (1 + u53) * u53 + (IZR (Z.abs esp) + 1) * (5 / 4 * u53)) by nra.
  nra.
Qed.

Section OneUlp.
Variables (flog10 fpow10 : Q -> Q).
Hypothesis Hlog : forall m : Q, (1 # 2 <= m)%Q -> (m < 1)%Q -> Rabs (Q2R (flog10 m) - log10R (Q2R m)) <= / 2 ^ 53.
Hypothesis Hpow : forall y : Q, (Qabs y < 1)%Q -> Rabs (Q2R (fpow10 y) - pow10R (Q2R y)) <= / 2 ^ 52 * pow10R (Q2R y).

Lemma printed_radius_ge_1ulp_gen : forall (m : Q) (esp K : Z) (c : R), (1 # 2 <= m)%Q -> (m < 1)%Q -> (Z.abs esp <= K)%Z ->
  2302586 / 1000000 * ((1 + u53) * u53 + (IZR K + 1) * (5 / 4 * u53)) + / 2 ^ 52 + 5 / 10 ^ 14 <= c ->
  let '(d, l) := get_dl flog10 fpow10 m esp in
  Q2R m * Q2R (pow2 esp) * (1 - c) <= Q2R (out_value d l).
Proof.
  intros m esp K c Hm1 Hm2 HK Hc.
  assert (H0 : 0 <= / 2 ^ 53) by (left; apply Rinv_0_lt_compat; lra).
  assert (H1 : 0 <= / 2 ^ 52 <= / 2) by (split; [left; apply Rinv_0_lt_compat; lra | apply Rinv_le_contravar; lra]).
  pose proof (printed_radius_ge flog10 fpow10 (/ 2 ^ 53) (/ 2 ^ 52) H0 H1 Hlog Hpow m esp Hm1 Hm2) as H.
  destruct (get_dl flog10 fpow10 m esp) as [d l].
  eapply Rle_trans; [| exact H].
  pose proof (stored_pos m esp Hm1) as Hs.
  pose proof (Derr_1ulp_bound esp K c HK Hc).
  apply Rmult_le_compat_l; lra.
Qed.

(* never below stored * (1 - 1e-13) when |esp| <= 150;  stored * (1 - 4.1e-13) over the whole double range *)
Theorem printed_radius_ge_1ulp : forall (m : Q) (esp : Z), (1 # 2 <= m)%Q -> (m < 1)%Q ->
  let '(d, l) := get_dl flog10 fpow10 m esp in
  ((Z.abs esp <= 150)%Z -> Q2R m * Q2R (pow2 esp) * (1 - 1 / 10 ^ 13) <= Q2R (out_value d l)) /\
  ((Z.abs esp <= 1100)%Z -> Q2R m * Q2R (pow2 esp) * (1 - 41 / 10 ^ 14) <= Q2R (out_value d l)).
Proof.
  intros m esp Hm1 Hm2.
  pose proof (fun K c => printed_radius_ge_1ulp_gen m esp K c Hm1 Hm2) as H.
  destruct (get_dl flog10 fpow10 m esp) as [d l].
  split; intro HK.
  - apply (H 150%Z (1 / 10 ^ 13) HK). unfold u53. lra.
  - apply (H 1100%Z (41 / 10 ^ 14) HK). unfold u53. lra.
Qed.
End OneUlp.

(* ------------------------------------------------------------------ the one-unit clause fails for the gnuplot formats: a witness
   a stored component 623399332000000040000000 (exact in a 128-bit mpf) is printed " 6.23399332000003e+023": almost three units of the
   last printed digit away.  lgv, pwv: glibc's log10 / pow at the two points used (within half an ulp).  Replayed by the check. *)
Definition w2_x : Q := 623399332000000040000000 # 1.
Definition w2_m : Q := 4644686967134476 # 9007199254740992.
Definition w2_lg : Q := - (2590770630435399 # 9007199254740992).
Definition w2_pw : Q := 7018852498245571 # 1125899906842624.
Definition w2_t : Q := rn53 (w2_lg + rn53 (rn53 (inject_Z 80) * LOG10_2))%Q.
Definition w2_fr : Q := (w2_t - inject_Z (trunc w2_t))%Q.

Lemma w2_fr_val : (w2_fr == 223706834952045 # 281474976710656)%Q.
Proof. vm_compute. reflexivity. Qed.

Theorem gnuplot_unit_refuted :
  exists (x m : Q) (esp : Z) (lgv pwv fr : Q),
    mpf_get_rdpe x = (m, esp) /\
    Rabs (Q2R lgv - log10R (Q2R m)) <= / 2 ^ 54 /\
    (Qabs fr < 1)%Q /\ Rabs (Q2R pwv - pow10R (Q2R fr)) <= / 2 ^ 53 * pow10R (Q2R fr) /\
    forall flog10 fpow10 : Q -> Q, flog10 m = lgv -> fpow10 fr = pwv ->
      gnuplot_component flog10 fpow10 x = " 6.23399332000003e+023"%string /\
      let '(d, l) := get_dl flog10 fpow10 m esp in
      (2 * p10 (l - 14) < Qabs (out_value d l - x))%Q.
Proof.
  exists w2_x, w2_m, 80%Z, w2_lg, w2_pw, w2_fr.
  split; [vm_compute; reflexivity |].
  split.
  { unfold log10R, w2_lg, w2_m, Q2R; simpl. interval with (i_prec 140). }
  split; [vm_compute; reflexivity |].
  split.
  { rewrite (Qeq_eqR _ _ w2_fr_val). unfold pow10R, w2_pw, Q2R; simpl. interval with (i_prec 140). }
  intros fl fp H1 H2.
  assert (Hm : mpf_get_rdpe w2_x = (w2_m, 80%Z)) by (vm_compute; reflexivity).
  assert (Hz : Qeq_bool w2_m 0 = false) by (vm_compute; reflexivity).
  assert (Hp : Qle_bool 0 w2_m = true) by (vm_compute; reflexivity).
  unfold gnuplot_component, rdpe_out_str_u. rewrite Hm. unfold get_dl. rewrite Hz, Hp.
  unfold dl_pos. rewrite H1. cbv zeta. fold w2_t. fold w2_fr. rewrite H2.
  split; vm_compute; reflexivity.
Qed.

(* ------------------------------------------------------------------ the upper side, and the gnuplot component *)
Lemma out_value_upper : forall (d : Q) (l : Z), 0 < Q2R d ->
  Q2R (out_value d l) <= (Q2R d + 5 / 10 ^ 15) * pow10R (IZR l).
Proof.
  intros d l Hd. unfold out_value.
  assert (Hdq : (0 <= d)%Q).
  { apply Rle_Qle. replace (Q2R 0) with 0 by (unfold Q2R; simpl; lra). lra. }
  assert (Hb : Qle_bool 0 d = true) by (apply Qle_bool_iff; exact Hdq).
  rewrite Hb. pose proof (f14_units_error d) as He. rewrite (Qabs_pos d Hdq) in He.
  apply Qabs_le_R in He. apply Rabs_le_inv in He.
  rewrite Q2R_minus, Q2R_mult, Q2R_inject_Z, Q2R_p10 in He.
  replace (Q2R (1 # 2)) with (/ 2) in He by (unfold Q2R; simpl; lra).
  change (IZR 14) with 14 in He. rewrite pow10R_14 in He.
  rewrite Q2R_mult, Q2R_inject_Z, Q2R_p10, minus_IZR.
  unfold Rminus at 1. rewrite pow10R_add.
  assert (Hm14 : pow10R (- 14) = / 10 ^ 14).
  { apply Rmult_eq_reg_l with (pow10R 14); [| pose proof (pow10R_pos 14); lra].
    rewrite <- pow10R_add. replace (14 + - 14) with 0 by lra. rewrite pow10R_14.
    unfold pow10R. rewrite Rmult_0_l, exp_0. field. }
  change (- IZR 14) with (- 14). rewrite Hm14.
  pose proof (pow10R_pos (IZR l)) as Hp.
  set (N := IZR (f14_units d)) in *. set (P := pow10R (IZR l)) in *.
  assert (Hgoal : (Q2R d + 5 / 10 ^ 15) * P = (Q2R d * 10 ^ 14 + / 2) * (P * / 10 ^ 14)) by (field).
  rewrite Hgoal. apply Rmult_le_compat_r; [| lra].
  assert (0 < / 10 ^ 14) by (apply Rinv_0_lt_compat; lra). nra.
Qed.

Section Upper.
Variables (flog10 fpow10 : Q -> Q) (ulog upow : R).
Hypothesis Hulog : 0 <= ulog.
Hypothesis Hupow : 0 <= upow <= / 2.
Hypothesis Hlog : forall m : Q, (1 # 2 <= m)%Q -> (m < 1)%Q -> Rabs (Q2R (flog10 m) - log10R (Q2R m)) <= ulog.
Hypothesis Hpow : forall y : Q, (Qabs y < 1)%Q -> Rabs (Q2R (fpow10 y) - pow10R (Q2R y)) <= upow * pow10R (Q2R y).

Theorem printed_radius_le : forall (m : Q) (esp : Z), (1 # 2 <= m)%Q -> (m < 1)%Q ->
  let '(d, l) := get_dl flog10 fpow10 m esp in
  Q2R (out_value d l) <= Q2R m * Q2R (pow2 esp) * pow10R (Derr ulog esp) * (1 + upow + 5 / 10 ^ 14).
Proof.
  intros m esp Hm1 Hm2. unfold get_dl.
  assert (Hmpos : (0 < m)%Q) by (eapply Qlt_le_trans; [| exact Hm1]; reflexivity).
  destruct (Qeq_bool m 0) eqn:Hz.
  { apply Qeq_bool_iff in Hz. rewrite Hz in Hmpos. discriminate Hmpos. }
  assert (Hb : Qle_bool 0 m = true) by (apply Qle_bool_iff, Qlt_le_weak; exact Hmpos).
  rewrite Hb. pose proof (dl_pos_spec flog10 fpow10 ulog upow Hulog Hlog Hpow m esp Hm1 Hm2) as H.
  destruct (dl_pos flog10 fpow10 m esp) as [d l].
  destruct H as [E [dp [fr [HE [Hdp [Hfr [Hd Hsum]]]]]]].
  assert (Hmr : 0 < Q2R m).
  { apply Qlt_Rlt in Hmpos. replace (Q2R 0) with 0 in Hmpos by (unfold Q2R; simpl; lra). exact Hmpos. }
  apply Rabs_le_inv in Hdp. apply Rabs_le_inv in HE.
  assert (Hfr' : -1 < fr < 1) by (unfold Rabs in Hfr; destruct (Rcase_abs fr); lra).
  pose proof (pow10R_pos fr) as HPf.
  assert (Hdpos : 0 < Q2R d) by (rewrite Hd; nra).
  eapply Rle_trans; [apply (out_value_upper d l Hdpos) |].
  set (T := log10R (Q2R m) + IZR esp * log10R 2) in *.
  assert (Hst : Q2R m * Q2R (pow2 esp) = pow10R T).
  { unfold T. rewrite pow10R_add, pow10R_log10R by exact Hmr. rewrite Q2R_pow2. reflexivity. }
  rewrite Hst.
  assert (Hl : pow10R (IZR l) = pow10R T * pow10R E * pow10R (- fr)).
  { rewrite <- !pow10R_add. f_equal. lra. }
  rewrite Hl, Hd.
  pose proof (pow10R_pos T) as HT. pose proof (pow10R_pos E) as HEp. pose proof (pow10R_pos (- fr)) as Hnf.
  assert (Hinv : pow10R fr * pow10R (- fr) = 1).
  { rewrite <- pow10R_add. replace (fr + - fr) with 0 by lra. unfold pow10R. rewrite Rmult_0_l. apply exp_0. }
  assert (Hnf10 : pow10R (- fr) <= 10) by (rewrite <- pow10R_1; apply pow10R_mono; lra).
  assert (HE1 : pow10R E <= pow10R (Derr ulog esp)) by (apply pow10R_mono; lra).
  replace ((pow10R fr * (1 + dp) + 5 / 10 ^ 15) * (pow10R T * pow10R E * pow10R (- fr)))
    with (pow10R T * (pow10R E * ((pow10R fr * pow10R (- fr)) * (1 + dp) + 5 / 10 ^ 15 * pow10R (- fr)))) by ring.
  rewrite Hinv. rewrite !Rmult_assoc.
  apply Rmult_le_compat_l; [lra |].
  apply Rmult_le_compat; nra.
Qed.

(* mps_outfloat, gnuplot formats, a positive stored component x: mpf_get_rdpe keeps x (1 - 2^-52) < ro <= x and the printed
   15 digits are within the two bounds of ro *)
Theorem gnuplot_component_bounds : forall (x : Q), (0 < x)%Q ->
  let '(m, esp) := mpf_get_rdpe x in
  let '(d, l) := get_dl flog10 fpow10 m esp in
  (0 <= 1 - ln 10 * Derr ulog esp - upow - 5 / 10 ^ 14 ->
   Q2R x * (1 - / 2 ^ 52) * (1 - ln 10 * Derr ulog esp - upow - 5 / 10 ^ 14) <= Q2R (out_value d l)) /\
  Q2R (out_value d l) <= Q2R x * pow10R (Derr ulog esp) * (1 + upow + 5 / 10 ^ 14).
Proof.
  intros x Hx.
  assert (Hnz : ~ (x == 0)%Q) by (intro Hc; rewrite Hc in Hx; discriminate Hx).
  pose proof (mpf_get_rdpe_spec x Hnz) as Hs.
  destruct (mpf_get_rdpe x) as [m esp].
  destruct Hs as [Hm1 [Hm2 [Hv1 [Hv2 [Hsg _]]]]].
  assert (Hm0 : (0 <= m)%Q) by (apply Hsg, Qlt_le_weak; exact Hx).
  rewrite (Qabs_pos m Hm0) in Hm1, Hm2.
  assert (Hp : (0 < pow2 esp)%Q) by apply pow2_pos.
  assert (Hmp : (0 <= m * pow2 esp)%Q) by (apply Qmult_le_0_compat; [exact Hm0 | apply Qlt_le_weak; exact Hp]).
  rewrite (Qabs_pos _ Hmp), (Qabs_pos x (Qlt_le_weak _ _ Hx)) in Hv1, Hv2.
  apply Qle_Rle in Hv1. apply Qlt_Rlt in Hv2.
  rewrite Q2R_mult in Hv1. rewrite Q2R_minus, !Q2R_mult in Hv2.
  replace (Q2R (pow2 (- 52))) with (/ 2 ^ 52) in Hv2 by (unfold pow2, Q2R; simpl; lra).
  pose proof (printed_radius_ge flog10 fpow10 ulog upow Hulog Hupow Hlog Hpow m esp Hm1 Hm2) as Hlo.
  pose proof (printed_radius_le m esp Hm1 Hm2) as Hhi.
  destruct (get_dl flog10 fpow10 m esp) as [d l].
  assert (Hxr : 0 < Q2R x) by (apply Qlt_Rlt in Hx; replace (Q2R 0) with 0 in Hx by (unfold Q2R; simpl; lra); exact Hx).
  pose proof (stored_pos m esp Hm1) as Hst.
  set (S := Q2R m * Q2R (pow2 esp)) in *.
  pose proof (pow10R_pos (Derr ulog esp)) as HD.
  split.
  - intro Hc. eapply Rle_trans; [| exact Hlo]. apply Rmult_le_compat_r; [exact Hc | lra].
  - eapply Rle_trans; [exact Hhi |].
    assert (0 <= 1 + upow + 5 / 10 ^ 14) by lra.
    apply Rmult_le_compat_r; [lra |]. apply Rmult_le_compat_r; lra.
Qed.
End Upper.
