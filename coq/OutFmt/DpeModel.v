(* C17 - executable model of the DPE printing path
     src/libmps/floating-point/mt.c   : rdpe_get_dl, rdpe_out_str, rdpe_out_str_u (rdpe_outln_str = rdpe_out_str + '\n')
     src/libmps/floating-point/link.c : mpf_get_rdpe
     src/libmps/system/input-output.c : the gnuplot branch and the "0.e<l>" branch of mps_outfloat
   DEFINITIONS ONLY (branch by branch as coded); extracted (Extract/Extract_outfmt.v) and run against the real
   functions on every check run (harness/c17_rad.c); proofs in DpeProps.v (Q, no axioms) and DpeReal.v (reals).

   A double is the rational it denotes.  Arithmetic on doubles is the exact operation followed by rn53 =
   round to nearest, ties to even, 53 significant bits, exponent range unbounded (no overflow / subnormals:
   the quantities of this path stay within 2^+-70).  libm's log10 and pow (10.0, .) are the two parameters
   flog10, fpow10 : Q -> Q of the model; the theorems take them as Section variables with error hypotheses,
   the driver instantiates them with the machine's libm (the same one the harness links). *)
Require Import ZArith QArith Qround Qabs Qpower String Ascii List Bool.
Require Import MPSV.OutFmt.OutModel.
Import ListNotations.
Open Scope Z_scope.

Definition pow2 (k : Z) : Q := Qpower (2 # 1) k.

(* binary exponent in frexp's convention:  2^(ex-1) <= |x| < 2^ex   (x <> 0) *)
Definition bexp (x : Q) : Z :=
  let e := Z.log2 (Z.abs (Qnum x)) - Z.log2 (Zpos (Qden x)) in
  if Qle_bool (pow2 e) (Qabs x) then e + 1 else e.

(* nearest integer, ties to even *)
Definition rne (q : Q) : Z :=
  let f := Qfloor q in
  match Qcompare (q - inject_Z f)%Q (1 # 2) with
  | Lt => f
  | Gt => f + 1
  | Eq => if Z.even f then f else f + 1
  end.

(* rounding of a real result to binary64 *)
Definition rn53 (x : Q) : Q :=
  if Qeq_bool x 0 then 0%Q
  else let ex := bexp x in (inject_Z (rne (x * pow2 (53 - ex))) * pow2 (ex - 53))%Q.

(* mpf_get_d on an mpf whose limb exponent was set to 0, then rdpe_set_2dl (.., esp * 64) with its rdpe_Norm (frexp):
   the 53 leading bits of the stored value, TRUNCATED toward zero, as a mantissa in [1/2, 1), and the binary exponent.
   A zero mpf gives the canonical zero (0.0, 0). *)
Definition mpf_get_rdpe (x : Q) : Q * Z :=
  if Qeq_bool x 0 then (0%Q, 0)
  else let ex := bexp x in ((inject_Z (trunc (x * pow2 (53 - ex))) * pow2 (- 53))%Q, ex).

(* rdpe_get_dl: the three branches.  `rdpe_Esp (e) * LOG10_2` converts the long to double first (rn53, exact below
   2^53), modf splits exactly into integer part (toward zero) and fraction, (long) x is exact. *)
Definition dl_pos (flog10 fpow10 : Q -> Q) (m : Q) (esp : Z) : Q * Z :=
  let t := rn53 (flog10 m + rn53 (rn53 (inject_Z esp) * LOG10_2))%Q in
  let x := trunc t in
  (fpow10 (t - inject_Z x)%Q, x).

Definition get_dl (flog10 fpow10 : Q -> Q) (m : Q) (esp : Z) : Q * Z :=
  if Qeq_bool m 0 then (0%Q, 0)
  else if Qle_bool 0 m then dl_pos flog10 fpow10 m esp
  else let '(d, l) := dl_pos flog10 fpow10 (- m)%Q esp in ((- d)%Q, l).

(* ---------------------------------------------------------------- printf *)
Definition dg_of (n : Z) : dg :=
  match n with 0 => D0 | 1 => D1 | 2 => D2 | 3 => D3 | 4 => D4 | 5 => D5 | 6 => D6 | 7 => D7 | 8 => D8 | _ => D9 end.

(* the w low decimal digits of n, most significant first *)
Fixpoint digits_w (w : nat) (n : Z) : list dg :=
  match w with O => [] | S w' => digits_w w' (n / 10) ++ [dg_of (n mod 10)] end.

(* number of decimal digits of n >= 0 (0 has none) *)
Definition ndec (n : Z) : nat := ndigits_fuel (S (Z.to_nat (Z.log2 n))) n.

(* n >= 0 in decimal, zero padded to at least w digits *)
Definition digits_min (w : nat) (n : Z) : list dg := digits_w (Nat.max w (ndec n)) n.

(* "% 16.14f": the exactly rounded 14-decimal conversion (glibc: nearest, ties to even, of the binary value);
   the space flag writes ' ' for a non-negative number; the field is never narrower than 17 characters, so the
   width 16 adds nothing.  N = the printed number in units of 10^-14. *)
Definition f14_units (d : Q) : Z := rne (Qabs d * p10 14)%Q.

(* "%+04li": sign always, at least 3 digits *)
Definition out_rendering (c : echar) (d : Q) (l : Z) : rendering :=
  let N := f14_units d in
  {| r_neg := negb (Qle_bool 0 d);
     r_ip := digits_min 1 (N / 10 ^ 14);
     r_fp := Some (digits_w 14 N);
     r_exp := Some (c, if l <? 0 then EMinus else EPlus, digits_min 3 (Z.abs l)) |}.

Definition out_text (c : echar) (d : Q) (l : Z) : string :=
  let r := out_rendering c d l in
  if r_neg r then render r else String " "%char (render r).

(* the value the text denotes *)
Definition out_value (d : Q) (l : Z) : Q :=
  (inject_Z (if Qle_bool 0 d then f14_units d else - f14_units d) * p10 (l - 14))%Q.

(* rdpe_out_str (radius line of format full; 'x') and rdpe_out_str_u (gnuplot formats; 'e') *)
Definition rdpe_out_str (flog10 fpow10 : Q -> Q) (m : Q) (esp : Z) : string :=
  let '(d, l) := get_dl flog10 fpow10 m esp in out_text Ex d l.
Definition rdpe_out_str_u (flog10 fpow10 : Q -> Q) (m : Q) (esp : Z) : string :=
  let '(d, l) := get_dl flog10 fpow10 m esp in out_text Ee d l.

(* mps_outfloat, formats gnuplot / gnuplot-full:  mpf_get_rdpe (ro, f); rdpe_out_str_u (outstr, ro) *)
Definition gnuplot_component (flog10 fpow10 : Q -> Q) (x : Q) : string :=
  let '(m, esp) := mpf_get_rdpe x in rdpe_out_str_u flog10 fpow10 m esp.

(* mps_outfloat, digit <= 0:  rdpe_get_dl (&d, &l, |ro|); if (d >= 1.0) l++; "0.e%ld" *)
Definition zero_exp_code (flog10 fpow10 : Q -> Q) (x : Q) : Z :=
  let '(m, esp) := mpf_get_rdpe x in
  let '(d, l) := get_dl flog10 fpow10 (Qabs m) esp in
  if Qle_bool 1 d then l + 1 else l.

Definition zero_text (l : Z) : string :=
  String "0"%char (String "."%char (String "e"%char
    (put_esign (if l <? 0 then EMinus else ENone) (put_digits (digits_min 1 (Z.abs l)) EmptyString)))).

(* ---------------------------------------------------------------- digits per format *)
(* significant digits a printed component can have at most, per format:
   compact / bare / verbose: printed_digits (<= out_digit = requested + 10);  gnuplot formats: "%.14f" of |d| < 10 (or the
   carry 10.00000000000000): 16;  full: GMP's cap for the stored precision *)
Definition max_digits (f : fmt) (lg : Q) (precf prec_out : Z) : Z :=
  match f with
  | Compact | Bare | Verbose => printed_digits lg precf prec_out
  | Gnuplot | GnuplotFull => 16
  | Full => gmp_digit_cap precf
  end.
