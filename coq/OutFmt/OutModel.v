(* C17 - executable model of how MPSolve prints its results
   (src/libmps/system/input-output.c: mps_outfloat, mps_outroot, mps_output, mps_countroots).
   DEFINITIONS ONLY.  Everything here is extracted (Extract/Extract_outfmt.v) and run next to the
   real code on every check run; the proofs are in OutProps.v.

   What is modelled rather than verified (trusted base):
   * libm: the value of rdpe_log10(rad/|x|) and of the decimal logarithm inside rdpe_get_dl enter as a
     rational parameter `lg` (the check brackets it);
   * GMP: mpf_out_str (f, 10, d, t) prints the d-significant-digit decimal nearest to t in the layout
     "0.DDDe<k>" (trailing zeros removed) -- `round_sig` below is that specification. *)
Require Import ZArith QArith Qround Qabs Qpower String Ascii List Bool.
Import ListNotations.
Open Scope Z_scope.

(* ------------------------------------------------------------------ powers of ten *)
Definition p10 (k : Z) : Q := Qpower (10 # 1) k.

(* ------------------------------------------------------------------ reading a printed number back *)
Definition digit_of (c : ascii) : option Z :=
  let n := nat_of_ascii c in
  if (Nat.leb 48 n && Nat.leb n 57)%bool then Some (Z.of_nat (n - 48)) else None.

(* consume a maximal run of decimal digits: (accumulated value, number of digits, rest) *)
Fixpoint take_digits (s : string) (acc : Z) (cnt : nat) : Z * nat * string :=
  match s with
  | EmptyString => (acc, cnt, s)
  | String c r =>
      match digit_of c with
      | Some d => take_digits r (acc * 10 + d) (S cnt)
      | None => (acc, cnt, s)
      end
  end.

Definition is_char (n : nat) (c : ascii) : bool := Nat.eqb (nat_of_ascii c) n.

(* optional sign: (negative?, rest).  43 = '+', 45 = '-' *)
Definition take_sign (s : string) : bool * string :=
  match s with
  | String c r => if is_char 45 c then (true, r) else if is_char 43 c then (false, r) else (false, s)
  | EmptyString => (false, s)
  end.

(* exponent part: 'e' (101), 'E' (69) or, as the DPE radius is printed, 'x' (120); then sign, digits.
   Returns None when malformed, Some 0 when absent. *)
Definition take_exponent (s : string) : option Z :=
  match s with
  | EmptyString => Some 0
  | String c r =>
      if (is_char 101 c || is_char 69 c || is_char 120 c)%bool then
        let '(neg, r1) := take_sign r in
        let '(v, n, r2) := take_digits r1 0 O in
        match n, r2 with
        | S _, EmptyString => Some (if neg then - v else v)
        | _, _ => None
        end
      else None
  end.

(* result of parsing: mantissa as a signed integer M, the power of ten E of its last written digit
   (value = M * 10^E), the number of mantissa digits written, and whether a '-' was written *)
Record parsed := { p_mant : Z; p_exp : Z; p_ndigits : nat; p_neg : bool }.

Definition decimal_parse (s : string) : option parsed :=
  let '(neg, s1) := take_sign s in
  let '(ip, nip, s2) := take_digits s1 0 O in
  let '(m, nfr, s3) :=
    match s2 with
    | String c r => if is_char 46 c then let '(m, n, r') := take_digits r ip O in (m, n, r') else (ip, O, s2)
    | EmptyString => (ip, O, s2)
    end in
  match (nip + nfr)%nat with
  | O => None
  | S _ =>
      match take_exponent s3 with
      | Some e => Some {| p_mant := if neg then - m else m; p_exp := e - Z.of_nat nfr;
                          p_ndigits := (nip + nfr)%nat; p_neg := neg |}
      | None => None
      end
  end.

Definition parsed_value (p : parsed) : Q := inject_Z (p_mant p) * p10 (p_exp p).
Definition parsed_unit (p : parsed) : Q := p10 (p_exp p).      (* one unit of the last printed digit *)

Definition decimal_value (s : string) : option Q := option_map parsed_value (decimal_parse s).

(* number of significant digits of the mantissa as written: digits of |M| without leading zeros
   (written trailing zeros count, a mantissa of 0 has none) *)
Fixpoint ndigits_fuel (fuel : nat) (m : Z) : nat :=
  match fuel with
  | O => O
  | S f => if m =? 0 then O else S (ndigits_fuel f (m / 10))
  end.
Definition sig_digits (p : parsed) : nat := ndigits_fuel (S (p_ndigits p)) (Z.abs (p_mant p)).

(* ------------------------------------------------------------------ the property's predicate on one component *)
Definition Qle_b (a b : Q) : bool := Qle_bool a b.

(* |printed - stored| <= one unit of the last printed digit *)
Definition close_b (p : parsed) (stored : Q) : bool :=
  Qle_b (Qabs (parsed_value p - stored)) (parsed_unit p).

(* printed radius not below the stored one beyond the allowance (1 - slack) *)
Definition radius_ge_b (p : parsed) (stored slack : Q) : bool :=
  Qle_b (stored * (1 - slack)) (parsed_value p).

(* ------------------------------------------------------------------ GMP's mpf_out_str as a specification *)
(* nearest multiple of 10^-k, computed on the magnitude, ties away from zero *)
Definition round_at (k : Z) (x : Q) : Q :=
  let n := Qfloor (Qabs x * p10 k + (1 # 2)) in
  inject_Z (if Qle_bool 0 x then n else - n) * p10 (- k).

(* e is the decimal exponent of x in GMP's convention x = 0.DDD * 10^e :  10^(e-1) <= |x| < 10^e *)
Definition is_dexp_b (e : Z) (x : Q) : bool :=
  (Qle_b (p10 (e - 1)) (Qabs x) && negb (Qle_b (p10 e) (Qabs x)))%bool.

(* the value with d significant decimal digits nearest to x *)
Definition round_sig (d e : Z) (x : Q) : Q := round_at (d - e) x.

Definition round_sig_checked (d e : Z) (x : Q) : option Q :=
  if is_dexp_b e x then Some (round_sig d e x) else None.

(* ------------------------------------------------------------------ digit-count logic of mps_outfloat *)
(* C's (long) conversion of a double: truncation toward zero *)
Definition trunc (q : Q) : Z := Z.quot (Qnum q) (Zpos (Qden q)).

(* LOG10_2 = 0.30102999566398119521 (include/mps/private/tools.h) as the IEEE double it becomes *)
Definition LOG10_2 : Q := 5422874305198591 # 18014398509481984.
(* LOG2_10 = 3.32192809488736234787 likewise *)
Definition LOG2_10 : Q := 7480317065143153 # 2251799813685248.

(* digit = (long)(-rdpe_log10 (rad/|x|) + 1.5)   with lg = the logarithm libm returned *)
Definition digit_count (lg : Q) : Z := trunc (- lg + (3 # 2)).
(* (long)(LOG10_2 * mpf_get_prec (f)) + 1 *)
Definition prec_digits (precf : Z) : Z := trunc (LOG10_2 * inject_Z precf) + 1.
(* mps_outroot: out_digit = (long)(LOG10_2 * output_config->prec) + 10 *)
Definition out_digit (prec_out : Z) : Z := trunc (LOG10_2 * inject_Z prec_out) + 10.
(* mpsolve -o D :  output_config->prec = (long)(D * LOG2_10 + 1) *)
Definition prec_of_digits (D : Z) : Z := trunc (inject_Z D * LOG2_10 + 1).

Definition digits_for (lg : Q) (precf prec_out : Z) : Z :=
  Z.min (Z.min (digit_count lg) (prec_digits precf)) (out_digit prec_out).

(* GMP (stated specification, mpf/get_str.c): an mpf initialised with n bits holds
   gmp_prec n = 64 * ((max 53 n + 127) / 64 - 1) bits (what mpf_get_prec returns), and mpf_get_str never
   produces more than 2 + floor (log10 2 * that) digits however many are asked for.  mps_outfloat prints
   from a copy t of the component with mpf_init2 (t, output_config->prec). *)
Definition gmp_prec (bits : Z) : Z := 64 * ((Z.max 53 bits + 127) / 64 - 1).
Definition gmp_digit_cap (bits : Z) : Z := 2 + trunc (LOG10_2 * inject_Z (gmp_prec bits)).

(* number of significant digits mpf_out_str (outstr, 10, true_digit, t) shows at most *)
Definition printed_digits (lg : Q) (precf prec_out : Z) : Z :=
  Z.min (digits_for lg precf prec_out) (gmp_digit_cap prec_out).

(* what mps_outfloat does for the formats compact / bare / verbose *)
Inductive plan :=
| PZeroExp (l : Z)      (* prints "0.e<l>" *)
| PSig (d : Z).         (* mpf_out_str (.., 10, true_digit, t) shows the d-digit rounding *)

(* the exponent the "0.e<l>" branch prints since /repo commit 0b5aaff1 (`if (d >= 1.0) l++;`): GMP writes
   0.ddd * 10^l, so a mantissa d.ddd >= 1 of rdpe_get_dl (logarithm >= 0) needs l + 1.  Here with the logarithm as
   a bracketed rational; the branch as coded on doubles (rdpe_get_dl with libm) is DpeModel.zero_exp_code. *)
Definition zero_exp_fixed (lgabs : Q) : Z := if Qle_bool 0 lgabs then trunc lgabs + 1 else trunc lgabs.

(* lg = log10 (rad/|x|) as computed (1e-10 is used for x = 0: lg = -10), lgabs = log10 |x| as computed *)
Definition outfloat_plan (lg lgabs : Q) (precf prec_out : Z) : plan :=
  if digit_count lg <=? 0 then PZeroExp (zero_exp_fixed lgabs) else PSig (printed_digits lg precf prec_out).

(* the code before 0b5aaff1 printed l = the truncated logarithm (kept for C17_zero_branch_prefix_refuted) *)
Definition outfloat_plan_prefix (lg lgabs : Q) (precf prec_out : Z) : plan :=
  if digit_count lg <=? 0 then PZeroExp (trunc lgabs) else PSig (printed_digits lg precf prec_out).

(* ------------------------------------------------------------------ per-format layout *)
Inductive fmt := Compact | Bare | Verbose | Full | Gnuplot | GnuplotFull.
Inductive incl := IncUnknown | IncIn | IncOut.
Inductive attrs := ANone | AReal | ANotReal | AImag | ANotImag | ANotRealImag.

(* numeric fields of one root line, in the order they are printed *)
Inductive field :=
| FLitZero            (* the literal "0" *)
| FRe (signed : bool) (* real part through mps_outfloat *)
| FIm (signed : bool) (* imaginary part through mps_outfloat; unsigned in verbose format, the sign is in " - I * " *)
| FRad.               (* the radius (DPE, 15 digits) *)

(* i = None is a zero root (ISZERO) *)
Definition line_fields (f : fmt) (i : option attrs) : list field :=
  let re := match i with None => FLitZero | Some AImag => FLitZero | Some _ => FRe true end in
  let im := match i with None => FLitZero | Some AReal => FLitZero
                    | Some _ => FIm (match f with Verbose => false | _ => true end) end in
  let tail := match f, i with
              | GnuplotFull, Some _ => [FRad; FRad]
              | GnuplotFull, None => [FLitZero; FLitZero]   (* "\t0\t0" since /repo commit fixing the read of s->root[-1] *)
              | Full, Some _ => [FRad]
              | Full, None => [FLitZero]          (* " 0" then " ---" *)
              | _, _ => []
              end in
  re :: im :: tail.

(* mps_output's loop: which roots get a line, in which order (None = a zero root) *)
Definition is_out (c : incl) : bool := match c with IncOut => true | _ => false end.

Definition printed_lines (zero_roots : nat) (outside_unit_disc : bool) (order : list nat)
           (incl_of : nat -> incl) : list (option nat) :=
  (if outside_unit_disc then [] else repeat None zero_roots)
    ++ map Some (filter (fun i => negb (is_out (incl_of i))) order).

(* mps_countroots: inside / outside / uncertain *)
Definition count_roots (zero_roots : nat) (outside_unit_disc : bool) (incls : list incl) : nat * nat * nat :=
  let cin := length (filter (fun c => match c with IncIn => true | _ => false end) incls) in
  let cout := length (filter is_out incls) in
  let cun := length (filter (fun c => match c with IncUnknown => true | _ => false end) incls) in
  if outside_unit_disc then (cin, (cout + zero_roots)%nat, cun) else ((cin + zero_roots)%nat, cout, cun).

(* ------------------------------------------------------------------ a printer (specification side of decimal_parse) *)
Inductive dg := D0 | D1 | D2 | D3 | D4 | D5 | D6 | D7 | D8 | D9.
Definition dg_val (d : dg) : Z :=
  match d with D0 => 0 | D1 => 1 | D2 => 2 | D3 => 3 | D4 => 4 | D5 => 5 | D6 => 6 | D7 => 7 | D8 => 8 | D9 => 9 end.
Definition dg_char (d : dg) : ascii :=
  match d with D0 => "0" | D1 => "1" | D2 => "2" | D3 => "3" | D4 => "4" | D5 => "5" | D6 => "6" | D7 => "7"
          | D8 => "8" | D9 => "9" end%char.
Fixpoint put_digits (ds : list dg) (tail : string) : string :=
  match ds with [] => tail | d :: r => String (dg_char d) (put_digits r tail) end.
Definition val_from (acc : Z) (ds : list dg) : Z := fold_left (fun a d => a * 10 + dg_val d) ds acc.

Inductive echar := Ee | EE | Ex.      (* GMP prints 'e', the DPE radius is printed with 'x' *)
Definition echar_ascii (c : echar) : ascii := match c with Ee => "e" | EE => "E" | Ex => "x" end%char.
Inductive esign := ENone | EPlus | EMinus.
Definition put_esign (s : esign) (tail : string) : string :=
  match s with ENone => tail | EPlus => String "+"%char tail | EMinus => String "-"%char tail end.

(* [-] IP [ . FP ] [ (e|E|x) [+|-] ED ] *)
Record rendering := { r_neg : bool; r_ip : list dg; r_fp : option (list dg); r_exp : option (echar * esign * list dg) }.

Definition render (r : rendering) : string :=
  let etail := match r_exp r with
               | None => EmptyString
               | Some (c, sg, eds) => String (echar_ascii c) (put_esign sg (put_digits eds EmptyString))
               end in
  let ftail := match r_fp r with None => etail | Some fp => String "."%char (put_digits fp etail) end in
  let body := put_digits (r_ip r) ftail in
  if r_neg r then String "-"%char body else body.

Definition frac_digits (r : rendering) : list dg := match r_fp r with None => [] | Some fp => fp end.
Definition exp_value (r : rendering) : Z :=
  match r_exp r with
  | None => 0
  | Some (_, sg, eds) => match sg with EMinus => - val_from 0 eds | _ => val_from 0 eds end
  end.
(* what the text means: +-(IP FP read as one integer) * 10^(exponent - number of fraction digits) *)
Definition rendering_value (r : rendering) : Q :=
  let m := val_from 0 (r_ip r ++ frac_digits r) in
  inject_Z (if r_neg r then - m else m) * p10 (exp_value r - Z.of_nat (length (frac_digits r))).
Definition rendering_wf (r : rendering) : Prop :=
  r_ip r ++ frac_digits r <> [] /\ match r_exp r with Some (_, _, eds) => eds <> [] | None => True end.
