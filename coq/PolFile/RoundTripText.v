(* C10 / PolFile: from the rendered text back to lines: mps_skip_comments, line splitting,
   comment stripping (stdlib style). *)
Require Import String Ascii List ZArith NArith Bool Lia ZifyBool.
Require Import MPSV.PolFile.Chars MPSV.PolFile.DecRatModel MPSV.PolFile.PolModel MPSV.PolFile.PolProofs.
Import ListNotations.
Local Open Scope char_scope.

Definition no_nl (l : text) : Prop := has_char ch_nl l = false.

Definition tail_of (b : bool) (l : text) : text :=
  if b then [ch_nl] else match l with [] => [ch_nl] | _ => [] end.

Lemma unlines_one b l : unlines b [l] = l ++ tail_of b l.
Proof. unfold unlines, tail_of. destruct b; auto. destruct l; auto. rewrite app_nil_r. reflexivity. Qed.

Lemma unlines_cons2 b l l' r : unlines b (l :: l' :: r) = l ++ ch_nl :: unlines b (l' :: r).
Proof. reflexivity. Qed.

Lemma tail_cases b l : tail_of b l = [ch_nl] \/ (tail_of b l = [] /\ l <> []).
Proof. unfold tail_of. destruct b; auto. destruct l; auto. right. split; auto. discriminate. Qed.

Lemma split_aux_last l : forall cur, no_nl l ->
  split_lines_aux cur l = match rev cur ++ l with [] => [] | x => [x] end.
Proof.
  induction l as [|c l IH]; intros cur H.
  - cbn [split_lines_aux]. rewrite app_nil_r. destruct cur as [|c cur]; [reflexivity|].
    cbn [rev]. destruct (rev cur ++ [c]) eqn:E; [|reflexivity].
    apply app_eq_nil in E. destruct E; discriminate.
  - unfold no_nl in H. cbn [has_char existsb] in H. apply orb_false_iff in H. destruct H as [H1 H2].
    cbn [split_lines_aux]. rewrite H1, IH by exact H2. cbn [rev]. rewrite <- app_assoc. reflexivity.
Qed.

Theorem split_unlines_gen b ls : Forall no_nl ls -> split_lines (unlines b ls) = ls.
Proof.
  induction 1 as [|l r Hl Hr IH]; [reflexivity|].
  destruct r as [|l' r'].
  - rewrite unlines_one. unfold split_lines. destruct (tail_cases b l) as [E|[E Hne]]; rewrite E.
    + rewrite split_lines_aux_line by exact Hl. reflexivity.
    + rewrite app_nil_r, split_aux_last by exact Hl. cbn [rev app]. destruct l; [exfalso; apply Hne; reflexivity | reflexivity].
  - rewrite unlines_cons2. unfold split_lines. rewrite split_lines_aux_line by exact Hl.
    cbn [rev app]. f_equal. exact IH.
Qed.

(* ---- mps_skip_comments at the level of lines *)

Definition sp_all (l : text) : Prop := Forall (fun c => is_space c = true) l.

Lemma space_not_bang c : is_space c = true -> (c =c? "!") = false.
Proof. intro H. destruct (c =c? "!") eqn:E; auto. apply Ascii.eqb_eq in E. subst. discriminate. Qed.

Lemma nl_is_space : is_space ch_nl = true.
Proof. reflexivity. Qed.

Lemma skip_spaces sp s : sp_all sp -> skip_comments_aux false (sp ++ s) = skip_comments_aux false s.
Proof.
  induction 1 as [|c sp Hc _ IH]; [reflexivity|].
  cbn [app skip_comments_aux]. rewrite (space_not_bang _ Hc), Hc. exact IH.
Qed.

Lemma skip_in_comment_nl x s : no_nl x ->
  skip_comments_aux true (x ++ ch_nl :: s) = skip_comments_aux false s.
Proof.
  induction x as [|c x IH]; intro H.
  - cbn. reflexivity.
  - unfold no_nl in H. cbn [has_char existsb] in H. apply orb_false_iff in H. destruct H as [H1 H2].
    cbn [app skip_comments_aux]. rewrite H1. cbn [negb]. apply IH, H2.
Qed.

Lemma skip_in_comment_end x : no_nl x -> skip_comments_aux true x = [].
Proof.
  induction x as [|c x IH]; intro H; [reflexivity|].
  unfold no_nl in H. cbn [has_char existsb] in H. apply orb_false_iff in H. destruct H as [H1 H2].
  cbn [skip_comments_aux]. rewrite H1. cbn [negb]. apply IH, H2.
Qed.

Lemma ltrim_split l : exists sp, sp_all sp /\ l = sp ++ ltrim l.
Proof.
  induction l as [|c l [sp [H1 H2]]].
  - exists []. split; [constructor|reflexivity].
  - cbn [ltrim]. destruct (is_space c) eqn:E.
    + exists (c :: sp). split; [constructor; auto|]. cbn [app]. f_equal. exact H2.
    + exists []. split; [constructor|reflexivity].
Qed.

Lemma ltrim_head_nonspace l c x : ltrim l = c :: x -> is_space c = false.
Proof.
  induction l as [|a l IH]; cbn [ltrim]; [discriminate|].
  destruct (is_space a) eqn:E; auto. intro H. inversion H; subst. exact E.
Qed.

Lemma no_nl_app a b : no_nl (a ++ b) -> no_nl a /\ no_nl b.
Proof. unfold no_nl. rewrite has_char_app. intro H. apply orb_false_iff in H. exact H. Qed.

Definition skippable (l : text) : bool :=
  match ltrim l with [] => true | c :: _ => c =c? "!" end.

Fixpoint skip_lines (ls : list text) : list text :=
  match ls with
  | [] => []
  | l :: r => if skippable l then skip_lines r else ltrim l :: r
  end.

(* what is left of the text for the line reader after mps_skip_comments *)
Theorem skip_split b ls : Forall no_nl ls ->
  split_lines (skip_comments (unlines b ls)) = skip_lines ls.
Proof.
  unfold skip_comments.
  induction 1 as [|l r Hl Hr IH]; [reflexivity|].
  destruct (ltrim_split l) as [sp [Hsp El]].
  assert (Hnl : no_nl (ltrim l)) by (rewrite El in Hl; apply no_nl_app in Hl; tauto).
  cbn [skip_lines]. unfold skippable.
  assert (EU : exists s, unlines b (l :: r) = l ++ s /\
             ((s = [] /\ r = [] /\ l <> []) \/
              (exists U, s = ch_nl :: U /\ split_lines (skip_comments_aux false U) = skip_lines r
                         /\ split_lines U = r))).
  { destruct r as [|l' r'].
    - rewrite unlines_one. eexists; split; [reflexivity|].
      destruct (tail_cases b l) as [E|[E Hne]]; rewrite E; [right|left; auto].
      exists []. repeat split; reflexivity.
    - rewrite unlines_cons2. eexists; split; [reflexivity|]. right.
      exists (unlines b (l' :: r')). repeat split; auto. apply split_unlines_gen; auto. }
  destruct EU as [s [EU Hs]]. rewrite EU. rewrite El at 1. rewrite <- app_assoc, skip_spaces by exact Hsp.
  destruct (ltrim l) as [|c x] eqn:EL.
  - (* blank line *)
    cbn [app]. destruct Hs as [[Es [Er Hne]]|[U [Es [HU _]]]]; subst s.
    + subst r. reflexivity.
    + cbn [skip_comments_aux]. rewrite (space_not_bang _ nl_is_space), nl_is_space. exact HU.
  - pose proof (ltrim_head_nonspace _ _ _ EL) as Hc.
    cbn [app skip_comments_aux]. destruct (c =c? "!") eqn:Eb.
    + (* comment line *)
      apply no_nl_app with (a := [c]) in Hnl. destruct Hnl as [_ Hx].
      destruct Hs as [[Es [Er Hne]]|[U [Es [HU _]]]]; subst s.
      * subst r. rewrite app_nil_r, skip_in_comment_end by exact Hx. reflexivity.
      * rewrite skip_in_comment_nl by exact Hx. exact HU.
    + rewrite Hc.
      destruct Hs as [[Es [Er Hne]]|[U [Es [_ HU]]]]; subst s.
      * subst r. rewrite app_nil_r. unfold split_lines. rewrite split_aux_last by exact Hnl. reflexivity.
      * change (c :: x ++ ch_nl :: U) with ((c :: x) ++ ch_nl :: U).
        unfold split_lines. rewrite split_lines_aux_line by exact Hnl. cbn [rev app]. f_equal. exact HU.
Qed.

(* ---- comment stripping commutes with the initial skipping *)

Definition blank (l : text) : bool := forallb is_space l.

Fixpoint skipws (ls : list text) : list text :=
  match ls with
  | [] => []
  | l :: r => if blank l then skipws r else ltrim l :: r
  end.

Lemma line_facts l :
  (skippable l = true -> blank (strip_comment l) = true)
  /\ (skippable l = false ->
        starts_with_bang l = false /\ blank (strip_comment l) = false
        /\ starts_with_bang (ltrim l) = false /\ strip_comment (ltrim l) = ltrim (strip_comment l)).
Proof.
  unfold skippable, strip_comment. induction l as [|c r [IH1 IH2]].
  - split; [reflexivity|discriminate].
  - cbn [ltrim]. destruct (is_space c) eqn:Es.
    + pose proof (space_not_bang _ Es) as Eb.
      cbn [take_until starts_with_bang]. rewrite Eb. fold (take_until "!" r).
      cbn [blank forallb ltrim]. rewrite Es. cbn [andb]. split; intro H.
      * apply IH1, H.
      * destruct (IH2 H) as (_ & B & C & D). repeat split; auto.
    + cbn [take_until starts_with_bang]. destruct (c =c? "!") eqn:Eb.
      * split; [reflexivity|discriminate].
      * fold (take_until "!" r). split; [discriminate|]. intros _.
        cbn [blank forallb ltrim]. rewrite Es. repeat split; reflexivity.
Qed.

Theorem eff_skip ls : effective_lines (skip_lines ls) = skipws (effective_lines ls).
Proof.
  induction ls as [|l r IH]; [reflexivity|].
  cbn [skip_lines]. destruct (line_facts l) as [F1 F2].
  destruct (skippable l) eqn:E.
  - specialize (F1 eq_refl). unfold effective_lines in *. cbn [filter].
    destruct (starts_with_bang l); cbn [negb map]; [exact IH|].
    cbn [skipws]. rewrite F1. exact IH.
  - destruct (F2 eq_refl) as (A & B & C & D).
    unfold effective_lines. cbn [filter]. rewrite A, C. cbn [negb map skipws]. rewrite B, D. reflexivity.
Qed.

(* the parser's view of a rendered file, in terms of its lines *)
Theorem parse_lines b ls : Forall no_nl ls ->
  effective_lines (split_lines (skip_comments (unlines b ls))) = skipws (effective_lines ls).
Proof. intro H. rewrite skip_split by exact H. apply eff_skip. Qed.
