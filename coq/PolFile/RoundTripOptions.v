(* C10 / PolFile: the option section: every rendered option line is recognised, in any letter case,
   with any spacing, and the settings reached are those of the description (stdlib style). *)
Require Import String Ascii List ZArith NArith Bool Lia ZifyBool Permutation.
Require Import MPSV.PolFile.Chars MPSV.PolFile.DecRatModel MPSV.PolFile.PolModel MPSV.PolFile.PolProofs
               MPSV.PolFile.RoundTripText MPSV.PolFile.RoundTripLines.
Import ListNotations.
Local Open Scope char_scope.

(* characters an option keyword is made of: no blank, no ';', '!', '=' *)
Definition okc (c : ascii) : bool :=
  negb (is_space c) && negb (c =c? ";") && negb (c =c? "!") && negb (c =c? "=").

Lemma okc_lower c : okc (lower c) = okc c.
Proof. destruct c as [[] [] [] [] [] [] [] []]; reflexivity. Qed.

Lemma forallb_okc_lower l : forallb okc (map lower l) = forallb okc l.
Proof. induction l; simpl; auto. rewrite okc_lower, IHl. reflexivity. Qed.

Lemma okc_case mask k : forallb okc (apply_case mask k) = forallb okc k.
Proof. rewrite <- forallb_okc_lower, map_lower_apply_case, forallb_okc_lower. reflexivity. Qed.

Lemma okc_facts c : okc c = true ->
  is_space c = false /\ (c =c? ";") = false /\ (c =c? "!") = false /\ (c =c? "=") = false.
Proof. unfold okc. intro H. repeat (apply andb_true_iff in H; destruct H as [H ?]). repeat split; apply negb_true_iff; auto. Qed.

Lemma okc_has_char l x : forallb okc l = true -> (x = ";" \/ x = "!" \/ x = "=") -> has_char x l = false.
Proof.
  intros H Hx. induction l as [|c l IH]; [reflexivity|].
  cbn [forallb] in H. apply andb_true_iff in H. destruct H as [H1 H2].
  destruct (okc_facts c H1) as (_ & A & B & C).
  cbn [has_char existsb]. fold (has_char x l). rewrite (IH H2).
  destruct Hx as [?|[?|?]]; subst; rewrite ?A, ?B, ?C; reflexivity.
Qed.

Lemma apply_case_nonnil mask k : k <> [] -> apply_case mask k <> [].
Proof. destruct k; [congruence|]. intros _. destruct mask as [|[] m]; discriminate. Qed.

Lemma digits_okc v : all_digits v -> forallb okc v = true.
Proof.
  induction 1 as [|c v Hc _ IH]; [reflexivity|]. cbn [forallb]. rewrite IH, andb_true_r.
  unfold okc. rewrite (digit_not_space c Hc), !(digit_neq c _ Hc) by reflexivity. reflexivity.
Qed.

(* ---- option_text of a decorated line *)

Lemma sp_all_spaces n : sp_all (spaces n).
Proof. apply spaces_are_spaces. Qed.

Lemma rev_spaces n : rev (spaces n) = spaces n.
Proof.
  unfold spaces. induction n; [reflexivity|]. cbn [repeat rev]. rewrite IHn.
  clear. induction n; [reflexivity|]. cbn [repeat app]. f_equal. exact IHn.
Qed.

Lemma forallb_okc_app a b : forallb okc (a ++ b) = forallb okc a && forallb okc b.
Proof. apply forallb_app. Qed.

(* T = A ++ B with A starting with an ok character and B a non empty string of ok characters:
   surrounding blanks and everything from the ';' on are dropped *)
Lemma option_text_line lead mid rest (A B : text) :
  (match A ++ B with c :: _ => okc c = true | [] => False end) ->
  has_char ";" A = false -> forallb okc B = true -> B <> [] ->
  option_text (spaces lead ++ (A ++ B) ++ spaces mid ++ ";" :: rest) = A ++ B.
Proof.
  intros H0 HA HB HBne. unfold option_text.
  rewrite ltrim_spaces_app by apply sp_all_spaces.
  assert (L : ltrim ((A ++ B) ++ spaces mid ++ ";" :: rest) = (A ++ B) ++ spaces mid ++ ";" :: rest).
  { destruct (A ++ B) as [|c r]; [contradiction|]. cbn [app]. apply ltrim_nonspace. apply (okc_facts c H0). }
  rewrite L.
  replace ((A ++ B) ++ spaces mid ++ ";" :: rest) with ((A ++ B ++ spaces mid) ++ ";" :: rest)
    by (rewrite <- !app_assoc; reflexivity).
  rewrite take_until_app.
  2:{ rewrite !has_char_app, HA, (okc_has_char B ";" HB) by auto. rewrite has_char_spaces by reflexivity. reflexivity. }
  unfold rtrim. rewrite !rev_app_distr, rev_spaces, <- app_assoc.
  rewrite ltrim_spaces_app by apply sp_all_spaces.
  assert (R : ltrim (rev B ++ rev A) = rev B ++ rev A).
  { destruct (rev B) as [|z zs] eqn:E.
    - exfalso. apply HBne. rewrite <- (rev_involutive B), E. reflexivity.
    - cbn [app]. apply ltrim_nonspace.
      assert (Hz : okc z = true).
      { assert (F : forallb okc (rev B) = true).
        { rewrite forallb_forall in *. intros x Hx. apply HB. apply in_rev. exact Hx. }
        rewrite E in F. cbn [forallb] in F. apply andb_true_iff in F. tauto. }
      apply (okc_facts z Hz). }
  rewrite R, rev_app_distr, !rev_involutive. reflexivity.
Qed.

(* ---- the options render produces *)

Definition plain_keywords : list text :=
  [kw "Monomial"; kw "Secular"; kw "Chebyshev"; kw "Real"; kw "Complex"; kw "Integer"; kw "Rational";
   kw "FloatingPoint"; kw "Sparse"; kw "Dense"].

Definition opt_good (o : opt) : Prop :=
  match o with
  | OKey k => In k plain_keywords
  | OKeyVal k v => (k = kw "Degree" \/ k = kw "Precision") /\ all_digits v /\ v <> []
  end.

Definition key_flag (k : text) : flag :=
  if is_option k (kw "degree") then K_DEGREE else if is_option k (kw "precision") then K_PRECISION else F_UNDEF.

Definition opt_fv (o : opt) : flag * text :=
  match o with
  | OKey k => (keyword_flag k, [])
  | OKeyVal k v => (key_flag k, v)
  end.

Definition stripped (o : opt) (dc : optdeco) : text :=
  spaces (od_lead dc) ++ opt_text o dc ++ spaces (od_mid dc) ++ ";" :: spaces (od_trail dc).

Lemma keyword_okc k : In k plain_keywords -> forallb okc k = true /\ k <> [] /\ keyword_flag k <> F_UNDEF.
Proof.
  intro H. cbn in H.
  repeat (destruct H as [H|H]; [subst k; split; [reflexivity|split; [discriminate|vm_compute; discriminate]]|]).
  contradiction.
Qed.

Lemma head_okc l : forallb okc l = true -> l <> [] -> match l with c :: _ => okc c = true | [] => False end.
Proof. destruct l; [congruence|]. cbn [forallb]. intros H _. apply andb_true_iff in H. tauto. Qed.

Lemma is_option_cmp_nil a : is_option_cmp a [] = forallb is_space a.
Proof. destruct a; reflexivity. Qed.

Lemma map_lower_spaces n : map lower (spaces n) = spaces n.
Proof. induction n; [reflexivity|]. cbn [spaces repeat map]. f_equal. exact IHn. Qed.

Lemma forallb_space_spaces n : forallb is_space (spaces n) = true.
Proof. apply blank_spaces. Qed.

Lemma opt_text_key_val mask k e1 e2 v :
  opt_text (OKeyVal k v) {| od_pre := []; od_lead := 0; od_mask := mask; od_eq1 := e1; od_eq2 := e2; od_mid := 0; od_trail := 0; od_comment := None |}
  = apply_case mask k ++ spaces e1 ++ "=" :: spaces e2 ++ v.
Proof. reflexivity. Qed.

(* the flag of a "key = value" option text is UNDEF as far as the plain keywords go *)
Lemma keyword_flag_keyval mask k e1 tail :
  (k = kw "Degree" \/ k = kw "Precision") ->
  keyword_flag (apply_case mask k ++ spaces e1 ++ "=" :: tail) = F_UNDEF.
Proof.
  intro Hk. unfold keyword_flag.
  assert (E : forall b, is_option (apply_case mask k ++ spaces e1 ++ "=" :: tail) b
                        = is_option (map lower k ++ spaces e1 ++ "=" :: map lower tail) b).
  { intro b. rewrite <- is_option_lower, !map_app, map_lower_apply_case, map_lower_spaces. reflexivity. }
  rewrite !E. clear E.
  destruct Hk; subst k; cbn; reflexivity.
Qed.

Lemma cmp_prefix a : forall b n, map lower a = map lower b -> is_option_cmp (a ++ spaces n) b = true.
Proof.
  induction a as [|x a IH]; intros b n H; destruct b as [|y b]; try discriminate.
  - cbn [app]. rewrite is_option_cmp_nil. apply forallb_space_spaces.
  - cbn [map] in H. inversion H as [[H1 H2]]. cbn [app is_option_cmp]. rewrite H1, Ascii.eqb_refl. apply IH, H2.
Qed.

Lemma is_opt_deg n : is_option (kw "Degree" ++ spaces n) (kw "degree") = true.
Proof.
  unfold is_option. change (ltrim (kw "degree")) with (kw "degree").
  change (ltrim (kw "Degree" ++ spaces n)) with (kw "Degree" ++ spaces n). apply cmp_prefix. reflexivity.
Qed.
Lemma is_opt_prec n : is_option (kw "Precision" ++ spaces n) (kw "precision") = true.
Proof.
  unfold is_option. change (ltrim (kw "precision")) with (kw "precision").
  change (ltrim (kw "Precision" ++ spaces n)) with (kw "Precision" ++ spaces n). apply cmp_prefix. reflexivity.
Qed.
Lemma is_opt_deg_prec n : is_option (kw "Degree" ++ spaces n) (kw "precision") = false.
Proof. reflexivity. Qed.
Lemma is_opt_prec_deg n : is_option (kw "Precision" ++ spaces n) (kw "degree") = false.
Proof. reflexivity. Qed.

Lemma parse_option_line_key k dc :
  In k plain_keywords ->
  parse_option_line (stripped (OKey k) dc) = Some (keyword_flag k, []).
Proof.
  intro H. destruct (keyword_okc k H) as (Hok & Hne & Hfl).
  unfold parse_option_line, stripped. cbn [opt_text].
  set (T := apply_case (od_mask dc) k).
  assert (HT : forallb okc T = true) by (unfold T; rewrite okc_case; exact Hok).
  assert (HTne : T <> []) by (apply apply_case_nonnil; exact Hne).
  pose proof (option_text_line (od_lead dc) (od_mid dc) (spaces (od_trail dc)) [] T) as OT.
  cbn [app] in OT. rewrite (OT (head_okc T HT HTne) eq_refl HT HTne). clear OT.
  rewrite (okc_has_char T "=" HT) by auto.
  unfold T. rewrite keyword_flag_case.
  destruct (keyword_flag k); try reflexivity. congruence.
Qed.

Lemma parse_option_line_keyval k v dc :
  (k = kw "Degree" \/ k = kw "Precision") -> all_digits v -> v <> [] ->
  parse_option_line (stripped (OKeyVal k v) dc) = Some (key_flag k, spaces (od_eq2 dc) ++ v).
Proof.
  intros Hk Hv Hvne.
  assert (Hok : forallb okc k = true /\ k <> []) by (destruct Hk; subst k; split; (reflexivity || discriminate)).
  destruct Hok as [Hok Hne].
  unfold parse_option_line, stripped. cbn [opt_text].
  set (K := apply_case (od_mask dc) k).
  assert (HK : forallb okc K = true) by (unfold K; rewrite okc_case; exact Hok).
  assert (HKne : K <> []) by (apply apply_case_nonnil; exact Hne).
  set (A := K ++ spaces (od_eq1 dc) ++ "=" :: spaces (od_eq2 dc)).
  replace (K ++ spaces (od_eq1 dc) ++ "=" :: spaces (od_eq2 dc) ++ v) with (A ++ v)
    by (unfold A; rewrite <- !app_assoc; reflexivity).
  rewrite option_text_line.
  2:{ unfold A. destruct K as [|c K']; [congruence|]. cbn [app forallb] in *. apply andb_true_iff in HK. tauto. }
  2:{ unfold A. rewrite !has_char_app, (okc_has_char K ";" HK) by auto.
      rewrite has_char_spaces by reflexivity. cbn [has_char existsb]. change ("=" =c? ";") with false.
      fold (has_char ";" (spaces (od_eq2 dc))). rewrite has_char_spaces by reflexivity. reflexivity. }
  2:{ apply digits_okc, Hv. }
  2:{ exact Hvne. }
  assert (HE : has_char "=" (A ++ v) = true).
  { unfold A. rewrite !has_char_app. cbn [has_char existsb]. rewrite Ascii.eqb_refl. rewrite !orb_true_r. reflexivity. }
  rewrite HE.
  assert (NoEq : has_char "=" (K ++ spaces (od_eq1 dc)) = false).
  { rewrite has_char_app, (okc_has_char K "=" HK) by auto. apply has_char_spaces. reflexivity. }
  replace (A ++ v) with ((K ++ spaces (od_eq1 dc)) ++ "=" :: (spaces (od_eq2 dc) ++ v))
    by (unfold A; rewrite <- !app_assoc; reflexivity).
  rewrite take_until_app, drop_until_app by exact NoEq.
  assert (KF : forall b, is_option (K ++ spaces (od_eq1 dc)) b = is_option (k ++ spaces (od_eq1 dc)) b).
  { intro b. rewrite <- is_option_lower, map_app. unfold K. rewrite map_lower_apply_case.
    rewrite <- map_app, is_option_lower. reflexivity. }
  rewrite !KF.
  replace (keyword_flag ((K ++ spaces (od_eq1 dc)) ++ "=" :: spaces (od_eq2 dc) ++ v)) with F_UNDEF
    by (symmetry; unfold K; rewrite <- app_assoc; apply keyword_flag_keyval; exact Hk).
  destruct Hk; subst k; rewrite ?is_opt_deg, ?is_opt_deg_prec, ?is_opt_prec_deg, ?is_opt_prec; reflexivity.
Qed.
