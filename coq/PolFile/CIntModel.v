(* C10 / PolFile: the C integer conversions the readers perform (definitions only).

   What the parsers call, and what glibc (x86-64, LP64) does:

     atoi (s)                  = (int) strtol (s, NULL, 10)        parser.c: Degree=, Precision=
     sscanf (tok, "%d", &i)    = (int) strtol-like conversion      monomial-parser.c (sparse index, 2.x degree),
                                                                   chebyshev-parser.c (sparse index)
     sscanf (tok, "%ld", &l)   = strtol-like conversion            monomial-parser.c (2.x precision word)

   strtol saturates at LONG_MAX / LONG_MIN (and sets errno, which nobody reads); the conversion to
   int keeps the low 32 bits (two's complement).  So "4294967298" is read as 2 by atoi and by %d.

     input_precision = atoi (v) * LOG2_10;     int -> double (exact), double product (round to nearest
     prec *= LOG2_10;                          even, 53 bits), double -> long (truncation toward zero).
                                               long -> double rounds to nearest even as well.
   A product outside the range of long is undefined behaviour in C; the cvttsd2si instruction that
   gcc emits gives LONG_MIN ("integer indefinite"), which is what [long_of_double] models. *)
Require Import List Ascii ZArith NArith Bool.
Require Import MPSV.PolFile.Chars.
Import ListNotations.
Local Open Scope Z_scope.

Definition INT_MAX : Z := 2147483647.
Definition INT_MIN : Z := -2147483648.
Definition LONG_MAX : Z := 9223372036854775807.
Definition LONG_MIN : Z := -9223372036854775808.

(* strtol's range handling *)
Definition sat_long (z : Z) : Z :=
  if z <? LONG_MIN then LONG_MIN else if LONG_MAX <? z then LONG_MAX else z.

(* (int) of a long *)
Definition wrap_int (z : Z) : Z := (z + 2147483648) mod 4294967296 - 2147483648.

(* strtol on an optional sign and a run of digits *)
Definition strtol_digits (neg : bool) (ds : text) : Z :=
  let v := Z.of_N (digits_val ds) in sat_long (if neg then - v else v).

(* atoi / %d on the same *)
Definition int_of_digits (neg : bool) (ds : text) : Z := wrap_int (strtol_digits neg ds).

(* ---- IEEE double arithmetic on the few operations used: values are q * 2^s, 0 <= q < 2^53 (or = 2^53
   after a carry, which is the same number with a smaller mantissa) *)

(* round a natural number to 53 significant bits, nearest, ties to even: (q, s) stands for q * 2^s *)
Definition round53 (m : Z) : Z * Z :=
  let b := Z.log2 m + 1 in
  if b <=? 53 then (m, 0)
  else let s := b - 53 in
       let q := Z.shiftr m s in
       let r := m - Z.shiftl q s in
       let h := Z.shiftl 1 (s - 1) in
       ((if (h <? r) || ((r =? h) && Z.odd q) then q + 1 else q), s).

(* LOG2_10 = 3.32192809488736234787 as the double it is: 7480317065143153 / 2^51 *)
Definition LOG2_10_num : Z := 7480317065143153.
Definition LOG2_10_den : Z := 2251799813685248.

(* trunc ((double) a * LOG2_10) for a >= 0, as an unbounded integer *)
Definition dmul_log2_10_mag (a : Z) : Z :=
  let '(q1, s1) := round53 a in
  let '(q2, s2) := round53 (q1 * LOG2_10_num) in
  let e := s1 + s2 - 51 in
  if 0 <=? e then Z.shiftl q2 e else Z.shiftr q2 (- e).

(* (long) of a double given as sign and truncated magnitude *)
Definition long_of_double (neg : bool) (mag : Z) : Z :=
  let v := if neg then - mag else mag in
  if (v <? LONG_MIN) || (LONG_MAX <? v) then LONG_MIN else v.

(* digits -> bits as the code computes it (both "atoi (v) * LOG2_10" and "prec *= LOG2_10") *)
Definition prec_bits (digits : Z) : Z := long_of_double (digits <? 0) (dmul_log2_10_mag (Z.abs digits)).

(* the product in exact arithmetic, truncated toward zero: what the double computation approximates *)
Definition prec_bits_exact (digits : Z) : Z := Z.quot (digits * LOG2_10_num) LOG2_10_den.

(* the well-formedness bounds of the round trip *)
Definition degree_in_range (n : Z) : Prop := n + 1 <= INT_MAX.        (* s->n + 1 is computed in int *)
Definition prec3_in_range (P : Z) : Prop := P <= INT_MAX.            (* Precision = P; through atoi *)
Definition prec2_in_range (P : Z) : Prop := P < 2 ^ 51.              (* 2.x precision word: %ld, exact as a double; the product fits a long
                                                                        (sufficient, not exact: the first word whose product leaves the
                                                                        range of long is near 2.777 * 10^18) *)
