(* C10 / PolFile: facts about the C integer conversions of CIntModel.v.
   Style: stdlib (lia/nia). *)
Require Import List Ascii ZArith NArith Bool Lia ZifyBool.
Require Import MPSV.PolFile.Chars MPSV.PolFile.CIntModel.
Import ListNotations.
Local Open Scope Z_scope.

(* ---------------------------------------------------------------- saturation, truncation to int *)

Lemma sat_long_id z : LONG_MIN <= z <= LONG_MAX -> sat_long z = z.
Proof. unfold sat_long, LONG_MIN, LONG_MAX. intros H. destruct (z <? _) eqn:A; [lia|]. destruct (_ <? z) eqn:B; lia. Qed.

Lemma sat_long_range z : LONG_MIN <= sat_long z <= LONG_MAX.
Proof. unfold sat_long, LONG_MIN, LONG_MAX. destruct (z <? _) eqn:A; [lia|]. destruct (_ <? z) eqn:B; lia. Qed.

Lemma sat_long_above z : LONG_MAX <= z -> sat_long z = LONG_MAX.
Proof. unfold sat_long, LONG_MIN, LONG_MAX. intros H. destruct (z <? _) eqn:A; [lia|]. destruct (_ <? z) eqn:B; lia. Qed.

Lemma wrap_int_id z : INT_MIN <= z <= INT_MAX -> wrap_int z = z.
Proof. unfold wrap_int, INT_MIN, INT_MAX. intro H. rewrite Z.mod_small; lia. Qed.

Lemma wrap_int_range z : INT_MIN <= wrap_int z <= INT_MAX.
Proof. unfold wrap_int, INT_MIN, INT_MAX. pose proof (Z.mod_pos_bound (z + 2147483648) 4294967296). lia. Qed.

(* the int kept is congruent to the long modulo 2^32 *)
Lemma wrap_int_congr z : exists k, wrap_int z = z - k * 4294967296.
Proof.
  unfold wrap_int. exists ((z + 2147483648) / 4294967296).
  pose proof (Z.div_mod (z + 2147483648) 4294967296). lia.
Qed.

Lemma wrap_int_shift z k : wrap_int (z + k * 4294967296) = wrap_int z.
Proof. unfold wrap_int. replace (z + k * 4294967296 + 2147483648) with (z + 2147483648 + k * 4294967296) by lia. rewrite Z.mod_add by lia. reflexivity. Qed.

(* atoi / %d on a digit string: exact iff the value fits an int; otherwise another int, silently *)
Lemma int_of_digits_small ds : Z.of_N (digits_val ds) <= INT_MAX -> int_of_digits false ds = Z.of_N (digits_val ds).
Proof.
  intro H. unfold int_of_digits, strtol_digits. unfold INT_MAX in H.
  rewrite sat_long_id by (unfold LONG_MIN, LONG_MAX; lia). apply wrap_int_id. unfold INT_MIN, INT_MAX. lia.
Qed.

Lemma strtol_digits_small ds : Z.of_N (digits_val ds) <= LONG_MAX -> strtol_digits false ds = Z.of_N (digits_val ds).
Proof. intro H. unfold strtol_digits. apply sat_long_id. unfold LONG_MIN, LONG_MAX in *. lia. Qed.

Lemma int_of_digits_exact_iff ds :
  int_of_digits false ds = Z.of_N (digits_val ds) <-> Z.of_N (digits_val ds) <= INT_MAX.
Proof.
  split; [|apply int_of_digits_small].
  intro H. pose proof (wrap_int_range (strtol_digits false ds)) as R. unfold int_of_digits in H. lia.
Qed.

Lemma int_of_digits_huge ds : LONG_MAX <= Z.of_N (digits_val ds) -> int_of_digits false ds = -1.
Proof. intro H. unfold int_of_digits, strtol_digits. rewrite sat_long_above by exact H. reflexivity. Qed.

(* ---------------------------------------------------------------- rounding to 53 bits *)

Lemma shiftr_div a n : 0 <= n -> Z.shiftr a n = a / 2 ^ n.
Proof. apply Z.shiftr_div_pow2. Qed.
Lemma shiftl_mul a n : 0 <= n -> Z.shiftl a n = a * 2 ^ n.
Proof. apply Z.shiftl_mul_pow2. Qed.

Lemma round53_small m : 0 <= m < 2 ^ 53 -> round53 m = (m, 0).
Proof.
  intros [H0 H]. unfold round53.
  assert (L : Z.log2 m + 1 <= 53).
  { destruct (Z.eq_dec m 0) as [->|N]; [cbn; lia|]. assert (Z.log2 m < 53) by (apply Z.log2_lt_pow2; lia). lia. }
  destruct (Z.log2 m + 1 <=? 53) eqn:E; [reflexivity|lia].
Qed.

(* the rounded mantissa is the truncated one or its successor, and the exponent is what the size says *)
Lemma round53_spec m : 0 <= m ->
  let '(q, s) := round53 m in
  0 <= s /\ s = Z.max 0 (Z.log2 m + 1 - 53) /\ (m / 2 ^ s <= q <= m / 2 ^ s + 1) /\ (s = 0 -> q = m).
Proof.
  intro H0. unfold round53. destruct (Z.log2 m + 1 <=? 53) eqn:E.
  - repeat split; try lia. all: rewrite ?Z.pow_0_r, ?Z.div_1_r; lia.
  - assert (S : 0 < Z.log2 m + 1 - 53) by lia.
    rewrite shiftr_div by lia.
    repeat split; try lia.
    all: destruct ((_ <? _) || _); lia.
Qed.

(* ---------------------------------------------------------------- the LOG2_10 product *)

Lemma pow2_split a b : 0 <= a -> 0 <= b -> 2 ^ (a + b) = 2 ^ a * 2 ^ b.
Proof. intros. apply Z.pow_add_r; lia. Qed.

(* for 0 <= P < 2^51 the double computation gives the exact product truncated, or one more *)
Theorem prec_bits_bracket P : 0 <= P < 2 ^ 51 ->
  prec_bits_exact P <= prec_bits P <= prec_bits_exact P + 1.
Proof.
  intros [P0 P1].
  unfold prec_bits, prec_bits_exact. rewrite Z.abs_eq by lia.
  assert (NEG : (P <? 0) = false) by lia. rewrite NEG.
  unfold dmul_log2_10_mag. rewrite round53_small by (split; [lia|]; apply Z.lt_trans with (2 ^ 51); [lia|reflexivity]).
  set (m := P * LOG2_10_num).
  assert (M0 : 0 <= m) by (unfold m, LOG2_10_num; lia).
  assert (M1 : m < 2 ^ 104).
  { unfold m, LOG2_10_num. change (2 ^ 104) with (2 ^ 51 * 2 ^ 53). apply Z.le_lt_trans with (P * 2 ^ 53); [|nia].
    apply Z.mul_le_mono_nonneg_l; [lia|]. cbv; discriminate. }
  pose proof (round53_spec m M0) as R. destruct (round53 m) as [q s].
  destruct R as (S0 & SE & (QL & QH) & _).
  assert (S1 : s <= 51).
  { destruct (Z.eq_dec m 0) as [Z0|NZ]; [rewrite Z0 in SE; cbn in SE; lia|].
    assert (Z.log2 m < 104) by (apply Z.log2_lt_pow2; lia). lia. }
  cbn [Z.add]. replace (0 + s - 51) with (s - 51) by lia.
  rewrite Z.quot_div_nonneg by (unfold LOG2_10_den; lia).
  change LOG2_10_den with (2 ^ 51).
  set (t := 51 - s). assert (T0 : 0 <= t) by (unfold t; lia).
  assert (SPLIT : 2 ^ 51 = 2 ^ s * 2 ^ t) by (rewrite <- pow2_split by lia; f_equal; unfold t; lia).
  assert (PS : 0 < 2 ^ s) by (apply Z.pow_pos_nonneg; lia).
  assert (PT : 0 < 2 ^ t) by (apply Z.pow_pos_nonneg; lia).
  assert (DD : m / 2 ^ 51 = (m / 2 ^ s) / 2 ^ t) by (rewrite SPLIT, Z.div_div by lia; reflexivity).
  (* the value returned *)
  assert (V : (if 0 <=? s - 51 then Z.shiftl q (s - 51) else Z.shiftr q (- (s - 51))) = q / 2 ^ t).
  { destruct (0 <=? s - 51) eqn:E.
    - assert (Es : s - 51 = 0) by lia. assert (Et : t = 0) by (unfold t; lia).
      rewrite Es, Et, Z.shiftl_0_r, Z.pow_0_r, Z.div_1_r. reflexivity.
    - rewrite shiftr_div by lia. f_equal. f_equal. unfold t. lia. }
  rewrite V.
  set (k := m / 2 ^ s) in *.
  assert (LO : k / 2 ^ t <= q / 2 ^ t) by (apply Z.div_le_mono; lia).
  assert (HI : q / 2 ^ t <= k / 2 ^ t + 1).
  { apply Z.le_trans with ((k + 1) / 2 ^ t); [apply Z.div_le_mono; lia|].
    pose proof (Z.div_mod k (2 ^ t) ltac:(lia)) as DM. pose proof (Z.mod_pos_bound k (2 ^ t) PT) as MB.
    apply Z.lt_succ_r. apply Z.div_lt_upper_bound; [lia|]. nia. }
  (* no conversion overflow *)
  assert (KB : k / 2 ^ t < 2 ^ 53).
  { rewrite <- DD. apply Z.div_lt_upper_bound; [lia|]. change (2 ^ 51 * 2 ^ 53) with (2 ^ 104). exact M1. }
  assert (K0 : 0 <= k / 2 ^ t) by (apply Z.div_pos; [unfold k; apply Z.div_pos; lia|lia]).
  rewrite DD.
  unfold long_of_double, LONG_MIN, LONG_MAX.
  change (2 ^ 53) with 9007199254740992 in KB.
  destruct ((q / 2 ^ t <? -9223372036854775808) || (9223372036854775807 <? q / 2 ^ t)) eqn:OV; lia.
Qed.

Lemma prec_bits_exact_lower P : 1 <= P -> 3 <= prec_bits_exact P.
Proof.
  intro H. unfold prec_bits_exact, LOG2_10_num, LOG2_10_den. rewrite Z.quot_div_nonneg by lia.
  apply Z.div_le_lower_bound; lia.
Qed.

Lemma prec_bits_pos_bounded P : 1 <= P < 2 ^ 51 -> 0 < prec_bits P.
Proof. intro H. pose proof (prec_bits_bracket P ltac:(lia)). pose proof (prec_bits_exact_lower P ltac:(lia)). lia. Qed.

(* ---------------------------------------------------------------- a finite range where the double product is exact *)

Fixpoint range_all (f : Z -> bool) (k : nat) (base : Z) : bool :=
  match k with
  | O => f base
  | S k' => range_all f k' base && range_all f k' (base + 2 ^ Z.of_nat k')
  end.

Lemma range_all_spec f k : forall base, range_all f k base = true ->
  forall z, base <= z < base + 2 ^ Z.of_nat k -> f z = true.
Proof.
  induction k as [|k IH]; intros base H z Hz.
  - cbn in *. replace z with base by lia. exact H.
  - cbn [range_all] in H. apply andb_prop in H. destruct H as [H1 H2].
    rewrite Nat2Z.inj_succ, Z.pow_succ_r in Hz by lia.
    destruct (Z_lt_ge_dec z (base + 2 ^ Z.of_nat k)).
    + apply (IH base H1). lia.
    + apply (IH _ H2). lia.
Qed.

Lemma prec_bits_exact_upto_2_16 :
  range_all (fun P => prec_bits P =? prec_bits_exact P) 16 0 = true.
Proof. vm_compute. reflexivity. Qed.

(* up to Precision = 65535 digits the bits are EXACTLY floor (P * LOG2_10), LOG2_10 the double constant *)
Theorem prec_bits_is_exact P : 0 <= P < 65536 -> prec_bits P = prec_bits_exact P.
Proof.
  intro H. apply Z.eqb_eq. apply (range_all_spec _ 16 0 prec_bits_exact_upto_2_16). change (2 ^ Z.of_nat 16) with 65536. lia.
Qed.
