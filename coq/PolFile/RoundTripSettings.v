(* C10 / PolFile: the option phase of the parser on the rendered option section, and the settings
   it reaches (stdlib style). *)
Require Import String Ascii List ZArith NArith Bool Lia ZifyBool Permutation.
Require Import MPSV.PolFile.Chars MPSV.PolFile.DecRatModel MPSV.PolFile.PolModel MPSV.PolFile.CIntProofs MPSV.PolFile.PolProofs
               MPSV.PolFile.RoundTripText MPSV.PolFile.RoundTripLines MPSV.PolFile.RoundTripOptions.
Import ListNotations.
Local Open Scope char_scope.

Lemma opt_text_facts o dc : opt_good o ->
  has_char "!" (opt_text o dc) = false
  /\ match opt_text o dc with c :: _ => (c =c? "!") = false | [] => False end.
Proof.
  destruct o as [k|k v]; cbn [opt_good opt_text].
  - intro H. destruct (keyword_okc k H) as (Hok & Hne & _).
    set (T := apply_case (od_mask dc) k).
    assert (HT : forallb okc T = true) by (unfold T; rewrite okc_case; exact Hok).
    assert (HTne : T <> []) by (apply apply_case_nonnil; exact Hne).
    split; [apply okc_has_char; auto|].
    pose proof (head_okc T HT HTne) as Hh. destruct T; [contradiction|]. apply (okc_facts a Hh).
  - intros [Hk [Hv Hvne]].
    assert (Hok : forallb okc k = true /\ k <> []) by (destruct Hk; subst k; split; (reflexivity || discriminate)).
    destruct Hok as [Hok Hne].
    set (K := apply_case (od_mask dc) k).
    assert (HK : forallb okc K = true) by (unfold K; rewrite okc_case; exact Hok).
    assert (HKne : K <> []) by (apply apply_case_nonnil; exact Hne).
    split.
    + rewrite !has_char_app, (okc_has_char K "!" HK) by auto. rewrite has_char_spaces by reflexivity.
      cbn [has_char existsb]. change ("=" =c? "!") with false. fold (has_char "!" (spaces (od_eq2 dc) ++ v)).
      rewrite has_char_app, has_char_spaces by reflexivity. rewrite (okc_has_char v "!" (digits_okc v Hv)) by auto. reflexivity.
    + pose proof (head_okc K HK HKne) as Hh. destruct K; [contradiction|]. apply (okc_facts a Hh).
Qed.

Lemma eff_comment_lines pre : effective_lines (map (fun b => "!" :: clean b) pre) = [].
Proof. induction pre; [reflexivity|]. unfold effective_lines in *. cbn. exact IHpre. Qed.

Lemma eff_option_lines o dc : opt_good o -> effective_lines (option_lines o dc) = [stripped o dc].
Proof.
  intro H. destruct (opt_text_facts o dc H) as [Hb Hh].
  unfold option_lines. rewrite effective_lines_app, eff_comment_lines. cbn [app].
  set (T := opt_text o dc) in *.
  assert (Hs : has_char "!" (stripped o dc) = false).
  { unfold stripped. fold T. rewrite !has_char_app, Hb, !has_char_spaces by reflexivity.
    cbn [has_char existsb]. change (";" =c? "!") with false. fold (has_char "!" (spaces (od_trail dc))).
    rewrite has_char_spaces by reflexivity. reflexivity. }
  unfold effective_lines. cbn [filter].
  assert (SB : starts_with_bang (spaces (od_lead dc) ++ T ++ spaces (od_mid dc) ++ ";" :: spaces (od_trail dc) ++ comment_tail (od_comment dc)) = false).
  { apply starts_spaces_app. destruct T; [contradiction|]. exact Hh. }
  rewrite SB. cbn [negb map]. f_equal. unfold strip_comment.
  replace (spaces (od_lead dc) ++ T ++ spaces (od_mid dc) ++ ";" :: spaces (od_trail dc) ++ comment_tail (od_comment dc))
    with (stripped o dc ++ comment_tail (od_comment dc))
    by (unfold stripped; rewrite <- !app_assoc; reflexivity).
  destruct (od_comment dc); cbn [comment_tail].
  - apply take_until_app, Hs.
  - rewrite app_nil_r. apply take_until_none, Hs.
Qed.

Lemma eff_option_section opts : forall decos, Forall opt_good opts ->
  effective_lines (concat (zip_default option_lines default_optdeco opts decos))
  = zip_default stripped default_optdeco opts decos.
Proof.
  induction opts as [|o opts IH]; intros decos H; [reflexivity|].
  inversion H; subst.
  destruct decos as [|dc ds]; cbn [zip_default concat]; rewrite effective_lines_app, eff_option_lines, IH by auto; reflexivity.
Qed.

Lemma stripped_has_semicolon o dc : has_char ";" (stripped o dc) = true.
Proof.
  unfold stripped. rewrite !has_char_app. cbn [has_char existsb]. rewrite Ascii.eqb_refl, !orb_true_r. reflexivity.
Qed.

Lemma atoi_spaces n v : atoi (spaces n ++ v) = atoi v.
Proof. unfold atoi. rewrite ltrim_spaces_app by apply sp_all_spaces. reflexivity. Qed.

Lemma apply_option_spaces st f n v : apply_option st (f, spaces n ++ v) = apply_option st (f, v).
Proof. destruct f; cbn [apply_option]; rewrite ?atoi_spaces; reflexivity. Qed.

Lemma parse_option_line_good o dc : opt_good o ->
  exists n, parse_option_line (stripped o dc) = Some (fst (opt_fv o), spaces n ++ snd (opt_fv o)).
Proof.
  destruct o as [k|k v]; cbn [opt_good opt_fv fst snd].
  - intro H. exists 0%nat. apply parse_option_line_key, H.
  - intros [Hk [Hv Hne]]. exists (od_eq2 dc). apply parse_option_line_keyval; auto.
Qed.

Lemma options_phase_rendered opts : forall decos st REST,
  Forall opt_good opts -> Forall (fun l => has_char ";" l = false) REST ->
  options_phase (zip_default stripped default_optdeco opts decos ++ REST) st
  = match apply_options st (map opt_fv opts) with Some st' => Some (st', REST) | None => None end.
Proof.
  induction opts as [|o opts IH]; intros decos st REST H HR.
  - cbn [zip_default app map apply_options]. destruct REST as [|l r]; [reflexivity|].
    inversion HR as [|? ? Hl Hr]; subst. cbn [options_phase]. rewrite Hl. reflexivity.
  - inversion H as [|? ? H2 H3]; subst.
    assert (K : forall dc ds,
      options_phase ((stripped o dc :: zip_default stripped default_optdeco opts ds) ++ REST) st
      = match apply_options st (map opt_fv (o :: opts)) with Some st' => Some (st', REST) | None => None end).
    { intros dc ds. cbn [app options_phase]. rewrite stripped_has_semicolon.
      destruct (parse_option_line_good o dc H2) as [n E]. rewrite E.
      rewrite apply_option_spaces. cbn [map apply_options]. destruct (opt_fv o) as [f v]. cbn [fst snd].
      destruct (apply_option st _); cbn [bind]; [apply IH; auto|reflexivity]. }
    destruct decos as [|dc ds]; cbn [zip_default]; apply K.
Qed.

(* the first option line has lost its leading blanks to mps_skip_comments: no difference *)
Lemma ltrim_idem l : ltrim (ltrim l) = ltrim l.
Proof.
  induction l as [|c l IH]; [reflexivity|]. cbn [ltrim]. destruct (is_space c) eqn:E; [exact IH|].
  cbn [ltrim]. rewrite E. reflexivity.
Qed.

Lemma has_char_ltrim l : has_char ";" (ltrim l) = has_char ";" l.
Proof.
  induction l as [|c l IH]; [reflexivity|]. cbn [ltrim]. destruct (is_space c) eqn:E; [|reflexivity].
  rewrite IH. cbn [has_char existsb]. destruct (c =c? ";") eqn:E2; [|reflexivity].
  apply Ascii.eqb_eq in E2. subst. discriminate.
Qed.

Lemma options_phase_ltrim l r st : has_char ";" l = true ->
  options_phase (ltrim l :: r) st = options_phase (l :: r) st.
Proof.
  intro H. cbn [options_phase]. rewrite has_char_ltrim, H.
  unfold parse_option_line, option_text. rewrite ltrim_idem. reflexivity.
Qed.

(* ---- the settings *)

Lemma map_insert_at {A B} (f : A -> B) k x l : map f (insert_at k x l) = insert_at k (f x) (map f l).
Proof. revert l; induction k; intros [|y r]; cbn; try reflexivity. f_equal. apply IHk. Qed.

Lemma map_permute {A B} (f : A -> B) code : forall l, map f (permute code l) = permute code (map f l).
Proof.
  induction code as [|k c IH]; intros l.
  - induction l; cbn; [reflexivity|]. f_equal. exact IHl.
  - destruct l as [|x r]; [reflexivity|]. cbn [permute map]. rewrite map_insert_at, IH. reflexivity.
Qed.

Lemma apply_options_app a : forall st b,
  apply_options st (a ++ b) = bind (apply_options st a) (fun s => apply_options s b).
Proof.
  induction a as [|x a IH]; intros st b; [reflexivity|].
  cbn [app apply_options]. destruct (apply_option st x); cbn [bind]; [apply IH|reflexivity].
Qed.

Lemma span_digits_all v : all_digits v -> span_digits v = (v, []).
Proof. induction 1 as [|c v Hc _ IH]; [reflexivity|]. cbn [span_digits]. rewrite Hc, IH. reflexivity. Qed.

Lemma head_digit_signs v : all_digits v -> v <> [] -> sign_split v = (false, v).
Proof.
  intros H Hne. destruct v as [|c v]; [congruence|]. inversion H; subst.
  unfold sign_split. rewrite !(digit_neq c _ H2) by reflexivity. reflexivity.
Qed.

Lemma ltrim_digits v : all_digits v -> ltrim v = v.
Proof. intro H. destruct H; [reflexivity|]. apply ltrim_nonspace, digit_not_space; auto. Qed.

(* atoi / %d / %ld on a digit string, whatever its size: the C conversion of its value *)
Lemma atoi_digits_c v : all_digits v -> v <> [] -> atoi v = int_of_digits false v.
Proof.
  intros H Hne. unfold atoi. rewrite ltrim_digits, head_digit_signs, span_digits_all by auto. reflexivity.
Qed.

Lemma scan_int_digits_c v : all_digits v -> v <> [] -> scan_int v = Some (int_of_digits false v).
Proof.
  intros H Hne. unfold scan_int. rewrite ltrim_digits, head_digit_signs, span_digits_all by auto.
  cbn [fst]. destruct v; [congruence|reflexivity].
Qed.

Lemma scan_long_digits_c v : all_digits v -> v <> [] -> scan_long v = Some (strtol_digits false v).
Proof.
  intros H Hne. unfold scan_long. rewrite ltrim_digits, head_digit_signs, span_digits_all by auto.
  cbn [fst]. destruct v; [congruence|reflexivity].
Qed.

(* ... and when the value fits the C type, the value itself *)
Lemma atoi_digits v : all_digits v -> v <> [] -> (Z.of_N (digits_val v) <= INT_MAX)%Z -> atoi v = Z.of_N (digits_val v).
Proof. intros H Hne B. rewrite atoi_digits_c by auto. apply int_of_digits_small, B. Qed.

Lemma scan_int_digits v : all_digits v -> v <> [] -> (Z.of_N (digits_val v) <= INT_MAX)%Z ->
  scan_int v = Some (Z.of_N (digits_val v)).
Proof. intros H Hne B. rewrite scan_int_digits_c by auto. f_equal. apply int_of_digits_small, B. Qed.

Lemma scan_long_digits v : all_digits v -> v <> [] -> (Z.of_N (digits_val v) <= LONG_MAX)%Z ->
  scan_long v = Some (Z.of_N (digits_val v)).
Proof. intros H Hne B. rewrite scan_long_digits_c by auto. f_equal. apply strtol_digits_small, B. Qed.

Lemma nat_token_facts n : all_digits (nat_token n) /\ nat_token n <> [] /\ digits_val (nat_token n) = N.of_nat n.
Proof. unfold nat_token. split; [apply N_digits_all_digits|split; [apply N_digits_nonempty|apply N_digits_val]]. Qed.

Lemma prec_bits_pos P : (Zpos P < 2 ^ 51)%Z -> (0 < prec_bits (Zpos P))%Z.
Proof. intro H. apply prec_bits_pos_bounded. lia. Qed.

(* the bounds of [wf], as used below *)
Definition prec_bounded (d : polydesc) : Prop :=
  match d_prec d with
  | Some P => if d_legacy d then prec2_in_range (Zpos P) else prec3_in_range (Zpos P)
  | None => True end.

Lemma prec3_lt P : prec3_in_range (Zpos P) -> (Zpos P < 2 ^ 51)%Z.
Proof. unfold prec3_in_range, INT_MAX. intro H. apply Z.le_lt_trans with 2147483647%Z; [exact H|reflexivity]. Qed.

Definition target_settings (d : polydesc) : settings :=
  {| s_struct := mk_structure (d_real d) (d_ctype d);
     s_density := if d_sparse d then Sparse else Dense;
     s_repr := d_kind d;
     s_prec := match d_prec d with Some P => prec_bits (Zpos P) | None => 0%Z end;
     s_n := Z.of_nat (d_degree d) |}.

Lemma good_key k : In k plain_keywords -> Forall opt_good [OKey k].
Proof. intro H. constructor; [exact H|constructor]. Qed.

Lemma options_good st d : Forall opt_good (options_of st d).
Proof.
  unfold options_of. destruct (st_explicit st) as [[[e1 e2] e3] e4].
  apply Forall_app; split; [|apply Forall_app; split; [|apply Forall_app; split; [|apply Forall_app; split; [|apply Forall_app; split]]]].
  - constructor; [|constructor]. cbn [opt_good]. destruct (nat_token_facts (d_degree d)) as (A & B & _). auto.
  - destruct (d_kind d); [destruct e1; [|constructor]|..]; apply good_key; unfold plain_keywords, In; tauto.
  - destruct (d_real d); [|destruct e2; [|constructor]]; apply good_key; unfold plain_keywords, In; tauto.
  - destruct (d_ctype d); [| |destruct e3; [|constructor]]; apply good_key; unfold plain_keywords, In; tauto.
  - destruct (d_sparse d); [|destruct e4; [|constructor]]; apply good_key; unfold plain_keywords, In; tauto.
  - destruct (d_prec d); [|constructor]. constructor; [|constructor]. cbn [opt_good].
    split; [auto|split; [apply N_digits_all_digits|apply N_digits_nonempty]].
Qed.

(* the options as flags *)
Definition kind_flags (k : kind) (e : bool) : list (flag * text) :=
  match k with
  | KMonomial => if e then [(F_MONOMIAL, [])] else []
  | KSecular => [(F_SECULAR, [])]
  | KChebyshev => [(F_CHEBYSHEV, [])]
  end.
Definition real_flags (r e : bool) : list (flag * text) :=
  if r then [(F_REAL, [])] else if e then [(F_COMPLEX, [])] else [].
Definition type_flags (t : ctype) (e : bool) : list (flag * text) :=
  match t with
  | TInteger => [(F_INTEGER, [])]
  | TRational => [(F_RATIONAL, [])]
  | TFloat => if e then [(F_FP, [])] else []
  end.
Definition dens_flags (sp e : bool) : list (flag * text) :=
  if sp then [(F_SPARSE, [])] else if e then [(F_DENSE, [])] else [].
Definition prec_flags (p : option positive) : list (flag * text) :=
  match p with Some P => [(K_PRECISION, N_digits (Npos P))] | None => [] end.

Lemma app_eq2 {A} (a a' b b' : list A) : a = a' -> b = b' -> a ++ b = a' ++ b'.
Proof. intros; subst; reflexivity. Qed.

Lemma options_flags st d :
  map opt_fv (options_of st d) =
  let '(e1, e2, e3, e4) := st_explicit st in
  [(K_DEGREE, nat_token (d_degree d))] ++ kind_flags (d_kind d) e1 ++ real_flags (d_real d) e2
  ++ type_flags (d_ctype d) e3 ++ dens_flags (d_sparse d) e4 ++ prec_flags (d_prec d).
Proof.
  unfold options_of. destruct (st_explicit st) as [[[e1 e2] e3] e4]. rewrite !map_app.
  apply app_eq2; [|apply app_eq2; [|apply app_eq2; [|apply app_eq2; [|apply app_eq2]]]].
  - cbn [map opt_fv]. change (key_flag (kw "Degree")) with K_DEGREE. reflexivity.
  - destruct (d_kind d), e1; vm_compute; reflexivity.
  - destruct (d_real d), e2; vm_compute; reflexivity.
  - destruct (d_ctype d), e3; vm_compute; reflexivity.
  - destruct (d_sparse d), e4; vm_compute; reflexivity.
  - destruct (d_prec d); [|reflexivity]. cbn [map opt_fv prec_flags]. change (key_flag (kw "Precision")) with K_PRECISION. reflexivity.
Qed.

Lemma seg_kind k e s dn pr n :
  apply_options {| s_struct := s; s_density := dn; s_repr := KMonomial; s_prec := pr; s_n := n |} (kind_flags k e)
  = Some {| s_struct := s; s_density := dn; s_repr := k; s_prec := pr; s_n := n |}.
Proof. destruct k, e; reflexivity. Qed.

Lemma seg_struct r e2 t e3 dn rp pr n :
  apply_options {| s_struct := S_CF; s_density := dn; s_repr := rp; s_prec := pr; s_n := n |} (real_flags r e2 ++ type_flags t e3)
  = Some {| s_struct := mk_structure r t; s_density := dn; s_repr := rp; s_prec := pr; s_n := n |}.
Proof. destruct r, e2, t, e3; reflexivity. Qed.

Lemma seg_dens sp e s rp pr n :
  apply_options {| s_struct := s; s_density := Dense; s_repr := rp; s_prec := pr; s_n := n |} (dens_flags sp e)
  = Some {| s_struct := s; s_density := if sp then Sparse else Dense; s_repr := rp; s_prec := pr; s_n := n |}.
Proof. destruct sp, e; reflexivity. Qed.

Lemma seg_prec p s dn rp n :
  match p with Some P => prec3_in_range (Zpos P) | None => True end ->
  apply_options {| s_struct := s; s_density := dn; s_repr := rp; s_prec := 0%Z; s_n := n |} (prec_flags p)
  = Some {| s_struct := s; s_density := dn; s_repr := rp;
            s_prec := match p with Some P => prec_bits (Zpos P) | None => 0%Z end; s_n := n |}.
Proof.
  destruct p as [P|]; [|reflexivity]. intro PB. cbn [prec_flags apply_options apply_option].
  rewrite atoi_digits by (apply N_digits_all_digits || apply N_digits_nonempty || (rewrite N_digits_val; exact PB)).
  rewrite N_digits_val. change (Z.of_N (N.pos P)) with (Z.pos P).
  pose proof (prec_bits_pos P (prec3_lt P PB)) as PP. destruct (prec_bits (Z.pos P) <=? 0)%Z eqn:E; [lia|reflexivity].
Qed.

Lemma options_settings st d : (1 <= d_degree d)%nat ->
  degree_in_range (Z.of_nat (d_degree d)) -> d_legacy d = false -> prec_bounded d ->
  apply_options initial_settings (map opt_fv (options_of st d)) = Some (target_settings d).
Proof.
  intros Hdeg Hdr Hleg Hpb. unfold prec_bounded in Hpb. rewrite Hleg in Hpb.
  assert (Hdi : (Z.of_N (N.of_nat (d_degree d)) <= INT_MAX)%Z)
    by (unfold degree_in_range in Hdr; rewrite nat_N_Z; lia). rewrite options_flags. destruct (st_explicit st) as [[[e1 e2] e3] e4].
  destruct (nat_token_facts (d_degree d)) as (A & B & C).
  cbn [app apply_options]. cbn [apply_option initial_settings s_struct s_density s_repr s_prec s_n].
  rewrite atoi_digits, C, nat_N_Z by (auto; rewrite C; exact Hdi).
  destruct (Z.of_nat (d_degree d) <=? 0)%Z eqn:E; [lia|]. cbn [bind].
  rewrite apply_options_app, seg_kind. cbn [bind].
  rewrite app_assoc, apply_options_app, seg_struct. cbn [bind].
  rewrite apply_options_app, seg_dens. cbn [bind].
  rewrite seg_prec by exact Hpb. reflexivity.
Qed.

Definition optl (b : bool) (c : nat) : list nat := if b then [c] else [].

Lemma options_classes st d : NoDup (map opt_class (map opt_fv (options_of st d))).
Proof.
  rewrite options_flags. destruct (st_explicit st) as [[[e1 e2] e3] e4].
  assert (E : exists b2 b4 b5 b3 b1,
    map opt_class ([(K_DEGREE, nat_token (d_degree d))] ++ kind_flags (d_kind d) e1 ++ real_flags (d_real d) e2
                   ++ type_flags (d_ctype d) e3 ++ dens_flags (d_sparse d) e4 ++ prec_flags (d_prec d))
    = [0%nat] ++ optl b2 2 ++ optl b4 4 ++ optl b5 5 ++ optl b3 3 ++ optl b1 1).
  { rewrite !map_app.
    assert (E2 : exists b, map opt_class (kind_flags (d_kind d) e1) = optl b 2)
      by (destruct (d_kind d), e1; (exists true; reflexivity) || (exists false; reflexivity)).
    assert (E4 : exists b, map opt_class (real_flags (d_real d) e2) = optl b 4)
      by (destruct (d_real d), e2; (exists true; reflexivity) || (exists false; reflexivity)).
    assert (E5 : exists b, map opt_class (type_flags (d_ctype d) e3) = optl b 5)
      by (destruct (d_ctype d), e3; (exists true; reflexivity) || (exists false; reflexivity)).
    assert (E3 : exists b, map opt_class (dens_flags (d_sparse d) e4) = optl b 3)
      by (destruct (d_sparse d), e4; (exists true; reflexivity) || (exists false; reflexivity)).
    assert (E1 : exists b, map opt_class (prec_flags (d_prec d)) = optl b 1)
      by (destruct (d_prec d); (exists true; reflexivity) || (exists false; reflexivity)).
    destruct E2 as [b2 E2], E4 as [b4 E4], E5 as [b5 E5], E3 as [b3 E3], E1 as [b1 E1].
    exists b2, b4, b5, b3, b1. rewrite E2, E4, E5, E3, E1. reflexivity. }
  destruct E as (b2 & b4 & b5 & b3 & b1 & E). rewrite E.
  destruct b2, b4, b5, b3, b1; cbn; repeat constructor; cbn; intuition discriminate.
Qed.

(* the option phase on the rendered, permuted option section *)
Theorem options_phase_of_render st pi d REST : (1 <= d_degree d)%nat ->
  degree_in_range (Z.of_nat (d_degree d)) -> d_legacy d = false -> prec_bounded d ->
  Forall (fun l => has_char ";" l = false) REST ->
  options_phase (zip_default stripped default_optdeco (permute pi (options_of st d)) (st_opts st) ++ REST) initial_settings
  = Some (target_settings d, REST).
Proof.
  intros Hdeg Hdr Hleg Hpb HR.
  rewrite options_phase_rendered; auto.
  - rewrite map_permute, options_order_irrelevant by apply options_classes.
    rewrite options_settings by assumption. reflexivity.
  - pose proof (options_good st d) as G. eapply Permutation_Forall; [|exact G].
    symmetry. apply permute_perm.
Qed.
