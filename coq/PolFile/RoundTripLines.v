(* C10 / PolFile: what the line reader makes of the rendered lines: fillers vanish, option lines lose
   their comment, token lines give back their tokens (stdlib style). *)
Require Import String Ascii List ZArith NArith Bool Lia ZifyBool.
Require Import MPSV.PolFile.Chars MPSV.PolFile.DecRatModel MPSV.PolFile.PolModel MPSV.PolFile.PolProofs
               MPSV.PolFile.RoundTripText.
Import ListNotations.
Local Open Scope char_scope.

Lemma effective_lines_app a b : effective_lines (a ++ b) = effective_lines a ++ effective_lines b.
Proof. unfold effective_lines. rewrite filter_app, map_app. reflexivity. Qed.

Lemma has_char_spaces c n : (ch_sp =c? c) = false -> has_char c (spaces n) = false.
Proof. intro H. induction n; [reflexivity|]. cbn [spaces repeat has_char existsb]. rewrite H. exact IHn. Qed.

Lemma blank_spaces n : blank (spaces n) = true.
Proof. induction n; [reflexivity|]. cbn [spaces repeat blank forallb]. exact IHn. Qed.

Lemma starts_spaces_app n x : starts_with_bang x = false -> starts_with_bang (spaces n ++ x) = false.
Proof. destruct n; auto. Qed.

Lemma eff_fillers F : Forall (fun l => blank l = true) (effective_lines (map filler_line F)).
Proof.
  induction F as [|f F IH]; [constructor|].
  cbn [map]. change (filler_line f :: map filler_line F) with ([filler_line f] ++ map filler_line F).
  rewrite effective_lines_app. apply Forall_app. split; [|exact IH].
  destruct f as [n|lead body]; cbn [filler_line]; unfold effective_lines; cbn [filter].
  - replace (starts_with_bang (spaces n)) with false by (destruct n; reflexivity). cbn [negb map]. constructor; [|constructor].
    unfold strip_comment. rewrite take_until_none by (apply has_char_spaces; reflexivity). apply blank_spaces.
  - destruct lead as [|lead].
    + cbn. constructor.
    + cbn [spaces repeat app starts_with_bang]. change (ch_sp =c? "!") with false. cbn [negb map].
      constructor; [|constructor]. unfold strip_comment.
      change (ch_sp :: repeat ch_sp lead ++ "!" :: clean body) with (spaces (S lead) ++ "!" :: clean body).
      rewrite take_until_app by (apply has_char_spaces; reflexivity). apply blank_spaces.
Qed.

(* ---- tokens *)

Definition tchar_ok (c : ascii) : Prop :=
  is_space c = false /\ (c =c? "!") = false /\ (c =c? ";") = false.
Definition tok_ok (t : text) : Prop := t <> [] /\ Forall tchar_ok t.

Lemma tokens_aux_tok t : forall cur rest, Forall tchar_ok t ->
  tokens_aux cur (t ++ rest) = tokens_aux (rev t ++ cur) rest.
Proof.
  induction t as [|c t IH]; intros cur rest H; [reflexivity|].
  inversion H as [|? ? [Hc _] Ht]; subst. cbn [app tokens_aux]. rewrite Hc, IH by exact Ht.
  cbn [rev]. rewrite <- app_assoc. reflexivity.
Qed.

Lemma tokens_aux_spaces0 n rest : tokens_aux [] (spaces n ++ rest) = tokens_aux [] rest.
Proof. induction n; auto. Qed.

Lemma tokens_aux_spaces1 cur n rest : cur <> [] ->
  tokens_aux cur (spaces (S n) ++ rest) = rev cur :: tokens_aux [] rest.
Proof.
  intro H. cbn [spaces repeat app tokens_aux]. change (is_space ch_sp) with true. cbv iota.
  destruct cur; [congruence|]. f_equal. apply tokens_aux_spaces0.
Qed.

Lemma tokens_aux_end cur n : cur <> [] -> tokens_aux cur (spaces n) = [rev cur].
Proof.
  intro H. destruct n.
  - cbn. destruct cur; congruence.
  - rewrite <- (app_nil_r (spaces (S n))), tokens_aux_spaces1 by exact H. reflexivity.
Qed.

Lemma rev_nonnil {A} (l : list A) : l <> [] -> rev l <> [].
Proof. destruct l; [congruence|]. intros _ E. cbn in E. apply app_eq_nil in E. destruct E; discriminate. Qed.

Lemma tokens_join toks : forall gaps b, Forall tok_ok toks ->
  tokens_aux [] (join_tokens gaps toks ++ spaces b) = toks.
Proof.
  induction toks as [|t r IH]; intros gaps b H.
  - cbn [join_tokens app]. rewrite <- (app_nil_r (spaces b)), tokens_aux_spaces0. reflexivity.
  - inversion H as [|? ? [Hne Ht] Hr]; subst.
    destruct r as [|t' r'].
    + cbn [join_tokens]. rewrite tokens_aux_tok by exact Ht. rewrite app_nil_r.
      rewrite tokens_aux_end by (apply rev_nonnil; exact Hne). rewrite rev_involutive. reflexivity.
    + assert (E : exists g gs, join_tokens gaps (t :: t' :: r') = t ++ spaces (S g) ++ join_tokens gs (t' :: r')).
      { destruct gaps as [|g gs]; [exists 0%nat, [] | exists g, gs]; reflexivity. }
      destruct E as [g [gs E]]. rewrite E. rewrite <- !app_assoc.
      rewrite tokens_aux_tok by exact Ht. rewrite app_nil_r.
      rewrite tokens_aux_spaces1 by (apply rev_nonnil; exact Hne). rewrite rev_involutive.
      f_equal. apply IH. exact Hr.
Qed.

Lemma has_char_tok c t : Forall tchar_ok t -> (c = "!" \/ c = ";") -> has_char c t = false.
Proof.
  intros H Hc. induction H as [|x t [_ [H1 H2]] _ IH]; [reflexivity|].
  cbn [has_char existsb]. fold (has_char c t). rewrite IH. destruct Hc; subst; rewrite ?H1, ?H2; reflexivity.
Qed.

Lemma has_char_join c toks : forall gaps, Forall tok_ok toks -> (c = "!" \/ c = ";") ->
  has_char c (join_tokens gaps toks) = false.
Proof.
  assert (Hsp : forall n, has_char c (spaces n) = false -> True) by auto.
  induction toks as [|t r IH]; intros gaps H Hc; [reflexivity|].
  inversion H as [|? ? [_ Ht] Hr]; subst.
  assert (S0 : forall n, has_char c (spaces n) = false).
  { intro n. apply has_char_spaces. destruct Hc; subst; reflexivity. }
  destruct r as [|t' r'].
  - cbn [join_tokens]. apply has_char_tok; auto.
  - assert (E : exists g gs, join_tokens gaps (t :: t' :: r') = t ++ spaces (S g) ++ join_tokens gs (t' :: r')).
    { destruct gaps as [|g gs]; [exists 0%nat, [] | exists g, gs]; reflexivity. }
    destruct E as [g [gs E]]. rewrite E, !has_char_app, (has_char_tok c t Ht Hc), S0, IH by auto. reflexivity.
Qed.

Definition tokline (lead : nat) (gaps : list nat) (trail : nat) (toks : list text) : text :=
  spaces lead ++ join_tokens gaps toks ++ spaces trail.

Lemma tokline_tokens lead gaps trail toks : Forall tok_ok toks -> tokens (tokline lead gaps trail toks) = toks.
Proof. intro H. unfold tokens, tokline. rewrite tokens_aux_spaces0. apply tokens_join, H. Qed.

Lemma tokline_no c lead gaps trail toks : Forall tok_ok toks -> (c = "!" \/ c = ";") ->
  has_char c (tokline lead gaps trail toks) = false.
Proof.
  intros H Hc. unfold tokline. rewrite !has_char_app, has_char_join by auto.
  rewrite !has_char_spaces by (destruct Hc; subst; reflexivity). reflexivity.
Qed.

Lemma starts_join gaps toks : Forall tok_ok toks -> starts_with_bang (join_tokens gaps toks ++ []) = false
                              /\ forall x, starts_with_bang (join_tokens gaps toks ++ x) = starts_with_bang (match toks with [] => x | _ => [] end).
Proof.
  intro H. split.
  - rewrite app_nil_r. pose proof (has_char_join "!" toks gaps H (or_introl eq_refl)) as E.
    destruct (join_tokens gaps toks) as [|c r]; [reflexivity|]. cbn in *. apply orb_false_iff in E. tauto.
  - intro x. destruct toks as [|t r]; [reflexivity|]. cbn [starts_with_bang].
    inversion H as [|? ? [Hne Ht] Hr]; subst. destruct t as [|c t]; [congruence|].
    inversion Ht as [|? ? [_ [Hb _]] _]; subst.
    destruct r as [|t' r']; [|destruct gaps]; cbn [join_tokens app starts_with_bang]; exact Hb.
Qed.

(* a line of tokens with its filler lines before it *)
Lemma eff_token_lines toks dc : Forall tok_ok toks -> toks <> [] ->
  effective_lines (token_lines toks dc) =
  effective_lines (map filler_line (ld_pre dc)) ++ [tokline (ld_lead dc) (ld_gaps dc) (ld_trail dc) toks].
Proof.
  intros H Hne. unfold token_lines. rewrite effective_lines_app. f_equal.
  unfold effective_lines. cbn [filter].
  set (L := spaces (ld_lead dc) ++ join_tokens (ld_gaps dc) toks ++ spaces (ld_trail dc) ++ comment_tail (ld_comment dc)).
  assert (SB : starts_with_bang L = false).
  { unfold L. apply starts_spaces_app. destruct (starts_join (ld_gaps dc) toks H) as [_ S2]. rewrite S2.
    destruct toks; [congruence|reflexivity]. }
  rewrite SB. cbn [negb map]. f_equal. unfold L, strip_comment.
  pose proof (tokline_no "!" (ld_lead dc) (ld_gaps dc) (ld_trail dc) toks H (or_introl eq_refl)) as N.
  unfold tokline in *.
  destruct (ld_comment dc) as [cb|]; cbn [comment_tail].
  - replace (spaces (ld_lead dc) ++ join_tokens (ld_gaps dc) toks ++ spaces (ld_trail dc) ++ "!" :: clean cb)
      with ((spaces (ld_lead dc) ++ join_tokens (ld_gaps dc) toks ++ spaces (ld_trail dc)) ++ "!" :: clean cb)
      by (rewrite <- !app_assoc; reflexivity).
    apply take_until_app, N.
  - rewrite app_nil_r. apply take_until_none, N.
Qed.

(* blank lines carry no token and no ';' *)
Lemma blank_no_tokens l : blank l = true -> tokens l = [] /\ has_char ";" l = false.
Proof.
  unfold blank, tokens. induction l as [|c l IH]; intro H; [split; reflexivity|].
  cbn [forallb] in H. apply andb_true_iff in H. destruct H as [H1 H2]. destruct (IH H2) as [A B].
  split.
  - cbn [tokens_aux]. rewrite H1. exact A.
  - cbn [has_char existsb]. fold (has_char ";" l). rewrite B.
    destruct (c =c? ";") eqn:E; auto. apply Ascii.eqb_eq in E. subst. discriminate.
Qed.

Lemma all_tokens_app a b : all_tokens (a ++ b) = all_tokens a ++ all_tokens b.
Proof. unfold all_tokens. rewrite map_app, concat_app. reflexivity. Qed.

Lemma all_tokens_blank ls : Forall (fun l => blank l = true) ls -> all_tokens ls = [].
Proof.
  induction 1 as [|l r Hl _ IH]; [reflexivity|].
  unfold all_tokens in *. cbn [map concat]. rewrite (proj1 (blank_no_tokens l Hl)), IH. reflexivity.
Qed.

Lemma group_concat {A} ks : forall l : list A, concat (group ks l) = l.
Proof.
  induction ks as [|k ks IH]; intros l.
  - destruct l; cbn; [reflexivity|]. rewrite app_nil_r. reflexivity.
  - destruct l as [|x r]; [reflexivity|]. cbn [group concat]. rewrite IH. apply firstn_skipn.
Qed.

Lemma group_nonempty {A} ks : forall l : list A, Forall (fun g => g <> []) (group ks l).
Proof.
  induction ks as [|k ks IH]; intros l.
  - destruct l; cbn; constructor; [discriminate|constructor].
  - destruct l as [|x r]; [constructor|]. cbn [group]. constructor; [cbn; discriminate|apply IH].
Qed.

Lemma group_forall {A} (P : A -> Prop) ks : forall l : list A, Forall P l -> Forall (Forall P) (group ks l).
Proof.
  induction ks as [|k ks IH]; intros l H.
  - destruct l; cbn; constructor; auto.
  - destruct l as [|x r]; [constructor|]. cbn [group].
    rewrite <- (firstn_skipn (S k) (x :: r)) in H. apply Forall_app in H. destruct H as [Ha Hb].
    constructor; [exact Ha | apply IH; exact Hb].
Qed.

(* the coefficient section: its effective lines have no ';' and carry exactly the tokens *)
Lemma eff_token_section groups : forall decos,
  Forall (Forall tok_ok) groups -> Forall (fun g => g <> []) groups ->
  let E := effective_lines (concat (zip_default token_lines default_linedeco groups decos)) in
  all_tokens E = concat groups /\ Forall (fun l => has_char ";" l = false) E.
Proof.
  induction groups as [|g gs IH]; intros decos H1 H2 E; subst E.
  - split; [reflexivity|constructor].
  - inversion H1; subst. inversion H2; subst.
    assert (K : forall dc ds,
      all_tokens (effective_lines (token_lines g dc ++ concat (zip_default token_lines default_linedeco gs ds))) = g ++ concat gs
      /\ Forall (fun l => has_char ";" l = false)
           (effective_lines (token_lines g dc ++ concat (zip_default token_lines default_linedeco gs ds)))).
    { intros dc ds. destruct (IH ds) as [A B]; auto.
      rewrite effective_lines_app, eff_token_lines by auto.
      pose proof (eff_fillers (ld_pre dc)) as F.
      split.
      - rewrite !all_tokens_app, (all_tokens_blank _ F), A. unfold all_tokens at 1. cbn [map concat].
        rewrite tokline_tokens by auto. rewrite app_nil_r. reflexivity.
      - apply Forall_app. split; [apply Forall_app; split|exact B].
        + eapply Forall_impl; [|exact F]. intros l Hl. apply (blank_no_tokens l Hl).
        + constructor; [|constructor]. apply tokline_no; auto. }
    destruct decos as [|dc ds]; cbn [zip_default concat]; cbn [concat]; apply K.
Qed.
