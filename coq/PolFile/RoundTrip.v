(* C10 / PolFile: the composed round trip for 3.x monomial files with Integer / Rational coefficients,
   dense and sparse (stdlib style). *)
Require Import String Ascii List ZArith NArith QArith Bool Lia ZifyBool Permutation.
Require Import MPSV.PolFile.Chars MPSV.PolFile.DecRatModel MPSV.PolFile.PolModel MPSV.PolFile.PolProofs
               MPSV.PolFile.RoundTripText MPSV.PolFile.RoundTripLines MPSV.PolFile.RoundTripOptions
               MPSV.PolFile.RoundTripSettings.
Import ListNotations.
Local Open Scope char_scope.

Definition exact_type (d : polydesc) : Prop := d_ctype d = TInteger \/ d_ctype d = TRational.

(* ---- tokens are well-formed tokens *)

Lemma digit_tchar c : is_digit c = true -> tchar_ok c.
Proof. intro H. repeat split; [apply digit_not_space; auto|apply digit_neq; auto|apply digit_neq; auto]. Qed.

Lemma digits_tchars l : all_digits l -> Forall tchar_ok l.
Proof. intro H. eapply Forall_impl; [|exact H]. intros; apply digit_tchar; auto. Qed.

Lemma unsigned_tchars k n : Forall tchar_ok (zeros k ++ N_digits n).
Proof. apply digits_tchars. apply (unsigned_token_ok k n). Qed.

Lemma Z_token_ok z lz : tok_ok (Z_token z lz).
Proof.
  unfold Z_token. split.
  - intro E. apply app_eq_nil in E. destruct E as [_ E]. apply (proj1 (proj2 (unsigned_token_ok lz (Z.abs_N z))) E).
  - apply Forall_app. split; [|apply unsigned_tchars].
    destruct (z <? 0)%Z; repeat constructor.
Qed.

Lemma nat_token_ok n : tok_ok (nat_token n).
Proof. destruct (nat_token_facts n) as (A & B & _). split; [exact B|apply digits_tchars, A]. Qed.

Lemma num_tokens_ok x : match x with NDec _ => False | _ => True end -> Forall tok_ok (num_tokens false x).
Proof.
  destruct x as [z lz|n lzn dd lzd|l]; intro H; [| |contradiction]; cbn [num_tokens].
  - constructor; [apply Z_token_ok|constructor].
  - constructor; [|constructor]. destruct (Z_token_ok n lzn) as [A B]. split.
    + intro E. apply app_eq_nil in E. tauto.
    + apply Forall_app. split; [exact B|]. constructor; [repeat split|apply unsigned_tchars].
Qed.

Lemma num_exact ct x : (ct = TInteger \/ ct = TRational) -> num_ok ct x -> match x with NDec _ => False | _ => True end.
Proof. intros [E|E] H; subst; destruct x; cbn in *; auto. Qed.

(* ---- reading one coefficient *)

Definition fp_type (d : polydesc) : bool := match d_ctype d with TFloat => true | _ => false end.

(* what the proofs need of the number tokens of a description: they are read back to the canonical
   value, and they are tokens *)
Definition parts_readable (d : polydesc) : Prop :=
  forall x rest, num_ok (d_ctype d) x ->
    read_part (fp_type d) true (part_tokens d x ++ rest) = Some (canon (num_value x), rest).
Definition parts_tokens (d : polydesc) : Prop :=
  forall x, num_ok (d_ctype d) x -> Forall tok_ok (part_tokens d x).

Lemma exact_readable d : d_legacy d = false -> exact_type d -> parts_readable d /\ parts_tokens d.
Proof.
  intros Hleg Hex.
  assert (PE : forall x, part_tokens d x = num_tokens false x) by (intro x; unfold part_tokens; rewrite Hleg; reflexivity).
  assert (FT : fp_type d = false) by (unfold fp_type; destruct Hex as [E|E]; rewrite E; reflexivity).
  split.
  - intros x rest H. rewrite PE, FT.
    destruct (num_token_exact x (num_exact _ _ Hex H)) as [t [E1 E2]]. rewrite E1.
    cbn [app read_part]. rewrite E2. reflexivity.
  - intros x H. rewrite PE. apply num_tokens_ok, (num_exact _ _ Hex H).
Qed.

Section Coeffs.
Variable d : polydesc.
Hypothesis Hread : parts_readable d.
Hypothesis Htoks : parts_tokens d.

Lemma read_part_ok x rest : num_ok (d_ctype d) x ->
  read_part (fp_type d) true (part_tokens d x ++ rest) = Some (canon (num_value x), rest).
Proof. apply Hread. Qed.

Definition value_tokens (t : term) : list text :=
  part_tokens d (t_re t) ++ (if d_real d then [] else part_tokens d (t_im t)).

Lemma read_term_ok t rest : term_ok (d_real d) (d_ctype d) t ->
  read_cplx (fp_type d) true (negb (d_real d)) (value_tokens t ++ rest) = Some (term_val (d_real d) t, rest).
Proof.
  intros [H1 H2]. unfold read_cplx, value_tokens, term_val. rewrite <- app_assoc, read_part_ok by exact H1.
  destruct (d_real d); cbn [negb app].
  - reflexivity.
  - rewrite read_part_ok by (apply H2; reflexivity). reflexivity.
Qed.

Lemma value_tokens_ok t : term_ok (d_real d) (d_ctype d) t -> Forall tok_ok (value_tokens t).
Proof.
  intros [H1 H2]. unfold value_tokens. apply Forall_app. split.
  - apply Htoks, H1.
  - destruct (d_real d); [constructor|]. apply Htoks, (H2 eq_refl).
Qed.

Lemma read_dense_ok ts : forall rest, Forall (term_ok (d_real d) (d_ctype d)) ts ->
  read_dense (read_cplx (fp_type d) true (negb (d_real d))) (length ts) (concat (map value_tokens ts) ++ rest)
  = Some (map (term_val (d_real d)) ts, rest).
Proof.
  induction ts as [|t ts IH]; intros rest H; [reflexivity|].
  inversion H as [|? ? Ht Hts]; subst.
  cbn [length map concat read_dense]. rewrite <- app_assoc, read_term_ok by exact Ht.
  rewrite IH by exact Hts. reflexivity.
Qed.

(* ---- sparse *)

Definition sparse_tokens (t : term) : list text := nat_token (t_idx t) :: value_tokens t.

Definition set_term (arr : list (option (raw * raw))) (t : term) :=
  upd (t_idx t) (Some (term_val (d_real d) t)) arr.

Lemma upd_length {A} i (v : A) l : length (upd i v l) = length l.
Proof. revert i; induction l; intros [|i]; cbn; auto. Qed.

Lemma nth_error_upd_same {A} i (v : A) l : (i < length l)%nat -> nth_error (upd i v l) i = Some v.
Proof. revert i; induction l; intros [|i] H; cbn in *; try lia; auto. apply IHl. lia. Qed.

Lemma nth_error_upd_other {A} i j (v : A) l : i <> j -> nth_error (upd i v l) j = nth_error l j.
Proof. revert i j; induction l; intros [|i] [|j] H; cbn; auto; try congruence. Qed.

Lemma read_sparse_ok check n ts : (Z.of_nat n <= INT_MAX)%Z -> forall fuel arr,
  Forall (term_ok (d_real d) (d_ctype d)) ts ->
  NoDup (map t_idx ts) -> Forall (fun t => (t_idx t <= n)%nat) ts ->
  length arr = S n -> Forall (fun t => nth_error arr (t_idx t) = Some None) ts ->
  (length ts <= fuel)%nat ->
  read_sparse fuel (read_cplx (fp_type d) true (negb (d_real d))) check (Z.of_nat n)
              (concat (map sparse_tokens ts)) arr
  = Some (fold_left set_term ts arr).
Proof.
  intro Hn. induction ts as [|t ts IH]; intros fuel arr Hok Hnd Hle Hlen Hfree Hfuel.
  - destruct fuel; reflexivity.
  - inversion Hok as [|? ? Ht Hts]; subst. inversion Hnd as [|? ? Hnin Hnd']; subst.
    inversion Hle as [|? ? Hi Hle']; subst. inversion Hfree as [|? ? Hf Hfree']; subst.
    destruct fuel as [|fuel]; [cbn in Hfuel; lia|].
    cbn [map concat sparse_tokens app read_sparse].
    destruct (nat_token_facts (t_idx t)) as (A & B & C).
    rewrite scan_int_digits, C, nat_N_Z by (auto; rewrite C, nat_N_Z; lia).
    destruct ((Z.of_nat (t_idx t) <? 0)%Z || (Z.of_nat n <? Z.of_nat (t_idx t))%Z) eqn:E; [lia|].
    rewrite Nat2Z.id, Hf, read_term_ok by exact Ht.
    apply IH; auto.
    + unfold set_term. rewrite upd_length. exact Hlen.
    + apply Forall_forall. intros u Hu. rewrite nth_error_upd_other.
      * apply (proj1 (Forall_forall _ _) Hfree' u Hu).
      * intro E2. apply Hnin. rewrite E2. apply in_map, Hu.
    + cbn in Hfuel. lia.
Qed.

Lemma fold_set_nth ts : forall arr i, NoDup (map t_idx ts) ->
  Forall (fun t => (t_idx t < length arr)%nat) ts ->
  nth_error (fold_left set_term ts arr) i =
  match find_term i ts with Some t => Some (Some (term_val (d_real d) t)) | None => nth_error arr i end.
Proof.
  induction ts as [|t ts IH]; intros arr i Hnd Hlt; [reflexivity|].
  inversion Hnd as [|? ? Hnin Hnd']; subst. inversion Hlt as [|? ? Hi Hlt']; subst.
  cbn [fold_left]. rewrite IH; auto.
  2:{ eapply Forall_impl; [|exact Hlt']. intros u Hu. unfold set_term. rewrite upd_length. exact Hu. }
  unfold find_term. cbn [find]. fold (find_term i ts).
  destruct (Nat.eqb (t_idx t) i) eqn:E.
  - apply Nat.eqb_eq in E. subst i.
    assert (F : find_term (t_idx t) ts = None).
    { unfold find_term. destruct (find (fun t0 => Nat.eqb (t_idx t0) (t_idx t)) ts) eqn:F; auto.
      apply find_some in F. destruct F as [Hin Heq]. apply Nat.eqb_eq in Heq. exfalso. apply Hnin.
      rewrite <- Heq. apply in_map, Hin. }
    rewrite F. unfold set_term. apply nth_error_upd_same. exact Hi.
  - apply Nat.eqb_neq in E. destruct (find_term i ts); auto. unfold set_term. apply nth_error_upd_other, E.
Qed.

End Coeffs.

(* ---- the monomial reader on the rendered coefficient tokens *)

Lemma map_const_repeat {A} (v : A) a m : map (fun _ => v) (seq a m) = repeat v m.
Proof. revert a; induction m; intro a; cbn; [reflexivity|]. f_equal. apply IHm. Qed.

Lemma find_seq {B} (f : term -> B) dflt ts : forall a,
  map t_idx ts = seq a (length ts) ->
  map (fun i => match find_term i ts with Some t => f t | None => dflt end) (seq a (length ts)) = map f ts.
Proof.
  induction ts as [|t ts IH]; intros a H; [reflexivity|].
  cbn [map length seq] in *. injection H as H1 H2. subst a.
  unfold find_term at 1. cbn [find]. rewrite Nat.eqb_refl. f_equal.
  rewrite <- (IH (S (t_idx t))) by exact H2. apply map_ext_in. intros i Hi. apply in_seq in Hi.
  unfold find_term. cbn [find]. replace (Nat.eqb (t_idx t) i) with false by (symmetry; apply Nat.eqb_neq; lia).
  reflexivity.
Qed.

Lemma list_from_nth {A} (l : list A) : forall g, (forall i, (i < length l)%nat -> nth_error l i = Some (g i)) ->
  l = map g (seq 0 (length l)).
Proof.
  induction l as [|x l IH]; intros g H; [reflexivity|].
  cbn [length seq map]. f_equal.
  - specialize (H 0%nat). cbn in H. assert (E : Some x = Some (g 0%nat)) by (apply H; lia). congruence.
  - rewrite <- seq_shift, map_map. apply IH. intros i Hi. apply (H (S i)). cbn. lia.
Qed.

Lemma fold_set_length d ts : forall arr, length (fold_left (set_term d) ts arr) = length arr.
Proof. induction ts as [|t ts IH]; intro arr; [reflexivity|]. cbn [fold_left]. rewrite IH. apply upd_length. Qed.

Lemma nth_error_repeat_lt {A} (v : A) m i : (i < m)%nat -> nth_error (repeat v m) i = Some v.
Proof. revert i; induction m; intros [|i] H; cbn; try lia; auto. apply IHm. lia. Qed.

Lemma concat_length_ge {A B} (f : A -> list B) l : (forall x, (1 <= length (f x))%nat) -> (length l <= length (concat (map f l)))%nat.
Proof. intro H. induction l; cbn; [lia|]. rewrite app_length. specialize (H a). lia. Qed.

Lemma rd_target d :
  read_cplx (is_fp (mk_structure (d_real d) (d_ctype d))) true (is_complex (mk_structure (d_real d) (d_ctype d)))
  = read_cplx (fp_type d) true (negb (d_real d)).
Proof. unfold fp_type. destruct (d_ctype d), (d_real d); reflexivity. Qed.

(* the sparse loop of the monomial and Chebyshev readers on the rendered index/value tokens *)
Lemma sparse_array_ok d check :
  (Z.of_nat (d_degree d) <= INT_MAX)%Z -> parts_readable d -> parts_tokens d ->
  Forall (term_ok (d_real d) (d_ctype d)) (d_terms d) ->
  NoDup (map t_idx (d_terms d)) -> Forall (fun t => (t_idx t <= d_degree d)%nat) (d_terms d) ->
  read_sparse (length (concat (map (sparse_tokens d) (d_terms d)))) (read_cplx (fp_type d) true (negb (d_real d)))
              check (Z.of_nat (d_degree d)) (concat (map (sparse_tokens d) (d_terms d))) (repeat None (S (d_degree d)))
  = Some (map (fun i => match find_term i (d_terms d) with
                        | Some t => Some (term_val (d_real d) t) | None => None end)
              (seq 0 (S (d_degree d)))).
Proof.
  intros Hdi Hread Htoks Hterms Hnd Hle.
  rewrite (read_sparse_ok d Hread check (d_degree d) _ Hdi); auto.
  - f_equal. set (arr := fold_left (set_term d) (d_terms d) (repeat None (S (d_degree d)))).
    assert (Hlen : length arr = S (d_degree d)) by (unfold arr; rewrite fold_set_length, repeat_length; reflexivity).
    rewrite <- Hlen. apply list_from_nth. intros i Hi. unfold arr.
    rewrite (fold_set_nth d); auto.
    + destruct (find_term i (d_terms d)); [reflexivity|]. apply nth_error_repeat_lt. lia.
    + eapply Forall_impl; [|exact Hle]. intros t Ht. rewrite repeat_length. cbn beta in Ht. lia.
  - apply repeat_length.
  - apply Forall_forall. intros t Ht. apply nth_error_repeat_lt.
    pose proof (proj1 (Forall_forall _ _) Hle t Ht) as L. cbn beta in L. lia.
  - apply concat_length_ge. intro t. cbn. lia.
Qed.

Lemma dense_coeffs_ok d : parts_readable d ->
  Forall (term_ok (d_real d) (d_ctype d)) (d_terms d) ->
  map t_idx (d_terms d) = seq 0 (S (d_degree d)) ->
  read_dense (read_cplx (fp_type d) true (negb (d_real d))) (S (d_degree d)) (concat (map (value_tokens d) (d_terms d)))
  = Some (map (fun i => match find_term i (d_terms d) with
                        | Some t => term_val (d_real d) t | None => (raw0, raw0) end) (seq 0 (S (d_degree d))), []).
Proof.
  intros Hread Hterms Hk.
  assert (Hlen : length (d_terms d) = S (d_degree d)).
  { rewrite <- (map_length t_idx), Hk, seq_length. reflexivity. }
  rewrite <- (app_nil_r (concat (map (value_tokens d) (d_terms d)))), <- Hlen.
  rewrite (read_dense_ok d Hread) by exact Hterms.
  do 2 f_equal. symmetry. apply find_seq. rewrite Hk, Hlen. reflexivity.
Qed.

Theorem read_monomial_ok d :
  wf d -> d_kind d = KMonomial -> parts_readable d -> parts_tokens d ->
  read_monomial (target_settings d) (coeff_tokens d) = Poly (denote d).
Proof.
  intros (Hdeg & Hterms & _ & Hk & _ & Hdr & _) Hkind Hread Htoks.
  assert (Hdi : (Z.of_nat (d_degree d) <= INT_MAX)%Z) by (unfold degree_in_range in Hdr; lia).
  rewrite Hkind in Hk. destruct Hk as [Hb Hk].
  unfold read_monomial, target_settings, coeff_tokens, denote. rewrite Hkind.
  cbn [s_n s_struct s_density s_repr s_prec]. rewrite Nat2Z.id, rd_target.
  destruct (d_sparse d) eqn:Hsp.
  - destruct Hk as (Hnd & Hle & Hne).
    change (concat (map (term_tokens d true) (d_terms d))) with (concat (map (sparse_tokens d) (d_terms d))).
    rewrite (sparse_array_ok d true) by auto.
    f_equal. unfold mk_poly. cbn [s_n s_struct s_density s_repr s_prec]. cbv iota.
    unfold arr_spar, arr_coeffs. rewrite !map_map.
    f_equal; apply map_ext; intro i; destruct (find_term i (d_terms d)); reflexivity.
  - change (concat (map (term_tokens d false) (d_terms d))) with (concat (map (value_tokens d) (d_terms d))).
    rewrite dense_coeffs_ok by auto.
    f_equal. unfold mk_poly. cbn [s_n s_struct s_density s_repr s_prec]. cbv iota.
    rewrite map_const_repeat. reflexivity.
Qed.

Theorem read_chebyshev_ok d :
  wf d -> d_kind d = KChebyshev -> parts_readable d -> parts_tokens d ->
  read_chebyshev (target_settings d) (coeff_tokens d) = Poly (denote d).
Proof.
  intros (Hdeg & Hterms & _ & Hk & _ & Hdr & _) Hkind Hread Htoks.
  assert (Hdi : (Z.of_nat (d_degree d) <= INT_MAX)%Z) by (unfold degree_in_range in Hdr; lia).
  rewrite Hkind in Hk. destruct Hk as [Hb Hk].
  unfold read_chebyshev, target_settings, coeff_tokens, denote. rewrite Hkind.
  cbn [s_n s_struct s_density s_repr s_prec]. rewrite Nat2Z.id, rd_target.
  destruct (d_sparse d) eqn:Hsp.
  - destruct Hk as (Hnd & Hle & Hne).
    change (concat (map (term_tokens d true) (d_terms d))) with (concat (map (sparse_tokens d) (d_terms d))).
    rewrite (sparse_array_ok d false) by auto.
    f_equal. unfold mk_poly. cbn [s_n s_struct s_density s_repr s_prec]. cbv iota.
    unfold arr_coeffs. rewrite !map_map.
    f_equal; apply map_ext; intro i; destruct (find_term i (d_terms d)); reflexivity.
  - change (concat (map (term_tokens d false) (d_terms d))) with (concat (map (value_tokens d) (d_terms d))).
    rewrite dense_coeffs_ok by auto. reflexivity.
Qed.

Lemma secular_pairs_ok d : parts_readable d -> forall ts bs,
  Forall (term_ok (d_real d) (d_ctype d)) ts -> Forall (term_ok (d_real d) (d_ctype d)) bs ->
  length ts = length bs ->
  read_secular_pairs (read_cplx (fp_type d) true (negb (d_real d))) (length ts)
    (concat (map (fun ab => value_tokens d (fst ab) ++ value_tokens d (snd ab)) (zip_terms ts bs)))
  = Some (map (term_val (d_real d)) ts, map (term_val (d_real d)) bs).
Proof.
  intros Hread ts. induction ts as [|t ts IH]; intros bs Ht Hb Hl; destruct bs as [|b bs]; try discriminate; [reflexivity|].
  inversion Ht; subst. inversion Hb; subst. cbn [length] in Hl.
  cbn [zip_terms map concat fst snd length read_secular_pairs].
  rewrite <- !app_assoc, (read_term_ok d Hread), (read_term_ok d Hread) by assumption.
  rewrite IH by (auto; lia). reflexivity.
Qed.

Theorem read_secular_ok d :
  wf d -> d_kind d = KSecular -> parts_readable d -> parts_tokens d ->
  read_secular (target_settings d) (coeff_tokens d) = Poly (denote d).
Proof.
  intros (Hdeg & Hterms & Hbterms & Hk & _) Hkind Hread Htoks.
  rewrite Hkind in Hk. destruct Hk as [Hl1 Hl2].
  unfold read_secular, target_settings, coeff_tokens, denote. rewrite Hkind.
  cbn [s_n s_struct s_density s_repr s_prec]. rewrite Nat2Z.id, rd_target.
  change (concat (map (fun ab => term_tokens d false (fst ab) ++ term_tokens d false (snd ab)) (zip_terms (d_terms d) (d_bterms d))))
    with (concat (map (fun ab => value_tokens d (fst ab) ++ value_tokens d (snd ab)) (zip_terms (d_terms d) (d_bterms d)))).
  rewrite <- Hl1 at 1. rewrite secular_pairs_ok by (auto; lia). reflexivity.
Qed.

(* ---- no rendered line contains a newline *)

Lemma nonspace_no_nl c : is_space c = false -> (c =c? ch_nl) = false.
Proof. intro H. destruct (c =c? ch_nl) eqn:E; auto. apply Ascii.eqb_eq in E. subst. discriminate. Qed.

Lemma no_nl_spaces n : no_nl (spaces n).
Proof. apply has_char_spaces. reflexivity. Qed.

Lemma no_nl_clean b : no_nl (clean b).
Proof.
  unfold no_nl, clean. induction b as [|c b IH]; [reflexivity|]. cbn [filter].
  destruct (c =c? ch_nl) eqn:E; cbn [orb negb]; [exact IH|].
  destruct (c =c? "000"); cbn [negb]; [exact IH|]. cbn [has_char existsb]. rewrite E. exact IH.
Qed.

Lemma no_nl_app2 a b : no_nl a -> no_nl b -> no_nl (a ++ b).
Proof. unfold no_nl. intros. rewrite has_char_app, H, H0. reflexivity. Qed.

Lemma no_nl_cons c l : (c =c? ch_nl) = false -> no_nl l -> no_nl (c :: l).
Proof. unfold no_nl. intros. cbn [has_char existsb]. rewrite H. exact H0. Qed.

Lemma no_nl_comment_tail c : no_nl (comment_tail c).
Proof. destruct c; [apply no_nl_cons; [reflexivity|apply no_nl_clean]|reflexivity]. Qed.

Lemma no_nl_filler f : no_nl (filler_line f).
Proof.
  destruct f; cbn [filler_line]; [apply no_nl_spaces|].
  apply no_nl_app2; [apply no_nl_spaces|apply no_nl_cons; [reflexivity|apply no_nl_clean]].
Qed.

Lemma no_nl_fillers F : Forall no_nl (map filler_line F).
Proof. induction F; constructor; auto using no_nl_filler. Qed.

Lemma no_nl_tchars t : Forall tchar_ok t -> no_nl t.
Proof. induction 1 as [|c t [Hc _] _ IH]; [reflexivity|]. apply no_nl_cons; [apply nonspace_no_nl, Hc|exact IH]. Qed.

Lemma no_nl_join toks : forall gaps, Forall tok_ok toks -> no_nl (join_tokens gaps toks).
Proof.
  induction toks as [|t r IH]; intros gaps H; [reflexivity|].
  inversion H as [|? ? [_ Ht] Hr]; subst. destruct r as [|t' r'].
  - cbn [join_tokens]. apply no_nl_tchars, Ht.
  - assert (E : exists g gs, join_tokens gaps (t :: t' :: r') = t ++ spaces (S g) ++ join_tokens gs (t' :: r')).
    { destruct gaps as [|g gs]; [exists 0%nat, [] | exists g, gs]; reflexivity. }
    destruct E as [g [gs E]]. rewrite E.
    apply no_nl_app2; [apply no_nl_tchars, Ht|apply no_nl_app2; [apply no_nl_spaces|apply IH, Hr]].
Qed.

Lemma no_nl_token_lines toks dc : Forall tok_ok toks -> Forall no_nl (token_lines toks dc).
Proof.
  intro H. unfold token_lines. apply Forall_app. split; [apply no_nl_fillers|].
  constructor; [|constructor].
  repeat apply no_nl_app2; auto using no_nl_spaces, no_nl_join, no_nl_comment_tail.
Qed.

Lemma no_nl_okc l : forallb okc l = true -> no_nl l.
Proof.
  induction l as [|c l IH]; intro H; [reflexivity|]. cbn [forallb] in H. apply andb_true_iff in H. destruct H as [H1 H2].
  apply no_nl_cons; [apply nonspace_no_nl, (okc_facts c H1)|apply IH, H2].
Qed.

Lemma no_nl_opt_text o dc : opt_good o -> no_nl (opt_text o dc).
Proof.
  destruct o as [k|k v]; cbn [opt_good opt_text].
  - intro H. destruct (keyword_okc k H) as (Hok & _ & _). apply no_nl_okc. rewrite okc_case. exact Hok.
  - intros [Hk [Hv _]].
    assert (Hok : forallb okc k = true) by (destruct Hk; subst k; reflexivity).
    apply no_nl_app2; [apply no_nl_okc; rewrite okc_case; exact Hok|].
    apply no_nl_app2; [apply no_nl_spaces|]. apply no_nl_cons; [reflexivity|].
    apply no_nl_app2; [apply no_nl_spaces|apply no_nl_okc, digits_okc, Hv].
Qed.

Lemma no_nl_option_lines o dc : opt_good o -> Forall no_nl (option_lines o dc).
Proof.
  intro H. unfold option_lines. apply Forall_app. split.
  - induction (od_pre dc); constructor; auto. apply no_nl_cons; [reflexivity|apply no_nl_clean].
  - constructor; [|constructor].
    apply no_nl_app2; [apply no_nl_spaces|]. apply no_nl_app2; [apply no_nl_opt_text, H|].
    apply no_nl_app2; [apply no_nl_spaces|]. apply no_nl_cons; [reflexivity|].
    apply no_nl_app2; [apply no_nl_spaces|apply no_nl_comment_tail].
Qed.

Lemma forall_zip_concat {A B} (f : A -> B -> list text) (P : A -> Prop) dflt l :
  (forall x y, P x -> Forall no_nl (f x y)) -> Forall P l ->
  forall ds, Forall no_nl (concat (zip_default f dflt l ds)).
Proof.
  intros Hf H. induction H as [|x l Hx _ IH]; intro ds; [constructor|].
  destruct ds; cbn [zip_default concat]; apply Forall_app; split; auto.
Qed.

(* ---- assembly *)

Lemma skipws_prefix ws l r : Forall (fun x => blank x = true) ws -> blank l = false ->
  skipws (ws ++ l :: r) = ltrim l :: r.
Proof. intros H Hl. induction H as [|x ws Hx _ IH]; cbn [app skipws]; [rewrite Hl|rewrite Hx]; auto. Qed.

Lemma has_semicolon_not_blank l : has_char ";" l = true -> blank l = false.
Proof. intro H. destruct (blank l) eqn:E; auto. destruct (blank_no_tokens l E) as [_ N]. congruence. Qed.

Lemma term_tokens_ok d b t : parts_tokens d -> term_ok (d_real d) (d_ctype d) t -> Forall tok_ok (term_tokens d b t).
Proof.
  intros Htoks Ht. unfold term_tokens. apply Forall_app. split.
  - destruct b; [constructor; [apply nat_token_ok|constructor]|constructor].
  - apply (value_tokens_ok d Htoks t Ht).
Qed.

Lemma coeff_tokens_ok d : wf d -> parts_tokens d -> Forall tok_ok (coeff_tokens d).
Proof.
  intros (_ & Hterms & Hbterms & _) Htoks. unfold coeff_tokens.
  assert (G : forall b ts, Forall (term_ok (d_real d) (d_ctype d)) ts -> Forall tok_ok (concat (map (term_tokens d b) ts))).
  { intros b ts H. induction H as [|t ts Ht _ IH]; [constructor|]. cbn [map concat]. apply Forall_app. split; [|exact IH].
    apply term_tokens_ok; auto. }
  destruct (d_kind d); [apply G, Hterms| |apply G, Hterms].
  revert Hbterms. generalize (d_bterms d). induction Hterms as [|t ts Ht _ IH]; intros bs Hbs; [constructor|].
  destruct bs as [|b bs]; [constructor|]. inversion Hbs; subst.
  cbn [zip_terms map concat fst snd].
  apply Forall_app; split; [apply Forall_app; split; apply term_tokens_ok; auto | apply IH; auto].
Qed.

(* every 3.x file: from the text to the coefficient reader of its kind, with the settings of d *)
Theorem parse_render_v3 st pi d :
  (1 <= d_degree d)%nat -> degree_in_range (Z.of_nat (d_degree d)) -> prec_bounded d ->
  d_legacy d = false -> Forall tok_ok (coeff_tokens d) ->
  parse (render st pi d) =
  match d_kind d with
  | KSecular => read_secular (target_settings d) (coeff_tokens d)
  | KChebyshev => read_chebyshev (target_settings d) (coeff_tokens d)
  | KMonomial => read_monomial (target_settings d) (coeff_tokens d)
  end.
Proof.
  intros Hdeg Hdr Hpb Hleg Htoks.
  pose proof (options_good st d) as Hgood.
  assert (Hgoodp : Forall opt_good (permute pi (options_of st d))).
  { eapply Permutation_Forall; [|exact Hgood]. symmetry. apply permute_perm. }
  set (groups := group (st_chunks st) (coeff_tokens d)).
  assert (Hg1 : Forall (Forall tok_ok) groups) by (apply group_forall, Htoks).
  assert (Hg2 : Forall (fun g => g <> []) groups) by apply group_nonempty.
  unfold parse, render.
  assert (RL : render_lines st pi d =
               map filler_line (st_header st)
               ++ (concat (zip_default option_lines default_optdeco (permute pi (options_of st d)) (st_opts st))
                   ++ map filler_line (st_sep st))
               ++ concat (zip_default token_lines default_linedeco groups (st_lines st))
               ++ map filler_line (st_trailer st)).
  { unfold render_lines. rewrite Hleg. reflexivity. }
  rewrite RL. clear RL.
  rewrite parse_lines.
  2:{ repeat (apply Forall_app; split); try apply no_nl_fillers.
      - apply (forall_zip_concat option_lines opt_good); auto using no_nl_option_lines.
      - apply (forall_zip_concat token_lines (Forall tok_ok)); auto using no_nl_token_lines. }
  rewrite !effective_lines_app, eff_option_section by exact Hgoodp.
  set (OL := zip_default stripped default_optdeco (permute pi (options_of st d)) (st_opts st)).
  set (REST := effective_lines (map filler_line (st_sep st))
               ++ effective_lines (concat (zip_default token_lines default_linedeco groups (st_lines st)))
               ++ effective_lines (map filler_line (st_trailer st))).
  destruct (eff_token_section groups (st_lines st) Hg1 Hg2) as [TK NS].
  assert (HREST : Forall (fun l => has_char ";" l = false) REST).
  { unfold REST. repeat (apply Forall_app; split); auto;
      (eapply Forall_impl; [|apply eff_fillers]); intros l Hl; apply (blank_no_tokens l Hl). }
  assert (HTOK : all_tokens REST = coeff_tokens d).
  { unfold REST. rewrite !all_tokens_app, TK, !(all_tokens_blank _ (eff_fillers _)).
    unfold groups. rewrite group_concat, app_nil_r. reflexivity. }
  assert (HOL : exists o1 OL', OL = o1 :: OL' /\ has_char ";" o1 = true).
  { unfold OL. pose proof (Permutation_length (permute_perm pi (options_of st d))) as PL.
    destruct (permute pi (options_of st d)) as [|o os] eqn:EP.
    - unfold options_of in PL. destruct (st_explicit st) as [[[? ?] ?] ?]. cbn in PL. lia.
    - destruct (st_opts st); cbn [zip_default]; eexists; eexists; (split; [reflexivity|apply stripped_has_semicolon]). }
  destruct HOL as (o1 & OL' & EOL & Hsemi).
  replace (effective_lines (map filler_line (st_header st)) ++ (OL ++ effective_lines (map filler_line (st_sep st)))
           ++ effective_lines (concat (zip_default token_lines default_linedeco groups (st_lines st)))
           ++ effective_lines (map filler_line (st_trailer st)))
    with (effective_lines (map filler_line (st_header st)) ++ o1 :: (OL' ++ REST))
    by (rewrite EOL; unfold REST; rewrite <- !app_assoc; reflexivity).
  rewrite skipws_prefix by (apply eff_fillers || apply has_semicolon_not_blank, Hsemi).
  rewrite has_char_ltrim, Hsemi.
  unfold parse_v3. rewrite options_phase_ltrim by exact Hsemi.
  change (o1 :: OL' ++ REST) with ((o1 :: OL') ++ REST). rewrite <- EOL. unfold OL.
  rewrite options_phase_of_render by auto.
  change (s_n (target_settings d)) with (Z.of_nat (d_degree d)).
  change (s_repr (target_settings d)) with (d_kind d).
  destruct (Z.of_nat (d_degree d) =? -1)%Z eqn:E; [lia|].
  rewrite HTOK. destruct (d_kind d); reflexivity.
Qed.

(* the composed round trip for every 3.x description whose number tokens are readable *)
Theorem parse_render_3x st pi d :
  wf d -> d_legacy d = false -> parts_readable d -> parts_tokens d ->
  parse (render st pi d) = Poly (denote d).
Proof.
  intros Hwf Hleg Hread Htoks.
  rewrite parse_render_v3; [|apply Hwf|apply Hwf|apply Hwf|exact Hleg|apply coeff_tokens_ok; auto].
  destruct (d_kind d) eqn:K.
  - apply read_monomial_ok; auto.
  - apply read_secular_ok; auto.
  - apply read_chebyshev_ok; auto.
Qed.

Theorem parse_render_exact st pi d :
  wf d -> d_legacy d = false -> exact_type d -> parse (render st pi d) = Poly (denote d).
Proof.
  intros Hwf Hleg Hex. destruct (exact_readable d Hleg Hex). apply parse_render_3x; auto.
Qed.

Theorem parse_render_monomial_exact st pi d :
  wf d -> d_legacy d = false -> d_kind d = KMonomial -> exact_type d ->
  parse (render st pi d) = Poly (denote d).
Proof. intros. apply parse_render_exact; auto. Qed.

(* ---- floating-point literals: mpf_set_str's value on a rendered literal is the literal's value *)

Lemma span_digits_app ds rest : all_digits ds ->
  match rest with [] => True | c :: _ => is_digit c = false end ->
  span_digits (ds ++ rest) = (ds, rest).
Proof.
  intros H Hr. induction H as [|c ds Hc _ IH].
  - cbn [app]. destruct rest as [|c r]; [reflexivity|]. cbn [span_digits]. rewrite Hr. reflexivity.
  - cbn [app span_digits]. rewrite Hc, IH. reflexivity.
Qed.

Lemma parse_expo_render e : wf_expo true e -> parse_expo (render_expo e) = Some e.
Proof.
  destruct e as [[m sg dg]|]; [|reflexivity]. cbn [wf_expo ex_mark ex_digits render_expo ex_sign].
  intros (Hm & Hd & Hne).
  assert (Hmark : ((m =c? "e") || (m =c? "E") || (m =c? "@")) = true).
  { destruct Hm as [E|[E|[_ E]]]; subst m; reflexivity. }
  unfold parse_expo. rewrite Hmark.
  assert (SD : span_digits dg = (dg, [])).
  { rewrite <- (app_nil_r dg) at 1. apply span_digits_app; auto. }
  assert (NS : match dg with
               | c :: r' => if c =c? "+" then (EPlus, r') else if c =c? "-" then (EMinus, r') else (ENone, dg)
               | [] => (ENone, dg) end = (ENone, dg)).
  { destruct dg as [|c0 dg0]; [reflexivity|]. inversion Hd; subst.
    rewrite !(digit_neq c0 _ H1) by reflexivity. reflexivity. }
  destruct sg; cbn [render_esign app].
  - clear NS. destruct dg as [|c0 dg0]; [congruence|]. inversion Hd; subst.
    rewrite !(digit_neq c0 _ H1) by reflexivity. rewrite SD. reflexivity.
  - change ("+" =c? "+") with true. cbv iota. rewrite SD. destruct dg; [congruence|reflexivity].
  - change ("-" =c? "+") with false. change ("-" =c? "-") with true. cbv iota. rewrite SD. destruct dg; [congruence|reflexivity].
Qed.

Lemma expo_head e : wf_expo true e -> match render_expo e with [] => True | c :: _ => is_digit c = false end.
Proof.
  destruct e as [[m sg dg]|]; [|exact (fun _ => I)]. cbn [wf_expo ex_mark render_expo].
  intros (Hm & _). destruct Hm as [E|[E|[_ E]]]; subst m; reflexivity.
Qed.

Theorem parse_declit_render l : wf_file_lit l -> parse_declit (render_declit l) = Some l.
Proof.
  destruct l as [sg ip dot fp ex]. unfold wf_file_lit, wf_body, render_declit.
  cbn [dl_sign dl_int dl_dot dl_frac dl_exp].
  intros (Hs & (Hi & Hf & Hdot & Hne) & He).
  pose proof (parse_expo_render ex He) as PE. pose proof (expo_head ex He) as EH.
  set (tailx := render_expo ex) in *.
  set (dotpart := (if dot then "." :: fp else []) ++ tailx).
  assert (Hhead : match dotpart with [] => True | c :: _ => is_digit c = false end).
  { unfold dotpart. destruct dot; [reflexivity|exact EH]. }
  assert (Core : forall sg0,
     (let (ip0, r1) := span_digits (ip ++ dotpart) in
      let '(dot0, fp0, r2) := match r1 with
            | c :: r' => if c =c? "." then let (f, r'') := span_digits r' in (true, f, r'') else (false, [], r1)
            | [] => (false, [], r1) end in
      match ip0 ++ fp0 with
      | [] => None
      | _ => match parse_expo r2 with
             | Some e => Some {| dl_sign := sg0; dl_int := ip0; dl_dot := dot0; dl_frac := fp0; dl_exp := e |}
             | None => None end
      end) = Some {| dl_sign := sg0; dl_int := ip; dl_dot := dot; dl_frac := fp; dl_exp := ex |}).
  { intro sg0. rewrite span_digits_app by assumption. unfold dotpart.
    destruct dot.
    - cbn [app]. rewrite Ascii.eqb_refl. rewrite span_digits_app by assumption.
      destruct (ip ++ fp) eqn:E; [congruence|]. rewrite PE. reflexivity.
    - rewrite (Hdot eq_refl) in *. cbn [app].
      destruct tailx as [|c r] eqn:ET.
      + rewrite app_nil_r in *. destruct ip; [congruence|]. cbn [parse_expo] in *. inversion PE. reflexivity.
      + assert (Ec : (c =c? ".") = false).
        { destruct ex as [[m s0 dg]|]; [|discriminate]. cbn [render_expo ex_mark] in ET. inversion ET; subst c.
          destruct He as (Hm & _). cbn [ex_mark] in Hm. destruct Hm as [E|[E|[_ E]]]; subst m; reflexivity. }
        rewrite Ec. rewrite app_nil_r in *. destruct ip; [congruence|]. cbn [app]. rewrite PE. reflexivity. }
  replace (sg ++ ip ++ (if dot then "." :: fp else []) ++ tailx) with (sg ++ ip ++ dotpart) by reflexivity.
  unfold parse_declit.
  destruct Hs as [Es|Es]; subst sg; cbn [app].
  - assert (Hfirst : match ip ++ dotpart with c :: _ => (c =c? "-") = false | [] => True end).
    { destruct ip as [|c ip']; cbn [app].
      - unfold dotpart. destruct dot; [reflexivity|]. rewrite (Hdot eq_refl) in Hne. cbn in Hne. congruence.
      - inversion Hi; subst. apply digit_neq; auto. }
    destruct (ip ++ dotpart) as [|c r] eqn:E.
    + exfalso. apply app_eq_nil in E. destruct E as [E1 E2]. subst ip. unfold dotpart in E2.
      destruct dot; [discriminate|]. rewrite (Hdot eq_refl) in Hne. cbn in Hne. congruence.
    + rewrite Hfirst. apply Core.
  - rewrite Ascii.eqb_refl. apply Core.
Qed.

Lemma declit_tchars l : wf_file_lit l -> tok_ok (render_declit l).
Proof.
  destruct l as [sg ip dot fp ex]. unfold wf_file_lit, wf_body, render_declit.
  cbn [dl_sign dl_int dl_dot dl_frac dl_exp].
  intros (Hs & (Hi & Hf & Hdot & Hne) & He). split.
  - intro E. apply app_eq_nil in E. destruct E as [_ E]. apply app_eq_nil in E. destruct E as [E1 E].
    apply app_eq_nil in E. destruct E as [E2 _]. subst ip. destruct dot; [discriminate|].
    rewrite (Hdot eq_refl) in Hne. cbn in Hne. congruence.
  - repeat (apply Forall_app; split).
    + destruct Hs as [E|E]; subst sg; repeat constructor.
    + apply digits_tchars, Hi.
    + destruct dot; [constructor; [repeat split|apply digits_tchars, Hf]|constructor].
    + destruct ex as [[m s0 dg]|]; [|constructor]. cbn [wf_expo ex_mark ex_digits render_expo ex_sign] in *.
      destruct He as (Hm & Hd & _). constructor.
      * destruct Hm as [E|[E|[_ E]]]; subst m; repeat split.
      * apply Forall_app; split; [destruct s0; repeat constructor|apply digits_tchars, Hd].
Qed.

Lemma float_readable d : d_ctype d = TFloat -> parts_readable d /\ parts_tokens d.
Proof.
  intro Hct. split.
  - intros x rest H. rewrite Hct in H. destruct x as [| |l]; cbn [num_ok] in H; try contradiction.
    unfold fp_type, part_tokens. rewrite Hct. destruct (d_legacy d); cbn [andb num_tokens app read_part];
      unfold decimal_value; rewrite parse_declit_render by exact H; cbn [option_map];
      unfold canon, qraw, num_value, declit_value; rewrite Qcanon.Qred_involutive; reflexivity.
  - intros x H. rewrite Hct in H. destruct x as [| |l]; cbn [num_ok] in H; try contradiction.
    unfold part_tokens. destruct (d_legacy d && _); cbn [num_tokens]; (constructor; [apply declit_tchars, H|constructor]).
Qed.

(* the composed round trip for 3.x floating-point files of every kind: the model parser keeps the exact
   decimal value (rounding to the mpf precision is C10_float_within_prec's business) *)
Theorem parse_render_float st pi d :
  wf d -> d_legacy d = false -> d_ctype d = TFloat -> parse (render st pi d) = Poly (denote d).
Proof.
  intros Hwf Hleg Hct. destruct (float_readable d Hct). apply parse_render_3x; auto.
Qed.

(* every 3.x description: monomial, secular, Chebyshev; Integer, Rational, FloatingPoint; dense, sparse *)
Theorem parse_render_all_3x st pi d :
  wf d -> d_legacy d = false -> parse (render st pi d) = Poly (denote d).
Proof.
  intros Hwf Hleg. destruct (d_ctype d) eqn:Ect.
  - apply parse_render_exact; auto. left; exact Ect.
  - apply parse_render_exact; auto. right; exact Ect.
  - apply parse_render_float; auto.
Qed.
