(* C10 / PolFile: the composed round trip for 3.x monomial files with Integer / Rational coefficients,
   dense and sparse (stdlib style). *)
Require Import String Ascii List ZArith NArith QArith Bool Lia ZifyBool Permutation.
Require Import MPSV.PolFile.Chars MPSV.PolFile.DecRatModel MPSV.PolFile.PolModel MPSV.PolFile.PolProofs
               MPSV.PolFile.RoundTripText MPSV.PolFile.RoundTripLines MPSV.PolFile.RoundTripOptions
               MPSV.PolFile.RoundTripSettings.
Import ListNotations.
Local Open Scope char_scope.

Definition exact_type (d : polydesc) : Prop := d_ctype d = TInteger \/ d_ctype d = TRational.

(* ---- tokens are well-formed tokens *)

Lemma digit_tchar c : is_digit c = true -> tchar_ok c.
Proof. intro H. repeat split; [apply digit_not_space; auto|apply digit_neq; auto|apply digit_neq; auto]. Qed.

Lemma digits_tchars l : all_digits l -> Forall tchar_ok l.
Proof. intro H. eapply Forall_impl; [|exact H]. intros; apply digit_tchar; auto. Qed.

Lemma unsigned_tchars k n : Forall tchar_ok (zeros k ++ N_digits n).
Proof. apply digits_tchars. apply (unsigned_token_ok k n). Qed.

Lemma Z_token_ok z lz : tok_ok (Z_token z lz).
Proof.
  unfold Z_token. split.
  - intro E. apply app_eq_nil in E. destruct E as [_ E]. apply (proj1 (proj2 (unsigned_token_ok lz (Z.abs_N z))) E).
  - apply Forall_app. split; [|apply unsigned_tchars].
    destruct (z <? 0)%Z; repeat constructor.
Qed.

Lemma nat_token_ok n : tok_ok (nat_token n).
Proof. destruct (nat_token_facts n) as (A & B & _). split; [exact B|apply digits_tchars, A]. Qed.

Lemma num_tokens_ok x : match x with NDec _ => False | _ => True end -> Forall tok_ok (num_tokens false x).
Proof.
  destruct x as [z lz|n lzn dd lzd|l]; intro H; [| |contradiction]; cbn [num_tokens].
  - constructor; [apply Z_token_ok|constructor].
  - constructor; [|constructor]. destruct (Z_token_ok n lzn) as [A B]. split.
    + intro E. apply app_eq_nil in E. tauto.
    + apply Forall_app. split; [exact B|]. constructor; [repeat split|apply unsigned_tchars].
Qed.

Lemma num_exact ct x : (ct = TInteger \/ ct = TRational) -> num_ok ct x -> match x with NDec _ => False | _ => True end.
Proof. intros [E|E] H; subst; destruct x; cbn in *; auto. Qed.

(* ---- reading one coefficient *)

Section Coeffs.
Variable d : polydesc.
Hypothesis Hleg : d_legacy d = false.
Hypothesis Hex : exact_type d.

Lemma part_tokens_eq x : part_tokens d x = num_tokens false x.
Proof. unfold part_tokens. rewrite Hleg. reflexivity. Qed.

Lemma read_part_ok x rest : num_ok (d_ctype d) x ->
  read_part false true (part_tokens d x ++ rest) = Some (canon (num_value x), rest).
Proof.
  intro H. rewrite part_tokens_eq.
  destruct (num_token_exact x (num_exact _ _ Hex H)) as [t [E1 E2]]. rewrite E1.
  cbn [app read_part]. rewrite E2. reflexivity.
Qed.

Definition value_tokens (t : term) : list text :=
  part_tokens d (t_re t) ++ (if d_real d then [] else part_tokens d (t_im t)).

Lemma read_term_ok t rest : term_ok (d_real d) (d_ctype d) t ->
  read_cplx false true (negb (d_real d)) (value_tokens t ++ rest) = Some (term_val (d_real d) t, rest).
Proof.
  intros [H1 H2]. unfold read_cplx, value_tokens, term_val. rewrite <- app_assoc, read_part_ok by exact H1.
  destruct (d_real d); cbn [negb app].
  - reflexivity.
  - rewrite read_part_ok by (apply H2; reflexivity). reflexivity.
Qed.

Lemma value_tokens_ok t : term_ok (d_real d) (d_ctype d) t -> Forall tok_ok (value_tokens t).
Proof.
  intros [H1 H2]. unfold value_tokens. rewrite !part_tokens_eq. apply Forall_app. split.
  - apply num_tokens_ok, (num_exact _ _ Hex H1).
  - destruct (d_real d); [constructor|]. apply num_tokens_ok, (num_exact _ _ Hex (H2 eq_refl)).
Qed.

Lemma read_dense_ok ts : forall rest, Forall (term_ok (d_real d) (d_ctype d)) ts ->
  read_dense (read_cplx false true (negb (d_real d))) (length ts) (concat (map value_tokens ts) ++ rest)
  = Some (map (term_val (d_real d)) ts, rest).
Proof.
  induction ts as [|t ts IH]; intros rest H; [reflexivity|].
  inversion H as [|? ? Ht Hts]; subst.
  cbn [length map concat read_dense]. rewrite <- app_assoc, read_term_ok by exact Ht.
  rewrite IH by exact Hts. reflexivity.
Qed.

(* ---- sparse *)

Definition sparse_tokens (t : term) : list text := nat_token (t_idx t) :: value_tokens t.

Definition set_term (arr : list (option (raw * raw))) (t : term) :=
  upd (t_idx t) (Some (term_val (d_real d) t)) arr.

Lemma upd_length {A} i (v : A) l : length (upd i v l) = length l.
Proof. revert i; induction l; intros [|i]; cbn; auto. Qed.

Lemma nth_error_upd_same {A} i (v : A) l : (i < length l)%nat -> nth_error (upd i v l) i = Some v.
Proof. revert i; induction l; intros [|i] H; cbn in *; try lia; auto. apply IHl. lia. Qed.

Lemma nth_error_upd_other {A} i j (v : A) l : i <> j -> nth_error (upd i v l) j = nth_error l j.
Proof. revert i j; induction l; intros [|i] [|j] H; cbn; auto; try congruence. Qed.

Lemma read_sparse_ok check n ts : forall fuel arr,
  Forall (term_ok (d_real d) (d_ctype d)) ts ->
  NoDup (map t_idx ts) -> Forall (fun t => (t_idx t <= n)%nat) ts ->
  length arr = S n -> Forall (fun t => nth_error arr (t_idx t) = Some None) ts ->
  (length ts <= fuel)%nat ->
  read_sparse fuel (read_cplx false true (negb (d_real d))) check (Z.of_nat n)
              (concat (map sparse_tokens ts)) arr
  = Some (fold_left set_term ts arr).
Proof.
  induction ts as [|t ts IH]; intros fuel arr Hok Hnd Hle Hlen Hfree Hfuel.
  - destruct fuel; reflexivity.
  - inversion Hok as [|? ? Ht Hts]; subst. inversion Hnd as [|? ? Hnin Hnd']; subst.
    inversion Hle as [|? ? Hi Hle']; subst. inversion Hfree as [|? ? Hf Hfree']; subst.
    destruct fuel as [|fuel]; [cbn in Hfuel; lia|].
    cbn [map concat sparse_tokens app read_sparse].
    destruct (nat_token_facts (t_idx t)) as (A & B & C).
    rewrite scan_int_digits, C, nat_N_Z by auto.
    destruct ((Z.of_nat (t_idx t) <? 0)%Z || (Z.of_nat n <? Z.of_nat (t_idx t))%Z) eqn:E; [lia|].
    rewrite Nat2Z.id, Hf, read_term_ok by exact Ht.
    apply IH; auto.
    + unfold set_term. rewrite upd_length. exact Hlen.
    + apply Forall_forall. intros u Hu. rewrite nth_error_upd_other.
      * apply (proj1 (Forall_forall _ _) Hfree' u Hu).
      * intro E2. apply Hnin. rewrite E2. apply in_map, Hu.
    + cbn in Hfuel. lia.
Qed.

Lemma fold_set_nth ts : forall arr i, NoDup (map t_idx ts) ->
  Forall (fun t => (t_idx t < length arr)%nat) ts ->
  nth_error (fold_left set_term ts arr) i =
  match find_term i ts with Some t => Some (Some (term_val (d_real d) t)) | None => nth_error arr i end.
Proof.
  induction ts as [|t ts IH]; intros arr i Hnd Hlt; [reflexivity|].
  inversion Hnd as [|? ? Hnin Hnd']; subst. inversion Hlt as [|? ? Hi Hlt']; subst.
  cbn [fold_left]. rewrite IH; auto.
  2:{ eapply Forall_impl; [|exact Hlt']. intros u Hu. unfold set_term. rewrite upd_length. exact Hu. }
  unfold find_term. cbn [find]. fold (find_term i ts).
  destruct (Nat.eqb (t_idx t) i) eqn:E.
  - apply Nat.eqb_eq in E. subst i.
    assert (F : find_term (t_idx t) ts = None).
    { unfold find_term. destruct (find (fun t0 => Nat.eqb (t_idx t0) (t_idx t)) ts) eqn:F; auto.
      apply find_some in F. destruct F as [Hin Heq]. apply Nat.eqb_eq in Heq. exfalso. apply Hnin.
      rewrite <- Heq. apply in_map, Hin. }
    rewrite F. unfold set_term. apply nth_error_upd_same. exact Hi.
  - apply Nat.eqb_neq in E. destruct (find_term i ts); auto. unfold set_term. apply nth_error_upd_other, E.
Qed.

End Coeffs.

(* ---- the monomial reader on the rendered coefficient tokens *)

Lemma map_const_repeat {A} (v : A) a m : map (fun _ => v) (seq a m) = repeat v m.
Proof. revert a; induction m; intro a; cbn; [reflexivity|]. f_equal. apply IHm. Qed.

Lemma find_seq {B} (f : term -> B) dflt ts : forall a,
  map t_idx ts = seq a (length ts) ->
  map (fun i => match find_term i ts with Some t => f t | None => dflt end) (seq a (length ts)) = map f ts.
Proof.
  induction ts as [|t ts IH]; intros a H; [reflexivity|].
  cbn [map length seq] in *. injection H as H1 H2. subst a.
  unfold find_term at 1. cbn [find]. rewrite Nat.eqb_refl. f_equal.
  rewrite <- (IH (S (t_idx t))) by exact H2. apply map_ext_in. intros i Hi. apply in_seq in Hi.
  unfold find_term. cbn [find]. replace (Nat.eqb (t_idx t) i) with false by (symmetry; apply Nat.eqb_neq; lia).
  reflexivity.
Qed.

Lemma list_from_nth {A} (l : list A) : forall g, (forall i, (i < length l)%nat -> nth_error l i = Some (g i)) ->
  l = map g (seq 0 (length l)).
Proof.
  induction l as [|x l IH]; intros g H; [reflexivity|].
  cbn [length seq map]. f_equal.
  - specialize (H 0%nat). cbn in H. assert (E : Some x = Some (g 0%nat)) by (apply H; lia). congruence.
  - rewrite <- seq_shift, map_map. apply IH. intros i Hi. apply (H (S i)). cbn. lia.
Qed.

Lemma fold_set_length d ts : forall arr, length (fold_left (set_term d) ts arr) = length arr.
Proof. induction ts as [|t ts IH]; intro arr; [reflexivity|]. cbn [fold_left]. rewrite IH. apply upd_length. Qed.

Lemma nth_error_repeat_lt {A} (v : A) m i : (i < m)%nat -> nth_error (repeat v m) i = Some v.
Proof. revert i; induction m; intros [|i] H; cbn; try lia; auto. apply IHm. lia. Qed.

Lemma concat_length_ge {A B} (f : A -> list B) l : (forall x, (1 <= length (f x))%nat) -> (length l <= length (concat (map f l)))%nat.
Proof. intro H. induction l; cbn; [lia|]. rewrite app_length. specialize (H a). lia. Qed.

Theorem read_monomial_ok d :
  wf d -> d_legacy d = false -> d_kind d = KMonomial -> exact_type d ->
  read_monomial (target_settings d) (coeff_tokens d) = Poly (denote d).
Proof.
  intros (Hdeg & Hterms & _ & Hk & _) Hleg Hkind Hex.
  rewrite Hkind in Hk. destruct Hk as [Hb Hk].
  unfold read_monomial, target_settings, coeff_tokens, denote. rewrite Hkind.
  cbn [s_n s_struct s_density s_repr s_prec]. rewrite Nat2Z.id.
  assert (RD : read_cplx (is_fp (mk_structure (d_real d) (d_ctype d))) true (is_complex (mk_structure (d_real d) (d_ctype d)))
               = read_cplx false true (negb (d_real d))).
  { destruct Hex as [E|E]; rewrite E; destruct (d_real d); reflexivity. }
  rewrite RD. clear RD.
  destruct (d_sparse d) eqn:Hsp.
  - (* sparse *)
    destruct Hk as (Hnd & Hle & Hne).
    change (concat (map (term_tokens d true) (d_terms d))) with (concat (map (sparse_tokens d) (d_terms d))).
    rewrite (read_sparse_ok d Hleg Hex true (d_degree d)); auto.
    + set (arr := fold_left (set_term d) (d_terms d) (repeat None (S (d_degree d)))).
      assert (Hlen : length arr = S (d_degree d)) by (unfold arr; rewrite fold_set_length, repeat_length; reflexivity).
      assert (Harr : arr = map (fun i => match find_term i (d_terms d) with
                                         | Some t => Some (term_val (d_real d) t) | None => None end)
                               (seq 0 (S (d_degree d)))).
      { rewrite <- Hlen. apply list_from_nth. intros i Hi. unfold arr.
        rewrite (fold_set_nth d); auto.
        - destruct (find_term i (d_terms d)); [reflexivity|]. apply nth_error_repeat_lt. lia.
        - eapply Forall_impl; [|exact Hle]. intros t Ht. rewrite repeat_length. cbn beta in Ht. lia. }
      f_equal. unfold mk_poly. cbn [s_n s_struct s_density s_repr s_prec]. cbv iota. rewrite Harr.
      unfold arr_spar, arr_coeffs. rewrite !map_map.
      f_equal; apply map_ext; intro i; destruct (find_term i (d_terms d)); reflexivity.
    + apply repeat_length.
    + apply Forall_forall. intros t Ht. apply nth_error_repeat_lt.
      pose proof (proj1 (Forall_forall _ _) Hle t Ht) as L. cbn beta in L. lia.
    + apply concat_length_ge. intro t. cbn. lia.
  - (* dense *)
    assert (Hlen : length (d_terms d) = S (d_degree d)).
    { rewrite <- (map_length t_idx), Hk, seq_length. reflexivity. }
    change (concat (map (term_tokens d false) (d_terms d))) with (concat (map (value_tokens d) (d_terms d))).
    rewrite <- (app_nil_r (concat (map (value_tokens d) (d_terms d)))), <- Hlen.
    rewrite (read_dense_ok d Hleg Hex) by exact Hterms.
    f_equal. unfold mk_poly. cbn [s_n s_struct s_density s_repr s_prec]. cbv iota.
    rewrite map_const_repeat, Hlen.
    f_equal. rewrite <- Hlen. symmetry. apply find_seq. rewrite Hk, Hlen. reflexivity.
Qed.

(* ---- no rendered line contains a newline *)

Lemma nonspace_no_nl c : is_space c = false -> (c =c? ch_nl) = false.
Proof. intro H. destruct (c =c? ch_nl) eqn:E; auto. apply Ascii.eqb_eq in E. subst. discriminate. Qed.

Lemma no_nl_spaces n : no_nl (spaces n).
Proof. apply has_char_spaces. reflexivity. Qed.

Lemma no_nl_clean b : no_nl (clean b).
Proof.
  unfold no_nl, clean. induction b as [|c b IH]; [reflexivity|]. cbn [filter].
  destruct (c =c? ch_nl) eqn:E; cbn [orb negb]; [exact IH|].
  destruct (c =c? "000"); cbn [negb]; [exact IH|]. cbn [has_char existsb]. rewrite E. exact IH.
Qed.

Lemma no_nl_app2 a b : no_nl a -> no_nl b -> no_nl (a ++ b).
Proof. unfold no_nl. intros. rewrite has_char_app, H, H0. reflexivity. Qed.

Lemma no_nl_cons c l : (c =c? ch_nl) = false -> no_nl l -> no_nl (c :: l).
Proof. unfold no_nl. intros. cbn [has_char existsb]. rewrite H. exact H0. Qed.

Lemma no_nl_comment_tail c : no_nl (comment_tail c).
Proof. destruct c; [apply no_nl_cons; [reflexivity|apply no_nl_clean]|reflexivity]. Qed.

Lemma no_nl_filler f : no_nl (filler_line f).
Proof.
  destruct f; cbn [filler_line]; [apply no_nl_spaces|].
  apply no_nl_app2; [apply no_nl_spaces|apply no_nl_cons; [reflexivity|apply no_nl_clean]].
Qed.

Lemma no_nl_fillers F : Forall no_nl (map filler_line F).
Proof. induction F; constructor; auto using no_nl_filler. Qed.

Lemma no_nl_tchars t : Forall tchar_ok t -> no_nl t.
Proof. induction 1 as [|c t [Hc _] _ IH]; [reflexivity|]. apply no_nl_cons; [apply nonspace_no_nl, Hc|exact IH]. Qed.

Lemma no_nl_join toks : forall gaps, Forall tok_ok toks -> no_nl (join_tokens gaps toks).
Proof.
  induction toks as [|t r IH]; intros gaps H; [reflexivity|].
  inversion H as [|? ? [_ Ht] Hr]; subst. destruct r as [|t' r'].
  - cbn [join_tokens]. apply no_nl_tchars, Ht.
  - assert (E : exists g gs, join_tokens gaps (t :: t' :: r') = t ++ spaces (S g) ++ join_tokens gs (t' :: r')).
    { destruct gaps as [|g gs]; [exists 0%nat, [] | exists g, gs]; reflexivity. }
    destruct E as [g [gs E]]. rewrite E.
    apply no_nl_app2; [apply no_nl_tchars, Ht|apply no_nl_app2; [apply no_nl_spaces|apply IH, Hr]].
Qed.

Lemma no_nl_token_lines toks dc : Forall tok_ok toks -> Forall no_nl (token_lines toks dc).
Proof.
  intro H. unfold token_lines. apply Forall_app. split; [apply no_nl_fillers|].
  constructor; [|constructor].
  repeat apply no_nl_app2; auto using no_nl_spaces, no_nl_join, no_nl_comment_tail.
Qed.

Lemma no_nl_okc l : forallb okc l = true -> no_nl l.
Proof.
  induction l as [|c l IH]; intro H; [reflexivity|]. cbn [forallb] in H. apply andb_true_iff in H. destruct H as [H1 H2].
  apply no_nl_cons; [apply nonspace_no_nl, (okc_facts c H1)|apply IH, H2].
Qed.

Lemma no_nl_opt_text o dc : opt_good o -> no_nl (opt_text o dc).
Proof.
  destruct o as [k|k v]; cbn [opt_good opt_text].
  - intro H. destruct (keyword_okc k H) as (Hok & _ & _). apply no_nl_okc. rewrite okc_case. exact Hok.
  - intros [Hk [Hv _]].
    assert (Hok : forallb okc k = true) by (destruct Hk; subst k; reflexivity).
    apply no_nl_app2; [apply no_nl_okc; rewrite okc_case; exact Hok|].
    apply no_nl_app2; [apply no_nl_spaces|]. apply no_nl_cons; [reflexivity|].
    apply no_nl_app2; [apply no_nl_spaces|apply no_nl_okc, digits_okc, Hv].
Qed.

Lemma no_nl_option_lines o dc : opt_good o -> Forall no_nl (option_lines o dc).
Proof.
  intro H. unfold option_lines. apply Forall_app. split.
  - induction (od_pre dc); constructor; auto. apply no_nl_cons; [reflexivity|apply no_nl_clean].
  - constructor; [|constructor].
    apply no_nl_app2; [apply no_nl_spaces|]. apply no_nl_app2; [apply no_nl_opt_text, H|].
    apply no_nl_app2; [apply no_nl_spaces|]. apply no_nl_cons; [reflexivity|].
    apply no_nl_app2; [apply no_nl_spaces|apply no_nl_comment_tail].
Qed.

Lemma forall_zip_concat {A B} (f : A -> B -> list text) (P : A -> Prop) dflt l :
  (forall x y, P x -> Forall no_nl (f x y)) -> Forall P l ->
  forall ds, Forall no_nl (concat (zip_default f dflt l ds)).
Proof.
  intros Hf H. induction H as [|x l Hx _ IH]; intro ds; [constructor|].
  destruct ds; cbn [zip_default concat]; apply Forall_app; split; auto.
Qed.

(* ---- assembly *)

Lemma skipws_prefix ws l r : Forall (fun x => blank x = true) ws -> blank l = false ->
  skipws (ws ++ l :: r) = ltrim l :: r.
Proof. intros H Hl. induction H as [|x ws Hx _ IH]; cbn [app skipws]; [rewrite Hl|rewrite Hx]; auto. Qed.

Lemma has_semicolon_not_blank l : has_char ";" l = true -> blank l = false.
Proof. intro H. destruct (blank l) eqn:E; auto. destruct (blank_no_tokens l E) as [_ N]. congruence. Qed.

Lemma coeff_tokens_ok d : wf d -> d_legacy d = false -> d_kind d = KMonomial -> exact_type d ->
  Forall tok_ok (coeff_tokens d).
Proof.
  intros (_ & Hterms & _) Hleg Hkind Hex. unfold coeff_tokens. rewrite Hkind.
  induction Hterms as [|t ts Ht _ IH]; [constructor|].
  cbn [map concat]. apply Forall_app. split; [|exact IH].
  unfold term_tokens. apply Forall_app. split.
  - destruct (d_sparse d); [constructor; [apply nat_token_ok|constructor]|constructor].
  - apply (value_tokens_ok d Hleg Hex t Ht).
Qed.

Theorem parse_render_monomial_exact st pi d :
  wf d -> d_legacy d = false -> d_kind d = KMonomial -> exact_type d ->
  parse (render st pi d) = Poly (denote d).
Proof.
  intros Hwf Hleg Hkind Hex.
  pose proof (coeff_tokens_ok d Hwf Hleg Hkind Hex) as Htoks.
  pose proof (options_good st d) as Hgood.
  assert (Hgoodp : Forall opt_good (permute pi (options_of st d))).
  { eapply Permutation_Forall; [|exact Hgood]. symmetry. apply permute_perm. }
  set (groups := group (st_chunks st) (coeff_tokens d)).
  assert (Hg1 : Forall (Forall tok_ok) groups) by (apply group_forall, Htoks).
  assert (Hg2 : Forall (fun g => g <> []) groups) by apply group_nonempty.
  unfold parse, render.
  assert (RL : render_lines st pi d =
               map filler_line (st_header st)
               ++ (concat (zip_default option_lines default_optdeco (permute pi (options_of st d)) (st_opts st))
                   ++ map filler_line (st_sep st))
               ++ concat (zip_default token_lines default_linedeco groups (st_lines st))
               ++ map filler_line (st_trailer st)).
  { unfold render_lines. rewrite Hleg. reflexivity. }
  rewrite RL. clear RL.
  rewrite parse_lines.
  2:{ repeat (apply Forall_app; split); try apply no_nl_fillers.
      - apply (forall_zip_concat option_lines opt_good); auto using no_nl_option_lines.
      - apply (forall_zip_concat token_lines (Forall tok_ok)); auto using no_nl_token_lines. }
  rewrite !effective_lines_app, eff_option_section by exact Hgoodp.
  set (OL := zip_default stripped default_optdeco (permute pi (options_of st d)) (st_opts st)).
  set (REST := effective_lines (map filler_line (st_sep st))
               ++ effective_lines (concat (zip_default token_lines default_linedeco groups (st_lines st)))
               ++ effective_lines (map filler_line (st_trailer st))).
  destruct (eff_token_section groups (st_lines st) Hg1 Hg2) as [TK NS].
  assert (HREST : Forall (fun l => has_char ";" l = false) REST).
  { unfold REST. repeat (apply Forall_app; split); auto;
      (eapply Forall_impl; [|apply eff_fillers]); intros l Hl; apply (blank_no_tokens l Hl). }
  assert (HTOK : all_tokens REST = coeff_tokens d).
  { unfold REST. rewrite !all_tokens_app, TK, !(all_tokens_blank _ (eff_fillers _)).
    unfold groups. rewrite group_concat, app_nil_r. reflexivity. }
  assert (HOL : exists o1 OL', OL = o1 :: OL' /\ has_char ";" o1 = true).
  { unfold OL. pose proof (Permutation_length (permute_perm pi (options_of st d))) as PL.
    destruct (permute pi (options_of st d)) as [|o os] eqn:EP.
    - unfold options_of in PL. destruct (st_explicit st) as [[[? ?] ?] ?]. cbn in PL. lia.
    - destruct (st_opts st); cbn [zip_default]; eexists; eexists; (split; [reflexivity|apply stripped_has_semicolon]). }
  destruct HOL as (o1 & OL' & EOL & Hsemi).
  replace (effective_lines (map filler_line (st_header st)) ++ (OL ++ effective_lines (map filler_line (st_sep st)))
           ++ effective_lines (concat (zip_default token_lines default_linedeco groups (st_lines st)))
           ++ effective_lines (map filler_line (st_trailer st)))
    with (effective_lines (map filler_line (st_header st)) ++ o1 :: (OL' ++ REST))
    by (rewrite EOL; unfold REST; rewrite <- !app_assoc; reflexivity).
  rewrite skipws_prefix by (apply eff_fillers || apply has_semicolon_not_blank, Hsemi).
  rewrite has_char_ltrim, Hsemi.
  unfold parse_v3. rewrite options_phase_ltrim by exact Hsemi.
  change (o1 :: OL' ++ REST) with ((o1 :: OL') ++ REST). rewrite <- EOL. unfold OL.
  destruct Hwf as (Hdeg & Hw).
  rewrite options_phase_of_render by auto.
  change (s_n (target_settings d)) with (Z.of_nat (d_degree d)).
  change (s_repr (target_settings d)) with (d_kind d). rewrite Hkind.
  destruct (Z.of_nat (d_degree d) =? -1)%Z eqn:E; [lia|].
  rewrite HTOK.
  apply read_monomial_ok; auto. split; auto.
Qed.
