(* C10 / PolFile: truncation of a rational to prec significant bits (what mpf_set_str does to a
   floating-point coefficient) is within 2^-prec relative, and not larger in modulus (stdlib style). *)
Require Import ZArith QArith Qabs Qpower Lia.
Require Import MPSV.PolFile.DecRatModel.
Local Open Scope Q_scope.

Lemma pos_pow2 p : Zpos (Pos.pow 2 p) = Z.pow_pos 2 p.
Proof. rewrite Pos2Z.inj_pow. reflexivity. Qed.

Lemma pow2Q_Qpower e : pow2Q e == (2 # 1) ^ e.
Proof.
  destruct e as [|p|p]; [reflexivity| |].
  - unfold pow2Q. apply (Zpower_Qpower 2 (Zpos p)). lia.
  - assert (P : Qpower_positive (2 # 1) p == Z.pow_pos 2 p # 1).
    { symmetry. apply (Zpower_Qpower 2 (Zpos p)). lia. }
    unfold pow2Q. cbn [Qpower]. rewrite P, <- pos_pow2. reflexivity.
Qed.

Lemma pow2Q_add a b : pow2Q (a + b) == pow2Q a * pow2Q b.
Proof. rewrite !pow2Q_Qpower. apply Qpower_plus. discriminate. Qed.

Lemma pow2Q_pos e : 0 < pow2Q e.
Proof.
  destruct e as [|p|p]; unfold pow2Q, Qlt; cbn [Qnum Qden]; try lia.
Qed.

Lemma pow2Q_inv s : pow2Q s * pow2Q (- s) == 1.
Proof. rewrite <- pow2Q_add. replace (s + - s)%Z with 0%Z by lia. reflexivity. Qed.

(* rounding toward zero to an integer: not larger in modulus, off by at most one *)
Lemma floor_abs_facts y : Qabs (Qfloor_abs y # 1) <= Qabs y /\ Qabs (y - (Qfloor_abs y # 1)) <= 1.
Proof.
  destruct y as [n d]. unfold Qfloor_abs. cbn [Qnum Qden].
  pose proof (Z.quot_rem' n (Zpos d)) as E.
  assert (R : (Z.abs (Z.rem n (Zpos d)) < Zpos d)%Z) by (apply Z.rem_bound_abs; lia).
  assert (S : (0 <= Z.rem n (Zpos d) * n)%Z) by (apply Z.rem_sign_mul; lia).
  set (k := Z.quot n (Zpos d)) in *. set (r := Z.rem n (Zpos d)) in *.
  assert (K : (Z.abs k * Z.pos d <= Z.abs n)%Z).
  { unfold k. rewrite <- Z.quot_abs by lia. change (Z.abs (Z.pos d)) with (Z.pos d).
    pose proof (Z.quot_rem' (Z.abs n) (Zpos d)) as E2.
    assert (0 <= Z.rem (Z.abs n) (Z.pos d))%Z by (apply Z.rem_nonneg; lia).
    lia. }
  split.
  - unfold Qabs, Qle. cbn [Qnum Qden]. lia.
  - unfold Qminus, Qplus, Qopp, Qabs, Qle. cbn [Qnum Qden].
    replace (n * 1 + - k * Z.pos d)%Z with r by lia. lia.
Qed.

(* 2^e <= |q| for the exponent estimate used by trunc_bits *)
Lemma pow2_frac (a b : Z) (p : positive) : (0 <= a)%Z -> (0 <= b)%Z -> Zpos p = (2 ^ b)%Z ->
  pow2Q (a - b) == (2 ^ a)%Z # p.
Proof.
  intros Ha Hb Hp. unfold pow2Q. destruct (a - b)%Z as [|q|q] eqn:E; unfold Qeq; cbn [Qnum Qden].
  - assert (a = b) by lia. subst. lia.
  - change (Z.pow_pos 2 q) with (2 ^ Z.pos q)%Z. rewrite Hp.
    replace a with (Z.pos q + b)%Z by lia. rewrite Z.pow_add_r by lia. ring.
  - rewrite Pos2Z.inj_pow, Hp. replace b with (a + Z.pos q)%Z by lia. rewrite Z.pow_add_r by lia. ring.
Qed.

Lemma ilog2_le q : ~ q == 0 -> pow2Q (ilog2_q q) <= Qabs q.
Proof.
  intro Hq. destruct q as [n d]. unfold ilog2_q. cbn [Qnum Qden].
  assert (Hn : n <> 0%Z) by (intro E; apply Hq; subst; reflexivity).
  set (a := Z.log2 (Z.abs n)). set (b := Z.log2 (Z.pos d)).
  assert (Ha : (0 <= a)%Z) by apply Z.log2_nonneg. assert (Hb : (0 <= b)%Z) by apply Z.log2_nonneg.
  assert (A : (2 ^ a <= Z.abs n)%Z) by (apply Z.log2_spec; lia).
  assert (B : (Z.pos d < 2 ^ (b + 1))%Z) by (replace (b + 1)%Z with (Z.succ b) by lia; apply Z.log2_spec; lia).
  assert (P : exists p, Zpos p = (2 ^ (b + 1))%Z).
  { assert (0 < 2 ^ (b + 1))%Z by (apply Z.pow_pos_nonneg; lia).
    destruct (2 ^ (b + 1))%Z as [|p|p] eqn:EP; try lia. exists p. reflexivity. }
  destruct P as [p Hp].
  replace (a - b - 1)%Z with (a - (b + 1))%Z by lia.
  rewrite (pow2_frac a (b + 1) p) by (auto; lia).
  unfold Qabs, Qle. cbn [Qnum Qden]. rewrite Hp.
  assert (0 < 2 ^ a)%Z by (apply Z.pow_pos_nonneg; lia). nia.
Qed.

Lemma Qeq_bool_false q : Qeq_bool q 0 = false -> ~ q == 0.
Proof. intros H E. apply Qeq_eq_bool in E. congruence. Qed.

(* THE bound *)
Theorem trunc_bits_within (p : positive) (q : Q) :
  Qabs (trunc_bits p q) <= Qabs q /\ Qabs (q - trunc_bits p q) <= Qabs q * pow2Q (- Zpos p).
Proof.
  unfold trunc_bits. destruct (Qeq_bool q 0) eqn:E0.
  - apply Qeq_bool_eq in E0. split.
    + rewrite E0. apply Qle_refl.
    + rewrite E0. cbn. unfold Qle; cbn; lia.
  - apply Qeq_bool_false in E0.
    set (e := ilog2_q q). set (s := (Zpos p - e)%Z).
    set (y := q * pow2Q s). set (T := Qfloor_abs y # 1).
    destruct (floor_abs_facts y) as [F1 F2]. fold T in F1, F2.
    pose proof (pow2Q_pos (- s)) as Ppos. pose proof (pow2Q_inv s) as Pinv.
    assert (Yq : q == y * pow2Q (- s)).
    { unfold y. rewrite <- Qmult_assoc, Pinv, Qmult_1_r. reflexivity. }
    assert (AbsP : Qabs (pow2Q (- s)) == pow2Q (- s)) by (apply Qabs_pos, Qlt_le_weak, Ppos).
    split.
    + rewrite Qabs_Qmult, AbsP.
      apply Qle_trans with (Qabs y * pow2Q (- s)).
      * apply Qmult_le_compat_r; [exact F1|apply Qlt_le_weak, Ppos].
      * assert (AQ : Qabs q == Qabs y * pow2Q (- s)) by (rewrite Yq at 1; rewrite Qabs_Qmult, AbsP; reflexivity).
        rewrite AQ. apply Qle_refl.
    + assert (D : q - T * pow2Q (- s) == (y - T) * pow2Q (- s)).
      { assert (Y2 : q - T * pow2Q (- s) == y * pow2Q (- s) - T * pow2Q (- s)) by (rewrite <- Yq; reflexivity).
        rewrite Y2. ring. }
      rewrite D, Qabs_Qmult, AbsP.
      apply Qle_trans with (1 * pow2Q (- s)).
      * apply Qmult_le_compat_r; [exact F2|apply Qlt_le_weak, Ppos].
      * rewrite Qmult_1_l.
        assert (SP : pow2Q (- s) == pow2Q e * pow2Q (- Zpos p)).
        { rewrite <- pow2Q_add. unfold s. replace (- (Z.pos p - e))%Z with (e + - Z.pos p)%Z by lia. reflexivity. }
        rewrite SP. apply Qmult_le_compat_r; [apply ilog2_le, E0|apply Qlt_le_weak, pow2Q_pos].
Qed.
