(* C10 / PolFile: get-after-set laws for every sequence of calls of the public coefficient setters.
   Style: stdlib (lia). *)
Require Import List Ascii ZArith NArith QArith Bool Lia ZifyBool.
Require Import MPSV.PolFile.Chars MPSV.PolFile.DecRatModel MPSV.PolFile.PolModel MPSV.PolFile.SetterModel.
Import ListNotations.

Lemma updL {A} i (v : A) l : length (upd i v l) = length l.
Proof. revert i; induction l as [|x l IH]; intros [|i]; cbn; auto. Qed.

Lemma nth_upd {A} (d : A) i j v l : (j < length l)%nat ->
  nth i (upd j v l) d = if Nat.eqb j i then v else nth i l d.
Proof.
  revert i j; induction l as [|x l IH]; intros i j H; [cbn in H; lia|].
  destruct j as [|j], i as [|i]; cbn; auto. apply IH. cbn in H. lia.
Qed.

Definition lens_ok (m : mstate) : Prop := length (m_fp m) = length (m_q m) /\ length (m_spar m) = length (m_q m).

Lemma new_lens n : lens_ok (m_new n) /\ length (m_q (m_new n)) = S n.
Proof. unfold lens_ok, m_new; cbn [m_q m_fp m_spar]. rewrite !repeat_length. auto. Qed.

(* one call *)
Definition step_post (m : mstate) (o : op) (m1 : mstate) : Prop :=
  lens_ok m1 /\ length (m_q m1) = length (m_q m)
  /\ (forall i d, nth i (m_q m1) d =
        if Nat.eqb (op_index o) i then match exact_write o with Some v => v | None => nth i (m_q m) d end
        else nth i (m_q m) d)
  /\ (forall i d, nth i (m_spar m1) d = if Nat.eqb (op_index o) i then write_nonzero o else nth i (m_spar m) d).

Lemma step_ok m o m1 : lens_ok m -> step m o = SOk m1 ->
  (op_index o < length (m_q m))%nat /\ step_post m o m1.
Proof.
  intros [L1 L2] H. unfold step in H.
  destruct (length (m_q m) <=? op_index o) eqn:B; [discriminate|].
  assert (IB : (op_index o < length (m_q m))%nat) by lia.
  split; [exact IB|]. unfold step_post.
  assert (W1 : forall s i c, op_index o = i -> exact_write o = Some c ->
               write_nonzero o = raw_nonzero (fst c) || raw_nonzero (snd c) ->
               m1 = write_exact m s i c -> step_post m o m1).
  { intros s i c Ei Ew En ->. unfold step_post, lens_ok, write_exact. cbn [m_q m_fp m_spar]. rewrite !updL.
    split; [auto|]. split; [reflexivity|]. split; intros k d.
    - rewrite nth_upd by lia. rewrite Ei, Ew. reflexivity.
    - rewrite nth_upd by lia. rewrite Ei, En. reflexivity. }
  assert (W2 : forall s i x y, op_index o = i -> exact_write o = None ->
               write_nonzero o = q_nonzero x || q_nonzero y ->
               m1 = write_fp m s i x y -> step_post m o m1).
  { intros s i x y Ei Ew En ->. unfold step_post, lens_ok, write_fp. cbn [m_q m_fp m_spar]. rewrite !updL.
    split; [auto|]. split; [reflexivity|]. split; intros k d.
    - rewrite Ew. destruct (Nat.eqb (op_index o) k); reflexivity.
    - rewrite nth_upd by lia. rewrite Ei, En. reflexivity. }
  destruct o as [i a b|i re im|i sr si|i x y|i x y]; cbn [op_index] in *.
  - destruct (struct_int _ _) as [s ok]. destruct ok; [|discriminate]. injection H as <-.
    fold (step_post m (OpInt i a b)). eapply W1; try reflexivity.
  - unfold set_q in H. destruct (struct_q _ _) as [s ok]. destruct ok; [|discriminate]. injection H as <-.
    eapply W1; reflexivity.
  - unfold set_q in H. destruct (struct_q _ _) as [s ok]. destruct ok; [|discriminate]. injection H as <-.
    eapply W1; reflexivity.
  - destruct (struct_d _ _) as [s ok]. destruct ok; [|discriminate]. injection H as <-.
    eapply W2; reflexivity.
  - injection H as <-. eapply W2; reflexivity.
Qed.

(* every sequence of calls: the exact store holds, at every index, the value of the LAST exact setter
   called on that index (whatever was called in between on other indices, or by _d / _f on this one),
   and spar says whether the last value written there by any setter was non-zero *)
Theorem run_get_after_set ops : forall m m', lens_ok m -> run ops m = SOk m' ->
  lens_ok m' /\ length (m_q m') = length (m_q m)
  /\ (forall i d, nth i (m_q m') d = match last_exact i ops (Some (nth i (m_q m) d)) with Some v => v | None => d end)
  /\ (forall i d, nth i (m_spar m') d = match last_nonzero i ops (Some (nth i (m_spar m) d)) with Some v => v | None => d end).
Proof.
  induction ops as [|o r IH]; intros m m' L H.
  - injection H as <-. cbn. auto.
  - cbn [run] in H. destruct (step m o) as [m1| |] eqn:S1; try discriminate.
    destruct (step_ok m o m1 L S1) as (IB & L1 & E1 & Q1 & P1). 
    destruct (IH m1 m' L1 H) as (L' & E' & Q' & P').
    split; [exact L'|]. split; [congruence|]. split; intros i d.
    + rewrite Q'. cbn [last_exact]. rewrite Q1.
      destruct (Nat.eqb (op_index o) i); [destruct (exact_write o)|]; reflexivity.
    + rewrite P'. cbn [last_nonzero]. rewrite P1.
      destruct (Nat.eqb (op_index o) i); reflexivity.
Qed.

(* from a fresh polynomial *)
Lemma nth_repeat {A} (v d : A) n i : (i < n)%nat -> nth i (repeat v n) d = v.
Proof. revert i; induction n; intros [|i] H; cbn; auto; try lia. apply IHn. lia. Qed.

Theorem new_get_after_set n ops m : run ops (m_new n) = SOk m ->
  forall i, (i <= n)%nat ->
    nth i (m_q m) (raw0, raw0) = match last_exact i ops None with Some v => v | None => (raw0, raw0) end
    /\ nth i (m_spar m) false = match last_nonzero i ops None with Some v => v | None => false end.
Proof.
  intros H i Hi. destruct (new_lens n) as [L LN].
  destruct (run_get_after_set ops _ _ L H) as (_ & _ & Q & P).
  rewrite Q, P. unfold m_new; cbn [m_q m_spar]. rewrite !nth_repeat by lia.
  assert (A : forall ops acc, match last_exact i ops (Some acc) with Some v => v | None => (raw0, raw0) end
            = match last_exact i ops None with Some v => v | None => acc end).
  { clear. induction ops as [|o r IH]; intro acc; [reflexivity|]. cbn [last_exact].
    destruct (Nat.eqb (op_index o) i); [destruct (exact_write o) as [v|]|]; try apply IH.
    clear IH. generalize v. induction r as [|o' r IHr]; intro w; [reflexivity|]. cbn [last_exact].
    destruct (Nat.eqb (op_index o') i); [destruct (exact_write o')|]; apply IHr. }
  assert (B : forall ops acc, match last_nonzero i ops (Some acc) with Some v => v | None => false end
            = match last_nonzero i ops None with Some v => v | None => acc end).
  { clear. induction ops as [|o r IH]; intro acc; [reflexivity|]. cbn [last_nonzero].
    destruct (Nat.eqb (op_index o) i); try apply IH.
    clear IH. generalize (write_nonzero o). induction r as [|o' r IHr]; intro w; [reflexivity|]. cbn [last_nonzero].
    destruct (Nat.eqb (op_index o') i); apply IHr. }
  rewrite A, B. split; reflexivity.
Qed.

(* ---- which calls abort, which write out of bounds *)

Theorem step_outcome m o :
  step m o = SOutOfBounds <-> (length (m_q m) <= op_index o)%nat.
Proof.
  unfold step. destruct (length (m_q m) <=? op_index o) eqn:B; [split; [lia|reflexivity]|].
  split; [|lia]. intro H. exfalso. destruct o; cbn in H; unfold set_q in H;
    repeat match type of H with context [let (_, _) := ?x in _] => destruct x as [? []] end;
    repeat match type of H with context [if ?c then _ else _] => destruct c end; discriminate.
Qed.

