(* C10 / PolFile: proofs about the file-language model (stdlib style). *)
Require Import String Ascii List ZArith NArith QArith Qcanon Bool Lia ZifyBool Permutation.
Require Import MPSV.PolFile.Chars MPSV.PolFile.DecRatModel MPSV.PolFile.PolModel.
Import ListNotations.
Local Open Scope char_scope.

(* ------------------------------------------------------------------ integers and rationals *)

Lemma all_digitsb_true l : all_digits l -> all_digitsb l = true.
Proof. unfold all_digits, all_digitsb. induction 1; simpl; auto. rewrite H; auto. Qed.

Lemma zeros_digits k : all_digits (zeros k).
Proof. induction k; constructor; auto. Qed.

Lemma all_digits_app a b : all_digits a -> all_digits b -> all_digits (a ++ b).
Proof. unfold all_digits. intros. apply Forall_app; auto. Qed.

Lemma mpz_digits l :
  all_digits l -> l <> [] -> mpz_str_value l = Some (Z.of_N (digits_val l)).
Proof.
  intros Hd Hn. destruct l as [|c r]; [congruence|].
  unfold mpz_str_value.
  assert (Hc : is_digit c = true) by (inversion Hd; auto).
  assert (E : (c =c? "-") = false) by (apply digit_neq; auto).
  rewrite E. rewrite (all_digitsb_true _ Hd). reflexivity.
Qed.

Lemma digits_val_lz k l : digits_val (zeros k ++ l) = digits_val l.
Proof. rewrite digits_val_app, digits_val_zeros. lia. Qed.

Lemma unsigned_token_ok k n :
  all_digits (zeros k ++ N_digits n) /\ zeros k ++ N_digits n <> [] /\ digits_val (zeros k ++ N_digits n) = n.
Proof.
  split; [|split].
  - apply all_digits_app; [apply zeros_digits | apply N_digits_all_digits].
  - intro H. apply app_eq_nil in H. destruct H as [_ H]. exact (N_digits_nonempty _ H).
  - rewrite digits_val_lz. apply N_digits_val.
Qed.

(* an integer written with any number of leading zeros is read back exactly *)
Lemma mpz_token_roundtrip z lz : mpz_str_value (Z_token z lz) = Some z.
Proof.
  unfold Z_token. destruct (unsigned_token_ok lz (Z.abs_N z)) as (Hd & Hn & Hv).
  destruct (z <? 0)%Z eqn:E.
  - cbn [app]. unfold mpz_str_value. rewrite Ascii.eqb_refl.
    destruct (zeros lz ++ N_digits (Z.abs_N z)) eqn:El; [congruence|].
    rewrite <- El in *. rewrite (all_digitsb_true _ Hd), El, <- El, Hv.
    f_equal. rewrite N2Z.inj_abs_N. lia.
  - cbn [app]. rewrite mpz_digits by assumption. rewrite Hv. f_equal. rewrite N2Z.inj_abs_N. lia.
Qed.

Lemma Z_token_no_slash z lz : has_char "/" (Z_token z lz) = false.
Proof.
  unfold Z_token. rewrite has_char_app.
  destruct (unsigned_token_ok lz (Z.abs_N z)) as (Hd & _ & _).
  rewrite (has_char_digits "/" _ eq_refl Hd). destruct (z <? 0)%Z; reflexivity.
Qed.

(* Integer / Rational tokens of the 3.x syntax: the value read (after mpq_canonicalize) is the
   written fraction in lowest terms, whatever the leading zeros and common factors *)
Theorem num_token_exact (x : num) :
  match x with NDec _ => False | _ => True end ->
  exists t, num_tokens false x = [t] /\ mpq_str_value t = Some (Qred (num_value x)).
Proof.
  destruct x as [z lz | n lzn d lzd | l]; intros H; [| |contradiction].
  - eexists; split; [reflexivity|]. unfold mpq_str_value, mpq_str_raw.
    rewrite Z_token_no_slash, mpz_token_roundtrip. reflexivity.
  - eexists; split; [reflexivity|]. unfold mpq_str_value, mpq_str_raw.
    rewrite has_char_app. cbn [has_char existsb]. rewrite Ascii.eqb_refl, orb_true_r.
    rewrite take_until_app, drop_until_app by apply Z_token_no_slash.
    rewrite mpz_token_roundtrip.
    destruct (unsigned_token_ok lzd (Npos d)) as (Hd & Hn & Hv).
    rewrite mpz_digits, Hv by assumption. reflexivity.
Qed.

(* legacy 2.x rational: two tokens "n" "d" *)
Theorem num_tokens_legacy_exact n lzn d lzd :
  read_part_legacy_q (num_tokens true (NRat n lzn d lzd)) = Some (qraw (Qred (n # d)), []).
Proof.
  cbn [num_tokens read_part_legacy_q]. unfold mpq_str_value, mpq_str_raw.
  rewrite Z_token_no_slash, mpz_token_roundtrip.
  destruct (unsigned_token_ok lzd (Npos d)) as (Hd & Hn & Hv).
  rewrite (has_char_digits "/" _ eq_refl Hd), mpz_digits, Hv by assumption.
  cbn [option_map q_of_raw]. change (Z.of_N (N.pos d)) with (Z.pos d).
  assert (E : Qeq_bool (Qred (Z.pos d # 1)) 0 = false).
  { destruct (Qeq_bool (Qred (Z.pos d # 1)) 0) eqn:E; auto.
    apply Qeq_bool_eq in E. rewrite Qred_correct in E. unfold Qeq in E. simpl in E. lia. }
  rewrite E. do 3 f_equal. apply Qred_complete.
  rewrite !Qred_correct. unfold Qeq, Qdiv, Qmult, Qinv. simpl. lia.
Qed.

(* ------------------------------------------------------------------ letter case *)

Lemma ltrim_map_lower l : ltrim (map lower l) = map lower (ltrim l).
Proof. induction l as [|c r IH]; simpl; auto. rewrite is_space_lower. destruct (is_space c); auto. Qed.

Lemma forallb_space_lower l : forallb is_space (map lower l) = forallb is_space l.
Proof. induction l; simpl; auto. rewrite is_space_lower, IHl. reflexivity. Qed.

Lemma is_option_cmp_lower a : forall b, is_option_cmp (map lower a) b = is_option_cmp a b.
Proof.
  induction a as [|x a IH]; intros b.
  - destruct b; reflexivity.
  - destruct b as [|y b].
    + cbn [map is_option_cmp]. change (forallb is_space (lower x :: map lower a)) with (forallb is_space (map lower (x :: a))).
      apply forallb_space_lower.
    + cbn [map is_option_cmp]. rewrite lower_lower, IH. reflexivity.
Qed.

Lemma is_option_lower a b : is_option (map lower a) b = is_option a b.
Proof. unfold is_option. rewrite ltrim_map_lower. apply is_option_cmp_lower. Qed.

Lemma map_lower_apply_case mask : forall k, map lower (apply_case mask k) = map lower k.
Proof.
  induction mask as [|m mask IH]; intros k.
  - induction k; simpl; auto. f_equal; auto.
  - destruct k as [|c k]; [reflexivity|]. destruct m; cbn [apply_case map]; rewrite IH.
    + rewrite lower_upper. reflexivity.
    + rewrite lower_lower. reflexivity.
Qed.

Lemma is_option_case mask k b : is_option (apply_case mask k) b = is_option k b.
Proof. rewrite <- is_option_lower, map_lower_apply_case, is_option_lower. reflexivity. Qed.

(* the keyword recognised does not depend on the letter case it is written in *)
Theorem keyword_flag_case mask k : keyword_flag (apply_case mask k) = keyword_flag k.
Proof. unfold keyword_flag. rewrite !is_option_case. reflexivity. Qed.

(* ------------------------------------------------------------------ option order *)

Definition bind {A B} (o : option A) (f : A -> option B) : option B :=
  match o with Some x => f x | None => None end.

Fixpoint apply_options (st : settings) (l : list (flag * text)) : option settings :=
  match l with
  | [] => Some st
  | fv :: r => bind (apply_option st fv) (fun st' => apply_options st' r)
  end.

(* what an option writes *)
Definition opt_class (fv : flag * text) : nat :=
  match fst fv with
  | K_DEGREE => 0 | K_PRECISION => 1
  | F_SECULAR | F_MONOMIAL | F_CHEBYSHEV => 2
  | F_SPARSE | F_DENSE => 3
  | F_REAL | F_COMPLEX => 4
  | F_INTEGER | F_RATIONAL | F_FP => 5
  | F_UNDEF => 6
  end%nat.

Lemma apply_option_commute st a b :
  opt_class a <> opt_class b ->
  bind (apply_option st a) (fun s => apply_option s b) = bind (apply_option st b) (fun s => apply_option s a).
Proof.
  destruct a as [fa va], b as [fb vb]. destruct st as [s dn rp pr n].
  unfold opt_class; cbn [fst]. intro H.
  destruct fa, fb; try (exfalso; apply H; reflexivity);
    cbn [apply_option bind s_struct s_density s_repr s_prec s_n set_struct];
    repeat match goal with |- context [if (?x <=? 0)%Z then _ else _] => destruct (x <=? 0)%Z; cbn [bind] end;
    try reflexivity;
    destruct s; reflexivity.
Qed.

Lemma apply_options_perm l l' :
  Permutation l l' -> NoDup (map opt_class l) -> forall st, apply_options st l = apply_options st l'.
Proof.
  induction 1; intros ND st.
  - reflexivity.
  - cbn [apply_options]. destruct (apply_option st x); cbn [bind]; auto.
    apply IHPermutation. inversion ND; auto.
  - cbn [apply_options].
    assert (Hne : opt_class y <> opt_class x).
    { cbn [map] in ND. inversion ND as [|? ? Hin _]. intro E. apply Hin. left. congruence. }
    pose proof (apply_option_commute st y x Hne) as C.
    destruct (apply_option st y) as [sy|] eqn:Ey; destruct (apply_option st x) as [sx|] eqn:Ex; cbn [bind] in *.
    + rewrite C. reflexivity.
    + rewrite C. reflexivity.
    + rewrite <- C. reflexivity.
    + reflexivity.
  - rewrite IHPermutation1 by assumption. apply IHPermutation2.
    eapply Permutation_NoDup; [apply Permutation_map; eassumption | assumption].
Qed.

Lemma insert_at_perm {A} k (x : A) l : Permutation (insert_at k x l) (x :: l).
Proof.
  revert l; induction k as [|k IH]; intros l; [destruct l; reflexivity|].
  destruct l as [|y r]; [reflexivity|]. cbn [insert_at].
  rewrite IH. apply perm_swap.
Qed.

Lemma permute_perm {A} code : forall l : list A, Permutation (permute code l) l.
Proof.
  induction code as [|k c IH]; intros l.
  - induction l; simpl; auto.
  - destruct l as [|x r]; [reflexivity|]. cbn [permute]. rewrite insert_at_perm. constructor. apply IH.
Qed.

(* the settings reached do not depend on the order of the option lines: any permutation code,
   any set of options writing different fields *)
Theorem options_order_irrelevant code l st :
  NoDup (map opt_class l) -> apply_options st (permute code l) = apply_options st l.
Proof.
  intro ND. symmetry. apply apply_options_perm; auto. symmetry. apply permute_perm.
Qed.

(* ------------------------------------------------------------------ lines and comments *)

Lemma split_lines_aux_line cur l r :
  has_char ch_nl l = false ->
  split_lines_aux cur (l ++ ch_nl :: r) = (rev cur ++ l) :: split_lines_aux [] r.
Proof.
  revert cur; induction l as [|c l IH]; intros cur H.
  - cbn [app split_lines_aux]. rewrite Ascii.eqb_refl, app_nil_r. reflexivity.
  - cbn [has_char existsb] in H. apply orb_false_iff in H. destruct H as [H1 H2].
    cbn [app split_lines_aux]. rewrite H1, IH by exact H2. cbn [rev]. rewrite <- app_assoc. reflexivity.
Qed.

(* a text made of newline-terminated lines splits back into those lines *)
Theorem split_unlines ls :
  Forall (fun l => has_char ch_nl l = false) ls ->
  split_lines (concat (map (fun l => l ++ [ch_nl]) ls)) = ls.
Proof.
  unfold split_lines. induction 1 as [|l ls Hl _ IH]; [reflexivity|].
  cbn [map concat]. rewrite <- app_assoc. cbn [app].
  rewrite split_lines_aux_line by exact Hl. cbn [rev app]. f_equal. exact IH.
Qed.

(* comment lines (first character '!') and trailing comments never reach the parser *)
Theorem comments_irrelevant_lines pre post (body : text) :
  effective_lines (pre ++ ("!" :: body) :: post) = effective_lines (pre ++ post).
Proof.
  unfold effective_lines. rewrite !filter_app. cbn [filter starts_with_bang].
  rewrite Ascii.eqb_refl. reflexivity.
Qed.

Theorem trailing_comment_irrelevant (l body : text) :
  has_char "!" l = false -> strip_comment (l ++ "!" :: body) = l.
Proof. intro H. unfold strip_comment. apply take_until_app, H. Qed.

Lemma filler_line_tokens f : tokens (strip_comment (filler_line f)) = [].
Proof.
  destruct f as [n | lead body]; cbn [filler_line].
  - unfold strip_comment. rewrite take_until_none.
    + unfold tokens. induction n; simpl; auto.
    + induction n; simpl; auto.
  - unfold strip_comment. rewrite take_until_app.
    + unfold tokens. induction lead; simpl; auto.
    + induction lead; simpl; auto.
Qed.

(* ------------------------------------------------------------------ canonical storage in the string API *)

Lemma api_coeff_raw_canonical s :
  snd (api_coeff_raw s) <> 0%Z -> raw_canonical (api_coeff_raw s) = true.
Proof.
  unfold api_coeff_raw.
  set (X := match equiv_rational_string s with
            | Some s0 => match mpq_str_raw s0 with Some nd => nd | None => (0%Z, 1%Z) end
            | None => (0%Z, 1%Z) end).
  destruct X as [n d]. unfold canonicalize_raw, q_of_raw.
  assert (K : forall q, raw_canonical (Qnum (Qred q), Z.pos (Qden (Qred q))) = true).
  { intro q. unfold raw_canonical. pose proof (proj1 (Qred_iff (Qred q)) (Qred_involutive q)) as G.
    rewrite G. reflexivity. }
  destruct d; cbn [snd]; intro H; [congruence | apply K | apply K].
Qed.
