(* C10 / PolFile: what the readers make of numbers that do not fit the C type they are converted to
   (atoi, sscanf %d / %ld, the LOG2_10 product), and the witnesses on whole files.
   Style: stdlib (lia). *)
Require Import String Ascii List ZArith NArith QArith Bool Lia ZifyBool.
Require Import MPSV.PolFile.Chars MPSV.PolFile.DecRatModel MPSV.PolFile.PolModel MPSV.PolFile.CIntProofs
               MPSV.PolFile.PolProofs MPSV.PolFile.RoundTripText MPSV.PolFile.RoundTripLines MPSV.PolFile.RoundTripOptions
               MPSV.PolFile.RoundTripSettings MPSV.PolFile.V2Model.
Import ListNotations.
Local Open Scope char_scope.
Local Open Scope Z_scope.

(* ---- atoi / %d / %ld on a digit string of ANY length *)

Theorem atoi_exact_iff v : all_digits v -> v <> [] ->
  (atoi v = Z.of_N (digits_val v) <-> Z.of_N (digits_val v) <= INT_MAX).
Proof. intros H Hne. rewrite atoi_digits_c by auto. apply int_of_digits_exact_iff. Qed.

Theorem scan_int_exact_iff v : all_digits v -> v <> [] ->
  (scan_int v = Some (Z.of_N (digits_val v)) <-> Z.of_N (digits_val v) <= INT_MAX).
Proof.
  intros H Hne. rewrite scan_int_digits_c by auto. split.
  - intro E. injection E as E. apply int_of_digits_exact_iff, E.
  - intro B. f_equal. apply int_of_digits_small, B.
Qed.

Theorem scan_long_saturates v : all_digits v -> v <> [] ->
  scan_long v = Some (Z.min (Z.of_N (digits_val v)) LONG_MAX).
Proof.
  intros H Hne. rewrite scan_long_digits_c by auto. f_equal. unfold strtol_digits, sat_long, LONG_MIN, LONG_MAX.
  destruct (Z.of_N (digits_val v) <? _) eqn:A; [lia|]. destruct (_ <? Z.of_N (digits_val v)) eqn:B; lia.
Qed.

(* what atoi returns instead, silently: some int congruent to the value modulo 2^32 (value up to
   LONG_MAX), -1 beyond *)
Theorem atoi_silent_wrap v : all_digits v -> v <> [] ->
  let n := Z.of_N (digits_val v) in
  INT_MIN <= atoi v <= INT_MAX
  /\ (n <= LONG_MAX -> exists k, atoi v = n - k * 4294967296)
  /\ (LONG_MAX <= n -> atoi v = -1).
Proof.
  intros H Hne n. rewrite atoi_digits_c by auto. unfold int_of_digits. split; [apply wrap_int_range|]. split.
  - intro B. rewrite strtol_digits_small by exact B. apply wrap_int_congr.
  - intro B. apply int_of_digits_huge, B.
Qed.

(* the option loop: a Degree value beyond INT_MAX whose low 32 bits are a positive int is ACCEPTED,
   as that other degree *)
Theorem degree_option_wraps st v : all_digits v -> v <> [] ->
  INT_MAX < Z.of_N (digits_val v) -> 0 < int_of_digits false v ->
  exists st', apply_option st (K_DEGREE, v) = Some st' /\ s_n st' = int_of_digits false v
              /\ s_n st' <> Z.of_N (digits_val v).
Proof.
  intros H Hne Big Pos. cbn [apply_option]. rewrite atoi_digits_c by auto.
  destruct (int_of_digits false v <=? 0) eqn:E; [lia|].
  eexists; split; [reflexivity|]. cbn [s_n]. split; [reflexivity|].
  pose proof (wrap_int_range (strtol_digits false v)). unfold int_of_digits in *. lia.
Qed.

(* ---- witnesses on whole files (replayed on the real parsers by checks/C10.py) *)

Definition nl : text := [ch_nl].
Definition wit_degree_3x : text :=
  kw "Degree=4294967298;" ++ nl ++ kw "Integer;" ++ nl ++ kw "Real;" ++ nl ++ kw "1 2 3" ++ nl.
Definition wit_precision_3x : text :=
  kw "Degree=1;" ++ nl ++ kw "Precision=4294967306;" ++ nl ++ kw "Real;" ++ nl ++ kw "1.5 2.5" ++ nl.
Definition wit_index_3x : text :=
  kw "Degree=2;" ++ nl ++ kw "Sparse;" ++ nl ++ kw "Integer;" ++ nl ++ kw "Real;" ++ nl ++ kw "4294967296 7" ++ nl ++ kw "2 1" ++ nl.
Definition wit_index_cheb : text :=
  kw "Degree=2;" ++ nl ++ kw "Chebyshev;" ++ nl ++ kw "Sparse;" ++ nl ++ kw "Integer;" ++ nl ++ kw "Real;" ++ nl
  ++ kw "4294967297 7" ++ nl ++ kw "2 1" ++ nl.
Definition wit_degree_2x : text := kw "dri 0 4294967298 1 2 3" ++ nl.
Definition wit_index_2x : text := kw "sri 0 2 2 4294967296 7 2 1" ++ nl.
Definition wit_precision_2x : text := kw "dri 3000000000000000000 1 1 2" ++ nl.

Definition pdeg (r : result) : option Z := match r with Poly p => Some (p_degree p) | _ => None end.
Definition pprec (r : result) : option Z := match r with Poly p => Some (p_prec p) | _ => None end.
Definition pcoef (r : result) (i : nat) : option (raw * raw) :=
  match r with Poly p => nth_error (p_coeffs p) i | _ => None end.

Lemma witnesses_parse :
  pdeg (parse wit_degree_3x) = Some 2
  /\ pprec (parse wit_precision_3x) = Some 33
  /\ (pdeg (parse wit_index_3x) = Some 2 /\ pcoef (parse wit_index_3x) 0 = Some ((7, 1), (0, 1)))
  /\ (pdeg (parse wit_index_cheb) = Some 2 /\ pcoef (parse wit_index_cheb) 1 = Some ((7, 1), (0, 1)))
  /\ pdeg (parse wit_degree_2x) = Some 2
  /\ (pdeg (parse wit_index_2x) = Some 2 /\ pcoef (parse wit_index_2x) 0 = Some ((7, 1), (0, 1)))
  /\ pprec (parse wit_precision_2x) = Some LONG_MIN.
Proof. vm_compute. repeat split; reflexivity. Qed.

(* ---- the same numbers through range-checked conversions (what the proposed repair does): strtol with
   the ERANGE test and an explicit range *)
Definition checked_digits (lo hi : Z) (neg : bool) (ds : text) : option Z :=
  let v := Z.of_N (digits_val ds) in
  let z := if neg then - v else v in
  if (z <? lo) || (hi <? z) then None else Some z.

Theorem checked_digits_agrees lo hi ds : INT_MIN <= lo -> hi <= INT_MAX ->
  match checked_digits lo hi false ds with
  | Some z => int_of_digits false ds = z /\ z = Z.of_N (digits_val ds)
  | None => True end.
Proof.
  intros L Hh. unfold checked_digits.
  destruct ((Z.of_N (digits_val ds) <? lo) || (hi <? Z.of_N (digits_val ds))) eqn:E; [exact I|].
  split; [|reflexivity]. apply int_of_digits_small. lia.
Qed.
