(* C10 / PolFile: proofs about StoreModel.v (stdlib style).
   (a) build_equivalent_rational_string of common/inline-poly-parser.c on every well-formed decimal
       literal: the string, exponent and sign it hands back denote the literal; what it refuses;
       mps_utils_build_equivalent_rational_string is that function followed by utils_assemble.
   (b) floating-point descriptions end to end. *)
Require Import String Ascii List ZArith NArith QArith Qabs Qpower Qcanon Bool Lia.
Require Import MPSV.PolFile.Chars MPSV.PolFile.DecRatModel MPSV.PolFile.PolModel MPSV.PolFile.PolProofs
               MPSV.PolFile.DecRat MPSV.PolFile.FloatPrec MPSV.PolFile.StoreModel
               MPSV.PolFile.RoundTripText MPSV.PolFile.RoundTripLines MPSV.PolFile.RoundTripOptions
               MPSV.PolFile.RoundTripSettings MPSV.PolFile.RoundTrip MPSV.PolFile.V2Model MPSV.PolFile.RoundTripLegacy.
Import ListNotations.
Local Open Scope char_scope.

(* ------------------------------------------------------------------ (a) *)

Lemma pos_pow10 p : Zpos (Pos.pow 10 p) = Z.pow_pos 10 p.
Proof. rewrite Pos2Z.inj_pow. reflexivity. Qed.

Lemma scale10_spec m e : (scale10 m e == (m # 1) * (10 # 1) ^ e)%Q.
Proof.
  destruct e as [|p|p]; unfold scale10.
  - cbn [Qpower]. unfold Qeq, Qmult. simpl. ring.
  - assert (P : (Z.pow_pos 10 p # 1 == (10 # 1) ^ Zpos p)%Q) by (apply (Zpower_Qpower 10 (Zpos p)); lia).
    rewrite <- P. unfold Qeq, Qmult. simpl. ring.
  - assert (P : (Qpower_positive (10 # 1) p == Z.pow_pos 10 p # 1)%Q).
    { symmetry. apply (Zpower_Qpower 10 (Zpos p)). lia. }
    cbn [Qpower]. rewrite P, <- pos_pow10. unfold Qeq, Qmult, Qinv. simpl. ring.
Qed.

Lemma scale10_shift m a e : (scale10 m a * scale10 1 e == scale10 m (e + a))%Q.
Proof.
  rewrite !scale10_spec, Qpower_plus by discriminate.
  ring.
Qed.

Lemma Qopp_num m : (- (m # 1) == (- m) # 1)%Q.
Proof. reflexivity. Qed.

(* THE theorem for the copy of the conversion in common/inline-poly-parser.c: for every well-formed
   decimal literal (any mix of sign characters and blanks in front, digits, optional fraction,
   optional exponent e/E[+-]digits, leading zeros, ".5", "5.") it hands back a string of the form
   digits[/10..0] without superfluous leading zeros, the exponent as written and the parity of the
   '-' signs, and these three denote exactly the literal; the exponent was parsed without error *)
Theorem inline_ers_correct l : wf_api_lit l ->
  exists p, build_ers (render_declit l) = Some (p, expo_value (dl_exp l), sign_neg (dl_sign l), true)
            /\ ers_value (p, expo_value (dl_exp l), sign_neg (dl_sign l), true) = Some (declit_value l).
Proof.
  intro Hwf. destruct (build_ers_lit l Hwf) as (D' & E & A1 & A2 & A3).
  exists (D' ++ dpart (length (dl_frac l))). split; [exact E|].
  unfold ers_value.
  pose proof (final_string_value false D' (length (dl_frac l)) 0 A1 A2) as V.
  change (final_string false D' (length (dl_frac l)) 0) with (D' ++ dpart (length (dl_frac l))) in V.
  rewrite V. f_equal. unfold declit_value. rewrite A3. cbn [signedZ].
  set (v := Z.of_N (digits_val (dl_int l ++ dl_frac l))).
  set (a := (0 - Z.of_nat (length (dl_frac l)))%Z).
  replace (expo_value (dl_exp l) - Z.of_nat (length (dl_frac l)))%Z with (expo_value (dl_exp l) + a)%Z by (unfold a; lia).
  apply Qred_complete.
  destruct (sign_neg (dl_sign l)); rewrite Qred_correct.
  - rewrite <- scale10_shift. rewrite !scale10_spec. rewrite <- Qopp_num. ring.
  - apply scale10_shift.
Qed.

(* mps_utils_build_equivalent_rational_string = build_equivalent_rational_string, then utils_assemble *)
Theorem utils_uses_inline s :
  equiv_rational_string s =
  match build_ers s with Some (p, e, neg, _) => Some (utils_assemble p e neg) | None => None end.
Proof. unfold equiv_rational_string. destruct (build_ers s) as [[[[p e] neg] ok]|]; reflexivity. Qed.

(* ---- what is refused: a decimal point or an exponent together with a rational separator *)

Definition pmsign (c : ascii) : Prop := c = "+" \/ c = "-".

Lemma fp_sep_signs sg body : Forall pmsign sg -> find_fp_separator (sg ++ body) = find_fp_separator body.
Proof.
  induction 1 as [|c sg Hc _ IH]; [reflexivity|]. cbn [app find_fp_separator].
  destruct Hc; subst c; exact IH.
Qed.

Lemma refused_gen sg body :
  Forall pmsign sg -> forallb nosignb body = true ->
  match body with [] => True | c :: _ => is_space c = false end ->
  has_char "/" body = true ->
  (find_fp_separator body || has_char "e" body || has_char "E" body) = true ->
  build_ers (sg ++ body) = None.
Proof.
  intros Hsg NS Hhead SL FE. unfold build_ers. rewrite (fp_sep_signs sg body Hsg).
  assert (PS : parse_sign (sg ++ body) false = (fold_left (fun b c => if c =c? "-" then negb b else b) sg false, body)).
  { apply parse_sign_prefix.
    - eapply Forall_impl; [|exact Hsg]. intros c [H|H]; subst; [left|right; left]; reflexivity.
    - destruct body as [|c r]; [exact I|]. cbn [forallb] in NS. apply andb_true_iff in NS. destruct NS as [N1 _].
      unfold nosignb in N1. apply negb_true_iff, orb_false_iff in N1. destruct N1. repeat split; auto. }
  rewrite PS.
  assert (TR : truncated body = body).
  { destruct body as [|c r]; [reflexivity|]. cbn [truncated]. f_equal.
    cbn [forallb] in NS. apply andb_true_iff in NS. apply trunc_nosign, NS. }
  rewrite TR, SL, andb_true_r, FE. reflexivity.
Qed.

Lemma nosign_digits_sep ds c rest : all_digits ds -> nosignb c = true -> forallb nosignb rest = true ->
  forallb nosignb (ds ++ c :: rest) = true.
Proof. intros. rewrite forallb_app, (digits_nosign ds) by assumption. cbn [forallb andb]. rewrite H0. assumption. Qed.

Lemma has_char_mid x a b : has_char x (a ++ x :: b) = true.
Proof. rewrite has_char_app. cbn [has_char existsb]. rewrite Ascii.eqb_refl, orb_true_r. reflexivity. Qed.

Lemma digits_head_nonspace ds c rest : all_digits ds -> is_space c = false ->
  match ds ++ c :: rest with [] => True | h :: _ => is_space h = false end.
Proof. intros H Hc. destruct ds as [|d ds']; cbn [app]; [exact Hc|]. inversion H; subst. apply digit_not_space; auto. Qed.

(* "-12.5/3", "+.5/10", ... : refused (NULL) *)
Theorem signed_point_slash_refused sg ip fp T :
  Forall pmsign sg -> all_digits ip -> all_digits fp -> all_digits T ->
  build_ers (sg ++ ip ++ "." :: fp ++ "/" :: T) = None.
Proof.
  intros Hsg Hi Hf HT. apply refused_gen; auto.
  - apply nosign_digits_sep; auto. apply nosign_digits_sep; auto. apply digits_nosign, HT.
  - apply digits_head_nonspace; auto.
  - rewrite has_char_app. cbn [has_char existsb]. fold (has_char "/" (fp ++ "/" :: T)). rewrite has_char_mid, !orb_true_r. reflexivity.
  - rewrite sep_found by exact Hi. reflexivity.
Qed.

(* "1e5/3", "-2E10/7", ... : refused (NULL) *)
Theorem signed_exponent_slash_refused sg ip m ex T :
  Forall pmsign sg -> all_digits ip -> (m = "e" \/ m = "E") -> all_digits ex -> all_digits T ->
  build_ers (sg ++ ip ++ m :: ex ++ "/" :: T) = None.
Proof.
  intros Hsg Hi Hm He HT.
  assert (Nm : nosignb m = true /\ is_space m = false) by (destruct Hm; subst; split; reflexivity).
  apply refused_gen; auto.
  - apply nosign_digits_sep; try tauto. apply nosign_digits_sep; auto. apply digits_nosign, HT.
  - apply digits_head_nonspace; tauto.
  - rewrite has_char_app. cbn [has_char existsb]. fold (has_char "/" (ex ++ "/" :: T)). rewrite has_char_mid, !orb_true_r. reflexivity.
  - destruct Hm; subst m; rewrite has_char_mid, ?orb_true_r; reflexivity.
Qed.

(* ------------------------------------------------------------------ (b) *)
Local Open Scope Q_scope.

Lemma pow2Q_le_1 k : (0 <= k)%Z -> pow2Q (- k) <= 1.
Proof.
  intro H. destruct k as [|p|p]; [apply Qle_refl| |lia].
  cbn [Z.opp pow2Q]. unfold Qle. cbn [Qnum Qden]. lia.
Qed.

Lemma pow2Q_mono a b : (a <= b)%positive -> pow2Q (- Zpos b) <= pow2Q (- Zpos a).
Proof.
  intro H. replace (- Zpos b)%Z with (- Zpos a + - (Zpos b - Zpos a))%Z by lia.
  rewrite pow2Q_add. rewrite <- (Qmult_1_r (pow2Q (- Z.pos a))) at 2.
  apply Qmult_le_l; [apply pow2Q_pos|]. apply pow2Q_le_1. lia.
Qed.

(* truncation to AT LEAST the declared number of bits is within the declared precision *)
Theorem store_within bits B q : (bits <= B)%positive -> within_prec bits (trunc_bits B q) q.
Proof.
  intro H. unfold within_prec. destruct (trunc_bits_within B q) as [_ W].
  eapply Qle_trans; [exact W|]. rewrite !(Qmult_comm (Qabs q)).
  apply Qmult_le_compat_r; [apply pow2Q_mono, H|apply Qabs_nonneg].
Qed.

Lemma within_precb_iff bits s w : within_precb bits s w = true <-> within_prec bits s w.
Proof. apply Qle_bool_iff. Qed.

Lemma raw_Q_canon q : raw_Q (canon q) == q.
Proof.
  unfold raw_Q, canon. cbn [fst snd Z.to_pos].
  rewrite <- (Qred_correct q) at 3. destruct (Qred q); reflexivity.
Qed.

(* the bits of the property: declared digits * log2(10), 64 when nothing is declared *)
Lemma wf_prec_lt d : wf d -> match d_prec d with Some P => (Zpos P < 2 ^ 51)%Z | None => True end.
Proof.
  intros (_ & _ & _ & _ & _ & _ & Hpb). destruct (d_prec d) as [P|]; [|exact I].
  destruct (d_legacy d); [exact Hpb|apply prec3_lt, Hpb].
Qed.

Lemma declared_bits_denote d : wf d ->
  declared_bits (denote d) = match d_prec d with Some P => Z.to_pos (prec_bits (Zpos P)) | None => 64%positive end.
Proof.
  intro Hwf. apply wf_prec_lt in Hwf.
  unfold declared_bits, denote. cbn [p_prec]. destruct (d_prec d) as [P|]; [|reflexivity].
  pose proof (prec_bits_pos P Hwf). destruct (0 <? prec_bits (Z.pos P))%Z eqn:E; [reflexivity|lia].
Qed.

(* ONE end-to-end statement for FloatingPoint descriptions, every syntax, with or without a declared
   precision: the parser returns the polynomial whose coefficients are the exact values written, and
   every number of it, stored into an mpf of at least the declared precision (64 bits when none is
   declared), is within 2^-bits relative of the value written *)
Theorem float_end_to_end st pi d B :
  wf d -> d_ctype d = TFloat -> (declared_bits (denote d) <= B)%positive ->
  parse (render st pi d) = Poly (denote d)
  /\ is_fp (p_struct (denote d)) = true
  /\ Forall (fun r => within_prec (declared_bits (denote d)) (mpf_store B r) (raw_Q r)) (poly_parts (denote d)).
Proof.
  intros Hwf Hct HB. split; [apply parse_render_all, Hwf|]. split.
  - unfold denote. cbn [p_struct]. rewrite Hct. destruct (d_real d); reflexivity.
  - apply Forall_forall. intros r _. apply store_within, HB.
Qed.
