(* C10 / PolFile: the public coefficient setters of a monomial polynomial
   (src/libmps/monomial/monomial-poly.c), statement by statement, on the stores they write
   (definitions only; proofs in SetterProofs.v).

     mps_monomial_poly_set_coefficient_int (s, mp, i, long long re, long long im)       OpInt
     mps_monomial_poly_set_coefficient_q   (s, mp, i, mpq_t re, mpq_t im)               OpQ
     mps_monomial_poly_set_coefficient_s   (s, mp, i, const char *re, const char *im)   OpS  (NULL = None)
     mps_monomial_poly_set_coefficient_d   (s, mp, i, double re, double im)             OpD
     mps_monomial_poly_set_coefficient_f   (s, mp, i, mpc_t c)                          OpF

   Each setter first updates poly->structure from the value it is given (UNKNOWN after
   mps_monomial_poly_new), then ASSERTS that the structure is one it can serve (abort otherwise; _f has
   no assertion), then writes initial_mqp_r/i[i] (exact setters) and mfpc[i], and sets spar[i] to
   "the value is not zero".  The index is not checked (long int i): i > degree writes past the arrays.
   _s converts both strings with mps_utils_build_equivalent_rational_string (NULL gives "0"),
   mpq_set_str, mpq_canonicalize ([api_coeff_raw] of DecRatModel.v) and calls _q.
   mfpc[i]: after an exact setter it is mpf_set_q of the coefficient (a rounding: FFromQ), after _d / _f it
   is the value given, exactly (FExact: mpf of at least 53 bits resp. mpc_set_prec to the source's). *)
Require Import List Ascii ZArith NArith QArith Bool.
Require Import MPSV.PolFile.Chars MPSV.PolFile.DecRatModel MPSV.PolFile.PolModel.
Import ListNotations.

Inductive fpval := FZero | FExact (re im : Q) | FFromQ (c : raw * raw).

Record mstate := {
  m_struct : option structure;        (* None = MPS_STRUCTURE_UNKNOWN *)
  m_q : list (raw * raw);             (* initial_mqp_r[i], initial_mqp_i[i] *)
  m_fp : list fpval;                  (* mfpc[i] *)
  m_spar : list bool }.

(* mps_monomial_poly_new (s, n) *)
Definition m_new (n : nat) : mstate :=
  {| m_struct := None; m_q := repeat (raw0, raw0) (S n); m_fp := repeat FZero (S n); m_spar := repeat false (S n) |}.

Inductive op :=
| OpInt (i : nat) (a b : Z)
| OpQ (i : nat) (re im : raw)
| OpS (i : nat) (sr si : option text)
| OpD (i : nat) (x y : Q)
| OpF (i : nat) (x y : Q).

Inductive sres := SOk (m : mstate) | SAbort | SOutOfBounds.

Definition raw_nonzero (r : raw) : bool := negb (fst r =? 0)%Z.
Definition q_nonzero (q : Q) : bool := negb (Qnum q =? 0)%Z.

Definition string_raw (s : option text) : raw :=
  match s with None => raw0 | Some t => api_coeff_raw t end.

Definition struct_eqb (a b : structure) : bool :=
  match a, b with
  | S_RI, S_RI | S_RQ, S_RQ | S_RF, S_RF | S_CI, S_CI | S_CQ, S_CQ | S_CF, S_CF => true
  | _, _ => false end.

(* the structure after the two "Updating data_type information" statements, and whether the assertion holds *)
Definition struct_q (s : option structure) (im_nz : bool) : structure * bool :=
  let s1 := match s with None => if im_nz then S_CQ else S_RQ | Some x => x end in
  let s2 := if struct_eqb s1 S_RQ && im_nz then S_CQ else s1 in
  (s2, is_rational s2 || is_integer s2).
Definition struct_int (s : option structure) (im_nz : bool) : structure * bool :=
  let s1 := match s with None => if im_nz then S_CI else S_RI | Some x => x end in
  let s2 := if struct_eqb s1 S_RI && im_nz then S_CI else s1 in
  (s2, is_integer s2).
Definition struct_d (s : option structure) (im_nz : bool) : structure * bool :=
  let s1 := match s with None => if im_nz then S_CF else S_RF | Some x => x end in
  let s2 := if im_nz && struct_eqb s1 S_RF then S_CF else s1 in
  (s2, is_fp s2).
Definition struct_f (s : option structure) : structure :=
  match s with None => S_CF | Some x => x end.

Definition write_exact (m : mstate) (s : structure) (i : nat) (c : raw * raw) : mstate :=
  {| m_struct := Some s; m_q := upd i c (m_q m); m_fp := upd i (FFromQ c) (m_fp m);
     m_spar := upd i (raw_nonzero (fst c) || raw_nonzero (snd c)) (m_spar m) |}.
Definition write_fp (m : mstate) (s : structure) (i : nat) (x y : Q) : mstate :=
  {| m_struct := Some s; m_q := m_q m; m_fp := upd i (FExact x y) (m_fp m);
     m_spar := upd i (q_nonzero x || q_nonzero y) (m_spar m) |}.

Definition op_index (o : op) : nat :=
  match o with OpInt i _ _ | OpQ i _ _ | OpS i _ _ | OpD i _ _ | OpF i _ _ => i end.

Definition set_q (m : mstate) (i : nat) (re im : raw) : sres :=
  let (s, ok) := struct_q (m_struct m) (raw_nonzero im) in
  if ok then SOk (write_exact m s i (re, im)) else SAbort.

Definition step (m : mstate) (o : op) : sres :=
  if length (m_q m) <=? op_index o then SOutOfBounds else
  match o with
  | OpInt i a b =>
      let (s, ok) := struct_int (m_struct m) (negb (b =? 0)%Z) in
      if ok then SOk (write_exact m s i ((a, 1%Z), (b, 1%Z))) else SAbort
  | OpQ i re im => set_q m i re im
  | OpS i sr si => set_q m i (string_raw sr) (string_raw si)
  | OpD i x y =>
      let (s, ok) := struct_d (m_struct m) (q_nonzero y) in
      if ok then SOk (write_fp m s i x y) else SAbort
  | OpF i x y => SOk (write_fp m (struct_f (m_struct m)) i x y)
  end.

Fixpoint run (ops : list op) (m : mstate) : sres :=
  match ops with
  | [] => SOk m
  | o :: r => match step m o with SOk m' => run r m' | e => e end
  end.

(* mps_monomial_poly_get_coefficient_q: an error for a structure that is not exact, 0 outside 0..degree *)
Definition get_q (m : mstate) (i : nat) : option (raw * raw) :=
  match m_struct m with
  | Some s => if is_rational s || is_integer s then Some (nth i (m_q m) (raw0, raw0)) else None
  | None => None
  end.

(* what an operation writes into the exact store / whether it writes a non-zero value *)
Definition exact_write (o : op) : option (raw * raw) :=
  match o with
  | OpInt _ a b => Some ((a, 1%Z), (b, 1%Z))
  | OpQ _ re im => Some (re, im)
  | OpS _ sr si => Some (string_raw sr, string_raw si)
  | _ => None end.
Definition write_nonzero (o : op) : bool :=
  match o with
  | OpInt _ a b => negb (a =? 0)%Z || negb (b =? 0)%Z
  | OpQ _ re im => raw_nonzero re || raw_nonzero im
  | OpS _ sr si => raw_nonzero (string_raw sr) || raw_nonzero (string_raw si)
  | OpD _ x y | OpF _ x y => q_nonzero x || q_nonzero y end.
Definition imag_nonzero (o : op) : bool :=
  match o with
  | OpInt _ _ b => negb (b =? 0)%Z
  | OpQ _ _ im => raw_nonzero im
  | OpS _ _ si => raw_nonzero (string_raw si)
  | OpD _ _ y | OpF _ _ y => q_nonzero y end.

(* the last write to index i in a sequence (scanning from the left, keeping the latest) *)
Fixpoint last_exact (i : nat) (ops : list op) (acc : option (raw * raw)) : option (raw * raw) :=
  match ops with
  | [] => acc
  | o :: r => last_exact i r (if Nat.eqb (op_index o) i then match exact_write o with Some v => Some v | None => acc end else acc)
  end.
Fixpoint last_nonzero (i : nat) (ops : list op) (acc : option bool) : option bool :=
  match ops with
  | [] => acc
  | o :: r => last_nonzero i r (if Nat.eqb (op_index o) i then Some (write_nonzero o) else acc)
  end.

Inductive op_class := CInt | CRat | CFlt | CMpc.
Definition class_of (o : op) : op_class :=
  match o with OpInt _ _ _ => CInt | OpQ _ _ _ | OpS _ _ _ => CRat | OpD _ _ _ => CFlt | OpF _ _ _ => CMpc end.
