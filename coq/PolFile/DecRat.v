(* C10 / PolFile: the character-level decimal -> rational-string conversion (as coded) is correct on
   every well-formed decimal literal (stdlib style). *)
Require Import Ascii List ZArith NArith QArith Qcanon Bool Lia ZifyBool.
Require Import MPSV.PolFile.Chars MPSV.PolFile.DecRatModel MPSV.PolFile.PolProofs.
Import ListNotations.
Local Open Scope char_scope.

(* ---- character classes *)

Definition signchar (c : ascii) : Prop := c = "+" \/ c = "-" \/ is_space c = true.
Definition plainb (c : ascii) : bool :=      (* not one of the characters the scanners react to *)
  negb ((c =c? "e") || (c =c? "E") || (c =c? "x") || (c =c? "+") || (c =c? "-") || (c =c? ".") || (c =c? "/") || is_space c).

Lemma digit_plain c : is_digit c = true -> plainb c = true.
Proof.
  intro H. unfold plainb. rewrite !(digit_neq c _ H) by reflexivity. rewrite (digit_not_space c H). reflexivity.
Qed.

Lemma plain_facts c : plainb c = true ->
  (c =c? "e") = false /\ (c =c? "E") = false /\ (c =c? "x") = false /\ (c =c? "+") = false /\ (c =c? "-") = false
  /\ (c =c? ".") = false /\ (c =c? "/") = false /\ is_space c = false.
Proof.
  unfold plainb. intro H. apply negb_true_iff in H. repeat (apply orb_false_iff in H; destruct H as [H ?]). tauto.
Qed.

(* ---- parse_sign *)

Lemma parse_sign_prefix sg : forall rest neg, Forall signchar sg ->
  match rest with [] => True | c :: _ => is_space c = false /\ (c =c? "-") = false /\ (c =c? "+") = false end ->
  parse_sign (sg ++ rest) neg = (fold_left (fun b c => if c =c? "-" then negb b else b) sg neg, rest).
Proof.
  induction sg as [|c sg IH]; intros rest neg H Hr.
  - cbn [app fold_left]. destruct rest as [|c r]; [reflexivity|]. destruct Hr as (A & B & C).
    cbn [parse_sign]. rewrite A, B, C. reflexivity.
  - inversion H as [|? ? Hc Hsg]; subst. cbn [app parse_sign fold_left].
    assert (E : (is_space c || (c =c? "-") || (c =c? "+")) = true).
    { destruct Hc as [E|[E|E]]; subst; try reflexivity. rewrite E. reflexivity. }
    rewrite E. apply IH; auto.
Qed.

(* ---- the truncation scan leaves a literal alone *)

Lemma trunc_plain l : forall prev, forallb plainb l = true -> trunc_scan prev l = l.
Proof.
  induction l as [|c l IH]; intros prev H; [reflexivity|].
  cbn [forallb] in H. apply andb_true_iff in H. destruct H as [H1 H2].
  destruct (plain_facts c H1) as (_ & _ & _ & P & M & _).
  cbn [trunc_scan]. rewrite P, M. cbn [orb andb]. f_equal. apply IH, H2.
Qed.

Definition mant_char (c : ascii) : bool := plainb c || (c =c? ".").

Lemma trunc_mant A : forall prev B, forallb mant_char A = true ->
  exists prev', trunc_scan prev (A ++ B) = A ++ trunc_scan prev' B.
Proof.
  induction A as [|c A IH]; intros prev B H; [exists prev; reflexivity|].
  cbn [forallb] in H. apply andb_true_iff in H. destruct H as [H1 H2].
  assert (PM : (c =c? "+") = false /\ (c =c? "-") = false).
  { unfold mant_char in H1. apply orb_true_iff in H1. destruct H1 as [H1|H1].
    - destruct (plain_facts c H1) as (_ & _ & _ & P & M & _). auto.
    - apply Ascii.eqb_eq in H1. subst. split; reflexivity. }
  destruct PM as [P M]. destruct (IH c B H2) as [p' E]. exists p'.
  cbn [app trunc_scan]. rewrite P, M. cbn [orb andb]. f_equal. exact E.
Qed.

Lemma trunc_expo e prev : wf_expo false e -> trunc_scan prev (render_expo e) = render_expo e.
Proof.
  destruct e as [[m sg dg]|]; [|reflexivity]. cbn [wf_expo ex_mark ex_digits render_expo ex_sign].
  intros (Hm & Hd & _).
  assert (Hdg : forallb plainb dg = true).
  { apply forallb_forall. intros x Hx. apply digit_plain. apply (proj1 (Forall_forall _ _) Hd x Hx). }
  assert (Em : (m =c? "e") || (m =c? "E") = true /\ (m =c? "+") = false /\ (m =c? "-") = false).
  { destruct Hm as [E|[E|[E _]]]; [subst m; auto|subst m; auto|discriminate]. }
  destruct Em as (E1 & E2 & E3).
  cbn [trunc_scan]. rewrite E2, E3. cbn [orb andb]. f_equal.
  destruct sg; cbn [render_esign app].
  - apply trunc_plain, Hdg.
  - cbn [trunc_scan]. change ("+" =c? "+") with true. rewrite E1. cbn [orb andb negb]. f_equal. apply trunc_plain, Hdg.
  - cbn [trunc_scan]. change ("-" =c? "+") with false. change ("-" =c? "-") with true. rewrite E1. cbn [orb andb negb].
    f_equal. apply trunc_plain, Hdg.
Qed.

(* ---- the copy loop *)

Lemma copy_digits ds : forall rest dot den acc, all_digits ds ->
  copy_loop (ds ++ rest) dot den acc = copy_loop rest dot (if dot then (den + length ds)%nat else den) (rev ds ++ acc).
Proof.
  induction ds as [|c ds IH]; intros rest dot den acc H.
  - cbn [app length rev]. destruct dot; [rewrite Nat.add_0_r|]; reflexivity.
  - inversion H as [|? ? Hc Hds]; subst.
    destruct (plain_facts c (digit_plain c Hc)) as (A & B & C & D & E & F & _).
    cbn [app copy_loop]. rewrite A, B, C, D, E, F. cbn [orb]. rewrite IH by exact Hds.
    cbn [length rev]. rewrite <- app_assoc. cbn [app]. destruct dot; [f_equal; lia|reflexivity].
Qed.

Definition expo_text (e : option expo) : option text :=
  match e with None => None | Some x => Some (render_esign (ex_sign x) ++ ex_digits x) end.

Lemma copy_expo e dot den acc : wf_expo false e ->
  copy_loop (render_expo e) dot den acc = (acc, den, expo_text e).
Proof.
  destruct e as [[m sg dg]|]; [|reflexivity]. cbn [wf_expo ex_mark render_expo expo_text ex_sign ex_digits].
  intros (Hm & _). cbn [copy_loop].
  assert (E : (m =c? "e") || (m =c? "E") = true) by (destruct Hm as [E|[E|[E _]]]; [subst m; auto|subst m; auto|discriminate]).
  rewrite E. reflexivity.
Qed.

(* ---- the exponent *)

Lemma no_x_digits l : all_digits l -> has_char "x" l = false.
Proof. apply has_char_digits. reflexivity. Qed.

Lemma strtol_expo sg dg : all_digits dg -> dg <> [] ->
  strtol (render_esign sg ++ dg) = (match sg with EMinus => (- Z.of_N (digits_val dg))%Z | _ => Z.of_N (digits_val dg) end, true).
Proof.
  intros Hd Hne. unfold strtol.
  assert (SD : span_digits dg = (dg, [])).
  { clear Hne. induction Hd as [|c dg Hc _ IH]; [reflexivity|]. cbn [span_digits]. rewrite Hc, IH. reflexivity. }
  destruct dg as [|c0 dg0] eqn:EDG; [congruence|]. rewrite <- EDG in *.
  assert (Hc0 : is_digit c0 = true) by (rewrite EDG in Hd; inversion Hd; auto).
  destruct sg; cbn [render_esign app].
  - rewrite EDG. rewrite ltrim_nonspace by (apply digit_not_space; exact Hc0).
    rewrite !(digit_neq c0 _ Hc0) by reflexivity. rewrite <- EDG, SD. rewrite EDG. reflexivity.
  - rewrite ltrim_nonspace by reflexivity. change ("+" =c? "-") with false. change ("+" =c? "+") with true. cbv iota.
    rewrite SD, EDG. reflexivity.
  - rewrite ltrim_nonspace by reflexivity. change ("-" =c? "-") with true. cbv iota. rewrite SD, EDG. reflexivity.
Qed.

Lemma parse_fp_exponent_ok e x : wf_expo false (Some x) -> e = Some x ->
  parse_fp_exponent (render_esign (ex_sign x) ++ ex_digits x) = (expo_value e, true).
Proof.
  intros (Hm & Hd & Hne) ->. unfold parse_fp_exponent.
  rewrite take_until_none.
  - rewrite strtol_expo by assumption. unfold expo_value. destruct (ex_sign x); reflexivity.
  - rewrite has_char_app, (no_x_digits _ Hd). destruct (ex_sign x); reflexivity.
Qed.

(* ---- leading zeros *)

Lemma strip_lz_digits D : forall tail, all_digits D -> D <> [] ->
  match tail with [] => True | c :: _ => is_digit c = false end ->
  exists D', strip_lz (D ++ tail) = D' ++ tail /\ all_digits D' /\ D' <> [] /\ digits_val D' = digits_val D.
Proof.
  induction D as [|c D IH]; intros tail H Hne Ht; [congruence|].
  inversion H as [|? ? Hc HD]; subst.
  destruct D as [|c' D'].
  - exists [c]. repeat split; auto; try discriminate.
    cbn [app strip_lz]. destruct tail as [|t tl]; [reflexivity|]. rewrite Ht, andb_false_r. reflexivity.
  - cbn [app strip_lz]. inversion HD as [|? ? Hc' _]; subst. rewrite Hc', andb_true_r.
    destruct (c =c? "0") eqn:E0.
    + destruct (IH tail HD ltac:(discriminate) Ht) as (D2 & E & A & B & V).
      exists D2. repeat split; auto. rewrite V. apply Ascii.eqb_eq in E0. subst c.
      rewrite (digits_val_cons "0"). unfold digit_val. cbn. lia.
    + exists (c :: c' :: D'). repeat split; auto; try discriminate.
Qed.

(* ---- build_equivalent_rational_string on a literal *)

Definition dpart (n : nat) : text := match n with O => [] | _ => "/" :: "1" :: zeros n end.

Definition mantissa (l : declit) : text := dl_int l ++ (if dl_dot l then "." :: dl_frac l else []).

Lemma render_split l : render_declit l = dl_sign l ++ mantissa l ++ render_expo (dl_exp l).
Proof. unfold render_declit, mantissa. rewrite <- !app_assoc. reflexivity. Qed.

Lemma digits_plainb ds : all_digits ds -> forallb plainb ds = true.
Proof. intro H. apply forallb_forall. intros x Hx. apply digit_plain, (proj1 (Forall_forall _ _) H x Hx). Qed.

Lemma mantissa_chars l : wf_body l -> forallb mant_char (mantissa l) = true.
Proof.
  intros (Hi & Hf & _). unfold mantissa. rewrite forallb_app. apply andb_true_iff. split.
  - apply forallb_forall. intros x Hx. unfold mant_char. rewrite (digit_plain x); auto. apply (proj1 (Forall_forall _ _) Hi x Hx).
  - destruct (dl_dot l); [|reflexivity]. cbn [forallb]. apply andb_true_iff. split; [reflexivity|].
    apply forallb_forall. intros x Hx. unfold mant_char. rewrite (digit_plain x); auto. apply (proj1 (Forall_forall _ _) Hf x Hx).
Qed.

Lemma mantissa_head l : wf_body l ->
  exists c r, mantissa l = c :: r /\ is_space c = false /\ (c =c? "-") = false /\ (c =c? "+") = false.
Proof.
  intros (Hi & Hf & Hdot & Hne). unfold mantissa. destruct (dl_int l) as [|c ip] eqn:EI.
  - destruct (dl_dot l) eqn:ED.
    + exists ".", (dl_frac l). repeat split; reflexivity.
    + rewrite (Hdot eq_refl) in Hne. cbn in Hne. congruence.
  - exists c, (ip ++ (if dl_dot l then "." :: dl_frac l else [])). inversion Hi; subst.
    destruct (plain_facts c (digit_plain c H1)) as (_ & _ & _ & P & M & _ & _ & S). repeat split; auto.
Qed.

Lemma has_slash_lit l : wf_body l -> wf_expo false (dl_exp l) ->
  has_char "/" (mantissa l ++ render_expo (dl_exp l)) = false.
Proof.
  intros (Hi & Hf & _) He. unfold mantissa.
  assert (A : has_char "/" (dl_int l ++ (if dl_dot l then "." :: dl_frac l else [])) = false).
  { rewrite has_char_app, (has_char_digits "/" _ eq_refl Hi).
    destruct (dl_dot l); [|reflexivity]. cbn [has_char existsb orb]. apply (has_char_digits "/" _ eq_refl Hf). }
  rewrite has_char_app.
  rewrite A. destruct (dl_exp l) as [[m sg dg]|]; [|reflexivity].
  cbn [wf_expo ex_mark ex_digits render_expo ex_sign] in *. destruct He as (Hm & Hd & _).
  cbn [has_char existsb]. fold (has_char "/" (render_esign sg ++ dg)). rewrite has_char_app, (has_char_digits "/" _ eq_refl Hd).
  destruct Hm as [E|[E|[E _]]]; [subst m|subst m|discriminate]; destruct sg; reflexivity.
Qed.

Lemma sign_neg_fold sg : sign_neg sg = fold_left (fun b c => if c =c? "-" then negb b else b) sg false.
Proof. reflexivity. Qed.

Theorem build_ers_lit l : wf_api_lit l ->
  exists D', build_ers (render_declit l)
             = Some (D' ++ dpart (length (dl_frac l)), expo_value (dl_exp l), sign_neg (dl_sign l), true)
             /\ all_digits D' /\ D' <> [] /\ digits_val D' = digits_val (dl_int l ++ dl_frac l).
Proof.
  intros (Hs & Hb & He).
  pose proof Hb as (Hi & Hf & Hdot & Hne).
  destruct (mantissa_head l Hb) as (c & r & EM & Hc1 & Hc2 & Hc3).
  set (X := render_expo (dl_exp l)).
  assert (D0 : exists D', strip_lz ((dl_int l ++ dl_frac l) ++ dpart (length (dl_frac l))) = D' ++ dpart (length (dl_frac l))
                          /\ all_digits D' /\ D' <> [] /\ digits_val D' = digits_val (dl_int l ++ dl_frac l)).
  { apply strip_lz_digits; auto using all_digits_app. destruct (length (dl_frac l)); exact I || reflexivity. }
  destruct D0 as (D' & ES & A1 & A2 & A3). exists D'. split; [|auto].
  unfold build_ers. rewrite render_split. fold X.
  rewrite parse_sign_prefix.
  2:{ eapply Forall_impl; [|exact Hs]. intros x Hx. exact Hx. }
  2:{ rewrite EM. cbn [app]. auto. }
  rewrite <- sign_neg_fold.
  (* truncation *)
  assert (TR : truncated (mantissa l ++ X) = mantissa l ++ X).
  { rewrite EM. cbn [app truncated]. f_equal.
    pose proof (mantissa_chars l Hb) as MC. rewrite EM in MC. cbn [forallb] in MC. apply andb_true_iff in MC.
    destruct (trunc_mant r c X (proj2 MC)) as [p' E]. rewrite E. unfold X. rewrite trunc_expo by exact He. reflexivity. }
  rewrite TR. pose proof (has_slash_lit l Hb He) as HS. fold X in HS. rewrite HS, andb_false_r.
  (* the copy loop *)
  assert (CL : copy_loop (mantissa l ++ X) false 0 [] =
               (rev (dl_int l ++ dl_frac l), length (dl_frac l), expo_text (dl_exp l))).
  { unfold mantissa. rewrite <- app_assoc, copy_digits by exact Hi. rewrite app_nil_r.
    destruct (dl_dot l) eqn:ED.
    - cbn [app copy_loop]. change (("." =c? "e") || ("." =c? "E")) with false.
      change (("." =c? "x") || ("." =c? "+") || ("." =c? "-")) with false. change ("." =c? ".") with true. cbv iota.
      rewrite copy_digits by exact Hf. unfold X. rewrite copy_expo by exact He. rewrite rev_app_distr. reflexivity.
    - rewrite (Hdot eq_refl). cbn [app length]. unfold X. rewrite copy_expo by exact He. rewrite app_nil_r. reflexivity. }
  rewrite CL.
  assert (EX : match expo_text (dl_exp l) with Some t => parse_fp_exponent t | None => (0%Z, true) end
               = (expo_value (dl_exp l), true)).
  { destruct (dl_exp l) as [x|] eqn:EE; [|reflexivity]. cbn [expo_text]. apply parse_fp_exponent_ok; auto. }
  rewrite EX. rewrite rev_involutive.
  assert (NX : take_until "x" ((dl_int l ++ dl_frac l) ++ match length (dl_frac l) with O => [] | S _ => "/" :: "1" :: zeros (length (dl_frac l)) end)
               = (dl_int l ++ dl_frac l) ++ dpart (length (dl_frac l))).
  { apply take_until_none. rewrite has_char_app, (no_x_digits _ (all_digits_app _ _ Hi Hf)).
    unfold dpart. destruct (length (dl_frac l)) as [|n]; [reflexivity|]. cbn [has_char existsb].
    apply (has_char_digits "x" (zeros (S n)) eq_refl (zeros_digits (S n))). }
  rewrite NX, ES. reflexivity.
Qed.

(* ---- from the pieces to the final string and its value *)

Definition sgnt (neg : bool) : text := if neg then ["-"] else [].
Definition signedZ (neg : bool) (v : Z) : Z := if neg then (- v)%Z else v.

Lemma strip_string_nonspace p : Forall (fun c => is_space c = false) p -> strip_string p = p.
Proof.
  intro H. unfold strip_string, rtrim.
  assert (L : forall q, Forall (fun c => is_space c = false) q -> ltrim q = q).
  { intros q Hq. destruct Hq; [reflexivity|]. apply ltrim_nonspace; auto. }
  rewrite (L p H), (L (rev p)) by (apply Forall_rev; exact H). apply rev_involutive.
Qed.

Lemma digits_nonspace ds : all_digits ds -> Forall (fun c => is_space c = false) ds.
Proof. intro H. eapply Forall_impl; [|exact H]. intros; apply digit_not_space; auto. Qed.

Lemma dpart_nonspace n : Forall (fun c => is_space c = false) (dpart n).
Proof.
  destruct n; [constructor|]. cbn [dpart]. constructor; [reflexivity|]. constructor; [reflexivity|].
  apply (digits_nonspace _ (zeros_digits (S n))).
Qed.

Lemma zeros_app a b : zeros a ++ zeros b = zeros (a + b).
Proof. unfold zeros. symmetry. apply repeat_app. Qed.

Lemma has_slash_digits ds : all_digits ds -> has_char "/" ds = false.
Proof. apply has_char_digits. reflexivity. Qed.

Lemma has_slash_sgnt neg ds : all_digits ds -> has_char "/" (sgnt neg ++ ds) = false.
Proof. intro H. rewrite has_char_app, (has_slash_digits ds H). destruct neg; reflexivity. Qed.

Lemma mpz_signed neg N : all_digits N -> N <> [] ->
  mpz_str_value (sgnt neg ++ N) = Some (signedZ neg (Z.of_N (digits_val N))).
Proof.
  intros H Hne. destruct neg; cbn [sgnt app signedZ]; [|apply mpz_digits; auto].
  unfold mpz_str_value. rewrite Ascii.eqb_refl. destruct N; [congruence|].
  rewrite (all_digitsb_true _ H). reflexivity.
Qed.

Lemma digits_val_one_zeros m : digits_val ("1" :: zeros m) = (10 ^ N.of_nat m)%N.
Proof.
  rewrite digits_val_cons, digits_val_zeros. unfold zeros. rewrite repeat_length.
  change (digit_val "1") with 1%N. lia.
Qed.

(* the final strings all have the shape  [-] digits [ /1 0...0 ] *)
Lemma raw_form neg N m : all_digits N -> N <> [] ->
  mpq_str_raw (sgnt neg ++ N ++ dpart m) = Some (signedZ neg (Z.of_N (digits_val N)), Z.of_N (10 ^ N.of_nat m)).
Proof.
  intros H Hne. unfold mpq_str_raw. destruct m as [|m].
  - cbn [dpart]. rewrite app_nil_r, has_slash_sgnt, mpz_signed by auto. reflexivity.
  - cbn [dpart]. rewrite app_assoc.
    assert (HS : has_char "/" ((sgnt neg ++ N) ++ "/" :: "1" :: zeros (S m)) = true).
    { rewrite has_char_app. cbn [has_char existsb]. rewrite Ascii.eqb_refl, orb_true_r. reflexivity. }
    rewrite HS, take_until_app, drop_until_app by (apply has_slash_sgnt; auto).
    rewrite mpz_signed by auto.
    rewrite mpz_digits; [|constructor; [reflexivity|apply zeros_digits]|discriminate].
    rewrite digits_val_one_zeros. reflexivity.
Qed.

Definition final_string (neg : bool) (D' : text) (lf : nat) (e : Z) : text :=
  let p := D' ++ dpart lf in
  let s := if neg then match p with c :: r => if c =c? "-" then " " :: r else "-" :: p | [] => ["-"] end else p in
  match e with
  | Z0 => s
  | Zpos k => insert_before_slash s (zeros (Pos.to_nat k))
  | Zneg k => (if has_char "/" s then s else s ++ ["/"; "1"]) ++ zeros (Pos.to_nat k)
  end.

Lemma final_string_shape neg D' lf e : all_digits D' -> D' <> [] ->
  exists N m, final_string neg D' lf e = sgnt neg ++ N ++ dpart m /\ all_digits N /\ N <> []
    /\ exists a b, Z.of_N (digits_val N) = (Z.of_N (digits_val D') * 10 ^ Z.of_nat a)%Z /\ m = b
                   /\ (Z.of_nat a - Z.of_nat b = e - Z.of_nat lf)%Z.
Proof.
  intros H Hne. unfold final_string.
  assert (S1 : (if neg then match D' ++ dpart lf with c :: r => if c =c? "-" then " " :: r else "-" :: D' ++ dpart lf | [] => ["-"] end
                else D' ++ dpart lf) = sgnt neg ++ D' ++ dpart lf).
  { destruct neg; [|reflexivity]. destruct D' as [|c r]; [congruence|]. cbn [app].
    inversion H; subst. rewrite (digit_neq c "-" H2 eq_refl). reflexivity. }
  rewrite S1.
  assert (HSl : has_char "/" (sgnt neg ++ D' ++ dpart lf) = match lf with O => false | _ => true end).
  { rewrite app_assoc, has_char_app, has_slash_sgnt by auto. destruct lf; [reflexivity|]. cbn. reflexivity. }
  destruct e as [|k|k].
  - exists D', lf. repeat split; auto. exists 0%nat, lf. repeat split; lia.
  - exists (D' ++ zeros (Pos.to_nat k)), lf. split; [|split; [apply all_digits_app; auto using zeros_digits|split]].
    + unfold insert_before_slash. rewrite HSl. destruct lf as [|lf].
      * cbn [dpart]. rewrite !app_nil_r, <- app_assoc. reflexivity.
      * cbn [dpart]. rewrite (app_assoc (sgnt neg) D'), take_until_app, drop_until_app by (apply has_slash_sgnt; auto).
        rewrite <- !app_assoc. reflexivity.
    + intro E. apply app_eq_nil in E. tauto.
    + exists (Pos.to_nat k), lf. repeat split; [|lia].
      rewrite digits_val_app, digits_val_zeros. unfold zeros. rewrite repeat_length.
      rewrite N.add_0_r, N2Z.inj_mul, N2Z.inj_pow, nat_N_Z. reflexivity.
  - exists D', (lf + Pos.to_nat k)%nat. split; [|split; [auto|split; [auto|]]].
    + rewrite HSl. destruct lf as [|lf].
      * cbn [dpart]. rewrite !app_nil_r, <- !app_assoc. cbn [app plus].
        destruct (Pos.to_nat k) eqn:EK; [lia|]. reflexivity.
      * cbn [dpart plus]. rewrite <- !app_assoc. cbn [app]. rewrite zeros_app. reflexivity.
    + exists 0%nat, (lf + Pos.to_nat k)%nat. repeat split; lia.
Qed.

Lemma scale_eq (sv : Z) (a b : nat) (e : Z) (p : positive) :
  Zpos p = (10 ^ Z.of_nat b)%Z -> (Z.of_nat a - Z.of_nat b = e)%Z ->
  (sv * 10 ^ Z.of_nat a) # p == scale10 sv e.
Proof.
  intros Hp He. unfold scale10. destruct e as [|q|q]; unfold Qeq; cbn [Qnum Qden].
  - assert (E : Z.of_nat a = Z.of_nat b) by lia. rewrite Hp, E. ring.
  - change (Z.pow_pos 10 q) with (10 ^ Z.pos q)%Z. rewrite Hp.
    replace (Z.of_nat a) with (Z.pos q + Z.of_nat b)%Z by lia. rewrite Z.pow_add_r by lia. ring.
  - rewrite Pos2Z.inj_pow, Hp.
    replace (Z.of_nat b) with (Z.of_nat a + Z.pos q)%Z by lia. rewrite Z.pow_add_r by lia. ring.
Qed.

Lemma final_string_value neg D' lf e : all_digits D' -> D' <> [] ->
  mpq_str_value (final_string neg D' lf e)
  = Some (Qred (scale10 (signedZ neg (Z.of_N (digits_val D'))) (e - Z.of_nat lf))).
Proof.
  intros H Hne.
  destruct (final_string_shape neg D' lf e H Hne) as (N & m & E & HN & HNne & a & b & EV & Em & Eab).
  unfold mpq_str_value. rewrite E, raw_form by auto. subst m.
  assert (P : exists p, Z.of_N (10 ^ N.of_nat b) = Zpos p /\ Zpos p = (10 ^ Z.of_nat b)%Z).
  { rewrite N2Z.inj_pow, nat_N_Z. change (Z.of_N 10) with 10%Z.
    assert (0 < 10 ^ Z.of_nat b)%Z by (apply Z.pow_pos_nonneg; lia).
    destruct (10 ^ Z.of_nat b)%Z as [|p|p] eqn:EP; try lia. exists p. auto. }
  destruct P as (p & P1 & P2). rewrite P1. cbn [q_of_raw]. f_equal. apply Qred_complete.
  rewrite <- (scale_eq _ a b _ p P2 Eab).
  unfold Qeq. cbn [Qnum Qden]. f_equal. destruct neg; cbn [signedZ]; rewrite EV; ring.
Qed.

Lemma equiv_final l D' : build_ers (render_declit l)
      = Some (D' ++ dpart (length (dl_frac l)), expo_value (dl_exp l), sign_neg (dl_sign l), true) ->
  all_digits D' ->
  equiv_rational_string (render_declit l)
  = Some (final_string (sign_neg (dl_sign l)) D' (length (dl_frac l)) (expo_value (dl_exp l))).
Proof.
  intros E H. unfold equiv_rational_string. rewrite E.
  rewrite strip_string_nonspace by (apply Forall_app; split; [apply digits_nonspace, H|apply dpart_nonspace]).
  reflexivity.
Qed.

(* THE theorem: for every well-formed decimal literal (sign characters, digits, optional fraction,
   optional exponent e/E[+-]digits) the string produced by the conversion is a rational string and
   denotes exactly the value of the literal *)
Theorem decrat_correct l : wf_api_lit l ->
  exists s, equiv_rational_string (render_declit l) = Some s /\ mpq_str_value s = Some (declit_value l).
Proof.
  intro Hwf. destruct (build_ers_lit l Hwf) as (D' & E & A1 & A2 & A3).
  eexists. split; [apply (equiv_final l D' E A1)|].
  rewrite final_string_value by auto. unfold declit_value. rewrite A3.
  unfold signedZ. reflexivity.
Qed.

(* what mps_monomial_poly_set_coefficient_s stores for a well-formed literal is its value *)
Theorem api_value_correct l : wf_api_lit l -> api_coeff_value (render_declit l) = Some (declit_value l).
Proof.
  intro Hwf. destruct (decrat_correct l Hwf) as (s & E1 & E2).
  unfold api_coeff_value, api_coeff_raw. rewrite E1.
  unfold mpq_str_value in E2. destruct (mpq_str_raw s) as [nd|]; [|discriminate].
  unfold canonicalize_raw. rewrite E2.
  unfold declit_value. cbn [q_of_raw].
  set (q := Qred (scale10 _ _)). f_equal.
  assert (Eq : Qred (Qnum q # Qden q) = q).
  { replace (Qnum q # Qden q) with q by (destruct q; reflexivity). apply Qred_involutive. }
  exact Eq.
Qed.

(* ---- malformed: a decimal fraction with a rational separator is refused (NULL) *)

Lemma sep_found ip rest : all_digits ip -> find_fp_separator (ip ++ "." :: rest) = true.
Proof.
  induction 1 as [|c ip Hc _ IH]; [reflexivity|].
  cbn [app find_fp_separator]. rewrite (digit_not_space c Hc), (digit_neq c "." Hc eq_refl). exact IH.
Qed.

Definition nosignb (c : ascii) : bool := negb ((c =c? "+") || (c =c? "-")).

Lemma trunc_nosign l : forall prev, forallb nosignb l = true -> trunc_scan prev l = l.
Proof.
  induction l as [|c l IH]; intros prev H; [reflexivity|].
  cbn [forallb] in H. apply andb_true_iff in H. destruct H as [H1 H2].
  unfold nosignb in H1. apply negb_true_iff in H1. cbn [trunc_scan]. rewrite H1. cbn [andb]. f_equal. apply IH, H2.
Qed.

Lemma digits_nosign ds : all_digits ds -> forallb nosignb ds = true.
Proof.
  intro H. apply forallb_forall. intros x Hx. pose proof (proj1 (Forall_forall _ _) H x Hx) as Hd.
  unfold nosignb. rewrite !(digit_neq x _ Hd) by reflexivity. reflexivity.
Qed.

Theorem decimal_with_slash_refused ip fp T :
  all_digits ip -> all_digits fp -> all_digits T ->
  equiv_rational_string (ip ++ "." :: fp ++ "/" :: T) = None.
Proof.
  intros Hi Hf HT. unfold equiv_rational_string, build_ers.
  rewrite sep_found by exact Hi.
  set (s := ip ++ "." :: fp ++ "/" :: T).
  assert (NS : forallb nosignb s = true).
  { unfold s. rewrite forallb_app, (digits_nosign ip Hi). cbn [forallb andb]. change (nosignb ".") with true. cbn [andb].
    rewrite forallb_app, (digits_nosign fp Hf). cbn [forallb andb]. change (nosignb "/") with true. cbn [andb].
    apply digits_nosign, HT. }
  assert (PS : parse_sign s false = (false, s)).
  { apply (parse_sign_prefix [] s false); [constructor|].
    unfold s. destruct ip as [|c ip']; cbn [app]; [repeat split; reflexivity|].
    inversion Hi; subst. destruct (plain_facts c (digit_plain c H1)) as (_ & _ & _ & P & M & _ & _ & S). auto. }
  rewrite PS.
  assert (TR : truncated s = s).
  { destruct s as [|c r] eqn:Es; [reflexivity|]. cbn [truncated]. f_equal.
    cbn [forallb] in NS. apply andb_true_iff in NS. apply trunc_nosign, NS. }
  rewrite TR.
  assert (SL : has_char "/" s = true).
  { unfold s. rewrite has_char_app. cbn [has_char existsb]. fold (has_char "/" (fp ++ "/" :: T)).
    rewrite has_char_app. cbn [has_char existsb]. rewrite Ascii.eqb_refl, !orb_true_r. reflexivity. }
  rewrite SL. reflexivity.
Qed.
