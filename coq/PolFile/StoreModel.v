(* C10 / PolFile: (a) what the pieces handed back by build_equivalent_rational_string
   (common/inline-poly-parser.c) denote, and the part of the work that
   mps_utils_build_equivalent_rational_string (common/utils.c) does itself;
   (b) the property's predicate for floating-point coefficients and the model of the store into an
   mpf of a given precision.  Definitions only; proofs in StoreProofs.v. *)
Require Import List Ascii ZArith NArith QArith Qabs Bool.
Require Import MPSV.PolFile.Chars MPSV.PolFile.DecRatModel MPSV.PolFile.PolModel.
Import ListNotations.
Local Open Scope char_scope.

(* ------------------------------------------------------------------ (a) the inline conversion *)

(* build_equivalent_rational_string returns a string p and, through pointers, a decimal exponent e and
   a sign; together they stand for  sign * p * 10^e  with p read by mpq_set_str *)
Definition ers_value (r : text * Z * bool * bool) : option Q :=
  let '(p, e, neg, _) := r in
  match mpq_str_value p with
  | Some q => Some (Qred ((if neg then - q else q) * scale10 1 e))
  | None => None
  end.

(* mps_utils_build_equivalent_rational_string after its call of build_equivalent_rational_string:
   mps_utils_strip_string, the sign, then |e| zeros appended to the numerator or to the denominator *)
Definition utils_assemble (p : text) (e : Z) (neg : bool) : text :=
  let s := strip_string p in
  let s := if neg then match s with
                       | c :: r => if c =c? "-" then " " :: r else "-" :: s
                       | [] => ["-"] end
           else s in
  match e with
  | Z0 => s
  | Zpos k => insert_before_slash s (zeros (Pos.to_nat k))
  | Zneg k => (if has_char "/" s then s else s ++ ["/"; "1"]) ++ zeros (Pos.to_nat k)
  end.

(* ------------------------------------------------------------------ (b) floating-point store *)

Definition raw_Q (r : raw) : Q := fst r # Z.to_pos (snd r).

(* "the declared input precision (64 bits when none is declared)" *)
Definition declared_bits (p : poly) : positive :=
  if (0 <? p_prec p)%Z then Z.to_pos (p_prec p) else 64%positive.

(* THE predicate of the property for one floating-point number: |stored - written| <= 2^-bits |written| *)
Definition within_prec (bits : positive) (stored written : Q) : Prop :=
  Qabs (written - stored) <= Qabs written * pow2Q (- Zpos bits).
Definition within_precb (bits : positive) (stored written : Q) : bool :=
  Qle_bool (Qabs (written - stored)) (Qabs written * pow2Q (- Zpos bits)).

(* an mpf_t of [mpf_bits] bits keeps the value read by mpf_set_str truncated to mpf_bits significant bits *)
Definition mpf_store (mpf_bits : positive) (r : raw) : Q := trunc_bits mpf_bits (raw_Q r).

(* every real number held by a parsed polynomial: real and imaginary parts of all coefficients *)
Definition poly_parts (p : poly) : list raw :=
  flat_map (fun c => [fst c; snd c]) (p_coeffs p ++ p_bcoeffs p).

Definition is_float_desc (d : polydesc) : bool := match d_ctype d with TFloat => true | _ => false end.
