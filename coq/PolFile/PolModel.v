(* C10 / PolFile: the polynomial file language of MPSolve (definitions only).

   ACCEPTED SYNTAX (decided from src/libmps/common/parser.c, system/input-buffer.c,
   monomial/monomial-parser.c, secular/secular-parser.c, chebyshev/chebyshev-parser.c, README):

   * mps_parse_stream first skips white space and '!'-to-end-of-line comments (mps_skip_comments).
   * The input is then read line by line (mps_input_buffer_readline): a line is cut at its first
     '!'; a line whose FIRST character is '!' is dropped altogether.  Everything else, including
     blank lines, is a line.
   * 3.x keyword syntax: while the current line contains ';' it is an option line: the text from
     the first non-blank up to the first ';' (right-trimmed) is the option; what follows the first
     ';' on the line is ignored (so: one option per line).  Keywords, compared ignoring letter
     case and surrounding blanks (mps_is_option): dense sparse integer real complex rational
     floatingpoint secular monomial chebyshev, and  degree = <int>,  precision = <int>  (blanks
     allowed around '=', value read with atoi).  Any order; Degree is mandatory; defaults are
     Monomial, Dense, Complex, FloatingPoint, no precision.  Precision=P means floor(P*LOG2_10) bits.
     The first line WITHOUT ';' ends the options (so blank lines may not separate option lines,
     '!'-in-column-0 comment lines may) and already belongs to the coefficient section.
   * Coefficient section = white-space separated tokens, across lines, comments cut:
       monomial / Chebyshev dense : for i = 0..n : re [im]          (im only if Complex)
       monomial / Chebyshev sparse: repeated   index re [im]        (any order, index in 0..n, no repeats)
       secular (dense or sparse keyword alike): for i = 0..n-1 : a_re [a_im] b_re [b_im]
     Integer/Rational tokens go through mpq_set_str ( [-]digits[/digits] ), FloatingPoint tokens
     through mpf_set_str ( [-]digits[.digits][(e|E|@)[+|-]digits] with at least one mantissa digit ).
   * Legacy 2.x syntax (first line has no ';'): tokens  TYPE PREC DEGREE  then, for TYPE = XYZ with
     X in d,s (u = user polynomial), Y in r,c, Z in i,q,f:  dense: coefficients 0..n; sparse: a count
     token (ignored) then  index coefficient  pairs.  Rational parts are TWO tokens  num den.

   What is modelled and not verified: GMP's readers (mpz/mpq/mpf_set_str) by [mpq_str_value] and
   [decimal_value].  The C integer conversions (atoi, sscanf %d / %ld, the double product with LOG2_10
   and its conversion to long) are modelled as glibc / x86-64 perform them: see CIntModel.v. *)
Require Import String Ascii List ZArith NArith QArith Bool.
Require Import MPSV.PolFile.Chars MPSV.PolFile.DecRatModel.
Require Export MPSV.PolFile.CIntModel.
Import ListNotations.
Local Open Scope char_scope.

(* ================================================================== descriptions *)

Inductive kind := KMonomial | KSecular | KChebyshev.
Inductive ctype := TInteger | TRational | TFloat.
Inductive structure := S_RI | S_RQ | S_RF | S_CI | S_CQ | S_CF.
Inductive density := Dense | Sparse.

(* a number as written *)
Inductive num :=
| NInt (z : Z) (lz : nat)                                   (* lz extra leading zeros *)
| NRat (n : Z) (lzn : nat) (d : positive) (lzd : nat)       (* n/d, not necessarily in lowest terms *)
| NDec (l : declit).

Record term := { t_idx : nat; t_re : num; t_im : num }.

Record polydesc := {
  d_legacy : bool;               (* 2.x syntax *)
  d_kind : kind;
  d_degree : nat;
  d_real : bool;
  d_ctype : ctype;
  d_sparse : bool;
  d_prec : option positive;      (* declared input precision, decimal digits *)
  d_terms : list term;           (* coefficients as written, in written order; secular: the a_i *)
  d_bterms : list term }.        (* secular: the b_i *)

Definition raw := (Z * Z)%type.    (* numerator, denominator as stored *)

Record poly := {
  p_kind : kind; p_degree : Z; p_struct : structure; p_density : density; p_prec : Z;
  p_spar : list bool;                       (* monomial only *)
  p_coeffs : list (raw * raw);              (* monomial/Chebyshev: 0..n ; secular: a_0..a_{n-1} *)
  p_bcoeffs : list (raw * raw) }.           (* secular: b_0..b_{n-1} *)

Inductive result := Poly (p : poly) | UserPoly | ParseError.

Definition canon (q : Q) : raw := let q := Qred q in (Qnum q, Zpos (Qden q)).
Definition raw0 : raw := (0%Z, 1%Z).

Definition num_value (x : num) : Q :=
  match x with
  | NInt z _ => z # 1
  | NRat n _ d _ => n # d
  | NDec l => declit_value l
  end.

Definition mk_structure (real : bool) (t : ctype) : structure :=
  match real, t with
  | true, TInteger => S_RI | true, TRational => S_RQ | true, TFloat => S_RF
  | false, TInteger => S_CI | false, TRational => S_CQ | false, TFloat => S_CF
  end.

(* prec_bits (digits -> bits, LOG2_10 product in double arithmetic): CIntModel.v *)

Definition term_val (real : bool) (t : term) : raw * raw :=
  (canon (num_value (t_re t)), if real then raw0 else canon (num_value (t_im t))).

Definition find_term (i : nat) (ts : list term) : option term :=
  find (fun t => Nat.eqb (t_idx t) i) ts.

(* the polynomial a description denotes: exact canonical values *)
Definition denote (d : polydesc) : poly :=
  let n := d_degree d in
  {| p_kind := d_kind d;
     p_degree := Z.of_nat n;
     p_struct := mk_structure (d_real d) (d_ctype d);
     p_density := if d_sparse d then Sparse else Dense;
     p_prec := match d_prec d with Some P => prec_bits (Zpos P) | None => 0%Z end;
     p_spar := match d_kind d with
               | KMonomial => map (fun i => if d_sparse d then
                                              match find_term i (d_terms d) with Some _ => true | None => false end
                                            else true) (seq 0 (S n))
               | _ => [] end;
     p_coeffs := match d_kind d with
                 | KSecular => map (term_val (d_real d)) (d_terms d)
                 | _ => map (fun i => match find_term i (d_terms d) with
                                      | Some t => term_val (d_real d) t
                                      | None => (raw0, raw0) end) (seq 0 (S n))
                 end;
     p_bcoeffs := match d_kind d with
                  | KSecular => map (term_val (d_real d)) (d_bterms d)
                  | _ => [] end |}.

Definition num_ok (t : ctype) (x : num) : Prop :=
  match t, x with
  | TInteger, NInt _ _ => True
  | TRational, NInt _ _ => True
  | TRational, NRat _ _ _ _ => True
  | TFloat, NDec l => wf_file_lit l
  | _, _ => False
  end.

Definition term_ok (real : bool) (t : ctype) (x : term) : Prop :=
  num_ok t (t_re x) /\ (real = false -> num_ok t (t_im x)).

Definition wf (d : polydesc) : Prop :=
  (1 <= d_degree d)%nat
  /\ Forall (term_ok (d_real d) (d_ctype d)) (d_terms d)
  /\ Forall (term_ok (d_real d) (d_ctype d)) (d_bterms d)
  /\ match d_kind d with
     | KSecular => length (d_terms d) = d_degree d /\ length (d_bterms d) = d_degree d
     | _ => d_bterms d = []
            /\ if d_sparse d
               then NoDup (map t_idx (d_terms d)) /\ Forall (fun t => (t_idx t <= d_degree d)%nat) (d_terms d)
                    /\ d_terms d <> []
               else map t_idx (d_terms d) = seq 0 (S (d_degree d))
     end
  /\ (d_legacy d = true -> d_kind d = KMonomial)
  (* the numbers the readers convert with atoi / sscanf fit the C types they are converted to *)
  /\ degree_in_range (Z.of_nat (d_degree d))
  /\ match d_prec d with
     | Some P => if d_legacy d then prec2_in_range (Zpos P) else prec3_in_range (Zpos P)
     | None => True end.

(* ================================================================== rendering *)

Definition kw (s : string) : text := list_ascii_of_string s.

Definition nat_token (n : nat) : text := N_digits (N.of_nat n).
Definition Z_token (z : Z) (lz : nat) : text :=
  (if (z <? 0)%Z then ["-"] else []) ++ zeros lz ++ N_digits (Z.abs_N z).

Definition num_tokens (legacy : bool) (x : num) : list text :=
  match x with
  | NInt z lz => if legacy then [Z_token z lz; ["1"]] else [Z_token z lz]
  | NRat n lzn d lzd =>
      if legacy then [Z_token n lzn; zeros lzd ++ N_digits (Npos d)]
      else [Z_token n lzn ++ "/" :: zeros lzd ++ N_digits (Npos d)]
  | NDec l => [render_declit l]
  end.

(* legacy files split a rational into two tokens only when the type letter is 'q' *)
Definition part_tokens (d : polydesc) (x : num) : list text :=
  num_tokens (d_legacy d && match d_ctype d with TRational => true | _ => false end) x.

Definition term_tokens (d : polydesc) (with_idx : bool) (t : term) : list text :=
  (if with_idx then [nat_token (t_idx t)] else [])
  ++ part_tokens d (t_re t) ++ (if d_real d then [] else part_tokens d (t_im t)).

Fixpoint zip_terms (a b : list term) : list (term * term) :=
  match a, b with x :: a', y :: b' => (x, y) :: zip_terms a' b' | _, _ => [] end.

Definition coeff_tokens (d : polydesc) : list text :=
  match d_kind d with
  | KSecular => concat (map (fun ab => term_tokens d false (fst ab) ++ term_tokens d false (snd ab))
                            (zip_terms (d_terms d) (d_bterms d)))
  | _ => concat (map (term_tokens d (d_sparse d)) (d_terms d))
  end.

Definition legacy_type (d : polydesc) : text :=
  [ (if d_sparse d then "s" else "d"); (if d_real d then "r" else "c");
    (match d_ctype d with TInteger => "i" | TRational => "q" | TFloat => "f" end) ].

Definition legacy_header_tokens (d : polydesc) : list text :=
  [ legacy_type d;
    match d_prec d with Some P => N_digits (Npos P) | None => ["0"] end;
    nat_token (d_degree d) ]
  ++ (if d_sparse d then [nat_token (length (d_terms d))] else []).

(* ---- layout *)

Inductive filler := FBlank (n : nat) | FComment (lead : nat) (body : text).

Record optdeco := { od_pre : list text;      (* '!'-in-column-0 comment lines before the option line *)
                    od_lead : nat; od_mask : list bool; od_eq1 : nat; od_eq2 : nat;
                    od_mid : nat; od_trail : nat; od_comment : option text }.
Record linedeco := { ld_pre : list filler; ld_lead : nat; ld_gaps : list nat; ld_trail : nat;
                     ld_comment : option text }.

Record style := {
  st_header : list filler;                 (* before everything (skipped by mps_skip_comments) *)
  st_explicit : bool * bool * bool * bool; (* write the defaults Monomial, Complex, FloatingPoint, Dense explicitly *)
  st_opts : list optdeco;
  st_sep : list filler;                    (* between the options and the coefficients *)
  st_chunks : list nat;                    (* tokens per line: S k *)
  st_lines : list linedeco;
  st_trailer : list filler;
  st_final_newline : bool }.

Definition default_optdeco : optdeco :=
  {| od_pre := []; od_lead := 0; od_mask := []; od_eq1 := 0; od_eq2 := 0; od_mid := 0; od_trail := 0; od_comment := None |}.
Definition default_linedeco : linedeco :=
  {| ld_pre := []; ld_lead := 0; ld_gaps := []; ld_trail := 0; ld_comment := None |}.

(* comment bodies may be anything that stays on its line *)
Definition clean (body : text) : text :=
  filter (fun c => negb ((c =c? ch_nl) || (c =c? "000"))) body.

Definition filler_line (f : filler) : text :=
  match f with
  | FBlank n => spaces n
  | FComment lead body => spaces lead ++ "!" :: clean body
  end.

Definition comment_tail (c : option text) : text :=
  match c with Some b => "!" :: clean b | None => [] end.

Fixpoint apply_case (mask : list bool) (k : text) : text :=
  match k with
  | [] => []
  | c :: r => match mask with
              | true :: m => upper c :: apply_case m r
              | false :: m => lower c :: apply_case m r
              | [] => c :: apply_case [] r
              end
  end.

(* an option as written: keyword, optional value *)
Inductive opt := OKey (k : text) | OKeyVal (k : text) (v : text).

Definition opt_text (o : opt) (dc : optdeco) : text :=
  match o with
  | OKey k => apply_case (od_mask dc) k
  | OKeyVal k v => apply_case (od_mask dc) k ++ spaces (od_eq1 dc) ++ "=" :: spaces (od_eq2 dc) ++ v
  end.

Definition option_lines (o : opt) (dc : optdeco) : list text :=
  map (fun b => "!" :: clean b) (od_pre dc)
  ++ [spaces (od_lead dc) ++ opt_text o dc ++ spaces (od_mid dc) ++ ";" :: spaces (od_trail dc) ++ comment_tail (od_comment dc)].

Definition options_of (st : style) (d : polydesc) : list opt :=
  let '(e_mon, e_cplx, e_fp, e_dense) := st_explicit st in
  [OKeyVal (kw "Degree") (nat_token (d_degree d))]
  ++ match d_kind d with
     | KMonomial => if e_mon then [OKey (kw "Monomial")] else []
     | KSecular => [OKey (kw "Secular")]
     | KChebyshev => [OKey (kw "Chebyshev")] end
  ++ (if d_real d then [OKey (kw "Real")] else if e_cplx then [OKey (kw "Complex")] else [])
  ++ match d_ctype d with
     | TInteger => [OKey (kw "Integer")]
     | TRational => [OKey (kw "Rational")]
     | TFloat => if e_fp then [OKey (kw "FloatingPoint")] else [] end
  ++ (if d_sparse d then [OKey (kw "Sparse")] else if e_dense then [OKey (kw "Dense")] else [])
  ++ match d_prec d with Some P => [OKeyVal (kw "Precision") (N_digits (Npos P))] | None => [] end.

(* permutations by insertion positions: every code gives a permutation, every permutation has a code *)
Fixpoint insert_at {A} (k : nat) (x : A) (l : list A) : list A :=
  match k, l with
  | S k', y :: r => y :: insert_at k' x r
  | _, _ => x :: l
  end.
Fixpoint permute {A} (code : list nat) (l : list A) : list A :=
  match l with
  | [] => []
  | x :: r => match code with
              | k :: c => insert_at k x (permute c r)
              | [] => x :: permute [] r
              end
  end.

Fixpoint group {A} (ks : list nat) (l : list A) : list (list A) :=
  match ks with
  | [] => match l with [] => [] | _ => [l] end
  | k :: ks' => match l with
                | [] => []
                | _ => firstn (S k) l :: group ks' (skipn (S k) l)
                end
  end.

Fixpoint join_tokens (gaps : list nat) (toks : list text) : text :=
  match toks with
  | [] => []
  | [t] => t
  | t :: r => match gaps with
              | g :: gs => t ++ spaces (S g) ++ join_tokens gs r
              | [] => t ++ spaces 1 ++ join_tokens [] r
              end
  end.

Definition token_lines (toks : list text) (dc : linedeco) : list text :=
  map filler_line (ld_pre dc)
  ++ [spaces (ld_lead dc) ++ join_tokens (ld_gaps dc) toks ++ spaces (ld_trail dc) ++ comment_tail (ld_comment dc)].

Fixpoint zip_default {A B C} (f : A -> B -> C) (dflt : B) (a : list A) (b : list B) : list C :=
  match a with
  | [] => []
  | x :: a' => match b with
               | y :: b' => f x y :: zip_default f dflt a' b'
               | [] => f x dflt :: zip_default f dflt a' []
               end
  end.

Definition unlines (final_nl : bool) (ls : list text) : text :=
  (fix go ls := match ls with
                | [] => []
                | [l] => if final_nl then l ++ [ch_nl] else match l with [] => [ch_nl] | _ => l end
                | l :: r => l ++ ch_nl :: go r
                end) ls.

(* in legacy files the option phase does not exist; in 3.x files it is the permuted option lines *)
Definition render_lines (st : style) (pi : list nat) (d : polydesc) : list text :=
  let toks := (if d_legacy d then legacy_header_tokens d else []) ++ coeff_tokens d in
  map filler_line (st_header st)
  ++ (if d_legacy d then []
      else concat (zip_default option_lines default_optdeco (permute pi (options_of st d)) (st_opts st))
           ++ map filler_line (st_sep st))
  ++ concat (zip_default token_lines default_linedeco (group (st_chunks st) toks) (st_lines st))
  ++ map filler_line (st_trailer st).

Definition render (st : style) (pi : list nat) (d : polydesc) : text :=
  unlines (st_final_newline st) (render_lines st pi d).

(* ================================================================== parsing (model of the real parser) *)

Fixpoint skip_comments_aux (in_comment : bool) (t : text) : text :=
  match t with
  | [] => []                              (* the real loop does not terminate on a comment hitting EOF: C09 *)
  | c :: r =>
    if in_comment then skip_comments_aux (negb (c =c? ch_nl)) r
    else if c =c? "!" then skip_comments_aux true r
    else if is_space c then skip_comments_aux false r
    else t
  end.
Definition skip_comments (t : text) : text := skip_comments_aux false t.

Fixpoint split_lines_aux (cur : text) (t : text) : list text :=
  match t with
  | [] => match cur with [] => [] | _ => [rev cur] end
  | c :: r => if c =c? ch_nl then rev cur :: split_lines_aux [] r else split_lines_aux (c :: cur) r
  end.
Definition split_lines (t : text) : list text := split_lines_aux [] t.

Definition starts_with_bang (l : text) : bool :=
  match l with c :: _ => c =c? "!" | [] => false end.
Definition strip_comment (l : text) : text := take_until "!" l.
(* mps_input_buffer_readline, over the whole input *)
Definition effective_lines (ls : list text) : list text :=
  map strip_comment (filter (fun l => negb (starts_with_bang l)) ls).

Fixpoint tokens_aux (cur : text) (l : text) : list text :=
  match l with
  | [] => match cur with [] => [] | _ => [rev cur] end
  | c :: r => if is_space c
              then match cur with [] => tokens_aux [] r | _ => rev cur :: tokens_aux [] r end
              else tokens_aux (c :: cur) r
  end.
Definition tokens (l : text) : list text := tokens_aux [] l.
Definition all_tokens (ls : list text) : list text := concat (map tokens ls).

(* ---- options *)

Inductive flag := F_UNDEF | F_DENSE | F_SPARSE | F_INTEGER | F_REAL | F_COMPLEX | F_RATIONAL | F_FP
                | F_SECULAR | F_MONOMIAL | F_CHEBYSHEV | K_DEGREE | K_PRECISION.

(* mps_is_option, branch by branch *)
Fixpoint is_option_cmp (a b : text) : bool :=
  match a, b with
  | [], _ => forallb is_space b
  | _, [] => forallb is_space a
  | x :: a', y :: b' => if lower x =c? lower y then is_option_cmp a' b' else false
  end.
Definition is_option (a b : text) : bool := is_option_cmp (ltrim a) (ltrim b).

Definition option_text (line : text) : text := rtrim (take_until ";" (ltrim line)).

Definition keyword_flag (o : text) : flag :=
  let f := F_UNDEF in
  let f := if is_option o (kw "dense") then F_DENSE else f in
  let f := if is_option o (kw "sparse") then F_SPARSE else f in
  let f := if is_option o (kw "integer") then F_INTEGER else f in
  let f := if is_option o (kw "real") then F_REAL else f in
  let f := if is_option o (kw "complex") then F_COMPLEX else f in
  let f := if is_option o (kw "rational") then F_RATIONAL else f in
  let f := if is_option o (kw "floatingpoint") then F_FP else f in
  let f := if is_option o (kw "secular") then F_SECULAR else f in
  let f := if is_option o (kw "monomial") then F_MONOMIAL else f in
  let f := if is_option o (kw "chebyshev") then F_CHEBYSHEV else f in
  f.

(* mps_parse_option_line: None = "Unrecognized option" *)
Definition parse_option_line (line : text) : option (flag * text) :=
  let o := option_text line in
  let f := keyword_flag o in
  if has_char "=" o then
    let key := take_until "=" o in
    let f := if is_option key (kw "degree") then K_DEGREE
             else if is_option key (kw "precision") then K_PRECISION else f in
    match f with F_UNDEF => None | _ => Some (f, drop_until "=" o) end
  else match f with F_UNDEF => None | _ => Some (f, []) end.

Definition sign_split (l : text) : bool * text :=
  match l with
  | c :: r => if c =c? "-" then (true, r) else if c =c? "+" then (false, r) else (false, l)
  | [] => (false, l)
  end.

(* atoi = (int) strtol (l, NULL, 10): blanks, optional sign, digits; saturation to long, then the low 32 bits *)
Definition atoi (l : text) : Z :=
  let (neg, r) := sign_split (ltrim l) in
  int_of_digits neg (fst (span_digits r)).

(* sscanf (tok, "%d"): None when no integer can be matched; the value like atoi's *)
Definition scan_int (l : text) : option Z :=
  let (neg, r) := sign_split (ltrim l) in
  match fst (span_digits r) with
  | [] => None
  | d => Some (int_of_digits neg d)
  end.

(* sscanf (tok, "%ld"): saturates like strtol *)
Definition scan_long (l : text) : option Z :=
  let (neg, r) := sign_split (ltrim l) in
  match fst (span_digits r) with
  | [] => None
  | d => Some (strtol_digits neg d)
  end.

Record settings := { s_struct : structure; s_density : density; s_repr : kind; s_prec : Z; s_n : Z }.

Definition is_integer (s : structure) := match s with S_RI | S_CI => true | _ => false end.
Definition is_rational (s : structure) := match s with S_RQ | S_CQ => true | _ => false end.
Definition is_fp (s : structure) := match s with S_RF | S_CF => true | _ => false end.
Definition is_real (s : structure) := match s with S_RI | S_RQ | S_RF => true | _ => false end.
Definition is_complex (s : structure) := negb (is_real s).

Definition set_struct (st : settings) (x : structure) : settings :=
  {| s_struct := x; s_density := s_density st; s_repr := s_repr st; s_prec := s_prec st; s_n := s_n st |}.

(* the body of the option loop of mps_parse_abstract_stream; None = an error was raised *)
Definition apply_option (st : settings) (fv : flag * text) : option settings :=
  let (f, v) := fv in
  let s := s_struct st in
  match f with
  | K_DEGREE => let n := atoi v in
                if (n <=? 0)%Z then None
                else Some {| s_struct := s; s_density := s_density st; s_repr := s_repr st; s_prec := s_prec st; s_n := n |}
  | K_PRECISION => let p := prec_bits (atoi v) in
                   if (p <=? 0)%Z then None
                   else Some {| s_struct := s; s_density := s_density st; s_repr := s_repr st; s_prec := p; s_n := s_n st |}
  | F_SECULAR => Some {| s_struct := s; s_density := s_density st; s_repr := KSecular; s_prec := s_prec st; s_n := s_n st |}
  | F_MONOMIAL => Some {| s_struct := s; s_density := s_density st; s_repr := KMonomial; s_prec := s_prec st; s_n := s_n st |}
  | F_CHEBYSHEV => Some {| s_struct := s; s_density := s_density st; s_repr := KChebyshev; s_prec := s_prec st; s_n := s_n st |}
  | F_SPARSE => Some {| s_struct := s; s_density := Sparse; s_repr := s_repr st; s_prec := s_prec st; s_n := s_n st |}
  | F_DENSE => Some {| s_struct := s; s_density := Dense; s_repr := s_repr st; s_prec := s_prec st; s_n := s_n st |}
  | F_REAL => Some (set_struct st (if is_integer s then S_RI else if is_rational s then S_RQ else if is_fp s then S_RF else s))
  | F_COMPLEX => Some (set_struct st (if is_integer s then S_CI else if is_rational s then S_CQ else if is_fp s then S_CF else s))
  | F_INTEGER => Some (set_struct st (if is_real s then S_RI else if is_complex s then S_CI else s))
  | F_RATIONAL => Some (set_struct st (if is_real s then S_RQ else if is_complex s then S_CQ else s))
  | F_FP => Some (set_struct st (if is_real s then S_RF else if is_complex s then S_CF else s))
  | F_UNDEF => Some st
  end.

Definition initial_settings : settings :=
  {| s_struct := S_CF; s_density := Dense; s_repr := KMonomial; s_prec := 0%Z; s_n := (-1)%Z |}.

(* the option phase over the effective lines: returns the settings and the lines left
   (the first line without ';' is left: it belongs to the coefficients) *)
Fixpoint options_phase (ls : list text) (st : settings) : option (settings * list text) :=
  match ls with
  | [] => Some (st, [])            (* EOF inside the option section: the real code reads a stale buffer (C09) *)
  | l :: r =>
    if has_char ";" l then
      match parse_option_line l with
      | None => None
      | Some fv => match apply_option st fv with
                   | None => None
                   | Some st' => options_phase r st'
                   end
      end
    else Some (st, ls)
  end.

(* ---- coefficients *)

Definition qraw (q : Q) : raw := (Qnum q, Zpos (Qden q)).

(* one real number from a token: exact types through mpq_set_str + mpq_canonicalize (or raw, for the
   Chebyshev reader which does not canonicalise), floating point through mpf_set_str *)
Definition read_part (fp : bool) (canonicalise : bool) (toks : list text) : option (raw * list text) :=
  match toks with
  | [] => None
  | t :: r =>
    if fp then match decimal_value t with Some q => Some (qraw q, r) | None => None end
    else if canonicalise then match mpq_str_value t with Some q => Some (qraw q, r) | None => None end
    else match mpq_str_raw t with
         | Some (n, d) => if (d =? 0)%Z then None else Some ((n, d), r)
         | None => None end
  end.

Definition read_cplx (fp canonicalise cplx : bool) (toks : list text) : option ((raw * raw) * list text) :=
  match read_part fp canonicalise toks with
  | None => None
  | Some (re, r) =>
    if cplx then match read_part fp canonicalise r with
                 | Some (im, r') => Some ((re, im), r')
                 | None => None end
    else Some ((re, raw0), r)
  end.

(* legacy rational: numerator token and denominator token, each through mpq_set_str, then mpq_div
   and mpq_canonicalize *)
Definition read_part_legacy_q (toks : list text) : option (raw * list text) :=
  match toks with
  | tn :: td :: r =>
    match mpq_str_value tn, mpq_str_value td with
    | Some a, Some b => if Qeq_bool b 0 then None else Some (qraw (Qred (a / b)), r)
    | _, _ => None
    end
  | _ => None
  end.

Definition read_cplx_legacy_q (cplx : bool) (toks : list text) : option ((raw * raw) * list text) :=
  match read_part_legacy_q toks with
  | None => None
  | Some (re, r) =>
    if cplx then match read_part_legacy_q r with
                 | Some (im, r') => Some ((re, im), r')
                 | None => None end
    else Some ((re, raw0), r)
  end.

Fixpoint read_dense (rd : list text -> option ((raw * raw) * list text)) (k : nat) (toks : list text)
  : option (list (raw * raw) * list text) :=
  match k with
  | O => Some ([], toks)
  | S k' => match rd toks with
            | None => None
            | Some (c, r) => match read_dense rd k' r with
                             | Some (cs, r') => Some (c :: cs, r')
                             | None => None end
            end
  end.

Fixpoint upd {A} (i : nat) (v : A) (l : list A) : list A :=
  match l, i with
  | [], _ => []
  | _ :: r, O => v :: r
  | x :: r, S i' => x :: upd i' v r
  end.

(* the sparse loop: index token, bounds, repeated index (when [check_dup]), coefficient *)
Fixpoint read_sparse (fuel : nat) (rd : list text -> option ((raw * raw) * list text)) (check_dup : bool)
         (n : Z) (toks : list text) (arr : list (option (raw * raw))) : option (list (option (raw * raw))) :=
  match toks with
  | [] => Some arr
  | t :: r =>
    match fuel with
    | O => None
    | S f =>
      match scan_int t with
      | None => None
      | Some i =>
        if (i <? 0)%Z || (n <? i)%Z then None
        else match nth_error arr (Z.to_nat i) with
             | Some (Some _) => if check_dup then None
                                else match rd r with
                                     | Some (c, r') => read_sparse f rd check_dup n r' (upd (Z.to_nat i) (Some c) arr)
                                     | None => None end
             | Some None => match rd r with
                            | Some (c, r') => read_sparse f rd check_dup n r' (upd (Z.to_nat i) (Some c) arr)
                            | None => None end
             | None => None
             end
      end
    end
  end.

Definition arr_spar (arr : list (option (raw * raw))) : list bool :=
  map (fun o => match o with Some _ => true | None => false end) arr.
Definition arr_coeffs (arr : list (option (raw * raw))) : list (raw * raw) :=
  map (fun o => match o with Some c => c | None => (raw0, raw0) end) arr.

Definition mk_poly (st : settings) (spar : list bool) (cs bs : list (raw * raw)) : poly :=
  {| p_kind := s_repr st; p_degree := s_n st; p_struct := s_struct st; p_density := s_density st;
     p_prec := s_prec st; p_spar := spar; p_coeffs := cs; p_bcoeffs := bs |}.

(* mps_monomial_poly_read_from_stream *)
Definition read_monomial (st : settings) (toks : list text) : result :=
  let n1 := S (Z.to_nat (s_n st)) in
  let rd := read_cplx (is_fp (s_struct st)) true (is_complex (s_struct st)) in
  match s_density st with
  | Dense => match read_dense rd n1 toks with
             | Some (cs, _) => Poly (mk_poly st (repeat true n1) cs [])
             | None => ParseError end
  | Sparse => match read_sparse (length toks) rd true (s_n st) toks (repeat None n1) with
              | Some arr => Poly (mk_poly st (arr_spar arr) (arr_coeffs arr) [])
              | None => ParseError end
  end.

(* mps_chebyshev_poly_read_from_stream: like the monomial reader, but no repeated-index check *)
Definition read_chebyshev (st : settings) (toks : list text) : result :=
  let n1 := S (Z.to_nat (s_n st)) in
  let rd := read_cplx (is_fp (s_struct st)) true (is_complex (s_struct st)) in
  match s_density st with
  | Dense => match read_dense rd n1 toks with
             | Some (cs, _) => Poly (mk_poly st [] cs [])
             | None => ParseError end
  | Sparse => match read_sparse (length toks) rd false (s_n st) toks (repeat None n1) with
              | Some arr => Poly (mk_poly st [] (arr_coeffs arr) [])
              | None => ParseError end
  end.

(* mps_secular_equation_read_from_stream: a_i then b_i, n times, whatever the density *)
Fixpoint read_secular_pairs (rd : list text -> option ((raw * raw) * list text)) (k : nat) (toks : list text)
  : option (list (raw * raw) * list (raw * raw)) :=
  match k with
  | O => Some ([], [])
  | S k' => match rd toks with
            | None => None
            | Some (a, r) => match rd r with
                             | None => None
                             | Some (b, r') => match read_secular_pairs rd k' r' with
                                               | Some (as_, bs) => Some (a :: as_, b :: bs)
                                               | None => None end
                             end
            end
  end.

Definition read_secular (st : settings) (toks : list text) : result :=
  let rd := read_cplx (is_fp (s_struct st)) true (is_complex (s_struct st)) in
  match read_secular_pairs rd (Z.to_nat (s_n st)) toks with
  | Some (as_, bs) => Poly (mk_poly st [] as_ bs)
  | None => ParseError
  end.

Definition parse_v3 (ls : list text) : result :=
  match options_phase ls initial_settings with
  | None => ParseError
  | Some (st, rest) =>
    if (s_n st =? -1)%Z then ParseError
    else let toks := all_tokens rest in
         match s_repr st with
         | KSecular => read_secular st toks
         | KChebyshev => read_chebyshev st toks
         | KMonomial => read_monomial st toks
         end
  end.

(* mps_monomial_poly_read_from_stream_v2 *)
Definition parse_v2 (toks : list text) : result :=
  match toks with
  | ty :: tp :: tn :: rest =>
    match ty with
    | c0 :: c1 :: c2 :: _ =>         (* sscanf "%3s" *)
      let dens := if c0 =c? "s" then Some (Some Sparse) else if c0 =c? "d" then Some (Some Dense)
                  else if c0 =c? "u" then Some None else None in
      let real := if c1 =c? "r" then Some true else if c1 =c? "c" then Some false else None in
      let ct := if c2 =c? "q" then Some TRational else if c2 =c? "i" then Some TInteger
                else if c2 =c? "f" then Some TFloat else None in
      match dens, real, ct, scan_long tp, scan_int tn with
      | Some dn, Some rl, Some ct, Some p, Some n =>
        if (n <? 0)%Z then ParseError        (* "Error reading the degree of the polynomial": tested before the 'u' hook *)
        else
        match dn with
        | None => UserPoly
        | Some dn =>
          let st := {| s_struct := mk_structure rl ct; s_density := dn; s_repr := KMonomial;
                       s_prec := prec_bits p; s_n := n |} in
          let n1 := S (Z.to_nat n) in
          let rd := match ct with
                    | TRational => read_cplx_legacy_q (negb rl)
                    | TInteger => read_cplx false true (negb rl)
                    | TFloat => read_cplx true true (negb rl) end in
          match dn with
          | Dense => match read_dense rd n1 rest with
                     | Some (cs, _) => Poly (mk_poly st (repeat true n1) cs [])
                     | None => ParseError end
          | Sparse => match rest with
                      | _ :: rest' =>
                        match read_sparse (length rest') rd true n rest' (repeat None n1) with
                        | Some arr => Poly (mk_poly st (arr_spar arr) (arr_coeffs arr) [])
                        | None => ParseError end
                      | [] => Poly (mk_poly st (repeat false n1) (repeat (raw0, raw0) n1) [])
                      end
          end
        end
      | _, _, _, _, _ => ParseError
      end
    | _ => ParseError
    end
  | _ => ParseError
  end.

(* mps_parse_stream *)
Definition parse (t : text) : result :=
  let ls := effective_lines (split_lines (skip_comments t)) in
  match ls with
  | [] => ParseError
  | l0 :: _ => if has_char ";" l0 then parse_v3 ls else parse_v2 (all_tokens ls)
  end.

(* mps_parse_string: the same without the initial mps_skip_comments *)
Definition parse_string (t : text) : result :=
  let ls := effective_lines (split_lines t) in
  match ls with
  | [] => ParseError
  | l0 :: _ => if has_char ";" l0 then parse_v3 ls else parse_v2 (all_tokens ls)
  end.
