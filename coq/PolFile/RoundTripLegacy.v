(* C10 / PolFile: legacy 2.x files.  (1) the statement-by-statement reader read_v2 refines to the
   compact parse_v2 used by [parse]; (2) which type words are accepted; (3) the composed round trip
   parse (render st pi d) = Poly (denote d) for every well-formed 2.x description (stdlib style). *)
Require Import String Ascii List ZArith NArith QArith Qcanon Bool Lia ZifyBool Permutation.
Require Import MPSV.PolFile.Chars MPSV.PolFile.DecRatModel MPSV.PolFile.PolModel MPSV.PolFile.CIntProofs MPSV.PolFile.PolProofs
               MPSV.PolFile.RoundTripText MPSV.PolFile.RoundTripLines MPSV.PolFile.RoundTripOptions
               MPSV.PolFile.RoundTripSettings MPSV.PolFile.RoundTrip MPSV.PolFile.V2Model.
Import ListNotations.
Local Open Scope char_scope.

(* ------------------------------------------------------------------ (1) refinement *)

Lemma v2_coefficients_forget real ct dn prec n rest :
  v2_forget (v2_coefficients real ct dn prec n rest) =
  let st := {| s_struct := mk_structure real ct; s_density := dn; s_repr := KMonomial; s_prec := prec; s_n := n |} in
  let n1 := S (Z.to_nat n) in
  let rd := match ct with
            | TRational => read_cplx_legacy_q (negb real)
            | TInteger => read_cplx false true (negb real)
            | TFloat => read_cplx true true (negb real) end in
  match dn with
  | Dense => match read_dense rd n1 rest with
             | Some (cs, _) => Poly (mk_poly st (repeat true n1) cs [])
             | None => ParseError end
  | Sparse => match rest with
              | _ :: rest' =>
                match read_sparse (length rest') rd true n rest' (repeat None n1) with
                | Some arr => Poly (mk_poly st (arr_spar arr) (arr_coeffs arr) [])
                | None => ParseError end
              | [] => Poly (mk_poly st (repeat false n1) (repeat (raw0, raw0) n1) [])
              end
  end.
Proof.
  unfold v2_coefficients, v2_settings. cbv zeta.
  change (v2_reader ct real) with (match ct with
            | TRational => read_cplx_legacy_q (negb real)
            | TInteger => read_cplx false true (negb real)
            | TFloat => read_cplx true true (negb real) end).
  destruct dn.
  - destruct (read_dense _ _ rest) as [[cs r]|]; reflexivity.
  - destruct rest as [|c rest']; [reflexivity|].
    destruct (read_sparse _ _ _ _ rest' _); reflexivity.
Qed.

(* the statement-by-statement reader and the compact one used by [parse] give the same result on
   every token list *)
Theorem read_v2_refines toks : v2_forget (read_v2 toks) = parse_v2 toks.
Proof.
  destruct toks as [|ty toks1]; [reflexivity|].
  unfold read_v2, parse_v2.
  destruct ty as [|c0 [|c1 [|c2 ty']]]; cbn [nth_error v2_density v2_real v2_ctype].
  - destruct toks1 as [|tp [|tn rest]]; reflexivity.
  - destruct toks1 as [|tp [|tn rest]];
      destruct (c0 =c? "s"); cbn [v2_forget]; try reflexivity;
      destruct (c0 =c? "d"); cbn [v2_forget]; try reflexivity;
      destruct (c0 =c? "u"); reflexivity.
  - destruct toks1 as [|tp [|tn rest]];
      (destruct (c0 =c? "s"); [|destruct (c0 =c? "d"); [|destruct (c0 =c? "u")]]);
      cbn [v2_forget]; try reflexivity;
      (destruct (c1 =c? "r"); [|destruct (c1 =c? "c")]); reflexivity.
  - destruct toks1 as [|tp [|tn rest]];
      (destruct (c0 =c? "s"); [|destruct (c0 =c? "d"); [|destruct (c0 =c? "u")]]);
      (destruct (c1 =c? "r"); [|destruct (c1 =c? "c")]);
      (destruct (c2 =c? "q"); [|destruct (c2 =c? "i"); [|destruct (c2 =c? "f")]]);
      cbv iota; cbn [v2_forget]; try reflexivity;
      try (destruct (scan_long tp); reflexivity);
      (destruct (scan_long tp) as [p|]; [|reflexivity]);
      (destruct (scan_int tn) as [n|]; [|reflexivity]);
      (destruct (n <? 0)%Z; [reflexivity|]);
      try reflexivity; rewrite v2_coefficients_forget; reflexivity.
Qed.

Theorem parse_outcome_forget t : outcome_forget (parse_outcome t) = parse t.
Proof.
  unfold parse_outcome, parse, parse_outcome_lines.
  destruct (effective_lines (split_lines (skip_comments t))) as [|l0 ls]; [reflexivity|].
  destruct (has_char ";" l0); [reflexivity|]. apply read_v2_refines.
Qed.

Theorem parse_string_outcome_forget t : outcome_forget (parse_string_outcome t) = parse_string t.
Proof.
  unfold parse_string_outcome, parse_string, parse_outcome_lines.
  destruct (effective_lines (split_lines t)) as [|l0 ls]; [reflexivity|].
  destruct (has_char ";" l0); [reflexivity|]. apply read_v2_refines.
Qed.

(* ------------------------------------------------------------------ (2) the type words *)

(* a type word is refused with one of the three "unsupported" errors exactly when it is not accepted;
   an accepted one is never refused for its letters *)
Theorem v2_type_rejected ty toks :
  v2_type_accepted ty = false <->
  (read_v2 (ty :: toks) = V2_error V2E_data_type \/ read_v2 (ty :: toks) = V2_error V2E_data_structure
   \/ read_v2 (ty :: toks) = V2_error V2E_coeff_type).
Proof.
  unfold v2_type_accepted, read_v2.
  destruct (v2_density (nth_error ty 0)) as [dn|]; [|split; auto].
  destruct (v2_real (nth_error ty 1)) as [rl|]; [|split; auto].
  destruct (v2_ctype (nth_error ty 2)) as [ct|]; [|split; auto].
  split; [discriminate|].
  intros [H|[H|H]]; exfalso; revert H;
    (destruct toks as [|tp [|tn rest]]; [discriminate|destruct (scan_long tp); discriminate|]);
    (destruct (scan_long tp); [|discriminate]); (destruct (scan_int tn) as [n|]; [|discriminate]);
    (destruct (n <? 0)%Z; [discriminate|]); (destruct dn as [dn|]; [|discriminate]);
    unfold v2_coefficients; destruct dn;
    try (destruct (read_dense _ _ _) as [[? ?]|]; discriminate);
    (destruct rest as [|? rest']; [discriminate|]); destruct (read_sparse _ _ _ _ _ _); discriminate.
Qed.

(* accepted = the first three characters form one of the 18 triples {s,d,u} x {r,c} x {q,i,f};
   what follows the third character is ignored (sscanf "%3s") *)
Theorem v2_type_accepted_iff ty :
  v2_type_accepted ty = true <-> exists t tail, In t v2_triples /\ ty = t ++ tail.
Proof.
  split.
  - unfold v2_type_accepted. destruct ty as [|c0 [|c1 [|c2 tail]]]; cbn [nth_error v2_density v2_real v2_ctype].
    + discriminate.
    + destruct (if c0 =c? "s" then _ else _); discriminate.
    + destruct (if c0 =c? "s" then _ else _); [|discriminate]. destruct (if c1 =c? "r" then _ else _); discriminate.
    + intro H. exists [c0; c1; c2], tail. split; [|reflexivity].
      assert (H0 : c0 = "s" \/ c0 = "d" \/ c0 = "u").
      { destruct (c0 =c? "s") eqn:A; [left; apply Ascii.eqb_eq, A|].
        destruct (c0 =c? "d") eqn:B; [right; left; apply Ascii.eqb_eq, B|].
        destruct (c0 =c? "u") eqn:C; [right; right; apply Ascii.eqb_eq, C|discriminate]. }
      assert (H1 : c1 = "r" \/ c1 = "c").
      { destruct (if c0 =c? "s" then _ else _); [|discriminate].
        destruct (c1 =c? "r") eqn:A; [left; apply Ascii.eqb_eq, A|].
        destruct (c1 =c? "c") eqn:B; [right; apply Ascii.eqb_eq, B|discriminate]. }
      assert (H2 : c2 = "q" \/ c2 = "i" \/ c2 = "f").
      { destruct (if c0 =c? "s" then _ else _); [|discriminate].
        destruct (if c1 =c? "r" then _ else _); [|discriminate].
        destruct (c2 =c? "q") eqn:A; [left; apply Ascii.eqb_eq, A|].
        destruct (c2 =c? "i") eqn:B; [right; left; apply Ascii.eqb_eq, B|].
        destruct (c2 =c? "f") eqn:C; [right; right; apply Ascii.eqb_eq, C|discriminate]. }
      destruct H0 as [?|[?|?]]; destruct H1 as [?|?]; destruct H2 as [?|[?|?]]; subst; cbn; tauto.
  - intros (t & tail & Hin & ->). cbn in Hin.
    repeat (destruct Hin as [<-|Hin]; [reflexivity|]). contradiction.
Qed.

(* ------------------------------------------------------------------ (3) the round trip *)

(* ---- coefficient loops for any reader that reads one rendered term *)

Section LegacyCoeffs.
Variable d : polydesc.
Variable rd : list text -> option ((raw * raw) * list text).
Hypothesis Hrd : forall t rest, term_ok (d_real d) (d_ctype d) t ->
  rd (value_tokens d t ++ rest) = Some (term_val (d_real d) t, rest).

Lemma read_dense_g ts : forall rest, Forall (term_ok (d_real d) (d_ctype d)) ts ->
  read_dense rd (length ts) (concat (map (value_tokens d) ts) ++ rest) = Some (map (term_val (d_real d)) ts, rest).
Proof.
  induction ts as [|t ts IH]; intros rest H; [reflexivity|].
  inversion H as [|? ? Ht Hts]; subst.
  cbn [length map concat read_dense]. rewrite <- app_assoc, Hrd by exact Ht.
  rewrite IH by exact Hts. reflexivity.
Qed.

Lemma read_sparse_g check n ts : (Z.of_nat n <= INT_MAX)%Z -> forall fuel arr,
  Forall (term_ok (d_real d) (d_ctype d)) ts ->
  NoDup (map t_idx ts) -> Forall (fun t => (t_idx t <= n)%nat) ts ->
  length arr = S n -> Forall (fun t => nth_error arr (t_idx t) = Some None) ts ->
  (length ts <= fuel)%nat ->
  read_sparse fuel rd check (Z.of_nat n) (concat (map (sparse_tokens d) ts)) arr
  = Some (fold_left (set_term d) ts arr).
Proof.
  intro Hn. induction ts as [|t ts IH]; intros fuel arr Hok Hnd Hle Hlen Hfree Hfuel.
  - destruct fuel; reflexivity.
  - inversion Hok as [|? ? Ht Hts]; subst. inversion Hnd as [|? ? Hnin Hnd']; subst.
    inversion Hle as [|? ? Hi Hle']; subst. inversion Hfree as [|? ? Hf Hfree']; subst.
    destruct fuel as [|fuel]; [cbn in Hfuel; lia|].
    cbn [map concat sparse_tokens app read_sparse].
    destruct (nat_token_facts (t_idx t)) as (A & B & C).
    rewrite scan_int_digits, C, nat_N_Z by (auto; rewrite C, nat_N_Z; lia).
    destruct ((Z.of_nat (t_idx t) <? 0)%Z || (Z.of_nat n <? Z.of_nat (t_idx t))%Z) eqn:E; [lia|].
    rewrite Nat2Z.id, Hf, Hrd by exact Ht.
    apply IH; auto.
    + unfold set_term. rewrite upd_length. exact Hlen.
    + apply Forall_forall. intros u Hu. unfold set_term. rewrite nth_error_upd_other.
      * apply (proj1 (Forall_forall _ _) Hfree' u Hu).
      * intro E2. apply Hnin. rewrite E2. apply in_map, Hu.
    + cbn in Hfuel. lia.
Qed.

Lemma sparse_array_g check :
  (Z.of_nat (d_degree d) <= INT_MAX)%Z ->
  Forall (term_ok (d_real d) (d_ctype d)) (d_terms d) ->
  NoDup (map t_idx (d_terms d)) -> Forall (fun t => (t_idx t <= d_degree d)%nat) (d_terms d) ->
  read_sparse (length (concat (map (sparse_tokens d) (d_terms d)))) rd
              check (Z.of_nat (d_degree d)) (concat (map (sparse_tokens d) (d_terms d))) (repeat None (S (d_degree d)))
  = Some (map (fun i => match find_term i (d_terms d) with
                        | Some t => Some (term_val (d_real d) t) | None => None end)
              (seq 0 (S (d_degree d)))).
Proof.
  intros Hdi Hterms Hnd Hle.
  rewrite (read_sparse_g check (d_degree d) _ Hdi); auto.
  - f_equal. set (arr := fold_left (set_term d) (d_terms d) (repeat None (S (d_degree d)))).
    assert (Hlen : length arr = S (d_degree d)) by (unfold arr; rewrite fold_set_length, repeat_length; reflexivity).
    rewrite <- Hlen. apply list_from_nth. intros i Hi. unfold arr.
    rewrite (fold_set_nth d); auto.
    + destruct (find_term i (d_terms d)); [reflexivity|]. apply nth_error_repeat_lt. lia.
    + eapply Forall_impl; [|exact Hle]. intros t Ht. rewrite repeat_length. cbn beta in Ht. lia.
  - apply repeat_length.
  - apply Forall_forall. intros t Ht. apply nth_error_repeat_lt.
    pose proof (proj1 (Forall_forall _ _) Hle t Ht) as L. cbn beta in L. lia.
  - apply concat_length_ge. intro t. cbn. lia.
Qed.

Lemma dense_coeffs_g :
  Forall (term_ok (d_real d) (d_ctype d)) (d_terms d) ->
  map t_idx (d_terms d) = seq 0 (S (d_degree d)) ->
  read_dense rd (S (d_degree d)) (concat (map (value_tokens d) (d_terms d)))
  = Some (map (fun i => match find_term i (d_terms d) with
                        | Some t => term_val (d_real d) t | None => (raw0, raw0) end) (seq 0 (S (d_degree d))), []).
Proof.
  intros Hterms Hk.
  assert (Hlen : length (d_terms d) = S (d_degree d)).
  { rewrite <- (map_length t_idx), Hk, seq_length. reflexivity. }
  rewrite <- (app_nil_r (concat (map (value_tokens d) (d_terms d)))), <- Hlen.
  rewrite read_dense_g by exact Hterms.
  do 2 f_equal. symmetry. apply find_seq. rewrite Hk, Hlen. reflexivity.
Qed.

End LegacyCoeffs.

(* ---- the three coefficient readers on the rendered tokens of a legacy description *)

(* legacy rational: "num den" token pairs, any leading zeros, integers written as "z 1" *)
Lemma legacy_q_part x rest : num_ok TRational x ->
  read_part_legacy_q (num_tokens true x ++ rest) = Some (canon (num_value x), rest).
Proof.
  assert (NZ : forall p, Qeq_bool (Qred (Z.pos p # 1)) 0 = false).
  { intro p. destruct (Qeq_bool (Qred (Z.pos p # 1)) 0) eqn:E; auto.
    apply Qeq_bool_eq in E. rewrite Qred_correct in E. unfold Qeq in E. simpl in E. lia. }
  destruct x as [z lz|n lzn dd lzd|l]; cbn [num_ok]; intro H; [| |contradiction].
  - cbn [num_tokens app read_part_legacy_q]. unfold mpq_str_value, mpq_str_raw.
    rewrite Z_token_no_slash, mpz_token_roundtrip.
    change (has_char "/" ["1"]) with false. cbv iota.
    change (mpz_str_value ["1"]) with (Some 1%Z). cbn [option_map q_of_raw].
    rewrite (NZ 1%positive). unfold canon, qraw, num_value.
    match goal with |- Some (Qnum ?X, _, _) = _ => replace X with (Qred (z # 1)); [reflexivity|] end.
    apply Qred_complete. rewrite !Qred_correct. unfold Qeq, Qdiv, Qmult, Qinv. simpl. lia.
  - cbn [num_tokens app read_part_legacy_q]. unfold mpq_str_value, mpq_str_raw.
    rewrite Z_token_no_slash, mpz_token_roundtrip.
    destruct (unsigned_token_ok lzd (Npos dd)) as (Hd & Hn & Hv).
    rewrite (has_char_digits "/" _ eq_refl Hd), mpz_digits, Hv by assumption.
    cbn [option_map q_of_raw]. change (Z.of_N (N.pos dd)) with (Z.pos dd).
    rewrite NZ. unfold canon, qraw, num_value.
    match goal with |- Some (Qnum ?X, _, _) = _ => replace X with (Qred (n # dd)); [reflexivity|] end.
    apply Qred_complete. rewrite !Qred_correct. unfold Qeq, Qdiv, Qmult, Qinv. simpl. lia.
Qed.

Lemma legacy_q_tokens x : num_ok TRational x -> Forall tok_ok (num_tokens true x).
Proof.
  destruct x as [z lz|n lzn dd lzd|l]; cbn [num_ok]; intro H; [| |contradiction]; cbn [num_tokens].
  - constructor; [apply Z_token_ok|constructor; [|constructor]].
    split; [discriminate|repeat constructor].
  - constructor; [apply Z_token_ok|constructor; [|constructor]].
    destruct (unsigned_token_ok lzd (Npos dd)) as (Hd & Hn & _). split; [exact Hn|apply digits_tchars, Hd].
Qed.

Lemma legacy_part_tokens d x : d_legacy d = true -> d_ctype d = TRational -> part_tokens d x = num_tokens true x.
Proof. intros A B. unfold part_tokens. rewrite A, B. reflexivity. Qed.

Lemma nonq_part_tokens d x : d_ctype d <> TRational -> part_tokens d x = num_tokens false x.
Proof. intro B. unfold part_tokens. destruct (d_ctype d); [|congruence|]; rewrite andb_false_r; reflexivity. Qed.

(* Integer files: exactly as in the 3.x syntax *)
Lemma legacy_int_readable d : d_ctype d = TInteger -> parts_readable d /\ parts_tokens d.
Proof.
  intro Hct.
  assert (PE : forall x, part_tokens d x = num_tokens false x) by (intro x; apply nonq_part_tokens; congruence).
  assert (FT : fp_type d = false) by (unfold fp_type; rewrite Hct; reflexivity).
  assert (EX : forall x, num_ok (d_ctype d) x -> match x with NDec _ => False | _ => True end).
  { intros x H. apply (num_exact (d_ctype d)); auto. }
  split.
  - intros x rest H. rewrite PE, FT.
    destruct (num_token_exact x (EX x H)) as [t [E1 E2]]. rewrite E1.
    cbn [app read_part]. rewrite E2. reflexivity.
  - intros x H. rewrite PE. apply num_tokens_ok, (EX x H).
Qed.

Lemma legacy_tokens_ok d : d_legacy d = true -> parts_tokens d.
Proof.
  intro Hleg. destruct (d_ctype d) eqn:Hct.
  - apply (legacy_int_readable d Hct).
  - intros x H. rewrite legacy_part_tokens by assumption. apply legacy_q_tokens. rewrite <- Hct. exact H.
  - apply (float_readable d Hct).
Qed.

(* the reader chosen by the third type letter reads one rendered term back *)
Lemma legacy_reader_ok d : d_legacy d = true ->
  forall t rest, term_ok (d_real d) (d_ctype d) t ->
  v2_reader (d_ctype d) (d_real d) (value_tokens d t ++ rest) = Some (term_val (d_real d) t, rest).
Proof.
  intros Hleg t rest Ht. destruct (d_ctype d) eqn:Hct.
  - destruct (legacy_int_readable d Hct) as [R _].
    pose proof (read_term_ok d R t rest) as K. rewrite Hct in K. specialize (K Ht).
    unfold fp_type in K. rewrite Hct in K. exact K.
  - destruct Ht as [H1 H2]. unfold v2_reader, read_cplx_legacy_q, value_tokens, term_val.
    rewrite !legacy_part_tokens by assumption. rewrite <- app_assoc, legacy_q_part by exact H1.
    destruct (d_real d); cbn [negb app].
    + reflexivity.
    + rewrite legacy_q_part by (apply H2; reflexivity). reflexivity.
  - destruct (float_readable d Hct) as [R _].
    pose proof (read_term_ok d R t rest) as K. rewrite Hct in K. specialize (K Ht).
    unfold fp_type in K. rewrite Hct in K. exact K.
Qed.

(* ---- the header *)

Lemma legacy_type_chars d :
  v2_density (nth_error (legacy_type d) 0) = Some (Some (if d_sparse d then Sparse else Dense))
  /\ v2_real (nth_error (legacy_type d) 1) = Some (d_real d)
  /\ v2_ctype (nth_error (legacy_type d) 2) = Some (d_ctype d).
Proof. unfold legacy_type. destruct (d_sparse d), (d_real d), (d_ctype d); repeat split; reflexivity. Qed.

Definition legacy_prec_token (d : polydesc) : text :=
  match d_prec d with Some P => N_digits (Npos P) | None => ["0"] end.

Lemma prec2_lt P : prec2_in_range (Zpos P) -> (Zpos P < 2 ^ 51)%Z.
Proof. unfold prec2_in_range. exact (fun H => H). Qed.

Lemma legacy_prec_scan d :
  match d_prec d with Some P => prec2_in_range (Zpos P) | None => True end ->
  scan_long (legacy_prec_token d) = Some (match d_prec d with Some P => Zpos P | None => 0%Z end).
Proof.
  unfold legacy_prec_token. destruct (d_prec d) as [P|]; [|reflexivity]. intro PB.
  rewrite scan_long_digits; [rewrite N_digits_val; reflexivity|apply N_digits_all_digits|apply N_digits_nonempty|].
  rewrite N_digits_val. apply prec2_lt in PB. change (Z.of_N (N.pos P)) with (Z.pos P).
  apply Z.lt_le_incl, Z.lt_trans with (2 ^ 51)%Z; [exact PB|reflexivity].
Qed.

Lemma legacy_prec_tok_ok d : tok_ok (legacy_prec_token d).
Proof.
  unfold legacy_prec_token. destruct (d_prec d) as [P|].
  - split; [apply N_digits_nonempty|apply digits_tchars, N_digits_all_digits].
  - split; [discriminate|repeat constructor].
Qed.

Lemma legacy_type_tok_ok d : tok_ok (legacy_type d).
Proof. unfold legacy_type. split; [discriminate|]. destruct (d_sparse d), (d_real d), (d_ctype d); repeat constructor. Qed.

Lemma legacy_header_ok d : Forall tok_ok (legacy_header_tokens d).
Proof.
  unfold legacy_header_tokens. apply Forall_app. split.
  - constructor; [apply legacy_type_tok_ok|]. constructor; [apply (legacy_prec_tok_ok d)|].
    constructor; [apply nat_token_ok|constructor].
  - destruct (d_sparse d); [constructor; [apply nat_token_ok|constructor]|constructor].
Qed.

(* THE 2.x reader on the rendered tokens of a well-formed legacy description *)
Theorem read_v2_rendered d : wf d -> d_legacy d = true ->
  read_v2 (legacy_header_tokens d ++ coeff_tokens d) = V2_poly (denote d).
Proof.
  intros (Hdeg & Hterms & _ & Hk & Hlk & Hdr & Hpb) Hleg.
  rewrite Hleg in Hpb.
  assert (Hdi : (Z.of_nat (d_degree d) <= INT_MAX)%Z) by (unfold degree_in_range in Hdr; lia).
  pose proof (Hlk Hleg) as Hkind. rewrite Hkind in Hk. destruct Hk as [Hb Hk].
  destruct (legacy_type_chars d) as (T0 & T1 & T2).
  unfold legacy_header_tokens. cbn [app]. unfold read_v2. rewrite T0, T1, T2.
  change (match d_prec d with Some P => N_digits (N.pos P) | None => ["0"] end) with (legacy_prec_token d).
  rewrite legacy_prec_scan by exact Hpb.
  destruct (nat_token_facts (d_degree d)) as (A & B & C).
  rewrite scan_int_digits, C, nat_N_Z by (auto; rewrite C, nat_N_Z; exact Hdi).
  destruct (Z.of_nat (d_degree d) <? 0)%Z eqn:E; [lia|].
  unfold v2_coefficients, v2_settings, coeff_tokens, denote. rewrite Hkind. rewrite Nat2Z.id.
  assert (PR : prec_bits match d_prec d with Some P => Z.pos P | None => 0%Z end
               = match d_prec d with Some P => prec_bits (Z.pos P) | None => 0%Z end).
  { destruct (d_prec d); reflexivity. }
  rewrite PR.
  destruct (d_sparse d) eqn:Hsp.
  - destruct Hk as (Hnd & Hle & Hne). cbn [app].
    change (concat (map (term_tokens d true) (d_terms d))) with (concat (map (sparse_tokens d) (d_terms d))).
    rewrite (sparse_array_g d _ (legacy_reader_ok d Hleg) true) by auto.
    f_equal. unfold mk_poly. cbn [s_n s_struct s_density s_repr s_prec].
    unfold arr_spar, arr_coeffs. rewrite !map_map.
    f_equal; apply map_ext; intro i; destruct (find_term i (d_terms d)); reflexivity.
  - cbn [app].
    change (concat (map (term_tokens d false) (d_terms d))) with (concat (map (value_tokens d) (d_terms d))).
    rewrite (dense_coeffs_g d _ (legacy_reader_ok d Hleg)) by auto.
    f_equal. unfold mk_poly. cbn [s_n s_struct s_density s_repr s_prec].
    rewrite map_const_repeat. reflexivity.
Qed.

(* ---- from the text to the token list *)

Lemma tokens_aux_ltrim l : tokens_aux [] (ltrim l) = tokens_aux [] l.
Proof.
  induction l as [|c r IH]; [reflexivity|]. cbn [ltrim tokens_aux].
  destruct (is_space c) eqn:E; [exact IH|]. cbn [tokens_aux]. rewrite E. reflexivity.
Qed.

Lemma skipws_tokens ls : all_tokens (skipws ls) = all_tokens ls.
Proof.
  induction ls as [|l r IH]; [reflexivity|]. cbn [skipws].
  destruct (blank l) eqn:E.
  - rewrite IH. unfold all_tokens. cbn [map concat]. rewrite (proj1 (blank_no_tokens l E)). reflexivity.
  - unfold all_tokens. cbn [map concat]. unfold tokens. rewrite tokens_aux_ltrim. reflexivity.
Qed.

Lemma skipws_no_semicolon ls : Forall (fun l => has_char ";" l = false) ls ->
  Forall (fun l => has_char ";" l = false) (skipws ls).
Proof.
  induction 1 as [|l r Hl Hr IH]; [constructor|]. cbn [skipws].
  destruct (blank l); [exact IH|]. constructor; [rewrite has_char_ltrim; exact Hl|exact Hr].
Qed.

(* every legacy file: from the text to the 2.x reader on the rendered tokens *)
Theorem parse_outcome_legacy st pi d :
  d_legacy d = true -> Forall tok_ok (coeff_tokens d) ->
  parse_outcome (render st pi d) = O_v2 (read_v2 (legacy_header_tokens d ++ coeff_tokens d)).
Proof.
  intros Hleg Htoks.
  set (toks := legacy_header_tokens d ++ coeff_tokens d).
  assert (Hall : Forall tok_ok toks) by (apply Forall_app; split; [apply legacy_header_ok|exact Htoks]).
  set (groups := group (st_chunks st) toks).
  assert (Hg1 : Forall (Forall tok_ok) groups) by (apply group_forall, Hall).
  assert (Hg2 : Forall (fun g => g <> []) groups) by apply group_nonempty.
  unfold parse_outcome, render.
  assert (RL : render_lines st pi d =
               map filler_line (st_header st)
               ++ concat (zip_default token_lines default_linedeco groups (st_lines st))
               ++ map filler_line (st_trailer st)).
  { unfold render_lines. rewrite Hleg. reflexivity. }
  rewrite RL. clear RL.
  rewrite parse_lines.
  2:{ repeat (apply Forall_app; split); try apply no_nl_fillers.
      apply (forall_zip_concat token_lines (Forall tok_ok)); auto using no_nl_token_lines. }
  rewrite !effective_lines_app.
  set (E := effective_lines (map filler_line (st_header st))
            ++ effective_lines (concat (zip_default token_lines default_linedeco groups (st_lines st)))
            ++ effective_lines (map filler_line (st_trailer st))).
  destruct (eff_token_section groups (st_lines st) Hg1 Hg2) as [TK NS].
  assert (HE : Forall (fun l => has_char ";" l = false) E).
  { unfold E. repeat (apply Forall_app; split); auto;
      (eapply Forall_impl; [|apply eff_fillers]); intros l Hl; apply (blank_no_tokens l Hl). }
  assert (HTOK : all_tokens E = toks).
  { unfold E. rewrite !all_tokens_app, TK, !(all_tokens_blank _ (eff_fillers _)).
    unfold groups. rewrite group_concat, app_nil_r. reflexivity. }
  pose proof (skipws_no_semicolon E HE) as HS. pose proof (skipws_tokens E) as HT.
  unfold parse_outcome_lines.
  destruct (skipws E) as [|l0 ls] eqn:ES.
  - exfalso. rewrite HTOK in HT. unfold toks, legacy_header_tokens in HT. discriminate HT.
  - inversion HS as [|? ? H0 _]; subst. rewrite H0. rewrite HT, HTOK. reflexivity.
Qed.

(* the composed round trip for every well-formed legacy 2.x description: all twelve type words
   [sd][rc][qif], any declared precision, any layout of the tokens over lines, comments, blank lines *)
Theorem parse_outcome_render_legacy st pi d :
  wf d -> d_legacy d = true -> parse_outcome (render st pi d) = O_v2 (V2_poly (denote d)).
Proof.
  intros Hwf Hleg.
  rewrite parse_outcome_legacy; [|exact Hleg|apply coeff_tokens_ok; [exact Hwf|apply legacy_tokens_ok, Hleg]].
  rewrite read_v2_rendered by assumption. reflexivity.
Qed.

Theorem parse_render_legacy st pi d :
  wf d -> d_legacy d = true -> parse (render st pi d) = Poly (denote d).
Proof.
  intros Hwf Hleg. rewrite <- parse_outcome_forget, parse_outcome_render_legacy by assumption. reflexivity.
Qed.

(* EVERY accepted file syntax *)
Theorem parse_render_all st pi d : wf d -> parse (render st pi d) = Poly (denote d).
Proof.
  intro Hwf. destruct (d_legacy d) eqn:Hleg.
  - apply parse_render_legacy; assumption.
  - apply parse_render_all_3x; assumption.
Qed.

(* the type word written by render is the one denote's structure and density give back *)
Lemma legacy_type_accepted d : v2_type_accepted (legacy_type d) = true.
Proof. unfold v2_type_accepted. destruct (legacy_type_chars d) as (A & B & C). rewrite A, B, C. reflexivity. Qed.
