(* C10 / PolFile: decimal literals, their mathematical value, and the character-level
   model of MPSolve's decimal -> rational-string conversion, AS CODED in
     src/libmps/common/utils.c            mps_utils_build_equivalent_rational_string, mps_utils_strip_string
     src/libmps/common/inline-poly-parser.c  build_equivalent_rational_string, parse_sign,
                                             find_fp_separator, parse_fp_exponent
   and of the GMP readers the parsers hand tokens to (mpz_set_str / mpq_set_str / mpf_set_str),
   restricted to whitespace-free tokens (what mps_input_buffer_next_token produces).

   C strings are modelled as [list ascii] without NUL; writing a NUL at position p is "keep the
   prefix before p".  Definitions only; proofs are in DecRat.v. *)
Require Import List Ascii ZArith NArith QArith Bool.
Require Import MPSV.PolFile.Chars.
Import ListNotations.
Local Open Scope char_scope.

(* ------------------------------------------------------------------ decimal literals (the spec) *)

Inductive esign := ENone | EPlus | EMinus.

Record expo := { ex_mark : ascii;          (* 'e' or 'E' ('@' also for mpf_set_str) *)
                 ex_sign : esign;
                 ex_digits : text }.

Record declit := { dl_sign : text;         (* file tokens: "" or "-"; API strings: any mix of '+', '-', blanks *)
                   dl_int  : text;         (* digits before the point, possibly empty *)
                   dl_dot  : bool;
                   dl_frac : text;         (* digits after the point (empty when dl_dot = false) *)
                   dl_exp  : option expo }.

Definition all_digits (l : text) : Prop := Forall (fun c => is_digit c = true) l.
Definition all_digitsb (l : text) : bool := forallb is_digit l.

Definition sign_neg (s : text) : bool :=      (* parity of the number of '-' *)
  fold_left (fun b c => if c =c? "-" then negb b else b) s false.

Definition expo_value (e : option expo) : Z :=
  match e with
  | None => 0%Z
  | Some x => let v := Z.of_N (digits_val (ex_digits x)) in
              match ex_sign x with EMinus => (- v)%Z | _ => v end
  end.

Definition pow10 (k : nat) : positive := Pos.pow 10 (Pos.of_nat k).
Definition pow10Z (k : nat) : Z := Z.pow 10 (Z.of_nat k).

(* m * 10^e as a rational *)
Definition scale10 (m : Z) (e : Z) : Q :=
  match e with
  | Z0 => m # 1
  | Zpos p => (m * Z.pow_pos 10 p) # 1
  | Zneg p => m # (Pos.pow 10 p)
  end.

(* THE mathematical meaning of a literal:  (-1)^s * (int.frac) * 10^exp *)
Definition declit_value (l : declit) : Q :=
  let m := Z.of_N (digits_val (dl_int l ++ dl_frac l)) in
  let m := if sign_neg (dl_sign l) then (- m)%Z else m in
  Qred (scale10 m (expo_value (dl_exp l) - Z.of_nat (length (dl_frac l)))).

Definition render_esign (s : esign) : text :=
  match s with ENone => [] | EPlus => ["+"] | EMinus => ["-"] end.
Definition render_expo (e : option expo) : text :=
  match e with None => [] | Some x => ex_mark x :: render_esign (ex_sign x) ++ ex_digits x end.
Definition render_declit (l : declit) : text :=
  dl_sign l ++ dl_int l ++ (if dl_dot l then "." :: dl_frac l else []) ++ render_expo (dl_exp l).

Definition wf_expo (allow_at : bool) (e : option expo) : Prop :=
  match e with
  | None => True
  | Some x => (ex_mark x = "e" \/ ex_mark x = "E" \/ (allow_at = true /\ ex_mark x = "@"))
              /\ all_digits (ex_digits x) /\ ex_digits x <> []
  end.
Definition wf_body (l : declit) : Prop :=
  all_digits (dl_int l) /\ all_digits (dl_frac l) /\ (dl_dot l = false -> dl_frac l = [])
  /\ (dl_int l ++ dl_frac l <> []).
(* literal accepted in a .pol file for a floating-point coefficient (mpf_set_str) *)
Definition wf_file_lit (l : declit) : Prop :=
  (dl_sign l = [] \/ dl_sign l = ["-"]) /\ wf_body l /\ wf_expo true (dl_exp l).
(* decimal literal accepted by mps_monomial_poly_set_coefficient_s *)
Definition wf_api_lit (l : declit) : Prop :=
  Forall (fun c => c = "+" \/ c = "-" \/ is_space c = true) (dl_sign l) /\ wf_body l /\ wf_expo false (dl_exp l).

(* executable recogniser of file literals: the model of what mpf_set_str accepts (base 10) and
   the value it denotes before rounding *)
Fixpoint span_digits (l : text) : text * text :=
  match l with
  | c :: r => if is_digit c then let (d, rest) := span_digits r in (c :: d, rest) else ([], l)
  | [] => ([], [])
  end.

Definition parse_expo (l : text) : option (option expo) :=
  match l with
  | [] => Some None
  | m :: r =>
    if (m =c? "e") || (m =c? "E") || (m =c? "@") then
      let (sg, r') := match r with
                      | c :: r' => if c =c? "+" then (EPlus, r') else if c =c? "-" then (EMinus, r') else (ENone, r)
                      | [] => (ENone, r) end in
      let (d, rest) := span_digits r' in
      match d, rest with
      | _ :: _, [] => Some (Some {| ex_mark := m; ex_sign := sg; ex_digits := d |})
      | _, _ => None
      end
    else None
  end.

Definition parse_declit (t : text) : option declit :=
  let (sg, r) := match t with c :: r => if c =c? "-" then (["-"], r) else ([], t) | [] => ([], t) end in
  let (ip, r1) := span_digits r in
  let '(dot, fp, r2) := match r1 with
                        | c :: r' => if c =c? "." then let (f, r'') := span_digits r' in (true, f, r'') else (false, [], r1)
                        | [] => (false, [], r1) end in
  match ip ++ fp with
  | [] => None
  | _ => match parse_expo r2 with
         | Some e => Some {| dl_sign := sg; dl_int := ip; dl_dot := dot; dl_frac := fp; dl_exp := e |}
         | None => None
         end
  end.

(* value of a floating-point token in a file: what mpf_set_str denotes, exactly (no rounding) *)
Definition decimal_value (t : text) : option Q := option_map declit_value (parse_declit t).

(* ------------------------------------------------------------------ GMP integer / rational readers *)

(* mpz_set_str (base 10) on a whitespace-free string: optional '-', then one or more digits *)
Definition mpz_str_value (t : text) : option Z :=
  let (neg, d) := match t with c :: r => if c =c? "-" then (true, r) else (false, t) | [] => (false, t) end in
  match d with
  | [] => None
  | _ => if all_digitsb d then
           let v := Z.of_N (digits_val d) in Some (if neg then (- v)%Z else v)
         else None
  end.

(* mpq_set_str: numerator [ '/' denominator ], each through mpz_set_str; NOT canonicalised *)
Definition mpq_str_raw (t : text) : option (Z * Z) :=
  if has_char "/" t then
    match mpz_str_value (take_until "/" t), mpz_str_value (drop_until "/" t) with
    | Some n, Some d => Some (n, d)
    | _, _ => None
    end
  else option_map (fun n => (n, 1%Z)) (mpz_str_value t).

(* the rational a (num, den) pair denotes; None for a zero denominator (the real code divides by zero
   in mpq_canonicalize there: outside this property, see C09) *)
Definition q_of_raw (nd : Z * Z) : option Q :=
  let (n, d) := nd in
  match d with
  | Z0 => None
  | Zpos p => Some (Qred (n # p))
  | Zneg p => Some (Qred ((- n) # p))
  end.

(* mpq_set_str followed by mpq_canonicalize (what the file parsers do for Integer / Rational) *)
Definition mpq_str_value (t : text) : option Q :=
  match mpq_str_raw t with Some nd => q_of_raw nd | None => None end.

(* ------------------------------------------------------------------ the conversion, as coded *)

(* find_fp_separator: a '.' before the first white space *)
Fixpoint find_fp_separator (l : text) : bool :=
  match l with
  | [] => false
  | c :: r => if is_space c then false else if c =c? "." then true else find_fp_separator r
  end.

(* parse_sign: skip blanks and sign characters, flipping the sign on every '-' *)
Fixpoint parse_sign (l : text) (neg : bool) : bool * text :=
  match l with
  | c :: r => if is_space c || (c =c? "-") || (c =c? "+")
              then parse_sign r (if c =c? "-" then negb neg else neg)
              else (neg, l)
  | [] => (neg, [])
  end.

(* the truncation scan: a '+' or '-' whose predecessor is not 'e'/'E' ends the string *)
Fixpoint trunc_scan (prev : ascii) (l : text) : text :=
  match l with
  | [] => []
  | c :: r => if ((c =c? "+") || (c =c? "-")) && negb ((prev =c? "e") || (prev =c? "E"))
              then [] else c :: trunc_scan c r
  end.
Definition truncated (l : text) : text :=
  match l with [] => [] | c :: r => c :: trunc_scan c r end.

(* strtol (base 10): blanks, optional sign, digits; returns the value and whether the whole
   string was consumed *)
Definition strtol (l : text) : Z * bool :=
  let l := ltrim l in
  let (neg, r) := match l with
                  | c :: r' => if c =c? "-" then (true, r') else if c =c? "+" then (false, r') else (false, l)
                  | [] => (false, l) end in
  let (d, rest) := span_digits r in
  match d with
  | [] => (0%Z, match l with [] => true | _ => false end)
  | _ => let v := Z.of_N (digits_val d) in
         (if neg then (- v)%Z else v, match rest with [] => true | _ => false end)
  end.

(* parse_fp_exponent: text up to 'x', through strtol; the error flag is raised on the context but
   the value is used all the same *)
Definition parse_fp_exponent (l : text) : Z * bool := strtol (take_until "x" l).

(* the copy loop: returns (copied characters in reverse, number of fraction digits, exponent text) *)
Fixpoint copy_loop (l : text) (dot_found : bool) (den : nat) (acc : text) : text * nat * option text :=
  match l with
  | [] => (acc, den, None)
  | c :: r =>
    if (c =c? "e") || (c =c? "E") then (acc, den, Some r)
    else if (c =c? "x") || (c =c? "+") || (c =c? "-") then (acc, den, None)
    else if c =c? "." then copy_loop r true den acc
    else copy_loop r dot_found (if dot_found then S den else den) (c :: acc)
  end.

(* "Remove leading zeros, if any": while not at the last character, the character is '0' and the
   next one is a digit (so the only digit of a zero numerator "0/10" stays) *)
Fixpoint strip_lz (l : text) : text :=
  match l with
  | c :: (d :: _) as r => if (c =c? "0") && is_digit d then strip_lz r else l
  | _ => l
  end.

(* build_equivalent_rational_string: Some (string, exponent, negative, exponent-parsed-cleanly) or None *)
Definition build_ers (orig : text) : option (text * Z * bool * bool) :=
  let sep := find_fp_separator orig in
  let (neg, line0) := parse_sign orig false in
  let line := truncated line0 in
  if (sep || has_char "e" line || has_char "E" line) && has_char "/" line then None
  else
    let '(acc, den, ex) := copy_loop line false 0 [] in
    let '(e, ok) := match ex with Some t => parse_fp_exponent t | None => (0%Z, true) end in
    let copy := rev acc ++ (match den with O => [] | _ => "/" :: "1" :: zeros den end) in
    let copy := take_until "x" copy in
    Some (strip_lz copy, e, neg, ok).

(* mps_utils_strip_string *)
Definition strip_string (l : text) : text := rtrim (ltrim l).

Definition insert_before_slash (l : text) (z : text) : text :=
  if has_char "/" l then take_until "/" l ++ z ++ "/" :: drop_until "/" l else l ++ z.

(* mps_utils_build_equivalent_rational_string (input <> NULL) *)
Definition equiv_rational_string (input : text) : option text :=
  match build_ers input with
  | None => None
  | Some (p, e, neg, _) =>
    let s := strip_string p in
    let s := if neg then match s with
                         | c :: r => if c =c? "-" then " " :: r else "-" :: s
                         | [] => ["-"] end
             else s in
    Some (match e with
          | Z0 => s
          | Zpos k => insert_before_slash s (zeros (Pos.to_nat k))
          | Zneg k => (if has_char "/" s then s else s ++ ["/"; "1"]) ++ zeros (Pos.to_nat k)
          end)
  end.

(* mpq_canonicalize on a (numerator, denominator) pair; a zero denominator is a division by zero in
   the real code (left as it is here) *)
Definition canonicalize_raw (nd : Z * Z) : Z * Z :=
  match q_of_raw nd with Some q => (Qnum q, Zpos (Qden q)) | None => nd end.

(* mps_monomial_poly_set_coefficient_s, one part: the (numerator, denominator) pair that ends up in
   initial_mqp_r/i: mpq_init gives 0/1; a NULL result or a failed mpq_set_str leaves it there;
   then mpq_canonicalize *)
Definition api_coeff_raw (input : text) : Z * Z :=
  canonicalize_raw
    match equiv_rational_string input with
    | None => (0%Z, 1%Z)
    | Some s => match mpq_str_raw s with Some nd => nd | None => (0%Z, 1%Z) end
    end.

Definition api_coeff_value (input : text) : option Q := q_of_raw (api_coeff_raw input).

Definition raw_canonical (nd : Z * Z) : bool :=
  let (n, d) := nd in (0 <? d)%Z && (Z.gcd n d =? 1)%Z.

(* ------------------------------------------------------------------ rounding to an mpf *)

(* An mpf_t of precision [prec] bits keeps at least prec significant bits and mpf_set_str truncates:
   the stored value is q rounded toward zero to some p >= prec significant bits.  [trunc_bits p q]
   is that rounding. *)
Definition Qfloor_abs (q : Q) : Z := Z.quot (Qnum q) (Zpos (Qden q)).  (* toward zero *)

Definition ilog2_q (q : Q) : Z :=   (* some e with 2^e <= |q| < 2^(e+2), q <> 0 *)
  (Z.log2 (Z.abs (Qnum q)) - Z.log2 (Zpos (Qden q)) - 1)%Z.

Definition pow2Q (e : Z) : Q :=
  match e with Z0 => 1 | Zpos p => Z.pow_pos 2 p # 1 | Zneg p => 1 # Pos.pow 2 p end.

Definition trunc_bits (p : positive) (q : Q) : Q :=
  if Qeq_bool q 0 then 0 else
  let e := ilog2_q q in                      (* 2^e <= |q| *)
  let s := (Zpos p - e)%Z in                 (* scale so that |q| * 2^s >= 2^p *)
  (Qfloor_abs (q * pow2Q s) # 1) * pow2Q (- s).
