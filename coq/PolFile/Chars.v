(* C10 / PolFile: characters, digit strings and their values.
   Style: stdlib (lia); no MathComp here. *)
Require Import List Ascii ZArith NArith Bool Lia ZifyBool.
Import ListNotations.
Local Open Scope char_scope.
Local Open Scope N_scope.

Definition text := list ascii.

Definition ch_nl : ascii := "010".
Definition ch_sp : ascii := " ".

(* C isspace() in the "C" locale: \t \n \v \f \r and blank *)
Definition is_space (c : ascii) : bool :=
  let n := N_of_ascii c in ((9 <=? n) && (n <=? 13)) || (n =? 32).
Definition is_digit (c : ascii) : bool :=
  let n := N_of_ascii c in (48 <=? n) && (n <=? 57).
Definition digit_val (c : ascii) : N := N_of_ascii c - 48.
Definition digit_char (d : N) : ascii := ascii_of_N (48 + d).
Definition is_upper (c : ascii) : bool :=
  let n := N_of_ascii c in (65 <=? n) && (n <=? 90).
Definition is_lower (c : ascii) : bool :=
  let n := N_of_ascii c in (97 <=? n) && (n <=? 122).
(* C tolower / toupper *)
Definition lower (c : ascii) : ascii := if is_upper c then ascii_of_N (N_of_ascii c + 32) else c.
Definition upper (c : ascii) : ascii := if is_lower c then ascii_of_N (N_of_ascii c - 32) else c.

Definition ceqb (a b : ascii) : bool := Ascii.eqb a b.
Notation "a =c? b" := (Ascii.eqb a b) (at level 70).

Definition has_char (c : ascii) (l : text) : bool := existsb (fun x => x =c? c) l.

Fixpoint text_eqb (a b : text) : bool :=
  match a, b with
  | [], [] => true
  | x :: a', y :: b' => (x =c? y) && text_eqb a' b'
  | _, _ => false
  end.

(* value of a string of decimal digits, most significant first (Horner) *)
Fixpoint digits_val_acc (l : text) (a : N) : N :=
  match l with [] => a | c :: r => digits_val_acc r (10 * a + digit_val c) end.
Definition digits_val (l : text) : N := digits_val_acc l 0.

(* decimal printer: least significant digit first, accumulated *)
Fixpoint N_digits_aux (fuel : nat) (n : N) (acc : text) : text :=
  match fuel with
  | O => acc
  | S f => let acc' := digit_char (n mod 10) :: acc in
           if n / 10 =? 0 then acc' else N_digits_aux f (n / 10) acc'
  end.
Definition N_digits (n : N) : text := N_digits_aux (S (N.to_nat (N.size n))) n [].

Definition take_until (c : ascii) (l : text) : text :=
  (fix go l := match l with [] => [] | x :: r => if x =c? c then [] else x :: go r end) l.
Definition drop_until (c : ascii) (l : text) : text :=   (* everything AFTER the first c; [] if none *)
  (fix go l := match l with [] => [] | x :: r => if x =c? c then r else go r end) l.
Fixpoint ltrim (l : text) : text :=
  match l with c :: r => if is_space c then ltrim r else l | [] => [] end.
Definition rtrim (l : text) : text := rev (ltrim (rev l)).
Definition trim (l : text) : text := rtrim (ltrim l).
Definition spaces (n : nat) : text := repeat ch_sp n.
Definition zeros (n : nat) : text := repeat "0" n.

(* ---------------------------------------------------------------- lemmas *)

Lemma ascii_N_bound c : N_of_ascii c < 256.
Proof. apply N_ascii_bounded. Qed.

Lemma digit_val_char d : d < 10 -> digit_val (digit_char d) = d.
Proof.
  intro H. unfold digit_val, digit_char. rewrite N_ascii_embedding; lia.
Qed.

Lemma is_digit_char d : d < 10 -> is_digit (digit_char d) = true.
Proof.
  intro H. unfold is_digit, digit_char. rewrite N_ascii_embedding; lia.
Qed.

Lemma digits_val_acc_app l1 l2 a :
  digits_val_acc (l1 ++ l2) a = digits_val_acc l2 (digits_val_acc l1 a).
Proof. revert a; induction l1; simpl; intros; auto. Qed.

Lemma digits_val_acc_shift l a :
  digits_val_acc l a = a * 10 ^ N.of_nat (length l) + digits_val_acc l 0.
Proof.
  revert a; induction l as [|c r IH]; intros a.
  - simpl. lia.
  - cbn [digits_val_acc length]. rewrite IH. rewrite (IH (10 * 0 + digit_val c)).
    rewrite Nat2N.inj_succ, N.pow_succ_r'. lia.
Qed.

Lemma digits_val_app l1 l2 :
  digits_val (l1 ++ l2) = digits_val l1 * 10 ^ N.of_nat (length l2) + digits_val l2.
Proof.
  unfold digits_val. rewrite digits_val_acc_app, digits_val_acc_shift. reflexivity.
Qed.

Lemma digits_val_cons c l :
  digits_val (c :: l) = digit_val c * 10 ^ N.of_nat (length l) + digits_val l.
Proof. change (c :: l) with ([c] ++ l). rewrite digits_val_app. unfold digits_val at 1. simpl. lia. Qed.

Lemma digits_val_zeros k : digits_val (zeros k) = 0.
Proof.
  induction k; [reflexivity|]. unfold zeros in *. simpl repeat. rewrite digits_val_cons, IHk.
  unfold digit_val. simpl. lia.
Qed.

Lemma N_digits_aux_val fuel : forall n acc,
  n < 2 ^ N.of_nat fuel ->
  digits_val (N_digits_aux fuel n acc) = n * 10 ^ N.of_nat (length acc) + digits_val acc.
Proof.
  induction fuel as [|f IH]; intros n acc Hn.
  - simpl in *. assert (n = 0) by lia. subst. lia.
  - cbn [N_digits_aux].
    assert (Hm : n mod 10 < 10) by (apply N.mod_lt; lia).
    assert (Hd : n = 10 * (n / 10) + n mod 10) by (apply N.div_mod; lia).
    destruct (n / 10 =? 0) eqn:E.
    + rewrite digits_val_cons, digit_val_char by assumption.
      apply N.eqb_eq in E. rewrite E in Hd. lia.
    + rewrite IH.
      * cbn [length]. rewrite Nat2N.inj_succ, N.pow_succ_r'.
        rewrite digits_val_cons, digit_val_char by assumption.
        set (P := 10 ^ N.of_nat (length acc)) in *. set (q := n / 10) in *. set (r := n mod 10) in *.
        clearbody q r P. rewrite Hd. ring.
      * rewrite Nat2N.inj_succ, N.pow_succ_r' in Hn.
        assert (n / 10 <= n / 2) by (apply N.div_le_compat_l; lia).
        assert (n / 2 < 2 ^ N.of_nat f) by (apply N.div_lt_upper_bound; lia).
        lia.
Qed.

Lemma N_digits_val n : digits_val (N_digits n) = n.
Proof.
  unfold N_digits. rewrite N_digits_aux_val.
  - simpl. unfold digits_val. simpl. lia.
  - rewrite Nat2N.inj_succ, N2Nat.id, N.pow_succ_r'.
    pose proof (N.size_gt n). lia.
Qed.

Lemma N_digits_aux_digits fuel : forall n acc,
  Forall (fun c => is_digit c = true) acc ->
  Forall (fun c => is_digit c = true) (N_digits_aux fuel n acc).
Proof.
  induction fuel as [|f IH]; intros n acc H; simpl; auto.
  assert (Hm : n mod 10 < 10) by (apply N.mod_lt; lia).
  destruct (n / 10 =? 0).
  - constructor; auto. apply is_digit_char; auto.
  - apply IH. constructor; auto. apply is_digit_char; auto.
Qed.

Lemma N_digits_all_digits n : Forall (fun c => is_digit c = true) (N_digits n).
Proof. apply N_digits_aux_digits. constructor. Qed.

Lemma N_digits_aux_nonempty fuel n acc : acc <> [] -> N_digits_aux fuel n acc <> [].
Proof.
  revert n acc; induction fuel; simpl; intros; auto.
  destruct (n / 10 =? 0); [discriminate|]. apply IHfuel. discriminate.
Qed.

Lemma N_digits_nonempty n : N_digits n <> [].
Proof.
  unfold N_digits. cbn [N_digits_aux]. destruct (n / 10 =? 0); [discriminate|].
  apply N_digits_aux_nonempty. discriminate.
Qed.

(* character classes are disjoint the way the proofs need *)
Lemma digit_not_space c : is_digit c = true -> is_space c = false.
Proof. unfold is_digit, is_space. lia. Qed.

Lemma digit_neq c x : is_digit c = true -> is_digit x = false -> (c =c? x) = false.
Proof.
  intros H1 H2. destruct (c =c? x) eqn:E; auto. apply Ascii.eqb_eq in E. subst. congruence.
Qed.

Lemma lower_lower c : lower (lower c) = lower c.
Proof. destruct c as [[] [] [] [] [] [] [] []]; reflexivity. Qed.
Lemma lower_upper c : lower (upper c) = lower c.
Proof. destruct c as [[] [] [] [] [] [] [] []]; reflexivity. Qed.
Lemma is_space_lower c : is_space (lower c) = is_space c.
Proof. destruct c as [[] [] [] [] [] [] [] []]; reflexivity. Qed.

Lemma ltrim_spaces_app sp l :
  Forall (fun c => is_space c = true) sp -> ltrim (sp ++ l) = ltrim l.
Proof. induction 1; simpl; auto. rewrite H. auto. Qed.

Lemma ltrim_nonspace c l : is_space c = false -> ltrim (c :: l) = c :: l.
Proof. intro H; simpl; rewrite H; reflexivity. Qed.

Lemma spaces_are_spaces n : Forall (fun c => is_space c = true) (spaces n).
Proof. induction n; simpl; constructor; auto. Qed.

Lemma take_until_app c a r :
  has_char c a = false -> take_until c (a ++ c :: r) = a.
Proof.
  induction a as [|x a IH]; simpl; intro H.
  - rewrite Ascii.eqb_refl. reflexivity.
  - apply orb_false_iff in H. destruct H as [H1 H2]. rewrite H1. f_equal. apply IH, H2.
Qed.

Lemma take_until_none c a : has_char c a = false -> take_until c a = a.
Proof.
  induction a as [|x a IH]; simpl; intro H; auto.
  apply orb_false_iff in H. destruct H as [H1 H2]. rewrite H1. f_equal. apply IH, H2.
Qed.

Lemma drop_until_app c a r :
  has_char c a = false -> drop_until c (a ++ c :: r) = r.
Proof.
  induction a as [|x a IH]; simpl; intro H.
  - rewrite Ascii.eqb_refl. reflexivity.
  - apply orb_false_iff in H. destruct H as [H1 H2]. rewrite H1. apply IH, H2.
Qed.

Lemma has_char_app c a b : has_char c (a ++ b) = has_char c a || has_char c b.
Proof. unfold has_char. apply existsb_app. Qed.

Lemma has_char_digits c l :
  is_digit c = false -> Forall (fun x => is_digit x = true) l -> has_char c l = false.
Proof.
  intros Hc H. induction H; simpl; auto. rewrite IHForall, orb_false_r. apply digit_neq; auto.
Qed.
