(* C10 / PolFile: mps_monomial_poly_read_from_stream_v2 (src/libmps/monomial/monomial-parser.c), the
   reader of legacy MPSolve 2.x files, statement by statement IN THE ORDER OF THE C CODE, with the
   error it raises at each exit (definitions only; proofs in RoundTripLegacy.v).

   C code                                                        here
   ------------------------------------------------------------  ------------------------------------
   token = next_token; !token || !sscanf (token, "%3s", dt)       [] -> V2E_no_token ; dt[k] = nth_error ty k
                                                                  (at most three characters are stored, then NUL:
                                                                  None stands for the NUL; a NUL in dt[k] always
                                                                  falls into the `default:` of switch k, so the
                                                                  bytes after it are never looked at)
   switch (dt[0])  's' sparse  'd' dense  'u' user  default err   v2_density   / V2E_data_type
   switch (dt[1])  'r' real    'c' complex          default err   v2_real      / V2E_data_structure
   switch (dt[2])  'q' 'i' 'f'                      default err   v2_ctype     / V2E_coeff_type
   token; !token || !sscanf (token, "%ld", &prec) -> err          scan_long    / V2E_precision
   prec *= LOG2_10  (long -> double, double product, truncation   prec_bits (CIntModel.v)
                     toward zero back to long)
   token; !token || !sscanf (token, "%d", &s->n) || s->n < 0      scan_int, n <? 0 / V2E_degree
   if (density == USER) return user polynomial of degree n        V2_user n
   dense:  n+1 coefficients, reader by coefficient type           read_dense
   sparse: one token read and dropped (the count; may be absent), read_sparse
           then  index coefficient  until the tokens end;
           index not a number / out of 0..n / repeated -> err     / V2E_coefficients
   q: every real number is TWO tokens  num den  (mpq_set_str each, mpq_div, mpq_canonicalize)
   i: one token through mpq_set_str + mpq_canonicalize   f: one token through mpf_set_str
   poly->prec = prec

   What is modelled and not verified: sscanf's %d / %ld by [scan_int] / [scan_long] (optional sign,
   digits, rest of the token ignored; %ld saturates at LONG_MAX / LONG_MIN, %d keeps the low 32 bits of
   that: glibc), GMP's readers as in PolModel.v. *)
Require Import String Ascii List ZArith NArith QArith Bool.
Require Import MPSV.PolFile.Chars MPSV.PolFile.DecRatModel MPSV.PolFile.PolModel.
Import ListNotations.
Local Open Scope char_scope.

Inductive v2_error :=
| V2E_no_token            (* "Error parsing the input file" *)
| V2E_data_type           (* "Found unsupported data_type in input file"       (first letter) *)
| V2E_data_structure      (* "Found unsupported data_structure in input file"  (second letter) *)
| V2E_coeff_type          (* "Found unsupported data structure in input file"  (third letter) *)
| V2E_precision           (* "Error while reading the input precision of the coefficients" *)
| V2E_degree              (* "Error reading the degree of the polynomial" *)
| V2E_coefficients.       (* any mps_raise_parsing_error of the coefficient section *)

Inductive v2_result := V2_poly (p : poly) | V2_user (n : Z) | V2_error (e : v2_error).

Definition v2_density (c : option ascii) : option (option density) :=
  match c with
  | Some c => if c =c? "s" then Some (Some Sparse) else if c =c? "d" then Some (Some Dense)
              else if c =c? "u" then Some None else None
  | None => None
  end.

Definition v2_real (c : option ascii) : option bool :=
  match c with
  | Some c => if c =c? "r" then Some true else if c =c? "c" then Some false else None
  | None => None
  end.

Definition v2_ctype (c : option ascii) : option ctype :=
  match c with
  | Some c => if c =c? "q" then Some TRational else if c =c? "i" then Some TInteger
              else if c =c? "f" then Some TFloat else None
  | None => None
  end.

(* the reader of one (real or complex) coefficient, by the third letter *)
Definition v2_reader (ct : ctype) (real : bool) : list text -> option ((raw * raw) * list text) :=
  match ct with
  | TRational => read_cplx_legacy_q (negb real)
  | TInteger => read_cplx false true (negb real)
  | TFloat => read_cplx true true (negb real)
  end.

Definition v2_settings (real : bool) (ct : ctype) (dn : density) (prec n : Z) : settings :=
  {| s_struct := mk_structure real ct; s_density := dn; s_repr := KMonomial; s_prec := prec; s_n := n |}.

(* the coefficient section *)
Definition v2_coefficients (real : bool) (ct : ctype) (dn : density) (prec n : Z) (rest : list text) : v2_result :=
  let st := v2_settings real ct dn prec n in
  let n1 := S (Z.to_nat n) in
  let rd := v2_reader ct real in
  match dn with
  | Dense => match read_dense rd n1 rest with
             | Some (cs, _) => V2_poly (mk_poly st (repeat true n1) cs [])
             | None => V2_error V2E_coefficients end
  | Sparse => match rest with
              | _count :: rest' =>
                match read_sparse (length rest') rd true n rest' (repeat None n1) with
                | Some arr => V2_poly (mk_poly st (arr_spar arr) (arr_coeffs arr) [])
                | None => V2_error V2E_coefficients end
              | [] => V2_poly (mk_poly st (repeat false n1) (repeat (raw0, raw0) n1) [])
              end
  end.

Definition read_v2 (toks : list text) : v2_result :=
  match toks with
  | [] => V2_error V2E_no_token
  | ty :: toks1 =>
    match v2_density (nth_error ty 0) with
    | None => V2_error V2E_data_type
    | Some dens =>
    match v2_real (nth_error ty 1) with
    | None => V2_error V2E_data_structure
    | Some real =>
    match v2_ctype (nth_error ty 2) with
    | None => V2_error V2E_coeff_type
    | Some ct =>
    match toks1 with
    | [] => V2_error V2E_precision
    | tp :: toks2 =>
    match scan_long tp with
    | None => V2_error V2E_precision
    | Some p =>
    match toks2 with
    | [] => V2_error V2E_degree
    | tn :: rest =>
    match scan_int tn with
    | None => V2_error V2E_degree
    | Some n =>
      if (n <? 0)%Z then V2_error V2E_degree
      else match dens with
           | None => V2_user n
           | Some dn => v2_coefficients real ct dn (prec_bits p) n rest
           end
    end end end end end end end
  end.

(* what mps_parse_stream returns to its caller *)
Definition v2_forget (r : v2_result) : result :=
  match r with V2_poly p => Poly p | V2_user _ => UserPoly | V2_error _ => ParseError end.

(* the type words: accepted iff the first three characters are in {s,d,u} x {r,c} x {q,i,f} *)
Definition v2_type_accepted (ty : text) : bool :=
  match v2_density (nth_error ty 0), v2_real (nth_error ty 1), v2_ctype (nth_error ty 2) with
  | Some _, Some _, Some _ => true
  | _, _, _ => false
  end.

Definition v2_triples : list text :=
  flat_map (fun a => flat_map (fun b => map (fun c => [a; b; c]) ["q"; "i"; "f"]) ["r"; "c"]) ["s"; "d"; "u"].

(* mps_parse_stream / mps_parse_string with the 2.x reader spelled out (error class kept) *)
Inductive outcome := O_v3 (r : result) | O_v2 (r : v2_result) | O_empty.

Definition parse_outcome_lines (ls : list text) : outcome :=
  match ls with
  | [] => O_empty
  | l0 :: _ => if has_char ";" l0 then O_v3 (parse_v3 ls) else O_v2 (read_v2 (all_tokens ls))
  end.
Definition parse_outcome (t : text) : outcome :=
  parse_outcome_lines (effective_lines (split_lines (skip_comments t))).
Definition parse_string_outcome (t : text) : outcome :=
  parse_outcome_lines (effective_lines (split_lines t)).
Definition outcome_forget (o : outcome) : result :=
  match o with O_v3 r => r | O_v2 r => v2_forget r | O_empty => ParseError end.
