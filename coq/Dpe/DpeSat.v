(* C12 -- "saturating instead of wrapping": the exponent of every result of the covered operations is a copy of
   an operand's exponent, a halved exponent, or comes out of rdpe_set_esp / rdpe_Norm, which clamp
   (DpeProps.set_esp_saturates).  No exponent is computed with wrapping arithmetic.  Proofs only. *)
From Coq Require Import ZArith Reals Bool Lia Lra ZifyBool.
From Flocq Require Import Core BinarySingleNaN.
Require Import MPSV.Dpe.DpeDefs MPSV.Dpe.DpeModel MPSV.Dpe.DpeProps MPSV.Dpe.DpeArith.
Open Scope Z_scope.

(* clampl is defined in DpeDefs.v *)

Lemma set_esp_clamps : forall (m : b64) (e0 a b : Z) (sub : bool),
  is_finite m = true -> B2R m <> 0%R -> in_long a -> in_long b ->
  esp (rdpe_set_esp (Rdpe m e0) a b sub) = clampl (if sub then a - b else a + b).
Proof.
  intros m e0 a b sub Fm Nm La Lb.
  destruct (set_esp_saturates m e0 a b sub Fm Nm La Lb) as [_ [H1 [H2 H3]]]. cbv zeta in *.
  set (s := if sub then a - b else a + b) in *. unfold clampl.
  destruct (Z_lt_le_dec LONG_MAX s) as [A|A]; [rewrite (H2 A); cbn [esp]; unfold LONG_MAX, LONG_MIN in *; lia|].
  destruct (Z_lt_le_dec s LONG_MIN) as [B|B]; [rewrite (H3 B); cbn [esp]; unfold LONG_MAX, LONG_MIN in *; lia|].
  rewrite (H1 (conj B A)). cbn [esp]. unfold LONG_MAX, LONG_MIN in *. lia.
Qed.

(* rdpe_Norm: exponent = clamp (e + frexp exponent); a zero mantissa gives exponent 0 *)
Lemma norm_clamps : forall (m : b64) (e : Z), is_finite m = true -> in_long e ->
  in_long (esp (rdpe_norm (Rdpe m e))) /\
  (B2R m <> 0%R -> esp (rdpe_norm (Rdpe m e)) = clampl (e + snd (ffrexp m))) /\
  (B2R m = 0%R -> esp (rdpe_norm (Rdpe m e)) = 0).
Proof.
  intros m e Fm Le. unfold rdpe_norm. cbn [mnt esp].
  pose proof (ffrexp_spec m Fm) as S. pose proof (ffrexp_exp_bound m Fm) as Bi.
  destruct (ffrexp m) as [z i]. cbn [snd] in *.
  destruct S as [Fz [Hv [[H0 [Hz0 [Hi Hq]]]|[Hn [Hb [Hi Hq]]]]]].
  - unfold rdpe_set_esp. cbn [mnt]. rewrite Hq. cbn [esp].
    split; [unfold in_long, LONG_MIN, LONG_MAX; lia|]. split; [intro; contradiction|reflexivity].
  - assert (Nz : B2R z <> 0%R) by (intro K; rewrite K, Rabs_R0 in Hb; lra).
    assert (Li : in_long i) by (unfold in_long, LONG_MIN, LONG_MAX; lia).
    pose proof (set_esp_clamps z e e i false Fz Nz Le Li) as C. rewrite C.
    split; [unfold clampl, in_long, LONG_MIN, LONG_MAX; lia|]. split; [reflexivity|intro; contradiction].
Qed.

(* rdpe_add_core / rdpe_sub, any exponents in the range of long: the result is x, +-y, or rdpe_Norm of a finite
   mantissa with the larger of the two exponents *)
Theorem addsub_shape : forall s x y, normalised x -> normalised y -> nonzero x -> nonzero y ->
  in_long (esp x) -> in_long (esp y) ->
  op_as s x y = x \/ op_as s x y = signed s y \/
  exists f : b64, is_finite f = true /\ op_as s x y = rdpe_norm (Rdpe f (Z.max (esp x) (esp y))).
Proof.
  intros s x y Nx Ny Zx Zy Lx Ly.
  assert (Qx := feq0_nonzero x Nx Zx). assert (Qy := feq0_nonzero y Ny Zy).
  assert (Fx := proj1 Nx). assert (Fy := proj1 Ny).
  assert (Bx := normalised_bounds x Nx Zx). assert (By := normalised_bounds y Ny Zy).
  assert (Ux : (Rabs (B2R (mnt x)) <= 1)%R) by lra. assert (Uy : (Rabs (B2R (mnt y)) <= 1)%R) by lra.
  rewrite (op_as_unfold s x y Qx Qy). cbv zeta.
  destruct (Z_lt_le_dec 53 (esp x - esp y)) as [Hgt|Hle].
  { rewrite (esp_distance_gt _ _ Lx Ly Hgt). left; reflexivity. }
  destruct (Z_lt_le_dec 53 (esp y - esp x)) as [Hlt|Hge].
  { destruct (esp_distance_lt _ _ Lx Ly Hlt) as [D1 D2]. rewrite D1, D2. right; left; reflexivity. }
  assert (Ld : in_long (esp x - esp y)) by (unfold in_long, LONG_MIN, LONG_MAX in *; lia).
  rewrite (esp_distance_exact _ _ Lx Ly Ld).
  assert (D1 : NBT <? esp x - esp y = false) by (unfold NBT; lia).
  assert (D2 : esp x - esp y <? - NBT = false) by (unfold NBT; lia).
  rewrite D1, D2. right; right.
  destruct (esp x - esp y =? 0) eqn:D3.
  { destruct (fop_rel s _ _ Fx Fy Ux Uy) as [Ff _]. exists (fop s (mnt x) (mnt y)). split; [assumption|].
    replace (Z.max (esp x) (esp y)) with (esp x) by lia. reflexivity. }
  destruct (0 <? esp x - esp y) eqn:D4.
  { set (d := esp x - esp y). assert (Hd : 0 < d <= 53) by lia.
    rewrite (wrap64_id (- d)) by (unfold in_long, LONG_MIN, LONG_MAX; lia).
    rewrite (wrap32_id (- d)) by (unfold two31; lia).
    destruct (fldexp_exact (mnt y) d Fy By Hd) as [F' [_ U']].
    destruct (fop_rel s _ _ Fx F' Ux U') as [Ff _]. eexists. split; [exact Ff|].
    replace (Z.max (esp x) (esp y)) with (esp x) by lia. reflexivity. }
  { set (d := esp y - esp x). assert (Hd : 0 < d <= 53) by lia.
    replace (esp x - esp y) with (- d) by lia.
    rewrite (wrap32_id (- d)) by (unfold two31; lia).
    destruct (fldexp_exact (mnt x) d Fx Bx Hd) as [F' [_ U']].
    destruct (fop_rel s _ _ F' Fy U' Uy) as [Ff _]. eexists. split; [exact Ff|].
    replace (Z.max (esp x) (esp y)) with (esp y) by lia. reflexivity. }
Qed.

(* ... hence the exponent of a sum or difference is never a wrapped value: it is one of the operands' exponents,
   zero (cancellation), or clamp (max (ex, ey) + frexp exponent of the rounded mantissa sum) *)
Theorem addsub_no_wrap : forall s x y, normalised x -> normalised y -> nonzero x -> nonzero y ->
  in_long (esp x) -> in_long (esp y) ->
  let r := op_as s x y in
  in_long (esp r) /\
  (esp r = esp x \/ esp r = esp y \/ esp r = 0 \/
   exists i, -1074 <= i <= 1024 /\ esp r = clampl (Z.max (esp x) (esp y) + i)).
Proof.
  intros s x y Nx Ny Zx Zy Lx Ly r.
  destruct (addsub_shape s x y Nx Ny Zx Zy Lx Ly) as [E|[E|[f [Ff E]]]]; unfold r; rewrite E.
  - split; [assumption|left; reflexivity].
  - assert (Es : esp (signed s y) = esp y) by (destruct s; reflexivity). rewrite Es.
    split; [assumption|right; left; reflexivity].
  - assert (Lm : in_long (Z.max (esp x) (esp y))) by (unfold in_long in *; lia).
    destruct (norm_clamps f _ Ff Lm) as [L [C1 C0]]. split; [assumption|].
    destruct (Req_dec (B2R f) 0) as [Z0|Z1].
    + right; right; left. apply C0; assumption.
    + right; right; right. exists (snd (ffrexp f)). split; [apply ffrexp_exp_bound; assumption|apply C1; assumption].
Qed.

(* rdpe_mul: either one of the two saturation tests fires, or the exponent sum is in the range of long and
   the wrapping addition of the model (the C addition) is exact *)
Theorem mul_no_wrap : forall x y, in_long (esp x) -> in_long (esp y) ->
  rdpe_mul x y = rdpe_mul_saturate (mnt x) (mnt y) true \/
  rdpe_mul x y = rdpe_mul_saturate (mnt x) (mnt y) false \/
  (LONG_MIN < esp x + esp y < LONG_MAX /\
   rdpe_mul x y = rdpe_norm (Rdpe (fmul (mnt x) (mnt y)) (esp x + esp y))).
Proof.
  intros x y Lx Ly. unfold rdpe_mul.
  destruct (mul_ovf (esp x) (esp y)) eqn:O; [left; reflexivity|].
  destruct (mul_unf (esp x) (esp y)) eqn:U; [right; left; reflexivity|].
  right; right. unfold mul_ovf, mul_unf, in_long, LONG_MIN, LONG_MAX in *.
  assert (R : -9223372036854775808 < esp x + esp y < 9223372036854775807) by lia.
  split; [assumption|]. rewrite wrap64_id by (unfold in_long, LONG_MIN, LONG_MAX; lia). reflexivity.
Qed.

(* rdpe_sqrt: the halved exponent needs no clamp at all *)
Theorem sqrt_no_wrap : forall x, in_long (esp x) ->
  exists (f : b64) (E : Z), rdpe_sqrt x = rdpe_norm (Rdpe f E) /\ - two62 <= E <= two62 /\
    (Z.odd (esp x) = false -> 2 * E = esp x) /\ (Z.odd (esp x) = true -> 2 * E = esp x + 1).
Proof.
  intros x Lx. unfold rdpe_sqrt. unfold in_long, LONG_MIN, LONG_MAX, two62 in *.
  pose proof (Z.quot_rem' (esp x) 2) as Q.
  destruct (Z.odd (esp x)) eqn:Od.
  - eexists. eexists. split; [reflexivity|].
    apply Z.odd_spec in Od. destruct Od as [k Hk].
    destruct (Z_lt_le_dec 0 (esp x)) as [Hp|Hp].
    + assert (A1 : 0 <= esp x) by lia. assert (A2 : 0 < 2) by lia.
      pose proof (Z.rem_bound_pos (esp x) 2 A1 A2). replace (0 <? esp x) with true by lia.
      split; [lia|]. split; [intro; discriminate|intro; lia].
    + assert (A1 : esp x <= 0) by lia. assert (A2 : 0 < 2) by lia.
      pose proof (Zquot.Zrem_lt_neg_pos (esp x) 2 A1 A2) as Hb. replace (0 <? esp x) with false by lia.
      split; [lia|]. split; [intro; discriminate|intro; lia].
  - eexists. eexists. split; [reflexivity|].
    assert (R0 : Z.rem (esp x) 2 = 0).
    { rewrite <- Z.negb_even in Od. destruct (Z.even (esp x)) eqn:Ev; [|discriminate].
      apply Z.even_spec in Ev. destruct Ev as [k Hk]. rewrite Hk. rewrite Z.mul_comm. apply Z.rem_mul. lia. }
    split; [lia|]. split; [intro; lia|intro; discriminate].
Qed.

(* ---- scaling: rdpe_mul_2exp / rdpe_div_2exp for 0 <= i <= LONG_MAX (one round of rdpe_shift_esp) ------------- *)
Theorem scale_2exp : forall x i (sub : bool), normalised x -> nonzero x -> in_long (esp x) -> 0 <= i <= LONG_MAX ->
  let r := rdpe_shift_esp x i sub in
  let s := if sub then esp x - i else esp x + i in
  esp r = clampl s /\ (in_long s -> r = Rdpe (mnt x) s /\ rval r = (rval x * bpow radix2 (if sub then - i else i))%R).
Proof.
  intros x i sub Nx Zx Lx Hi r s. unfold r, rdpe_shift_esp.
  replace (LONG_MAX <? i) with false by lia.
  destruct x as [m e]. cbn [mnt esp] in *.
  assert (Li : in_long i) by (unfold in_long, LONG_MIN, LONG_MAX in *; lia).
  split.
  - apply set_esp_clamps; try assumption. exact (proj1 Nx).
  - intro Ls. destruct (set_esp_saturates m e e i sub (proj1 Nx) Zx Lx Li) as [_ [H1 _]]. cbv zeta in H1.
    fold s in H1. rewrite (H1 Ls). split; [reflexivity|].
    unfold rval, s; cbn [mnt esp]. destruct sub; [unfold Z.sub|]; rewrite bpow_plus; ring.
Qed.

(* ---- conversion to double: correctly rounded (into subnormals and to zero as well) whenever the value is
        below 2^1024; the exponent is clamped to +-4096 before the int cast ---------------------------------------- *)
Theorem get_d_rounded : forall x, normalised x -> -2200 <= esp x <= 1024 ->
  is_finite (rdpe_get_d x) = true /\ B2R (rdpe_get_d x) = rnd64 (rval x).
Proof.
  intros x Nx He. unfold rdpe_get_d, clamp_exp.
  replace (4096 <? esp x) with false by lia. replace (esp x <? -4096) with false by lia.
  rewrite wrap32_id by (unfold two31; lia). unfold fldexp.
  replace (Z.max (-2200) (Z.min 2200 (esp x))) with (esp x) by lia.
  pose proof (Bldexp_correct 53 1024 _ _ mode_NE (mnt x) (esp x)) as HB.
  change (round_mode mode_NE) with ZnearestE in HB. fold (rval x) in HB.
  rewrite Rlt_bool_true in HB.
  - destruct HB as [H1 [H2 _]]. rewrite H2. split; [exact (proj1 Nx)|exact H1].
  - (* |x| < 2^1024, and 2^1024 - ulp is representable *)
    assert (Hm : (Rabs (B2R (mnt x)) <= 1 - bpow radix2 (-53))%R).
    { destruct Nx as [F [[N0 _]|Nb]].
      - rewrite N0, Rabs_R0. pose proof u53_small. unfold u53 in *. lra.
      - assert (Fm : generic_format radix2 fexp64 (Rabs (B2R (mnt x)))) by (apply generic_format_abs, (generic_format_B2R 53 1024)).
        assert (F1 : generic_format radix2 fexp64 1) by (change 1%R with (bpow radix2 0); apply generic_format_bpow; vm_compute; discriminate).
        pose proof (pred_ge_gt radix2 fexp64 _ _ Fm F1 (proj2 Nb)) as P.
        change 1%R with (bpow radix2 0) in P. rewrite pred_bpow in P. exact P. }
    destruct (Z_le_gt_dec (esp x) 1023) as [E1|E1].
    + apply Rle_lt_trans with (bpow radix2 1023); [|apply bpow_lt; lia].
      apply abs_round_le_generic; try typeclasses eauto.
      * apply generic_format_bpow. vm_compute. discriminate.
      * unfold rval. rewrite Rabs_mult, (Rabs_pos_eq (bpow radix2 (esp x))) by apply bpow_ge_0.
        apply Rle_trans with (1 * bpow radix2 (esp x))%R.
        apply Rmult_le_compat_r; [apply bpow_ge_0|]. pose proof (bpow_gt_0 radix2 (-53)); lra.
        rewrite Rmult_1_l. apply bpow_le. lia.
    + assert (E : esp x = 1024) by lia.
      set (big := F2R (Float radix2 (2 ^ 53 - 1) 971)).
      assert (Vb : big = ((1 - bpow radix2 (-53)) * bpow radix2 1024)%R).
      { unfold big, F2R; cbn [Fnum Fexp]. rewrite minus_IZR. change (IZR (2 ^ 53)) with (bpow radix2 53).
        assert (K1 : bpow radix2 1024 = (bpow radix2 53 * bpow radix2 971)%R) by (rewrite <- bpow_plus; reflexivity).
        assert (K2 : (bpow radix2 (-53) * bpow radix2 53 = 1)%R) by (rewrite <- bpow_plus; reflexivity).
        rewrite K1. set (P := bpow radix2 53) in *. set (M := bpow radix2 (-53)) in *. set (A := bpow radix2 971).
        replace ((1 - M) * (P * A))%R with (P * A - (M * P) * A)%R by ring. rewrite K2. ring. }
      assert (Fb : generic_format radix2 fexp64 big).
      { change fexp64 with (FLT_exp (-1074) 53). apply generic_format_FLT.
        apply (FLT_spec radix2 (-1074) 53 big (Float radix2 (2 ^ 53 - 1) 971)); [reflexivity| |]; cbn [Fnum Fexp]; [|lia].
        vm_compute. reflexivity. }
      apply Rle_lt_trans with big.
      * apply abs_round_le_generic; try typeclasses eauto; try assumption.
        rewrite Vb. unfold rval. rewrite E, Rabs_mult, (Rabs_pos_eq (bpow radix2 1024)) by apply bpow_ge_0.
        apply Rmult_le_compat_r; [apply bpow_ge_0|assumption].
      * rewrite Vb. pose proof (bpow_gt_0 radix2 (-53)). pose proof (bpow_gt_0 radix2 1024). nra.
Qed.

Theorem get_d_clamped : forall m e, (4096 < e -> rdpe_get_d (Rdpe m e) = rdpe_get_d (Rdpe m 4096)) /\
  (e < -4096 -> rdpe_get_d (Rdpe m e) = rdpe_get_d (Rdpe m (-4096))).
Proof.
  intros m e. unfold rdpe_get_d, clamp_exp. cbn [mnt esp]. split; intro H.
  - replace (4096 <? e) with true by lia. reflexivity.
  - replace (4096 <? e) with false by lia. replace (e <? -4096) with true by lia. reflexivity.
Qed.
