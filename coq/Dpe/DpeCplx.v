(* C12 -- the complex operations cdpe_smod, cdpe_mod, cdpe_mul, cdpe_sqr of the branch-by-branch model:
   error in complex modulus, constants derived from the real operations
   (rdpe_mul, rdpe_sqr: 1 ulp; rdpe_add, rdpe_sub: 2 ulps; rdpe_sqrt: 1 ulp).  Proofs only. *)
From Coq Require Import ZArith Reals Bool Lia Lra Psatz ZifyBool.
From Flocq Require Import Core BinarySingleNaN.
Require Import MPSV.Dpe.DpeDefs MPSV.Dpe.DpeModel MPSV.Dpe.DpeProps MPSV.Dpe.DpeArith MPSV.Dpe.DpePow.
Open Scope Z_scope.

(* exponents for which no intermediate of a complex operation leaves the range of long *)
(* esp_small, cnormalised, csmall are defined in DpeDefs.v *)

Lemma P60 : 2 ^ 60 = 1152921504606846976. Proof. reflexivity. Qed.

Lemma zero_of_rval : forall r, normalised r -> rval r = 0%R -> ~ nonzero r.
Proof. intros r N V Z. apply (rval_nonzero r Z). assumption. Qed.

(* ---- rdpe_mul / rdpe_sqr with zero operands allowed ------------------------------------------------------- *)
Lemma mul_rel_all : forall x y, normalised x -> normalised y -> esp_small x -> esp_small y ->
  normalised (rdpe_mul x y) /\ rel_e u53 (rval (rdpe_mul x y)) (rval x * rval y) /\
  Z.abs (esp (rdpe_mul x y)) <= Z.abs (esp x) + Z.abs (esp y) + 2.
Proof.
  intros x y Nx Ny Sx Sy. unfold esp_small in *. rewrite P60 in *.
  destruct (Req_dec (B2R (mnt x) * B2R (mnt y)) 0) as [Z0|Z1].
  - (* a zero factor *)
    unfold rdpe_mul, mul_ovf, mul_unf.
    replace ((0 <=? esp x) && (LONG_MAX - esp x <=? esp y)) with false by (unfold LONG_MAX, LONG_MIN in *; lia).
    replace ((esp x <=? 0) && (esp y <=? LONG_MIN - esp x)) with false by (unfold LONG_MAX, LONG_MIN in *; lia).
    rewrite wrap64_id by (unfold in_long, LONG_MAX, LONG_MIN in *; lia).
    pose proof (Bmult_correct 53 1024 _ _ mode_NE (mnt x) (mnt y)) as HB.
    change (round_mode mode_NE) with ZnearestE in HB. rewrite Z0, round_0 in HB by typeclasses eauto.
    rewrite Rabs_R0, Rlt_bool_true in HB by apply bpow_gt_0. destruct HB as [H1 [H2 _]].
    rewrite (proj1 Nx), (proj1 Ny) in H2. simpl in H2. fold (fmul (mnt x) (mnt y)) in H1, H2.
    assert (ME : esp_mid (esp x + esp y)) by (unfold esp_mid, LONG_MIN, LONG_MAX; lia).
    destruct (norm_of_mnt _ _ H2 ME) as [N [V _]]. rewrite H1, Rmult_0_l in V.
    split; [assumption|]. split.
    + rewrite V. replace (rval x * rval y)%R with 0%R. apply rel_e_refl. apply Rlt_le, u53_pos.
      unfold rval. replace (B2R (mnt x) * bpow radix2 (esp x) * (B2R (mnt y) * bpow radix2 (esp y)))%R
        with (B2R (mnt x) * B2R (mnt y) * (bpow radix2 (esp x) * bpow radix2 (esp y)))%R by ring. rewrite Z0. ring.
    + destruct (feq0_zero _ N (zero_of_rval _ N V)) as [_ [_ E0]]. rewrite E0. lia.
  - assert (Zx : nonzero x) by (unfold nonzero; intro K; apply Z1; rewrite K; ring).
    assert (Zy : nonzero y) by (unfold nonzero; intro K; apply Z1; rewrite K; ring).
    assert (HE : LONG_MIN + 1 <= esp x + esp y <= LONG_MAX - 2) by (unfold LONG_MIN, LONG_MAX; lia).
    destruct (mul_rel_esp x y Nx Ny Zx Zy HE) as [N [_ [R E]]].
    split; [assumption|]. split; [assumption|]. lia.
Qed.

Lemma sqr_is_mul : forall x, normalised x -> esp_small x -> rdpe_sqr x = rdpe_mul x x.
Proof.
  intros x Nx Sx. unfold esp_small in Sx. rewrite P60 in Sx.
  unfold rdpe_sqr, rdpe_mul, mul_ovf, mul_unf.
  replace ((0 <=? esp x) && (LONG_MAX - esp x <=? esp x)) with false by (unfold LONG_MAX, LONG_MIN in *; lia).
  replace ((esp x <=? 0) && (esp x <=? LONG_MIN - esp x)) with false by (unfold LONG_MAX, LONG_MIN in *; lia).
  rewrite wrap64_id by (unfold in_long, LONG_MAX, LONG_MIN in *; lia).
  unfold rdpe_set_esp. cbn [mnt].
  destruct (feq0 (fmul (mnt x) (mnt x))) eqn:Q.
  - (* zero product: both normalise to a zero with exponent 0 *)
    unfold rdpe_norm. cbn [mnt esp].
    destruct (fmul (mnt x) (mnt x)) as [s|s| |s m e He]; try discriminate Q.
    cbn [ffrexp]. unfold rdpe_set_esp. cbn [mnt feq0]. reflexivity.
  - replace ((0 <? esp x) && (LONG_MAX - esp x <? esp x)) with false by (unfold LONG_MAX, LONG_MIN in *; lia).
    replace ((esp x <? 0) && (esp x <? LONG_MIN - esp x)) with false by (unfold LONG_MAX, LONG_MIN in *; lia).
    reflexivity.
Qed.

Lemma esp_small_mid : forall e, Z.abs e <= 2 ^ 61 + 4 -> esp_mid e.
Proof. intros e H. change (2 ^ 61) with 2305843009213693952 in H. unfold esp_mid, LONG_MIN, LONG_MAX. lia. Qed.

(* ---- pure real arithmetic ----------------------------------------------------------------------------------- *)
(* two products with one ulp each, then a sum with two ulps *)
Lemma sum_err : forall P1 P2 v1 v2 S : R,
  rel_e u53 P1 v1 -> rel_e u53 P2 v2 -> rel_e (2 * u53) S (P1 + P2) ->
  (Rabs (S - (v1 + v2)) <= (3 * u53 + 2 * u53 * u53) * (Rabs v1 + Rabs v2))%R.
Proof.
  intros P1 P2 v1 v2 S H1 H2 H3. unfold rel_e in *. pose proof u53_pos as U.
  assert (A : (Rabs (P1 + P2 - (v1 + v2)) <= u53 * (Rabs v1 + Rabs v2))%R).
  { replace (P1 + P2 - (v1 + v2))%R with ((P1 - v1) + (P2 - v2))%R by ring.
    apply Rle_trans with (1 := Rabs_triang _ _). lra. }
  assert (B : (Rabs (P1 + P2) <= (1 + u53) * (Rabs v1 + Rabs v2))%R).
  { replace (P1 + P2)%R with ((v1 + v2) + (P1 + P2 - (v1 + v2)))%R by ring.
    apply Rle_trans with (1 := Rabs_triang _ _). pose proof (Rabs_triang v1 v2). lra. }
  replace (S - (v1 + v2))%R with ((S - (P1 + P2)) + (P1 + P2 - (v1 + v2)))%R by ring.
  apply Rle_trans with (1 := Rabs_triang _ _).
  assert (C : (2 * u53 * Rabs (P1 + P2) <= 2 * u53 * ((1 + u53) * (Rabs v1 + Rabs v2)))%R)
    by (apply Rmult_le_compat_l; lra).
  nra.
Qed.

Lemma rel_e_opp : forall e a v, rel_e e a v -> rel_e e (- a) (- v).
Proof.
  intros e a v H. unfold rel_e in *. replace (- a - - v)%R with (- (a - v))%R by ring. rewrite !Rabs_Ropp. assumption.
Qed.

Lemma sqr_le_of_abs : forall x m : R, (Rabs x <= m)%R -> (x * x <= m * m)%R.
Proof.
  intros x m H. assert (0 <= Rabs x)%R by apply Rabs_pos.
  replace (x * x)%R with (Rabs x * Rabs x)%R.
  - apply Rmult_le_compat; lra.
  - unfold Rabs. destruct (Rcase_abs x); ring.
Qed.

Lemma abs_sq : forall x : R, (Rabs x * Rabs x = x * x)%R.
Proof. intro x. unfold Rabs. destruct (Rcase_abs x); ring. Qed.

(* (|ac| + |bd|)^2 + (|bc| + |ad|)^2 <= 2 |z|^2 |w|^2 *)
Lemma cross_bound : forall a b c d : R,
  ((Rabs (a * c) + Rabs (b * d)) * (Rabs (a * c) + Rabs (b * d)) +
   (Rabs (b * c) + Rabs (a * d)) * (Rabs (b * c) + Rabs (a * d))
   <= 2 * ((a * a + b * b) * (c * c + d * d)))%R.
Proof.
  intros a b c d. rewrite !Rabs_mult.
  set (A := Rabs a). set (B := Rabs b). set (C := Rabs c). set (D := Rabs d).
  rewrite <- (abs_sq a), <- (abs_sq b), <- (abs_sq c), <- (abs_sq d). fold A B C D.
  assert (HA : (0 <= A)%R) by apply Rabs_pos. assert (HB : (0 <= B)%R) by apply Rabs_pos.
  assert (HC : (0 <= C)%R) by apply Rabs_pos. assert (HD : (0 <= D)%R) by apply Rabs_pos.
  clearbody A B C D.
  assert (H1 : (2 * (A * B) <= A * A + B * B)%R) by (pose proof (Rle_0_sqr (A - B)) as K; unfold Rsqr in K; lra).
  assert (H2 : (2 * (C * D) <= C * C + D * D)%R) by (pose proof (Rle_0_sqr (C - D)) as K; unfold Rsqr in K; lra).
  assert (H3 : (2 * (A * B) * (2 * (C * D)) <= (A * A + B * B) * (C * C + D * D))%R).
  { apply Rmult_le_compat; try assumption; apply Rmult_le_pos; try lra; apply Rmult_le_pos; assumption. }
  nra.
Qed.

(* ---- cdpe_mul ----------------------------------------------------------------------------------------------- *)
Lemma sub_of_products : forall p1 p2 v1 v2, normalised p1 -> normalised p2 ->
  Z.abs (esp p1) <= 2 ^ 61 + 2 -> Z.abs (esp p2) <= 2 ^ 61 + 2 ->
  rel_e u53 (rval p1) v1 -> rel_e u53 (rval p2) v2 ->
  normalised (rdpe_sub p1 p2) /\
  (Rabs (rval (rdpe_sub p1 p2) - (v1 - v2)) <= (3 * u53 + 2 * u53 * u53) * (Rabs v1 + Rabs v2))%R.
Proof.
  intros p1 p2 v1 v2 N1 N2 E1 E2 R1 R2.
  assert (M1 : esp_mid (esp p1)) by (apply esp_small_mid; lia). assert (M2 : esp_mid (esp p2)) by (apply esp_small_mid; lia).
  destruct (sub_rel p1 p2 N1 N2 M1 M2) as [N [R _]].
  split; [assumption|].
  replace (v1 - v2)%R with (v1 + - v2)%R by ring. rewrite <- (Rabs_Ropp v2).
  apply sum_err with (rval p1) (- rval p2)%R; try assumption. apply rel_e_opp; assumption.
Qed.
Lemma add_of_products : forall p1 p2 v1 v2, normalised p1 -> normalised p2 ->
  Z.abs (esp p1) <= 2 ^ 61 + 2 -> Z.abs (esp p2) <= 2 ^ 61 + 2 ->
  rel_e u53 (rval p1) v1 -> rel_e u53 (rval p2) v2 ->
  normalised (rdpe_add p1 p2) /\
  (Rabs (rval (rdpe_add p1 p2) - (v1 + v2)) <= (3 * u53 + 2 * u53 * u53) * (Rabs v1 + Rabs v2))%R.
Proof.
  intros p1 p2 v1 v2 N1 N2 E1 E2 R1 R2.
  assert (M1 : esp_mid (esp p1)) by (apply esp_small_mid; lia). assert (M2 : esp_mid (esp p2)) by (apply esp_small_mid; lia).
  destruct (add_rel p1 p2 N1 N2 M1 M2) as [N [R _]].
  split; [assumption|]. apply sum_err with (rval p1) (rval p2); assumption.
Qed.

Lemma sigma_sq : (2 * ((3 * u53 + 2 * u53 * u53) * (3 * u53 + 2 * u53 * u53)) <= 19 * (u53 * u53))%R.
Proof. pose proof u53_pos. pose proof u53_small. nra. Qed.

Lemma prod_small : forall x y, esp_small x -> esp_small y -> Z.abs (esp x) + Z.abs (esp y) + 2 <= 2 ^ 61 + 2.
Proof. intros x y Hx Hy. unfold esp_small in *. change (2 ^ 61) with (2 * 2 ^ 60). lia. Qed.

(* |computed - exact|^2 <= 19 u^2 |exact|^2, i.e. at most sqrt(19) < 4.36 ulps in modulus *)
Theorem cmul_rel : forall z w, cnormalised z -> cnormalised w -> csmall z -> csmall w ->
  let a := rval (cre z) in let b := rval (cim z) in let c := rval (cre w) in let d := rval (cim w) in
  let X := (rval (cre (cdpe_mul z w)) - (a * c - b * d))%R in
  let Y := (rval (cim (cdpe_mul z w)) - (b * c + a * d))%R in
  cnormalised (cdpe_mul z w) /\
  (X * X + Y * Y <= 19 * (u53 * u53) * ((a * c - b * d) * (a * c - b * d) + (b * c + a * d) * (b * c + a * d)))%R.
Proof.
  intros z w [Nzr Nzi] [Nwr Nwi] [Szr Szi] [Swr Swi] a b c d X Y.
  unfold cdpe_mul, cdpe_mul_gen in *. cbn [cre cim] in *.
  destruct (mul_rel_all _ _ Nzr Nwr Szr Swr) as [N1 [R1 E1]].
  destruct (mul_rel_all _ _ Nzi Nwi Szi Swi) as [N2 [R2 E2]].
  destruct (mul_rel_all _ _ Nzi Nwr Szi Swr) as [N3 [R3 E3]].
  destruct (mul_rel_all _ _ Nzr Nwi Szr Swi) as [N4 [R4 E4]].
  pose proof (prod_small _ _ Szr Swr). pose proof (prod_small _ _ Szi Swi).
  pose proof (prod_small _ _ Szi Swr). pose proof (prod_small _ _ Szr Swi).
  destruct (sub_of_products _ _ _ _ N1 N2 ltac:(lia) ltac:(lia) R1 R2) as [Nre Hre].
  destruct (add_of_products _ _ _ _ N3 N4 ltac:(lia) ltac:(lia) R3 R4) as [Nim Him].
  fold a b c d in Hre, Him. fold X in Hre. fold Y in Him.
  split; [split; assumption|].
  set (sg2 := (3 * u53 + 2 * u53 * u53)%R) in *.
  assert (S0 : (0 <= sg2)%R) by (unfold sg2; pose proof u53_pos; nra).
  pose proof (sqr_le_of_abs _ _ Hre) as HX. pose proof (sqr_le_of_abs _ _ Him) as HY.
  pose proof (cross_bound a b c d) as CB. pose proof sigma_sq as SS. fold sg2 in SS.
  replace ((a * c - b * d) * (a * c - b * d) + (b * c + a * d) * (b * c + a * d))%R
    with ((a * a + b * b) * (c * c + d * d))%R by ring.
  set (M1 := (Rabs (a * c) + Rabs (b * d))%R) in *. set (M2 := (Rabs (b * c) + Rabs (a * d))%R) in *.
  set (Q := ((a * a + b * b) * (c * c + d * d))%R) in *.
  assert (Q0 : (0 <= Q)%R) by (unfold Q; apply Rmult_le_pos; nra).
  replace (sg2 * M1 * (sg2 * M1))%R with (sg2 * sg2 * (M1 * M1))%R in HX by ring.
  replace (sg2 * M2 * (sg2 * M2))%R with (sg2 * sg2 * (M2 * M2))%R in HY by ring.
  assert (T : (sg2 * sg2 * (M1 * M1 + M2 * M2) <= sg2 * sg2 * (2 * Q))%R).
  { apply Rmult_le_compat_l; [apply Rmult_le_pos; assumption|assumption]. }
  assert (T2 : (2 * (sg2 * sg2) * Q <= 19 * (u53 * u53) * Q)%R) by (apply Rmult_le_compat_r; assumption).
  lra.
Qed.

(* ---- cdpe_smod, cdpe_mod ---------------------------------------------------------------------------------------- *)
Lemma sqr_rel_all : forall x, normalised x -> esp_small x ->
  normalised (rdpe_sqr x) /\ rel_e u53 (rval (rdpe_sqr x)) (rval x * rval x) /\
  Z.abs (esp (rdpe_sqr x)) <= 2 ^ 61 + 2.
Proof.
  intros x Nx Sx. rewrite (sqr_is_mul x Nx Sx). destruct (mul_rel_all x x Nx Nx Sx Sx) as [N [R E]].
  split; [assumption|]. split; [assumption|]. pose proof (prod_small x x Sx Sx). lia.
Qed.

Lemma sigma_le : (3 * u53 + 2 * u53 * u53 <= 4 * u53)%R.
Proof. pose proof u53_pos. pose proof u53_small. nra. Qed.

Theorem csmod_rel : forall c, cnormalised c -> csmall c ->
  let a := rval (cre c) in let b := rval (cim c) in
  normalised (cdpe_smod c) /\ rel_e (3 * u53 + 2 * u53 * u53) (rval (cdpe_smod c)) (a * a + b * b) /\
  esp_mid (esp (cdpe_smod c)) /\ (0 <= B2R (mnt (cdpe_smod c)))%R.
Proof.
  intros c [Nr Ni] [Sr Si] a b. unfold cdpe_smod.
  destruct (sqr_rel_all _ Nr Sr) as [N1 [R1 E1]]. destruct (sqr_rel_all _ Ni Si) as [N2 [R2 E2]].
  fold a in R1. fold b in R2.
  assert (M1 : esp_mid (esp (rdpe_sqr (cre c)))) by (apply esp_small_mid; lia).
  assert (M2 : esp_mid (esp (rdpe_sqr (cim c)))) by (apply esp_small_mid; lia).
  destruct (add_eq_rel _ _ N1 N2 M1 M2) as [N [R [_ X]]].
  pose proof (sum_err _ _ _ _ _ R1 R2 R) as H.
  assert (Pa : (0 <= a * a)%R) by (pose proof (Rle_0_sqr a) as K; unfold Rsqr in K; lra).
  assert (Pb : (0 <= b * b)%R) by (pose proof (Rle_0_sqr b) as K; unfold Rsqr in K; lra).
  rewrite (Rabs_pos_eq (a * a)), (Rabs_pos_eq (b * b)) in H by assumption.
  assert (Rel : rel_e (3 * u53 + 2 * u53 * u53) (rval (rdpe_add_eq (rdpe_sqr (cre c)) (rdpe_sqr (cim c)))) (a * a + b * b)).
  { unfold rel_e. rewrite (Rabs_pos_eq (a * a + b * b)) by lra. exact H. }
  split; [assumption|]. split; [assumption|]. split.
  - change (2 ^ 61) with 2305843009213693952 in E1, E2. unfold esp_mid, LONG_MIN, LONG_MAX in *.
    destruct X as [X|X]; lia.
  - assert (S1 : (3 * u53 + 2 * u53 * u53 < 1)%R) by (pose proof sigma_le; pose proof u53_small; pose proof u53_pos; lra).
    destruct (rel_e_sign _ _ _ S1 Rel) as [_ Sn].
    destruct (rval_sign_iff (rdpe_add_eq (rdpe_sqr (cre c)) (rdpe_sqr (cim c)))) as [_ In].
    destruct (Rle_or_lt 0 (B2R (mnt (rdpe_add_eq (rdpe_sqr (cre c)) (rdpe_sqr (cim c)))))) as [G|L]; [assumption|].
    apply In in L. apply Sn in L. lra.
Qed.

(* square roots of close non-negative numbers are closer *)
Lemma sqrt_rel_e : forall e a v, (0 <= a)%R -> (0 <= v)%R -> (0 <= e <= /2)%R -> rel_e e a v ->
  rel_e (2 / 3 * e) (sqrt a) (sqrt v).
Proof.
  intros e a v Pa Pv He H. unfold rel_e in *.
  set (x := sqrt a). set (y := sqrt v).
  assert (Px : (0 <= x)%R) by apply sqrt_pos. assert (Py : (0 <= y)%R) by apply sqrt_pos.
  assert (Ex : (x * x = a)%R) by (apply sqrt_sqrt; assumption).
  assert (Ey : (y * y = v)%R) by (apply sqrt_sqrt; assumption).
  rewrite <- Ex, <- Ey in H. rewrite (Rabs_pos_eq (y * y)) in H by (rewrite Ey; assumption).
  rewrite (Rabs_pos_eq y) by assumption.
  replace (x * x - y * y)%R with ((x - y) * (x + y))%R in H by ring.
  rewrite Rabs_mult, (Rabs_pos_eq (x + y)) in H by lra.
  clearbody x y.
  set (D := Rabs (x - y)) in *. assert (PD : (0 <= D)%R) by apply Rabs_pos.
  destruct (Req_dec y 0) as [Y0|Y1].
  - subst y. rewrite Rmult_0_r, Rmult_0_r, Rplus_0_r in H. rewrite Rmult_0_r.
    (* D * x <= 0 with D = |x| *)
    assert (Dx : D = x) by (unfold D; rewrite Rminus_0_r; apply Rabs_pos_eq; assumption).
    rewrite Dx in *.
    destruct (Req_dec x 0) as [X0|X1]; [lra|]. assert (0 < x * x)%R by (apply Rmult_lt_0_compat; lra). lra.
  - assert (Yp : (0 < y)%R) by lra.
    (* x >= y / 2 *)
    assert (Hx : (y / 2 <= x)%R).
    { destruct (Rle_or_lt (y / 2) x) as [K|K]; [assumption|]. exfalso.
      assert (K1 : (x * x <= y / 2 * (y / 2))%R) by (apply Rmult_le_compat; lra).
      assert (K2 : (y - x <= D)%R) by (unfold D; rewrite Rabs_minus_sym; apply Rle_abs).
      assert (K3 : ((y - x) * (x + y) <= D * (x + y))%R) by (apply Rmult_le_compat_r; lra).
      assert (K4 : (0 < y * y)%R) by (apply Rmult_lt_0_compat; assumption).
      assert (K5 : (e * (y * y) <= / 2 * (y * y))%R) by (apply Rmult_le_compat_r; lra).
      replace ((y - x) * (x + y))%R with (y * y - x * x)%R in K3 by ring.
      replace (y / 2 * (y / 2))%R with (y * y / 4)%R in K1 by field. lra. }
    assert (K6 : (D * (3 / 2 * y) <= D * (x + y))%R) by (apply Rmult_le_compat_l; lra).
    apply Rmult_le_reg_r with y; [assumption|].
    replace (2 / 3 * e * y * y)%R with (2 / 3 * (e * (y * y)))%R by ring.
    replace (D * (3 / 2 * y))%R with (3 / 2 * (D * y))%R in K6 by ring. lra.
Qed.

Theorem cmod_rel : forall c, cnormalised c -> csmall c ->
  let a := rval (cre c) in let b := rval (cim c) in
  normalised (cdpe_mod c) /\ rel_e (4 * u53) (rval (cdpe_mod c)) (sqrt (a * a + b * b)).
Proof.
  intros c Nc Sc a b. unfold cdpe_mod.
  destruct (csmod_rel c Nc Sc) as [N [R [M P]]]. fold a b in R.
  set (s := cdpe_smod c) in *.
  destruct (sqrt_rel s N P (esp_mid_long _ M)) as [N' R'].
  split; [assumption|].
  assert (Pa : (0 <= a * a)%R) by (pose proof (Rle_0_sqr a) as K; unfold Rsqr in K; lra).
  assert (Pb : (0 <= b * b)%R) by (pose proof (Rle_0_sqr b) as K; unfold Rsqr in K; lra).
  assert (Ps : (0 <= rval s)%R).
  { unfold rval. apply Rmult_le_pos; [assumption|apply bpow_ge_0]. }
  pose proof u53_pos as U. pose proof u53_small as U2. pose proof sigma_le as SL.
  set (sg2 := (3 * u53 + 2 * u53 * u53)%R) in *.
  assert (Hs : (0 <= sg2 <= /2)%R) by (unfold sg2 in *; split; nra).
  assert (Pv : (0 <= a * a + b * b)%R) by lra.
  pose proof (sqrt_rel_e sg2 (rval s) (a * a + b * b)%R Ps Pv Hs R) as R2.
  pose proof (rel_e_trans _ _ _ _ _ (Rlt_le _ _ U) R' R2) as K.
  apply rel_e_weaken with (2 := K). unfold sg2 in *. nra.
Qed.

(* ---- cdpe_sqr ---------------------------------------------------------------------------------------------------- *)
Lemma shift1_exact : forall x, normalised x -> Z.abs (esp x) <= 2 ^ 61 + 2 ->
  normalised (rdpe_shift_esp x 1 false) /\ rval (rdpe_shift_esp x 1 false) = (2 * rval x)%R.
Proof.
  intros x Nx Ex. change (2 ^ 61) with 2305843009213693952 in Ex.
  unfold rdpe_shift_esp. replace (LONG_MAX <? 1) with false by reflexivity.
  destruct (Req_dec (B2R (mnt x)) 0) as [Z0|Z1].
  - destruct (feq0_zero x Nx) as [Q [V E]]. { unfold nonzero; lra. }
    unfold rdpe_set_esp. rewrite Q. split.
    + split; [exact (proj1 Nx)|]. left. split; [assumption|reflexivity].
    + rewrite V. unfold rval; cbn [mnt esp]. rewrite Z0. ring.
  - assert (Q := feq0_nonzero x Nx Z1). destruct x as [m e]. cbn [mnt esp] in *.
    rewrite (set_esp_exact m e e 1 false Q) by (unfold in_long, LONG_MIN, LONG_MAX; lia).
    split.
    + destruct Nx as [F [[N0 _]|Nb]]; [contradiction|]. split; [exact F|]. right. exact Nb.
    + unfold rval; cbn [mnt esp]. rewrite bpow_plus. simpl (bpow radix2 1). unfold Z.pow_pos; simpl. ring.
Qed.

Lemma sigma_sq1 : ((3 * u53 + 2 * u53 * u53) * (3 * u53 + 2 * u53 * u53) + 4 * (u53 * u53) / 4 <= 11 * (u53 * u53))%R.
Proof. pose proof u53_pos. pose proof u53_small. nra. Qed.

(* |computed - exact|^2 <= 11 u^2 |exact|^2: at most sqrt(11) < 3.32 ulps in modulus *)
Theorem csqr_rel : forall z, cnormalised z -> csmall z ->
  let a := rval (cre z) in let b := rval (cim z) in
  let X := (rval (cre (cdpe_sqr z)) - (a * a - b * b))%R in
  let Y := (rval (cim (cdpe_sqr z)) - 2 * (a * b))%R in
  cnormalised (cdpe_sqr z) /\
  (X * X + Y * Y <= 11 * (u53 * u53) * ((a * a - b * b) * (a * a - b * b) + 2 * (a * b) * (2 * (a * b))))%R.
Proof.
  intros z [Nr Ni] [Sr Si] a b X Y.
  unfold cdpe_sqr, cdpe_sqr_gen in *. cbn [cre cim] in *.
  destruct (mul_rel_all _ _ Nr Nr Sr Sr) as [N1 [R1 E1]].
  destruct (mul_rel_all _ _ Ni Ni Si Si) as [N2 [R2 E2]].
  destruct (mul_rel_all _ _ Ni Nr Si Sr) as [N3 [R3 E3]].
  pose proof (prod_small _ _ Sr Sr). pose proof (prod_small _ _ Si Si). pose proof (prod_small _ _ Si Sr).
  destruct (sub_of_products _ _ _ _ N1 N2 ltac:(lia) ltac:(lia) R1 R2) as [Nre Hre].
  destruct (shift1_exact _ N3 ltac:(lia)) as [Nim Vim].
  fold a b in Hre, R3. fold X in Hre.
  split; [split; assumption|].
  assert (HY : (Rabs Y <= 2 * u53 * Rabs (a * b))%R).
  { unfold Y. rewrite Vim. unfold rel_e in R3.
    replace (2 * rval (rdpe_mul (cim z) (cre z)) - 2 * (a * b))%R with (2 * (rval (rdpe_mul (cim z) (cre z)) - b * a))%R by ring.
    rewrite Rabs_mult, (Rabs_pos_eq 2) by lra. replace (a * b)%R with (b * a)%R by ring. lra. }
  set (sg2 := (3 * u53 + 2 * u53 * u53)%R) in *.
  pose proof u53_pos as U.
  assert (S0 : (0 <= sg2)%R) by (unfold sg2; nra).
  assert (Pa : (0 <= a * a)%R) by (pose proof (Rle_0_sqr a) as K; unfold Rsqr in K; lra).
  assert (Pb : (0 <= b * b)%R) by (pose proof (Rle_0_sqr b) as K; unfold Rsqr in K; lra).
  rewrite (Rabs_pos_eq (a * a)), (Rabs_pos_eq (b * b)) in Hre by assumption.
  pose proof (sqr_le_of_abs _ _ Hre) as HX. pose proof (sqr_le_of_abs _ _ HY) as HY2.
  replace ((a * a - b * b) * (a * a - b * b) + 2 * (a * b) * (2 * (a * b)))%R
    with ((a * a + b * b) * (a * a + b * b))%R by ring.
  set (Q := ((a * a + b * b) * (a * a + b * b))%R) in *.
  assert (Q0 : (0 <= Q)%R) by (unfold Q; apply Rmult_le_pos; lra).
  replace (sg2 * (a * a + b * b) * (sg2 * (a * a + b * b)))%R with (sg2 * sg2 * Q)%R in HX by (unfold Q; ring).
  assert (AB : (4 * (Rabs (a * b) * Rabs (a * b)) <= Q)%R).
  { rewrite abs_sq. unfold Q. pose proof (Rle_0_sqr (a * a - b * b)) as K. unfold Rsqr in K.
    replace ((a * a + b * b) * (a * a + b * b))%R with ((a * a - b * b) * (a * a - b * b) + 4 * (a * b * (a * b)))%R by ring. lra. }
  replace (2 * u53 * Rabs (a * b) * (2 * u53 * Rabs (a * b)))%R
    with (u53 * u53 * (4 * (Rabs (a * b) * Rabs (a * b))))%R in HY2 by ring.
  assert (T : (u53 * u53 * (4 * (Rabs (a * b) * Rabs (a * b))) <= u53 * u53 * Q)%R).
  { apply Rmult_le_compat_l; [apply Rmult_le_pos; lra|assumption]. }
  pose proof sigma_sq1 as SS. fold sg2 in SS.
  assert (T2 : ((sg2 * sg2 + u53 * u53) * Q <= 11 * (u53 * u53) * Q)%R) by (apply Rmult_le_compat_r; [assumption|lra]).
  lra.
Qed.
