(* C12 -- the *_d variants AS THEY ARE in mt.c (DpeModel.rdpe_mul_d, rdpe_div_d: the double operation is done on the
   raw double d): one ulp as long as that double operation stays in the normal range of double, [2^-1022, 2^1023] -- the
   hypothesis whose failure is the known defect (C12_d_variants_unfixed_refuted).  Proofs only. *)
From Coq Require Import ZArith Reals Bool Lia Lra Psatz ZifyBool.
From Flocq Require Import Core BinarySingleNaN Relative.
Require Import MPSV.Dpe.DpeDefs MPSV.Dpe.DpeModel MPSV.Dpe.DpeProps MPSV.Dpe.DpeArith MPSV.Dpe.DpePow MPSV.Dpe.DpeSat MPSV.Dpe.DpeScal.
Open Scope Z_scope.

(* a rounded double operation whose exact result r is in the normal range: no overflow, one ulp, still normal *)
Lemma rnd_normal : forall r : R, (bpow radix2 (-1022) <= Rabs r <= bpow radix2 1023)%R ->
  (Rabs (rnd64 r) < bpow radix2 1024)%R /\ rel_e u53 (rnd64 r) r /\ (bpow radix2 (-1022) <= Rabs (rnd64 r))%R.
Proof.
  intros r [H1 H2]. split; [|split].
  - apply Rle_lt_trans with (bpow radix2 1023); [|apply bpow_lt; lia].
    apply abs_round_le_generic; try typeclasses eauto; [apply generic_format_bpow; vm_compute; discriminate|assumption].
  - unfold rel_e, u53. change fexp64 with (FLT_exp (-1074) 53).
    replace (bpow radix2 (-53)) with (/2 * bpow radix2 (-53 + 1))%R.
    2:{ rewrite bpow_plus. simpl. unfold Z.pow_pos; simpl. field. }
    apply relative_error_N_FLT; [lia|]. exact H1.
  - apply abs_round_ge_generic; try typeclasses eauto; [apply generic_format_bpow; vm_compute; discriminate|assumption].
Qed.

(* rdpe_Norm of a finite mantissa, exponent away from the ends of long: exact *)
Lemma norm_of_any : forall (f : b64) (E : Z), is_finite f = true -> LONG_MIN + 1100 <= E <= LONG_MAX - 1100 ->
  normalised (rdpe_norm (Rdpe f E)) /\ rval (rdpe_norm (Rdpe f E)) = (B2R f * bpow radix2 E)%R.
Proof.
  intros f E Ff HE. pose proof (ffrexp_exp_bound f Ff) as Bi.
  assert (L : in_long (E + snd (ffrexp f))) by (unfold in_long, LONG_MIN, LONG_MAX in *; lia).
  destruct (norm_exact f E Ff L) as [N V]. split; [assumption|]. rewrite V. reflexivity.
Qed.

Theorem mul_d_asis_rel : forall x d, normalised x -> is_finite d = true ->
  LONG_MIN + 1100 <= esp x <= LONG_MAX - 1100 ->
  ((B2R (mnt x) * B2R d = 0)%R \/ (bpow radix2 (-1022) <= Rabs (B2R (mnt x) * B2R d) <= bpow radix2 1023)%R) ->
  normalised (rdpe_mul_d x d) /\ rel_e u53 (rval (rdpe_mul_d x d)) (rval x * B2R d).
Proof.
  intros x d Nx Fd HE Hr. pose proof (ffrexp_exp_bound d Fd) as Bi.
  unfold rdpe_mul_d, mul_ovf, mul_unf. cbv zeta.
  replace ((0 <=? esp x) && (LONG_MAX - esp x <=? snd (ffrexp d))) with false by (unfold LONG_MAX, LONG_MIN in *; lia).
  replace ((esp x <=? 0) && (snd (ffrexp d) <=? LONG_MIN - esp x)) with false by (unfold LONG_MAX, LONG_MIN in *; lia).
  assert (EV : (rval x * B2R d = B2R (mnt x) * B2R d * bpow radix2 (esp x))%R) by (unfold rval; ring).
  destruct Hr as [Z|Hn].
  - destruct (fmul_zero _ _ (proj1 Nx) Fd Z) as [F0 V0]. destruct (norm_zero _ (esp x) F0 V0) as [N [V _]].
    split; [assumption|]. rewrite V, EV, Z, Rmult_0_l. apply rel_e_refl. apply Rlt_le, u53_pos.
  - set (r := (B2R (mnt x) * B2R d)%R) in *. destruct (rnd_normal r Hn) as [Hov [Rr _]].
    pose proof (Bmult_correct 53 1024 _ _ mode_NE (mnt x) d) as HB.
    change (round_mode mode_NE) with ZnearestE in HB. fold r in HB.
    rewrite Rlt_bool_true in HB by assumption. destruct HB as [H1 [H2 _]]. rewrite (proj1 Nx), Fd in H2. simpl in H2.
    destruct (norm_of_any (fmul (mnt x) d) (esp x) H2 HE) as [N V]. split; [assumption|].
    rewrite V, EV. unfold fmul. rewrite H1. apply rel_e_scale. exact Rr.
Qed.

Theorem div_d_asis_rel : forall x d, normalised x -> is_finite d = true -> B2R d <> 0%R ->
  LONG_MIN + 1100 <= esp x <= LONG_MAX - 1100 ->
  ((B2R (mnt x) = 0)%R \/ (bpow radix2 (-1022) <= Rabs (B2R (mnt x) / B2R d) <= bpow radix2 1023)%R) ->
  normalised (rdpe_div_d x d) /\ rel_e u53 (rval (rdpe_div_d x d)) (rval x / B2R d).
Proof.
  intros x d Nx Fd Nd HE Hr. unfold rdpe_div_d.
  assert (EV : (rval x / B2R d = B2R (mnt x) / B2R d * bpow radix2 (esp x))%R) by (unfold rval; field; assumption).
  destruct Hr as [Z|Hn].
  - destruct (fdiv_zero _ _ (proj1 Nx) Z Nd) as [F0 V0]. destruct (norm_zero _ (esp x) F0 V0) as [N [V _]].
    split; [assumption|]. rewrite V, EV, Z. unfold Rdiv. rewrite !Rmult_0_l. apply rel_e_refl. apply Rlt_le, u53_pos.
  - set (r := (B2R (mnt x) / B2R d)%R) in *. destruct (rnd_normal r Hn) as [Hov [Rr _]].
    pose proof (Bdiv_correct 53 1024 _ _ mode_NE (mnt x) d Nd) as HB.
    change (round_mode mode_NE) with ZnearestE in HB. fold r in HB.
    rewrite Rlt_bool_true in HB by assumption. destruct HB as [H1 [H2 _]]. rewrite (proj1 Nx) in H2.
    destruct (norm_of_any (fdiv (mnt x) d) (esp x) H2 HE) as [N V]. split; [assumption|].
    rewrite V, EV. unfold fdiv. rewrite H1. apply rel_e_scale. exact Rr.
Qed.
