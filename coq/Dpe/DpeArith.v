(* C12 -- error analysis of rdpe_add / rdpe_sub (every branch), rdpe_cmp, rdpe_sqrt (odd and even
   exponent) of the branch-by-branch model MPSV.Dpe.DpeModel.  Proofs only. *)
From Coq Require Import ZArith Reals Bool Lia Lra Psatz ZifyBool.
From Flocq Require Import Core BinarySingleNaN Relative Sterbenz Plus_error Mult_error.
Require Import MPSV.Dpe.DpeDefs MPSV.Dpe.DpeModel MPSV.Dpe.DpeProps.
Open Scope Z_scope.

(* ---- relative error ------------------------------------------------------------------------ *)
(* u53, rel_e, esp_mid are defined in DpeDefs.v *)

Lemma u53_pos : (0 < u53)%R. Proof. apply bpow_gt_0. Qed.
Lemma u53_small : (u53 <= / 1024)%R.
Proof. unfold u53. change (/1024)%R with (bpow radix2 (-10)). apply bpow_le. lia. Qed.

Lemma rel_e_weaken : forall e e' a v, (e <= e')%R -> rel_e e a v -> rel_e e' a v.
Proof.
  intros e e' a v H K. unfold rel_e in *. apply Rle_trans with (1 := K).
  apply Rmult_le_compat_r; [apply Rabs_pos|assumption].
Qed.
Lemma rel_e_refl : forall e v, (0 <= e)%R -> rel_e e v v.
Proof.
  intros e v H. unfold rel_e. replace (v - v)%R with 0%R by ring. rewrite Rabs_R0.
  apply Rmult_le_pos; [assumption|apply Rabs_pos].
Qed.
Lemma rel_e_scale : forall e a v s, rel_e e a v -> rel_e e (a * s) (v * s).
Proof.
  intros e a v s H. unfold rel_e in *. replace (a * s - v * s)%R with ((a - v) * s)%R by ring.
  rewrite !Rabs_mult, <- Rmult_assoc. apply Rmult_le_compat_r; [apply Rabs_pos|assumption].
Qed.
(* c = a (1 + d1), a = v (1 + d2) *)
Lemma rel_e_trans : forall e1 e2 c a v, (0 <= e1)%R -> rel_e e1 c a -> rel_e e2 a v ->
  rel_e (e1 + e2 + e1 * e2) c v.
Proof.
  intros e1 e2 c a v P1 H1 H2. unfold rel_e in *.
  assert (Ha : (Rabs a <= Rabs v + e2 * Rabs v)%R).
  { replace a with (v + (a - v))%R at 1 by ring. apply Rle_trans with (1 := Rabs_triang _ _). lra. }
  replace (c - v)%R with ((c - a) + (a - v))%R by ring.
  apply Rle_trans with (1 := Rabs_triang _ _).
  assert (e1 * Rabs a <= e1 * (Rabs v + e2 * Rabs v))%R by (apply Rmult_le_compat_l; assumption).
  nra.
Qed.
Lemma rel_e_mul : forall ea eb a va b vb, (0 <= ea)%R -> (0 <= eb)%R ->
  rel_e ea a va -> rel_e eb b vb -> rel_e (ea + eb + ea * eb) (a * b) (va * vb).
Proof.
  intros ea eb a va b vb Pa Pb Ha Hb. unfold rel_e in *.
  replace (a * b - va * vb)%R with ((a - va) * vb + va * (b - vb) + (a - va) * (b - vb))%R by ring.
  apply Rle_trans with (1 := Rabs_triang _ _).
  apply Rle_trans with (Rabs ((a - va) * vb) + Rabs (va * (b - vb)) + Rabs ((a - va) * (b - vb)))%R.
  { apply Rplus_le_compat_r. apply Rabs_triang. }
  rewrite !Rabs_mult.
  assert (P1 := Rabs_pos va). assert (P2 := Rabs_pos vb). assert (P3 := Rabs_pos (a - va)). assert (P4 := Rabs_pos (b - vb)).
  assert (Rabs (a - va) * Rabs vb <= ea * Rabs va * Rabs vb)%R by (apply Rmult_le_compat_r; assumption).
  assert (Rabs va * Rabs (b - vb) <= Rabs va * (eb * Rabs vb))%R by (apply Rmult_le_compat_l; assumption).
  assert (Rabs (a - va) * Rabs (b - vb) <= (ea * Rabs va) * (eb * Rabs vb))%R by (apply Rmult_le_compat; assumption).
  nra.
Qed.
(* a relative error below 1 keeps the sign *)
Lemma rel_e_sign : forall e a v, (e < 1)%R -> rel_e e a v ->
  ((0 < a)%R <-> (0 < v)%R) /\ ((a < 0)%R <-> (v < 0)%R).
Proof.
  intros e a v He H. unfold rel_e in H.
  destruct (Rtotal_order v 0) as [V|[V|V]].
  - rewrite (Rabs_left v) in H by assumption.
    assert (a < 0)%R. { apply Rabs_le_inv in H. nra. }
    split; split; intro; lra.
  - subst v. rewrite Rabs_R0, Rmult_0_r, Rminus_0_r in H.
    assert (a = 0)%R. { destruct (Req_dec a 0) as [Z0|Z0]; [assumption|]. pose proof (Rabs_pos_lt a Z0). lra. } subst a.
    split; split; intro; lra.
  - rewrite (Rabs_pos_eq v) in H by lra.
    assert (0 < a)%R. { apply Rabs_le_inv in H. nra. }
    split; split; intro; lra.
Qed.

(* ---- rdpe_Norm of a finite mantissa, exponent away from the ends of long -------------------------- *)
Lemma norm_of_mnt : forall (f : b64) (E : Z), is_finite f = true -> esp_mid E ->
  normalised (rdpe_norm (Rdpe f E)) /\
  rval (rdpe_norm (Rdpe f E)) = (B2R f * bpow radix2 E)%R /\
  (esp (rdpe_norm (Rdpe f E)) = 0 \/ E - 1074 <= esp (rdpe_norm (Rdpe f E)) <= E + 1024).
Proof.
  intros f E Hf HE. pose proof (ffrexp_exp_bound f Hf) as Bi.
  assert (Hl : in_long (E + snd (ffrexp f))) by (unfold esp_mid, in_long, LONG_MIN, LONG_MAX in *; lia).
  destruct (norm_exact f E Hf Hl) as [N V]. split; [assumption|]. split; [exact V|].
  unfold rdpe_norm. cbn [mnt esp]. destruct (ffrexp f) as [z i]. cbn [snd] in *.
  unfold rdpe_set_esp. cbn [mnt]. destruct (feq0 z); cbn [esp]; [left; reflexivity|].
  assert (E1 : (0 <? i) && (LONG_MAX - i <? E) = false) by (unfold in_long, LONG_MAX, LONG_MIN in *; lia).
  assert (E2 : (i <? 0) && (E <? LONG_MIN - i) = false) by (unfold in_long, LONG_MAX, LONG_MIN in *; lia).
  rewrite E1, E2. cbn [orb esp]. right. lia.
Qed.

(* ---- one rounded addition / subtraction of two doubles of magnitude at most 1 ---------------------- *)
Definition fop (s : bool) : b64 -> b64 -> b64 := if s then fsub else fadd.
Definition sg (s : bool) : R := if s then (-1)%R else 1%R.

Lemma Rabs_sg : forall s, Rabs (sg s) = 1%R.
Proof. intro s. destruct s; unfold sg, Rabs; destruct (Rcase_abs _); lra. Qed.

Lemma fop_rel : forall (s : bool) (a b : b64), is_finite a = true -> is_finite b = true ->
  (Rabs (B2R a) <= 1)%R -> (Rabs (B2R b) <= 1)%R ->
  is_finite (fop s a b) = true /\ rel_e u53 (B2R (fop s a b)) (B2R a + sg s * B2R b).
Proof.
  intros s a b Fa Fb Ba Bb.
  set (r := (B2R a + sg s * B2R b)%R).
  assert (Hr2 : (Rabs r <= 2)%R).
  { unfold r. apply Rle_trans with (1 := Rabs_triang _ _). rewrite Rabs_mult.
    rewrite Rabs_sg. lra. }
  assert (Hov : (Rabs (rnd64 r) < bpow radix2 1024)%R).
  { apply Rle_lt_trans with 2%R.
    apply abs_round_le_generic; try typeclasses eauto. apply fmt_two. assumption.
    change 2%R with (bpow radix2 1). apply bpow_lt. lia. }
  assert (Hfb : generic_format radix2 (FLT_exp (-1074) 53) (sg s * B2R b)).
  { destruct s; unfold sg.
    - replace (-1 * B2R b)%R with (- B2R b)%R by ring. apply generic_format_opp. apply (generic_format_B2R 53 1024).
    - rewrite Rmult_1_l. apply (generic_format_B2R 53 1024). }
  assert (Hfa : generic_format radix2 (FLT_exp (-1074) 53) (B2R a)) by apply (generic_format_B2R 53 1024).
  destruct (FLT_plus_error_N_ex radix2 (-1074) 53 (fun x => negb (Z.even x)) _ _ Hfa Hfb) as [eps [He Hrnd]].
  fold r in Hrnd. change (round radix2 (FLT_exp (-1074) 53) ZnearestE r) with (rnd64 r) in Hrnd.
  assert (Hu : (u_ro radix2 53 / (1 + u_ro radix2 53) <= u53)%R).
  { unfold u_ro, u53. change (- (53) + 1) with (-52).
    replace (/2 * bpow radix2 (-52))%R with (bpow radix2 (-53)).
    2:{ change (-52) with (-53 + 1). rewrite bpow_plus. simpl. unfold Z.pow_pos; simpl. field. }
    set (bb := bpow radix2 (-53)). assert (P : (0 < bb)%R) by apply bpow_gt_0. unfold Rdiv.
    assert (HI : (/ (1 + bb) <= / 1)%R) by (apply Rinv_le_contravar; lra). rewrite Rinv_1 in HI. nra. }
  assert (Hrel : rel_e u53 (rnd64 r) r).
  { unfold rel_e. rewrite Hrnd. replace (r * (1 + eps) - r)%R with (eps * r)%R by ring.
    rewrite Rabs_mult. apply Rmult_le_compat_r; [apply Rabs_pos|lra]. }
  destruct s; unfold fop.
  - pose proof (Bminus_correct 53 1024 _ _ mode_NE a b Fa Fb) as HB.
    change (round_mode mode_NE) with ZnearestE in HB.
    replace (B2R a - B2R b)%R with r in HB by (unfold r, sg; ring).
    rewrite Rlt_bool_true in HB by assumption. destruct HB as [H1 [H2 _]].
    split; [exact H2|]. unfold fsub. rewrite H1. exact Hrel.
  - pose proof (Bplus_correct 53 1024 _ _ mode_NE a b Fa Fb) as HB.
    change (round_mode mode_NE) with ZnearestE in HB.
    replace (B2R a + B2R b)%R with r in HB by (unfold r, sg; ring).
    rewrite Rlt_bool_true in HB by assumption. destruct HB as [H1 [H2 _]].
    split; [exact H2|]. unfold fadd. rewrite H1. exact Hrel.
Qed.

(* the common tail of the four rounded branches: mantissa operation, then rdpe_Norm *)
Lemma addsub_finish : forall (s : bool) (a b : b64) (E : Z),
  is_finite a = true -> is_finite b = true -> (Rabs (B2R a) <= 1)%R -> (Rabs (B2R b) <= 1)%R -> esp_mid E ->
  let r := rdpe_norm (Rdpe (fop s a b) E) in
  normalised r /\ rel_e u53 (rval r) ((B2R a + sg s * B2R b) * bpow radix2 E) /\
  (esp r = 0 \/ E - 1074 <= esp r <= E + 1024).
Proof.
  intros s a b E Fa Fb Ba Bb HE r.
  destruct (fop_rel s a b Fa Fb Ba Bb) as [Ff Hrel].
  destruct (norm_of_mnt _ E Ff HE) as [N [V X]]. fold r in N, V, X.
  split; [assumption|]. split; [|assumption]. rewrite V. apply rel_e_scale. assumption.
Qed.

(* ---- ldexp by -1 .. -53 of a normalised mantissa is exact ------------------------------------------ *)
Lemma wrap32_id : forall z, - two31 <= z < two31 -> wrap32 z = z.
Proof. intros z H. unfold wrap32, two31, two32 in *. rewrite Z.mod_small; lia. Qed.

Lemma mag_mnt : forall m : R, (/2 <= Rabs m < 1)%R -> mag radix2 m = 0 :> Z.
Proof.
  intros m H. apply mag_unique. simpl. unfold Z.pow_pos; simpl. lra.
Qed.

Lemma fldexp_exact : forall (m : b64) (d : Z), is_finite m = true -> (/2 <= Rabs (B2R m) < 1)%R -> 0 < d <= 53 ->
  is_finite (fldexp m (- d)) = true /\ B2R (fldexp m (- d)) = (B2R m * bpow radix2 (- d))%R /\
  (Rabs (B2R (fldexp m (- d))) <= 1)%R.
Proof.
  intros m d Fm Bm Hd. unfold fldexp.
  replace (Z.max (-2200) (Z.min 2200 (- d))) with (- d) by lia.
  assert (Hfmt : generic_format radix2 (FLT_exp (-1074) 53) (B2R m * bpow radix2 (- d))).
  { apply mult_bpow_exact_FLT. apply (generic_format_B2R 53 1024). rewrite (mag_mnt _ Bm). lia. }
  assert (Hle : (Rabs (B2R m * bpow radix2 (- d)) <= 1)%R).
  { rewrite Rabs_mult, (Rabs_pos_eq (bpow radix2 (- d))) by apply bpow_ge_0.
    assert (bpow radix2 (- d) <= 1)%R by (change 1%R with (bpow radix2 0); apply bpow_le; lia).
    assert (0 < bpow radix2 (- d))%R by apply bpow_gt_0. nra. }
  pose proof (Bldexp_correct 53 1024 _ _ mode_NE m (- d)) as HB.
  change (round_mode mode_NE) with ZnearestE in HB.
  rewrite round_generic in HB; try typeclasses eauto; try assumption.
  rewrite Rlt_bool_true in HB.
  - destruct HB as [H1 [H2 _]]. rewrite H2, H1. repeat split; assumption.
  - apply Rle_lt_trans with (1 := Hle). change 1%R with (bpow radix2 0). apply bpow_lt. lia.
Qed.

(* ---- the exponent distance ----------------------------------------------------------------------- *)
Lemma esp_distance_lt : forall a b, in_long a -> in_long b -> 53 < b - a ->
  (NBT <? esp_distance a b = false) /\ (esp_distance a b <? - NBT = true).
Proof.
  intros a b [A1 A2] [B1 B2] H. unfold esp_distance, NBT.
  assert (E1 : (b <? 0) && (LONG_MAX + b <? a) = false) by (unfold LONG_MAX, LONG_MIN in *; lia).
  rewrite E1.
  destruct ((0 <? b) && (a <? LONG_MIN + b)) eqn:E2; unfold LONG_MIN; split; lia.
Qed.

Lemma esp_mid_long : forall e, esp_mid e -> in_long e.
Proof. intros e H. unfold esp_mid, in_long, LONG_MIN, LONG_MAX in *. lia. Qed.

Lemma esp_distance_near : forall a b, esp_mid a -> esp_mid b -> -53 <= a - b <= 53 -> esp_distance a b = a - b.
Proof.
  intros a b Ha Hb H. apply esp_distance_exact; try (apply esp_mid_long; assumption).
  unfold esp_mid, in_long, LONG_MIN, LONG_MAX in *. lia.
Qed.

Lemma feq0_nonzero : forall x, normalised x -> nonzero x -> feq0 (mnt x) = false.
Proof.
  intros x Nx Zx. destruct (feq0 (mnt x)) eqn:E; [|reflexivity].
  apply (feq0_spec _ (proj1 Nx)) in E. contradiction.
Qed.
Lemma feq0_zero : forall x, normalised x -> ~ nonzero x -> feq0 (mnt x) = true /\ rval x = 0%R /\ esp x = 0.
Proof.
  intros x Nx Zx. unfold nonzero in Zx.
  assert (H : B2R (mnt x) = 0%R) by (destruct (Req_dec (B2R (mnt x)) 0); [assumption|contradiction]).
  split. apply (feq0_spec _ (proj1 Nx)); assumption. split. apply rval_sign_zero; assumption.
  destruct Nx as [_ [[_ E]|B]]; [assumption|]. rewrite H, Rabs_R0 in B. lra.
Qed.
Lemma mnt_le_1 : forall x, normalised x -> nonzero x -> (Rabs (B2R (mnt x)) <= 1)%R.
Proof. intros x Nx Zx. pose proof (normalised_bounds x Nx Zx). lra. Qed.

(* ---- rdpe_add_core / rdpe_sub on non-zero operands -------------------------------------------------- *)
(* both functions have the same shape: op s = rdpe_sub (s = true) or rdpe_add_core (s = false) *)
Definition op_as (s : bool) : rdpe -> rdpe -> rdpe := if s then rdpe_sub else rdpe_add_core.
(* the operand y as it enters the sum: y or -y *)
Definition signed (s : bool) (y : rdpe) : rdpe := if s then Rdpe (fneg (mnt y)) (esp y) else y.

Lemma rval_signed : forall s y, rval (signed s y) = (sg s * rval y)%R.
Proof.
  intros s y. destruct s; unfold signed, sg, rval; cbn [mnt esp].
  - unfold fneg. rewrite B2R_Bopp. ring.
  - ring.
Qed.
Lemma normalised_signed : forall s y, normalised y -> normalised (signed s y).
Proof.
  intros s y [F N]. destruct s; unfold signed; [|split; assumption].
  split; cbn [mnt esp]; unfold fneg. rewrite is_finite_Bopp. assumption.
  rewrite B2R_Bopp, Rabs_Ropp. destruct N as [[N1 N2]|N]; [left|right; assumption].
  split; [rewrite N1; ring|assumption].
Qed.

(* unfolding of the model on non-zero operands *)
Lemma op_as_unfold : forall s x y, feq0 (mnt x) = false -> feq0 (mnt y) = false ->
  op_as s x y =
    let delta := esp_distance (esp x) (esp y) in
    if NBT <? delta then x
    else if delta <? - NBT then signed s y
    else if delta =? 0 then rdpe_norm (Rdpe (fop s (mnt x) (mnt y)) (esp x))
    else if 0 <? delta then
      rdpe_norm (Rdpe (fop s (mnt x) (fldexp (mnt y) (wrap32 (wrap64 (- delta))))) (esp x))
    else
      rdpe_norm (Rdpe (fop s (fldexp (mnt x) (wrap32 delta)) (mnt y)) (esp y)).
Proof.
  intros s x y Qx Qy. destruct s; unfold op_as, rdpe_sub, rdpe_sub_gen, rdpe_add_core, rdpe_add_core_gen, signed, fop;
  rewrite Qx, Qy; reflexivity.
Qed.

Theorem addsub_nonzero : forall s x y, normalised x -> normalised y -> nonzero x -> nonzero y ->
  esp_mid (esp x) -> esp_mid (esp y) ->
  let r := op_as s x y in
  let v := (rval x + sg s * rval y)%R in
  normalised r /\
  (* the shortcut branches: the operand of larger exponent is returned as it is; the dropped operand is
     below 2^-53 times it; two ulps of the exact result *)
  (53 < esp x - esp y -> r = x /\ (Rabs (rval y) < u53 * Rabs (rval x))%R /\ rel_e (2 * u53) (rval r) v) /\
  (53 < esp y - esp x -> r = signed s y /\ (Rabs (rval x) < u53 * Rabs (rval y))%R /\ rel_e (2 * u53) (rval r) v) /\
  (* the rounded branches: ldexp is exact, one rounded operation, rdpe_Norm exact: one ulp *)
  (-53 <= esp x - esp y <= 53 -> rel_e u53 (rval r) v) /\
  (esp r = 0 \/ Z.min (esp x) (esp y) - 1074 <= esp r <= Z.max (esp x) (esp y) + 1024).
Proof.
  intros s x y Nx Ny Zx Zy Mx My r v.
  assert (Lx := esp_mid_long _ Mx). assert (Ly := esp_mid_long _ My).
  assert (Qx := feq0_nonzero x Nx Zx). assert (Qy := feq0_nonzero y Ny Zy).
  assert (Fx := proj1 Nx). assert (Fy := proj1 Ny).
  assert (Bx := normalised_bounds x Nx Zx). assert (By := normalised_bounds y Ny Zy).
  assert (Ux : (Rabs (B2R (mnt x)) <= 1)%R) by lra. assert (Uy : (Rabs (B2R (mnt y)) <= 1)%R) by lra.
  assert (Hsmall : forall a b, normalised a -> normalised b -> nonzero a -> nonzero b -> 53 < esp a - esp b ->
            (Rabs (rval b) < u53 * Rabs (rval a))%R).
  { intros a b Na Nb Za Zb H.
    pose proof (rval_bounds a Na Za) as [Ba _]. pose proof (rval_bounds b Nb Zb) as [_ Bb].
    apply Rlt_le_trans with (1 := Bb). apply Rle_trans with (u53 * bpow radix2 (esp a - 1))%R.
    - unfold u53. rewrite <- bpow_plus. apply bpow_le. lia.
    - apply Rmult_le_compat_l; [apply Rlt_le, u53_pos|assumption]. }
  unfold r. rewrite (op_as_unfold s x y Qx Qy). cbv zeta.
  destruct (Z_lt_le_dec 53 (esp x - esp y)) as [Hgt|Hle].
  { (* x dominates *)
    rewrite (esp_distance_gt _ _ Lx Ly Hgt).
    split; [assumption|]. split; [|split; [intro; lia|split; [intro; lia|right; lia]]].
    intros _. split; [reflexivity|]. split; [apply Hsmall; assumption|].
    unfold v, rel_e, u53. replace (2 * bpow radix2 (-53))%R with (2 * bpow radix2 (-53))%R by reflexivity.
    apply (drop_small_rel x y Nx Ny Zx Zy Hgt (sg s * rval y)%R).
    destruct s; unfold sg; [right|left]; ring. }
  destruct (Z_lt_le_dec 53 (esp y - esp x)) as [Hlt|Hge].
  { (* y dominates *)
    destruct (esp_distance_lt _ _ Lx Ly Hlt) as [D1 D2]. rewrite D1, D2.
    assert (Ns := normalised_signed s y Ny).
    assert (Zs : nonzero (signed s y)).
    { unfold nonzero. destruct s; unfold signed; cbn [mnt]; [unfold fneg; rewrite B2R_Bopp|]; unfold nonzero in Zy; lra. }
    assert (Es : esp (signed s y) = esp y) by (destruct s; reflexivity).
    split; [assumption|]. split; [intro; lia|]. split; [|split; [intro; lia|right; rewrite Es; lia]].
    intros _. split; [reflexivity|]. split; [apply Hsmall; assumption|].
    unfold v. rewrite <- rval_signed. replace (rval x + rval (signed s y))%R with (rval (signed s y) + rval x)%R by ring.
    unfold rel_e, u53.
    apply (drop_small_rel (signed s y) x Ns Nx Zs Zx); [rewrite Es; assumption|left; reflexivity]. }
  (* near *)
  assert (Hn : -53 <= esp x - esp y <= 53) by lia.
  rewrite (esp_distance_near _ _ Mx My Hn).
  assert (D1 : NBT <? esp x - esp y = false) by (unfold NBT; lia).
  assert (D2 : esp x - esp y <? - NBT = false) by (unfold NBT; lia).
  rewrite D1, D2.
  assert (Main : forall rr : rdpe,
     (normalised rr /\ rel_e u53 (rval rr) v /\ (esp rr = 0 \/ Z.max (esp x) (esp y) - 1074 <= esp rr <= Z.max (esp x) (esp y) + 1024)) ->
     normalised rr /\
     (53 < esp x - esp y -> rr = x /\ (Rabs (rval y) < u53 * Rabs (rval x))%R /\ rel_e (2 * u53) (rval rr) v) /\
     (53 < esp y - esp x -> rr = signed s y /\ (Rabs (rval x) < u53 * Rabs (rval y))%R /\ rel_e (2 * u53) (rval rr) v) /\
     (-53 <= esp x - esp y <= 53 -> rel_e u53 (rval rr) v) /\
     (esp rr = 0 \/ Z.min (esp x) (esp y) - 1074 <= esp rr <= Z.max (esp x) (esp y) + 1024)).
  { intros rr [A [B C]]. split; [assumption|]. split; [intro; lia|]. split; [intro; lia|]. split; [intro; assumption|].
    destruct C as [C|C]; [left; assumption|right; lia]. }
  apply Main.
  destruct (esp x - esp y =? 0) eqn:D3.
  { (* same exponent *)
    destruct (addsub_finish s (mnt x) (mnt y) (esp x) Fx Fy Ux Uy Mx) as [A [B C]].
    split; [assumption|]. split; [|replace (Z.max (esp x) (esp y)) with (esp x) by lia; assumption].
    replace v with ((B2R (mnt x) + sg s * B2R (mnt y)) * bpow radix2 (esp x))%R; [assumption|].
    unfold v, rval. replace (esp y) with (esp x) by lia. ring. }
  destruct (0 <? esp x - esp y) eqn:D4.
  { (* x larger: y is shifted down *)
    set (d := esp x - esp y). assert (Hd : 0 < d <= 53) by lia.
    rewrite (wrap64_id (- d)) by (unfold in_long, LONG_MIN, LONG_MAX; lia).
    rewrite (wrap32_id (- d)) by (unfold two31; lia).
    destruct (fldexp_exact (mnt y) d Fy By Hd) as [F' [V' U']].
    destruct (addsub_finish s (mnt x) (fldexp (mnt y) (- d)) (esp x) Fx F' Ux U' Mx) as [A [B C]].
    split; [assumption|]. split; [|replace (Z.max (esp x) (esp y)) with (esp x) by lia; assumption].
    replace v with ((B2R (mnt x) + sg s * B2R (fldexp (mnt y) (- d))) * bpow radix2 (esp x))%R; [assumption|].
    unfold v, rval. rewrite V'. replace (esp y) with (esp x + - d) by lia. rewrite bpow_plus.
    replace (esp x + - d + d) with (esp x) by lia.
    assert (K : (bpow radix2 (- d) * bpow radix2 d = 1)%R) by (rewrite <- bpow_plus; replace (- d + d) with 0 by lia; reflexivity).
    ring. }
  { (* y larger: x is shifted down *)
    set (d := esp y - esp x). assert (Hd : 0 < d <= 53) by lia.
    replace (esp x - esp y) with (- d) by lia.
    rewrite (wrap32_id (- d)) by (unfold two31; lia).
    destruct (fldexp_exact (mnt x) d Fx Bx Hd) as [F' [V' U']].
    destruct (addsub_finish s (fldexp (mnt x) (- d)) (mnt y) (esp y) F' Fy U' Uy My) as [A [B C]].
    split; [assumption|]. split; [|replace (Z.max (esp x) (esp y)) with (esp y) by lia; assumption].
    replace v with ((B2R (fldexp (mnt x) (- d)) + sg s * B2R (mnt y)) * bpow radix2 (esp y))%R; [assumption|].
    unfold v, rval. rewrite V'. replace (esp x) with (esp y + - d) by lia. rewrite bpow_plus.
    ring. }
Qed.

(* ---- zero operands included ------------------------------------------------------------------------ *)
Lemma esp_mid_0 : esp_mid 0.
Proof. unfold esp_mid, LONG_MIN, LONG_MAX. lia. Qed.

Theorem addsub_rel : forall s x y, normalised x -> normalised y -> esp_mid (esp x) -> esp_mid (esp y) ->
  let r := op_as s x y in
  let v := (rval x + sg s * rval y)%R in
  normalised r /\ rel_e (2 * u53) (rval r) v /\
  (-53 <= esp x - esp y <= 53 -> rel_e u53 (rval r) v) /\
  (esp r = 0 \/ Z.min (esp x) (esp y) - 1074 <= esp r <= Z.max (esp x) (esp y) + 1024).
Proof.
  intros s x y Nx Ny Mx My r v.
  assert (U0 : (0 <= u53)%R) by (apply Rlt_le, u53_pos).
  destruct (Req_dec (B2R (mnt y)) 0) as [Yz|Yn].
  { (* y = 0: the result is x *)
    destruct (feq0_zero y Ny) as [Qy [Vy Ey]]. { unfold nonzero. lra. }
    assert (E : r = x).
    { unfold r. destruct s; unfold op_as, rdpe_sub, rdpe_sub_gen, rdpe_add_core, rdpe_add_core_gen; rewrite Qy; reflexivity. }
    rewrite E. unfold v. rewrite Vy, Rmult_0_r, Rplus_0_r.
    split; [assumption|]. split; [apply rel_e_refl; lra|]. split; [intro; apply rel_e_refl; lra|]. right. lia. }
  destruct (Req_dec (B2R (mnt x)) 0) as [Xz|Xn].
  { (* x = 0, y <> 0: the result is y or -y *)
    destruct (feq0_zero x Nx) as [Qx [Vx Ex]]. { unfold nonzero. lra. }
    assert (Qy := feq0_nonzero y Ny Yn).
    assert (E : r = signed s y).
    { unfold r. destruct s; unfold op_as, rdpe_sub, rdpe_sub_gen, rdpe_add_core, rdpe_add_core_gen, signed; rewrite Qy, Qx; reflexivity. }
    rewrite E. unfold v. rewrite Vx, Rplus_0_l, <- rval_signed.
    assert (Es : esp (signed s y) = esp y) by (destruct s; reflexivity).
    split; [apply normalised_signed; assumption|]. split; [apply rel_e_refl; lra|]. split; [intro; apply rel_e_refl; lra|].
    right. rewrite Es. lia. }
  destruct (addsub_nonzero s x y Nx Ny Xn Yn Mx My) as [N [S1 [S2 [S3 X]]]]. fold r in N, S1, S2, S3, X. fold v in S1, S2, S3.
  split; [assumption|]. split; [|split; assumption].
  destruct (Z_lt_le_dec 53 (esp x - esp y)) as [H1|H1]; [exact (proj2 (proj2 (S1 H1)))|].
  destruct (Z_lt_le_dec 53 (esp y - esp x)) as [H2|H2]; [exact (proj2 (proj2 (S2 H2)))|].
  apply rel_e_weaken with u53; [lra|]. apply S3. lia.
Qed.

(* rdpe_add: the two pre-checks at LONG_MAX do not fire below LONG_MAX *)
Lemma rdpe_add_is_core : forall x y, esp x < LONG_MAX -> rdpe_add x y = rdpe_add_core x y.
Proof.
  intros x y H. unfold rdpe_add, both_max.
  replace (esp x =? LONG_MAX) with false by lia. rewrite !andb_false_r. reflexivity.
Qed.

Theorem add_rel : forall x y, normalised x -> normalised y -> esp_mid (esp x) -> esp_mid (esp y) ->
  normalised (rdpe_add x y) /\ rel_e (2 * u53) (rval (rdpe_add x y)) (rval x + rval y) /\
  (-53 <= esp x - esp y <= 53 -> rel_e u53 (rval (rdpe_add x y)) (rval x + rval y)) /\
  (esp (rdpe_add x y) = 0 \/ Z.min (esp x) (esp y) - 1074 <= esp (rdpe_add x y) <= Z.max (esp x) (esp y) + 1024).
Proof.
  intros x y Nx Ny Mx My.
  rewrite rdpe_add_is_core by (unfold esp_mid, LONG_MAX in *; lia).
  pose proof (addsub_rel false x y Nx Ny Mx My) as H. cbv zeta in H. unfold op_as, sg in H.
  rewrite Rmult_1_l in H. exact H.
Qed.

Theorem add_eq_rel : forall x y, normalised x -> normalised y -> esp_mid (esp x) -> esp_mid (esp y) ->
  normalised (rdpe_add_eq x y) /\ rel_e (2 * u53) (rval (rdpe_add_eq x y)) (rval x + rval y) /\
  (-53 <= esp x - esp y <= 53 -> rel_e u53 (rval (rdpe_add_eq x y)) (rval x + rval y)) /\
  (esp (rdpe_add_eq x y) = 0 \/ Z.min (esp x) (esp y) - 1074 <= esp (rdpe_add_eq x y) <= Z.max (esp x) (esp y) + 1024).
Proof.
  intros x y Nx Ny Mx My.
  pose proof (addsub_rel false x y Nx Ny Mx My) as H. cbv zeta in H. unfold op_as, sg in H.
  rewrite Rmult_1_l in H. exact H.
Qed.

Theorem sub_rel : forall x y, normalised x -> normalised y -> esp_mid (esp x) -> esp_mid (esp y) ->
  normalised (rdpe_sub x y) /\ rel_e (2 * u53) (rval (rdpe_sub x y)) (rval x - rval y) /\
  (-53 <= esp x - esp y <= 53 -> rel_e u53 (rval (rdpe_sub x y)) (rval x - rval y)) /\
  (esp (rdpe_sub x y) = 0 \/ Z.min (esp x) (esp y) - 1074 <= esp (rdpe_sub x y) <= Z.max (esp x) (esp y) + 1024).
Proof.
  intros x y Nx Ny Mx My.
  pose proof (addsub_rel true x y Nx Ny Mx My) as H. cbv zeta in H. unfold op_as, sg in H.
  replace (rval x + -1 * rval y)%R with (rval x - rval y)%R in H by ring. exact H.
Qed.

(* the shortcut branch, exactly: beyond 53 binades the operand of larger exponent is returned unchanged *)
Theorem add_shortcut_exact : forall x y, normalised x -> normalised y -> nonzero x -> nonzero y ->
  esp_mid (esp x) -> esp_mid (esp y) ->
  (53 < esp x - esp y -> rdpe_add x y = x /\ (Rabs (rval y) < u53 * Rabs (rval x))%R) /\
  (53 < esp y - esp x -> rdpe_add x y = y /\ (Rabs (rval x) < u53 * Rabs (rval y))%R).
Proof.
  intros x y Nx Ny Zx Zy Mx My.
  rewrite rdpe_add_is_core by (unfold esp_mid, LONG_MAX in *; lia).
  destruct (addsub_nonzero false x y Nx Ny Zx Zy Mx My) as [_ [S1 [S2 _]]]. unfold op_as, signed in S1, S2.
  split; intro H; [destruct (S1 H) as [A [B _]]|destruct (S2 H) as [A [B _]]]; split; assumption.
Qed.
Theorem sub_shortcut_exact : forall x y, normalised x -> normalised y -> nonzero x -> nonzero y ->
  esp_mid (esp x) -> esp_mid (esp y) ->
  (53 < esp x - esp y -> rdpe_sub x y = x /\ (Rabs (rval y) < u53 * Rabs (rval x))%R) /\
  (53 < esp y - esp x -> rdpe_sub x y = rdpe_neg y /\ (Rabs (rval x) < u53 * Rabs (rval y))%R).
Proof.
  intros x y Nx Ny Zx Zy Mx My.
  destruct (addsub_nonzero true x y Nx Ny Zx Zy Mx My) as [_ [S1 [S2 _]]]. unfold op_as, signed in S1, S2.
  split; intro H; [destruct (S1 H) as [A [B _]]|destruct (S2 H) as [A [B _]]]; split; assumption.
Qed.

(* ---- rdpe_cmp agrees with the order of the reals ------------------------------------------------------ *)
Lemma rval_sign_iff : forall r : rdpe,
  ((0 < B2R (mnt r))%R <-> (0 < rval r)%R) /\ ((B2R (mnt r) < 0)%R <-> (rval r < 0)%R).
Proof.
  intro r. unfold rval. assert (P := bpow_gt_0 radix2 (esp r)). split; split; intro; nra.
Qed.

Theorem cmp_correct : forall x y, normalised x -> normalised y -> esp_mid (esp x) -> esp_mid (esp y) ->
  rdpe_cmp x y = cmp_R (rval x) (rval y).
Proof.
  intros x y Nx Ny Mx My. apply cmp_of_sub_sign.
  destruct (sub_rel x y Nx Ny Mx My) as [N [R2 _]].
  assert (H2 : (2 * u53 < 1)%R) by (pose proof u53_small; lra).
  destruct (rel_e_sign _ _ _ H2 R2) as [Sp Sn].
  destruct (rval_sign_iff (rdpe_sub x y)) as [Ip In].
  split; [exact (proj1 N)|]. split.
  - rewrite Ip, Sp. split; intro; lra.
  - rewrite In, Sn. split; intro; lra.
Qed.

(* ---- rdpe_sqrt, odd exponent: m / 2 is exact, then as for even exponents --------------------------------- *)
Lemma B2R_ftwo : B2R ftwo = 2%R.
Proof. unfold ftwo, B2R, F2R; simpl. unfold Z.pow_pos; simpl. lra. Qed.

Lemma fsqrt_finite_pos : forall f : b64, is_finite f = true -> (0 < B2R f)%R -> is_finite (fsqrt f) = true.
Proof.
  intros f Ff Pf. destruct (Bsqrt_correct 53 1024 _ _ mode_NE f) as [_ [H2 _]]. unfold fsqrt. rewrite H2.
  destruct f as [s|s| |s m e He]; simpl in *; try lra; try reflexivity; try discriminate.
  destruct s; [|reflexivity]. exfalso.
  assert (F2R (Float radix2 (cond_Zopp true (Z.pos m)) e) < 0)%R by (apply F2R_lt_0; simpl; lia). lra.
Qed.

Lemma sqrt_rel_odd : forall x, normalised x -> (0 < B2R (mnt x))%R -> Z.odd (esp x) = true -> in_long (esp x) ->
  normalised (rdpe_sqrt x) /\ rel_e u53 (rval (rdpe_sqrt x)) (sqrt (rval x)).
Proof.
  intros x Nx Px Od Lx.
  assert (Zx : nonzero x) by (unfold nonzero; lra).
  pose proof (normalised_bounds x Nx Zx) as Bx.
  assert (Bx' : (/2 <= B2R (mnt x) < 1)%R) by (rewrite Rabs_pos_eq in Bx by lra; assumption).
  unfold rdpe_sqrt. rewrite Od.
  set (E := Z.quot (esp x) 2 + (if 0 <? esp x then 1 else 0)).
  assert (HE2 : esp x + 1 = 2 * E).
  { unfold E. pose proof (Z.quot_rem' (esp x) 2) as Q.
    apply Z.odd_spec in Od. destruct Od as [k Hk].
    destruct (Z_lt_le_dec 0 (esp x)) as [Hp|Hp].
    - assert (A1 : 0 <= esp x) by lia. assert (A2 : 0 < 2) by lia.
      pose proof (Z.rem_bound_pos (esp x) 2 A1 A2). replace (0 <? esp x) with true by lia. lia.
    - assert (A1 : esp x <= 0) by lia. assert (A2 : 0 < 2) by lia.
      pose proof (Zquot.Zrem_lt_neg_pos (esp x) 2 A1 A2) as Hb. replace (0 <? esp x) with false by lia. lia. }
  (* the halved mantissa *)
  assert (Hh : generic_format radix2 (FLT_exp (-1074) 53) (B2R (mnt x) / B2R ftwo)).
  { rewrite B2R_ftwo. replace (B2R (mnt x) / 2)%R with (B2R (mnt x) * bpow radix2 (-1))%R.
    2:{ simpl. unfold Z.pow_pos; simpl. field. }
    apply mult_bpow_exact_FLT. apply (generic_format_B2R 53 1024). rewrite (mag_mnt _ Bx). lia. }
  assert (N2 : B2R ftwo <> 0%R) by (rewrite B2R_ftwo; lra).
  pose proof (Bdiv_correct 53 1024 _ _ mode_NE (mnt x) ftwo N2) as HB.
  change (round_mode mode_NE) with ZnearestE in HB.
  rewrite round_generic in HB; try typeclasses eauto; try assumption.
  rewrite Rlt_bool_true in HB.
  2:{ rewrite B2R_ftwo. apply Rlt_trans with 1%R. apply Rabs_def1; lra. change 1%R with (bpow radix2 0). apply bpow_lt. lia. }
  destruct HB as [V1 [F1 _]]. rewrite (proj1 Nx) in F1. rewrite B2R_ftwo in V1. fold (fdiv (mnt x) ftwo) in V1, F1.
  set (h := fdiv (mnt x) ftwo) in *.
  assert (Ph : (0 < B2R h)%R) by (rewrite V1; lra).
  assert (Ff := fsqrt_finite_pos h F1 Ph).
  destruct (Bsqrt_correct 53 1024 _ _ mode_NE h) as [H1 _].
  change (round_mode mode_NE) with ZnearestE in H1. fold (fsqrt h) in H1.
  set (r := sqrt (B2R h)) in *.
  assert (Hr1 : (/2 <= r)%R).
  { unfold r. replace (/2)%R with (sqrt (/2 * /2)) by (rewrite sqrt_square; lra). apply sqrt_le_1_alt. rewrite V1. lra. }
  assert (Hr2 : (r <= 1)%R).
  { unfold r. rewrite <- sqrt_1. apply sqrt_le_1_alt. rewrite V1. lra. }
  assert (Hb : (/4 <= Rabs r <= 2)%R) by (rewrite Rabs_pos_eq; lra).
  replace (sqrt (rval x)) with (r * bpow radix2 E)%R.
  2:{ unfold rval, r. rewrite V1.
      replace (B2R (mnt x) * bpow radix2 (esp x))%R with (B2R (mnt x) / 2 * bpow radix2 (2 * E))%R.
      2:{ rewrite <- HE2, bpow_plus. simpl. unfold Z.pow_pos; simpl. field. }
      rewrite sqrt_mult; [|lra|apply bpow_ge_0]. rewrite sqrt_bpow. reflexivity. }
  apply norm_round_rel; try assumption.
  unfold in_long, LONG_MIN, LONG_MAX in *. lia.
Qed.

Lemma is_zero_b64 : forall f : b64, is_finite f = true -> B2R f = 0%R -> exists s, f = B754_zero s.
Proof.
  intros f Ff Vf. pose proof (proj2 (feq0_spec f Ff) Vf) as Q.
  destruct f as [s|s| |s m e He]; try discriminate. exists s; reflexivity.
Qed.

(* rdpe_sqrt for every normalised non-negative operand (zero, odd and even exponents): one ulp, and the
   exponent is halved, so that no saturation is ever needed *)
Theorem sqrt_rel : forall x, normalised x -> (0 <= B2R (mnt x))%R -> in_long (esp x) ->
  normalised (rdpe_sqrt x) /\ rel_e u53 (rval (rdpe_sqrt x)) (sqrt (rval x)).
Proof.
  intros x Nx Px Lx.
  destruct (Req_dec (B2R (mnt x)) 0) as [Xz|Xn].
  - destruct (feq0_zero x Nx) as [_ [Vx Ex]]. { unfold nonzero. lra. }
    destruct (is_zero_b64 _ (proj1 Nx) Xz) as [s Hs].
    destruct x as [m e]. cbn [mnt esp] in *. subst m e.
    assert (E : rdpe_sqrt (Rdpe (B754_zero s) 0) = Rdpe (B754_zero s) 0) by (destruct s; vm_compute; reflexivity).
    rewrite E. split; [assumption|]. rewrite Vx, sqrt_0. apply rel_e_refl. apply Rlt_le, u53_pos.
  - assert (Pp : (0 < B2R (mnt x))%R) by lra.
    destruct (Z.odd (esp x)) eqn:Od.
    + apply sqrt_rel_odd; assumption.
    + apply sqrt_rel_even; try assumption. rewrite <- Z.negb_odd, Od. reflexivity.
Qed.
