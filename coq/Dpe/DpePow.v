(* C12 -- rdpe_pow_si (repeated squaring as coded): accumulated relative error (1 + 2^-53)^k - 1 with
   k = i for i >= 0 and k = 2|i| for i < 0 (the inverse is taken first and its error is raised to the
   power |i|).  Also the exponent of products, squares, inverses.  Proofs only. *)
From Coq Require Import ZArith Reals Bool Lia Lra Psatz ZifyBool.
From Flocq Require Import Core BinarySingleNaN.
Require Import MPSV.Dpe.DpeDefs MPSV.Dpe.DpeModel MPSV.Dpe.DpeProps MPSV.Dpe.DpeArith.
Open Scope Z_scope.

(* ---- (1 + u)^n - 1 ------------------------------------------------------------------------------------ *)
Definition Eps (n : nat) : R := ((1 + u53) ^ n - 1)%R.
Definition EpsZ (k : Z) : R := Eps (Z.to_nat k).

Lemma pow1u_ge1 : forall n, (1 <= (1 + u53) ^ n)%R.
Proof. intro n. apply pow_R1_Rle. pose proof u53_pos. lra. Qed.
Lemma Eps_nonneg : forall n, (0 <= Eps n)%R.
Proof. intro n. unfold Eps. pose proof (pow1u_ge1 n). lra. Qed.
Lemma Eps_0 : Eps 0 = 0%R. Proof. unfold Eps. simpl. ring. Qed.
Lemma Eps_1 : Eps 1 = u53. Proof. unfold Eps. simpl. ring. Qed.
Lemma Eps_add : forall a b, (Eps a + Eps b + Eps a * Eps b = Eps (a + b))%R.
Proof. intros a b. unfold Eps. rewrite pow_add. ring. Qed.
Lemma EpsZ_add : forall a b, 0 <= a -> 0 <= b -> (EpsZ a + EpsZ b + EpsZ a * EpsZ b = EpsZ (a + b))%R.
Proof. intros a b Ha Hb. unfold EpsZ. rewrite Z2Nat.inj_add by assumption. apply Eps_add. Qed.
Lemma EpsZ_nonneg : forall k, (0 <= EpsZ k)%R. Proof. intro k. apply Eps_nonneg. Qed.
Lemma EpsZ_0 : EpsZ 0 = 0%R. Proof. apply Eps_0. Qed.
Lemma EpsZ_1 : EpsZ 1 = u53. Proof. apply Eps_1. Qed.

(* (1+u)^n - 1 <= (n + 1) u  as long as  n (n + 1) u <= 1   (n < 2^26 for u = 2^-53) *)
Lemma Eps_linear : forall n : nat, (INR n * (INR n + 1) * u53 <= 1)%R -> (Eps n <= (INR n + 1) * u53)%R.
Proof.
  intros n H. pose proof u53_pos as U. pose proof (pos_INR n) as Pn.
  assert (K : forall m : nat, (INR m * u53 <= 1)%R -> ((1 + u53) ^ m * (1 - INR m * u53) <= 1)%R).
  { induction m as [|m IH]; intro Hm.
    - simpl. lra.
    - rewrite S_INR in *. pose proof (pos_INR m).
      assert (Hm' : (INR m * u53 <= 1)%R) by nra. specialize (IH Hm').
      simpl pow. pose proof (pow1u_ge1 m).
      replace ((1 + u53) * (1 + u53) ^ m * (1 - (INR m + 1) * u53))%R
        with ((1 + u53) ^ m * (1 - INR m * u53) - (1 + u53) ^ m * ((INR m + 1) * u53 * u53))%R by ring.
      assert (0 <= (1 + u53) ^ m * ((INR m + 1) * u53 * u53))%R by (apply Rmult_le_pos; nra). lra. }
  assert (Hn : (INR n * u53 <= 1)%R) by nra.
  specialize (K n Hn). unfold Eps. set (P := ((1 + u53) ^ n)%R) in *. pose proof (pow1u_ge1 n) as P1. fold P in P1.
  (* P (1 - n u) <= 1  and  n (n+1) u <= 1  give  P - 1 <= (n+1) u *)
  assert (A : (INR n * u53 < 1)%R).
  { destruct (Rle_lt_or_eq_dec _ _ Hn) as [L|Q]; [assumption|]. exfalso.
    assert (INR n * u53 * (INR n + 1) <= 1)%R by nra. rewrite Q in H0. nra. }
  assert (B : (P <= 1 + (INR n + 1) * u53)%R).
  { assert (C : (1 <= (1 + (INR n + 1) * u53) * (1 - INR n * u53))%R) by nra.
    assert (D : (P * (1 - INR n * u53) <= (1 + (INR n + 1) * u53) * (1 - INR n * u53))%R) by lra.
    apply Rmult_le_reg_r with (1 - INR n * u53)%R; lra. }
  lra.
Qed.

Definition powZ (w : R) (k : Z) : R := (w ^ Z.to_nat k)%R.
Lemma powZ_add : forall w a b, 0 <= a -> 0 <= b -> powZ w (a + b) = (powZ w a * powZ w b)%R.
Proof. intros w a b Ha Hb. unfold powZ. rewrite Z2Nat.inj_add by assumption. apply pow_add. Qed.
Lemma powZ_0 : forall w, powZ w 0 = 1%R. Proof. reflexivity. Qed.
Lemma powZ_1 : forall w, powZ w 1 = w. Proof. intro w. unfold powZ. simpl. ring. Qed.
Lemma powZ_nonzero : forall w k, w <> 0%R -> powZ w k <> 0%R.
Proof. intros w k H. unfold powZ. apply pow_nonzero. assumption. Qed.

(* ---- exponent of a normalised value close to a real of known magnitude ---------------------------------- *)
Lemma esp_of_rel : forall (c : rdpe) (w e : R) (a b : Z), normalised c -> rel_e e (rval c) w -> (0 <= e <= /2)%R ->
  (bpow radix2 a <= Rabs w < bpow radix2 b)%R ->
  nonzero c /\ a <= esp c <= b + 1.
Proof.
  intros c w e a b Nc Hr He [Wa Wb].
  assert (Pa := bpow_gt_0 radix2 a).
  unfold rel_e in Hr.
  assert (L : (Rabs w - e * Rabs w <= Rabs (rval c))%R).
  { replace w with (rval c + (w - rval c))%R at 1 by ring.
    pose proof (Rabs_triang (rval c) (w - rval c)) as T. rewrite (Rabs_minus_sym w) in T. lra. }
  assert (U : (Rabs (rval c) <= Rabs w + e * Rabs w)%R).
  { replace (rval c) with (w + (rval c - w))%R at 1 by ring.
    pose proof (Rabs_triang w (rval c - w)) as T. lra. }
  assert (Zc : nonzero c).
  { unfold nonzero. intro K. rewrite (rval_sign_zero c K), Rabs_R0 in L. nra. }
  split; [assumption|].
  pose proof (rval_bounds c Nc Zc) as [C1 C2].
  split.
  - assert (bpow radix2 (a - 1) < bpow radix2 (esp c))%R.
    { apply Rle_lt_trans with (2 := C2). apply Rle_trans with (2 := L).
      replace (bpow radix2 (a - 1)) with (/2 * bpow radix2 a)%R.
      2:{ unfold Z.sub. rewrite bpow_plus. simpl. unfold Z.pow_pos; simpl. lra. }
      nra. }
    apply lt_bpow in H. lia.
  - assert (bpow radix2 (esp c - 1) < bpow radix2 (b + 1))%R.
    { apply Rle_lt_trans with (1 := C1). apply Rle_lt_trans with (1 := U).
      rewrite bpow_plus. simpl (bpow radix2 1). unfold Z.pow_pos; simpl.
      assert (0 < bpow radix2 b)%R by apply bpow_gt_0. assert (0 <= Rabs w)%R by apply Rabs_pos. nra. }
    apply lt_bpow in H. lia.
Qed.

Lemma u53_half : (0 <= u53 <= /2)%R.
Proof. pose proof u53_pos. pose proof u53_small. lra. Qed.

Lemma rval_prod_bounds : forall x y, normalised x -> normalised y -> nonzero x -> nonzero y ->
  (bpow radix2 (esp x + esp y - 2) <= Rabs (rval x * rval y) < bpow radix2 (esp x + esp y))%R.
Proof.
  intros x y Nx Ny Zx Zy.
  pose proof (rval_bounds x Nx Zx) as [X1 X2]. pose proof (rval_bounds y Ny Zy) as [Y1 Y2].
  rewrite Rabs_mult.
  replace (esp x + esp y - 2) with ((esp x - 1) + (esp y - 1)) by ring. rewrite !bpow_plus.
  assert (0 < bpow radix2 (esp x - 1))%R by apply bpow_gt_0. assert (0 < bpow radix2 (esp y - 1))%R by apply bpow_gt_0.
  split. apply Rmult_le_compat; lra. apply Rmult_le_0_lt_compat; try apply Rabs_pos; assumption.
Qed.

(* rdpe_mul with the exponent of the result *)
Lemma mul_rel_esp : forall x y, normalised x -> normalised y -> nonzero x -> nonzero y ->
  LONG_MIN + 1 <= esp x + esp y <= LONG_MAX - 2 ->
  normalised (rdpe_mul x y) /\ nonzero (rdpe_mul x y) /\ rel_e u53 (rval (rdpe_mul x y)) (rval x * rval y) /\
  esp x + esp y - 2 <= esp (rdpe_mul x y) <= esp x + esp y + 1.
Proof.
  intros x y Nx Ny Zx Zy HE. destruct (mul_rel x y Nx Ny Zx Zy HE) as [N R].
  destruct (esp_of_rel _ _ _ _ _ N R u53_half (rval_prod_bounds x y Nx Ny Zx Zy)) as [Z B].
  split; [assumption|]. split; [assumption|]. split; [assumption|]. lia.
Qed.
Lemma sqr_rel_esp : forall x, normalised x -> nonzero x ->
  LONG_MIN + 1 <= esp x + esp x <= LONG_MAX - 2 ->
  normalised (rdpe_sqr x) /\ nonzero (rdpe_sqr x) /\ rel_e u53 (rval (rdpe_sqr x)) (rval x * rval x) /\
  esp x + esp x - 2 <= esp (rdpe_sqr x) <= esp x + esp x + 1.
Proof.
  intros x Nx Zx HE. destruct (sqr_rel x Nx Zx HE) as [N R].
  destruct (esp_of_rel _ _ _ _ _ N R u53_half (rval_prod_bounds x x Nx Nx Zx Zx)) as [Z B].
  split; [assumption|]. split; [assumption|]. split; [assumption|]. lia.
Qed.
Lemma rval_nonzero : forall x, nonzero x -> rval x <> 0%R.
Proof.
  intros x Zx. unfold rval. apply Rmult_integral_contrapositive_currified; [exact Zx|]. apply Rgt_not_eq, bpow_gt_0.
Qed.
Lemma inv_rel_esp : forall x, normalised x -> nonzero x ->
  LONG_MIN + 1 <= - esp x <= LONG_MAX - 2 ->
  normalised (rdpe_inv x) /\ nonzero (rdpe_inv x) /\ rel_e u53 (rval (rdpe_inv x)) (/ rval x) /\
  - esp x <= esp (rdpe_inv x) <= - esp x + 3.
Proof.
  intros x Nx Zx HE. destruct (inv_rel x Nx Zx HE) as [N R].
  pose proof (rval_bounds x Nx Zx) as [X1 X2]. pose proof (rval_nonzero x Zx) as Vx.
  assert (Bw : (bpow radix2 (- esp x) <= Rabs (/ rval x) < bpow radix2 (- esp x + 2))%R).
  { rewrite Rabs_inv. assert (0 < Rabs (rval x))%R by (apply Rabs_pos_lt; assumption).
    assert (0 < bpow radix2 (esp x - 1))%R by apply bpow_gt_0.
    split.
    - rewrite bpow_opp. apply Rinv_le_contravar; lra.
    - apply Rle_lt_trans with (bpow radix2 (- (esp x - 1))).
      + rewrite bpow_opp. apply Rinv_le_contravar; lra.
      + apply bpow_lt. lia. }
  destruct (esp_of_rel _ _ _ _ _ N R u53_half Bw) as [Z B].
  split; [assumption|]. split; [assumption|]. split; [assumption|]. lia.
Qed.

(* ---- the loop of rdpe_pow_si ----------------------------------------------------------------------------- *)
Lemma shiftr1 : forall i, 0 <= i -> Z.shiftr i 1 = i / 2.
Proof. intros i H. rewrite Z.shiftr_div_pow2 by lia. reflexivity. Qed.
Lemma odd_decomp : forall i, i = 2 * (i / 2) + (if Z.odd i then 1 else 0).
Proof. intro i. rewrite (Z.div_mod i 2) at 1 by lia. rewrite Zmod_odd. reflexivity. Qed.

Lemma rel_after_round : forall k c a v, 0 <= k -> rel_e u53 c a -> rel_e (EpsZ k) a v -> rel_e (EpsZ (k + 1)) c v.
Proof.
  intros k c a v Hk H1 H2. rewrite <- EpsZ_1 in H1.
  pose proof (rel_e_trans _ _ _ _ _ (EpsZ_nonneg 1) H1 H2) as H.
  rewrite EpsZ_add in H by lia. replace (1 + k) with (k + 1) in H by ring. exact H.
Qed.

Lemma pow_loop_rel : forall (w : R) (B : Z), 0 <= B ->
  forall (fuel : nat) (re t : rdpe) (i p q : Z),
  0 <= i < 2 ^ Z.of_nat fuel -> 0 <= p -> 1 <= q ->
  normalised re -> nonzero re -> rel_e (EpsZ p) (rval re) (powZ w p) ->
  normalised t -> nonzero t -> rel_e (EpsZ (q - 1)) (rval t) (powZ w q) ->
  Z.abs (esp re) <= 1 + p * B -> Z.abs (esp t) + 2 <= q * B ->
  2 * ((p + q * i) * B) <= 2 ^ 61 ->
  let r := pow_loop rdpe_mul_eq fuel re t i in
  normalised r /\ nonzero r /\ rel_e (EpsZ (p + q * i)) (rval r) (powZ w (p + q * i)) /\
  Z.abs (esp r) <= 1 + (p + q * i) * B.
Proof.
  intros w B HB fuel. induction fuel as [|f IH]; intros re t i p q Hi Hp Hq Nre Zre Rre Nt Zt Rt Ere Et Hrange r.
  - assert (i = 0) by (simpl in Hi; lia). subst i. unfold r. simpl.
    replace (p + q * 0) with p by ring. repeat (split; [assumption|]). assumption.
  - unfold r. cbn [pow_loop]. destruct (i =? 0) eqn:I0.
    + assert (i = 0) by lia. subst i.
      replace (p + q * 0) with p by ring. repeat (split; [assumption|]). assumption.
    + assert (I1 : 1 <= i) by lia.
      rewrite shiftr1 by lia. set (i' := i / 2).
      assert (Hdec := odd_decomp i). fold i' in Hdec.
      assert (Hi' : 0 <= i' < 2 ^ Z.of_nat f).
      { split. apply Z.div_pos; lia. apply Z.div_lt_upper_bound; [lia|].
        rewrite Nat2Z.inj_succ, Z.pow_succ_r in Hi by lia. lia. }
      (* sizes *)
      assert (QB : 0 <= q * B) by (apply Z.mul_nonneg_nonneg; lia).
      assert (PB : 0 <= p * B) by (apply Z.mul_nonneg_nonneg; lia).
      assert (QI : q * B <= q * i * B).
      { replace (q * i * B) with (q * B + q * (i - 1) * B) by ring.
        assert (0 <= q * (i - 1) * B) by (apply Z.mul_nonneg_nonneg; [apply Z.mul_nonneg_nonneg|]; lia). lia. }
      assert (Hsum : p * B + q * B <= 2 ^ 60).
      { replace ((p + q * i) * B) with (p * B + q * i * B) in Hrange by ring. change (2 ^ 61) with (2 * 2 ^ 60) in Hrange. lia. }
      assert (P60 : 2 ^ 60 = 1152921504606846976) by reflexivity.
      (* the square of t *)
      assert (Rsq : LONG_MIN + 1 <= esp t + esp t <= LONG_MAX - 2) by (unfold LONG_MIN, LONG_MAX; lia).
      destruct (sqr_rel_esp t Nt Zt Rsq) as [Ns [Zs [Rs Es]]].
      assert (Rs' : rel_e (EpsZ (2 * q - 1)) (rval (rdpe_sqr_eq t)) (powZ w (2 * q))).
      { unfold rdpe_sqr_eq. replace (2 * q - 1) with ((q - 1) + (q - 1) + 1) by ring. apply rel_after_round with (2 := Rs); [lia|].
        replace (2 * q) with (q + q) by ring. rewrite powZ_add by lia. rewrite <- EpsZ_add by lia.
        apply rel_e_mul; try apply EpsZ_nonneg; assumption. }
      assert (Es' : Z.abs (esp (rdpe_sqr_eq t)) + 2 <= 2 * q * B).
      { unfold rdpe_sqr_eq. replace (2 * q * B) with (2 * (q * B)) by ring. lia. }
      destruct (Z.odd i) eqn:Od.
      * (* odd: re is multiplied by t *)
        assert (Rm : LONG_MIN + 1 <= esp re + esp t <= LONG_MAX - 2) by (unfold LONG_MIN, LONG_MAX; lia).
        destruct (mul_rel_esp re t Nre Nt Zre Zt Rm) as [Nm [Zm [Rmm Em]]].
        assert (Hn : (p + q) + 2 * q * i' = p + q * i) by (clearbody i'; rewrite Hdec; ring).
        assert (Rm' : rel_e (EpsZ (p + q)) (rval (rdpe_mul_eq re t)) (powZ w (p + q))).
        { unfold rdpe_mul_eq. replace (p + q) with (p + (q - 1) + 1) at 1 by ring. apply rel_after_round with (2 := Rmm); [lia|].
          rewrite powZ_add by lia. rewrite <- EpsZ_add by lia.
          apply rel_e_mul; try apply EpsZ_nonneg; assumption. }
        assert (Em' : Z.abs (esp (rdpe_mul_eq re t)) <= 1 + (p + q) * B).
        { unfold rdpe_mul_eq. replace ((p + q) * B) with (p * B + q * B) by ring. lia. }
        assert (Hr' : 2 * ((p + q + 2 * q * i') * B) <= 2 ^ 61) by (rewrite Hn; assumption).
        pose proof (IH (rdpe_mul_eq re t) (rdpe_sqr_eq t) i' (p + q) (2 * q) Hi' ltac:(lia) ltac:(lia)
                       Nm Zm Rm' Ns Zs Rs' Em' Es' Hr') as K.
        cbv zeta in K. rewrite Hn in K. exact K.
      * assert (Hn : p + 2 * q * i' = p + q * i) by (clearbody i'; rewrite Hdec; ring).
        assert (Hr' : 2 * ((p + 2 * q * i') * B) <= 2 ^ 61) by (rewrite Hn; assumption).
        pose proof (IH re (rdpe_sqr_eq t) i' p (2 * q) Hi' Hp ltac:(lia)
                       Nre Zre Rre Ns Zs Rs' Ere Es' Hr') as K.
        cbv zeta in K. rewrite Hn in K. exact K.
Qed.

(* ---- rdpe_pow_si ---------------------------------------------------------------------------------------------- *)
Lemma normalised_one : normalised rdpe_one. Proof. apply normalised_half. Qed.
Lemma nonzero_one : nonzero rdpe_one. Proof. apply nonzero_half. Qed.
Lemma rval_one : rval rdpe_one = 1%R.
Proof. unfold rval, rdpe_one; cbn [mnt esp]. rewrite B2R_fhalf. simpl. unfold Z.pow_pos; simpl. lra. Qed.

Lemma pow_pos_rel : forall t n, normalised t -> nonzero t -> 0 <= n ->
  2 * (n * (Z.abs (esp t) + 2)) <= 2 ^ 61 ->
  let r := pow_loop rdpe_mul_eq 64 rdpe_one t n in
  normalised r /\ nonzero r /\ rel_e (EpsZ n) (rval r) (powZ (rval t) n) /\
  Z.abs (esp r) <= 1 + n * (Z.abs (esp t) + 2).
Proof.
  intros t n Nt Zt Hn Hr r. set (B := Z.abs (esp t) + 2) in *.
  assert (HB : 0 <= B) by (unfold B; lia).
  assert (Hlt : 0 <= n < 2 ^ Z.of_nat 64).
  { split; [assumption|]. assert (n * 2 <= n * B) by (apply Z.mul_le_mono_nonneg_l; unfold B; lia).
    change (2 ^ Z.of_nat 64) with 18446744073709551616. change (2 ^ 61) with 2305843009213693952 in Hr. lia. }
  assert (R0 : rel_e (EpsZ 0) (rval rdpe_one) (powZ (rval t) 0)).
  { rewrite rval_one, powZ_0. apply rel_e_refl. apply EpsZ_nonneg. }
  assert (R1 : rel_e (EpsZ (1 - 1)) (rval t) (powZ (rval t) 1)).
  { rewrite powZ_1. apply rel_e_refl. apply EpsZ_nonneg. }
  assert (E0 : Z.abs (esp rdpe_one) <= 1 + 0 * B) by (simpl; lia).
  assert (E1 : Z.abs (esp t) + 2 <= 1 * B) by (unfold B; lia).
  assert (Hr' : 2 * ((0 + 1 * n) * B) <= 2 ^ 61) by (replace (0 + 1 * n) with n by ring; assumption).
  pose proof (pow_loop_rel (rval t) B HB 64 rdpe_one t n 0 1 Hlt ltac:(lia) ltac:(lia)
                normalised_one nonzero_one R0 Nt Zt R1 E0 E1 Hr') as K.
  cbv zeta in K. replace (0 + 1 * n) with n in K by ring. exact K.
Qed.

Lemma pow_rel_base : forall a b (m : nat), rel_e u53 a b -> rel_e (Eps m) (a ^ m) (b ^ m).
Proof.
  intros a b m H. induction m as [|m IH].
  - simpl. rewrite Eps_0. apply rel_e_refl. lra.
  - simpl pow. replace (S m) with (1 + m)%nat by reflexivity. rewrite <- Eps_add.
    apply rel_e_mul; try apply Eps_nonneg; [rewrite Eps_1|]; assumption.
Qed.

Lemma powerRZ_powZ : forall v i, powerRZ v i = if i <? 0 then (/ powZ v (- i))%R else powZ v i.
Proof. intros v i. destruct i; reflexivity. Qed.

(* the number of roundings that enter the result: i products/squares for i >= 0; for i < 0 also the rounding
   of the inverse, raised to the power |i| *)
(* pow_k is defined in DpeDefs.v *)

Theorem pow_si_rel : forall x i, normalised x -> nonzero x ->
  2 * (Z.abs i * (Z.abs (esp x) + 5)) <= 2 ^ 61 ->
  normalised (rdpe_pow_si x i) /\
  rel_e (EpsZ (pow_k i)) (rval (rdpe_pow_si x i)) (powerRZ (rval x) i).
Proof.
  intros x i Nx Zx Hr. unfold rdpe_pow_si, rdpe_pow_si_gen, pow_k. rewrite powerRZ_powZ.
  assert (P61 : 2 ^ 61 = 2305843009213693952) by reflexivity.
  destruct (i <? 0) eqn:Ineg.
  - (* negative exponent: invert first *)
    assert (I1 : 1 <= - i) by lia. replace (Z.abs i) with (- i) in Hr by lia.
    assert (Hx : Z.abs (esp x) + 5 <= 2 ^ 60).
    { assert ((Z.abs (esp x) + 5) * 1 <= (Z.abs (esp x) + 5) * - i) by (apply Z.mul_le_mono_nonneg_l; lia).
      change (2 ^ 60) with 1152921504606846976. lia. }
    change (2 ^ 60) with 1152921504606846976 in Hx.
    assert (Ri : LONG_MIN + 1 <= - esp x <= LONG_MAX - 2) by (unfold LONG_MIN, LONG_MAX; lia).
    destruct (inv_rel_esp x Nx Zx Ri) as [Nt [Zt [Rt Et]]].
    set (t := rdpe_inv x) in *.
    assert (Hr' : 2 * (- i * (Z.abs (esp t) + 2)) <= 2 ^ 61).
    { assert (- i * (Z.abs (esp t) + 2) <= - i * (Z.abs (esp x) + 5)) by (apply Z.mul_le_mono_nonneg_l; lia). lia. }
    destruct (pow_pos_rel t (- i) Nt Zt ltac:(lia) Hr') as [Nr [_ [Rr _]]].
    split; [assumption|].
    assert (Rp : rel_e (EpsZ (- i)) (powZ (rval t) (- i)) (/ powZ (rval x) (- i))).
    { unfold powZ, EpsZ. rewrite <- pow_inv. apply pow_rel_base. assumption. }
    pose proof (rel_e_trans _ _ _ _ _ (EpsZ_nonneg (- i)) Rr Rp) as K.
    rewrite EpsZ_add in K by lia. replace (- i + - i) with (2 * - i) in K by ring. exact K.
  - assert (I0 : 0 <= i) by lia. replace (Z.abs i) with i in Hr by lia.
    assert (Hr' : 2 * (i * (Z.abs (esp x) + 2)) <= 2 ^ 61).
    { assert (i * (Z.abs (esp x) + 2) <= i * (Z.abs (esp x) + 5)) by (apply Z.mul_le_mono_nonneg_l; lia). lia. }
    destruct (pow_pos_rel x i Nx Zx I0 Hr') as [Nr [_ [Rr _]]].
    split; assumption.
Qed.

(* in ulps: (1 + u)^k - 1 <= (k + 1) u  for k (k + 1) <= 2^53 *)
Theorem pow_si_ulps : forall x i, normalised x -> nonzero x ->
  2 * (Z.abs i * (Z.abs (esp x) + 5)) <= 2 ^ 61 -> pow_k i * (pow_k i + 1) <= 2 ^ 53 ->
  rel_e (IZR (pow_k i + 1) * u53) (rval (rdpe_pow_si x i)) (powerRZ (rval x) i).
Proof.
  intros x i Nx Zx Hr Hk. destruct (pow_si_rel x i Nx Zx Hr) as [_ R].
  apply rel_e_weaken with (2 := R).
  assert (K0 : 0 <= pow_k i) by (unfold pow_k; destruct (i <? 0) eqn:E; lia).
  unfold EpsZ. set (n := Z.to_nat (pow_k i)).
  assert (Hn : INR n = IZR (pow_k i)) by (unfold n; rewrite INR_IZR_INZ, Z2Nat.id by assumption; reflexivity).
  rewrite plus_IZR, <- Hn. apply Eps_linear.
  rewrite Hn. replace (IZR (pow_k i) + 1)%R with (IZR (pow_k i + 1)) by (rewrite plus_IZR; reflexivity).
  rewrite <- mult_IZR. unfold u53.
  apply Rle_trans with (IZR (2 ^ 53) * bpow radix2 (-53))%R.
  - apply Rmult_le_compat_r; [apply bpow_ge_0|]. apply IZR_le. assumption.
  - change (IZR (2 ^ 53)) with (bpow radix2 53). rewrite <- bpow_plus. simpl. lra.
Qed.

(* a concrete operand for the examples: 0.75, so that Rdpe fthreeq 2 denotes 3 *)
(* fthreeq is defined in DpeDefs.v *)
Lemma normalised_threeq : forall e, normalised (Rdpe fthreeq e) /\ nonzero (Rdpe fthreeq e).
Proof.
  intro e. assert (V : B2R fthreeq = (3 / 4)%R) by (unfold fthreeq, B2R, F2R; simpl; unfold Z.pow_pos; simpl; lra).
  split. split. reflexivity. right. cbn [mnt]. rewrite V, Rabs_pos_eq; lra.
  unfold nonzero. cbn [mnt]. rewrite V. lra.
Qed.

(* ---- rdpe_pow_si (x, LONG_MIN) as it was: the loop counter never reaches zero ------------------------------- *)
Lemma pow_counter_old_neg : forall k i, i < 0 -> pow_counter_old k i < 0.
Proof.
  induction k as [|k IH]; intros i Hi; simpl; [assumption|]. apply IH. apply Z.shiftr_neg. assumption.
Qed.
Lemma pow_si_long_min_refuted :
  neg_wrap LONG_MIN = LONG_MIN /\ forall k, pow_counter_old k (neg_wrap LONG_MIN) <> 0.
Proof.
  split. vm_compute. reflexivity.
  intro k. assert (H : neg_wrap LONG_MIN < 0) by (vm_compute; reflexivity).
  pose proof (pow_counter_old_neg k _ H). lia.
Qed.
(* the repaired code: 2^63 as an unsigned counter, 64 rounds.  0.5^(-2^63) = 2^(2^63) saturates at RDPE_MAX,
   2^(-2^63) = 0.5 * 2^(LONG_MIN + 1) is representable, 4^(-2^63) underflows to RDPE_MIN, 1^(-2^63) = 1 *)
Lemma pow_si_long_min_fixed :
  same_rdpe (rdpe_pow_si (Rdpe fhalf 0) LONG_MIN) RDPE_MAX /\
  same_rdpe (rdpe_pow_si (Rdpe fhalf 2) LONG_MIN) (Rdpe fhalf (LONG_MIN + 1)) /\
  same_rdpe (rdpe_pow_si (Rdpe fhalf 3) LONG_MIN) RDPE_MIN /\
  same_rdpe (rdpe_pow_si (Rdpe fhalf 1) LONG_MIN) rdpe_one.
Proof. vm_compute. repeat split; reflexivity. Qed.
