(* C12 -- cdpe_pow_si / cdpe_pow_eq_si as coded (repeated squaring with cdpe_mul_eq and cdpe_sqr_eq on the unsigned
   counter |i|; for i < 0 cdpe_inv first): accumulated error in complex modulus
      (1 + g19)^i - 1                       for i >= 0      (g19 = 4.36 u > sqrt 19 u, one complex product)
      (1 + g19)^|i| (1 + 6u)^|i| - 1        for i < 0       (6 u: cdpe_inv)
   and no intermediate leaves the exponent range when |i| (E + 1076) <= 2^59 (E = largest component exponent of the base).
   Proofs only. *)
From Coq Require Import ZArith Reals Bool Lia Lra Psatz ZifyBool.
From Flocq Require Import Core BinarySingleNaN.
Require Import MPSV.Dpe.DpeDefs MPSV.Dpe.DpeModel MPSV.Dpe.DpeModel2 MPSV.Dpe.DpeProps MPSV.Dpe.DpeArith MPSV.Dpe.DpePow.
Require Import MPSV.Dpe.DpeCplx MPSV.Dpe.DpeSat MPSV.Dpe.DpeScal MPSV.Dpe.DpeCplx2 MPSV.Dpe.DpeCpowDefs.
Open Scope Z_scope.


(* ---- vectors of R^2 ------------------------------------------------------------------------------------------------- *)
Lemma sq_le_of_sq : forall x y : R, (0 <= y)%R -> (x * x <= y * y)%R -> (x <= y)%R.
Proof. intros x y Hy H. destruct (Rle_or_lt x y) as [L|L]; [assumption|]. exfalso. nra. Qed.

Lemma tri2 : forall u1 u2 v1 v2 N e1 e2 : R, (0 <= e1)%R -> (0 <= e2)%R -> (0 <= N)%R ->
  (u1 * u1 + u2 * u2 <= e1 * e1 * N)%R -> (v1 * v1 + v2 * v2 <= e2 * e2 * N)%R ->
  ((u1 + v1) * (u1 + v1) + (u2 + v2) * (u2 + v2) <= (e1 + e2) * (e1 + e2) * N)%R.
Proof.
  intros u1 u2 v1 v2 N e1 e2 H1 H2 HN HU HV.
  set (x := (u1 * v1 + u2 * v2)%R).
  assert (CS : (x * x <= (u1 * u1 + u2 * u2) * (v1 * v1 + v2 * v2))%R).
  { replace ((u1 * u1 + u2 * u2) * (v1 * v1 + v2 * v2))%R with (x * x + (u1 * v2 - u2 * v1) * (u1 * v2 - u2 * v1))%R by (unfold x; ring).
    pose proof (Rle_0_sqr (u1 * v2 - u2 * v1)) as K. unfold Rsqr in K. lra. }
  assert (PU : (0 <= u1 * u1 + u2 * u2)%R) by nra. assert (PV : (0 <= v1 * v1 + v2 * v2)%R) by nra.
  assert (B : ((u1 * u1 + u2 * u2) * (v1 * v1 + v2 * v2) <= (e1 * e1 * N) * (e2 * e2 * N))%R) by (apply Rmult_le_compat; assumption).
  set (y := (e1 * e2 * N)%R).
  assert (Y0 : (0 <= y)%R) by (unfold y; apply Rmult_le_pos; [apply Rmult_le_pos|]; assumption).
  assert (XY : (x <= y)%R).
  { apply sq_le_of_sq; [assumption|]. replace (y * y)%R with (e1 * e1 * N * (e2 * e2 * N))%R by (unfold y; ring). lra. }
  replace ((u1 + v1) * (u1 + v1) + (u2 + v2) * (u2 + v2))%R with ((u1 * u1 + u2 * u2) + (v1 * v1 + v2 * v2) + 2 * x)%R by (unfold x; ring).
  replace ((e1 + e2) * (e1 + e2) * N)%R with (e1 * e1 * N + e2 * e2 * N + 2 * y)%R by (unfold y; ring).
  lra.
Qed.

Lemma m2_nonneg : forall p, (0 <= m2 p)%R.
Proof. intro p. unfold m2. nra. Qed.
Lemma m2_cmulR : forall p q, m2 (cmulR p q) = (m2 p * m2 q)%R.
Proof. intros [p1 p2] [q1 q2]. unfold m2, cmulR. cbn [fst snd]. ring. Qed.

Lemma crel_refl : forall e v, (0 <= e)%R -> crel e v v.
Proof.
  intros e v He. split; [assumption|]. unfold d2. replace (fst v - fst v)%R with 0%R by ring. replace (snd v - snd v)%R with 0%R by ring.
  pose proof (m2_nonneg v). assert (0 <= e * e)%R by nra. nra.
Qed.
Lemma crel_weaken : forall e e' p v, (e <= e')%R -> crel e p v -> crel e' p v.
Proof.
  intros e e' p v H [H0 H1]. split; [lra|]. apply Rle_trans with (1 := H1). apply Rmult_le_compat_r; [apply m2_nonneg|nra].
Qed.

(* |a|^2 <= (1 + e)^2 |v|^2 *)
Lemma crel_norm : forall e a v, crel e a v -> (m2 a <= (1 + e) * (1 + e) * m2 v)%R.
Proof.
  intros e [a1 a2] [v1 v2] [He H]. unfold d2, m2 in *. cbn [fst snd] in *.
  pose proof (tri2 v1 v2 (a1 - v1) (a2 - v2) (v1 * v1 + v2 * v2) 1 e ltac:(lra) He ltac:(nra) ltac:(lra) H) as K.
  replace (v1 + (a1 - v1))%R with a1 in K by ring. replace (v2 + (a2 - v2))%R with a2 in K by ring. exact K.
Qed.

Lemma crel_trans : forall e1 e2 c a v, crel e1 c a -> crel e2 a v -> crel (e1 + e2 + e1 * e2) c v.
Proof.
  intros e1 e2 c a v H1 H2. pose proof (crel_norm _ _ _ H2) as NA.
  destruct H1 as [E1 H1]. destruct H2 as [E2 H2].
  split; [nra|].
  destruct c as [c1 c2]. destruct a as [a1 a2]. destruct v as [v1 v2]. unfold d2, m2 in *. cbn [fst snd] in *.
  set (M := (v1 * v1 + v2 * v2)%R) in *. assert (M0 : (0 <= M)%R) by (unfold M; nra).
  assert (CA : ((c1 - a1) * (c1 - a1) + (c2 - a2) * (c2 - a2) <= (e1 * (1 + e2)) * (e1 * (1 + e2)) * M)%R).
  { apply Rle_trans with (1 := H1).
    replace (e1 * (1 + e2) * (e1 * (1 + e2)) * M)%R with (e1 * e1 * ((1 + e2) * (1 + e2) * M))%R by ring.
    apply Rmult_le_compat_l; [nra|assumption]. }
  pose proof (tri2 _ _ _ _ M (e1 * (1 + e2)) e2 ltac:(nra) E2 M0 CA H2) as K.
  replace (c1 - a1 + (a1 - v1))%R with (c1 - v1)%R in K by ring. replace (c2 - a2 + (a2 - v2))%R with (c2 - v2)%R in K by ring.
  replace (e1 + e2 + e1 * e2)%R with (e1 * (1 + e2) + e2)%R by ring. exact K.
Qed.

Lemma crel_mul : forall ea eb p P q Q, crel ea p P -> crel eb q Q ->
  crel (ea + eb + ea * eb) (cmulR p q) (cmulR P Q).
Proof.
  intros ea eb [p1 p2] [P1 P2] [q1 q2] [Q1 Q2] [Ea Ha] [Eb Hb].
  split; [nra|]. rewrite m2_cmulR. unfold d2, m2, cmulR in *. cbn [fst snd] in *.
  set (MP := (P1 * P1 + P2 * P2)%R) in *. set (MQ := (Q1 * Q1 + Q2 * Q2)%R) in *.
  assert (MP0 : (0 <= MP)%R) by (unfold MP; nra). assert (MQ0 : (0 <= MQ)%R) by (unfold MQ; nra).
  set (N := (MP * MQ)%R). assert (N0 : (0 <= N)%R) by (unfold N; apply Rmult_le_pos; assumption).
  set (d1 := (p1 - P1)%R) in *. set (d2' := (p2 - P2)%R) in *. set (f1 := (q1 - Q1)%R) in *. set (f2 := (q2 - Q2)%R) in *.
  (* the three pieces *)
  assert (A : ((d1 * Q1 - d2' * Q2) * (d1 * Q1 - d2' * Q2) + (d2' * Q1 + d1 * Q2) * (d2' * Q1 + d1 * Q2) <= ea * ea * N)%R).
  { replace ((d1 * Q1 - d2' * Q2) * (d1 * Q1 - d2' * Q2) + (d2' * Q1 + d1 * Q2) * (d2' * Q1 + d1 * Q2))%R
      with ((d1 * d1 + d2' * d2') * MQ)%R by (unfold MQ; ring).
    replace (ea * ea * N)%R with (ea * ea * MP * MQ)%R by (unfold N; ring). apply Rmult_le_compat_r; assumption. }
  assert (B : ((P1 * f1 - P2 * f2) * (P1 * f1 - P2 * f2) + (P2 * f1 + P1 * f2) * (P2 * f1 + P1 * f2) <= eb * eb * N)%R).
  { replace ((P1 * f1 - P2 * f2) * (P1 * f1 - P2 * f2) + (P2 * f1 + P1 * f2) * (P2 * f1 + P1 * f2))%R
      with (MP * (f1 * f1 + f2 * f2))%R by (unfold MP; ring).
    replace (eb * eb * N)%R with (MP * (eb * eb * MQ))%R by (unfold N; ring). apply Rmult_le_compat_l; assumption. }
  assert (C : ((d1 * f1 - d2' * f2) * (d1 * f1 - d2' * f2) + (d2' * f1 + d1 * f2) * (d2' * f1 + d1 * f2) <= (ea * eb) * (ea * eb) * N)%R).
  { replace ((d1 * f1 - d2' * f2) * (d1 * f1 - d2' * f2) + (d2' * f1 + d1 * f2) * (d2' * f1 + d1 * f2))%R
      with ((d1 * d1 + d2' * d2') * (f1 * f1 + f2 * f2))%R by ring.
    replace (ea * eb * (ea * eb) * N)%R with ((ea * ea * MP) * (eb * eb * MQ))%R by (unfold N; ring).
    apply Rmult_le_compat; try assumption; nra. }
  pose proof (tri2 _ _ _ _ N ea eb Ea Eb N0 A B) as K1.
  pose proof (tri2 _ _ _ _ N (ea + eb) (ea * eb) ltac:(lra) ltac:(nra) N0 K1 C) as K2.
  replace (p1 * q1 - p2 * q2 - (P1 * Q1 - P2 * Q2))%R
    with (d1 * Q1 - d2' * Q2 + (P1 * f1 - P2 * f2) + (d1 * f1 - d2' * f2))%R by (unfold d1, d2', f1, f2; ring).
  replace (p2 * q1 + p1 * q2 - (P2 * Q1 + P1 * Q2))%R
    with (d2' * Q1 + d1 * Q2 + (P2 * f1 + P1 * f2) + (d2' * f1 + d1 * f2))%R by (unfold d1, d2', f1, f2; ring).
  exact K2.
Qed.

(* component-wise relative errors give the error in modulus *)
Lemma crel_of_comp : forall e x y a b, (0 <= e)%R -> rel_e e x a -> rel_e e y b -> crel e (x, y) (a, b).
Proof.
  intros e x y a b He H1 H2. split; [assumption|]. pose proof (comp_to_mod _ _ _ _ _ He H1 H2) as K.
  unfold dist2, mod2 in K. unfold d2, m2. cbn [fst snd]. exact K.
Qed.

(* ---- powers ----------------------------------------------------------------------------------------------------------- *)
Lemma cmulR_assoc : forall p q r, cmulR (cmulR p q) r = cmulR p (cmulR q r).
Proof. intros [p1 p2] [q1 q2] [r1 r2]. unfold cmulR. cbn [fst snd]. f_equal; ring. Qed.
Lemma cmulR_1_l : forall p, cmulR (1%R, 0%R) p = p.
Proof. intros [p1 p2]. unfold cmulR. cbn [fst snd]. f_equal; ring. Qed.
Lemma cmulR_1_r : forall p, cmulR p (1%R, 0%R) = p.
Proof. intros [p1 p2]. unfold cmulR. cbn [fst snd]. f_equal; ring. Qed.
Lemma cpowR_add : forall z a b, cpowR z (a + b) = cmulR (cpowR z a) (cpowR z b).
Proof.
  intros z a b. induction b as [|b IH].
  - rewrite Nat.add_0_r. cbn [cpowR]. rewrite cmulR_1_r. reflexivity.
  - rewrite Nat.add_succ_r. cbn [cpowR]. rewrite IH. apply cmulR_assoc.
Qed.
Lemma cpowR_1 : forall z, cpowR z 1 = z.
Proof. intro z. cbn [cpowR]. apply cmulR_1_l. Qed.
Definition cpowZ (z : R * R) (k : Z) : R * R := cpowR z (Z.to_nat k).
Lemma cpowZ_add : forall z a b, 0 <= a -> 0 <= b -> cpowZ z (a + b) = cmulR (cpowZ z a) (cpowZ z b).
Proof. intros z a b Ha Hb. unfold cpowZ. rewrite Z2Nat.inj_add by assumption. apply cpowR_add. Qed.

(* ---- (1 + g)^n - 1 ---------------------------------------------------------------------------------------------------- *)
Lemma Gp_nonneg : forall g n, (0 <= g)%R -> (0 <= Gp g n)%R.
Proof. intros g n Hg. unfold Gp. assert (1 <= (1 + g) ^ n)%R by (apply pow_R1_Rle; lra). lra. Qed.
Lemma Gp_0 : forall g, Gp g 0 = 0%R. Proof. intro g. unfold Gp. simpl. ring. Qed.
Lemma Gp_1 : forall g, Gp g 1 = g. Proof. intro g. unfold Gp. simpl. ring. Qed.
Lemma Gp_add : forall g a b, (Gp g a + Gp g b + Gp g a * Gp g b = Gp g (a + b))%R.
Proof. intros g a b. unfold Gp. rewrite pow_add. ring. Qed.
Definition GpZ (g : R) (k : Z) : R := Gp g (Z.to_nat k).
Lemma GpZ_add : forall g a b, 0 <= a -> 0 <= b -> (GpZ g a + GpZ g b + GpZ g a * GpZ g b = GpZ g (a + b))%R.
Proof. intros g a b Ha Hb. unfold GpZ. rewrite Z2Nat.inj_add by assumption. apply Gp_add. Qed.
Lemma GpZ_nonneg : forall g k, (0 <= g)%R -> (0 <= GpZ g k)%R. Proof. intros. apply Gp_nonneg. assumption. Qed.
Lemma GpZ_1 : forall g, GpZ g 1 = g. Proof. intro g. apply Gp_1. Qed.
Lemma GpZ_0 : forall g, GpZ g 0 = 0%R. Proof. intro g. apply Gp_0. Qed.

Lemma g19_pos : (0 < g19)%R. Proof. unfold g19. pose proof u53_pos. lra. Qed.
Lemma g19_sq : (19 * (u53 * u53) <= g19 * g19)%R.
Proof.
  unfold g19. pose proof u53_pos as U. assert (K : (0 <= u53 * u53)%R) by nra.
  replace (436 / 100 * u53 * (436 / 100 * u53))%R with (190096 / 10000 * (u53 * u53))%R by field. lra.
Qed.

(* (1+g)^n - 1 <= (n + 1) g  as long as  n (n + 1) g <= 1 *)
Lemma Gp_linear : forall (g : R) (n : nat), (0 < g)%R -> (INR n * (INR n + 1) * g <= 1)%R -> (Gp g n <= (INR n + 1) * g)%R.
Proof.
  intros g n U H. pose proof (pos_INR n) as Pn.
  assert (P1g : forall m, (1 <= (1 + g) ^ m)%R) by (intro m; apply pow_R1_Rle; lra).
  assert (K : forall m : nat, (INR m * g <= 1)%R -> ((1 + g) ^ m * (1 - INR m * g) <= 1)%R).
  { induction m as [|m IH]; intro Hm.
    - simpl. lra.
    - rewrite S_INR in *. pose proof (pos_INR m).
      assert (Hm' : (INR m * g <= 1)%R) by nra. specialize (IH Hm').
      simpl pow. pose proof (P1g m).
      replace ((1 + g) * (1 + g) ^ m * (1 - (INR m + 1) * g))%R
        with ((1 + g) ^ m * (1 - INR m * g) - (1 + g) ^ m * ((INR m + 1) * g * g))%R by ring.
      assert (0 <= (1 + g) ^ m * ((INR m + 1) * g * g))%R by (apply Rmult_le_pos; nra). lra. }
  assert (Hn : (INR n * g <= 1)%R) by nra.
  specialize (K n Hn). unfold Gp. set (P := ((1 + g) ^ n)%R) in *. pose proof (P1g n) as P1. fold P in P1.
  assert (A : (INR n * g < 1)%R).
  { destruct (Rle_lt_or_eq_dec _ _ Hn) as [L|Q]; [assumption|]. exfalso.
    assert (INR n * g * (INR n + 1) <= 1)%R by nra. rewrite Q in H0. nra. }
  assert (B : (P <= 1 + (INR n + 1) * g)%R).
  { assert (C : (1 <= (1 + (INR n + 1) * g) * (1 - INR n * g))%R) by nra.
    assert (D : (P * (1 - INR n * g) <= (1 + (INR n + 1) * g) * (1 - INR n * g))%R) by lra.
    apply Rmult_le_reg_r with (1 - INR n * g)%R; lra. }
  lra.
Qed.

(* ---- the building blocks: cdpe_mul and cdpe_sqr_eq with the exponents of their results -------------------------------------- *)
Lemma cesp_small : forall c, cesp c <= 2 ^ 60 -> csmall c.
Proof. intros c H. unfold cesp, csmall, esp_small in *. split; lia. Qed.

Lemma addsub_esp_abs : forall (r : rdpe) (e1 e2 : Z),
  (esp r = 0 \/ Z.min e1 e2 - 1074 <= esp r <= Z.max e1 e2 + 1024) -> Z.abs (esp r) <= Z.max (Z.abs e1) (Z.abs e2) + 1074.
Proof. intros r e1 e2 H. lia. Qed.

Lemma cmul_step : forall z w, cnormalised z -> cnormalised w -> cesp z <= 2 ^ 60 -> cesp w <= 2 ^ 60 ->
  cnormalised (cdpe_mul z w) /\ crel g19 (cval (cdpe_mul z w)) (cmulR (cval z) (cval w)) /\
  cesp (cdpe_mul z w) <= cesp z + cesp w + 1076.
Proof.
  intros z w Nz Nw Ez Ew. pose proof (cesp_small z Ez) as Sz. pose proof (cesp_small w Ew) as Sw.
  destruct (cmul_rel z w Nz Nw Sz Sw) as [N K]. cbv zeta in K.
  split; [assumption|]. split.
  - split; [apply Rlt_le, g19_pos|]. unfold d2, m2, cval, cmulR. cbn [fst snd].
    apply Rle_trans with (1 := K). apply Rmult_le_compat_r; [nra|apply g19_sq].
  - destruct Nz as [Nzr Nzi]. destruct Nw as [Nwr Nwi]. destruct Sz as [Szr Szi]. destruct Sw as [Swr Swi].
    unfold cdpe_mul, cdpe_mul_gen. unfold cesp in *. cbn [cre cim].
    destruct (mul_rel_all _ _ Nzr Nwr Szr Swr) as [N1 [_ E1]]. destruct (mul_rel_all _ _ Nzi Nwi Szi Swi) as [N2 [_ E2]].
    destruct (mul_rel_all _ _ Nzi Nwr Szi Swr) as [N3 [_ E3]]. destruct (mul_rel_all _ _ Nzr Nwi Szr Swi) as [N4 [_ E4]].
    pose proof (prod_small _ _ Szr Swr). pose proof (prod_small _ _ Szi Swi).
    pose proof (prod_small _ _ Szi Swr). pose proof (prod_small _ _ Szr Swi).
    assert (M1 : esp_mid (esp (rdpe_mul (cre z) (cre w)))) by (apply esp_small_mid; lia).
    assert (M2 : esp_mid (esp (rdpe_mul (cim z) (cim w)))) by (apply esp_small_mid; lia).
    assert (M3 : esp_mid (esp (rdpe_mul (cim z) (cre w)))) by (apply esp_small_mid; lia).
    assert (M4 : esp_mid (esp (rdpe_mul (cre z) (cim w)))) by (apply esp_small_mid; lia).
    destruct (sub_rel _ _ N1 N2 M1 M2) as [_ [_ [_ X1]]]. destruct (add_rel _ _ N3 N4 M3 M4) as [_ [_ [_ X2]]].
    pose proof (addsub_esp_abs _ _ _ X1) as A1. pose proof (addsub_esp_abs _ _ _ X2) as A2.
    set (a1 := Z.abs (esp (cre z))) in *. set (a2 := Z.abs (esp (cim z))) in *.
    set (b1 := Z.abs (esp (cre w))) in *. set (b2 := Z.abs (esp (cim w))) in *.
    set (p1 := Z.abs (esp (rdpe_mul (cre z) (cre w)))) in *. set (p2 := Z.abs (esp (rdpe_mul (cim z) (cim w)))) in *.
    set (p3 := Z.abs (esp (rdpe_mul (cim z) (cre w)))) in *. set (p4 := Z.abs (esp (rdpe_mul (cre z) (cim w)))) in *.
    set (r1 := Z.abs (esp (rdpe_sub (rdpe_mul (cre z) (cre w)) (rdpe_mul (cim z) (cim w))))) in *.
    set (r2 := Z.abs (esp (rdpe_add (rdpe_mul (cim z) (cre w)) (rdpe_mul (cre z) (cim w))))) in *.
    clearbody a1 a2 b1 b2 p1 p2 p3 p4 r1 r2. clear - E1 E2 E3 E4 A1 A2. lia.
Qed.

Lemma shift1_esp : forall x, normalised x -> Z.abs (esp x) <= 2 ^ 61 + 2 -> Z.abs (esp (rdpe_shift_esp x 1 false)) <= Z.abs (esp x) + 1.
Proof.
  intros x Nx Ex. change (2 ^ 61) with 2305843009213693952 in Ex.
  destruct (Req_dec (B2R (mnt x)) 0) as [Z0|Z1].
  - rewrite shift_esp_zero; [lia|assumption|unfold nonzero; lra].
  - rewrite shift_esp_full; try assumption; try (unfold in_long, ULONG_MAX, LONG_MIN, LONG_MAX; lia).
    rewrite sat_rdpe_in by (unfold in_long, LONG_MIN, LONG_MAX; lia). cbn [esp]. lia.
Qed.

Lemma csqr_eq_is_sqr : forall z, cnormalised z -> csmall z -> cdpe_sqr_eq z = cdpe_sqr z.
Proof.
  intros z [Nr Ni] [Sr Si]. unfold cdpe_sqr_eq, cdpe_sqr_eq_gen, cdpe_sqr, cdpe_sqr_gen.
  rewrite (sqr_is_mul _ Nr Sr), (sqr_is_mul _ Ni Si). reflexivity.
Qed.

Lemma csqr_step : forall z, cnormalised z -> cesp z <= 2 ^ 60 ->
  cnormalised (cdpe_sqr_eq z) /\ crel g19 (cval (cdpe_sqr_eq z)) (cmulR (cval z) (cval z)) /\
  cesp (cdpe_sqr_eq z) <= cesp z + cesp z + 1076.
Proof.
  intros z Nz Ez. pose proof (cesp_small z Ez) as Sz. rewrite (csqr_eq_is_sqr z Nz Sz).
  destruct (csqr_rel z Nz Sz) as [N K]. cbv zeta in K.
  split; [assumption|]. split.
  - split; [apply Rlt_le, g19_pos|]. unfold d2, m2, cval, cmulR. cbn [fst snd].
    set (a := rval (cre z)) in *. set (b := rval (cim z)) in *.
    replace (b * a + a * b)%R with (2 * (a * b))%R by ring.
    apply Rle_trans with (1 := K).
    apply Rle_trans with (19 * (u53 * u53) * ((a * a - b * b) * (a * a - b * b) + 2 * (a * b) * (2 * (a * b))))%R.
    + apply Rmult_le_compat_r; [nra|]. pose proof u53_pos. assert (0 <= u53 * u53)%R by nra. lra.
    + apply Rmult_le_compat_r; [nra|apply g19_sq].
  - destruct Nz as [Nr Ni]. destruct Sz as [Sr Si].
    unfold cdpe_sqr, cdpe_sqr_gen. unfold cesp in *. cbn [cre cim].
    destruct (mul_rel_all _ _ Nr Nr Sr Sr) as [N1 [_ E1]]. destruct (mul_rel_all _ _ Ni Ni Si Si) as [N2 [_ E2]].
    destruct (mul_rel_all _ _ Ni Nr Si Sr) as [N3 [_ E3]].
    pose proof (prod_small _ _ Sr Sr). pose proof (prod_small _ _ Si Si). pose proof (prod_small _ _ Si Sr).
    assert (M1 : esp_mid (esp (rdpe_mul (cre z) (cre z)))) by (apply esp_small_mid; lia).
    assert (M2 : esp_mid (esp (rdpe_mul (cim z) (cim z)))) by (apply esp_small_mid; lia).
    destruct (sub_rel _ _ N1 N2 M1 M2) as [_ [_ [_ X1]]].
    pose proof (addsub_esp_abs _ _ _ X1) as A1.
    assert (E3' : Z.abs (esp (rdpe_mul (cim z) (cre z))) <= 2 ^ 61 + 2) by lia.
    pose proof (shift1_esp _ N3 E3') as A2.
    set (a1 := Z.abs (esp (cre z))) in *. set (a2 := Z.abs (esp (cim z))) in *.
    set (p1 := Z.abs (esp (rdpe_mul (cre z) (cre z)))) in *. set (p2 := Z.abs (esp (rdpe_mul (cim z) (cim z)))) in *.
    set (p3 := Z.abs (esp (rdpe_mul (cim z) (cre z)))) in *.
    set (r1 := Z.abs (esp (rdpe_sub (rdpe_mul (cre z) (cre z)) (rdpe_mul (cim z) (cim z))))) in *.
    set (r2 := Z.abs (esp (rdpe_shift_esp (rdpe_mul (cim z) (cre z)) 1 false))) in *.
    clearbody a1 a2 p1 p2 p3 r1 r2. clear - E1 E2 E3 A1 A2. lia.
Qed.

Lemma cone_facts : cnormalised cdpe_one /\ cval cdpe_one = (1%R, 0%R) /\ cesp cdpe_one = 1.
Proof.
  split; [split; [apply normalised_one|split; [reflexivity|left; split; reflexivity]]|]. split.
  - unfold cval, cdpe_one. cbn [cre cim]. rewrite rval_one. f_equal. unfold rval, rdpe_zero. cbn [mnt esp]. simpl. ring.
  - reflexivity.
Qed.

(* ---- the loop of cdpe_pow_si ---------------------------------------------------------------------------------------------- *)
Lemma crel_after_round : forall k c a v, 0 <= k -> crel g19 c a -> crel (GpZ g19 k) a v -> crel (GpZ g19 (k + 1)) c v.
Proof.
  intros k c a v Hk H1 H2. rewrite <- (GpZ_1 g19) in H1.
  pose proof (crel_trans _ _ _ _ _ H1 H2) as H.
  rewrite GpZ_add in H by lia. replace (1 + k) with (k + 1) in H by ring. exact H.
Qed.

Lemma cpow_loop_rel : forall (w : R * R) (B : Z), 1076 <= B ->
  forall (fuel : nat) (rc t : cdpe) (i p q : Z),
  0 <= i < 2 ^ Z.of_nat fuel -> 0 <= p -> 1 <= q ->
  cnormalised rc -> crel (GpZ g19 p) (cval rc) (cpowZ w p) ->
  cnormalised t -> crel (GpZ g19 (q - 1)) (cval t) (cpowZ w q) ->
  cesp rc <= 1 + p * B -> cesp t + 1076 <= q * B ->
  (p + q * i) * B <= 2 ^ 59 ->
  let r := cpow_loop rdpe_mul fuel rc t i in
  cnormalised r /\ crel (GpZ g19 (p + q * i)) (cval r) (cpowZ w (p + q * i)) /\ cesp r <= 1 + (p + q * i) * B.
Proof.
  intros w B HB fuel. induction fuel as [|f IH]; intros rc t i p q Hi Hp Hq Nrc Rrc Nt Rt Erc Et Hrange r.
  - assert (i = 0) by (simpl in Hi; lia). subst i. unfold r. simpl.
    replace (p + q * 0) with p by ring. split; [assumption|]. split; assumption.
  - unfold r. cbn [cpow_loop]. destruct (i =? 0) eqn:I0.
    + assert (i = 0) by lia. subst i.
      replace (p + q * 0) with p by ring. split; [assumption|]. split; assumption.
    + assert (I1 : 1 <= i) by lia.
      rewrite shiftr1 by lia. set (i' := i / 2).
      assert (Hdec := odd_decomp i). fold i' in Hdec.
      assert (Hi' : 0 <= i' < 2 ^ Z.of_nat f).
      { split. apply Z.div_pos; lia. apply Z.div_lt_upper_bound; [lia|].
        rewrite Nat2Z.inj_succ, Z.pow_succ_r in Hi by lia. lia. }
      assert (QB : 0 <= q * B) by (apply Z.mul_nonneg_nonneg; lia).
      assert (PB : 0 <= p * B) by (apply Z.mul_nonneg_nonneg; lia).
      assert (QI : q * B <= q * i * B).
      { replace (q * i * B) with (q * B + q * (i - 1) * B) by ring.
        assert (0 <= q * (i - 1) * B) by (apply Z.mul_nonneg_nonneg; [apply Z.mul_nonneg_nonneg|]; lia). lia. }
      assert (Hsum : p * B + q * B <= 2 ^ 59).
      { replace ((p + q * i) * B) with (p * B + q * i * B) in Hrange by ring. lia. }
      assert (P59 : 2 ^ 59 = 576460752303423488) by reflexivity. rewrite P59 in *.
      assert (P60' : 2 ^ 60 = 1152921504606846976) by reflexivity.
      assert (Et60 : cesp t <= 2 ^ 60) by (rewrite P60'; lia).
      assert (Erc60 : cesp rc <= 2 ^ 60) by (rewrite P60'; lia).
      (* the square of t *)
      destruct (csqr_step t Nt Et60) as [Ns [Rs Es]].
      assert (Rs' : crel (GpZ g19 (2 * q - 1)) (cval (cdpe_sqr_eq t)) (cpowZ w (2 * q))).
      { replace (2 * q - 1) with ((q - 1) + (q - 1) + 1) by ring. apply crel_after_round with (2 := Rs); [lia|].
        replace (2 * q) with (q + q) by ring. rewrite cpowZ_add by lia. rewrite <- GpZ_add by lia.
        apply crel_mul; assumption. }
      assert (Es' : cesp (cdpe_sqr_eq t) + 1076 <= 2 * q * B).
      { replace (2 * q * B) with (2 * (q * B)) by ring. lia. }
      change (cdpe_sqr_eq_gen rdpe_mul t) with (cdpe_sqr_eq t).
      destruct (Z.odd i) eqn:Od.
      * destruct (cmul_step rc t Nrc Nt Erc60 Et60) as [Nm [Rmm Em]].
        change (cdpe_mul_gen rdpe_mul rc t) with (cdpe_mul rc t).
        assert (Hn : (p + q) + 2 * q * i' = p + q * i) by (clearbody i'; rewrite Hdec; ring).
        assert (Rm' : crel (GpZ g19 (p + q)) (cval (cdpe_mul rc t)) (cpowZ w (p + q))).
        { replace (p + q) with (p + (q - 1) + 1) at 1 by ring. apply crel_after_round with (2 := Rmm); [lia|].
          rewrite cpowZ_add by lia. rewrite <- GpZ_add by lia. apply crel_mul; assumption. }
        assert (Em' : cesp (cdpe_mul rc t) <= 1 + (p + q) * B).
        { replace ((p + q) * B) with (p * B + q * B) by ring. lia. }
        assert (Hr' : (p + q + 2 * q * i') * B <= 576460752303423488) by (rewrite Hn; assumption).
        pose proof (IH (cdpe_mul rc t) (cdpe_sqr_eq t) i' (p + q) (2 * q) Hi' ltac:(lia) ltac:(lia)
                       Nm Rm' Ns Rs' Em' Es' Hr') as K.
        cbv zeta in K. rewrite Hn in K. exact K.
      * assert (Hn : p + 2 * q * i' = p + q * i) by (clearbody i'; rewrite Hdec; ring).
        assert (Hr' : (p + 2 * q * i') * B <= 576460752303423488) by (rewrite Hn; assumption).
        pose proof (IH rc (cdpe_sqr_eq t) i' p (2 * q) Hi' Hp ltac:(lia) Nrc Rrc Ns Rs' Erc Es' Hr') as K.
        cbv zeta in K. rewrite Hn in K. exact K.
Qed.

(* powers with a non-negative exponent of an arbitrary normalised base t *)
Lemma cpow_pos_rel : forall t n, cnormalised t -> 0 <= n -> n * (cesp t + 1076) <= 2 ^ 59 ->
  let r := cpow_loop rdpe_mul 64 cdpe_one t n in
  cnormalised r /\ crel (GpZ g19 n) (cval r) (cpowZ (cval t) n) /\ cesp r <= 1 + n * (cesp t + 1076).
Proof.
  intros t n Nt Hn Hr r. set (B := cesp t + 1076) in *.
  assert (HB : 1076 <= B) by (unfold B, cesp; lia).
  assert (Hlt : 0 <= n < 2 ^ Z.of_nat 64).
  { split; [assumption|]. assert (n * 1076 <= n * B) by (apply Z.mul_le_mono_nonneg_l; lia).
    change (2 ^ Z.of_nat 64) with 18446744073709551616. change (2 ^ 59) with 576460752303423488 in Hr. lia. }
  destruct cone_facts as [N1 [V1 E1]].
  assert (R0 : crel (GpZ g19 0) (cval cdpe_one) (cpowZ (cval t) 0)).
  { rewrite V1. apply crel_refl. apply GpZ_nonneg. apply Rlt_le, g19_pos. }
  assert (R1 : crel (GpZ g19 (1 - 1)) (cval t) (cpowZ (cval t) 1)).
  { unfold cpowZ. change (Z.to_nat 1) with 1%nat. rewrite cpowR_1. apply crel_refl. apply GpZ_nonneg. apply Rlt_le, g19_pos. }
  assert (E0 : cesp cdpe_one <= 1 + 0 * B) by (rewrite E1; lia).
  assert (Et : cesp t + 1076 <= 1 * B) by (unfold B; lia).
  assert (Hr' : (0 + 1 * n) * B <= 2 ^ 59) by (replace (0 + 1 * n) with n by ring; assumption).
  pose proof (cpow_loop_rel (cval t) B HB 64 cdpe_one t n 0 1 Hlt ltac:(lia) ltac:(lia) N1 R0 Nt R1 E0 Et Hr') as K.
  cbv zeta in K. replace (0 + 1 * n) with n in K by ring. exact K.
Qed.

(* a perturbed base raised to a power *)
Lemma cpow_rel_base : forall e a b (m : nat), crel e a b -> crel (Gp e m) (cpowR a m) (cpowR b m).
Proof.
  intros e a b m H. pose proof (proj1 H) as He. induction m as [|m IH].
  - cbn [cpowR]. rewrite Gp_0. apply crel_refl. lra.
  - cbn [cpowR]. replace (S m) with (m + 1)%nat by lia. rewrite <- Gp_add, Gp_1. apply crel_mul; assumption.
Qed.

(* ---- cdpe_inv: where the exponents of its components can be ----------------------------------------------------------------- *)
Lemma csmod_esp2 : forall c, cnormalised c -> csmall c -> Z.abs (esp (cdpe_smod c)) <= 2 * cesp c + 1076.
Proof.
  intros c [Nr Ni] [Sr Si]. unfold cdpe_smod. rewrite (sqr_is_mul _ Nr Sr), (sqr_is_mul _ Ni Si).
  destruct (mul_rel_all _ _ Nr Nr Sr Sr) as [N1 [_ E1]]. destruct (mul_rel_all _ _ Ni Ni Si Si) as [N2 [_ E2]].
  pose proof (prod_small _ _ Sr Sr). pose proof (prod_small _ _ Si Si).
  assert (M1 : esp_mid (esp (rdpe_mul (cre c) (cre c)))) by (apply esp_small_mid; lia).
  assert (M2 : esp_mid (esp (rdpe_mul (cim c) (cim c)))) by (apply esp_small_mid; lia).
  destruct (add_eq_rel _ _ N1 N2 M1 M2) as [_ [_ [_ X]]]. pose proof (addsub_esp_abs _ _ _ X) as A.
  unfold cesp.
  set (a1 := Z.abs (esp (cre c))) in *. set (a2 := Z.abs (esp (cim c))) in *.
  set (p1 := Z.abs (esp (rdpe_mul (cre c) (cre c)))) in *. set (p2 := Z.abs (esp (rdpe_mul (cim c) (cim c)))) in *.
  set (r := Z.abs (esp (rdpe_add_eq (rdpe_mul (cre c) (cre c)) (rdpe_mul (cim c) (cim c))))) in *.
  clearbody a1 a2 p1 p2 r. clear - E1 E2 A. lia.
Qed.

Lemma cinv_step : forall c, cnormalised c -> cesp c <= 2 ^ 60 -> (m2 (cval c) <> 0)%R ->
  cnormalised (cdpe_inv c) /\ crel g6 (cval (cdpe_inv c)) (cinvR (cval c)) /\ cesp (cdpe_inv c) <= 3 * cesp c + 1081.
Proof.
  intros c Nc Ec Hs. pose proof (cesp_small c Ec) as Sc.
  assert (Hs' : (mod2 (rval (cre c)) (rval (cim c)) <> 0)%R) by exact Hs.
  destruct (cinv_rel c Nc Sc Hs') as [N [R1 [R2 _]]]. cbv zeta in R1, R2.
  split; [assumption|]. split.
  - unfold cval, cinvR, g6. cbn [fst snd]. apply crel_of_comp; try assumption. pose proof u53_pos; lra.
  - pose proof (csmod_esp2 c Nc Sc) as Es.
    destruct (smod_facts c Nc Sc Hs') as [Ns [Zs [Es0 _]]].
    destruct Nc as [Nr Ni]. destruct Sc as [Sr Si].
    unfold cdpe_inv, cdpe_inv_gen, rdpe_inv_eq. unfold cesp in *. cbn [cre cim].
    set (sm := cdpe_smod c) in *. change (2 ^ 61) with 2305843009213693952 in Es0.
    assert (HE : LONG_MIN + 1 <= - esp sm <= LONG_MAX - 2) by (unfold LONG_MIN, LONG_MAX; lia).
    destruct (inv_rel_esp sm Ns Zs HE) as [Ne [_ [_ Ee]]].
    set (e := rdpe_inv sm) in *.
    assert (Le : esp_le e (2 ^ 62)) by (unfold esp_le; rewrite P62; lia).
    destruct (mul_rel_gen (cre c) e Nr Ne Sr Le) as [_ [_ E1]].
    destruct (normalised_neg (cim c) Ni) as [Nn [_ En]].
    assert (Sn : esp_small (rdpe_neg (cim c))) by (unfold esp_small in *; rewrite En; assumption).
    destruct (mul_rel_gen (rdpe_neg (cim c)) e Nn Ne Sn Le) as [_ [_ E2]]. rewrite En in E2.
    set (a1 := Z.abs (esp (cre c))) in *. set (a2 := Z.abs (esp (cim c))) in *.
    set (r1 := Z.abs (esp (rdpe_mul (cre c) e))) in *. set (r2 := Z.abs (esp (rdpe_mul (rdpe_neg (cim c)) e))) in *.
    assert (Ee' : Z.abs (esp e) <= Z.abs (esp sm) + 3) by lia.
    set (ae := Z.abs (esp e)) in *. set (asm := Z.abs (esp sm)) in *.
    clearbody a1 a2 r1 r2 ae asm. clear - E1 E2 Ee' Es. lia.
Qed.

(* ---- cdpe_pow_si / cdpe_pow_eq_si ------------------------------------------------------------------------------------------- *)
Theorem cpow_si_rel : forall c i, cnormalised c -> (i < 0 -> (m2 (cval c) <> 0)%R) ->
  Z.abs i * (3 * cesp c + 2200) <= 2 ^ 59 ->
  let n := Z.to_nat (Z.abs i) in
  cnormalised (cdpe_pow_si c i) /\
  crel (if i <? 0 then Gp g19 n + Gp g6 n + Gp g19 n * Gp g6 n else Gp g19 n)%R (cval (cdpe_pow_si c i)) (cpowRZ (cval c) i).
Proof.
  intros c i Nc Hz Hr n. unfold cdpe_pow_si, cdpe_pow_si_gen, cpowRZ.
  assert (P59 : 2 ^ 59 = 576460752303423488) by reflexivity. rewrite P59 in Hr.
  assert (C0 : 0 <= cesp c) by (unfold cesp; lia).
  destruct (i <? 0) eqn:Ineg.
  - assert (I1 : 1 <= - i) by lia. replace (Z.abs i) with (- i) in * by lia.
    assert (Ec : cesp c <= 2 ^ 60).
    { change (2 ^ 60) with 1152921504606846976.
      assert (1 * (3 * cesp c + 2200) <= - i * (3 * cesp c + 2200)) by (apply Z.mul_le_mono_nonneg_r; lia). lia. }
    destruct (cinv_step c Nc Ec (Hz ltac:(lia))) as [Nt [Rt Et]].
    change (cdpe_inv_gen rdpe_mul c) with (cdpe_inv c). set (t := cdpe_inv c) in *.
    assert (Hr' : - i * (cesp t + 1076) <= 2 ^ 59).
    { rewrite P59. assert (- i * (cesp t + 1076) <= - i * (3 * cesp c + 2200)) by (apply Z.mul_le_mono_nonneg_l; lia). lia. }
    destruct (cpow_pos_rel t (- i) Nt ltac:(lia) Hr') as [Nr [Rr _]].
    split; [assumption|].
    pose proof (cpow_rel_base g6 (cval t) (cinvR (cval c)) n Rt) as Rb.
    assert (Hn : Z.to_nat (- i) = n) by (unfold n; f_equal; lia).
    unfold cpowZ, GpZ in Rr. rewrite Hn in *.
    exact (crel_trans _ _ _ _ _ Rr Rb).
  - assert (I0 : 0 <= i) by lia. replace (Z.abs i) with i in * by lia.
    assert (Hr' : i * (cesp c + 1076) <= 2 ^ 59).
    { rewrite P59. assert (i * (cesp c + 1076) <= i * (3 * cesp c + 2200)) by (apply Z.mul_le_mono_nonneg_l; lia). lia. }
    destruct (cpow_pos_rel c i Nc I0 Hr') as [Nr [Rr _]].
    assert (Hn : Z.to_nat i = n) by (unfold n; f_equal; lia).
    split; [assumption|]. unfold cpowZ, GpZ in Rr. rewrite Hn in *. exact Rr.
Qed.

(* in ulps: g19 = 4.36 u per step for i >= 0; for i < 0, g19 + 6u + 6u g19 < 10.37 u per step *)
Definition g10 : R := (g19 + g6 + g19 * g6)%R.
Lemma g10_bound : (0 < g10 <= 1037 / 100 * u53)%R.
Proof.
  unfold g10, g19, g6. pose proof u53_pos as U. pose proof u53_tiny as T. split; [nra|].
  assert (436 / 100 * u53 * (6 * u53) <= 1 / 100 * u53)%R.
  { replace (436 / 100 * u53 * (6 * u53))%R with (u53 * (2616 / 100 * u53))%R by field.
    replace (1 / 100 * u53)%R with (u53 * (1 / 100))%R by field. apply Rmult_le_compat_l; lra. }
  lra.
Qed.

Theorem cpow_si_ulps : forall c i, cnormalised c -> (i < 0 -> (m2 (cval c) <> 0)%R) ->
  Z.abs i * (3 * cesp c + 2200) <= 2 ^ 59 -> 11 * (Z.abs i * (Z.abs i + 1)) <= 2 ^ 53 ->
  crel (IZR (Z.abs i + 1) * (if i <? 0 then 1037 / 100 * u53 else 436 / 100 * u53))%R
       (cval (cdpe_pow_si c i)) (cpowRZ (cval c) i).
Proof.
  intros c i Nc Hz Hr Hk. destruct (cpow_si_rel c i Nc Hz Hr) as [_ R]. cbv zeta in R.
  set (n := Z.to_nat (Z.abs i)) in *.
  assert (Hn : INR n = IZR (Z.abs i)) by (unfold n; rewrite INR_IZR_INZ, Z2Nat.id by lia; reflexivity).
  pose proof u53_pos as U.
  (* n (n + 1) * 11 u <= 1 *)
  assert (NN : (INR n * (INR n + 1) * (11 * u53) <= 1)%R).
  { rewrite Hn. replace (IZR (Z.abs i) + 1)%R with (IZR (Z.abs i + 1)) by (rewrite plus_IZR; reflexivity).
    rewrite <- mult_IZR. replace (IZR (Z.abs i * (Z.abs i + 1)) * (11 * u53))%R with (IZR (11 * (Z.abs i * (Z.abs i + 1))) * u53)%R
      by (rewrite (mult_IZR 11); ring).
    apply Rle_trans with (IZR (2 ^ 53) * u53)%R.
    - apply Rmult_le_compat_r; [lra|]. apply IZR_le. assumption.
    - unfold u53. change (IZR (2 ^ 53)) with (bpow radix2 53). rewrite <- bpow_plus. simpl. lra. }
  assert (Pn : (0 <= INR n * (INR n + 1))%R) by (pose proof (pos_INR n); nra).
  apply crel_weaken with (2 := R). rewrite plus_IZR, <- Hn.
  destruct (i <? 0).
  - destruct g10_bound as [G0 G1].
    replace (Gp g19 n + Gp g6 n + Gp g19 n * Gp g6 n)%R with (Gp g10 n).
    2:{ unfold Gp, g10. replace (1 + (g19 + g6 + g19 * g6))%R with ((1 + g19) * (1 + g6))%R by ring. rewrite Rpow_mult_distr. ring. }
    apply Rle_trans with ((INR n + 1) * g10)%R.
    + apply Gp_linear; [assumption|]. apply Rle_trans with (2 := NN).
      apply Rmult_le_compat_l; [assumption|]. lra.
    + apply Rmult_le_compat_l; [pose proof (pos_INR n); lra|assumption].
  - apply Gp_linear; [apply g19_pos|]. apply Rle_trans with (2 := NN).
    apply Rmult_le_compat_l; [assumption|]. unfold g19. lra.
Qed.

(* cdpe_pow_eq_si is the same loop on its own argument *)
