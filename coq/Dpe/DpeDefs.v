(* C12 -- DPE numbers: basic definitions of the executable model.
   rdpe_t = { double m; long e }  denotes  m * 2^e.
   The mantissa is an IEEE binary64 number (Flocq, single-NaN view), the exponent a
   mathematical integer on which every C `long` operation is written with an
   explicit two's complement wrap (wrap64) and every `(int)` cast with wrap32.
   Definitions only; no lemma lives here. *)
From Coq Require Import ZArith Bool Reals.
From Flocq Require Import Core BinarySingleNaN.
From Flocq Require Binary Bits.

Open Scope Z_scope.

(* ---- machine integers ------------------------------------------------- *)
Definition LONG_MAX : Z := 9223372036854775807.
Definition LONG_MIN : Z := -9223372036854775808.
Definition two64 : Z := 18446744073709551616.
Definition two63 : Z := 9223372036854775808.
Definition two32 : Z := 4294967296.
Definition two31 : Z := 2147483648.
Definition NBT : Z := 53.

(* result of a signed 64-bit operation as gcc/x86-64 computes it *)
Definition wrap64 (z : Z) : Z := (z + two63) mod two64 - two63.
(* (int) x for a long x (implementation-defined: reduction modulo 2^32) *)
Definition wrap32 (z : Z) : Z := (z + two31) mod two32 - two31.
Definition in_long (z : Z) : Prop := LONG_MIN <= z <= LONG_MAX.
Definition in_longb (z : Z) : bool := (LONG_MIN <=? z) && (z <=? LONG_MAX).

(* ---- binary64 --------------------------------------------------------- *)
Definition b64 := binary_float 53 1024.
Global Instance Hprec53 : Prec_gt_0 53 := eq_refl.
Global Instance Hmax1024 : Prec_lt_emax 53 1024 := eq_refl.

Definition fadd : b64 -> b64 -> b64 := Bplus mode_NE.
Definition fsub : b64 -> b64 -> b64 := Bminus mode_NE.
Definition fmul : b64 -> b64 -> b64 := Bmult mode_NE.
Definition fdiv : b64 -> b64 -> b64 := Bdiv mode_NE.
Definition fsqrt : b64 -> b64 := Bsqrt mode_NE.
Definition fneg : b64 -> b64 := Bopp.
(* ldexp (x, n) with n an int.  For |n| > 2200 the result is the one at +-2200 for every double
   (2^-1074 * 2^2200 overflows, DBL_MAX * 2^-2200 rounds to zero); clamping keeps the
   computation cheap for the huge n that (int) casts of wrapped exponents produce. *)
Definition fldexp (x : b64) (n : Z) : b64 := Bldexp mode_NE x (Z.max (-2200) (Z.min 2200 n)).

Definition fzero : b64 := B754_zero false.
Definition fhalf : b64 := @B754_finite 53 1024 false 4503599627370496 (-53) eq_refl.   (* 0.5 *)
Definition fone  : b64 := @B754_finite 53 1024 false 4503599627370496 (-52) eq_refl.   (* 1.0 *)
Definition ftwo  : b64 := @B754_finite 53 1024 false 4503599627370496 (-51) eq_refl.   (* 2.0 *)
Definition fmhalf : b64 := @B754_finite 53 1024 true 4503599627370496 (-53) eq_refl.   (* -0.5 *)
Definition fthreeq : b64 := @B754_finite 53 1024 false 6755399441055744 (-53) eq_refl.   (* 0.75 (examples) *)

(* C comparisons of a double with 0.0 (false on NaN) *)
Definition feq0 (x : b64) : bool := match x with B754_zero _ => true | _ => false end.
Definition fgt0 (x : b64) : bool := match Bcompare x fzero with Some Gt => true | _ => false end.
Definition flt0 (x : b64) : bool := match Bcompare x fzero with Some Lt => true | _ => false end.
Definition fle0 (x : b64) : bool := match Bcompare x fzero with Some Lt | Some Eq => true | _ => false end.
Definition fge0 (x : b64) : bool := match Bcompare x fzero with Some Gt | Some Eq => true | _ => false end.
(* x == y on doubles *)
Definition feq (x y : b64) : bool := match Bcompare x y with Some Eq => true | _ => false end.

(* frexp as glibc computes it: exponent 0 for 0, inf, NaN *)
Definition ffrexp (x : b64) : b64 * Z :=
  match x with
  | B754_finite _ _ _ _ => Bfrexp x
  | _ => (x, 0)
  end.

(* ---- bit patterns (the exchange format of the correspondence check) ---- *)
Definition of_bits (z : Z) : b64 := Binary.B2BSN 53 1024 (Bits.b64_of_bits z).
Definition to_bits (x : b64) : Z :=
  match x with
  | B754_nan => 9221120237041090560   (* 0x7ff8000000000000, canonical quiet NaN *)
  | B754_zero s => if s then two63 else 0
  | B754_infinity s => if s then 18442240474082181120 else 9218868437227405312
  | B754_finite s m e _ =>
      (* re-enter Flocq's encoder through a value known not to be NaN *)
      Bits.bits_of_b64 (Binary.BSN2B 53 1024 (exist _ (Binary.B754_nan 53 1024 false 1 eq_refl) eq_refl) x)
  end.

(* ---- the DPE record ---------------------------------------------------- *)
Record rdpe : Set := Rdpe { mnt : b64 ; esp : Z }.
Record cdpe : Set := Cdpe { cre : rdpe ; cim : rdpe }.

Definition rdpe_zero : rdpe := Rdpe fzero 0.
Definition rdpe_one : rdpe := Rdpe fhalf 1.
Definition RDPE_MAX : rdpe := Rdpe fhalf LONG_MAX.
Definition RDPE_MIN : rdpe := Rdpe fhalf LONG_MIN.
Definition cdpe_zero : cdpe := Cdpe rdpe_zero rdpe_zero.
Definition cdpe_one : cdpe := Cdpe rdpe_one rdpe_zero.

(* rdpe_Norm as it was: m = frexp (m, &i); if (m == 0.0) e = 0; else e += i;  (wraps) *)
Definition rdpe_norm_old (x : rdpe) : rdpe :=
  let (m', i) := ffrexp (mnt x) in
  if feq0 m' then Rdpe m' 0 else Rdpe m' (wrap64 (esp x + i)).

(* helper rdpe_set_esp (e, a, b, sub) of fixes/C12_rdpe_exponent_saturation.patch:
   Esp (e) = a + b or a - b for a number whose mantissa is set; zero mantissa -> exponent 0;
   out of the range of long -> mantissa +-1/2 (sign kept), exponent LONG_MAX / LONG_MIN *)
Definition rdpe_set_esp (x : rdpe) (a b : Z) (sub : bool) : rdpe :=
  if feq0 (mnt x) then Rdpe (mnt x) 0
  else
    let over := if sub then (b <? 0) && (LONG_MAX + b <? a) else (0 <? b) && (LONG_MAX - b <? a) in
    let under := if sub then (0 <? b) && (a <? LONG_MIN + b) else (b <? 0) && (a <? LONG_MIN - b) in
    if over || under
    then Rdpe (if flt0 (mnt x) then fmhalf else fhalf) (if over then LONG_MAX else LONG_MIN)
    else Rdpe (mnt x) (if sub then a - b else a + b).

(* helper rdpe_shift_esp (e, i, sub), i unsigned long: LONG_MAX-sized steps through rdpe_set_esp
   (at most two rounds of the while loop for i < 2^64) *)
Definition rdpe_shift_esp (x : rdpe) (i : Z) (sub : bool) : rdpe :=
  let step := fun y : rdpe => rdpe_set_esp y (esp y) LONG_MAX sub in
  if LONG_MAX <? i then
    let x1 := step x in
    let i1 := i - LONG_MAX in
    if LONG_MAX <? i1 then let x2 := step x1 in rdpe_set_esp x2 (esp x2) (i1 - LONG_MAX) sub
    else rdpe_set_esp x1 (esp x1) i1 sub
  else rdpe_set_esp x (esp x) i sub.

(* rdpe_Norm (fixed): m = frexp (m, &i); rdpe_set_esp (E, Esp (E), i, 0); *)
Definition rdpe_norm (x : rdpe) : rdpe :=
  let (m', i) := ffrexp (mnt x) in rdpe_set_esp (Rdpe m' (esp x)) (esp x) i false.
Definition cdpe_norm (c : cdpe) : cdpe := Cdpe (rdpe_norm (cre c)) (rdpe_norm (cim c)).

(* ---- denotation (used by the statements, not by the executable model) ------ *)
Definition rval (x : rdpe) : R := (B2R (mnt x) * bpow radix2 (esp x))%R.
(* normalised: finite mantissa, and either (0, 0) or 1/2 <= |m| < 1 *)
Definition normalised (x : rdpe) : Prop :=
  is_finite (mnt x) = true /\
  ((B2R (mnt x) = 0%R /\ esp x = 0) \/ (/2 <= Rabs (B2R (mnt x)) < 1)%R).
Definition nonzero (x : rdpe) : Prop := B2R (mnt x) <> 0%R.

(* ---- vocabulary of the error statements (specification level, not executed) -------------------------- *)
Definition u53 : R := bpow radix2 (-53).
(* |a - v| <= e |v| *)
Definition rel_e (e a v : R) : Prop := (Rabs (a - v) <= e * Rabs v)%R.
(* exponents for which no rdpe_Norm after one rounded mantissa operation can leave the range of long *)
Definition esp_mid (e : Z) : Prop := LONG_MIN + 1074 <= e <= LONG_MAX - 1024.
(* exponents for which no intermediate of a complex operation leaves the range of long *)
Definition esp_small (x : rdpe) : Prop := Z.abs (esp x) <= 2 ^ 60.
Definition cnormalised (c : cdpe) : Prop := normalised (cre c) /\ normalised (cim c).
Definition csmall (c : cdpe) : Prop := esp_small (cre c) /\ esp_small (cim c).
(* saturation of an exponent to the range of long *)
Definition clampl (z : Z) : Z := Z.max LONG_MIN (Z.min LONG_MAX z).
(* number of roundings that enter rdpe_pow_si (x, i): i products/squares; for i < 0 the inverse's rounding |i| times more *)
Definition pow_k (i : Z) : Z := if i <? 0 then 2 * - i else i.
