(* C12 -- lemmas about the DPE model (proofs). *)
From Coq Require Import ZArith Reals Bool Lia Lra Psatz ZifyBool.
From Flocq Require Import Core BinarySingleNaN Relative Sterbenz.
Require Import MPSV.Dpe.DpeDefs MPSV.Dpe.DpeModel.
Open Scope Z_scope.

Notation fexp64 := (SpecFloat.fexp 53 1024).
Notation rnd64 := (round radix2 fexp64 ZnearestE).

(* ---- machine integers ---------------------------------------------------------- *)
Lemma wrap64_id : forall z, in_long z -> wrap64 z = z.
Proof.
  intros z [H1 H2]. unfold wrap64, LONG_MIN, LONG_MAX, two63, two64 in *.
  rewrite Z.mod_small; lia.
Qed.

Lemma esp_distance_same : forall a, in_long a -> esp_distance a a = 0.
Proof.
  intros a [H1 H2]. unfold esp_distance.
  assert (E1 : (a <? 0) && (LONG_MAX + a <? a) = false) by (unfold LONG_MAX; lia).
  assert (E2 : (0 <? a) && (a <? LONG_MIN + a) = false) by (unfold LONG_MIN; lia).
  rewrite E1, E2. lia.
Qed.

(* ---- signs of binary64 values ---------------------------------------------------- *)
Lemma B2R_fzero : B2R fzero = 0%R. Proof. reflexivity. Qed.

Lemma fcmp0 : forall m : b64, is_finite m = true -> Bcompare m fzero = Some (Rcompare (B2R m) 0).
Proof. intros m Hm. rewrite (Bcompare_correct _ _ m fzero Hm eq_refl). reflexivity. Qed.

Lemma fgt0_spec : forall m : b64, is_finite m = true -> (fgt0 m = true <-> (0 < B2R m)%R).
Proof.
  intros m Hm. unfold fgt0. rewrite fcmp0 by assumption.
  destruct (Rcompare_spec (B2R m) 0); split; intro; try discriminate; try lra; reflexivity.
Qed.
Lemma flt0_spec : forall m : b64, is_finite m = true -> (flt0 m = true <-> (B2R m < 0)%R).
Proof.
  intros m Hm. unfold flt0. rewrite fcmp0 by assumption.
  destruct (Rcompare_spec (B2R m) 0); split; intro; try discriminate; try lra; reflexivity.
Qed.
Lemma fle0_spec : forall m : b64, is_finite m = true -> (fle0 m = true <-> (B2R m <= 0)%R).
Proof.
  intros m Hm. unfold fle0. rewrite fcmp0 by assumption.
  destruct (Rcompare_spec (B2R m) 0); split; intro; try discriminate; try lra; reflexivity.
Qed.
Lemma fge0_spec : forall m : b64, is_finite m = true -> (fge0 m = true <-> (0 <= B2R m)%R).
Proof.
  intros m Hm. unfold fge0. rewrite fcmp0 by assumption.
  destruct (Rcompare_spec (B2R m) 0); split; intro; try discriminate; try lra; reflexivity.
Qed.
Lemma feq0_spec : forall m : b64, is_finite m = true -> (feq0 m = true <-> B2R m = 0%R).
Proof.
  intros m Hm. destruct m as [s|s| |s mm e He]; try discriminate Hm.
  - split; reflexivity.
  - set (f := (B754_finite s mm e He : b64)). split; intro H; [discriminate H|]. exfalso.
    assert (Hs : is_finite_strict f = true) by reflexivity.
    pose proof (abs_B2R_ge_emin 53 1024 f Hs) as Hb. rewrite H, Rabs_R0 in Hb.
    pose proof (bpow_gt_0 radix2 (SpecFloat.emin 53 1024)). lra.
Qed.

(* ---- frexp ------------------------------------------------------------------------- *)
(* for a finite double: mantissa finite, same real, zero or in [1/2,1), exponent = mag *)
Lemma ffrexp_spec : forall m : b64, is_finite m = true ->
  let (z, i) := ffrexp m in
  is_finite z = true /\ (B2R m = B2R z * bpow radix2 i)%R /\
  ((B2R m = 0%R /\ B2R z = 0%R /\ i = 0 /\ feq0 z = true) \/
   (B2R m <> 0%R /\ (/2 <= Rabs (B2R z) < 1)%R /\ i = mag radix2 (B2R m) /\ feq0 z = false)).
Proof.
  intros m Hm. destruct m as [s|s| |s mm e He]; simpl in Hm; try discriminate.
  - simpl. repeat split; try reflexivity. simpl; ring. left. repeat split; reflexivity.
  - set (f := (B754_finite s mm e He : b64)).
    assert (Hs : is_finite_strict f = true) by reflexivity.
    pose proof (Bfrexp_correct 53 1024 _ f Hs) as H.
    change (ffrexp f) with (Bfrexp f). destruct (Bfrexp f) as [z i].
    destruct H as [H1 H2]. destruct (H2 eq_refl) as [H3 H4]. clear H2.
    assert (Hz : B2R z <> 0%R) by (intro Hz0; rewrite Hz0, Rabs_R0 in H3; lra).
    assert (Hfz : is_finite z = true).
    { destruct z; simpl in *; try reflexivity; exfalso; apply Hz; reflexivity. }
    repeat split; try assumption. right.
    assert (Hf : B2R f <> 0%R).
    { rewrite H1. apply Rmult_integral_contrapositive_currified; [assumption|].
      apply Rgt_not_eq, bpow_gt_0. }
    repeat split; try assumption; try tauto.
    destruct (feq0 z) eqn:E; [|reflexivity]. apply (feq0_spec z Hfz) in E. contradiction.
Qed.

(* ---- sign trichotomy with every boolean test decided --------------------------------- *)
Lemma sign_bools : forall m : b64, is_finite m = true ->
  ((0 < B2R m)%R /\ fgt0 m = true /\ flt0 m = false /\ feq0 m = false /\ fle0 m = false /\ fge0 m = true) \/
  ((B2R m < 0)%R /\ fgt0 m = false /\ flt0 m = true /\ feq0 m = false /\ fle0 m = true /\ fge0 m = false) \/
  ((B2R m = 0)%R /\ fgt0 m = false /\ flt0 m = false /\ feq0 m = true /\ fle0 m = true /\ fge0 m = true).
Proof.
  intros m Hm.
  pose proof (fgt0_spec m Hm) as G. pose proof (flt0_spec m Hm) as L. pose proof (feq0_spec m Hm) as Q.
  pose proof (fle0_spec m Hm) as LE. pose proof (fge0_spec m Hm) as GE.
  assert (T : forall (b : bool) (P : Prop), (b = true <-> P) -> ~ P -> b = false).
  { intros b P HbP HnP. destruct b; [exfalso; apply HnP, HbP; reflexivity | reflexivity]. }
  destruct (Rtotal_order (B2R m) 0) as [S|[S|S]].
  - right; left. split; [assumption|]. repeat split.
    + apply (T _ _ G); lra.
    + apply L; assumption.
    + apply (T _ _ Q); lra.
    + apply LE; lra.
    + apply (T _ _ GE); lra.
  - right; right. split; [assumption|]. repeat split.
    + apply (T _ _ G); lra.
    + apply (T _ _ L); lra.
    + apply Q; assumption.
    + apply LE; lra.
    + apply GE; lra.
  - left. split; [assumption|]. repeat split.
    + apply G; assumption.
    + apply (T _ _ L); lra.
    + apply (T _ _ Q); lra.
    + apply (T _ _ LE); lra.
    + apply GE; lra.
Qed.

Lemma B2R_fhalf : B2R fhalf = (/2)%R.
Proof. unfold fhalf, B2R, F2R; simpl. unfold Z.pow_pos; simpl. lra. Qed.
Lemma B2R_fmhalf : B2R fmhalf = (-/2)%R.
Proof. unfold fmhalf, B2R, F2R; simpl. unfold Z.pow_pos; simpl. lra. Qed.

(* ---- rdpe_set_esp / rdpe_Norm ------------------------------------------------------------ *)
(* in range: the exponent is the exact sum / difference, the mantissa is untouched *)
Lemma set_esp_exact : forall (m : b64) (e0 a b : Z) (sub : bool),
  feq0 m = false -> in_long (if sub then a - b else a + b) ->
  rdpe_set_esp (Rdpe m e0) a b sub = Rdpe m (if sub then a - b else a + b).
Proof.
  intros m e0 a b sub Hm [H1 H2]. unfold rdpe_set_esp. simpl mnt. rewrite Hm.
  destruct sub.
  - assert (E1 : (b <? 0) && (LONG_MAX + b <? a) = false) by (unfold LONG_MAX in *; lia).
    assert (E2 : (0 <? b) && (a <? LONG_MIN + b) = false) by (unfold LONG_MIN in *; lia).
    rewrite E1, E2. reflexivity.
  - assert (E1 : (0 <? b) && (LONG_MAX - b <? a) = false) by (unfold LONG_MAX in *; lia).
    assert (E2 : (b <? 0) && (a <? LONG_MIN - b) = false) by (unfold LONG_MIN in *; lia).
    rewrite E1, E2. reflexivity.
Qed.

(* the mantissa after rdpe_set_esp: finite, same sign (no hypothesis on the exponents) *)
Lemma set_esp_sign : forall (m : b64) (e0 a b : Z) (sub : bool),
  is_finite m = true -> B2R m <> 0%R ->
  let r := rdpe_set_esp (Rdpe m e0) a b sub in
  is_finite (mnt r) = true /\
  ((0 < B2R (mnt r))%R <-> (0 < B2R m)%R) /\ ((B2R (mnt r) < 0)%R <-> (B2R m < 0)%R) /\
  (Rabs (B2R (mnt r)) = Rabs (B2R m) \/ Rabs (B2R (mnt r)) = (/2)%R).
Proof.
  intros m e0 a b sub Fm Nm r. unfold r, rdpe_set_esp. change (mnt (Rdpe m e0)) with m.
  destruct (feq0 m) eqn:Q. { apply (feq0_spec m Fm) in Q. contradiction. }
  match goal with |- context [if ?c then Rdpe _ _ else Rdpe _ _] => destruct c end; cbn [mnt].
  - destruct (sign_bools m Fm) as [[S [_ [L _]]]|[[S [_ [L _]]]|[S _]]]; try contradiction; rewrite L.
    + rewrite B2R_fhalf. split; [reflexivity|]. split; [split; intro; lra|]. split; [split; intro; lra|].
      right. rewrite Rabs_pos_eq; lra.
    + rewrite B2R_fmhalf. split; [reflexivity|]. split; [split; intro; lra|]. split; [split; intro; lra|].
      right. rewrite Rabs_left; lra.
  - split; [assumption|]. split; [tauto|]. split; [tauto|]. left; reflexivity.
Qed.

(* saturation: with operands in the range of long the exponent never wraps; out of range the result is
   +-1/2 (sign kept) at LONG_MAX (overflow) or LONG_MIN (underflow), in range it is exact *)
Lemma set_esp_saturates : forall (m : b64) (e0 a b : Z) (sub : bool),
  is_finite m = true -> B2R m <> 0%R -> in_long a -> in_long b ->
  let s := if sub then a - b else a + b in
  let r := rdpe_set_esp (Rdpe m e0) a b sub in
  in_long (esp r) /\
  (in_long s -> r = Rdpe m s) /\
  (LONG_MAX < s -> r = Rdpe (if flt0 m then fmhalf else fhalf) LONG_MAX) /\
  (s < LONG_MIN -> r = Rdpe (if flt0 m then fmhalf else fhalf) LONG_MIN).
Proof.
  intros m e0 a b sub Fm Nm [A1 A2] [B1 B2] s r.
  assert (Q : feq0 m = false).
  { destruct (feq0 m) eqn:E; [|reflexivity]. apply (feq0_spec m Fm) in E. contradiction. }
  assert (Hin : in_long s -> r = Rdpe m s) by (intro Hs; apply set_esp_exact; assumption).
  assert (Hov : LONG_MAX < s -> r = Rdpe (if flt0 m then fmhalf else fhalf) LONG_MAX).
  { intro H. unfold r, rdpe_set_esp. simpl mnt. rewrite Q. unfold s in H. destruct sub.
    + assert (E1 : (b <? 0) && (LONG_MAX + b <? a) = true) by (unfold LONG_MAX, LONG_MIN in *; lia).
      rewrite E1. reflexivity.
    + assert (E1 : (0 <? b) && (LONG_MAX - b <? a) = true) by (unfold LONG_MAX, LONG_MIN in *; lia).
      rewrite E1. reflexivity. }
  assert (Hun : s < LONG_MIN -> r = Rdpe (if flt0 m then fmhalf else fhalf) LONG_MIN).
  { intro H. unfold r, rdpe_set_esp. simpl mnt. rewrite Q. unfold s in H. destruct sub.
    * assert (E1 : (b <? 0) && (LONG_MAX + b <? a) = false) by (unfold LONG_MAX, LONG_MIN in *; lia).
      assert (E2 : (0 <? b) && (a <? LONG_MIN + b) = true) by (unfold LONG_MAX, LONG_MIN in *; lia).
      rewrite E1, E2. reflexivity.
    * assert (E1 : (0 <? b) && (LONG_MAX - b <? a) = false) by (unfold LONG_MAX, LONG_MIN in *; lia).
      assert (E2 : (b <? 0) && (a <? LONG_MIN - b) = true) by (unfold LONG_MAX, LONG_MIN in *; lia).
      rewrite E1, E2. reflexivity. }
  repeat split; try assumption.
  - destruct (Z_lt_le_dec LONG_MAX s) as [H|H]; [rewrite (Hov H); simpl; unfold LONG_MAX, LONG_MIN; lia|].
    destruct (Z_lt_le_dec s LONG_MIN) as [H'|H']; [rewrite (Hun H'); simpl; unfold LONG_MAX, LONG_MIN; lia|].
    rewrite (Hin (conj H' H)). simpl. exact H'.
  - destruct (Z_lt_le_dec LONG_MAX s) as [H|H]; [rewrite (Hov H); simpl; unfold LONG_MAX, LONG_MIN; lia|].
    destruct (Z_lt_le_dec s LONG_MIN) as [H'|H']; [rewrite (Hun H'); simpl; unfold LONG_MAX, LONG_MIN; lia|].
    rewrite (Hin (conj H' H)). simpl. exact H.
Qed.

Lemma norm_exact : forall (m : b64) (e : Z),
  is_finite m = true -> in_long (e + snd (ffrexp m)) ->
  normalised (rdpe_norm (Rdpe m e)) /\ rval (rdpe_norm (Rdpe m e)) = rval (Rdpe m e).
Proof.
  intros m e Hm Hl. unfold rdpe_norm. cbn [mnt esp].
  pose proof (ffrexp_spec m Hm) as H. destruct (ffrexp m) as [z i]. simpl in Hl.
  destruct H as [Hz [Hv [[H0 [Hz0 [Hi Hq]]]|[Hn [Hb [Hi Hq]]]]]].
  - unfold rdpe_set_esp. cbn [mnt]. rewrite Hq.
    split. split; [assumption|]. left; split; [assumption|reflexivity].
    unfold rval; simpl. rewrite Hz0, H0. ring.
  - rewrite (set_esp_exact z e e i false Hq Hl). split. split; [assumption|]. right; assumption.
    unfold rval; simpl. rewrite Hv, bpow_plus. ring.
Qed.

(* mantissa of the normalised result: finite, same sign as the input mantissa (also when saturating) *)
Lemma norm_mnt_sign : forall (m : b64) (e : Z), is_finite m = true ->
  is_finite (mnt (rdpe_norm (Rdpe m e))) = true /\
  ((0 < B2R (mnt (rdpe_norm (Rdpe m e))))%R <-> (0 < B2R m)%R) /\
  ((B2R (mnt (rdpe_norm (Rdpe m e))) < 0)%R <-> (B2R m < 0)%R).
Proof.
  intros m e Hm. unfold rdpe_norm. cbn [mnt esp].
  pose proof (ffrexp_spec m Hm) as H. destruct (ffrexp m) as [z i].
  destruct H as [Hz [Hv Hc]].
  assert (Hp := bpow_gt_0 radix2 i).
  assert (S1 : (0 < B2R z)%R <-> (0 < B2R m)%R) by (rewrite Hv; split; intro; nra).
  assert (S2 : (B2R z < 0)%R <-> (B2R m < 0)%R) by (rewrite Hv; split; intro; nra).
  destruct Hc as [[H0 [Hz0 [Hi Hq]]]|[Hn [Hb [Hi Hq]]]].
  - unfold rdpe_set_esp. cbn [mnt]. rewrite Hq. cbn [mnt]. repeat split; try assumption; tauto.
  - assert (Nz : B2R z <> 0%R) by (intro K; rewrite K, Rabs_R0 in Hb; lra).
    destruct (set_esp_sign z e e i false Hz Nz) as [F [P [N _]]].
    repeat split; try assumption; tauto.
Qed.

(* ---- magnitude of normalised values ---------------------------------------------------- *)
Lemma rval_bounds : forall x, normalised x -> nonzero x ->
  (bpow radix2 (esp x - 1) <= Rabs (rval x) < bpow radix2 (esp x))%R.
Proof.
  intros x [Hf [[H0 _]|Hb]] Hn; [contradiction|].
  unfold rval. rewrite Rabs_mult, (Rabs_pos_eq (bpow radix2 (esp x))) by apply bpow_ge_0.
  assert (Hp := bpow_gt_0 radix2 (esp x)).
  replace (bpow radix2 (esp x - 1)) with (/2 * bpow radix2 (esp x))%R.
  2:{ unfold Z.sub. rewrite bpow_plus. simpl. unfold Z.pow_pos; simpl. lra. }
  split. apply Rmult_le_compat_r; lra. 
  rewrite <- (Rmult_1_l (bpow radix2 (esp x))) at 2. apply Rmult_lt_compat_r; lra.
Qed.

Lemma rval_sign_pos : forall x, (0 < B2R (mnt x))%R -> (0 < rval x)%R.
Proof. intros x H. unfold rval. apply Rmult_lt_0_compat; [assumption|apply bpow_gt_0]. Qed.
Lemma rval_sign_neg : forall x, (B2R (mnt x) < 0)%R -> (rval x < 0)%R.
Proof.
  intros x H. unfold rval. assert (Hp := bpow_gt_0 radix2 (esp x)). nra.
Qed.
Lemma rval_sign_zero : forall x, (B2R (mnt x) = 0)%R -> (rval x = 0)%R.
Proof. intros x H. unfold rval. rewrite H. ring. Qed.

(* larger exponent wins in magnitude *)
Lemma rval_abs_lt : forall x y, normalised x -> normalised y -> nonzero x -> nonzero y ->
  esp y < esp x -> (Rabs (rval y) < Rabs (rval x))%R.
Proof.
  intros x y Nx Ny Zx Zy He.
  pose proof (rval_bounds x Nx Zx) as [Bx _]. pose proof (rval_bounds y Ny Zy) as [_ By].
  apply Rlt_le_trans with (1 := By). apply Rle_trans with (2 := Bx). apply bpow_le. lia.
Qed.

(* ---- sign of the difference computed by rdpe_sub, in the cases the ordering operators use -- *)
Lemma fsub_same_binade : forall mx my : b64,
  is_finite mx = true -> is_finite my = true ->
  (/2 <= Rabs (B2R mx) < 1)%R -> (/2 <= Rabs (B2R my) < 1)%R ->
  ((0 < B2R mx)%R /\ (0 < B2R my)%R \/ (B2R mx < 0)%R /\ (B2R my < 0)%R) ->
  is_finite (fsub mx my) = true /\ B2R (fsub mx my) = (B2R mx - B2R my)%R.
Proof.
  intros mx my Fx Fy Bx By Hs.
  pose proof (Bminus_correct 53 1024 _ _ mode_NE mx my Fx Fy) as HB.
  change (round_mode mode_NE) with ZnearestE in HB.
  assert (Hfmt : generic_format radix2 fexp64 (B2R mx - B2R my)).
  { destruct Hs as [[Px Py]|[Px Py]].
    - rewrite Rabs_pos_eq in Bx, By by lra.
      apply sterbenz; try typeclasses eauto; try apply generic_format_B2R. lra.
    - rewrite Rabs_left in Bx, By by lra.
      replace (B2R mx - B2R my)%R with (- ((- B2R mx) - (- B2R my)))%R by ring.
      apply generic_format_opp.
      apply sterbenz; try typeclasses eauto; try (apply generic_format_opp; apply generic_format_B2R). lra. }
  rewrite round_generic in HB; try typeclasses eauto; try assumption.
  rewrite Rlt_bool_true in HB.
  - destruct HB as [H1 [H2 _]]. split; assumption.
  - apply Rlt_trans with 1%R.
    + destruct Hs as [[Px Py]|[Px Py]].
      * rewrite Rabs_pos_eq in Bx, By by lra. apply Rabs_def1; lra.
      * rewrite Rabs_left in Bx, By by lra. apply Rabs_def1; lra.
    + change 1%R with (bpow radix2 0). apply bpow_lt. lia.
Qed.

Definition sub_sign_ok (x y : rdpe) : Prop :=
  let t := mnt (rdpe_sub x y) in
  is_finite t = true /\
  ((0 < B2R t)%R <-> (rval y < rval x)%R) /\ ((B2R t < 0)%R <-> (rval x < rval y)%R).

Lemma sub_sign_zero_r : forall x y, normalised x -> normalised y -> B2R (mnt y) = 0%R -> sub_sign_ok x y.
Proof.
  intros x y [Fx _] [Fy _] Hy. unfold sub_sign_ok, rdpe_sub, rdpe_sub_gen.
  rewrite (proj2 (feq0_spec _ Fy) Hy). rewrite (rval_sign_zero y Hy).
  split; [assumption|]. unfold rval. assert (Hp := bpow_gt_0 radix2 (esp x)). split; split; intro H; nra.
Qed.

Lemma sub_sign_zero_l : forall x y, normalised x -> normalised y ->
  B2R (mnt x) = 0%R -> B2R (mnt y) <> 0%R -> sub_sign_ok x y.
Proof.
  intros x y [Fx _] [Fy _] Hx Hy. unfold sub_sign_ok, rdpe_sub, rdpe_sub_gen.
  destruct (feq0 (mnt y)) eqn:Ey. { apply (feq0_spec _ Fy) in Ey. contradiction. }
  rewrite (proj2 (feq0_spec _ Fx) Hx). simpl mnt. unfold fneg. rewrite B2R_Bopp, is_finite_Bopp.
  rewrite (rval_sign_zero x Hx).
  split; [assumption|]. unfold rval. assert (Hp := bpow_gt_0 radix2 (esp y)). split; split; intro H; nra.
Qed.

Lemma sub_sign_same_exp : forall x y, normalised x -> normalised y -> in_long (esp x) ->
  esp x = esp y ->
  ((0 < B2R (mnt x))%R /\ (0 < B2R (mnt y))%R \/ (B2R (mnt x) < 0)%R /\ (B2R (mnt y) < 0)%R) ->
  sub_sign_ok x y.
Proof.
  intros x y [Fx Nx] [Fy Ny] Lx He Hs. unfold sub_sign_ok, rdpe_sub, rdpe_sub_gen.
  destruct (feq0 (mnt y)) eqn:Ey. { apply (feq0_spec _ Fy) in Ey. lra. }
  destruct (feq0 (mnt x)) eqn:Ex. { apply (feq0_spec _ Fx) in Ex. lra. }
  rewrite <- He, (esp_distance_same _ Lx). simpl.
  destruct Nx as [[Nx _]|Nx]; [lra|]. destruct Ny as [[Ny _]|Ny]; [lra|].
  destruct (fsub_same_binade _ _ Fx Fy Nx Ny Hs) as [Ft Vt].
  destruct (norm_mnt_sign (fsub (mnt x) (mnt y)) (esp x) Ft) as [F1 [S1 S2]].
  split; [assumption|]. rewrite S1, S2, Vt. unfold rval. rewrite <- He.
  assert (Hp := bpow_gt_0 radix2 (esp x)). split; split; intro H; nra.
Qed.

(* ---- the ordering operators (fixed code) agree with the order of the reals --------------- *)
Definition ord_R (o : ordop) (a b : R) : Prop :=
  match o with OLt => (a < b)%R | OLe => (a <= b)%R | OGt => (a > b)%R | OGe => (a >= b)%R end.

Lemma ord_final_spec : forall o x y, sub_sign_ok x y ->
  (ord_final o (mnt (rdpe_sub x y)) = true <-> ord_R o (rval x) (rval y)).
Proof.
  intros o x y [Ft [Sp Sn]]. unfold ord_final, ord_R.
  pose proof (flt0_spec _ Ft). pose proof (fle0_spec _ Ft). pose proof (fgt0_spec _ Ft). pose proof (fge0_spec _ Ft).
  destruct o.
  - rewrite H. tauto.
  - rewrite H0. split; intro K.
    + destruct (Rle_or_lt (rval x) (rval y)); [assumption|]. apply Sp in H3. lra.
    + destruct (Rle_or_lt (B2R (mnt (rdpe_sub x y))) 0); [assumption|]. apply Sp in H3. lra.
  - rewrite H1. tauto.
  - rewrite H2. split; intro K.
    + destruct (Rle_or_lt (rval y) (rval x)); [lra|]. apply Sn in H3. lra.
    + destruct (Rle_or_lt 0 (B2R (mnt (rdpe_sub x y)))); [assumption|]. apply Sn in H3. lra.
Qed.

Lemma order_correct : forall o x y,
  normalised x -> normalised y -> in_long (esp x) -> in_long (esp y) ->
  (rdpe_ord o x y = true <-> ord_R o (rval x) (rval y)).
Proof.
  intros o x y Nx Ny Lx Ly.
  assert (Fx := proj1 Nx). assert (Fy := proj1 Ny).
  unfold rdpe_ord.
  destruct (sign_bools _ Fx) as [[Sx [A1 [A2 [A3 [A4 A5]]]]]|[[Sx [A1 [A2 [A3 [A4 A5]]]]]|[Sx [A1 [A2 [A3 [A4 A5]]]]]]];
  destruct (sign_bools _ Fy) as [[Sy [B1 [B2 [B3 [B4 B5]]]]]|[[Sy [B1 [B2 [B3 [B4 B5]]]]]|[Sy [B1 [B2 [B3 [B4 B5]]]]]]];
  rewrite ?A1, ?A2, ?A3, ?B1, ?B2, ?B3; simpl.
  - (* + + *)
    assert (Zx : nonzero x) by (unfold nonzero; lra). assert (Zy : nonzero y) by (unfold nonzero; lra).
    pose proof (rval_sign_pos x Sx). pose proof (rval_sign_pos y Sy).
    destruct (esp y <? esp x) eqn:E1; [|destruct (esp x <? esp y) eqn:E2].
    + pose proof (rval_abs_lt x y Nx Ny Zx Zy (proj1 (Z.ltb_lt _ _) E1)) as K. rewrite !Rabs_pos_eq in K by lra.
      destruct o; simpl; rewrite ?A1, ?A2; split; intro; try discriminate; try reflexivity; unfold ord_R in *; lra.
    + pose proof (rval_abs_lt y x Ny Nx Zy Zx (proj1 (Z.ltb_lt _ _) E2)) as K. rewrite !Rabs_pos_eq in K by lra.
      destruct o; simpl; rewrite ?A1, ?A2; split; intro; try discriminate; try reflexivity; unfold ord_R in *; lra.
    + apply ord_final_spec. apply sub_sign_same_exp; try assumption. apply Z.le_antisymm; apply Z.ltb_ge; assumption. left; split; assumption.
  - (* + - *)
    pose proof (rval_sign_pos x Sx). pose proof (rval_sign_neg y Sy).
    destruct o; simpl; split; intro; try discriminate; try reflexivity; unfold ord_R in *; lra.
  - (* + 0 *)
    apply ord_final_spec. apply sub_sign_zero_r; assumption.
  - (* - + *)
    pose proof (rval_sign_neg x Sx). pose proof (rval_sign_pos y Sy).
    destruct o; simpl; split; intro; try discriminate; try reflexivity; unfold ord_R in *; lra.
  - (* - - *)
    assert (Zx : nonzero x) by (unfold nonzero; lra). assert (Zy : nonzero y) by (unfold nonzero; lra).
    pose proof (rval_sign_neg x Sx). pose proof (rval_sign_neg y Sy).
    destruct (esp y <? esp x) eqn:E1; [|destruct (esp x <? esp y) eqn:E2].
    + pose proof (rval_abs_lt x y Nx Ny Zx Zy (proj1 (Z.ltb_lt _ _) E1)) as K. rewrite !Rabs_left in K by lra.
      destruct o; simpl; rewrite ?A1, ?A2; split; intro; try discriminate; try reflexivity; unfold ord_R in *; lra.
    + pose proof (rval_abs_lt y x Ny Nx Zy Zx (proj1 (Z.ltb_lt _ _) E2)) as K. rewrite !Rabs_left in K by lra.
      destruct o; simpl; rewrite ?A1, ?A2; split; intro; try discriminate; try reflexivity; unfold ord_R in *; lra.
    + apply ord_final_spec. apply sub_sign_same_exp; try assumption. apply Z.le_antisymm; apply Z.ltb_ge; assumption. right; split; assumption.
  - (* - 0 *)
    apply ord_final_spec. apply sub_sign_zero_r; assumption.
  - (* 0 + *)
    apply ord_final_spec. apply sub_sign_zero_l; try assumption. lra.
  - (* 0 - *)
    apply ord_final_spec. apply sub_sign_zero_l; try assumption. lra.
  - (* 0 0 *)
    apply ord_final_spec. apply sub_sign_zero_r; assumption.
Qed.

(* ---- refutations of the code as it was (witnesses by computation) ------------------------- *)
Lemma order_unfixed_refuted :
  rdpe_lt_old (Rdpe fhalf 1) (Rdpe fmhalf 1) = true /\        (* 1 < -1 *)
  rdpe_lt_old (Rdpe fmhalf 3) (Rdpe fmhalf 1) = false.        (* -4 < -1 *)
Proof. split; vm_compute; reflexivity. Qed.

(* ---- relative error of (one rounded mantissa operation) followed by rdpe_Norm ----------------- *)
Lemma fmt_quarter : generic_format radix2 fexp64 (/4).
Proof. change (/4)%R with (bpow radix2 (-2)). apply generic_format_bpow. vm_compute. discriminate. Qed.
Lemma fmt_two : generic_format radix2 fexp64 2.
Proof. change 2%R with (bpow radix2 1). apply generic_format_bpow. vm_compute. discriminate. Qed.

Lemma rnd_bounds : forall r, (/4 <= Rabs r <= 2)%R ->
  (/4 <= Rabs (rnd64 r) <= 2)%R /\ (Rabs (rnd64 r) < bpow radix2 1024)%R /\
  (Rabs (rnd64 r - r) <= bpow radix2 (-53) * Rabs r)%R.
Proof.
  intros r [H1 H2]. split; [split|split].
  - apply abs_round_ge_generic; try typeclasses eauto. apply fmt_quarter. assumption.
  - apply abs_round_le_generic; try typeclasses eauto. apply fmt_two. assumption.
  - apply Rle_lt_trans with 2%R.
    apply abs_round_le_generic; try typeclasses eauto. apply fmt_two. assumption.
    change 2%R with (bpow radix2 1). apply bpow_lt. lia.
  - change fexp64 with (FLT_exp (-1074) 53).
    replace (bpow radix2 (-53)) with (/2 * bpow radix2 (-53 + 1))%R.
    2:{ rewrite bpow_plus. simpl. unfold Z.pow_pos; simpl. field. }
    apply relative_error_N_FLT. lia.
    apply Rle_trans with (2 := H1). change (/4)%R with (bpow radix2 (-2)). apply bpow_le. lia.
Qed.

Lemma norm_round_rel : forall (f : b64) (r : R) (E : Z),
  is_finite f = true -> B2R f = rnd64 r -> (/4 <= Rabs r <= 2)%R ->
  LONG_MIN + 1 <= E <= LONG_MAX - 2 ->
  normalised (rdpe_norm (Rdpe f E)) /\
  (Rabs (rval (rdpe_norm (Rdpe f E)) - r * bpow radix2 E) <= bpow radix2 (-53) * Rabs (r * bpow radix2 E))%R.
Proof.
  intros f r E Hf Hr Hb HE.
  destruct (rnd_bounds r Hb) as [[B1 B2] [_ B3]].
  assert (Hl : in_long (E + snd (ffrexp f))).
  { pose proof (ffrexp_spec f Hf) as S. destruct (ffrexp f) as [z i]. simpl.
    destruct S as [_ [_ [[H0 _]|[Hn [_ [Hi _]]]]]].
    - rewrite Hr in H0. rewrite H0, Rabs_R0 in B1. lra.
    - assert (-2 < i).
      { rewrite Hi. apply mag_gt_bpow. rewrite Hr. change (bpow radix2 (-2)) with (/4)%R. assumption. }
      assert (i <= 2).
      { rewrite Hi. apply mag_le_bpow. assumption. rewrite Hr.
        apply Rle_lt_trans with (1 := B2). change 2%R with (bpow radix2 1). apply bpow_lt. lia. }
      unfold in_long, LONG_MIN, LONG_MAX in *. lia. }
  destruct (norm_exact f E Hf Hl) as [N V]. split; [assumption|].
  rewrite V. unfold rval; simpl. rewrite Hr.
  replace (rnd64 r * bpow radix2 E - r * bpow radix2 E)%R with ((rnd64 r - r) * bpow radix2 E)%R by ring.
  rewrite !Rabs_mult, (Rabs_pos_eq (bpow radix2 E)) by apply bpow_ge_0.
  rewrite <- Rmult_assoc. apply Rmult_le_compat_r. apply bpow_ge_0. assumption.
Qed.

Lemma normalised_bounds : forall x, normalised x -> nonzero x -> (/2 <= Rabs (B2R (mnt x)) < 1)%R.
Proof. intros x [_ [[H _]|H]] Hn; [contradiction|assumption]. Qed.

(* rdpe_mul *)
Lemma mul_rel : forall x y, normalised x -> normalised y -> nonzero x -> nonzero y ->
  LONG_MIN + 1 <= esp x + esp y <= LONG_MAX - 2 ->
  normalised (rdpe_mul x y) /\
  (Rabs (rval (rdpe_mul x y) - rval x * rval y) <= bpow radix2 (-53) * Rabs (rval x * rval y))%R.
Proof.
  intros x y Nx Ny Zx Zy HE.
  pose proof (normalised_bounds x Nx Zx) as Bx. pose proof (normalised_bounds y Ny Zy) as By.
  unfold rdpe_mul, mul_ovf, mul_unf.
  replace ((0 <=? esp x) && (LONG_MAX - esp x <=? esp y)) with false by (unfold LONG_MAX, LONG_MIN in *; lia).
  replace ((esp x <=? 0) && (esp y <=? LONG_MIN - esp x)) with false by (unfold LONG_MAX, LONG_MIN in *; lia).
  rewrite wrap64_id by (unfold in_long, LONG_MAX, LONG_MIN in *; lia).
  set (r := (B2R (mnt x) * B2R (mnt y))%R).
  assert (Hb : (/4 <= Rabs r <= 2)%R).
  { unfold r. rewrite Rabs_mult. split.
    - replace (/4)%R with (/2 * /2)%R by field. apply Rmult_le_compat; lra.
    - apply Rle_trans with (1 * 1)%R; [|lra]. apply Rmult_le_compat; try apply Rabs_pos; lra. }
  destruct (rnd_bounds r Hb) as [_ [Hov _]].
  pose proof (Bmult_correct 53 1024 _ _ mode_NE (mnt x) (mnt y)) as HB.
  change (round_mode mode_NE) with ZnearestE in HB. fold r in HB.
  rewrite Rlt_bool_true in HB by assumption. destruct HB as [H1 [H2 _]].
  rewrite (proj1 Nx), (proj1 Ny) in H2.
  replace (rval x * rval y)%R with (r * bpow radix2 (esp x + esp y))%R
    by (unfold rval, r; rewrite bpow_plus; ring).
  apply norm_round_rel; assumption.
Qed.

Lemma feq0_false_rnd : forall (f : b64) (r : R), is_finite f = true -> B2R f = rnd64 r ->
  (/4 <= Rabs r <= 2)%R -> feq0 f = false /\ B2R f <> 0%R.
Proof.
  intros f r Hf Hr Hb. destruct (rnd_bounds r Hb) as [[B1 _] _].
  assert (N : B2R f <> 0%R) by (intro K; rewrite Hr in K; rewrite K, Rabs_R0 in B1; lra).
  split; [|assumption]. destruct (feq0 f) eqn:E; [|reflexivity]. apply (feq0_spec f Hf) in E. contradiction.
Qed.

(* rdpe_sqr *)
Lemma sqr_rel : forall x, normalised x -> nonzero x ->
  LONG_MIN + 1 <= esp x + esp x <= LONG_MAX - 2 ->
  normalised (rdpe_sqr x) /\
  (Rabs (rval (rdpe_sqr x) - rval x * rval x) <= bpow radix2 (-53) * Rabs (rval x * rval x))%R.
Proof.
  intros x Nx Zx HE.
  pose proof (normalised_bounds x Nx Zx) as Bx.
  unfold rdpe_sqr.
  set (r := (B2R (mnt x) * B2R (mnt x))%R).
  assert (Hb : (/4 <= Rabs r <= 2)%R).
  { unfold r. rewrite Rabs_mult. split.
    - replace (/4)%R with (/2 * /2)%R by field. apply Rmult_le_compat; lra.
    - apply Rle_trans with (1 * 1)%R; [|lra]. apply Rmult_le_compat; try apply Rabs_pos; lra. }
  destruct (rnd_bounds r Hb) as [_ [Hov _]].
  pose proof (Bmult_correct 53 1024 _ _ mode_NE (mnt x) (mnt x)) as HB.
  change (round_mode mode_NE) with ZnearestE in HB. fold r in HB.
  rewrite Rlt_bool_true in HB by assumption. destruct HB as [H1 [H2 _]].
  rewrite (proj1 Nx) in H2. simpl in H2.
  destruct (feq0_false_rnd _ r H2 H1 Hb) as [Q _].
  rewrite (set_esp_exact (fmul (mnt x) (mnt x)) (esp x) (esp x) (esp x) false Q)
    by (unfold in_long, LONG_MAX, LONG_MIN in *; lia).
  replace (rval x * rval x)%R with (r * bpow radix2 (esp x + esp x))%R
    by (unfold rval, r; rewrite bpow_plus; ring).
  apply norm_round_rel; assumption.
Qed.

(* rdpe_div *)
Lemma div_rel : forall x y, normalised x -> normalised y -> nonzero x -> nonzero y ->
  LONG_MIN + 1 <= esp x - esp y <= LONG_MAX - 2 ->
  normalised (rdpe_div x y) /\
  (Rabs (rval (rdpe_div x y) - rval x / rval y) <= bpow radix2 (-53) * Rabs (rval x / rval y))%R.
Proof.
  intros x y Nx Ny Zx Zy HE.
  pose proof (normalised_bounds x Nx Zx) as Bx. pose proof (normalised_bounds y Ny Zy) as By.
  unfold rdpe_div.
  set (r := (B2R (mnt x) / B2R (mnt y))%R).
  assert (Hb : (/4 <= Rabs r <= 2)%R).
  { unfold r, Rdiv. rewrite Rabs_mult, Rabs_inv.
    assert (1 < / Rabs (B2R (mnt y)) <= 2)%R.
    { split. rewrite <- Rinv_1 at 1. apply Rinv_lt_contravar; lra.
      replace 2%R with (/ / 2)%R by field. apply Rinv_le_contravar; lra. }
    split.
    - apply Rle_trans with (/2 * 1)%R; [lra|]. apply Rmult_le_compat; lra.
    - apply Rle_trans with (1 * 2)%R; [|lra]. apply Rmult_le_compat; try apply Rabs_pos; try lra. }
  destruct (rnd_bounds r Hb) as [_ [Hov _]].
  pose proof (Bdiv_correct 53 1024 _ _ mode_NE (mnt x) (mnt y) Zy) as HB.
  change (round_mode mode_NE) with ZnearestE in HB. fold r in HB.
  rewrite Rlt_bool_true in HB by assumption. destruct HB as [H1 [H2 _]].
  rewrite (proj1 Nx) in H2.
  destruct (feq0_false_rnd _ r H2 H1 Hb) as [Q _].
  rewrite (set_esp_exact (fdiv (mnt x) (mnt y)) (esp x) (esp x) (esp y) true Q)
    by (unfold in_long, LONG_MAX, LONG_MIN in *; lia).
  replace (rval x / rval y)%R with (r * bpow radix2 (esp x - esp y))%R.
  2:{ unfold rval, r, Z.sub. rewrite bpow_plus, bpow_opp. field. split.
      apply Rgt_not_eq, bpow_gt_0. exact Zy. }
  apply norm_round_rel; assumption.
Qed.

(* rdpe_sqr on exponent overflow / underflow: exactly RDPE_MAX / RDPE_MIN *)
(* equality of DPE values as the C code sees them: same exponent, same bit pattern of the mantissa *)
Definition same_rdpe (a b : rdpe) : Prop := esp a = esp b /\ to_bits (mnt a) = to_bits (mnt b).
Lemma sqr_saturates : forall x, normalised x -> nonzero x -> in_long (esp x) ->
  (LONG_MAX < esp x + esp x -> same_rdpe (rdpe_sqr x) RDPE_MAX) /\
  (esp x + esp x < LONG_MIN -> same_rdpe (rdpe_sqr x) RDPE_MIN).
Proof.
  intros x Nx Zx Lx.
  pose proof (normalised_bounds x Nx Zx) as Bx.
  unfold rdpe_sqr.
  set (r := (B2R (mnt x) * B2R (mnt x))%R).
  assert (Hb : (/4 <= Rabs r <= 2)%R).
  { unfold r. rewrite Rabs_mult. split.
    - replace (/4)%R with (/2 * /2)%R by field. apply Rmult_le_compat; lra.
    - apply Rle_trans with (1 * 1)%R; [|lra]. apply Rmult_le_compat; try apply Rabs_pos; lra. }
  destruct (rnd_bounds r Hb) as [[B1 _] [Hov _]].
  pose proof (Bmult_correct 53 1024 _ _ mode_NE (mnt x) (mnt x)) as HB.
  change (round_mode mode_NE) with ZnearestE in HB. fold r in HB.
  rewrite Rlt_bool_true in HB by assumption. destruct HB as [H1 [H2 _]].
  rewrite (proj1 Nx) in H2. simpl in H2.
  destruct (feq0_false_rnd _ r H2 H1 Hb) as [_ Nz].
  assert (Pos : (0 <= r)%R) by (unfold r; nra).
  assert (L : flt0 (fmul (mnt x) (mnt x)) = false).
  { destruct (flt0 (fmul (mnt x) (mnt x))) eqn:E; [|reflexivity]. apply (flt0_spec _ H2) in E.
    exfalso. unfold fmul in E. rewrite H1 in E.
    assert (0 <= rnd64 r)%R by (apply round_ge_generic; try typeclasses eauto; [apply generic_format_0|assumption]).
    lra. }
  destruct (set_esp_saturates (fmul (mnt x) (mnt x)) (esp x) (esp x) (esp x) false H2 Nz Lx Lx) as [_ [_ [Ho Hu]]].
  cbv zeta in Ho, Hu. rewrite L in Ho, Hu. split; intro H.
  - rewrite (Ho H). vm_compute. split; reflexivity.
  - rewrite (Hu H). vm_compute. split; reflexivity.
Qed.

Lemma B2R_fone : B2R fone = 1%R.
Proof. unfold fone, B2R, F2R; simpl. unfold Z.pow_pos; simpl. lra. Qed.

(* rdpe_inv *)
Lemma inv_rel : forall x, normalised x -> nonzero x ->
  LONG_MIN + 1 <= - esp x <= LONG_MAX - 2 ->
  normalised (rdpe_inv x) /\
  (Rabs (rval (rdpe_inv x) - / rval x) <= bpow radix2 (-53) * Rabs (/ rval x))%R.
Proof.
  intros x Nx Zx HE.
  pose proof (normalised_bounds x Nx Zx) as Bx.
  unfold rdpe_inv.
  set (r := (B2R fone / B2R (mnt x))%R).
  assert (Hb : (/4 <= Rabs r <= 2)%R).
  { unfold r, Rdiv. rewrite B2R_fone, Rmult_1_l, Rabs_inv.
    assert (1 < / Rabs (B2R (mnt x)) <= 2)%R.
    { split. rewrite <- Rinv_1 at 1. apply Rinv_lt_contravar; lra.
      replace 2%R with (/ / 2)%R by field. apply Rinv_le_contravar; lra. }
    lra. }
  destruct (rnd_bounds r Hb) as [_ [Hov _]].
  pose proof (Bdiv_correct 53 1024 _ _ mode_NE fone (mnt x) Zx) as HB.
  change (round_mode mode_NE) with ZnearestE in HB. fold r in HB.
  rewrite Rlt_bool_true in HB by assumption. destruct HB as [H1 [H2 _]].
  change (is_finite fone) with true in H2.
  destruct (feq0_false_rnd _ r H2 H1 Hb) as [Q _].
  rewrite (set_esp_exact (fdiv fone (mnt x)) (esp x) 0 (esp x) true Q)
    by (unfold in_long, LONG_MAX, LONG_MIN in *; lia).
  replace (/ rval x)%R with (r * bpow radix2 (0 - esp x))%R.
  2:{ unfold rval, r. rewrite B2R_fone. change (0 - esp x) with (- esp x). rewrite bpow_opp. field. split.
      apply Rgt_not_eq, bpow_gt_0. exact Zx. }
  apply norm_round_rel; assumption.
Qed.

(* ---- conversion from double ---------------------------------------------------------------- *)
Lemma conv_double : forall d : b64, is_finite d = true ->
  normalised (rdpe_set_d d) /\ rval (rdpe_set_d d) = B2R d.
Proof.
  intros d Hd. unfold rdpe_set_d.
  assert (Hl : in_long (0 + snd (ffrexp d))).
  { pose proof (ffrexp_spec d Hd) as S. destruct (ffrexp d) as [z i]. simpl.
    destruct S as [_ [_ [[_ [_ [Hi _]]]|[Hn [_ [Hi _]]]]]].
    - subst i. unfold in_long, LONG_MIN, LONG_MAX. lia.
    - assert (i <= 1024).
      { rewrite Hi. apply mag_le_bpow. assumption. apply abs_B2R_lt_emax. }
      assert (-1074 < i).
      { rewrite Hi. apply mag_gt_bpow.
        apply (abs_B2R_ge_emin 53 1024 d). apply is_finite_strict_B2R. assumption. }
      unfold in_long, LONG_MIN, LONG_MAX. lia. }
  destruct (norm_exact d 0 Hd Hl) as [N V]. split; [assumption|].
  rewrite V. unfold rval; simpl. ring.
Qed.

(* ---- where the code does not saturate: concrete witnesses (replayed on the real code by checks/C12.py) -- *)
Definition two62 : Z := 4611686018427387904.
Lemma saturates_refuted :
  (* sqr (0.5 * 2^(2^62)): true value 2^(2^63 - 2) overflows; the exponent wraps instead *)
  (esp (rdpe_sqr_old (Rdpe fhalf two62)) = LONG_MAX /\ to_bits (mnt (rdpe_sqr_old (Rdpe fhalf two62))) = to_bits fhalf /\
   esp (rdpe_sqr_old (Rdpe fhalf (two62 + 1))) = LONG_MIN + 1) /\
  (* sqrt (RDPE_MAX): (e + 1) / 2 wraps *)
  esp (rdpe_sqrt_old RDPE_MAX) = - two62 /\
  (* inv (0.5 * 2^LONG_MIN): - LONG_MIN wraps *)
  esp (rdpe_inv_old (Rdpe fhalf LONG_MIN)) = LONG_MIN + 2 /\
  (* rdpe_mul as it was: exponent underflow returns RDPE_MAX *)
  (esp (rdpe_mul_old (Rdpe fhalf LONG_MIN) (Rdpe fhalf (-1))) = LONG_MAX /\
   to_bits (mnt (rdpe_mul_old (Rdpe fhalf LONG_MIN) (Rdpe fhalf (-1)))) = to_bits fhalf) /\
  (* rdpe_get_d as it was: 0.5 * 2^(2^32) converts to 0.5 *)
  to_bits (rdpe_get_d_old (Rdpe fhalf 4294967296)) = to_bits fhalf /\
  (* rdpe_mul_2exp as it was: unsigned addition wraps *)
  esp (rdpe_mul_2exp_old (Rdpe fhalf LONG_MAX) 1) = LONG_MIN.
Proof. vm_compute. repeat split; reflexivity. Qed.

(* the same operands through the repaired code: saturated *)
Lemma saturates_witnesses_fixed :
  (esp (rdpe_sqr (Rdpe fhalf two62)) = LONG_MAX /\ esp (rdpe_sqr (Rdpe fhalf (two62 + 1))) = LONG_MAX /\
   to_bits (mnt (rdpe_sqr (Rdpe fhalf (two62 + 1)))) = to_bits fhalf) /\
  esp (rdpe_sqrt RDPE_MAX) = two62 /\
  (esp (rdpe_inv (Rdpe fhalf LONG_MIN)) = LONG_MAX /\ to_bits (mnt (rdpe_inv (Rdpe fhalf LONG_MIN))) = to_bits fhalf) /\
  esp (rdpe_mul_2exp (Rdpe fhalf LONG_MAX) 1) = LONG_MAX /\
  rdpe_mul_2exp rdpe_zero 5 = rdpe_zero.
Proof. vm_compute. repeat split; reflexivity. Qed.

Lemma cmp_unfixed_refuted :
  rdpe_cmp_old (Rdpe fhalf LONG_MAX) (Rdpe fhalf LONG_MIN) = -1 /\
  rdpe_cmp (Rdpe fhalf LONG_MAX) (Rdpe fhalf LONG_MIN) = 1.
Proof. vm_compute. split; reflexivity. Qed.

(* ---- concrete normalised values (non-vacuity) ------------------------------------------------ *)
Lemma normalised_half : forall e, normalised (Rdpe fhalf e).
Proof. intro e. split. reflexivity. right. simpl mnt. rewrite B2R_fhalf, Rabs_pos_eq; lra. Qed.
Lemma normalised_mhalf : forall e, normalised (Rdpe fmhalf e).
Proof. intro e. split. reflexivity. right. simpl mnt. rewrite B2R_fmhalf, Rabs_left; lra. Qed.
Lemma nonzero_half : forall e, nonzero (Rdpe fhalf e).
Proof. intro e. unfold nonzero; simpl mnt. rewrite B2R_fhalf. lra. Qed.

(* ---- rdpe_cmp (repaired code), in the cases rdpe_sub computes the difference exactly ---------- *)
Definition cmp_R (a b : R) : Z := match Rcompare a b with Lt => -1 | Eq => 0 | Gt => 1 end.

Lemma cmp_of_sub_sign : forall x y, sub_sign_ok x y -> rdpe_cmp x y = cmp_R (rval x) (rval y).
Proof.
  intros x y [Ft [Sp Sn]]. unfold rdpe_cmp, rdpe_cmp_gen, cmp_R.
  destruct (sign_bools _ Ft) as [[S [G [L _]]]|[[S [G [L _]]]|[S [G [L _]]]]]; rewrite G; try rewrite L.
  - apply Sp in S. rewrite Rcompare_Gt by assumption. reflexivity.
  - apply Sn in S. rewrite Rcompare_Lt by assumption. reflexivity.
  - destruct (Rcompare_spec (rval x) (rval y)) as [H|H|H]; try reflexivity; exfalso.
    + apply Sn in H. lra.
    + apply Sp in H. lra.
Qed.

Lemma cmp_correct_partial : forall x y, normalised x -> normalised y -> in_long (esp x) ->
  (B2R (mnt y) = 0%R \/ B2R (mnt x) = 0%R \/
   (esp x = esp y /\ ((0 < B2R (mnt x))%R /\ (0 < B2R (mnt y))%R \/ (B2R (mnt x) < 0)%R /\ (B2R (mnt y) < 0)%R))) ->
  rdpe_cmp x y = cmp_R (rval x) (rval y).
Proof.
  intros x y Nx Ny Lx H. apply cmp_of_sub_sign.
  destruct H as [H|[H|[He Hs]]].
  - apply sub_sign_zero_r; assumption.
  - destruct (Req_dec (B2R (mnt y)) 0) as [Hy|Hy].
    + apply sub_sign_zero_r; assumption.
    + apply sub_sign_zero_l; assumption.
  - apply sub_sign_same_exp; assumption.
Qed.

(* ---- rdpe_add / rdpe_sub: the |delta| > 53 shortcut ------------------------------------------------ *)
Lemma esp_distance_exact : forall a b, in_long a -> in_long b -> in_long (a - b) -> esp_distance a b = a - b.
Proof.
  intros a b [A1 A2] [B1 B2] [C1 C2]. unfold esp_distance.
  assert (E1 : (b <? 0) && (LONG_MAX + b <? a) = false) by (unfold LONG_MAX, LONG_MIN in *; lia).
  assert (E2 : (0 <? b) && (a <? LONG_MIN + b) = false) by (unfold LONG_MAX, LONG_MIN in *; lia).
  rewrite E1, E2. reflexivity.
Qed.

Lemma esp_distance_gt : forall a b, in_long a -> in_long b -> 53 < a - b -> NBT <? esp_distance a b = true.
Proof.
  intros a b [A1 A2] [B1 B2] H. unfold esp_distance, NBT.
  destruct ((b <? 0) && (LONG_MAX + b <? a)) eqn:E1. unfold LONG_MAX; reflexivity.
  assert (E2 : (0 <? b) && (a <? LONG_MIN + b) = false) by (unfold LONG_MAX, LONG_MIN in *; lia).
  rewrite E2. lia.
Qed.

(* dropping an operand more than 53 binades below the other costs at most 2 ulps of the exact sum *)
Lemma drop_small_rel : forall x y, normalised x -> normalised y -> nonzero x -> nonzero y ->
  53 < esp x - esp y -> forall s : R, (s = rval y \/ s = - rval y)%R ->
  (Rabs (rval x - (rval x + s)) <= 2 * bpow radix2 (-53) * Rabs (rval x + s))%R.
Proof.
  intros x y Nx Ny Zx Zy He s Hs.
  pose proof (rval_bounds x Nx Zx) as [Bx _]. pose proof (rval_bounds y Ny Zy) as [_ By].
  set (P := bpow radix2 (esp x - 54)).
  assert (HP : (0 < P)%R) by apply bpow_gt_0.
  assert (HY : (Rabs s < P)%R).
  { apply Rlt_le_trans with (bpow radix2 (esp y)).
    - destruct Hs as [Hs|Hs]; rewrite Hs; [|rewrite Rabs_Ropp]; assumption.
    - apply bpow_le. lia. }
  set (T := bpow radix2 53). set (u := bpow radix2 (-53)).
  assert (HT : (2 <= T)%R) by (change 2%R with (bpow radix2 1); apply bpow_le; lia).
  assert (Hu : (u * T = 1)%R) by (unfold u, T; rewrite <- bpow_plus; reflexivity).
  assert (Hu0 : (0 < u)%R) by apply bpow_gt_0.
  assert (HX : (T * P <= Rabs (rval x))%R).
  { unfold T, P. rewrite <- bpow_plus. replace (53 + (esp x - 54)) with (esp x - 1) by ring. assumption. }
  replace (rval x - (rval x + s))%R with (- s)%R by ring. rewrite Rabs_Ropp.
  assert (Htri : (Rabs (rval x) - Rabs s <= Rabs (rval x + s))%R).
  { replace (rval x) with ((rval x + s) + - s)%R at 1 by ring.
    pose proof (Rabs_triang (rval x + s) (- s)) as K. rewrite Rabs_Ropp in K. lra. }
  assert (Hu2 : (u <= /2)%R) by nra.
  apply Rle_trans with P; [lra|].
  apply Rle_trans with (2 * u * (T * P - P))%R.
  - replace (2 * u * (T * P - P))%R with (2 * (u * T) * P - 2 * u * P)%R by ring. rewrite Hu. nra.
  - apply Rmult_le_compat_l; [nra|]. lra.
Qed.

Lemma add_shortcut_rel : forall x y, normalised x -> normalised y -> nonzero x -> nonzero y ->
  in_long (esp x) -> in_long (esp y) -> esp x < LONG_MAX -> 53 < esp x - esp y ->
  rdpe_add x y = x /\
  (Rabs (rval (rdpe_add x y) - (rval x + rval y)) <= 2 * bpow radix2 (-53) * Rabs (rval x + rval y))%R.
Proof.
  intros x y Nx Ny Zx Zy Lx Ly Hmax He.
  assert (E : rdpe_add x y = x).
  { unfold rdpe_add, both_max.
    replace (esp x =? LONG_MAX) with false by lia. rewrite !andb_false_r. simpl.
    unfold rdpe_add_core, rdpe_add_core_gen.
    destruct (feq0 (mnt y)) eqn:Qy; [reflexivity|].
    destruct (feq0 (mnt x)) eqn:Qx. { apply (feq0_spec _ (proj1 Nx)) in Qx. contradiction. }
    cbv zeta. rewrite (esp_distance_gt _ _ Lx Ly He). reflexivity. }
  split; [assumption|]. rewrite E. apply (drop_small_rel x y Nx Ny Zx Zy He (rval y)). left; reflexivity.
Qed.

Lemma sub_shortcut_rel : forall x y, normalised x -> normalised y -> nonzero x -> nonzero y ->
  in_long (esp x) -> in_long (esp y) -> 53 < esp x - esp y ->
  rdpe_sub x y = x /\
  (Rabs (rval (rdpe_sub x y) - (rval x - rval y)) <= 2 * bpow radix2 (-53) * Rabs (rval x - rval y))%R.
Proof.
  intros x y Nx Ny Zx Zy Lx Ly He.
  assert (E : rdpe_sub x y = x).
  { unfold rdpe_sub, rdpe_sub_gen.
    destruct (feq0 (mnt y)) eqn:Qy; [reflexivity|].
    destruct (feq0 (mnt x)) eqn:Qx. { apply (feq0_spec _ (proj1 Nx)) in Qx. contradiction. }
    cbv zeta. rewrite (esp_distance_gt _ _ Lx Ly He). reflexivity. }
  split; [assumption|]. rewrite E.
  replace (rval x - rval y)%R with (rval x + - rval y)%R by ring.
  apply (drop_small_rel x y Nx Ny Zx Zy He (- rval y)%R). right; reflexivity.
Qed.

(* ---- subtraction of same-sign operands with equal exponents (cancellation): exact, by Sterbenz ---- *)
Lemma ffrexp_exp_bound : forall m : b64, is_finite m = true -> -1074 <= snd (ffrexp m) <= 1024.
Proof.
  intros d Hd. pose proof (ffrexp_spec d Hd) as S. destruct (ffrexp d) as [z i]. simpl.
  destruct S as [_ [_ [[_ [_ [Hi _]]]|[Hn [_ [Hi _]]]]]].
  - subst i. lia.
  - assert (i <= 1024) by (rewrite Hi; apply mag_le_bpow; [assumption|apply abs_B2R_lt_emax]).
    assert (-1074 < i).
    { rewrite Hi. apply mag_gt_bpow.
      apply (abs_B2R_ge_emin 53 1024 d). apply is_finite_strict_B2R. assumption. }
    lia.
Qed.

Lemma sub_cancel_exact : forall x y, normalised x -> normalised y -> nonzero x -> nonzero y ->
  esp x = esp y -> LONG_MIN + 1074 <= esp x <= LONG_MAX - 1024 ->
  ((0 < B2R (mnt x))%R /\ (0 < B2R (mnt y))%R \/ (B2R (mnt x) < 0)%R /\ (B2R (mnt y) < 0)%R) ->
  normalised (rdpe_sub x y) /\ rval (rdpe_sub x y) = (rval x - rval y)%R.
Proof.
  intros x y Nx Ny Zx Zy He HE Hs.
  assert (Lx : in_long (esp x)) by (unfold in_long, LONG_MIN, LONG_MAX in *; lia).
  unfold rdpe_sub, rdpe_sub_gen.
  destruct (feq0 (mnt y)) eqn:Qy. { apply (feq0_spec _ (proj1 Ny)) in Qy. contradiction. }
  destruct (feq0 (mnt x)) eqn:Qx. { apply (feq0_spec _ (proj1 Nx)) in Qx. contradiction. }
  rewrite <- He, (esp_distance_same _ Lx). simpl.
  destruct (fsub_same_binade _ _ (proj1 Nx) (proj1 Ny) (normalised_bounds x Nx Zx) (normalised_bounds y Ny Zy) Hs) as [Ft Vt].
  pose proof (ffrexp_exp_bound _ Ft) as Bi.
  assert (Hl : in_long (esp x + snd (ffrexp (fsub (mnt x) (mnt y))))) by (unfold in_long, LONG_MIN, LONG_MAX in *; lia).
  destruct (norm_exact _ (esp x) Ft Hl) as [N V]. split; [assumption|].
  rewrite V. unfold rval. cbn [mnt esp]. rewrite Vt, <- He. ring.
Qed.

(* ---- rdpe_sqrt, even exponent --------------------------------------------------------------- *)
Lemma sqrt_rel_even : forall x, normalised x -> (0 < B2R (mnt x))%R -> Z.even (esp x) = true -> in_long (esp x) ->
  normalised (rdpe_sqrt x) /\
  (Rabs (rval (rdpe_sqrt x) - sqrt (rval x)) <= bpow radix2 (-53) * Rabs (sqrt (rval x)))%R.
Proof.
  intros x Nx Px Ev Lx.
  assert (Zx : nonzero x) by (unfold nonzero; lra).
  pose proof (normalised_bounds x Nx Zx) as Bx. rewrite Rabs_pos_eq in Bx by lra.
  unfold rdpe_sqrt. rewrite <- Z.negb_even, Ev. simpl negb. cbv iota.
  set (E := Z.quot (esp x) 2).
  assert (HE2 : esp x = 2 * E).
  { unfold E. pose proof (Z.quot_rem' (esp x) 2) as Q.
    assert (R0 : Z.rem (esp x) 2 = 0).
    { apply Z.even_spec in Ev. destruct Ev as [k Hk]. rewrite Hk. rewrite Z.mul_comm. apply Z.rem_mul. lia. }
    lia. }
  set (r := sqrt (B2R (mnt x))).
  assert (Hr1 : (/2 <= r)%R).
  { unfold r. replace (/2)%R with (sqrt (/2 * /2)) by (rewrite sqrt_square; lra).
    apply sqrt_le_1_alt. lra. }
  assert (Hr2 : (r <= 1)%R).
  { unfold r. rewrite <- sqrt_1. apply sqrt_le_1_alt. lra. }
  assert (Hb : (/4 <= Rabs r <= 2)%R) by (rewrite Rabs_pos_eq; lra).
  destruct (Bsqrt_correct 53 1024 _ _ mode_NE (mnt x)) as [H1 [H2 _]].
  change (round_mode mode_NE) with ZnearestE in H1. fold r in H1.
  assert (Ff : is_finite (fsqrt (mnt x)) = true).
  { unfold fsqrt. rewrite H2. destruct (mnt x) as [s|s| |s m e He]; simpl in *; try lra; try reflexivity.
    destruct s; [|reflexivity]. exfalso.
    assert (F2R (Float radix2 (cond_Zopp true (Z.pos m)) e) < 0)%R.
    { apply F2R_lt_0. simpl. lia. }
    lra. }
  replace (sqrt (rval x)) with (r * bpow radix2 E)%R.
  2:{ unfold rval, r. rewrite HE2, sqrt_mult; [|lra|apply bpow_ge_0]. rewrite sqrt_bpow. reflexivity. }
  apply norm_round_rel; try assumption.
  unfold in_long, LONG_MIN, LONG_MAX in *. lia.
Qed.

(* ---- cdpe_div_eq as it was: rc / c computed as c / c ------------------------------------------- *)
Lemma cdpe_div_eq_unfixed_refuted :
  let two := Cdpe (Rdpe fhalf 2) rdpe_zero in      (* 2 + 0i *)
  let four := Cdpe (Rdpe fhalf 3) rdpe_zero in     (* 4 + 0i *)
  (* as it was: 2 / 4 = 1 *)
  (esp (cre (cdpe_div_eq_old two four)) = 1 /\ to_bits (mnt (cre (cdpe_div_eq_old two four))) = to_bits fhalf) /\
  (* repaired: 2 / 4 = 1/2 *)
  (esp (cre (cdpe_div_eq two four)) = 0 /\ to_bits (mnt (cre (cdpe_div_eq two four))) = to_bits fhalf).
Proof. vm_compute. repeat split; reflexivity. Qed.
