(* C12 -- executable model, second part: the *_d variants as REPAIRED by
   fixes/C12_dpe_mul_d_mantissa_range.patch and fixes/C12_dpe_div_d_mantissa_range.patch.
   The code as it is (DpeModel.rdpe_mul_d, rdpe_div_d, cdpe_mul_d, cdpe_div_d, cdpe_mul_x) multiplies / divides the
   DPE mantissa by the raw double d, so the double operation itself under- or overflows when d is near the ends
   of the range of double (known findings rel:mul_d:..., rel:div_d:...).  The repair converts d with rdpe_set_d
   (as rdpe_add_d / rdpe_sub_d already do) and calls the DPE x DPE function:

     rdpe_mul_d (re, e, d)   { rdpe_t t; rdpe_set_d (t, d); rdpe_mul (re, e, t); }        rdpe_mul_eq_d: rdpe_mul_eq (e, t)
     rdpe_div_d (re, e, d)   { rdpe_t t; rdpe_set_d (t, d); rdpe_div (re, e, t); }        rdpe_div_eq_d: rdpe_div_eq (e, t)
     cdpe_mul_d (rc, c, d)   { rdpe_t t; rdpe_set_d (t, d); cdpe_mul_e (rc, c, t); }      cdpe_mul_eq_d: cdpe_mul_eq_e (c, t)
     cdpe_div_d (rc, c, d)   { rdpe_t t; rdpe_set_d (t, d); cdpe_div_e (rc, c, t); }      cdpe_div_eq_d: cdpe_div_eq_e (c, t)

   The names of DpeModel.v keep denoting the code as it is (other properties' models use them); the repaired
   functions carry the suffix _fix.  Definitions only. *)
From Coq Require Import ZArith Bool.
From Flocq Require Import Core BinarySingleNaN.
Require Import MPSV.Dpe.DpeDefs MPSV.Dpe.DpeModel.
Open Scope Z_scope.

Definition rdpe_mul_d_fix (x : rdpe) (d : b64) : rdpe := rdpe_mul x (rdpe_set_d d).
Definition rdpe_mul_eq_d_fix (x : rdpe) (d : b64) : rdpe := rdpe_mul_eq x (rdpe_set_d d).
Definition rdpe_div_d_fix (x : rdpe) (d : b64) : rdpe := rdpe_div x (rdpe_set_d d).
Definition cdpe_mul_d_fix (c : cdpe) (d : b64) : cdpe := cdpe_mul_e c (rdpe_set_d d).
Definition cdpe_div_d_fix (c : cdpe) (d : b64) : cdpe := cdpe_div_e c (rdpe_set_d d).
(* cdpe_mul_x / cdpe_mul_eq_x are unchanged by the patch; their four products are calls of the repaired rdpe_mul_d *)
Definition cdpe_mul_x_fix (c : cdpe) (xr xi : b64) : cdpe :=
  Cdpe (rdpe_sub (rdpe_mul_d_fix (cre c) xr) (rdpe_mul_d_fix (cim c) xi))
       (rdpe_add (rdpe_mul_d_fix (cim c) xr) (rdpe_mul_d_fix (cre c) xi)).

(* ---- saturation value of rdpe_set_esp / rdpe_shift_esp (specification level) -------------------------------- *)
(* +-1/2 with the sign of m *)
Definition half_sign (m : b64) : b64 := if flt0 m then fmhalf else fhalf.
(* the DPE with mantissa m and the (mathematical) exponent s, saturated to the range of long *)
Definition sat_rdpe (m : b64) (s : Z) : rdpe :=
  if in_longb s then Rdpe m s
  else Rdpe (half_sign m) (if LONG_MAX <? s then LONG_MAX else LONG_MIN).
Definition ULONG_MAX : Z := 18446744073709551615.
