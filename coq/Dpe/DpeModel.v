(* C12 -- executable model of the rdpe_* / cdpe_* functions of
   src/libmps/floating-point/mt.c, transcribed branch by branch.
   Where a `fix:` patch of this property changes the code (comparison operators,
   saturation of rdpe_mul*, the negative overflow branch of rdpe_add, the int cast
   of rdpe_get_d) the model follows the FIXED code and the code as it was is kept
   under the suffix _old (used by the *_refuted theorems).
   Definitions only. *)
From Coq Require Import ZArith Bool.
From Flocq Require Import Core BinarySingleNaN.
Require Import MPSV.Dpe.DpeDefs.
Open Scope Z_scope.

(* ---- setters / getters -------------------------------------------------- *)
Definition rdpe_set_d (d : b64) : rdpe := rdpe_norm (Rdpe d 0).
Definition rdpe_set_2dl (d : b64) (l : Z) : rdpe := rdpe_norm (Rdpe d l).
(* was: ldexp (m, (int) e) *)
Definition rdpe_get_d_old (x : rdpe) : b64 := fldexp (mnt x) (wrap32 (esp x)).
(* fixed: the exponent is clamped to [-4096, 4096] before the cast *)
Definition clamp_exp (l : Z) : Z := if 4096 <? l then 4096 else if l <? -4096 then -4096 else l.
Definition rdpe_get_d (x : rdpe) : b64 := fldexp (mnt x) (wrap32 (clamp_exp (esp x))).

(* ---- unary -------------------------------------------------------------- *)
Definition rdpe_neg (x : rdpe) : rdpe := Rdpe (fneg (mnt x)) (esp x).
Definition rdpe_abs (x : rdpe) : rdpe :=
  Rdpe (if fgt0 (mnt x) then mnt x else fneg (mnt x)) (esp x).
(* code as it was (exponent arithmetic wraps): kept for the *_refuted theorems *)
Definition rdpe_inv_old (x : rdpe) : rdpe :=
  rdpe_norm_old (Rdpe (fdiv fone (mnt x)) (wrap64 (- esp x))).
Definition rdpe_sqr_old (x : rdpe) : rdpe :=
  rdpe_norm_old (Rdpe (fmul (mnt x) (mnt x)) (wrap64 (esp x + esp x))).
Definition rdpe_sqrt_old (x : rdpe) : rdpe :=
  if Z.odd (esp x)
  then rdpe_norm_old (Rdpe (fsqrt (fdiv (mnt x) ftwo)) (Z.quot (wrap64 (esp x + 1)) 2))
  else rdpe_norm_old (Rdpe (fsqrt (mnt x)) (Z.quot (esp x) 2)).
(* fixed: mantissa first, then rdpe_set_esp, then rdpe_Norm *)
Definition rdpe_inv (x : rdpe) : rdpe :=
  rdpe_norm (rdpe_set_esp (Rdpe (fdiv fone (mnt x)) (esp x)) 0 (esp x) true).
Definition rdpe_sqr (x : rdpe) : rdpe :=
  rdpe_norm (rdpe_set_esp (Rdpe (fmul (mnt x) (mnt x)) (esp x)) (esp x) (esp x) false).
Definition rdpe_sqr_eq (x : rdpe) : rdpe := rdpe_sqr x.
(* odd exponent: e / 2 + (e > 0)  (C division truncates) *)
Definition rdpe_sqrt (x : rdpe) : rdpe :=
  if Z.odd (esp x)
  then rdpe_norm (Rdpe (fsqrt (fdiv (mnt x) ftwo)) (Z.quot (esp x) 2 + (if 0 <? esp x then 1 else 0)))
  else rdpe_norm (Rdpe (fsqrt (mnt x)) (Z.quot (esp x) 2)).

(* ---- multiplication ------------------------------------------------------ *)
Definition mul_ovf (a b : Z) : bool := (0 <=? a) && (LONG_MAX - a <=? b).
Definition mul_unf (a b : Z) : bool := (a <=? 0) && (b <=? LONG_MIN - a).

Definition rdpe_mul_old (x y : rdpe) : rdpe :=
  if mul_ovf (esp x) (esp y) then RDPE_MAX
  else if mul_unf (esp x) (esp y) then RDPE_MAX
  else rdpe_norm (Rdpe (fmul (mnt x) (mnt y)) (wrap64 (esp x + esp y))).

(* fixed: helper rdpe_mul_saturate (re, m1, m2, overflow) *)
Definition rdpe_mul_saturate (m1 m2 : b64) (overflow : bool) : rdpe :=
  if feq0 m1 || feq0 m2 || negb overflow then rdpe_zero
  else if xorb (flt0 m1) (flt0 m2) then Rdpe (fneg fhalf) LONG_MAX else RDPE_MAX.

Definition rdpe_mul (x y : rdpe) : rdpe :=
  if mul_ovf (esp x) (esp y) then rdpe_mul_saturate (mnt x) (mnt y) true
  else if mul_unf (esp x) (esp y) then rdpe_mul_saturate (mnt x) (mnt y) false
  else rdpe_norm (Rdpe (fmul (mnt x) (mnt y)) (wrap64 (esp x + esp y))).

(* frexp (d, &esp); tests on esp; m *= d; Norm *)
Definition rdpe_mul_d_old (x : rdpe) (d : b64) : rdpe :=
  let i := snd (ffrexp d) in
  if mul_ovf (esp x) i then RDPE_MAX
  else if mul_unf (esp x) i then RDPE_MAX
  else rdpe_norm (Rdpe (fmul (mnt x) d) (esp x)).
Definition rdpe_mul_d (x : rdpe) (d : b64) : rdpe :=
  let i := snd (ffrexp d) in
  if mul_ovf (esp x) i then rdpe_mul_saturate (mnt x) d true
  else if mul_unf (esp x) i then rdpe_mul_saturate (mnt x) d false
  else rdpe_norm (Rdpe (fmul (mnt x) d) (esp x)).

(* e + i with i unsigned long: computed modulo 2^64, converted back to long *)
Definition rdpe_mul_2exp_old (x : rdpe) (i : Z) : rdpe := Rdpe (mnt x) (wrap64 (esp x + i)).
Definition rdpe_div_2exp_old (x : rdpe) (i : Z) : rdpe := Rdpe (mnt x) (wrap64 (esp x - i)).
(* fixed: rdpe_Move (re, e); rdpe_shift_esp (re, i, sub) *)
Definition rdpe_mul_2exp (x : rdpe) (i : Z) : rdpe := rdpe_shift_esp x i false.
Definition rdpe_div_2exp (x : rdpe) (i : Z) : rdpe := rdpe_shift_esp x i true.

(* ---- division ------------------------------------------------------------ *)
Definition rdpe_div_old (x y : rdpe) : rdpe :=
  rdpe_norm_old (Rdpe (fdiv (mnt x) (mnt y)) (wrap64 (esp x - esp y))).
Definition rdpe_div (x y : rdpe) : rdpe :=
  rdpe_norm (rdpe_set_esp (Rdpe (fdiv (mnt x) (mnt y)) (esp x)) (esp x) (esp y) true).
Definition rdpe_div_d (x : rdpe) (d : b64) : rdpe :=
  rdpe_norm (Rdpe (fdiv (mnt x) d) (esp x)).

(* ---- addition / subtraction ---------------------------------------------- *)
(* delta = e1 - e2.  Code as it was: plain long subtraction (wraps). *)
Definition esp_distance_old (a b : Z) : Z := wrap64 (a - b).
(* fixed: helper rdpe_esp_distance, saturating at LONG_MIN / LONG_MAX
     if (e2 < 0 && e1 > LONG_MAX + e2) return LONG_MAX;
     if (e2 > 0 && e1 < LONG_MIN + e2) return LONG_MIN;   return e1 - e2; *)
Definition esp_distance (a b : Z) : Z :=
  if (b <? 0) && (LONG_MAX + b <? a) then LONG_MAX
  else if (0 <? b) && (a <? LONG_MIN + b) then LONG_MIN
  else a - b.

Section WithDistance.
Variable dist : Z -> Z -> Z.
(* common tail of rdpe_add, rdpe_add_eq *)
Definition rdpe_add_core_gen (x y : rdpe) : rdpe :=
  if feq0 (mnt y) then x
  else if feq0 (mnt x) then y
  else
    let delta := dist (esp x) (esp y) in
    if NBT <? delta then x
    else if delta <? - NBT then y
    else if delta =? 0 then rdpe_norm (Rdpe (fadd (mnt x) (mnt y)) (esp x))
    else if 0 <? delta then
      rdpe_norm (Rdpe (fadd (mnt x) (fldexp (mnt y) (wrap32 (wrap64 (- delta))))) (esp x))
    else
      rdpe_norm (Rdpe (fadd (fldexp (mnt x) (wrap32 delta)) (mnt y)) (esp y)).

Definition rdpe_sub_gen (x y : rdpe) : rdpe :=
  if feq0 (mnt y) then x
  else if feq0 (mnt x) then Rdpe (fneg (mnt y)) (esp y)
  else
    let delta := dist (esp x) (esp y) in
    if NBT <? delta then x
    else if delta <? - NBT then Rdpe (fneg (mnt y)) (esp y)
    else if delta =? 0 then rdpe_norm (Rdpe (fsub (mnt x) (mnt y)) (esp x))
    else if 0 <? delta then
      rdpe_norm (Rdpe (fsub (mnt x) (fldexp (mnt y) (wrap32 (wrap64 (- delta))))) (esp x))
    else
      rdpe_norm (Rdpe (fsub (fldexp (mnt x) (wrap32 delta)) (mnt y)) (esp y)).
End WithDistance.

Definition rdpe_add_core := rdpe_add_core_gen esp_distance.
Definition rdpe_sub := rdpe_sub_gen esp_distance.
Definition rdpe_add_core_old := rdpe_add_core_gen esp_distance_old.
Definition rdpe_sub_old := rdpe_sub_gen esp_distance_old.

Definition both_max (x y : rdpe) : bool := (esp x =? LONG_MAX) && (esp y =? LONG_MAX).

(* rdpe_add as fixed: the negative overflow branch is rdpe_set_2dl (re, -0.5, LONG_MAX);
   the original calls the decimal setter rdpe_set_dl (libm, out of this model) *)
Definition rdpe_add (x y : rdpe) : rdpe :=
  if fgt0 (mnt x) && fgt0 (mnt y) && both_max x y then RDPE_MAX
  else if flt0 (mnt x) && flt0 (mnt y) && both_max x y then rdpe_set_2dl fmhalf LONG_MAX
  else rdpe_add_core x y.
(* true when the original rdpe_add leaves the model (calls rdpe_set_dl) *)
Definition rdpe_add_old_out_of_model (x y : rdpe) : bool :=
  negb (fgt0 (mnt x) && fgt0 (mnt y) && both_max x y) && (flt0 (mnt x) && flt0 (mnt y) && both_max x y).
Definition rdpe_add_old (x y : rdpe) : rdpe :=
  if fgt0 (mnt x) && fgt0 (mnt y) && both_max x y then RDPE_MAX else rdpe_add_core_old x y.
Definition rdpe_add_eq (x y : rdpe) : rdpe := rdpe_add_core x y.
Definition rdpe_add_eq_old (x y : rdpe) : rdpe := rdpe_add_core_old x y.
Definition rdpe_sub_eq (x y : rdpe) : rdpe := rdpe_sub x y.

(* ---- _eq variants that differ only by aliasing ----------------------------- *)
Definition rdpe_mul_eq := rdpe_mul.
Definition rdpe_mul_eq_old := rdpe_mul_old.
Definition rdpe_inv_eq := rdpe_inv.

(* ---- integer power ---------------------------------------------------------- *)
(* while (i) { if (i & 1) re *= t; t = t*t; i >>= 1; }   (i > 0 here; 64 rounds suffice) *)
Fixpoint pow_loop (mul_eq : rdpe -> rdpe -> rdpe) (fuel : nat) (re t : rdpe) (i : Z) : rdpe :=
  match fuel with
  | O => re
  | S f =>
    if i =? 0 then re
    else pow_loop mul_eq f (if Z.odd i then mul_eq re t else re) (rdpe_sqr_eq t) (Z.shiftr i 1)
  end.
(* code as it was:  if (i < 0) { rdpe_inv (t, t); i = -i; }  while (i) { ...; i >>= 1; }  on a signed long:
   for i = LONG_MIN the negation wraps (UB), i stays negative and the arithmetic shift never reaches 0: the C loop
   does not terminate (C12_pow_si_long_min_refuted).  Repaired by fixes/C12_pow_si_long_min.patch: the loop runs on
   n = |i| as an unsigned long (2^63 for LONG_MIN, 64 rounds).  `neg` is the negation used: wrapping (old) or exact. *)
Definition rdpe_pow_si_gen (mul_eq : rdpe -> rdpe -> rdpe) (neg : Z -> Z) (x : rdpe) (i : Z) : rdpe :=
  let t := if i <? 0 then rdpe_inv x else x in
  let i' := if i <? 0 then neg i else i in
  pow_loop mul_eq 64 rdpe_one t i'.
Definition neg_wrap (i : Z) : Z := wrap64 (- i).
Definition rdpe_pow_si := rdpe_pow_si_gen rdpe_mul_eq Z.opp.
Definition rdpe_pow_si_old := rdpe_pow_si_gen rdpe_mul_eq_old neg_wrap.
(* the loop counter of the code as it was, after k rounds *)
Fixpoint pow_counter_old (k : nat) (i : Z) : Z := match k with O => i | S k' => pow_counter_old k' (Z.shiftr i 1) end.

(* ---- relational -------------------------------------------------------------- *)
Definition rdpe_cmp_gen (sub : rdpe -> rdpe -> rdpe) (x y : rdpe) : Z :=
  let t := sub x y in
  if fgt0 (mnt t) then 1 else if flt0 (mnt t) then -1 else 0.
Definition rdpe_cmp := rdpe_cmp_gen rdpe_sub.
Definition rdpe_cmp_old := rdpe_cmp_gen rdpe_sub_old.
Definition rdpe_sgn (x : rdpe) : Z :=
  if fgt0 (mnt x) then 1 else if flt0 (mnt x) then -1 else 0.
Definition rdpe_eq_zero (x : rdpe) : bool := feq0 (mnt x) && (esp x =? 0).
Definition rdpe_eq (x y : rdpe) : bool := feq (mnt x) (mnt y) && (esp x =? esp y).
Definition rdpe_ne (x y : rdpe) : bool := negb (feq (mnt x) (mnt y)) || negb (esp x =? esp y).
(* NB C's  m1 != m2  is true on NaN; feq is false on NaN, so negb feq agrees *)

(* the four ordering operators share their shape: two sign tests, an exponent
   shortcut for non-zero operands, then the sign of the difference *)
Inductive ordop := OLt | OLe | OGt | OGe.
Definition ord_final (o : ordop) (m : b64) : bool :=
  match o with OLt => flt0 m | OLe => fle0 m | OGt => fgt0 m | OGe => fge0 m end.
Definition ord_less (o : ordop) : bool := match o with OLt | OLe => true | _ => false end.

(* code as it was: (+,-) answers `less`; second test is dead; shortcut ignores the sign *)
Definition rdpe_ord_old (o : ordop) (x y : rdpe) : bool :=
  if fgt0 (mnt x) && flt0 (mnt y) then ord_less o
  else if flt0 (mnt x) && fgt0 (mnt x) then negb (ord_less o)
  else if negb (feq0 (mnt x)) && negb (feq0 (mnt y)) && (esp y <? esp x) then negb (ord_less o)
  else if negb (feq0 (mnt x)) && negb (feq0 (mnt y)) && (esp x <? esp y) then ord_less o
  else ord_final o (mnt (rdpe_sub_old x y)).

(* fixed code:
     if (m1 > 0 && m2 < 0) return !less;   if (m1 < 0 && m2 > 0) return less;
     if (m1 != 0 && m2 != 0) { if (e1 > e2) return less ? m1 < 0 : m1 > 0;
                               if (e2 > e1) return less ? m1 > 0 : m1 < 0; }
     rdpe_sub (t, e1, e2); return t <op> 0; *)
Definition rdpe_ord (o : ordop) (x y : rdpe) : bool :=
  if fgt0 (mnt x) && flt0 (mnt y) then negb (ord_less o)
  else if flt0 (mnt x) && fgt0 (mnt y) then ord_less o
  else if negb (feq0 (mnt x)) && negb (feq0 (mnt y)) && (esp y <? esp x)
       then (if ord_less o then flt0 (mnt x) else fgt0 (mnt x))
  else if negb (feq0 (mnt x)) && negb (feq0 (mnt y)) && (esp x <? esp y)
       then (if ord_less o then fgt0 (mnt x) else flt0 (mnt x))
  else ord_final o (mnt (rdpe_sub x y)).

Definition rdpe_lt := rdpe_ord OLt.
Definition rdpe_le := rdpe_ord OLe.
Definition rdpe_gt := rdpe_ord OGt.
Definition rdpe_ge := rdpe_ord OGe.
Definition rdpe_lt_old := rdpe_ord_old OLt.
Definition rdpe_le_old := rdpe_ord_old OLe.
Definition rdpe_gt_old := rdpe_ord_old OGt.
Definition rdpe_ge_old := rdpe_ord_old OGe.

(* ---- complex ------------------------------------------------------------------- *)
Definition cdpe_smod (c : cdpe) : rdpe := rdpe_add_eq (rdpe_sqr (cre c)) (rdpe_sqr (cim c)).
Definition cdpe_mod (c : cdpe) : rdpe := rdpe_sqrt (cdpe_smod c).
Definition cdpe_add (a b : cdpe) : cdpe := Cdpe (rdpe_add (cre a) (cre b)) (rdpe_add (cim a) (cim b)).
Definition cdpe_sub (a b : cdpe) : cdpe := Cdpe (rdpe_sub (cre a) (cre b)) (rdpe_sub (cim a) (cim b)).

Section WithMul.
Variable mul : rdpe -> rdpe -> rdpe.   (* rdpe_mul or rdpe_mul_old *)

Definition cdpe_mul_gen (a b : cdpe) : cdpe :=
  Cdpe (rdpe_sub (mul (cre a) (cre b)) (mul (cim a) (cim b)))
       (rdpe_add (mul (cim a) (cre b)) (mul (cre a) (cim b))).
Definition cdpe_inv_gen (c : cdpe) : cdpe :=
  let e := rdpe_inv_eq (cdpe_smod c) in
  Cdpe (mul (cre c) e) (mul (rdpe_neg (cim c)) e).
(* rdpe_shift_esp (Im, 1, 0) after the product *)
Definition cdpe_sqr_gen (c : cdpe) : cdpe :=
  let e1 := mul (cre c) (cre c) in
  let e2 := mul (cim c) (cim c) in
  let im := mul (cim c) (cre c) in
  Cdpe (rdpe_sub e1 e2) (rdpe_shift_esp im 1 false).
Definition cdpe_sqr_eq_gen (c : cdpe) : cdpe :=
  let e1 := rdpe_sqr (cre c) in
  let e2 := rdpe_sqr (cim c) in
  let im := mul (cim c) (cre c) in
  Cdpe (rdpe_sub e1 e2) (rdpe_shift_esp im 1 false).
End WithMul.

Definition cdpe_mul_e (c : cdpe) (e : rdpe) : cdpe :=
  cdpe_norm (Cdpe (rdpe_set_esp (Rdpe (fmul (mnt (cre c)) (mnt e)) (esp (cre c))) (esp (cre c)) (esp e) false)
                  (rdpe_set_esp (Rdpe (fmul (mnt (cim c)) (mnt e)) (esp (cim c))) (esp (cim c)) (esp e) false)).
Definition cdpe_div_e (c : cdpe) (e : rdpe) : cdpe :=
  cdpe_norm (Cdpe (rdpe_set_esp (Rdpe (fdiv (mnt (cre c)) (mnt e)) (esp (cre c))) (esp (cre c)) (esp e) true)
                  (rdpe_set_esp (Rdpe (fdiv (mnt (cim c)) (mnt e)) (esp (cim c))) (esp (cim c)) (esp e) true)).
Definition cdpe_mul_2exp (c : cdpe) (i : Z) : cdpe := Cdpe (rdpe_shift_esp (cre c) i false) (rdpe_shift_esp (cim c) i false).
Definition cdpe_div_2exp (c : cdpe) (i : Z) : cdpe := Cdpe (rdpe_shift_esp (cre c) i true) (rdpe_shift_esp (cim c) i true).
Definition cdpe_mul_d (c : cdpe) (d : b64) : cdpe :=
  cdpe_norm (Cdpe (Rdpe (fmul (mnt (cre c)) d) (esp (cre c))) (Rdpe (fmul (mnt (cim c)) d) (esp (cim c)))).
Definition cdpe_div_d (c : cdpe) (d : b64) : cdpe :=
  cdpe_norm (Cdpe (Rdpe (fdiv (mnt (cre c)) d) (esp (cre c))) (Rdpe (fdiv (mnt (cim c)) d) (esp (cim c)))).

Definition cdpe_div_gen (mul : rdpe -> rdpe -> rdpe) (a b : cdpe) : cdpe :=
  let t0 := cdpe_div_e b (cdpe_smod b) in
  let t := Cdpe (cre t0) (rdpe_neg (cim t0)) in
  cdpe_mul_gen mul a t.

Fixpoint cpow_loop (mul : rdpe -> rdpe -> rdpe) (fuel : nat) (rc t : cdpe) (i : Z) : cdpe :=
  match fuel with
  | O => rc
  | S f =>
    if i =? 0 then rc
    else cpow_loop mul f (if Z.odd i then cdpe_mul_gen mul rc t else rc) (cdpe_sqr_eq_gen mul t) (Z.shiftr i 1)
  end.
Definition cdpe_pow_si_gen (mul : rdpe -> rdpe -> rdpe) (neg : Z -> Z) (c : cdpe) (i : Z) : cdpe :=
  let t := if i <? 0 then cdpe_inv_gen mul c else c in
  let i' := if i <? 0 then neg i else i in
  cpow_loop mul 64 cdpe_one t i'.

Definition cdpe_mul := cdpe_mul_gen rdpe_mul.
Definition cdpe_inv := cdpe_inv_gen rdpe_mul.
Definition cdpe_sqr := cdpe_sqr_gen rdpe_mul.
Definition cdpe_sqr_eq := cdpe_sqr_eq_gen rdpe_mul.
Definition cdpe_div := cdpe_div_gen rdpe_mul.
Definition cdpe_pow_si := cdpe_pow_si_gen rdpe_mul Z.opp.
Definition cdpe_mul_old := cdpe_mul_gen rdpe_mul_old.
Definition cdpe_inv_old := cdpe_inv_gen rdpe_mul_old.
Definition cdpe_sqr_old := cdpe_sqr_gen rdpe_mul_old.
Definition cdpe_sqr_eq_old := cdpe_sqr_eq_gen rdpe_mul_old.
Definition cdpe_div_old := cdpe_div_gen rdpe_mul_old.
Definition cdpe_pow_si_old := cdpe_pow_si_gen rdpe_mul_old neg_wrap.

Definition cdpe_set_d (dr di : b64) : cdpe := cdpe_norm (Cdpe (Rdpe dr 0) (Rdpe di 0)).
Definition cdpe_get_d (c : cdpe) : b64 * b64 := (rdpe_get_d (cre c), rdpe_get_d (cim c)).
Definition cdpe_get_d_old (c : cdpe) : b64 * b64 := (rdpe_get_d_old (cre c), rdpe_get_d_old (cim c)).

(* ---- the remaining public functions: compositions and structural operations ---------------------- *)
Definition rdpe_add_d (x : rdpe) (d : b64) : rdpe := rdpe_add x (rdpe_set_d d).
Definition rdpe_sub_d (x : rdpe) (d : b64) : rdpe := rdpe_sub x (rdpe_set_d d).
Definition rdpe_add_eq_d (x : rdpe) (d : b64) : rdpe := rdpe_add_eq x (rdpe_set_d d).
Definition rdpe_sub_eq_d (x : rdpe) (d : b64) : rdpe := rdpe_sub_eq x (rdpe_set_d d).
Definition cdpe_neg (c : cdpe) : cdpe := Cdpe (rdpe_neg (cre c)) (rdpe_neg (cim c)).
Definition cdpe_con (c : cdpe) : cdpe := Cdpe (cre c) (rdpe_neg (cim c)).
Definition cdpe_rot (c : cdpe) : cdpe := Cdpe (rdpe_neg (cim c)) (cre c).
Definition cdpe_flip (c : cdpe) : cdpe := Cdpe (cim c) (cre c).
(* rdpe_add_eq has no LONG_MAX pre-checks *)
Definition cdpe_add_eq (a b : cdpe) : cdpe := Cdpe (rdpe_add_eq (cre a) (cre b)) (rdpe_add_eq (cim a) (cim b)).
Definition cdpe_sub_eq (a b : cdpe) : cdpe := cdpe_sub a b.
Definition cdpe_set_2dl (dr : b64) (lr : Z) (di : b64) (li : Z) : cdpe := cdpe_norm (Cdpe (Rdpe dr lr) (Rdpe di li)).
(* cdpe_mul_x / cdpe_mul_eq_x: the products are rdpe_mul_d *)
Definition cdpe_mul_x (c : cdpe) (xr xi : b64) : cdpe :=
  Cdpe (rdpe_sub (rdpe_mul_d (cre c) xr) (rdpe_mul_d (cim c) xi))
       (rdpe_add (rdpe_mul_d (cim c) xr) (rdpe_mul_d (cre c) xi)).
(* cdpe_div_eq (rc, c), fixed by fixes/C12_cdpe_div_eq.patch: rc * conj(c)/|c|^2 *)
Definition cdpe_div_eq (rc c : cdpe) : cdpe := cdpe_div rc c.
(* as it was: the four products read c instead of rc, i.e. c * conj(c)/|c|^2 whatever rc is *)
Definition cdpe_div_eq_old (rc c : cdpe) : cdpe := cdpe_div c c.
Definition cdpe_eq_zero (c : cdpe) : bool := rdpe_eq_zero (cre c) && rdpe_eq_zero (cim c).
Definition cdpe_eq (a b : cdpe) : bool := rdpe_eq (cre a) (cre b) && rdpe_eq (cim a) (cim b).
Definition cdpe_ne (a b : cdpe) : bool := rdpe_ne (cre a) (cre b) || rdpe_ne (cim a) (cim b).
